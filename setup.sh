#!/bin/bash
# Offline setup after a fresh restore: build the whole Lean library (all Props modules) once.
set -e
cd "$(dirname "$0")/lean"
flock .lake.lock lake build NutilsVerif 2>&1 | tail -5
