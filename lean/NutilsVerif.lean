-- Root of the `NutilsVerif` library: every property's theorem file (setup.sh builds this target).
import NutilsVerif.Core.Proto
import NutilsVerif.Props.C15
import NutilsVerif.Props.C01
import NutilsVerif.Props.Poly
import NutilsVerif.Props.C01Driver
import NutilsVerif.Props.C10
import NutilsVerif.Props.C12
import NutilsVerif.Props.C05
import NutilsVerif.Props.C05Eval
import NutilsVerif.Props.C13
import NutilsVerif.Props.C16
import NutilsVerif.Props.C17
import NutilsVerif.Props.C07
import NutilsVerif.Props.C08
import NutilsVerif.Props.C14
import NutilsVerif.Props.C18
import NutilsVerif.Props.C02
