/-!
# C08 — differential-geometric operators: executable model (no Mathlib)

Mirrors, over exact rationals,

* `numeric.ext`, `transform.Updim.ext` / `isflipped`, `SimplexEdge`, `SimplexChild`, `TensorEdge1/2`, `TensorChild`,
  `ScaledUpdim` (src/nutils/transform.py, numeric.py) and the reference-element tables `edge_transforms`,
  `edge_refs`, `child_transforms`, `volume`, `centroid` of `SimplexReference` / `TensorReference` (element.py);
* `evaluable.TransformBasis._transform_basis`, `TransformLinear._transform_linear` (chain products);
* the algebra of `evaluable.Orthonormal.evalf` (before normalisation), `grammium`, `sqrt_abs_det_gram` (squared),
  and of `function._Gradient`, `_SurfaceGradient`, `_Jacobian`, `_Normal`, `_ExteriorNormal` for affine maps;
* the *specification* side: formal partial derivatives of multivariate polynomials and the operators grad, div,
  curl, laplace, symgrad defined from them (`MPoly`, `pderiv`, `gradSpec`, …).

Everything here is a small total function on lists of rationals so that `decide +kernel` can run it on the tables
extracted from the source (`Generated/C08.lean`) and `Drivers/C08.lean` can run it on harness requests.
-/
namespace NutilsVerif.C08

abbrev Vec := List Rat
/-- matrix as list of rows -/
abbrev Mat := List (List Rat)

/-! ## small linear algebra -/

def vsum (l : List Rat) : Rat := l.foldr (· + ·) 0
def dot (a b : Vec) : Rat := vsum (List.zipWith (· * ·) a b)
def vadd (a b : Vec) : Vec := List.zipWith (· + ·) a b
def vsub (a b : Vec) : Vec := List.zipWith (· - ·) a b
def vscale (c : Rat) (a : Vec) : Vec := a.map (c * ·)
def vneg (a : Vec) : Vec := a.map (- ·)
def zeros (n : Nat) : Vec := List.replicate n 0
def unitVec (n i : Nat) : Vec := (List.range n).map fun j => if j = i then 1 else 0
def eye (n : Nat) : Mat := (List.range n).map (unitVec n)

def matVec (A : Mat) (v : Vec) : Vec := A.map (dot · v)
def col (A : Mat) (j : Nat) : Vec := A.map (·.getD j 0)
/-- transpose of a matrix with `ncols` columns (the column count is explicit: a matrix without rows has no width) -/
def transpose (A : Mat) (ncols : Nat) : Mat := (List.range ncols).map (col A)
/-- `A · B` where `B` has `ncolsB` columns -/
def matMul (A B : Mat) (ncolsB : Nat) : Mat := A.map fun r => (transpose B ncolsB).map (dot r)
/-- `Aᵀ · v` -/
def tMulVec (A : Mat) (ncols : Nat) (v : Vec) : Vec := (transpose A ncols).map (dot · v)
/-- append a column -/
def appendCol (A : Mat) (v : Vec) : Mat := List.zipWith (fun r x => r ++ [x]) A v
/-- prepend a column -/
def prependCol (v : Vec) (A : Mat) : Mat := List.zipWith (fun x r => x :: r) v A
/-- `numeric.blockdiag([A, B])` with explicit column counts -/
def blockdiag (A : Mat) (ca : Nat) (B : Mat) (cb : Nat) : Mat :=
  A.map (· ++ zeros cb) ++ B.map (zeros ca ++ ·)

/-- determinant of the leading `n × n` block by Laplace expansion along the first row -/
def det : Nat → Mat → Rat
  | 0, _ => 1
  | n+1, A =>
    match A with
    | [] => 0
    | r :: rest =>
      vsum ((List.range (n+1)).map fun j =>
        (if j % 2 = 0 then (1 : Rat) else -1) * r.getD j 0 * det n (rest.map fun row => row.eraseIdx j))

/-- `Aᵀ A` for a matrix with `k` columns (`evaluable.grammium`) -/
def gram (A : Mat) (k : Nat) : Mat := matMul (transpose A k) A k

def minorAt (A : Mat) (i j : Nat) : Mat := (A.eraseIdx i).map (·.eraseIdx j)

/-- inverse of an `n × n` matrix by the adjugate; `none` when singular -/
def inverse (n : Nat) (A : Mat) : Option Mat :=
  let d := det n A
  if d = 0 then none else
  some ((List.range n).map fun i => (List.range n).map fun j =>
    (if (i + j) % 2 = 0 then (1 : Rat) else -1) * det (n-1) (minorAt A j i) / d)

/-! ## `numeric.ext` and `Updim` -/

/-- `numeric.ext(A)` for `A` of shape `(n, n-1)`, `n ≤ 3`; `none` mirrors `NotImplementedError` / the shape assertion -/
def numericExt : Mat → Option Vec
  | [[]] => some [1]
  | [[a], [b]] => some [b, -a]
  | [[a, b], [c, d], [e, f]] => some [c*f - e*d, e*b - a*f, a*d - c*b]
  | _ => none

/-- `transform.Updim(linear, offset, isflipped)` -/
structure Updim where
  linear : Mat
  offset : Vec
  isflipped : Bool
deriving DecidableEq, Repr, Inhabited

/-- `transform.Square(linear, offset)` -/
structure Square where
  linear : Mat
  offset : Vec
deriving DecidableEq, Repr, Inhabited

def Updim.todims (u : Updim) : Nat := u.linear.length
def Updim.fromdims (u : Updim) : Nat := u.linear.length - 1
def Square.ndims (s : Square) : Nat := s.linear.length

/-- `Updim.ext`: `numeric.ext(linear)`, negated when `isflipped` -/
def Updim.ext (u : Updim) : Option Vec :=
  (numericExt u.linear).map fun e => if u.isflipped then vneg e else e

def Updim.apply (u : Updim) (p : Vec) : Vec := vadd (matVec u.linear p) u.offset
def Square.apply (s : Square) (p : Vec) : Vec := vadd (matVec s.linear p) s.offset
/-- `Square.isflipped` = `det < 0` -/
def Square.isflipped (s : Square) : Bool := decide (det s.ndims s.linear < 0)
/-- `Updim.flipped` -/
def Updim.flipped (u : Updim) : Updim := { u with isflipped := !u.isflipped }

/-- vertices of the `n`-simplex: origin followed by the unit vectors -/
def simplexVertices (n : Nat) : Mat := zeros n :: eye n

/-- `SimplexEdge(ndims, iedge, inverted)`: the facet opposite vertex `iedge`; `isflipped = inverted ^ odd(iedge)` -/
def simplexEdge (n iedge : Nat) (inverted : Bool := false) : Updim :=
  let coords := (simplexVertices n).eraseIdx iedge
  let c0 := coords.headD []
  let diffs := coords.tail.map (vsub · c0)          -- rows = edge vectors
  { linear := transpose diffs n, offset := c0, isflipped := inverted != (iedge % 2 == 1) }

/-- `SimplexChild(ndims, ichild)`; `none` mirrors `NotImplementedError` -/
def simplexChild (n ichild : Nat) : Option Square :=
  let half : Mat := (eye n).map (vscale (1/2))
  if ichild ≤ n then
    some { linear := half, offset := if ichild = 0 then zeros n else half.getD (ichild-1) [] }
  else match n, ichild with
  | 2, 3 => some { linear := [[-1/2, 0], [1/2, 1/2]], offset := [1/2, 0] }
  | 3, 4 => some { linear := [[-1/2, 0, -1/2], [1/2, 1/2, 0], [0, 0, 1/2]], offset := [1/2, 0, 0] }
  | 3, 5 => some { linear := [[0, -1/2, 0], [1/2, 0, 0], [0, 1/2, 1/2]], offset := [1/2, 0, 0] }
  | 3, 6 => some { linear := [[1/2, 0, 0], [0, -1/2, 0], [0, 1/2, 1/2]], offset := [0, 1/2, 0] }
  | 3, 7 => some { linear := [[-1/2, 0, -1/2], [-1/2, -1/2, 0], [1/2, 1/2, 1/2]], offset := [1/2, 1/2, 0] }
  | _, _ => none

/-- `TensorEdge1(trans1, ndims2)` -/
def tensorEdge1 (t : Updim) (n2 : Nat) : Updim :=
  { linear := blockdiag t.linear t.fromdims (eye n2) n2, offset := t.offset ++ zeros n2, isflipped := t.isflipped }

/-- `TensorEdge2(ndims1, trans2)`: `isflipped = trans2.isflipped ^ odd(ndims1)` -/
def tensorEdge2 (n1 : Nat) (t : Updim) : Updim :=
  { linear := blockdiag (eye n1) n1 t.linear t.fromdims, offset := zeros n1 ++ t.offset,
    isflipped := t.isflipped != (n1 % 2 == 1) }

/-- `TensorChild(trans1, trans2)` -/
def tensorChild (a b : Square) : Square :=
  { linear := blockdiag a.linear a.ndims b.linear b.ndims, offset := a.offset ++ b.offset }

/-- `ScaledUpdim(trans1, trans2)` = `trans1 ∘ trans2`, `isflipped = trans1.isflipped ^ trans2.isflipped` (also `Matrix.__mul__`) -/
def scaledUpdim (c : Square) (e : Updim) : Updim :=
  { linear := matMul c.linear e.linear e.fromdims, offset := c.apply e.offset, isflipped := c.isflipped != e.isflipped }

/-! ## reference elements -/

/-- `SimplexReference` of dimension `n` or `TensorReference(ref1, ref2)` -/
inductive Ref where
  | simplex (n : Nat)
  | tensor (a b : Ref)
deriving DecidableEq, Repr, Inhabited

def fact : Nat → Nat
  | 0 => 1
  | n+1 => (n+1) * fact n

namespace Ref

def ndims : Ref → Nat
  | simplex n => n
  | tensor a b => a.ndims + b.ndims

/-- `ref1 * ref2` with the 0-dimensional reference as unit (`Reference.__mul__`) -/
def mul (a b : Ref) : Ref := if a.ndims = 0 then b else if b.ndims = 0 then a else tensor a b

def volume : Ref → Rat
  | simplex n => 1 / (fact n : Rat)
  | tensor a b => a.volume * b.volume

def centroid : Ref → Vec
  | simplex n => List.replicate n (1 / ((n : Rat) + 1))
  | tensor a b => a.centroid ++ b.centroid

def vertices : Ref → Mat
  | simplex n => simplexVertices n
  | tensor a b => a.vertices.flatMap fun va => b.vertices.map fun vb => va ++ vb

def edgeTransforms : Ref → List Updim
  | simplex n => if n = 0 then [] else (List.range (n+1)).map fun i => simplexEdge n i
  | tensor a b =>
    (if a.ndims = 0 then [] else a.edgeTransforms.map fun t => tensorEdge1 t b.ndims) ++
    (if b.ndims = 0 then [] else b.edgeTransforms.map fun t => tensorEdge2 a.ndims t)

def edgeRefs : Ref → List Ref
  | simplex n => if n = 0 then [] else List.replicate (n+1) (simplex (n-1))
  | tensor a b =>
    (if a.ndims = 0 then [] else a.edgeRefs.map fun e => mul e b) ++
    (if b.ndims = 0 then [] else b.edgeRefs.map fun e => mul a e)

def childTransforms : Ref → List Square
  | simplex n => (List.range (2^n)).filterMap (simplexChild n)
  | tensor a b => a.childTransforms.flatMap fun ta => b.childTransforms.map fun tb => tensorChild ta tb

/-- `Reference.inside(point)` with `eps = 0` -/
def inside : Ref → Vec → Bool
  | simplex _, p => p.all (fun x => decide (0 ≤ x)) && decide (vsum p ≤ 1)
  | tensor a b, p => a.inside (p.take a.ndims) && b.inside (p.drop a.ndims)

end Ref

/-! ## the extracted record of one reference element and the predicates proved about every record -/

structure EdgeRec where
  linear : Mat
  offset : Vec
  ext : Vec
  isflipped : Bool
  /-- volume of the edge's reference element -/
  refVolume : Rat
  /-- centroid of the edge's reference element (edge coordinates) -/
  refCentroid : Vec
deriving DecidableEq, Repr, Inhabited

structure ChildRec where
  linear : Mat
  offset : Vec
  /-- volume of the child's reference element -/
  refVolume : Rat
  /-- vertices of the child's reference element (child coordinates) -/
  refVertices : Mat
  refCentroid : Vec
deriving DecidableEq, Repr, Inhabited

structure RefRec where
  name : String
  ndims : Nat
  volume : Rat
  centroid : Vec
  edges : List EdgeRec
  children : List ChildRec
deriving DecidableEq, Repr, Inhabited

def EdgeRec.updim (e : EdgeRec) : Updim := ⟨e.linear, e.offset, e.isflipped⟩
def EdgeRec.apply (e : EdgeRec) (p : Vec) : Vec := vadd (matVec e.linear p) e.offset
def ChildRec.apply (c : ChildRec) (p : Vec) : Vec := vadd (matVec c.linear p) c.offset

def isZeroVec (v : Vec) : Bool := v.all (· == 0)

/-- the recorded `ext` is what `Updim.ext` computes from the recorded matrix and orientation flag -/
def EdgeRec.extMatchesB (e : EdgeRec) : Bool := e.updim.ext == some e.ext

/-- `linearᵀ · ext = 0`: the extension vector is orthogonal to the edge -/
def EdgeRec.orthB (r : RefRec) (e : EdgeRec) : Bool :=
  e.ext.length == r.ndims && isZeroVec (tMulVec e.linear (r.ndims - 1) e.ext)

/-- `(x_edge-centroid − x_centroid) · ext > 0`: the extension vector points out of the element -/
def EdgeRec.outwardB (r : RefRec) (e : EdgeRec) : Bool :=
  decide (0 < dot (vsub (e.apply e.refCentroid) r.centroid) e.ext)

/-- `det [ext | linear] = ± ext·ext` (minus iff `isflipped`) and `ext·ext = det (linearᵀ linear)`: `|ext|` is the measure
scaling `sqrt_abs_det_gram(linear)` of the edge map and `isflipped` is the orientation of `[outward | linear]`.
(The docstring of `numeric.ext` writes `det(arr;ex)`; with the extension vector as *last* column the sign is `(-1)^(n-1)`,
so the uniform statement for n = 1, 2, 3 has it as first column.) -/
def EdgeRec.measureB (r : RefRec) (e : EdgeRec) : Bool :=
  let ee := dot e.ext e.ext
  det r.ndims (prependCol e.ext e.linear) == (if e.isflipped then -ee else ee)
  && ee == det (r.ndims - 1) (gram e.linear (r.ndims - 1))
  && decide (0 < ee)

/-- `Σ_edges ext · |edge_ref| = 0` and `Σ_edges (x_c ⊗ ext) |edge_ref| = volume · 1`, in particular
`Σ_edges (x_c · ext) |edge_ref| = ndims · volume` (`Reference.check_edges` tests the diagonal) -/
def RefRec.closedB (r : RefRec) : Bool :=
  isZeroVec (r.edges.foldr (fun e acc => vadd (vscale e.refVolume e.ext) acc) (zeros r.ndims))
  && (List.range r.ndims).all (fun i => (List.range r.ndims).all fun j =>
      vsum (r.edges.map fun e => (e.apply e.refCentroid).getD j 0 * e.ext.getD i 0 * e.refVolume)
        == (if i = j then r.volume else 0))
  && vsum (r.edges.map fun e => dot (e.apply e.refCentroid) e.ext * e.refVolume) == (r.ndims : Rat) * r.volume

def absRat (q : Rat) : Rat := if q < 0 then -q else q

/-- the children carry the whole volume, lie inside the parent, and no child centroid lies inside another child -/
def RefRec.childrenTileB (k : Ref) (r : RefRec) : Bool :=
  vsum (r.children.map fun c => absRat (det r.ndims c.linear) * c.refVolume) == r.volume
  && r.children.all (fun c => c.refVertices.all fun v => k.inside (c.apply v))
  && r.children.all (fun c => r.children.all fun c' =>
      c == c' ||
      match inverse r.ndims c'.linear with
      | none => false
      | some inv => !(k.inside (matVec inv (vsub (c.apply c.refCentroid) c'.offset))))

/-- the model's own record of a reference kind, computed from the mirrored constructors -/
def modelRec (name : String) (k : Ref) : RefRec :=
  { name := name, ndims := k.ndims, volume := k.volume, centroid := k.centroid,
    edges := (List.zip k.edgeTransforms k.edgeRefs).map fun (t, er) =>
      { linear := t.linear, offset := t.offset, ext := t.ext.getD [], isflipped := t.isflipped,
        refVolume := er.volume, refCentroid := er.centroid },
    children := k.childTransforms.map fun c =>
      { linear := c.linear, offset := c.offset, refVolume := k.volume, refVertices := k.vertices, refCentroid := k.centroid } }

/-- composite edge of a refined element: `child ∘ edge-of-child` (`ScaledUpdim` / `Matrix.__mul__`), as extracted -/
structure CompRec where
  ref : String
  ndims : Nat
  child : Square
  edge : Updim
  /-- the real composite object -/
  linear : Mat
  offset : Vec
  ext : Vec
  isflipped : Bool
  /-- centroid of the child's image and of the edge's image in parent coordinates -/
  childCentroid : Vec
  edgeCentroid : Vec
deriving DecidableEq, Repr, Inhabited

def CompRec.okB (c : CompRec) : Bool :=
  let m := scaledUpdim c.child c.edge
  m.linear == c.linear && m.offset == c.offset && m.isflipped == c.isflipped && m.ext == some c.ext
  && isZeroVec (tMulVec c.linear (c.ndims - 1) c.ext)
  && decide (0 < dot (vsub c.edgeCentroid c.childCentroid) c.ext)
  && det c.ndims (prependCol c.ext c.linear) == (if c.isflipped then -(dot c.ext c.ext) else dot c.ext c.ext)

/-- one `swapup` / `swapdown` pair: `edge ∘ child₁ = child₂ ∘ edge₂` -/
structure SwapRec where
  ref : String
  ndims : Nat
  edge : Updim
  /-- child of the edge reference (edge dimension) -/
  child1 : Square
  /-- child of the element (element dimension) -/
  child2 : Square
  edge2 : Updim
deriving DecidableEq, Repr, Inhabited

/-- both orders denote the same affine map and the same side: the root extension vector of the second order,
`child₂.linear · ext(edge₂)`, has a positive component along `ext(edge)` -/
def SwapRec.okB (s : SwapRec) : Bool :=
  let k := s.ndims - 1
  matMul s.edge.linear s.child1.linear k == matMul s.child2.linear s.edge2.linear k
  && s.edge.apply s.child1.offset == s.child2.apply s.edge2.offset
  && match s.edge.ext, s.edge2.ext with
     | some e, some e2 => decide (0 < dot e (matVec s.child2.linear e2))
     | _, _ => false

/-! ## chains: `TransformLinear._transform_linear`, `TransformBasis._transform_basis` -/

inductive Item where
  | sq (s : Square)
  | up (u : Updim)
deriving DecidableEq, Repr, Inhabited

def Item.linear : Item → Mat
  | .sq s => s.linear
  | .up u => u.linear

def Item.fromdims : Item → Nat
  | .sq s => s.ndims
  | .up u => u.fromdims

/-- product of the linear parts of a chain (root first), starting from `eye(fromdims)` -/
def chainLinear (chain : List Item) (fromdims : Nat) : Mat :=
  chain.foldr (fun it acc => matMul it.linear acc fromdims) (eye fromdims)

/-- `_transform_basis`: as `chainLinear`, appending `ext` as an extra column at every `Updim`; returns the matrix and
its current column count (`none`: an `ext` is not available) -/
def chainBasis (chain : List Item) (fromdims : Nat) : Option (Mat × Nat) :=
  chain.foldr (fun it acc => do
    let (m, k) ← acc
    let m' := matMul it.linear m k
    match it with
    | .sq _ => pure (m', k)
    | .up u => do let e ← u.ext; pure (appendCol m' e, k+1)) (some (eye fromdims, fromdims))

/-! ## `Orthonormal.evalf` before normalisation, `_Normal`, `_Jacobian`, `_Gradient` for matrices -/

/-- `n − G (GᵀG)⁻¹ Gᵀ n` for `G` with `k` columns; `none` when `GᵀG` is singular -/
def projectOut (G : Mat) (k : Nat) (n : Vec) : Option Vec := do
  let inv ← inverse k (gram G k)
  pure (vsub n (matVec G (matVec inv (tMulVec G k n))))

/-- squared `sqrt_abs_det_gram(J)` for `J` with `k` columns and `r` rows: `det(J)²` when square, else `|det(JᵀJ)|` -/
def sqAbsDetGram (J : Mat) (r k : Nat) : Rat :=
  if r = k then det k J * det k J else absRat (det k (gram J k))

/-- `_Gradient`: `dfunc_dref · (dgeom_dref)⁻¹` (one row) -/
def gradientRow (dfunc : Vec) (dgeom : Mat) (n : Nat) : Option Vec := do
  let inv ← inverse n dgeom
  pure (tMulVec inv n dfunc)

/-- `_SurfaceGradient`: `dfunc_dref · (GᵀG)⁻¹ Gᵀ` with `G = dgeom_dref` (`n × k`) -/
def surfGradientRow (dfunc : Vec) (G : Mat) (k : Nat) : Option Vec := do
  let inv ← inverse k (gram G k)
  pure (matVec G (tMulVec inv k dfunc))

/-- `_ExteriorNormal` before normalisation: rotated tangent (2-D) or cross product of the two tangents (3-D) -/
def exteriorNormalRaw : Mat → Option Vec
  | [[a], [b]] => some [b, -a]
  | [[a, b], [c, d], [e, f]] => some [c*f - e*d, e*b - a*f, a*d - c*b]
  | _ => none

/-! ## specification: multivariate polynomials and their formal derivatives -/

/-- a polynomial as a list of terms `(coefficient, exponents)` -/
abbrev MPoly := List (Rat × List Nat)

/-- formal partial derivative with respect to variable `i` -/
def pderiv (i : Nat) (p : MPoly) : MPoly :=
  p.filterMap fun (c, es) =>
    let e := es.getD i 0
    if e = 0 then none else some (c * (e : Rat), es.set i (e - 1))

/-- a commutative-ring-like carrier given by explicit operations (instantiated with `Rat` and with the engine's `Poly`) -/
structure Ops (α : Type) where
  zero : α
  one : α
  add : α → α → α
  mul : α → α → α
  ofRat : Rat → α

def Ops.pow {α} (o : Ops α) (x : α) : Nat → α
  | 0 => o.one
  | n+1 => o.mul (o.pow x n) x

def evalMono {α} (o : Ops α) (x : List α) (es : List Nat) : α :=
  (List.zip x es).foldl (fun acc (xi, e) => o.mul acc (o.pow xi e)) o.one

def evalP {α} (o : Ops α) (x : List α) (p : MPoly) : α :=
  p.foldl (fun acc (c, es) => o.add acc (o.mul (o.ofRat c) (evalMono o x es))) o.zero

def ratOps : Ops Rat := ⟨0, 1, (· + ·), (· * ·), id⟩

/-- `A ξ + b` in the carrier -/
def affineAt {α} (o : Ops α) (A : Mat) (b : Vec) (xi : List α) : List α :=
  (List.zip A b).map fun (row, bi) =>
    (List.zip row xi).foldl (fun acc (a, x) => o.add acc (o.mul (o.ofRat a) x)) (o.ofRat bi)

def addP (p q : MPoly) : MPoly := p ++ q
def scaleP (c : Rat) (p : MPoly) : MPoly := p.map fun (d, es) => (c * d, es)

/-- gradient of a scalar polynomial in `n` variables: `[∂₀ p, …, ∂ₙ₋₁ p]` -/
def gradSpec (n : Nat) (p : MPoly) : List MPoly := (List.range n).map fun i => pderiv i p
/-- gradient of a vector field: entry `(i, j)` is `∂ⱼ Fᵢ` -/
def vgradSpec (n : Nat) (F : List MPoly) : List (List MPoly) := F.map (gradSpec n)
/-- divergence `Σᵢ ∂ᵢ Fᵢ` -/
def divSpec (F : List MPoly) : MPoly := (List.zip (List.range F.length) F).flatMap fun (i, f) => pderiv i f
/-- Laplacian `Σᵢ ∂ᵢ∂ᵢ p` -/
def laplaceSpec (n : Nat) (p : MPoly) : MPoly := (List.range n).flatMap fun i => pderiv i (pderiv i p)
/-- symmetric gradient `½(∂ⱼFᵢ + ∂ᵢFⱼ)` -/
def symgradSpec (n : Nat) (F : List MPoly) : List (List MPoly) :=
  (List.range F.length).map fun i => (List.range n).map fun j =>
    scaleP (1/2) (addP (pderiv j (F.getD i [])) (pderiv i (F.getD j [])))
/-- curl of a 3-D field: `(∂₁F₂ − ∂₂F₁, ∂₂F₀ − ∂₀F₂, ∂₀F₁ − ∂₁F₀)` -/
def curlSpec (F : List MPoly) : List MPoly :=
  let f := fun i => F.getD i []
  [addP (pderiv 1 (f 2)) (scaleP (-1) (pderiv 2 (f 1))),
   addP (pderiv 2 (f 0)) (scaleP (-1) (pderiv 0 (f 2))),
   addP (pderiv 0 (f 1)) (scaleP (-1) (pderiv 1 (f 0)))]

end NutilsVerif.C08
