import NutilsVerif.Core.Proto
/-!
# C16 — parallel evaluation equals serial evaluation  (model; no Mathlib)

A small-step interleaving model of what `nutils.parallel` and the loops that
`evaluable.compile` generates under `maxprocs > 1` do.

* `parallel.range.__next__` exactly as coded: enter `with self._lock` (blocks while another
  worker holds it) · read `self._index.value` · compare with `_stop` (`>=` → leave the `with`,
  `StopIteration`) · store `iiter + 1` · leave the `with` · return `iiter`.
* the loop body of iteration `i` is a list of instructions `code i` (the path taken through the
  generated loop body in that iteration): `tau` (touches nothing that is mutated in the loop),
  `acq l` / `rel l` (`with lock_l:` enter / exit, `multiprocessing.Lock` is not reentrant),
  `rmw a v` (in-place accumulate `numpy.add(a, v, out=a)` / `numpy.add.at`: a read of the
  shared array followed — in a separate step — by the write of `read value + v`),
  `put k v` (plain store into slot `k`; models `ielems[ipoint] = …` of `Topology._locate`
  and the private slice of `LoopConcatenate`).
* a schedule is any list of events: `step w` (worker `w` performs one micro step, or nothing when it
  is blocked / finished / dead), `kill w` (SIGKILL: the worker never moves again and keeps whatever
  lock it holds), `raise w` (an exception: `with` blocks are unwound, i.e. its locks released;
  a child then does `os._exit(1)`).
* `_fork` / `_wait` outcome logic as total functions (`forkResult`, `waitOK`, `statusOK`).
* the static lock discipline of a generated script: descriptor → `BStmt` tree → `lockOK`.
-/
namespace NutilsVerif.C16

/-- commutative additive monoid with core classes only (Mathlib's `AddCommMonoid` instantiates it in Props) -/
class CAM (α : Type) extends Add α, Zero α where
  add_assoc : ∀ a b c : α, a + b + c = a + (b + c)
  add_comm : ∀ a b : α, a + b = b + a
  add_zero : ∀ a : α, a + 0 = a

instance : CAM Int := { add_assoc := Int.add_assoc, add_comm := Int.add_comm, add_zero := Int.add_zero }

/-! ## instructions, program counters, state -/

inductive Instr (α : Type) where
  | tau
  | acq (l : Nat)
  | rel (l : Nat)
  | rmw (a : Nat) (v : α)
  | put (k : Nat) (v : α)
deriving Repr, DecidableEq

inductive PC (α : Type) where
  /-- in the `for` statement, about to call `__next__`: enter `with self._lock` -/
  | idle
  /-- holds the range lock, about to read `self._index.value` -/
  | locked
  /-- `iiter = i` was read; about to compare with `_stop` and either stop or store `i+1` -/
  | read (i : Nat)
  /-- `self._index.value = i+1` stored; about to leave the `with` and return `i` -/
  | wrote (i : Nat)
  /-- executing the body of iteration `i`, inside the `with lock` blocks `held`, `rest` still to do -/
  | body (i : Nat) (held : List Nat) (rest : List (Instr α))
  /-- in the middle of `rmw a v`: the shared array was read (`tmp`), the write is still to come -/
  | mid (i : Nat) (held : List Nat) (a : Nat) (v tmp : α) (rest : List (Instr α))
  /-- `StopIteration`: left the loop (a child then calls `os._exit(0)`) -/
  | done
  /-- an exception propagated out of the loop (a child then calls `os._exit(1)`) -/
  | failed
deriving Repr, DecidableEq

def upd {β : Type} (f : Nat → β) (i : Nat) (v : β) : Nat → β := fun j => if j = i then v else f j

structure State (α : Type) where
  /-- `parallel.range._index.value` -/
  idx : Nat
  /-- owner of `parallel.range._lock` -/
  rlock : Option Nat
  /-- owners of the per-array locks `lock<k>` -/
  locks : Nat → Option Nat
  /-- shared arrays (one abstract value per array) -/
  shared : Nat → α
  /-- shared slots written by plain stores -/
  slots : Nat → Option α
  pc : Nat → PC α
  /-- SIGKILLed workers -/
  dead : Nat → Bool
  /-- log of (worker, iteration) in the order of the stores `_index.value = iiter + 1` -/
  claimed : List (Nat × Nat)

inductive Ev where
  | step (w : Nat)
  | kill (w : Nat)
  | raise (w : Nat)
deriving Repr, DecidableEq

section machine
variable {α : Type} [Add α]

/-- one micro step of worker `w` (`n` = `_stop`) -/
def stepW (n : Nat) (code : Nat → List (Instr α)) (s : State α) (w : Nat) : State α :=
  match s.pc w with
  | .idle =>
    match s.rlock with
    | none => { s with rlock := some w, pc := upd s.pc w .locked }
    | some _ => s
  | .locked => { s with pc := upd s.pc w (.read s.idx) }
  | .read i =>
    if n ≤ i then { s with rlock := none, pc := upd s.pc w .done }
    else { s with idx := i + 1, pc := upd s.pc w (.wrote i), claimed := s.claimed ++ [(w, i)] }
  | .wrote i => { s with rlock := none, pc := upd s.pc w (.body i [] (code i)) }
  | .body _ _ [] => { s with pc := upd s.pc w .idle }
  | .body i h (.tau :: r) => { s with pc := upd s.pc w (.body i h r) }
  | .body i h (.acq l :: r) =>
    match s.locks l with
    | none => { s with locks := upd s.locks l (some w), pc := upd s.pc w (.body i (l :: h) r) }
    | some _ => s
  | .body i h (.rel l :: r) => { s with locks := upd s.locks l none, pc := upd s.pc w (.body i (h.erase l) r) }
  | .body i h (.rmw a v :: r) => { s with pc := upd s.pc w (.mid i h a v (s.shared a) r) }
  | .body i h (.put k v :: r) => { s with slots := upd s.slots k (some v), pc := upd s.pc w (.body i h r) }
  | .mid i h a v tmp r => { s with shared := upd s.shared a (tmp + v), pc := upd s.pc w (.body i h r) }
  | .done => s
  | .failed => s

def PC.finished : PC α → Bool
  | .done => true
  | .failed => true
  | _ => false

/-- apply one event of the schedule; `N` = number of processes (parent = worker 0) -/
def applyEv (N n : Nat) (code : Nat → List (Instr α)) (s : State α) : Ev → State α
  | .step w => if w < N ∧ s.dead w = false then stepW n code s w else s
  | .kill w => if w < N ∧ (s.pc w).finished = false then { s with dead := upd s.dead w true } else s
  | .raise w =>
    if w < N ∧ s.dead w = false ∧ (s.pc w).finished = false then
      { s with rlock := if s.rlock = some w then none else s.rlock
               locks := fun l => if s.locks l = some w then none else s.locks l
               pc := upd s.pc w .failed }
    else s

def run (N n : Nat) (code : Nat → List (Instr α)) (σ : List Ev) (s : State α) : State α :=
  σ.foldl (applyEv N n code) s

def init (sh : Nat → α) (sl : Nat → Option α) : State α :=
  { idx := 0, rlock := none, locks := fun _ => none, shared := sh, slots := sl,
    pc := fun _ => .idle, dead := fun _ => false, claimed := [] }

/-- every process left its loop normally (nobody killed, nobody raised) -/
def AllDone (N : Nat) (s : State α) : Prop := ∀ w, w < N → s.pc w = .done ∧ s.dead w = false

/-! ## serial meaning (what `maxprocs(1)` computes: builtin `range`, no fork) -/

def execI (st : (Nat → α) × (Nat → Option α)) : Instr α → (Nat → α) × (Nat → Option α)
  | .rmw a v => (upd st.1 a (st.1 a + v), st.2)
  | .put k v => (st.1, upd st.2 k (some v))
  | _ => st

def serial (n : Nat) (code : Nat → List (Instr α)) (sh : Nat → α) (sl : Nat → Option α) : (Nat → α) × (Nat → Option α) :=
  (List.range n).foldl (fun st i => (code i).foldl execI st) (sh, sl)

end machine

/-! ## lock discipline of an instruction list -/

/-- `disc held c`: starting inside the `with lock` blocks `held`, the instruction list `c` takes no lock twice,
releases in LIFO order, performs every `rmw a` while holding lock `a`, and ends holding nothing. -/
def disc {α : Type} : List Nat → List (Instr α) → Bool
  | h, [] => h.isEmpty
  | h, .tau :: r => disc h r
  | h, .acq l :: r => !h.contains l && disc (l :: h) r
  | h, .rel l :: r => (h.head? == some l) && disc h.tail r
  | h, .rmw a _ :: r => h.contains a && disc h r
  | h, .put _ _ :: r => disc h r

def Disciplined {α : Type} (code : Nat → List (Instr α)) : Prop := ∀ i, disc [] (code i) = true

/-- every slot is stored by at most one iteration, and always with the same value -/
def UniquePuts {α : Type} (code : Nat → List (Instr α)) : Prop :=
  ∀ i j k v v', Instr.put k v ∈ code i → Instr.put k v' ∈ code j → i = j ∧ v = v'

/-! ## `_fork` / `_wait` outcome logic -/

/-- decoded `os.waitpid` status, in the order `_wait` tests it -/
inductive ChildStatus where
  | exited (code : Nat)
  | signaled (sig : Nat)
  | stopped (sig : Nat)
  | other
  /-- not terminated: `os.waitpid(pid, 0)` blocks -/
  | running
deriving Repr, DecidableEq

/-- `_wait`: `True` only for a normal exit with status 0; `none` = blocks -/
def waitOK : ChildStatus → Option Bool
  | .exited 0 => some true
  | .running => none
  | _ => some false

/-- raw 16-bit wait status as decoded by the C macros (Linux): `WIFEXITED`, `WEXITSTATUS`, `WIFSIGNALED`, `WTERMSIG`, `WIFSTOPPED`, `WSTOPSIG` -/
def decodeStatus (st : Nat) : ChildStatus :=
  let lo := st % 128
  if lo == 0 then .exited ((st / 256) % 256)
  else if lo != 127 then .signaled lo          -- ((lo + 1) as signed char >> 1) > 0  ⇔ 0 < lo < 127
  else if st % 256 == 127 then .stopped ((st / 256) % 256)
  else .other

def statusOK (st : Nat) : Bool := waitOK (decodeStatus st) == some true

inductive BodyOutcome where
  | ok        -- the `with fork(...)` body finished
  | raised    -- the body raised (BaseException)
  | running   -- still inside the body (or the parent itself was killed): nothing is returned
deriving Repr, DecidableEq

inductive ForkResult where
  /-- `with` exits normally -/
  | returns
  /-- parent body raised: `os.kill(pid, SIGKILL)` for the listed children, then re-raise -/
  | reraises (killed : List Nat)
  /-- `raise Exception('fork failed in {nfails} out of {nprocs} processes')` -/
  | forkFailed (nfails nprocs : Nat)
  /-- no result (yet): body running or `waitpid` blocking -/
  | blocked
deriving Repr, DecidableEq

/-- the parent side of `_fork` after the body: `children` are the statuses of procid 1, 2, … -/
def forkResult (parent : BodyOutcome) (children : List ChildStatus) : ForkResult :=
  match parent with
  | .raised => .reraises (List.range children.length |>.map (· + 1))
  | .running => .blocked
  | .ok =>
    if children.any (fun c => (waitOK c).isNone) then .blocked
    else
      let nfails := children.countP (fun c => waitOK c != some true)
      if nfails == 0 then .returns else .forkFailed nfails (children.length + 1)

/-- `fork(nprocs)`: number of processes that will run the body (1 = `_DontFork`);
`maxp` = `maxprocs.current`, which is 1 inside any `with fork` body (nested forks are disabled) -/
def forkWidth (nprocs : Option Nat) (maxp : Nat) : Nat :=
  let k := match nprocs with
    | none => maxp
    | some k => if k > maxp then maxp else k
  if k ≤ 1 then 1 else k

section outcome
variable {α : Type}

def parentOutcome (s : State α) : BodyOutcome :=
  if s.dead 0 then .running
  else match s.pc 0 with
    | .done => .ok
    | .failed => .raised
    | _ => .running

def childStatus (s : State α) (w : Nat) : ChildStatus :=
  if s.dead w then .signaled 9
  else match s.pc w with
    | .done => .exited 0
    | .failed => .exited 1
    | _ => .running

/-- outcome of `with fork(N)` in machine state `s` -/
def outcome (N : Nat) (s : State α) : ForkResult :=
  forkResult (parentOutcome s) ((List.range (N - 1)).map fun k => childStatus s (k + 1))

end outcome

/-! ## abstract loop bodies of generated scripts and the static check `lockOK` -/

/-- loop-body statement after name resolution -/
inductive BStmt where
  /-- touches no array that is mutated inside the parallel loop -/
  | plain
  /-- in-place accumulation into shared array `a` (`numpy.add(a', x, out=a')`, `numpy.add.at(a', …)`, `a'` a view of `a`) -/
  | accum (a : Nat)
  /-- store into the iteration's private slice of a shared array -/
  | slot
  /-- a statement that breaks the access rules (reason code) -/
  | bad (reason : Nat)
  /-- `with lock<l>: body` -/
  | withLock (l : Nat) (body : List BStmt)
  /-- `for` / `if` / other `with`: body is executed any number of times -/
  | block (body : List BStmt)
deriving Repr

mutual
  /-- `okS held st`: statement `st`, lexically inside `with lock` blocks `held`, respects the discipline -/
  def okS (h : List Nat) : BStmt → Bool
    | .plain => true
    | .accum a => h.contains a
    | .slot => true
    | .bad _ => false
    | .withLock l b => !h.contains l && okL (l :: h) b
    | .block b => okL h b
  def okL (h : List Nat) : List BStmt → Bool
    | [] => true
    | s :: r => okS h s && okL h r
end

/-- the static lock discipline of a parallel loop body -/
def lockOK (b : List BStmt) : Bool := okL [] b

/-- the instruction lists of all execution paths through a loop body -/
inductive Path {α : Type} : List BStmt → List (Instr α) → Prop where
  | nil : Path [] []
  | plain {r c} : Path r c → Path (.plain :: r) (.tau :: c)
  | accum {r c} (a : Nat) (v : α) : Path r c → Path (.accum a :: r) (.rmw a v :: c)
  | slot {r c} (k : Nat) (v : α) : Path r c → Path (.slot :: r) (.put k v :: c)
  | bad {r c} (x : Nat) (i : Instr α) : Path r c → Path (.bad x :: r) (i :: c)
  | withLock {r c b cb} (l : Nat) : Path b cb → Path r c → Path (.withLock l b :: r) (.acq l :: (cb ++ .rel l :: c))
  | skip {r c b} : Path r c → Path (.block b :: r) c
  | iter {r c b cb} : Path b cb → Path (.block b :: r) c → Path (.block b :: r) (cb ++ c)

end NutilsVerif.C16
