import NutilsVerif.Core.Proto
/-!
# C16 — parallel evaluation equals serial evaluation  (model; no Mathlib)

A small-step interleaving model of what `nutils.parallel` and the loops that
`evaluable.compile` generates under `maxprocs > 1` do.

* `parallel.range.__next__` exactly as coded: enter `with self._lock` (blocks while another
  worker holds it) · read `self._index.value` · compare with `_stop` (`>=` → leave the `with`,
  `StopIteration`) · store `iiter + 1` · leave the `with` · return `iiter`.
* the loop body of iteration `i` is a list of instructions `code i` (the path taken through the
  generated loop body in that iteration): `tau` (touches nothing that is mutated in the loop),
  `acq l` / `rel l` (`with lock_l:` enter / exit, `multiprocessing.Lock` is not reentrant),
  `rmw a v` (in-place accumulate `numpy.add(a, v, out=a)` / `numpy.add.at`: a read of the
  shared array followed — in a separate step — by the write of `read value + v`),
  `put k v` (plain store into slot `k`; models `ielems[ipoint] = …` of `Topology._locate`
  and the private slice of `LoopConcatenate`).
* a schedule is any list of events: `step w` (worker `w` performs one micro step, or nothing when it
  is blocked / finished / dead), `kill w` (SIGKILL: the worker never moves again and keeps whatever
  lock it holds), `raise w` (an exception: `with` blocks are unwound, i.e. its locks released;
  a child then does `os._exit(1)`).
* `_fork` / `_wait` outcome logic as total functions (`forkResult`, `waitOK`, `statusOK`).
* the static lock discipline of a generated script: descriptor → `BStmt` tree → `lockOK`.
-/
namespace NutilsVerif.C16

/-- commutative additive monoid with core classes only (Mathlib's `AddCommMonoid` instantiates it in Props) -/
class CAM (α : Type) extends Add α, Zero α where
  add_assoc : ∀ a b c : α, a + b + c = a + (b + c)
  add_comm : ∀ a b : α, a + b = b + a
  add_zero : ∀ a : α, a + 0 = a

instance : CAM Int := { add_assoc := Int.add_assoc, add_comm := Int.add_comm, add_zero := Int.add_zero }

/-! ## instructions, program counters, state -/

inductive Instr (α : Type) where
  | tau
  | acq (l : Nat)
  | rel (l : Nat)
  | rmw (a : Nat) (v : α)
  | put (k : Nat) (v : α)
deriving Repr, DecidableEq

inductive PC (α : Type) where
  /-- in the `for` statement, about to call `__next__`: enter `with self._lock` -/
  | idle
  /-- holds the range lock, about to read `self._index.value` -/
  | locked
  /-- `iiter = i` was read; about to compare with `_stop` and either stop or store `i+1` -/
  | read (i : Nat)
  /-- `self._index.value = i+1` stored; about to leave the `with` and return `i` -/
  | wrote (i : Nat)
  /-- executing the body of iteration `i`, inside the `with lock` blocks `held`, `rest` still to do -/
  | body (i : Nat) (held : List Nat) (rest : List (Instr α))
  /-- in the middle of `rmw a v`: the shared array was read (`tmp`), the write is still to come -/
  | mid (i : Nat) (held : List Nat) (a : Nat) (v tmp : α) (rest : List (Instr α))
  /-- `StopIteration`: left the loop (a child then calls `os._exit(0)`) -/
  | done
  /-- an exception propagated out of the loop (a child then calls `os._exit(1)`) -/
  | failed
deriving Repr, DecidableEq

def upd {β : Type} (f : Nat → β) (i : Nat) (v : β) : Nat → β := fun j => if j = i then v else f j

structure State (α : Type) where
  /-- `parallel.range._index.value` -/
  idx : Nat
  /-- owner of `parallel.range._lock` -/
  rlock : Option Nat
  /-- owners of the per-array locks `lock<k>` -/
  locks : Nat → Option Nat
  /-- shared arrays (one abstract value per array) -/
  shared : Nat → α
  /-- shared slots written by plain stores -/
  slots : Nat → Option α
  pc : Nat → PC α
  /-- SIGKILLed workers -/
  dead : Nat → Bool
  /-- log of (worker, iteration) in the order of the stores `_index.value = iiter + 1` -/
  claimed : List (Nat × Nat)

inductive Ev where
  | step (w : Nat)
  | kill (w : Nat)
  | raise (w : Nat)
deriving Repr, DecidableEq

section machine
variable {α : Type} [Add α]

/-- one micro step of worker `w` (`n` = `_stop`) -/
def stepW (n : Nat) (code : Nat → List (Instr α)) (s : State α) (w : Nat) : State α :=
  match s.pc w with
  | .idle =>
    match s.rlock with
    | none => { s with rlock := some w, pc := upd s.pc w .locked }
    | some _ => s
  | .locked => { s with pc := upd s.pc w (.read s.idx) }
  | .read i =>
    if n ≤ i then { s with rlock := none, pc := upd s.pc w .done }
    else { s with idx := i + 1, pc := upd s.pc w (.wrote i), claimed := s.claimed ++ [(w, i)] }
  | .wrote i => { s with rlock := none, pc := upd s.pc w (.body i [] (code i)) }
  | .body _ _ [] => { s with pc := upd s.pc w .idle }
  | .body i h (.tau :: r) => { s with pc := upd s.pc w (.body i h r) }
  | .body i h (.acq l :: r) =>
    match s.locks l with
    | none => { s with locks := upd s.locks l (some w), pc := upd s.pc w (.body i (l :: h) r) }
    | some _ => s
  | .body i h (.rel l :: r) => { s with locks := upd s.locks l none, pc := upd s.pc w (.body i (h.erase l) r) }
  | .body i h (.rmw a v :: r) => { s with pc := upd s.pc w (.mid i h a v (s.shared a) r) }
  | .body i h (.put k v :: r) => { s with slots := upd s.slots k (some v), pc := upd s.pc w (.body i h r) }
  | .mid i h a v tmp r => { s with shared := upd s.shared a (tmp + v), pc := upd s.pc w (.body i h r) }
  | .done => s
  | .failed => s

def PC.finished : PC α → Bool
  | .done => true
  | .failed => true
  | _ => false

/-- apply one event of the schedule; `N` = number of processes (parent = worker 0) -/
def applyEv (N n : Nat) (code : Nat → List (Instr α)) (s : State α) : Ev → State α
  | .step w => if w < N ∧ s.dead w = false then stepW n code s w else s
  | .kill w => if w < N ∧ (s.pc w).finished = false then { s with dead := upd s.dead w true } else s
  | .raise w =>
    if w < N ∧ s.dead w = false ∧ (s.pc w).finished = false then
      { s with rlock := if s.rlock = some w then none else s.rlock
               locks := fun l => if s.locks l = some w then none else s.locks l
               pc := upd s.pc w .failed }
    else s

def run (N n : Nat) (code : Nat → List (Instr α)) (σ : List Ev) (s : State α) : State α :=
  σ.foldl (applyEv N n code) s

def init (sh : Nat → α) (sl : Nat → Option α) : State α :=
  { idx := 0, rlock := none, locks := fun _ => none, shared := sh, slots := sl,
    pc := fun _ => .idle, dead := fun _ => false, claimed := [] }

/-- every process left its loop normally (nobody killed, nobody raised) -/
def AllDone (N : Nat) (s : State α) : Prop := ∀ w, w < N → s.pc w = .done ∧ s.dead w = false

instance [DecidableEq α] (N : Nat) (s : State α) : Decidable (AllDone N s) := by
  unfold AllDone; infer_instance

/-! ## serial meaning (what `maxprocs(1)` computes: builtin `range`, no fork) -/

def execI (st : (Nat → α) × (Nat → Option α)) : Instr α → (Nat → α) × (Nat → Option α)
  | .rmw a v => (upd st.1 a (st.1 a + v), st.2)
  | .put k v => (st.1, upd st.2 k (some v))
  | _ => st

def serial (n : Nat) (code : Nat → List (Instr α)) (sh : Nat → α) (sl : Nat → Option α) : (Nat → α) × (Nat → Option α) :=
  (List.range n).foldl (fun st i => (code i).foldl execI st) (sh, sl)

end machine

/-! ## lock discipline of an instruction list -/

/-- `disc held c`: starting inside the `with lock` blocks `held`, the instruction list `c` takes no lock twice,
releases in LIFO order, performs every `rmw a` while holding lock `a`, and ends holding nothing. -/
def disc {α : Type} : List Nat → List (Instr α) → Bool
  | h, [] => h.isEmpty
  | h, .tau :: r => disc h r
  | h, .acq l :: r => !h.contains l && disc (l :: h) r
  | h, .rel l :: r => (h.head? == some l) && disc h.tail r
  | h, .rmw a _ :: r => h.contains a && disc h r
  | h, .put _ _ :: r => disc h r

def Disciplined {α : Type} (code : Nat → List (Instr α)) : Prop := ∀ i, disc [] (code i) = true

/-- every slot is stored by at most one iteration, and always with the same value -/
def UniquePuts {α : Type} (code : Nat → List (Instr α)) : Prop :=
  ∀ i j k v v', Instr.put k v ∈ code i → Instr.put k v' ∈ code j → i = j ∧ v = v'

/-! ## two concrete configurations used by the non-vacuity / counter-model theorems -/

/-- `numpy.add(v0, 1, out=v0)` without its lock -/
def cexCode : Nat → List (Instr Int) := fun _ => [.rmw 0 1]
/-- both workers claim an iteration, both read `v0`, both write -/
def cexSched : List Ev := ([0,0,0,0, 1,1,1,1, 0,1,0,1, 0,0,0,0, 1,1,1,1] : List Nat).map Ev.step
/-- `with lock0: numpy.add(v0, i+1, out=v0)` -/
def okCode : Nat → List (Instr Int) := fun i => [.tau, .acq 0, .rmw 0 (i + 1), .rel 0]
/-- round robin between two workers, 45 events -/
def okSched : List Ev := ((List.range 45).map fun i => i % 2).map Ev.step

/-! ## `_fork` / `_wait` outcome logic -/

/-- decoded `os.waitpid` status, in the order `_wait` tests it -/
inductive ChildStatus where
  | exited (code : Nat)
  | signaled (sig : Nat)
  | stopped (sig : Nat)
  | other
  /-- not terminated: `os.waitpid(pid, 0)` blocks -/
  | running
deriving Repr, DecidableEq

/-- `_wait`: `True` only for a normal exit with status 0; `none` = blocks -/
def waitOK : ChildStatus → Option Bool
  | .exited 0 => some true
  | .running => none
  | _ => some false

/-- raw 16-bit wait status as decoded by the C macros (Linux): `WIFEXITED`, `WEXITSTATUS`, `WIFSIGNALED`, `WTERMSIG`, `WIFSTOPPED`, `WSTOPSIG` -/
def decodeStatus (st : Nat) : ChildStatus :=
  let lo := st % 128
  if lo == 0 then .exited ((st / 256) % 256)
  else if lo != 127 then .signaled lo          -- ((lo + 1) as signed char >> 1) > 0  ⇔ 0 < lo < 127
  else if st % 256 == 127 then .stopped ((st / 256) % 256)
  else .other

def statusOK (st : Nat) : Bool := waitOK (decodeStatus st) == some true

inductive BodyOutcome where
  | ok        -- the `with fork(...)` body finished
  | raised    -- the body raised (BaseException)
  | running   -- still inside the body (or the parent itself was killed): nothing is returned
deriving Repr, DecidableEq

inductive ForkResult where
  /-- `with` exits normally -/
  | returns
  /-- parent body raised: `os.kill(pid, SIGKILL)` for the listed children, then re-raise -/
  | reraises (killed : List Nat)
  /-- `raise Exception('fork failed in {nfails} out of {nprocs} processes')` -/
  | forkFailed (nfails nprocs : Nat)
  /-- no result (yet): body running or `waitpid` blocking -/
  | blocked
deriving Repr, DecidableEq

/-- the parent side of `_fork` after the body: `children` are the statuses of procid 1, 2, … -/
def forkResult (parent : BodyOutcome) (children : List ChildStatus) : ForkResult :=
  match parent with
  | .raised => .reraises (List.range children.length |>.map (· + 1))
  | .running => .blocked
  | .ok =>
    if children.any (fun c => (waitOK c).isNone) then .blocked
    else
      let nfails := children.countP (fun c => waitOK c != some true)
      if nfails == 0 then .returns else .forkFailed nfails (children.length + 1)

/-- `fork(nprocs)`: number of processes that will run the body (1 = `_DontFork`);
`maxp` = `maxprocs.current`, which is 1 inside any `with fork` body (nested forks are disabled) -/
def forkWidth (nprocs : Option Nat) (maxp : Nat) : Nat :=
  let k := match nprocs with
    | none => maxp
    | some k => if k > maxp then maxp else k
  if k ≤ 1 then 1 else k

section outcome
variable {α : Type}

def parentOutcome (s : State α) : BodyOutcome :=
  if s.dead 0 then .running
  else match s.pc 0 with
    | .done => .ok
    | .failed => .raised
    | _ => .running

def childStatus (s : State α) (w : Nat) : ChildStatus :=
  if s.dead w then .signaled 9
  else match s.pc w with
    | .done => .exited 0
    | .failed => .exited 1
    | _ => .running

/-- outcome of `with fork(N)` in machine state `s` -/
def outcome (N : Nat) (s : State α) : ForkResult :=
  forkResult (parentOutcome s) ((List.range (N - 1)).map fun k => childStatus s (k + 1))

end outcome

/-! ## abstract loop bodies of generated scripts and the static check `lockOK` -/

/-- loop-body statement after name resolution -/
inductive BStmt where
  /-- touches no array that is mutated inside the parallel loop -/
  | plain
  /-- in-place accumulation into shared array `a` (`numpy.add(a', x, out=a')`, `numpy.add.at(a', …)`, `a'` a view of `a`) -/
  | accum (a : Nat)
  /-- store into the iteration's private slice of a shared array -/
  | slot
  /-- a statement that breaks the access rules (reason code) -/
  | bad (reason : Nat)
  /-- `with lock<l>: body` -/
  | withLock (l : Nat) (body : List BStmt)
  /-- `for` / `if` / other `with`: body is executed any number of times -/
  | block (body : List BStmt)
deriving Repr

mutual
  /-- `okS held st`: statement `st`, lexically inside `with lock` blocks `held`, respects the discipline -/
  def okS (h : List Nat) : BStmt → Bool
    | .plain => true
    | .accum a => h.contains a
    | .slot => true
    | .bad _ => false
    | .withLock l b => !h.contains l && okL (l :: h) b
    | .block b => okL h b
  def okL (h : List Nat) : List BStmt → Bool
    | [] => true
    | s :: r => okS h s && okL h r
end

/-- the static lock discipline of a parallel loop body -/
def lockOK (b : List BStmt) : Bool := okL [] b

/-- the instruction lists of all execution paths through a loop body -/
inductive Path {α : Type} : List BStmt → List (Instr α) → Prop where
  | nil : Path [] []
  | plain {r c} : Path r c → Path (.plain :: r) (.tau :: c)
  | accum {r c} (a : Nat) (v : α) : Path r c → Path (.accum a :: r) (.rmw a v :: c)
  | slot {r c} (k : Nat) (v : α) : Path r c → Path (.slot :: r) (.put k v :: c)
  | bad {r c} (x : Nat) (i : Instr α) : Path r c → Path (.bad x :: r) (i :: c)
  | withLock {r c b cb} (l : Nat) : Path b cb → Path r c → Path (.withLock l b :: r) (.acq l :: (cb ++ .rel l :: c))
  | skip {r c b} : Path r c → Path (.block b :: r) c
  | iter {r c b cb} : Path b cb → Path (.block b :: r) c → Path (.block b :: r) (cb ++ c)

/-! ## from the syntactic description of a script to loop bodies

The harness parses a generated script (or the source of `Topology._locate`) with Python's `ast` and sends a
purely syntactic description: per statement the names read / assigned / mutated and the syntactic form of
right-hand sides.  Everything that is a *decision* happens here: which arrays are shared allocations, which
variables may alias them (`roots`), which arrays are mutated inside the parallel loop, and the classification of
every in-loop statement into a `BStmt`, on which `lockOK` is then decided.

**Alias rule.**  Arrays are identified by *allocation site*, never by variable name.  A variable bound to an expression that
is not certainly a new object (`RhsKind.view`: `numpy.einsum('...ii->...i', v)`, `numpy.transpose(v, …)`, `v[…]`,
`v.reshape(…)`, `v.T`, `w = v`, tuple unpacking, any unknown call) gets the union of the allocation sites of all variables
it reads (`bindVar`, transitively: views of views); a target expression `f(v)[…]` written in place stands for the sites of
the names outside its subscripts.  An update through a view of a shared array is thus an update of the shared array itself
(`clsS`: `accum (arrayId site)`), wherever the view was created (`Proofs/C16Alias.lean`, `Props: alias_update_needs_lock`).
An accumulation into a slice selected by loop-local names is still an accumulation into the array (it needs the lock);
only plain stores into such slices are private slots. -/

inductive RhsKind where
  | shalloc   -- `parallel.shempty(..)` / `parallel.shzeros(..)`
  | lock      -- `multiprocessing.Lock()`
  | fresh     -- an expression that certainly creates a new object (arithmetic, `numpy.empty`, …)
  | view      -- anything else: may alias the arrays it reads
deriving Repr, DecidableEq

inductive SStmt where
  | assign (lhs : String) (kind : RhsKind) (reads : List String)
  /-- in-place modification of (a view of) `base`; `acc` = commutative accumulation (`numpy.add(x, y, out=x)`, `numpy.add.at`, `+=`);
  `index` = names occurring in subscripts of the target expression -/
  | mutate (acc : Bool) (base index reads : List String)
  | other (reads : List String)
  | withLock (lock : String) (body : List SStmt)
  /-- `with parallel.ctxrange(..) as v:` -/
  | par (binds reads : List String) (body : List SStmt)
  /-- `for` / `while` / `if` / `try` / other `with` -/
  | block (binds reads : List String) (body : List SStmt)
  | unknown
deriving Repr

structure VarInfo where
  name : String
  /-- assigned outside the parallel loop that is being analysed -/
  outer : Bool
  shared : Bool
  isLock : Bool
  /-- allocation sites this variable may be a view of -/
  roots : List String
deriving Repr

abbrev Env := List VarInfo

def Env.get (e : Env) (x : String) : Option VarInfo := e.find? (·.name == x)

/-- allocation sites a list of names may alias; an unknown name (global constant, parameter) is its own site -/
def rootsOf (e : Env) (xs : List String) : List String :=
  (xs.flatMap fun x => match e.get x with
    | some i => if i.isLock then [] else i.roots
    | none => [x]).eraseDups

def isOuter (e : Env) (r : String) : Bool :=
  match e.get r with
  | some i => i.outer
  | none => true

def isShared (e : Env) (r : String) : Bool :=
  match e.get r with
  | some i => i.shared
  | none => false

def bindVar (outer : Bool) (e : Env) (lhs : String) (kind : RhsKind) (reads : List String) : Env :=
  match kind with
  | .shalloc => { name := lhs, outer, shared := true, isLock := false, roots := [lhs] } :: e
  | .lock => { name := lhs, outer, shared := false, isLock := true, roots := [] } :: e
  | .fresh => { name := lhs, outer, shared := false, isLock := false, roots := [lhs] } :: e
  | .view =>
    let rs := rootsOf e (reads.filter fun x => (e.get x).isSome)
    { name := lhs, outer, shared := false, isLock := false, roots := if rs.isEmpty then [lhs] else rs } :: e

def bindFresh (outer : Bool) (e : Env) (xs : List String) : Env :=
  xs.foldl (fun e x => bindVar outer e x .fresh []) e

/-- trailing decimal digits of a name: `v12` ↦ 12, `lock12` ↦ 12 (the generator pairs `lock<k>` with `v<k>`) -/
def trailingNat (s : String) : Option Nat :=
  let ds := (s.toList.reverse.takeWhile Char.isDigit).reverse
  if ds.isEmpty then none else (String.ofList ds).toNat?

def arrayId (r : String) : Nat :=
  match trailingNat r with
  | some k => if r == "v" ++ toString k then k else 1000000 + r.length + k
  | none => 2000000 + r.length

def lockId (l : String) : Nat :=
  match trailingNat l with
  | some k => if l == "lock" ++ toString k then k else 3000000 + l.length + k
  | none => 4000000 + l.length

/-- reason codes of `BStmt.bad` -/
def badNotShared := 1      -- array assigned outside the parallel loop, mutated inside, neither a shared allocation nor a per-iteration scratch buffer
def badNonCommutative := 2 -- whole-array update of a shared array inside the loop that is not an accumulation
def badRebind := 3         -- a variable of the enclosing scope is re-assigned inside the loop
def badRacyRead := 4       -- read of a shared array that is mutated inside the same loop
def badLock := 5           -- `with x:` where x is not a lock created before the fork
def badAlias := 6          -- target may alias several outer arrays
def badScratchLive := 7    -- a process-local scratch buffer that is written in the loop is read after the loop
def badUnknown := 9        -- unclassified statement

mutual
  /-- pass 1 over a parallel loop body: the outer allocation sites that are mutated somewhere inside -/
  def mutS (e : Env) : SStmt → Env × List String
    | .assign lhs kind reads => (bindVar false e lhs kind reads, [])
    | .mutate _ base _ _ => (e, (rootsOf e base).filter (isOuter e))
    | .other _ => (e, [])
    | .withLock _ body => mutL e body
    | .par binds _ body => mutL (bindFresh false e binds) body
    | .block binds _ body => mutL (bindFresh false e binds) body
    | .unknown => (e, [])
  def mutL (e : Env) : List SStmt → Env × List String
    | [] => (e, [])
    | s :: r =>
      let (e1, m1) := mutS e s
      let (e2, m2) := mutL e1 r
      (e2, m1 ++ m2)
end

/-- does a statement reading `reads` look at a shared array that is mutated in this loop (other than its own target `own`)? -/
def racyRead (e : Env) (muts : List String) (own : List String) (reads : List String) : Bool :=
  (rootsOf e (reads.filter fun x => (e.get x).isSome)).any fun r => isOuter e r && isShared e r && muts.contains r && !own.contains r

mutual
  /-- pass 2: classification of the statements of a parallel loop body (`muts` from pass 1, `scratch` = declared
  process-local scratch objects) -/
  def clsS (muts scratch : List String) (e : Env) : SStmt → Env × List BStmt
    | .assign lhs kind reads =>
      let bad := match e.get lhs with
        | some i => i.outer
        | none => false
      (bindVar false e lhs kind reads,
       [if bad then .bad badRebind else if racyRead e muts [] reads then .bad badRacyRead else .plain])
    | .mutate acc base index reads =>
      let outerRoots := ((rootsOf e base).filter (isOuter e)).filter fun r => !scratch.contains r
      let b : BStmt :=
        match outerRoots with
        | [] => if racyRead e muts [] (index ++ reads) then .bad badRacyRead else .plain
        | [r] =>
          if !isShared e r then .bad badNotShared
          else if racyRead e muts [r] (index ++ reads) then .bad badRacyRead
          else if !acc && index.any (fun x => match e.get x with
              | some i => !i.outer
              | none => false) then .slot
          else if acc then .accum (arrayId r)
          else .bad badNonCommutative
        | _ => .bad badAlias
      (e, [b])
    | .other reads => (e, [if racyRead e muts [] reads then .bad badRacyRead else .plain])
    | .withLock l body =>
      let ok := match e.get l with
        | some i => i.isLock && i.outer
        | none => false
      let (e1, b) := clsL muts scratch e body
      (e1, if ok then [.withLock (lockId l) b] else [.bad badLock, .block b])
    | .par binds reads body =>
      let (e1, b) := clsL muts scratch (bindFresh false e binds) body
      (e1, [if racyRead e muts [] reads then .bad badRacyRead else .plain, .block b])
    | .block binds reads body =>
      let (e1, b) := clsL muts scratch (bindFresh false e binds) body
      (e1, [if racyRead e muts [] reads then .bad badRacyRead else .plain, .block b])
    | .unknown => (e, [.bad badUnknown])
  def clsL (muts scratch : List String) (e : Env) : List SStmt → Env × List BStmt
    | [] => (e, [])
    | s :: r =>
      let (e1, b1) := clsS muts scratch e s
      let (e2, b2) := clsL muts scratch e1 r
      (e2, b1 ++ b2)
end

def mentions (e : Env) (r : String) (xs : List String) : Bool := (rootsOf e xs).contains r

mutual
  /-- does a statement mention (a view of) array `r` anywhere? -/
  def mentS (e : Env) (r : String) : SStmt → Bool
    | .assign _ _ reads => mentions e r reads
    | .mutate _ base index reads => mentions e r (base ++ index ++ reads)
    | .other reads => mentions e r reads
    | .withLock _ body => mentL e r body
    | .par _ reads body => mentions e r reads || mentL e r body
    | .block _ reads body => mentions e r reads || mentL e r body
    | .unknown => true
  def mentL (e : Env) (r : String) : List SStmt → Bool
    | [] => false
    | s :: rest => mentS e r s || mentL e r rest
end

/-- where a statement list first touches an array, and how -/
inductive Init where
  /-- not mentioned -/
  | absent
  /-- the first mention is not a complete overwrite, or a later mention is not dominated by it -/
  | bad
  /-- the first mention is an unconditional overwrite of the whole array (`r.fill(..)`, `numpy.copyto(r, ..)`) in this very
  statement list (possibly inside `with lock:`): it dominates every later statement of the list -/
  | here
  /-- as `here`, but inside a nested block (`for` / `if` / …) of this list; no statement outside that block mentions the array -/
  | nested
  /-- the first mention is an overwrite of a slice `r[.. local names ..]` selected by loop-local variables: the buffer of an inner
  `LoopConcatenate`, written slice by slice.  That the slices of one pass of the inner loop tile the array is NOT established
  syntactically (assumption `tiling` of the check); nothing is claimed about dominance. -/
  | tiled
deriving Repr, DecidableEq

def isLocal (e : Env) (x : String) : Bool :=
  match e.get x with
  | some i => !i.outer
  | none => false

mutual
  /-- `initS e r st`: is array `r` a scratch buffer in `st`, i.e. is every mention of `r` dominated — within the same execution of
  the enclosing block — by an unconditional overwrite of the whole array?  Mentions are taken modulo the alias rule (`mentions`
  looks at allocation sites). -/
  def initS (e : Env) (r : String) : SStmt → Init
    | .assign _ _ reads => if mentions e r reads then .bad else .absent
    | .mutate acc base index reads =>
      if mentions e r (index ++ reads) then .bad
      else if mentions e r base then
        (if !acc && base == [r] && index.isEmpty then .here
         else if !acc && base == [r] && index.all (isLocal e) then .tiled
         else .bad)
      else .absent
    | .other reads => if mentions e r reads then .bad else .absent
    | .withLock _ body => initL e r body
    | .par _ reads body => if mentions e r reads then .bad else
      match initL e r body with
      | .here => .nested
      | x => x
    | .block _ reads body => if mentions e r reads then .bad else
      match initL e r body with
      | .here => .nested
      | x => x
    | .unknown => .bad
  def initL (e : Env) (r : String) : List SStmt → Init
    | [] => .absent
    | s :: rest =>
      match initS e r s with
      | .absent => initL e r rest
      | .here => .here
      | .nested => if mentL e r rest then .bad else .nested
      | .tiled => .tiled
      | .bad => .bad
end

/-- state of the walk over the statements outside the parallel loops -/
structure TopState where
  env : Env
  /-- scratch buffers written inside an earlier parallel loop: must not be read any more -/
  pending : List String

def liveCheck (st : TopState) (xs : List String) : List (List BStmt) :=
  if st.pending.any (fun r => mentions st.env r xs) then [[.bad badScratchLive]] else []

mutual
  /-- the statements outside any parallel loop: collects the classified body of every `with parallel.ctxrange` -/
  def topS (scratch : List String) (st : TopState) : SStmt → TopState × List (List BStmt)
    | .assign lhs kind reads => ({ st with env := bindVar true st.env lhs kind reads }, liveCheck st reads)
    | .mutate _ base index reads => (st, liveCheck st (base ++ index ++ reads))
    | .other reads => (st, liveCheck st reads)
    | .withLock _ body => topL scratch st body
    | .par binds reads body =>
      let e0 := bindFresh false st.env binds
      let (e1, m) := mutL e0 body
      let m := m.eraseDups
      -- per-iteration scratch: initialised inside the loop over the shared range (`nested`), never directly in the `with` body
      let scr := (m.filter fun r => !isShared e0 r).filter fun r => initL e1 r body == .nested || initL e1 r body == .tiled
      let (_, b) := clsL m (scratch ++ scr) e0 body
      ({ st with pending := st.pending ++ scr }, liveCheck st reads ++ [b])
    | .block binds reads body =>
      let (st1, b) := topL scratch { st with env := bindFresh true st.env binds } body
      (st1, liveCheck st reads ++ b)
    | .unknown => (st, [[.bad badUnknown]])
  def topL (scratch : List String) (st : TopState) : List SStmt → TopState × List (List BStmt)
    | [] => (st, [])
    | s :: r =>
      let (st1, b1) := topS scratch st s
      let (st2, b2) := topL scratch st1 r
      (st2, b1 ++ b2)
end

/-- all parallel loop bodies of a script, classified -/
def loopBodies (scratch : List String) (script : List SStmt) : List (List BStmt) := (topL scratch ⟨[], []⟩ script).2

/-- the static verdict for a script: every parallel loop body passes `lockOK` -/
def scriptOK (scratch : List String) (script : List SStmt) : Bool := (loopBodies scratch script).all lockOK

/-! ## `Topology._locate` with `skip_missing=False`: fast-forward on failure

Claims are atomic here (justified by `range_at_most_once`: the claims of the real counter are `0,1,2,…` in the order of the
stores).  `claim w`: worker `w`, not busy, takes the next point — unless it is fast-forwarding (`for ipoint in ipoints: pass`),
in which case the point is consumed unprocessed.  `finish w`: the worker finishes its point: located (`mark = some true`) or
missing (`ielems[ipoint] = -1`, `mark = some false`, and from now on it fast-forwards). -/

structure LState where
  idx : Nat
  cur : Nat → Option Nat
  drain : Nat → Bool
  mark : Nat → Option Bool

inductive LEv where
  | claim (w : Nat)
  | finish (w : Nat)
deriving Repr, DecidableEq

def lstep (n : Nat) (miss : Nat → Bool) (s : LState) : LEv → LState
  | .claim w =>
    if s.cur w = none ∧ s.idx < n then
      if s.drain w then { s with idx := s.idx + 1 }
      else { s with idx := s.idx + 1, cur := upd s.cur w (some s.idx) }
    else s
  | .finish w =>
    match s.cur w with
    | none => s
    | some i =>
      if miss i then { s with cur := upd s.cur w none, mark := upd s.mark i (some false), drain := upd s.drain w true }
      else { s with cur := upd s.cur w none, mark := upd s.mark i (some true) }

def linit : LState := { idx := 0, cur := fun _ => none, drain := fun _ => false, mark := fun _ => none }

def lrun (n : Nat) (miss : Nat → Bool) (σ : List LEv) (s : LState) : LState := σ.foldl (lstep n miss) s


end NutilsVerif.C16
