/-!
# C06 — the announced-arguments table of user-level function arrays (`function.Array.arguments`)

`function._Replace.__init__` (and `_Wrapper`, `_Derivative`, … by plain union) computes the announced table by hand, next to a
lowering (`evaluable.replace_arguments`) that decides what evaluation really needs:

    unreplaced = {name: … for name in arg.arguments if name not in self._replacements}
    arguments  = _join_arguments([unreplaced] + [replacement.arguments for replacement in self._replacements.values()])

where `self._replacements` holds the specification entries whose key is an argument of `arg` (other keys are skipped by
`_argument_to_array`).  Model: arrays over named integer arguments, simultaneous replacement; `announced` mirrors the table,
`eval` the lowering.  No Mathlib.
-/
namespace NutilsVerif.C06.Func

/-- function arrays as far as their arguments are concerned.  `replace f keys repl`: the arguments named in `keys` are replaced
simultaneously, `repl k` is the replacement of `k` (an array in arbitrary other arguments, possibly `k` itself again). -/
inductive F where
  | const : Int → F
  | arg : String → F
  | add : F → F → F
  | mul : F → F → F
  | replace : F → List String → (String → F) → F

/-- `_Replace.__init__`, on name lists: `args` = announced names of the operand, `keys` = names in the specification,
`targetArgs k` = announced names of the replacement of `k`. -/
def announceReplace (args keys : List String) (targetArgs : String → List String) : List String :=
  args.filter (fun n => !keys.contains n) ++ (args.filter (fun n => keys.contains n)).flatMap targetArgs

/-- the announced arguments (`Array.arguments`, names only; union = `_join_arguments`) -/
def announced : F → List String
  | .const _ => []
  | .arg n => [n]
  | .add a b => announced a ++ announced b
  | .mul a b => announced a ++ announced b
  | .replace f keys repl => announceReplace (announced f) keys (fun k => announced (repl k))

/-- evaluation (`lower` + `evaluable.replace_arguments`): the operand is evaluated in the environment in which every replaced name is
bound to the value of its replacement in the outer environment -/
def eval (env : String → Int) : F → Int
  | .const v => v
  | .arg n => env n
  | .add a b => eval env a + eval env b
  | .mul a b => eval env a * eval env b
  | .replace f keys repl => eval (fun n => if keys.contains n then eval env (repl n) else env n) f

end NutilsVerif.C06.Func
