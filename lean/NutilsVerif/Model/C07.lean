import NutilsVerif.Core.Proto
import NutilsVerif.Core.Tensor
/-!
# C07 — function arrays follow NumPy semantics  (model; no Mathlib)

Two kinds of definitions, always in pairs:

* **specification** (`np…`, `py…`): what NumPy / Python do, written independently of nutils
  (right-aligned pairwise broadcasting, the `bool < int < float < complex` kind lattice, CPython's
  `slice.indices` and `range`, basic indexing as a recursion over (items, shape), NumPy's advanced
  indexing rule, row-major reshape through `flatIdx`, the matmul shape rule);
* **code model** (everything else): a transcription of the pure index / shape logic of
  `nutils/function.py` — `broadcast_shapes`, `typecast_arrays`, `numeric.normdim`, `_takeslice`,
  `Array.__getitem__` (ellipsis / newaxis bookkeeping, `axis += ndim(it)`), `numpy.take` index
  normalisation, the ravel/unravel/roll plan of `numpy.reshape`, `_Transpose._end/to_end/from_end`,
  `_Transpose.lower` (offset by the number of point axes), `matmul`.

`Props/C07.lean` proves that the code model meets the specification for all inputs; the harness checks the
specification against real NumPy (M1) and the code model + real nutils against both (M2).
-/
namespace NutilsVerif.C07

/-- all-or-nothing collection of optional results (a Python loop that raises at the first failure) -/
def sequence {α : Type} : List (Option α) → Option (List α)
  | [] => some []
  | none :: _ => none
  | some a :: t => (sequence t).map (a :: ·)

/-! ## 1. `numeric.normdim` -/

/-- code model of `numeric.normdim(ndim, n)`: `none` = IndexError -/
def normdim (ndim : Nat) (n : Int) : Option Nat :=
  let m := if n < 0 then n + (ndim : Int) else n
  if m < 0 ∨ m ≥ (ndim : Int) then none else some m.toNat

/-! ## 2. element kinds -/

inductive DType | bool | int | float | complex
deriving DecidableEq, Repr, Inhabited

/-- `_dtypes.index` -/
def DType.rank : DType → Nat
  | .bool => 0 | .int => 1 | .float => 2 | .complex => 3

/-- specification: NumPy's kind promotion is the join of the chain `bool < int < float < complex` -/
def npPromote : DType → DType → DType
  | .complex, _ | _, .complex => .complex
  | .float, _ | _, .float => .float
  | .int, _ | _, .int => .int
  | .bool, .bool => .bool

/-- code model: one step of `builtins.max(min_dtype, *dtypes, key=_dtypes.index)` (first maximal element wins) -/
def promote (a b : DType) : DType := if a.rank < b.rank then b else a

/-- code model of `typecast_arrays(*arrays, min_dtype)`: the common dtype -/
def typecast (minD : DType) (ds : List DType) : DType := ds.foldl promote minD

/-- One row of the generated table: how a `HANDLED_FUNCTIONS` entry that is a direct
`_Wrapper.broadcasted_arrays(...)` call determines its result dtype. -/
structure UfuncEntry where
  name : String
  nin : Nat
  minD : DType
  force : Option DType
deriving Repr

/-- code model of `_Wrapper.broadcasted_arrays(..., min_dtype, force_dtype)`: result dtype -/
def UfuncEntry.result (e : UfuncEntry) (ds : List DType) : DType :=
  match e.force with
  | some d => d
  | none => typecast e.minD ds

/-- specification: the element kind NumPy produces for the ufunc called `name` on operands of kinds `ds`
(restricted to operand kinds for which NumPy defines the ufunc and nutils claims support; validated against
real NumPy by the harness).  `none` = the name is not in the specification table. -/
def npUfuncKind (name : String) (ds : List DType) : Option DType :=
  let join := ds.foldl npPromote .bool
  let atLeast (m : DType) := npPromote m join
  if name ∈ ["add", "subtract", "multiply", "negative", "floor_divide", "remainder", "minimum", "maximum", "conjugate", "sign"] then some join
  else if name ∈ ["greater", "less", "equal", "logical_not", "invert"] then some .bool
  else if name ∈ ["power"] then some (atLeast .int)
  else if name ∈ ["divide", "reciprocal", "sqrt", "sin", "cos", "tan", "arcsin", "arccos", "arctan", "sinc", "cosh", "sinh", "tanh",
                   "arctanh", "exp", "log", "log2", "log10"] then some (atLeast .float)
  else if name ∈ ["logical_and", "logical_or", "bitwise_and", "bitwise_or"] then some join
  else none

/-- specification side condition: operand kinds for which NumPy defines the ufunc with the kind given by `npUfuncKind`
AND nutils claims support (everything else is either rejected by one of the two or a documented deviation:
NumPy computes `floor_divide(bool,bool)` in int8, `conjugate(bool)` in int8 — known finding —, rejects `bool - bool`, …) -/
def supportedKinds (name : String) (ds : List DType) : Bool :=
  let allb := ds.all (· == .bool)
  let anyc := ds.any (· == .complex)
  let anyb := ds.any (· == .bool)
  if name ∈ ["subtract", "negative", "positive"] then !allb
  else if name ∈ ["floor_divide", "remainder"] then !allb && !anyc
  else if name ∈ ["minimum", "maximum"] then !anyc
  else if name ∈ ["greater", "less"] then !anyc && !allb
  else if name ∈ ["sign"] then !anyb && !anyc
  else if name ∈ ["conjugate"] then !anyb
  else if name ∈ ["reciprocal"] then ds.all fun d => d == .float || d == .complex
  else if name ∈ ["logical_and", "logical_or", "bitwise_and", "bitwise_or", "logical_not", "invert"] then allb
  else if name ∈ ["power"] then !anyb
  else true

/-- all kind tuples of length `n` -/
def allKinds : Nat → List (List DType)
  | 0 => [[]]
  | n + 1 => (allKinds n).flatMap fun t => [DType.bool :: t, .int :: t, .float :: t, .complex :: t]

/-! ## 3. broadcasting -/

/-- specification: two axis lengths are compatible when equal or one of them is 1 -/
def bcAxis (a b : Nat) : Option Nat :=
  if a = b then some a else if a = 1 then some b else if b = 1 then some a else none

/-- specification on reversed shapes (i.e. right-aligned): missing axes count as absent -/
def npBroadcastRev : List Nat → List Nat → Option (List Nat)
  | [], bs => some bs
  | a :: as, [] => some (a :: as)
  | a :: as, b :: bs =>
    match bcAxis a b, npBroadcastRev as bs with
    | some c, some r => some (c :: r)
    | _, _ => none

/-- specification: NumPy broadcast of two shapes -/
def npBroadcast2 (a b : List Nat) : Option (List Nat) :=
  (npBroadcastRev a.reverse b.reverse).map List.reverse

/-- specification: NumPy broadcast of a list of shapes (`numpy.broadcast_shapes`) -/
def npBroadcast : List (List Nat) → Option (List Nat)
  | [] => some []
  | s :: ss => (npBroadcast ss).bind (npBroadcast2 s)

/-- `set(col)` as a duplicate-free list (the order of a Python set is irrelevant to what follows) -/
def distinct : List Nat → List Nat
  | [] => []
  | x :: xs => if x ∈ xs then distinct xs else x :: distinct xs

/-- code model: one column of `zip(*aligned_shapes)` handled as a set:
`if len(lengths) > 1: lengths.discard(1); if len(lengths) != 1: raise` -/
def bcColumn (col : List Nat) : Option Nat :=
  let s := distinct col
  let s := if s.length > 1 then s.filter (· ≠ 1) else s
  match s with
  | [n] => some n
  | _ => none

/-- code model of `function.broadcast_shapes(*shapes)`; `none` = ValueError -/
def broadcastShapes (shapes : List (List Nat)) : Option (List Nat) :=
  if shapes.isEmpty then none else
  let naxes := (shapes.map List.length).foldl max 0
  let aligned := shapes.map fun s => List.replicate (naxes - s.length) 1 ++ s
  sequence ((List.range naxes).map fun i => bcColumn (aligned.map fun s => s.getD i 1))

/-! ## 4. slices -/

structure PySlice where
  start : Option Int
  stop : Option Int
  step : Option Int
deriving Repr, DecidableEq, Inhabited

def PySlice.full : PySlice := ⟨none, none, none⟩

/-- specification: CPython `slice(start, stop, step).indices(n)`; `none` = ValueError (step 0) -/
def sliceIndices (s : PySlice) (n : Nat) : Option (Int × Int × Int) :=
  let step := s.step.getD 1
  if step = 0 then none else
  let len : Int := n
  let lower : Int := if step < 0 then -1 else 0
  let upper : Int := if step < 0 then len - 1 else len
  let clip (v : Int) : Int := if v < 0 then (if v + len < lower then lower else v + len) else (if v > upper then upper else v)
  let start := match s.start with
    | none => if step < 0 then upper else lower
    | some v => clip v
  let stop := match s.stop with
    | none => if step < 0 then lower else upper
    | some v => clip v
  some (start, stop, step)

/-- specification: `len(range(start, stop, step))` -/
def rangeLen (start stop step : Int) : Nat :=
  if step > 0 then (if start < stop then ((stop - start - 1) / step + 1).toNat else 0)
  else if step < 0 then (if stop < start then ((start - stop - 1) / (-step) + 1).toNat else 0)
  else 0

/-- specification: `list(range(start, stop, step))` -/
def pyRange (start stop step : Int) : List Int :=
  (List.range (rangeLen start stop step)).map fun (k : Nat) => start + (k : Int) * step

/-- specification: the index vector NumPy uses for `a[s]` on an axis of length `n` -/
def npSliceRange (s : PySlice) (n : Nat) : Option (List Int) :=
  (sliceIndices s n).map fun (a, b, c) => pyRange a b c

/-- what `_takeslice` decides to do with an axis -/
inductive SlicePlan
  | identity                          -- `return array`
  | unitRange (start length : Int)    -- `Range(length) + start`
  | general (idx : List Int)          -- `numpy.arange(*s.indices(n))`
deriving Repr, DecidableEq

/-- code model of `_takeslice` (fixed tree) for a constant axis length `n`; `none` = exception at build -/
def takeslice (s : PySlice) (n : Nat) : Option SlicePlan :=
  if s.step = none ∨ s.step = some 1 then
    match sliceIndices s n with
    | none => none
    | some (start, stop, _) =>
      let stop := if start > stop then start else stop
      if start = 0 ∧ stop = (n : Int) then some .identity
      else some (.unitRange start (stop - start))
  else
    match sliceIndices s n with
    | none => none
    | some (a, b, c) => some (.general (pyRange a b c))

/-- code model of `_takeslice` as pinned (no clipping in the unit-step branch) -/
def takeslicePinned (s : PySlice) (n : Nat) : Option SlicePlan :=
  if s.step = none ∨ s.step = some 1 then
    let start := match s.start with | none => 0 | some v => if v ≥ 0 then v else v + (n : Int)
    let stop := match s.stop with | none => (n : Int) | some v => if v ≥ 0 then v else v + (n : Int)
    if start = 0 ∧ stop = (n : Int) then some .identity
    else some (.unitRange start (stop - start))
  else
    match sliceIndices s n with
    | none => none
    | some (a, b, c) => some (.general (pyRange a b c))

/-- the index vector denoted by a plan (`Range(length)` of a negative length is empty here; the real
`evaluable.Range` asserts) -/
def SlicePlan.indices (n : Nat) : SlicePlan → List Int
  | .identity => (List.range n).map fun (k : Nat) => (k : Int)
  | .unitRange start length => (List.range length.toNat).map fun (k : Nat) => (k : Int) + start
  | .general idx => idx

/-! ## 5. `Array.__getitem__` -/

inductive Item
  | int (i : Int)
  | slice (s : PySlice)
  | ellipsis
  | newaxis
  | array (shape : List Nat) (vals : List Int)   -- integer index array, row-major values
deriving Repr, DecidableEq, Inhabited

def Item.isBasic : Item → Bool
  | .array _ _ => false
  | _ => true

/-- An array expression seen from the outside: its shape and, for every multi-index of the result, the
multi-index of the *original* array whose entry it holds. -/
structure View where
  shape : List Nat
  src : List Nat → List Nat

def View.id (shape : List Nat) : View := ⟨shape, fun idx => idx⟩

/-- code model of `expand_dims(array, axis)` = `insertaxis(array, axis, 1)` -/
def View.expandDims (v : View) (axis : Nat) : View :=
  ⟨v.shape.insertIdx axis 1, fun idx => v.src (idx.eraseIdx axis)⟩

/-- code model of `numpy.take(array, k, axis)` for a scalar (0-d) normalised index -/
def View.takeScalar (v : View) (axis k : Nat) : View :=
  ⟨v.shape.eraseIdx axis, fun idx => v.src (idx.insertIdx axis k)⟩

/-- code model of `numpy.take(array, ks, axis)` for a 1-d index vector -/
def View.takeList (v : View) (axis : Nat) (ks : List Nat) : View :=
  ⟨v.shape.set axis ks.length, fun idx => v.src (idx.set axis (ks.getD (idx.getD axis 0) 0))⟩

/-- code model of `numpy.take(array, K, axis)` for an index array of shape `ish` (row-major `ks`):
the axes of `K` replace `axis` -/
def View.takeArray (v : View) (axis : Nat) (ish : List Nat) (ks : List Nat) : View :=
  ⟨v.shape.take axis ++ ish ++ v.shape.drop (axis + 1),
   fun idx => v.src (idx.take axis ++ [ks.getD (flatIdx ish ((idx.drop axis).take ish.length)) 0] ++ idx.drop (axis + ish.length))⟩

/-- code model of the constant branch of `numpy.take`: `indices[indices < 0] += length`, bounds check -/
def normIndex (i : Int) (n : Nat) : Option Nat :=
  let j := if i < 0 then i + (n : Int) else i
  if j < 0 ∨ j ≥ (n : Int) then none else some j.toNat

def normIndices (is : List Int) (n : Nat) : Option (List Nat) := sequence (is.map (normIndex · n))

def countEllipsis (items : List Item) : Nat := (items.filter (· == .ellipsis)).length
def countNewaxis (items : List Item) : Nat := (items.filter (· == .newaxis)).length

/-- code model: the item tuple after the `nx` bookkeeping of `Array.__getitem__`
(`item + (slice(None),)*nx` or `item[:iell] + (slice(None),)*(nx+1) + item[iell+1:]`; a negative count gives
the empty tuple, as in Python) -/
def expandItems (ndim : Nat) (items : List Item) : List Item :=
  let nx : Int := (ndim : Int) - (items.length : Int) + (countNewaxis items : Int)
  match items.idxOf? Item.ellipsis with
  | none => items ++ List.replicate nx.toNat (.slice .full)
  | some iell => items.take iell ++ List.replicate (nx + 1).toNat (.slice .full) ++ items.drop (iell + 1)

/-- code model: one iteration of the loop of `Array.__getitem__` on `(array, axis)` -/
def getitemStep (st : View × Nat) (it : Item) : Option (View × Nat) :=
  let (v, axis) := st
  match it with
  | .newaxis => some (v.expandDims axis, axis + 1)
  | .ellipsis => none   -- cannot occur after expansion (a second ellipsis trips the assertion earlier)
  | .slice s =>
    if axis < v.shape.length then
      match takeslice s (v.shape.getD axis 0) with
      | none => none
      | some .identity => some (v, axis + 1)
      | some plan =>
        match normIndices (plan.indices (v.shape.getD axis 0)) (v.shape.getD axis 0) with
        | none => none
        | some ks => some (v.takeList axis ks, axis + 1)
    else none
  | .int i =>
    if axis < v.shape.length then
      match normIndex i (v.shape.getD axis 0) with
      | none => none
      | some k => some (v.takeScalar axis k, axis)
    else none
  | .array ish vals =>
    if axis < v.shape.length ∧ vals.length = shapeSize ish then
      match normIndices vals (v.shape.getD axis 0) with
      | none => none
      | some ks => some (v.takeArray axis ish ks, axis + ish.length)
    else none

def getitemRun : List Item → View × Nat → Option (View × Nat)
  | [], st => some st
  | it :: its, st => (getitemStep st it).bind (getitemRun its)

/-- code model of `Array.__getitem__(item)` on an array of shape `shape`; `none` = exception at build -/
def getitem (shape : List Nat) (items : List Item) : Option View :=
  if countEllipsis items > 1 then none else
  match getitemRun (expandItems shape.length items) (View.id shape, 0) with
  | none => none
  | some (v, axis) => if axis = v.shape.length then some v else none

/-- specification: number of source axes an item consumes under basic indexing -/
def Item.consumes : Item → Nat
  | .int _ | .slice _ | .array _ _ => 1
  | _ => 0

def consumed (items : List Item) : Nat := (items.map Item.consumes).foldl (· + ·) 0

/-- specification: replace the ellipsis (an implicit one at the end when absent) by the full slices it stands for -/
def npExpand (ndim : Nat) (items : List Item) : List Item :=
  let fill := List.replicate (ndim - consumed items) (Item.slice .full)
  match items.idxOf? Item.ellipsis with
  | none => items ++ fill
  | some k => items.take k ++ fill ++ items.drop (k + 1)

/-- specification: NumPy basic indexing as a recursion over (items, source shape) -/
def npBasic : List Item → List Nat → Option View
  | [], [] => some ⟨[], fun _ => []⟩
  | .newaxis :: its, sh =>
    match npBasic its sh with
    | some w => some ⟨1 :: w.shape, fun idx => w.src idx.tail⟩
    | none => none
  | .int i :: its, n :: sh =>
    match normIndex i n, npBasic its sh with
    | some k, some w => some ⟨w.shape, fun idx => k :: w.src idx⟩
    | _, _ => none
  | .slice s :: its, n :: sh =>
    match (npSliceRange s n).bind (normIndices · n), npBasic its sh with
    | some r, some w => some ⟨r.length :: w.shape, fun idx => r.getD (idx.headD 0) 0 :: w.src idx.tail⟩
    | _, _ => none
  | _, _ => none

/-- specification of `a[items]` for basic items (ints, slices, ellipsis, newaxis) -/
def npGetitemBasic (shape : List Nat) (items : List Item) : Option View :=
  if countEllipsis items > 1 then none else npBasic (npExpand shape.length items) shape

/-! ### specification of NumPy's advanced indexing (several index arrays / ints mixed with arrays)

NumPy broadcasts all advanced indices (integer arrays **and** plain integers once an array is present)
against each other; the broadcast axes replace the advanced block when the advanced indices are adjacent and go
to the front otherwise.  This is executable specification only (used by the harness to exhibit the known
deviation `getitem:multiple-index-arrays-outer`); no theorem relates the code model to it. -/

/-- per source axis after expansion: how it is indexed -/
inductive AxisIx
  | all (r : List Nat)                       -- slice: list of source positions
  | adv (ish : List Nat) (ks : List Nat)     -- advanced: index array (ints are 0-d arrays)
  | new                                      -- newaxis (consumes nothing)
deriving Repr

def classify : List Item → List Nat → Option (List AxisIx)
  | [], [] => some []
  | .newaxis :: its, sh => (classify its sh).map (AxisIx.new :: ·)
  | .int i :: its, n :: sh =>
    match normIndex i n, classify its sh with
    | some k, some r => some (.adv [] [k] :: r)
    | _, _ => none
  | .array ish vals :: its, n :: sh =>
    if vals.length = shapeSize ish then
      match normIndices vals n, classify its sh with
      | some ks, some r => some (.adv ish ks :: r)
      | _, _ => none
    else none
  | .slice s :: its, n :: sh =>
    match (npSliceRange s n).bind (normIndices · n), classify its sh with
    | some r, some rest => some (.all r :: rest)
    | _, _ => none
  | _, _ => none

def AxisIx.isAdv : AxisIx → Bool | .adv _ _ => true | _ => false

/-- broadcast a multi-index of the broadcast shape `bsh` back to an operand of shape `ish` (right aligned) -/
def unbroadcastIdx (bsh ish idx : List Nat) : List Nat :=
  let d := bsh.length - ish.length
  (List.range ish.length).map fun j => if ish.getD j 1 = 1 then 0 else idx.getD (d + j) 0

/-- specification of `a[items]` in general (advanced indexing included) -/
def npGetitem (shape : List Nat) (items : List Item) : Option View :=
  if countEllipsis items > 1 then none else
  if items.all Item.isBasic then npGetitemBasic shape items else
  match classify (npExpand shape.length items) shape with
  | none => none
  | some axs =>
    let advs := axs.filter AxisIx.isAdv
    match npBroadcast (advs.map fun | .adv ish _ => ish | _ => []) with
    | none => none
    | some bsh =>
      -- NumPy decides syntactically: the advanced indices are adjacent when no slice, ellipsis (even an empty one) or
      -- newaxis stands between the first and the last of them in the item tuple
      let isAdvItem : Item → Bool := fun | .int _ => true | .array _ _ => true | _ => false
      let core := ((items.dropWhile (! isAdvItem ·)).reverse.dropWhile (! isAdvItem ·))
      let adjacent := core.all isAdvItem
      let firstAdv := (axs.findIdx? AxisIx.isAdv).getD 0
      let axShape : AxisIx → List Nat := fun | .all r => [r.length] | .new => [1] | .adv _ _ => []
      let preShape := ((axs.take firstAdv).map axShape).flatten
      let nonAdvShape := ((axs.filter (! ·.isAdv)).map axShape).flatten
      let outShape := if adjacent then preShape ++ bsh ++ (((axs.drop firstAdv).filter (! ·.isAdv)).map axShape).flatten
                      else bsh ++ nonAdvShape
      let nb := bsh.length
      let off := if adjacent then preShape.length else 0
      some ⟨outShape, fun idx =>
        let bidx := (idx.drop off).take nb
        -- the non-advanced result positions, in order
        let rest := idx.take off ++ idx.drop (off + nb)
        let rec go : List AxisIx → List Nat → List Nat
          | [], _ => []
          | .new :: t, r => go t r.tail
          | .all l :: t, r => l.getD (r.headD 0) 0 :: go t r.tail
          | .adv ish ks :: t, r => ks.getD (flatIdx ish (unbroadcastIdx bsh ish bidx)) 0 :: go t r
        go axs rest⟩

/-! ## 6. `numpy.reshape` -/

/-- An array seen as a map from its multi-indices to row-major offsets into the original data. -/
structure RView where
  shape : List Nat
  src : List Nat → Nat

/-- `InsertAxis(arg, 1)`: append a singleton axis -/
def RView.appendOne (v : RView) : RView := ⟨v.shape ++ [1], fun idx => v.src idx.dropLast⟩

/-- `Ravel`: merge the last two axes -/
def RView.ravel (v : RView) : RView :=
  let n := v.shape.length
  let a := v.shape.getD (n - 2) 0
  let b := v.shape.getD (n - 1) 0
  ⟨v.shape.take (n - 2) ++ [a * b], fun idx => v.src (idx.dropLast ++ [idx.getLastD 0 / b, idx.getLastD 0 % b])⟩

/-- `Unravel(arg, n, s)`: split the last axis into `(n, s)` -/
def RView.unravel (v : RView) (n s : Nat) : RView :=
  ⟨v.shape.dropLast ++ [n, s], fun idx =>
    let l := idx.length
    v.src (idx.take (l - 2) ++ [idx.getD (l - 2) 0 * s + idx.getD (l - 1) 0])⟩

/-- `_Transpose.from_end(arg, k)`: move the last axis to position `k` -/
def RView.fromEnd (v : RView) (k : Nat) : RView :=
  ⟨v.shape.dropLast.insertIdx k (v.shape.getLastD 0), fun idx => v.src (idx.eraseIdx k ++ [idx.getD k 0])⟩

/-- `Take(arg, 0)`: drop a trailing singleton axis -/
def RView.dropOne (v : RView) : RView := ⟨v.shape.dropLast, fun idx => v.src (idx ++ [0])⟩

/-- specification / code model (identical arithmetic): resolve `-1` (`none`) and check the size.
`Except` values: the string names the Python exception. -/
def resolveShape (size : Nat) (newshape : List (Option Nat)) : Except String (List Nat) :=
  match newshape.idxOf? none with
  | some i =>
    if (newshape.drop (i + 1)).contains none then .error "ValueError: can only specify one unknown dimension" else
    let others := (newshape.filterMap id).foldl (· * ·) 1
    if others = 0 then .error "ZeroDivisionError" else
    if size % others ≠ 0 then .error "ValueError: cannot reshape" else
    .ok (newshape.map fun | some n => n | none => size / others)
  | none =>
    let ns := newshape.filterMap id
    if ns.foldl (· * ·) 1 ≠ size then .error "ValueError: cannot reshape" else .ok ns

/-- code model: `while arg.ndim > ncommon and len(newshape) > ncommon and arg.shape[ncommon] == newshape[ncommon]` -/
def commonPrefix : List Nat → List Nat → Nat
  | a :: as, b :: bs => if a = b then commonPrefix as bs + 1 else 0
  | _, _ => 0

/-- code model: `while arg.shape[-1] % s: assert arg.ndim > ncommon+i+1; arg = Ravel(arg)` -/
def ravelWhile : Nat → Nat → Nat → RView → Except String RView
  | 0, _, _, _ => .error "fuel"
  | fuel + 1, minNdim, s, v =>
    if s = 0 then .error "ZeroDivisionError" else
    if v.shape.getLastD 0 % s = 0 then .ok v else
    if v.shape.length > minNdim then ravelWhile fuel minNdim s v.ravel else .error "AssertionError"

/-- code model: body of `for i, s in enumerate(reversed(newshape[ncommon:]))` -/
def reshapeStep (ncommon : Nat) (v : RView) (i s : Nat) : Except String RView := do
  let v ←
    if v.shape.length = ncommon + i then
      if s = 1 then pure v.appendOne else .error "AssertionError"
    else do
      let v ← ravelWhile (v.shape.length + 1) (ncommon + i + 1) s v
      if v.shape.getLastD 0 ≠ s then pure (v.unravel (v.shape.getLastD 0 / s) s) else pure v
  pure (v.fromEnd ncommon)

def reshapeLoop (ncommon : Nat) : List Nat → Nat → RView → Except String RView
  | [], _, v => .ok v
  | s :: ss, i, v => do
    let v ← reshapeStep ncommon v i s
    reshapeLoop ncommon ss (i + 1) v

/-- code model: `while arg.ndim > len(newshape): assert arg.shape[-1] == 1; arg = Take(arg, 0)` -/
def stripOnes : Nat → Nat → RView → Except String RView
  | 0, _, v => .ok v
  | fuel + 1, target, v =>
    if v.shape.length > target then
      if v.shape.getLastD 0 = 1 then stripOnes fuel target v.dropOne else .error "AssertionError"
    else .ok v

/-- code model of `numpy.reshape(arg, newshape)` on function arrays -/
def reshape (shape : List Nat) (newshape : List (Option Nat)) : Except String RView := do
  let ns ← resolveShape (shapeSize shape) newshape
  let ncommon := commonPrefix shape ns
  let v ← reshapeLoop ncommon (ns.drop ncommon).reverse 0 ⟨shape, flatIdx shape⟩
  let v ← stripOnes v.shape.length ns.length v
  if v.shape = ns then pure v else .error "AssertionError"

/-- specification: NumPy accepts `reshape(size → newshape)` iff at most one entry is `-1` (`none`) and the sizes
agree; the unknown entry is the quotient. -/
def npReshapeShape (size : Nat) (newshape : List (Option Nat)) : Option (List Nat) :=
  let known := newshape.filterMap id
  let others := shapeSize known
  match newshape.count none with
  | 0 => if others = size then some known else none
  | 1 => if others ≠ 0 ∧ size % others = 0 then some (newshape.map fun | some n => n | none => size / others) else none
  | _ => none

/-- specification: the result holds at multi-index `idx` the entry with row-major offset `flatIdx ns idx` of the original. -/
def npReshape (shape : List Nat) (newshape : List (Option Nat)) : Option RView :=
  (npReshapeShape (shapeSize shape) newshape).map fun ns => ⟨ns, flatIdx ns⟩

/-! ## 7. transposition helpers -/

/-- code model of `_Transpose._end(array, axes, invert)`: the axes tuple handed to `_Transpose`
(`none` = IndexError from normdim or the 'duplicate axes' exception); `some none` = "return array" (identity) -/
def transposeEnd (ndim : Nat) (axes : List Int) (invert : Bool) : Option (Option (List Nat)) :=
  match sequence (axes.map (normdim ndim)) with
  | none => none
  | some ax =>
    if ax == (List.range ax.length).map (· + (ndim - ax.length)) ∧ ax.length ≤ ndim then some none else
    let trans := (List.range ndim).filter (fun i => !ax.contains i) ++ ax
    if trans.length ≠ ndim then none else
    if invert then some (some ((List.range ndim).map fun i => trans.idxOf i))   -- numpy.argsort of a permutation
    else some (some trans)

/-- code model of `_Transpose.lower`: `(*range(offset), *(i+offset for i in axes))` -/
def liftAxes (offset : Nat) (axes : List Nat) : List Nat :=
  List.range offset ++ axes.map (· + offset)

/-- specification of `numpy.transpose(a, axes)`: result multi-index ↦ source multi-index -/
def transposeSrc (axes : List Nat) (idx : List Nat) : List Nat :=
  (List.range axes.length).map fun a => idx.getD (axes.idxOf a) 0

def transposeShape (axes shape : List Nat) : List Nat := axes.map fun a => shape.getD a 0

/-! ## 8. matmul shape logic -/

/-- specification: NumPy's `matmul` shape rule (`none` = ValueError) -/
def npMatmulShape (a b : List Nat) : Option (List Nat) :=
  match a.reverse, b.reverse with
  | [], _ | _, [] => none
  | [k], [k'] => if k = k' then some [] else none
  | k :: n :: ar, [k'] => if k = k' then some (ar.reverse ++ [n]) else none
  | [k], m :: k' :: br => if k = k' then some (br.reverse ++ [m]) else none
  | k :: n :: ar, m :: k' :: br =>
    if k = k' then (npBroadcast2 ar.reverse br.reverse).map (· ++ [n, m]) else none

/-- code model of `matmul` (multiply with broadcasting, then sum) -/
def matmulShape (a b : List Nat) : Option (List Nat) :=
  if a.length = 0 ∨ b.length = 0 then none
  else if b.length = 1 then (broadcastShapes [a, b]).map List.dropLast
  else if a.length = 1 then (broadcastShapes [a ++ [1], b]).map fun s => s.eraseIdx (s.length - 2)
  else (broadcastShapes [a ++ [1], b.take (b.length - 2) ++ [1] ++ b.drop (b.length - 2)]).map fun s => s.eraseIdx (s.length - 2)

end NutilsVerif.C07
