/-!
# C20 — physical dimensions (executable model of `nutils/SI.py`)

Mirrors, in this order:

* `Dimension.from_powers`, `_binop`, `__mul__`, `__truediv__`, `__pow__`      → `fromPowers`, `binop`, `mul`, `div`, `pow`
* the canonical class name built in `from_powers` and `_split_factors` / `Dimension.__getattr__`
                                                                             → `name`, `rawFactors`, `decodeFactor`, `splitFactors`, `dimOfName`
* the `Quantity` dispatch handlers (`__unary`, `__add_like`, …)               → `Kind`, `apply`
* `parse`, `Dimension.__call__`, `Units.__setattr__`, `Quantity.__format__`    → `parse`, `construct`, `define`, `formatParts`

Exponents and values are exact rationals (`Rat` of Lean core); strings that are taken apart
character by character are `List Char`.  No Mathlib.
-/
namespace NutilsVerif.C20

/-! ## 1. exponent vectors -/

abbrev Base := String
/-- the `__powers` dict of a Dimension class: base symbol ↦ exponent -/
abbrev Pows := List (Base × Rat)

/-- `powers.get(k, 0)` -/
def get : Pows → Base → Rat
  | [], _ => 0
  | (b, p) :: t, k => if b = k then p else get t k

def keys (d : Pows) : List Base := d.map (·.1)

/-- strictly increasing base symbols -/
def Sorted (d : Pows) : Prop := d.Pairwise (fun x y => x.1 < y.1)
/-- canonical representation of a dict without zero entries: sorted, no zero exponent -/
def Canon (d : Pows) : Prop := Sorted d ∧ ∀ e ∈ d, e.2 ≠ 0

def sortedB : Pows → Bool
  | [] => true
  | [_] => true
  | x :: y :: t => decide (x.1 < y.1) && sortedB (y :: t)
def canonB (d : Pows) : Bool := sortedB d && d.all (fun e => decide (e.2 ≠ 0))

/-- add exponent `v` for base `k` into a canonical list (removing the entry when it cancels) -/
def add1 (k : Base) (v : Rat) : Pows → Pows
  | [] => if v = 0 then [] else [(k, v)]
  | (b, p) :: t =>
    if k < b then (if v = 0 then (b, p) :: t else (k, v) :: (b, p) :: t)
    else if k = b then (if p + v = 0 then t else (b, p + v) :: t)
    else (b, p) :: add1 k v t

/-- `Dimension.from_powers`: drop zero exponents; the class is identified with the canonical list -/
def fromPowers (l : Pows) : Pows := l.foldl (fun acc e => add1 e.1 e.2 acc) []

/-- `set(a) | set(b)` -/
def unionKeys (a b : Pows) : List Base := keys a ++ (keys b).filter (fun k => !(keys a).contains k)

/-- `Dimension._binop(op, a, b)` -/
def binop (op : Rat → Rat → Rat) (a b : Pows) : Pows :=
  fromPowers ((unionKeys a b).map fun k => (k, op (get a k) (get b k)))

def one : Pows := []
def mul (a b : Pows) : Pows := binop (· + ·) a b
def div (a b : Pows) : Pows := binop (· - ·) a b
/-- `Dimension.__pow__` with the exponent already converted by `fractions.Fraction(other)` -/
def pow (d : Pows) (q : Rat) : Pows := fromPowers (d.map fun e => (e.1, e.2 * q))

/-! ## 2. class names and `_split_factors` -/

def digits (n : Nat) : List Char := Nat.toDigits 10 n

/-- one factor of the name: `('*' if power > 0 else '/') + base + numerator + '_' + denominator` -/
def factorName (b : Base) (p : Rat) : List Char :=
  (if 0 < p then ['*'] else ['/']) ++ b.toList
    ++ (if p.num.natAbs ≠ 1 then digits p.num.natAbs else [])
    ++ (if p.den ≠ 1 then '_' :: digits p.den else [])

/-- `sorted(items, key=lambda item: item[::-1], reverse=True)`: descending in (power, base) -/
def nameLe (x y : Base × Rat) : Bool := decide (y.2 < x.2) || (decide (y.2 = x.2) && decide (y.1 ≤ x.1))

def lstripStar : List Char → List Char
  | '*' :: t => lstripStar t
  | s => s

/-- the cache key / class name (without the brackets) -/
def name (d : Pows) : List Char :=
  lstripStar ((d.mergeSort nameLe).flatMap fun e => factorName e.1 e.2)

/-- Python `str.split(c)` for a single character separator (always at least one part) -/
def splitOn (c : Char) : List Char → List (List Char)
  | [] => [[]]
  | x :: t =>
    if x = c then [] :: splitOn c t
    else match splitOn c t with
      | [] => [[x]]
      | h :: r => (x :: h) :: r

def isPowChar (c : Char) : Bool := c.isDigit || c = '_'
/-- `s.rstrip('0123456789_')` -/
def rstripPow (s : List Char) : List Char := (s.reverse.dropWhile isPowChar).reverse
/-- the stripped suffix `factor[len(base):]` -/
def powSuffix (s : List Char) : List Char := (s.reverse.takeWhile isPowChar).reverse

/-- Python `int()` restricted to strings over digits and '_' (single underscores between digits are legal) -/
def intTail : List Char → Bool
  | [] => true
  | c :: t => if c = '_' then (match t with | [] => false | d :: t' => d.isDigit && intTail t') else c.isDigit && intTail t
def pyInt (s : List Char) : Option Nat :=
  match s with
  | [] => none
  | c :: t => if c.isDigit && intTail t then some (Nat.ofDigitChars 10 (s.filter (· ≠ '_')) 0) else none

inductive SErr | value | zeroDiv
  deriving DecidableEq, Repr

/-- the generator of `_split_factors` before decoding: the non-empty factor texts with their `isnumer` flag -/
def rawFactors (s : List Char) : List (List Char × Bool) :=
  (splitOn '*' s).flatMap fun part =>
    let fs := splitOn '/' part
    (fs.zipIdx.filter (fun fi => fi.1 ≠ [])).map fun fi => (fi.1, fi.2 == 0)

/-- body of the generator for one factor: `(base, Fraction(int(numer or 1), int(denom or 1)))` -/
def decodeFactor (f : List Char) : Except SErr (List Char × Rat) :=
  let base := rstripPow f
  let suf := powSuffix f
  let numer := suf.takeWhile (· ≠ '_')
  let denom := (suf.dropWhile (· ≠ '_')).drop 1
  match (if numer = [] then some 1 else pyInt numer), (if denom = [] then some 1 else pyInt denom) with
  | some n, some d => if d = 0 then .error .zeroDiv else .ok (base, (n : Rat) / (d : Rat))
  | _, _ => .error .value

/-- `list(_split_factors(s))` -/
def splitFactors (s : List Char) : Except SErr (List (List Char × Rat × Bool)) :=
  (rawFactors s).mapM fun fb => (decodeFactor fb.1).map fun bp => (bp.1, bp.2, fb.2)

/-- dict comprehension semantics: a later entry with the same key replaces the earlier one -/
def pyDict (l : Pows) : Pows :=
  l.foldl (fun acc e => acc.filter (fun x => x.1 ≠ e.1) ++ [e]) []

/-- `Dimension.__getattr__('[' + s + ']')` (what pickle uses to find the class again) -/
def dimOfName (s : List Char) : Except SErr Pows := do
  let fs ← splitFactors s
  let signed : Pows := (fs.filter fun f => f.2.1 ≠ 0).map fun f => (String.ofList f.1, if f.2.2 then f.2.1 else -f.2.1)
  pure (fromPowers (pyDict signed))

/-- what `Dimension.create` accepts: `next(_split_factors(arg))[0] == arg` -/
inductive CreateRes | ok | invalid | stopIteration | exc (e : SErr)
  deriving DecidableEq, Repr
def createCheck (s : List Char) : CreateRes :=
  match rawFactors s with
  | [] => .stopIteration
  | fb :: _ =>
    match decodeFactor fb.1 with
    | .error e => .exc e
    | .ok bp => if bp.1 = s then .ok else .invalid

/-- base symbols for which the name is unambiguous (the ones `Dimension.create` admits) -/
def ValidBase (b : Base) : Prop :=
  b.toList ≠ [] ∧ '*' ∉ b.toList ∧ '/' ∉ b.toList ∧ ∀ c, b.toList.getLast? = some c → isPowChar c = false

def validBaseB (b : Base) : Bool :=
  let l := b.toList
  l ≠ [] && !l.contains '*' && !l.contains '/' && (match l.getLast? with | some c => !isPowChar c | none => false)

/-! ## 3. the dispatch handlers of `Quantity` -/

/-- one handler function of `Quantity.__DISPATCH_TABLE` -/
inductive Kind
  | unary | addLike | mulLike | divLike | laplace | sqrt | setitem | powLike | unaryOp | binaryOp
  | stackLike | curvature | evaluate | field | attribute | interp | locate | sample
  deriving DecidableEq, Repr

/-- a positional argument: a `Quantity` (dimension, payload) or anything else (counts as dimensionless) -/
inductive Arg (V : Type) where
  | q (d : Pows) (v : V)
  | plain (v : V)
  deriving Repr

namespace Arg
def dim {V} : Arg V → Pows | q d _ => d | plain _ => []
def val {V} : Arg V → V | q _ v => v | plain v => v
def isQ {V} : Arg V → Bool | q _ _ => true | plain _ => false
/-- what `Quantity.__unpack` hands to the wrapped function for this argument -/
def unpacked {V} (a : Arg V) : Arg V := .plain a.val
end Arg

/-- `Dimension.wrap`: dimensionless results lose the wrapper -/
def wrap {V} (d : Pows) (v : V) : Arg V := if d = [] then .plain v else .q d v

inductive Err
  | dimension   -- DimensionError
  | assertion   -- 'no dimensional quantities found'
  | index       -- too few positional arguments
  | type        -- exponent cannot be converted to a Fraction
  deriving DecidableEq, Repr

/-- result of a handler: the value it returns, and the argument list the wrapped function was called with -/
structure Call (V : Type) where
  passed : List (Arg V)
  result : List (Arg V)     -- one element, except for `evaluate` (a tuple)

/-- call the wrapped function on `passed` and wrap its value with dimension `d` -/
def call1 {V} (op : List (Arg V) → V) (d : Pows) (passed : List (Arg V)) : Call V :=
  { passed := passed, result := [wrap d (op passed)] }

/-- `Quantity.__unpack(*sel)`: asserts that at least one selected argument is a Quantity -/
def unpackOk {V} (sel : List (Arg V)) : Bool := sel.any Arg.isQ

/-- The handlers.  `op` is the wrapped function acting on the positional arguments; `expo` is the conversion
`fractions.Fraction(args[1])` for the power-like handler (`none`: not convertible).  `tuple` splits the
return value of `evaluate` into its components. -/
def apply {V} (k : Kind) (op : List (Arg V) → V) (tuple : V → List V) (expo : Arg V → Option Rat) (args : List (Arg V)) :
    Except Err (Call V) :=
  match k, args with
  | .unary, a0 :: rest =>
    if unpackOk [a0] then .ok (call1 op a0.dim (a0.unpacked :: rest)) else .error .assertion
  | .sample, s :: f :: [] =>      -- (sample, func): the *second* positional argument carries the dimension
    if unpackOk [f] then .ok (call1 op f.dim [s, f.unpacked]) else .error .assertion
  | .addLike, a0 :: a1 :: rest =>
    if !unpackOk [a0, a1] then .error .assertion
    else if a0.dim ≠ a1.dim then .error .dimension
    else .ok (call1 op a0.dim (a0.unpacked :: a1.unpacked :: rest))
  | .mulLike, a0 :: a1 :: rest =>
    if !unpackOk [a0, a1] then .error .assertion
    else .ok (call1 op (mul a0.dim a1.dim) (a0.unpacked :: a1.unpacked :: rest))
  | .divLike, a0 :: a1 :: rest =>
    if !unpackOk [a0, a1] then .error .assertion
    else .ok (call1 op (div a0.dim a1.dim) (a0.unpacked :: a1.unpacked :: rest))
  | .laplace, a0 :: a1 :: rest =>
    if !unpackOk [a0, a1] then .error .assertion
    else .ok (call1 op (div a0.dim (pow a1.dim 2)) (a0.unpacked :: a1.unpacked :: rest))
  | .sqrt, a0 :: rest =>
    if unpackOk [a0] then .ok (call1 op (pow a0.dim (1/2)) (a0.unpacked :: rest)) else .error .assertion
  | .setitem, a0 :: i :: a2 :: rest =>
    if !unpackOk [a0, a2] then .error .assertion
    else if a0.dim ≠ a2.dim then .error .dimension
    else .ok (call1 op a0.dim (a0.unpacked :: i :: a2.unpacked :: rest))
  | .powLike, a0 :: e :: rest =>
    if !unpackOk [a0] then .error .assertion
    else match expo e with
      | none => .error .type
      | some x => .ok (call1 op (pow a0.dim x) (a0.unpacked :: e :: rest))
  | .powLike, [a0] => if !unpackOk [a0] then .error .assertion else .error .index   -- `args[1]` is looked up after unpacking
  | .unaryOp, a0 :: rest =>
    if unpackOk [a0] then .ok { passed := a0.unpacked :: rest, result := [.plain (op (a0.unpacked :: rest))] } else .error .assertion
  | .binaryOp, a0 :: a1 :: rest =>
    if !unpackOk [a0, a1] then .error .assertion
    else if a0.dim ≠ a1.dim then .error .dimension
    else .ok { passed := a0.unpacked :: a1.unpacked :: rest, result := [.plain (op (a0.unpacked :: a1.unpacked :: rest))] }
  | .stackLike, _ => .error .index   -- the sequence argument is modelled by `applyStack`
  | .curvature, a0 :: rest =>
    -- the pinned tree passed `*args` (the still wrapped quantity) on to the wrapped function, which then
    -- dispatched again without end; repaired upstream to pass the unpacked payload, which is what is modelled
    if unpackOk [a0] then .ok (call1 op (pow a0.dim (-1)) (a0.unpacked :: rest)) else .error .assertion
  | .evaluate, as =>
    if !unpackOk as then .error .assertion
    else
      let passed := as.map Arg.unpacked
      .ok { passed := passed, result := (as.zip (tuple (op passed))).map fun ar => wrap ar.1.dim ar.2 }
  | .field, as =>
    if !unpackOk as then .error .assertion
    else match as.map Arg.dim with
      | [] => .error .assertion
      | d :: ds => .ok (call1 op (ds.foldl mul d) (as.map Arg.unpacked))
  | .attribute, as =>
    if !unpackOk as then .error .assertion
    else .ok { passed := as.map Arg.unpacked, result := [.plain (op (as.map Arg.unpacked))] }
  | .interp, x :: xp :: fp :: rest =>
    if !unpackOk [x, xp, fp] then .error .assertion
    else if x.dim ≠ xp.dim then .error .dimension
    else .ok (call1 op fp.dim (x.unpacked :: xp.unpacked :: fp.unpacked :: rest))
  | _, _ => .error .index

/-- `__stack_like`: the first positional argument is a sequence -/
def applyStack {V} (op : List (Arg V) → List (Arg V) → V) (seq rest : List (Arg V)) : Except Err (Arg V × List (Arg V)) :=
  if !unpackOk seq then .error .assertion
  else match seq with
    | [] => .error .assertion
    | a0 :: as =>
      if as.any (fun a => a.dim ≠ a0.dim) then .error .dimension
      else .ok (wrap a0.dim (op (seq.map Arg.unpacked) rest), seq.map Arg.unpacked)

/-- `dim == Dimensionless and x is None or dim == dimgeom` for an optional operand (`none`: the argument is `None`) -/
def okOpt (g : Pows) : Option (Pows × Bool) → Bool
  | none => true
  | some (d, _) => decide (d = g)

def optIsQ : Option (Pows × Bool) → Bool
  | none => false
  | some (_, q) => q

/-- `__locate`: geom, coords, tol, maxdist (the last two may be `None`); each operand: (dimension, is-a-Quantity) -/
def applyLocate (geom coords : Pows × Bool) (tol maxdist : Option (Pows × Bool)) : Except Err Unit :=
  if !(geom.2 || coords.2 || optIsQ tol || optIsQ maxdist) then .error .assertion
  else if geom.1 ≠ coords.1 then .error .dimension
  else if !okOpt geom.1 tol then .error .dimension
  else if !okOpt geom.1 maxdist then .error .dimension
  else .ok ()


/-! ### compositions of operators -/

/-- an expression over quantities: leaves carry a dimension, nodes are the arithmetic operators / NumPy functions -/
inductive Expr
  | leaf (d : Pows)
  | mul (a b : Expr) | div (a b : Expr) | pow (a : Expr) (q : Rat) | sqrt (a : Expr)
  | addLike (a b : Expr)          -- + - % maximum minimum hypot
  | unary (a : Expr)              -- neg abs sum mean max getitem …

/-- the dimension the handlers compute for an expression (`DimensionError` at the first add-like node whose operands differ) -/
def Expr.dim : Expr → Except Err Pows
  | .leaf d => .ok d
  | .mul a b => do let x ← a.dim; let y ← b.dim; pure (C20.mul x y)
  | .div a b => do let x ← a.dim; let y ← b.dim; pure (C20.div x y)
  | .pow a q => do let x ← a.dim; pure (C20.pow x q)
  | .sqrt a => do let x ← a.dim; pure (C20.pow x (1/2))
  | .addLike a b => do let x ← a.dim; let y ← b.dim; if x ≠ y then throw .dimension else pure x
  | .unary a => a.dim

/-- specification: the exponent of base `k` by exact arithmetic on the leaves' exponents -/
def Expr.expo (k : Base) : Expr → Rat
  | .leaf d => get d k
  | .mul a b => a.expo k + b.expo k
  | .div a b => a.expo k - b.expo k
  | .pow a q => a.expo k * q
  | .sqrt a => a.expo k * (1/2)
  | .addLike a _ => a.expo k
  | .unary a => a.expo k

/-- specification: every add-like node combines operands with the same exponents -/
def Expr.Consistent : Expr → Prop
  | .leaf _ => True
  | .mul a b | .div a b => a.Consistent ∧ b.Consistent
  | .pow a _ | .sqrt a | .unary a => a.Consistent
  | .addLike a b => a.Consistent ∧ b.Consistent ∧ ∀ k, a.expo k = b.expo k

def Expr.LeavesCanon : Expr → Prop
  | .leaf d => Canon d
  | .mul a b | .div a b | .addLike a b => a.LeavesCanon ∧ b.LeavesCanon
  | .pow a _ | .sqrt a | .unary a => a.LeavesCanon

/-! ### the trusted classification: which homogeneity law does a dispatched function obey -/

/-- Homogeneity laws.  `λ`, `μ` range over positive scale factors (a change of the reference unit). -/
inductive Law
  /-- `f(λx, …) = λ f(x, …)`: homogeneous of degree one in the first operand, all other operands structural -/
  | preserving
  /-- `f(λx, λy) = λ f(x, y)` and `f(λx, μy)` has no meaning for `λ ≠ μ`: operands must agree -/
  | additive
  /-- `f(λx, μy) = λμ f(x, y)` -/
  | bilinear
  /-- `f(λx, μy) = (λ/μ) f(x, y)`: quotients and first derivatives with respect to the second operand -/
  | quotient
  /-- `f(λx, μy) = (λ/μ²) f(x, y)`: second derivatives -/
  | quotient2
  /-- `f(λx) = λ^(1/2) f(x)` -/
  | root2
  /-- `f(λx, n) = λⁿ f(x, n)` -/
  | power
  /-- `f(λx) = f(x)`: degree zero, result is a plain value -/
  | invariant
  /-- `f(λx, λy) = f(x, y)` and no meaning for operands of different dimension; result is a plain value -/
  | comparison
  /-- `f([λx₁, …, λxₙ]) = λ f([x₁, …, xₙ])`, all items must agree -/
  | homogeneousList
  /-- `a[i] = b` is meaningful only if `a` and `b` agree; the container keeps its dimension -/
  | assign
  /-- `f(λx) = λ⁻¹ f(x)` -/
  | inverse
  /-- `f(x₁, …, xₙ) = (g(x₁), …, g(xₙ))` with `g` of degree one: component-wise -/
  | tuplewise
  /-- `f(name, λ₁c₁, …, λₙcₙ) = λ₁⋯λₙ f(name, c₁, …, cₙ)`: multilinear in all array operands -/
  | multilinear
  /-- result carries no physical value (a dict of argument shapes) -/
  | structural
  /-- `interp(λx, λxp, μfp) = μ interp(x, xp, fp)`; `x`, `xp` must agree -/
  | interpolation
  /-- `locate(λgeom, λcoords, tol=λtol, maxdist=λd)` is invariant; all given operands must agree -/
  | location
  /-- `s.integral(λf) = λ s.integral(f)`: linear in the *second* positional operand -/
  | linearSecond
  deriving DecidableEq, Repr

/-- the handler that implements a law -/
def requiredKind : Law → Kind
  | .preserving => .unary | .additive => .addLike | .bilinear => .mulLike | .quotient => .divLike
  | .quotient2 => .laplace | .root2 => .sqrt | .power => .powLike | .invariant => .unaryOp
  | .comparison => .binaryOp | .homogeneousList => .stackLike | .assign => .setitem | .inverse => .curvature
  | .tuplewise => .evaluate | .multilinear => .field | .structural => .attribute | .interpolation => .interp
  | .location => .locate | .linearSecond => .sample

/-- Trusted specification: the law of every function nutils may dispatch on a `Quantity`.
Names are `module.qualname` with `_operator` written as `operator`. -/
def lawOf : String → Option Law
  -- degree one in the first operand: sign changes, selections, reshapes, linear reductions, norms, extrema,
  -- derivatives with respect to a (dimensionless) argument, argument substitution
  | "operator.pos" | "operator.neg" | "operator.abs" | "operator.getitem"
  | "numpy.positive" | "numpy.negative" | "numpy.absolute" | "numpy.conjugate" | "numpy.real" | "numpy.imag"
  | "numpy.transpose" | "numpy.reshape" | "numpy.broadcast_to" | "numpy.take"
  | "numpy.sum" | "numpy.mean" | "numpy.trace"
  | "numpy.max" | "numpy.min" | "numpy.amax" | "numpy.amin" | "numpy.ptp" | "numpy.linalg.norm"
  | "nutils.function.scatter" | "nutils.function.kronecker" | "nutils.function.replace_arguments"
  | "nutils.function.opposite" | "nutils.function.swap_spaces" | "nutils.function.linearize"
  | "nutils.function.jump" | "nutils.function.factor" | "nutils.function.derivative" => some .preserving
  -- sums, differences, remainders, extrema and the Euclidean length of two operands
  | "operator.add" | "operator.sub" | "operator.mod"
  | "numpy.add" | "numpy.subtract" | "numpy.maximum" | "numpy.minimum" | "numpy.hypot" => some .additive
  -- products
  | "operator.mul" | "operator.matmul" | "numpy.multiply" | "numpy.matmul" => some .bilinear
  -- quotients and first derivatives with respect to a geometry
  | "operator.truediv" | "numpy.divide"
  | "nutils.function.grad" | "nutils.function.surfgrad" | "nutils.function.div" | "nutils.function.curl" => some .quotient
  | "nutils.function.laplace" => some .quotient2
  | "numpy.sqrt" => some .root2
  -- powers; the jacobian of an n-dimensional geometry scales with λⁿ
  | "operator.pow" | "numpy.power" | "nutils.function.jacobian" => some .power
  -- predicates, array structure, unit vectors
  | "numpy.isnan" | "numpy.isfinite" | "numpy.shape" | "numpy.ndim" | "numpy.size"
  | "nutils.function.normal" | "nutils.function.normalized" => some .invariant
  | "operator.eq" | "operator.ne" | "operator.lt" | "operator.le" | "operator.gt" | "operator.ge"
  | "numpy.equal" | "numpy.not_equal" | "numpy.less" | "numpy.less_equal" | "numpy.greater" | "numpy.greater_equal" => some .comparison
  | "numpy.stack" | "numpy.concatenate" => some .homogeneousList
  | "operator.setitem" => some .assign
  | "nutils.function.curvature" => some .inverse
  | "nutils.function.evaluate" => some .tuplewise
  | "nutils.function.field" => some .multilinear
  | "nutils.function.arguments_for" => some .structural
  | "numpy.interp" => some .interpolation
  | "nutils.topology.Topology.locate" => some .location
  | "nutils.sample.Sample.integral" | "nutils.sample.Sample.bind" => some .linearSecond
  | _ => none


/-! ### change of reference units (the meaning of the laws) -/

/-- A change of reference units: every dimension `d` gets a scale factor `σ d` (a homomorphism from the dimension
group, stated on canonical exponent vectors), which acts on payloads by `smul`. -/
structure Scaling (S V : Type) where
  one : S
  mul : S → S → S
  div : S → S → S
  spow : S → Rat → S
  smul : S → V → V
  σ : Pows → S
  one_smul : ∀ v, smul one v = v
  σ_one : σ [] = one
  σ_mul : ∀ a b, Canon a → Canon b → σ (C20.mul a b) = mul (σ a) (σ b)
  σ_div : ∀ a b, Canon a → Canon b → σ (C20.div a b) = div (σ a) (σ b)
  σ_pow : ∀ a q, Canon a → σ (C20.pow a q) = spow (σ a) q

/-- the same quantity expressed in the new reference units -/
def Scaling.rescale {S V} (sc : Scaling S V) : Arg V → Arg V
  | .q d v => .q d (sc.smul (sc.σ d) v)
  | .plain v => .plain v

/-- what it means for a wrapped function to obey a law (for the laws whose handlers take one or two checked operands) -/
def LawHolds {S V} (sc : Scaling S V) (expo : Arg V → Option Rat) : Law → (List (Arg V) → V) → Prop
  | .preserving, op => ∀ s x rest, op (.plain (sc.smul s x) :: rest) = sc.smul s (op (.plain x :: rest))
  | .additive, op => ∀ s x y rest, op (.plain (sc.smul s x) :: .plain (sc.smul s y) :: rest) = sc.smul s (op (.plain x :: .plain y :: rest))
  | .bilinear, op => ∀ s t x y rest, op (.plain (sc.smul s x) :: .plain (sc.smul t y) :: rest) = sc.smul (sc.mul s t) (op (.plain x :: .plain y :: rest))
  | .quotient, op => ∀ s t x y rest, op (.plain (sc.smul s x) :: .plain (sc.smul t y) :: rest) = sc.smul (sc.div s t) (op (.plain x :: .plain y :: rest))
  | .quotient2, op => ∀ s t x y rest, op (.plain (sc.smul s x) :: .plain (sc.smul t y) :: rest) = sc.smul (sc.div s (sc.spow t 2)) (op (.plain x :: .plain y :: rest))
  | .root2, op => ∀ s x rest, op (.plain (sc.smul s x) :: rest) = sc.smul (sc.spow s (1/2)) (op (.plain x :: rest))
  | .power, op => ∀ s x e rest q, expo e = some q → op (.plain (sc.smul s x) :: e :: rest) = sc.smul (sc.spow s q) (op (.plain x :: e :: rest))
  | .invariant, op => ∀ s x rest, op (.plain (sc.smul s x) :: rest) = op (.plain x :: rest)
  | .comparison, op => ∀ s x y rest, op (.plain (sc.smul s x) :: .plain (sc.smul s y) :: rest) = op (.plain x :: .plain y :: rest)
  | .inverse, op => ∀ s x rest, op (.plain (sc.smul s x) :: rest) = sc.smul (sc.spow s (-1)) (op (.plain x :: rest))
  | _, _ => True

/-- the laws covered by `units_invariance`, with the number of leading operands that carry a dimension -/
def lawArity : Law → Option Nat
  | .preserving | .root2 | .invariant | .inverse | .power => some 1
  | .additive | .bilinear | .quotient | .quotient2 | .comparison => some 2
  | _ => none

/-- names of the handler functions in `SI.py`; two handlers are called `__evaluate`, told apart by their
order in the source (`rank`) -/
def handlerKind (handler : String) (rank : Nat) : Option Kind :=
  match handler, rank with
  | "__unary", _ => some .unary | "__add_like", _ => some .addLike | "__mul_like", _ => some .mulLike
  | "__div_like", _ => some .divLike | "__laplace", _ => some .laplace | "__sqrt", _ => some .sqrt
  | "__setitem", _ => some .setitem | "__pow_like", _ => some .powLike | "__unary_op", _ => some .unaryOp
  | "__binary_op", _ => some .binaryOp | "__stack_like", _ => some .stackLike
  | "__evaluate", 0 => some .curvature | "__evaluate", 1 => some .evaluate
  | "__field", _ => some .field | "__attribute", _ => some .attribute | "__interp", _ => some .interp
  | "__locate", _ => some .locate | "__sample", _ => some .sample
  | _, _ => none

/-- one extracted entry of `Quantity.__DISPATCH_TABLE` -/
structure Entry where
  fname : String
  handler : String
  rank : Nat
  deriving Repr, DecidableEq

/-! ## 4. `parse`, `Units`, `__format__` -/

/-- a unit or a parsed quantity: dimension and exact value in reference units (`dim = []`: a plain float) -/
structure UVal where
  dim : Pows
  val : Rat
  deriving Repr, DecidableEq

/-- the `Units` dict; names are kept as character lists (cheap to compare, also for the kernel) -/
abbrev UTable := List (List Char × UVal)

def lookup (U : UTable) (n : List Char) : Option UVal := (U.find? (·.1 = n)).map (·.2)

def pow10 (k : Int) : Rat := if k ≥ 0 then ((10 ^ k.toNat : Nat) : Rat) else 1 / ((10 ^ (-k).toNat : Nat) : Rat)

/-- `Units.__prefix` as the SI defines it (compared with the real table by the harness) -/
def prefixes : List (List Char × Rat) :=
  [(['Y'], pow10 24), (['Z'], pow10 21), (['E'], pow10 18), (['P'], pow10 15), (['T'], pow10 12), (['G'], pow10 9), (['M'], pow10 6),
   (['k'], pow10 3), (['h'], pow10 2), (['d'], pow10 (-1)), (['c'], pow10 (-2)), (['m'], pow10 (-3)), (['μ'], pow10 (-6)),
   (['n'], pow10 (-9)), (['p'], pow10 (-12)), (['f'], pow10 (-15)), (['a'], pow10 (-18)), (['z'], pow10 (-21)), (['y'], pow10 (-24))]

inductive PErr
  | value       -- ValueError
  | zeroDiv     -- ZeroDivisionError
  | dimension   -- DimensionError
  | typeErr     -- TypeError
  | exists_     -- ValueError: unit is already defined
  | collision   -- ValueError: unit collides with ...
  | inexact     -- (model only) irrational root of a value: the model gives no value
  | range       -- (model only) exponent beyond ±4096: outside the modelled range (floats overflow long before)
  deriving DecidableEq, Repr

def numChars : List Char := ['+', '-', '0', '1', '2', '3', '4', '5', '6', '7', '8', '9', '.']
def isNumChar (c : Char) : Bool := numChars.contains c

/-- Python `float()` on a string over `+-0123456789.`: `[sign] digits [. digits]` with at least one digit -/
def readNum (s : List Char) : Option Rat :=
  let (neg, body) := match s with
    | '-' :: t => (true, t)
    | '+' :: t => (false, t)
    | t => (false, t)
  let ip := body.takeWhile Char.isDigit
  let rest := body.dropWhile Char.isDigit
  let fp? : Option (List Char) := match rest with
    | [] => some []
    | '.' :: t => if t.all Char.isDigit then some t else none
    | _ => none
  match fp? with
  | none => none
  | some fp =>
    if ip = [] ∧ fp = [] then none
    else
      let v : Rat := ((Nat.ofDigitChars 10 (ip ++ fp) 0 : Nat) : Rat) / ((10 ^ fp.length : Nat) : Rat)
      some (if neg then -v else v)

/-- integer root: `some r` with `r ^ n = m`, if it exists -/
def natRoot (m n : Nat) : Option Nat :=
  if n = 0 then none
  else if m ≤ 1 then some m
  else if m.log2 < n then none      -- 2 ^ n > m: no integer root besides 0 and 1
  else
  -- bisection on [0, m]
  let rec go (fuel lo hi : Nat) : Nat :=
    match fuel with
    | 0 => lo
    | fuel + 1 =>
      if hi ≤ lo + 1 then (if hi ^ n ≤ m then hi else lo)
      else
        let mid := (lo + hi) / 2
        if mid ^ n ≤ m then go fuel mid hi else go fuel lo mid
  let r := go (m + 2) 0 (m + 1)
  if r ^ n = m then some r else none

/-- `float ** Fraction` in exact arithmetic: `.inexact` when the result is irrational -/
def ratPow (v p : Rat) : Except PErr Rat :=
  if p = 0 then .ok 1
  else if v = 0 then (if p < 0 then .error .zeroDiv else .ok 0)
  else if p.num.natAbs > 4096 then .error .range
  else if p.den = 1 then .ok (v ^ p.num)
  else if v < 0 then .error .inexact
  else
    match natRoot v.num.natAbs p.den, natRoot v.den p.den with
    | some a, some b => .ok ((((a : Nat) : Rat) / ((b : Nat) : Rat)) ^ p.num)
    | _, _ => .error .inexact

/-- `q * v` / `q / v` on (dimension, value) pairs -/
def stepQ (q : UVal) (v : UVal) (isnumer : Bool) : Except PErr UVal :=
  if isnumer then .ok { dim := mul q.dim v.dim, val := q.val * v.val }
  else if v.val = 0 then .error .zeroDiv
  else .ok { dim := div q.dim v.dim, val := q.val / v.val }

/-- one iteration of the loop in `parse` -/
def parseFactor (U : UTable) (q : UVal) (fb : List Char × Bool) : Except PErr UVal := do
  let (expr, power) ← match decodeFactor fb.1 with
    | .ok r => pure r
    | .error .value => throw .value
    | .error .zeroDiv => throw .zeroDiv
  let u := expr.dropWhile isNumChar
  let pre := expr.takeWhile isNumChar
  let scale ← match (if pre = [] then some 1 else readNum pre) with
    | some x => pure x
    | none => throw .value
  let unit ← match lookup U u with
    | some x => pure x
    | none => throw .value
  let pv ← ratPow unit.val power
  stepQ q { dim := pow unit.dim power, val := scale * pv } fb.2

def parseLoop (U : UTable) : UVal → List (List Char × Bool) → Except PErr UVal
  | q, [] => .ok q
  | q, fb :: t => do let q' ← parseFactor U q fb; parseLoop U q' t

/-- `SI.parse(s)` -/
def parse (U : UTable) (s : List Char) : Except PErr UVal := do
  let tail := s.dropWhile isNumChar
  let pre := s.takeWhile isNumChar
  let q0 ← match (if pre = [] then some 1 else readNum pre) with
    | some x => pure x
    | none => throw .value
  parseLoop U { dim := [], val := q0 } (rawFactors tail)

/-- `Dimension.__call__(cls, value)` for a string: parse and insist on the dimension of `cls` -/
def construct (U : UTable) (d : Pows) (s : List Char) : Except PErr UVal := do
  let q ← parse U s
  if q.dim = d then pure q else throw .dimension

/-- `Units.__setattr__(name, value)` with the value already a quantity -/
def define (U : UTable) (n : List Char) (v : UVal) : Except PErr UTable :=
  if (lookup U n).isSome then .error .exists_
  else
    let scaled : UTable := prefixes.map fun ps => (ps.1 ++ n, { v with val := v.val * ps.2 })
    if scaled.any (fun e => (lookup U e.1).isSome) then .error .collision
    else .ok (U ++ (n, v) :: scaled)

/-- a statement of the unit section of `SI.py` -/
inductive UDef
  | wrap (n : List Char) (v : UVal)              -- units.n = Dim.wrap(value)
  | str (n : List Char) (s : List Char)          -- units.n = '...'
  | item (n : List Char) (s : List Char)         -- units['n'] = <expression equal to parse(s)>   (no prefixes)
  deriving Repr


def UDef.name : UDef → List Char | .wrap n _ => n | .str n _ => n | .item n _ => n
/-- definitions made through `Units.__setattr__` get all prefixed forms; `units['x'] = …` does not -/
def UDef.hasPrefixes : UDef → Bool | .item _ _ => false | _ => true

/-- the names one definition puts into the `Units` dict -/
def UDef.names (d : UDef) : List (List Char) :=
  d.name :: (if d.hasPrefixes then prefixes.map (fun p => p.1 ++ d.name) else [])

/-- `b`'s own name is a prefixed form of `a` (prefixes are single characters) -/
def clash (a b : UDef) : Bool :=
  match b.name with
  | c :: t => a.hasPrefixes && prefixes.any (fun p => p.1 == [c]) && t == a.name
  | [] => false

/-- executable check behind `unit_names_unambiguous` -/
def namesOk (defs : List UDef) : Bool := defs.all fun a => defs.all fun b => !clash a b

def defineAll : UTable → List UDef → Except PErr UTable
  | U, [] => .ok U
  | U, .wrap n v :: t => do let U' ← define U n v; defineAll U' t
  | U, .str n s :: t => do let v ← parse U s; let U' ← define U n v; defineAll U' t
  | U, .item n s :: t => do let v ← parse U s; defineAll (U ++ [(n, v)]) t


/-! ### the SI as a trusted table (what `SI.units` has to contain) -/

def dimOf (l : Pows) : Pows := fromPowers l

/-- Trusted specification of the unit table: the base units, every coherent derived unit of the SI with value one
in its base-unit expression, the accepted non-SI units, and a selection of prefixed forms (among them the
names that could be read in two ways: `min`, `mm`, `Pa`, `cd`, `ha`, `hm`, `dm`, `Gy`, `T`, `ft` …). -/
def siSpec : List (String × UVal) :=
  let L := ("L", (1 : Rat)); let T := ("T", (1 : Rat)); let M := ("M", (1 : Rat)); let I := ("I", (1 : Rat))
  let p (b : String) (e : Rat) : Base × Rat := (b, e)
  [ ("m", ⟨dimOf [L], 1⟩), ("s", ⟨dimOf [T], 1⟩), ("g", ⟨dimOf [M], pow10 (-3)⟩), ("kg", ⟨dimOf [M], 1⟩),
    ("A", ⟨dimOf [I], 1⟩), ("K", ⟨dimOf [p "θ" 1], 1⟩), ("mol", ⟨dimOf [p "N" 1], 1⟩), ("cd", ⟨dimOf [p "J" 1], 1⟩),
    ("N", ⟨dimOf [M, L, p "T" (-2)], 1⟩),
    ("Pa", ⟨dimOf [M, p "L" (-1), p "T" (-2)], 1⟩),
    ("J", ⟨dimOf [M, p "L" 2, p "T" (-2)], 1⟩),
    ("W", ⟨dimOf [M, p "L" 2, p "T" (-3)], 1⟩),
    ("Hz", ⟨dimOf [p "T" (-1)], 1⟩),
    ("C", ⟨dimOf [I, T], 1⟩),
    ("V", ⟨dimOf [M, p "L" 2, p "T" (-3), p "I" (-1)], 1⟩),
    ("F", ⟨dimOf [p "M" (-1), p "L" (-2), p "T" 4, p "I" 2], 1⟩),
    ("Ω", ⟨dimOf [M, p "L" 2, p "T" (-3), p "I" (-2)], 1⟩),
    ("S", ⟨dimOf [p "M" (-1), p "L" (-2), p "T" 3, p "I" 2], 1⟩),
    ("Wb", ⟨dimOf [M, p "L" 2, p "T" (-2), p "I" (-1)], 1⟩),
    ("T", ⟨dimOf [M, p "T" (-2), p "I" (-1)], 1⟩),
    ("H", ⟨dimOf [M, p "L" 2, p "T" (-2), p "I" (-2)], 1⟩),
    ("lm", ⟨dimOf [p "J" 1], 1⟩),
    ("lx", ⟨dimOf [p "J" 1, p "L" (-2)], 1⟩),
    ("Bq", ⟨dimOf [p "T" (-1)], 1⟩),
    ("Gy", ⟨dimOf [p "L" 2, p "T" (-2)], 1⟩),
    ("Sv", ⟨dimOf [p "L" 2, p "T" (-2)], 1⟩),
    ("kat", ⟨dimOf [p "N" 1, p "T" (-1)], 1⟩),
    ("min", ⟨dimOf [T], 60⟩), ("h", ⟨dimOf [T], 3600⟩), ("day", ⟨dimOf [T], 86400⟩),
    ("au", ⟨dimOf [L], 149597870700⟩),
    ("ha", ⟨dimOf [p "L" 2], 10000⟩),
    ("L", ⟨dimOf [p "L" 3], pow10 (-3)⟩),
    ("t", ⟨dimOf [M], 1000⟩),
    ("Da", ⟨dimOf [M], 166053904020 * pow10 (-38)⟩),
    ("eV", ⟨dimOf [M, p "L" 2, p "T" (-2)], 1602176634 * pow10 (-28)⟩),
    ("in", ⟨dimOf [L], 254 * pow10 (-4)⟩),
    -- prefixed forms
    ("km", ⟨dimOf [L], 1000⟩), ("hm", ⟨dimOf [L], 100⟩), ("dm", ⟨dimOf [L], pow10 (-1)⟩), ("cm", ⟨dimOf [L], pow10 (-2)⟩),
    ("mm", ⟨dimOf [L], pow10 (-3)⟩), ("μm", ⟨dimOf [L], pow10 (-6)⟩), ("nm", ⟨dimOf [L], pow10 (-9)⟩), ("Ym", ⟨dimOf [L], pow10 24⟩),
    ("ym", ⟨dimOf [L], pow10 (-24)⟩),
    ("mg", ⟨dimOf [M], pow10 (-6)⟩), ("μg", ⟨dimOf [M], pow10 (-9)⟩), ("Mg", ⟨dimOf [M], 1000⟩),
    ("ms", ⟨dimOf [T], pow10 (-3)⟩), ("ns", ⟨dimOf [T], pow10 (-9)⟩), ("ks", ⟨dimOf [T], 1000⟩),
    ("kN", ⟨dimOf [M, L, p "T" (-2)], 1000⟩), ("mN", ⟨dimOf [M, L, p "T" (-2)], pow10 (-3)⟩),
    ("MPa", ⟨dimOf [M, p "L" (-1), p "T" (-2)], pow10 6⟩), ("hPa", ⟨dimOf [M, p "L" (-1), p "T" (-2)], 100⟩),
    ("GHz", ⟨dimOf [p "T" (-1)], pow10 9⟩), ("mA", ⟨dimOf [I], pow10 (-3)⟩), ("kΩ", ⟨dimOf [M, p "L" 2, p "T" (-3), p "I" (-2)], 1000⟩),
    ("μF", ⟨dimOf [p "M" (-1), p "L" (-2), p "T" 4, p "I" 2], pow10 (-6)⟩),
    ("mT", ⟨dimOf [M, p "T" (-2), p "I" (-1)], pow10 (-3)⟩), ("mL", ⟨dimOf [p "L" 3], pow10 (-6)⟩), ("kt", ⟨dimOf [M], pow10 6⟩),
    ("mmol", ⟨dimOf [p "N" 1], pow10 (-3)⟩), ("mcd", ⟨dimOf [p "J" 1], pow10 (-3)⟩), ("keV", ⟨dimOf [M, p "L" 2, p "T" (-2)], 1602176634 * pow10 (-25)⟩),
    ("kGy", ⟨dimOf [p "L" 2, p "T" (-2)], 1000⟩), ("mmin", ⟨dimOf [T], 60 * pow10 (-3)⟩), ("kh", ⟨dimOf [T], 3600000⟩) ]

/-- names that must *not* be units (deca is not supported; `in` has no prefixed forms; no double prefixes) -/
def siAbsent : List String := ["dam", "min2", "kin", "mkm", "kkg", "", "da", "μ", "k"]

/-- executable form of the statement of `si_units_sound` -/
def checkTable (defs : List UDef) : Bool :=
  match defineAll [] defs with
  | .ok U => siSpec.all (fun e => lookup U e.1.toList == some e.2) && siAbsent.all (fun n => lookup U n.toList == none)
  | .error _ => false

def fmtChars : List Char := ['0', '1', '2', '3', '4', '5', '6', '7', '8', '9', '.', ',']

/-- `Quantity.__format__` up to the float formatting: (format prefix, value to print, unit suffix) -/
def formatParts (U : UTable) (q : UVal) (spec : List Char) : Except PErr (List Char × Rat × List Char) := do
  let pre := spec.takeWhile (fun c => fmtChars.contains c)
  let unit := spec.dropWhile (fun c => fmtChars.contains c)
  let u ← construct U q.dim unit
  if u.val = 0 then throw .zeroDiv
  pure (pre, q.val / u.val, unit)

end NutilsVerif.C20
