import NutilsVerif.Model.C17
import NutilsVerif.Model.C17.Intern
/-!
# C17 — keyword-argument canonicalisation of `Immutable`, byte order of integer array data  (model; no Mathlib)

* `kwCanon`: `tuple(sorted(kwargs.items()))` in `types.Immutable.__new__` (types.py:221-224).  `kwargs` is what
  `inspect.BoundArguments.kwargs` returns: keyword-only parameters in declaration order followed by the names collected
  by `**kwargs` *in the caller's order*; the names are pairwise different, so Python's tuple comparison never looks at
  the values and the order is the `str` order of the names = the order of their UTF-8 bytes (`bytesLe`).
* `canonIntsBO`: `arraydata.__new__` for integer data whose items are stored most significant byte first
  (`'>i8'`, `'>u4'` ... on a little-endian machine): `astype(int)` decodes the item in its own byte order.
-/
namespace NutilsVerif.C17

/-- order of two keyword items: by name -/
def kwLe {α : Type} (a b : Bytes × α) : Bool := bytesLe a.1 b.1

/-- `tuple(sorted(kwargs.items()))` -/
def kwCanon {α : Type} (kw : List (Bytes × α)) : List (Bytes × α) := kw.mergeSort kwLe

/-- value of one item of `width` bytes in memory order; `big` = most significant byte first -/
def decodeIntBO (big signed : Bool) (width : Nat) (b : Bytes) : Int :=
  decodeInt signed width (if big then b.reverse else b)

/-- `orig.astype(int)` + truncation test for a source of either byte order (`none` = `ValueError`) -/
def canonIntsBO (big signed : Bool) (width : Nat) (items : List Bytes) : Option (List Bytes) :=
  items.mapM fun b =>
    let x := decodeIntBO big signed width b
    if fits64 x then some (encode64 x) else none

end NutilsVerif.C17
