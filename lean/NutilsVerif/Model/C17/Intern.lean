import NutilsVerif.Model.C17.Sha1
/-!
# C17 — interning, argument canonicalisation, canonical integer array data  (model; no Mathlib)

* `IState` / `istep`: the weak intern table of `types.DataClassMeta.__call__` (types.py:309-317) and of
  `types.SingletonMeta._new` (types.py:260-265) as a state machine.  `K` is the type of *dictionary keys*, i.e.
  canonical argument tuples up to Python's `==`/`hash` (the table is a `WeakValueDictionary`).
* `bindGo`: `inspect.Signature.bind` + `apply_defaults` + `.args` for signatures made of positional-or-keyword
  parameters with optional defaults (`argument_canonicalizer`, types.py:66-69; `DataClassMeta.__call__`).
* `canonInts`: `arraydata.__new__` (types.py:391-402) for integer data: every integer dtype is cast to the
  native `int64`, refusing values that do not fit.
-/
namespace NutilsVerif.C17

/-! ## intern table -/

structure IState (K : Type) where
  next : Nat                  -- identity of the next object to be allocated
  objs : List (Nat × K)       -- live interned objects: identity, construction key
  table : List (K × Nat)      -- the WeakValueDictionary: key ↦ identity of a live object

inductive IEvent (K : Type)
  | call (k : K)      -- `cls(*args)`: look up, else allocate + initialise + insert; the caller keeps the result alive
  | drop (id : Nat)   -- the last strong reference to object `id` disappears (del / gc): object and weak entry vanish

def IState.empty {K : Type} : IState K := ⟨0, [], []⟩

variable {K : Type} [DecidableEq K]

def lookupKey (t : List (K × Nat)) (k : K) : Option Nat := (t.find? (fun e => e.1 = k)).map (·.2)

/-- one event; for `call` the second component is the identity of the returned object -/
def istep (s : IState K) : IEvent K → IState K × Option Nat
  | .call k =>
    match lookupKey s.table k with
    | some i => (s, some i)
    | none => (⟨s.next + 1, (s.next, k) :: s.objs, (k, s.next) :: s.table⟩, some s.next)
  | .drop i => (⟨s.next, s.objs.filter (fun o => o.1 ≠ i), s.table.filter (fun e => e.2 ≠ i)⟩, none)

def irun (s : IState K) : List (IEvent K) → IState K
  | [] => s
  | e :: es => irun (istep s e).1 es

/-- identities returned by the `call` events of a history (`none` for `drop`) -/
def itrace (s : IState K) : List (IEvent K) → List (Option Nat)
  | [] => []
  | e :: es => (istep s e).2 :: itrace (istep s e).1 es

/-! ## argument canonicalisation -/

structure Param (α : Type) where
  name : String
  default : Option α

inductive BindErr | tooMany | multiple | missing | unexpected
deriving DecidableEq, Repr

/-- canonical positional arguments of a call with positional arguments `pos` and keyword arguments `kw` -/
def bindGo {α : Type} : List (Param α) → List α → List (String × α) → Except BindErr (List α)
  | [], [], [] => .ok []
  | [], [], _ :: _ => .error .unexpected
  | [], _ :: _, _ => .error .tooMany
  | p :: ps, a :: pos, kw =>
    if kw.any (fun e => e.1 = p.name) then .error .multiple
    else (bindGo ps pos kw).map (a :: ·)
  | p :: ps, [], kw =>
    match kw.find? (fun e => e.1 = p.name) with
    | some e => (bindGo ps [] (kw.filter (fun e => e.1 ≠ p.name))).map (e.2 :: ·)
    | none =>
      match p.default with
      | some d => (bindGo ps [] kw).map (d :: ·)
      | none => .error .missing

/-! ## canonical integer data -/

def leBytes : Nat → Nat → Bytes
  | 0, _ => []
  | k+1, n => UInt8.ofNat (n % 256) :: leBytes k (n / 256)

def fromLE : Bytes → Nat
  | [] => 0
  | b :: t => b.toNat + 256 * fromLE t

/-- value of one little-endian item of `width` bytes -/
def decodeInt (signed : Bool) (width : Nat) (b : Bytes) : Int :=
  let n := fromLE b
  if signed && decide (256 ^ width ≤ 2 * n) then (n : Int) - (256 ^ width : Nat) else (n : Int)

/-- two's complement little-endian `int64` -/
def encode64 (x : Int) : Bytes := leBytes 8 (x % (2 ^ 64 : Nat)).toNat

def fits64 (x : Int) : Bool := decide (-(2 ^ 63 : Int) ≤ x) && decide (x < (2 ^ 63 : Int))

/-- `orig.astype(int)` followed by the truncation test: `none` stands for the `ValueError` -/
def canonInts (signed : Bool) (width : Nat) (items : List Bytes) : Option (List Bytes) :=
  items.mapM fun b =>
    let x := decodeInt signed width b
    if fits64 x then some (encode64 x) else none

end NutilsVerif.C17
