/-!
# C17 — executable SHA-1 (FIPS 180-4) over `List UInt8`  (no Mathlib)

Used only by the driver / correspondence (`nhash sha1` is compared byte for byte with the real
`nutils.types.nutils_hash`).  The theorems of `Props/C17.lean` are parametric in the hash function.
-/
namespace NutilsVerif.C17

abbrev Bytes := List UInt8

namespace Sha1

def rotl (x : UInt32) (n : UInt32) : UInt32 := (x <<< n) ||| (x >>> (32 - n))

def be32 (a b c d : UInt8) : UInt32 :=
  (a.toUInt32 <<< 24) ||| (b.toUInt32 <<< 16) ||| (c.toUInt32 <<< 8) ||| d.toUInt32

def u32bytes (x : UInt32) : Bytes :=
  [(x >>> 24).toUInt8, (x >>> 16).toUInt8, (x >>> 8).toUInt8, x.toUInt8]

/-- message ++ 0x80 ++ zeros ++ 64-bit big-endian bit length, total a multiple of 64 bytes -/
def pad (msg : Bytes) : Bytes :=
  let n := msg.length
  let k := (55 + 64 - n % 64) % 64
  let bits := n * 8
  msg ++ [(0x80 : UInt8)] ++ List.replicate k (0 : UInt8) ++
    (List.range 8).map (fun i => (bits >>> (8 * (7 - i))).toUInt8)

def words : Bytes → List UInt32
  | a :: b :: c :: d :: t => be32 a b c d :: words t
  | _ => []

structure St where
  a : UInt32
  b : UInt32
  c : UInt32
  d : UInt32
  e : UInt32

def round (t : Nat) (s : St) (w : UInt32) : St :=
  let (f, k) :=
    if t < 20 then ((s.b &&& s.c) ||| ((~~~ s.b) &&& s.d), (0x5A827999 : UInt32))
    else if t < 40 then (s.b ^^^ s.c ^^^ s.d, 0x6ED9EBA1)
    else if t < 60 then ((s.b &&& s.c) ||| (s.b &&& s.d) ||| (s.c &&& s.d), 0x8F1BBCDC)
    else (s.b ^^^ s.c ^^^ s.d, 0xCA62C1D6)
  ⟨rotl s.a 5 + f + s.e + k + w, s.a, rotl s.b 30, s.c, s.d⟩

/-- rounds 16..79 with the message schedule kept as a window of the last 16 words (newest first) -/
def rounds : Nat → Nat → List UInt32 → St → St
  | 0, _, _, s => s
  | n+1, t, win, s =>
    match win with
    | w1 :: w2 :: w3 :: w4 :: w5 :: w6 :: w7 :: w8 :: w9 :: w10 :: w11 :: w12 :: w13 :: w14 :: w15 :: w16 :: _ =>
      let w := rotl (w3 ^^^ w8 ^^^ w14 ^^^ w16) 1
      rounds n (t+1) [w, w1, w2, w3, w4, w5, w6, w7, w8, w9, w10, w11, w12, w13, w14, w15] (round t s w)
    | _ => s

def block (h : St) (ws : List UInt32) : St :=
  let s := ws.foldl (fun (p : St × Nat) w => (round p.2 p.1 w, p.2 + 1)) (h, 0)
  let s2 := rounds 64 16 ws.reverse s.1
  ⟨h.a + s2.a, h.b + s2.b, h.c + s2.c, h.d + s2.d, h.e + s2.e⟩

def blocks : Nat → St → List UInt32 → St
  | 0, h, _ => h
  | n+1, h, ws => blocks n (block h (ws.take 16)) (ws.drop 16)

end Sha1

/-- SHA-1 digest (20 bytes) -/
def sha1 (msg : Bytes) : Bytes :=
  let ws := Sha1.words (Sha1.pad msg)
  let h := Sha1.blocks (ws.length / 16) ⟨0x67452301, 0xEFCDAB89, 0x98BADCFE, 0x10325476, 0xC3D2E1F0⟩ ws
  Sha1.u32bytes h.a ++ Sha1.u32bytes h.b ++ Sha1.u32bytes h.c ++ Sha1.u32bytes h.d ++ Sha1.u32bytes h.e

theorem sha1_length (msg : Bytes) : (sha1 msg).length = 20 := by
  simp [sha1, Sha1.u32bytes]

def hexDigit (n : Nat) : Char := if n < 10 then Char.ofNat (48 + n) else Char.ofNat (87 + n)

def hex (b : Bytes) : String :=
  String.ofList (b.flatMap fun x => [hexDigit (x.toNat / 16), hexDigit (x.toNat % 16)])

def unhexDigit (c : Char) : Option Nat :=
  if '0' ≤ c ∧ c ≤ '9' then some (c.toNat - 48)
  else if 'a' ≤ c ∧ c ≤ 'f' then some (c.toNat - 87)
  else none

def unhexList : List Char → Option Bytes
  | [] => some []
  | a :: b :: t => do
    let x ← unhexDigit a
    let y ← unhexDigit b
    let r ← unhexList t
    pure (UInt8.ofNat (x * 16 + y) :: r)
  | _ => none

def unhex (s : String) : Option Bytes := unhexList s.toList

end NutilsVerif.C17
