import NutilsVerif.Core.Proto
import NutilsVerif.Model.C17
import NutilsVerif.Model.C17.Intern
import NutilsVerif.Model.C17.Kw
/-!
# C17 — wire format of the driver: parser for `Value`, decision procedure for `Equiv`, request handler
(kept in a library module so that the driver script itself elaborates instantly)
-/
open NutilsVerif NutilsVerif.Proto
namespace NutilsVerif.C17

/-! Value syntax (space separated tokens, prefix notation):
`N` none, `E` ellipsis, `b0`/`b1`, `i<int>`, `f<hex>`, `c<hex>`, `s<hex>`, `y<hex>`, `t<hex>`,
`T<n>` tuple, `L<n>` list, `D<n>` dict (of `P k v`), `S<n>` set, `Z<n>` frozenset, `O x<tname> <pos> x<content>`,
`M self name`, `A<ndim> d1 .. x<dtype> x<data>`, `K<n> x<tname> fields..`, `G<n> x<tname> args..`,
`U<n> x<modqual> <version> args..`, `V<n> x<modqual> args..`, `W<n> x<modqual> pairs..`, `X<n> x<modqual> counted..`
(`Q<count> v`), `H x<pre>`, `n<kind> v`, `? x<tname>`.  -/

def xbytes (s : String) : Option Bytes :=
  if s.startsWith "x" then unhex (s.drop 1).toString else none

def tailNat (s : String) : Option Nat := (s.drop 1).toString.toNat?
def tailInt (s : String) : Option Int := (s.drop 1).toString.toInt?
def tailHex (s : String) : Option Bytes := unhex (s.drop 1).toString

mutual
partial def parseV : List String → Option (Value × List String)
  | [] => none
  | tok :: rest =>
    match tok.front with
    | 'N' => some (.none, rest)
    | 'E' => some (.ellipsis, rest)
    | 'b' => if tok == "b0" then some (.bool false, rest) else if tok == "b1" then some (.bool true, rest) else none
    | 'i' => (tailInt tok).map fun i => (.int i, rest)
    | 'f' => (tailHex tok).map fun b => (.float b, rest)
    | 'c' => (tailHex tok).map fun b => (.complex b, rest)
    | 's' => (tailHex tok).map fun b => (.str b, rest)
    | 'y' => (tailHex tok).map fun b => (.bytes b, rest)
    | 't' => (tailHex tok).map fun b => (.type b, rest)
    | 'T' => do let n ← tailNat tok; let (xs, r) ← parseN n rest; pure (.tuple xs, r)
    | 'L' => do let n ← tailNat tok; let (xs, r) ← parseN n rest; pure (.list xs, r)
    | 'D' => do let n ← tailNat tok; let (xs, r) ← parseN n rest; pure (.dict xs, r)
    | 'S' => do let n ← tailNat tok; let (xs, r) ← parseN n rest; pure (.set xs, r)
    | 'Z' => do let n ← tailNat tok; let (xs, r) ← parseN n rest; pure (.frozenset xs, r)
    | 'P' => do let (k, r) ← parseV rest; let (v, r) ← parseV r; pure (.pair k v, r)
    | 'Q' => do let n ← tailNat tok; let (v, r) ← parseV rest; pure (.counted n v, r)
    | 'O' =>
      match rest with
      | t :: p :: c :: r => do pure (.bufio (← xbytes t) (← p.toNat?) (← xbytes c), r)
      | _ => none
    | 'M' => do let (s, r) ← parseV rest; let (n, r) ← parseV r; pure (.method s n, r)
    | 'A' => do
      let n ← tailNat tok
      let dims ← (rest.take n).mapM (·.toNat?)
      if dims.length ≠ n then none else
      match rest.drop n with
      | dt :: d :: r => pure (.ndarray dims (← xbytes dt) (← xbytes d), r)
      | _ => none
    | 'K' => do
      let n ← tailNat tok
      match rest with
      | t :: r => let (xs, r) ← parseN n r; pure (.dataclass (← xbytes t) xs, r)
      | _ => none
    | 'G' => do
      let n ← tailNat tok
      match rest with
      | t :: r => let (xs, r) ← parseN n r; pure (.newargs (← xbytes t) xs, r)
      | _ => none
    | 'U' => do
      let n ← tailNat tok
      match rest with
      | t :: ver :: r => let (xs, r) ← parseN n r; pure (.immutable (← xbytes t) (← ver.toInt?) xs, r)
      | _ => none
    | 'V' => do
      let n ← tailNat tok
      match rest with
      | t :: r => let (xs, r) ← parseN n r; pure (.dclass (← xbytes t) xs, r)
      | _ => none
    | 'W' => do
      let n ← tailNat tok
      match rest with
      | t :: r => let (xs, r) ← parseN n r; pure (.frozendict (← xbytes t) xs, r)
      | _ => none
    | 'X' => do
      let n ← tailNat tok
      match rest with
      | t :: r => let (xs, r) ← parseN n r; pure (.frozenmultiset (← xbytes t) xs, r)
      | _ => none
    | 'H' =>
      match rest with
      | p :: r => do pure (.opaque (← xbytes p), r)
      | _ => none
    | 'n' => do
      let k ← tailNat tok
      if k ≥ 256 then none else
      let (v, r) ← parseV rest
      -- the harness converts with `t(data)`; a kind that is converted must yield the matching Python scalar
      let okShape := match v with
        | .bool _ => k == 98 | .int _ => k == 105 | .float _ => k == 102 | .complex _ => k == 99 | _ => false
      let known := k == 98 || k == 105 || k == 102 || k == 99
      if known && !okShape then none else pure (.npscalar (UInt8.ofNat k) v, r)
    | '?' =>
      match rest with
      | t :: r => do pure (.unsupported (← xbytes t), r)
      | _ => none
    | _ => none
partial def parseN : Nat → List String → Option (List Value × List String)
  | 0, r => some ([], r)
  | n+1, r => do
    let (x, r) ← parseV r
    let (xs, r) ← parseN n r
    pure (x :: xs, r)
end

def parseValue (s : String) : Option Value :=
  match parseV (words s) with
  | some (v, []) => some v
  | _ => none

/-! decision procedure for `Equiv` (exploration aid: greedy matching is complete because `Equiv` is an
equivalence relation on well-formed values) -/
mutual
partial def equivB : Value → Value → Bool
  | .none, .none => true
  | .ellipsis, .ellipsis => true
  | .bool a, .bool b => a == b
  | .int a, .int b => a == b
  | .float a, .float b => a == b
  | .complex a, .complex b => a == b
  | .str a, .str b => a == b
  | .bytes a, .bytes b => a == b
  | .type a, .type b => a == b
  | .tuple xs, .tuple ys => equivLB xs ys
  | .list xs, .list ys => equivLB xs ys
  | .dict xs, .dict ys => matchB xs ys
  | .set xs, .set ys => matchB xs ys
  | .frozenset xs, .frozenset ys => matchB xs ys
  | .bufio t p c, .bufio t' p' c' => t == t' && utf8 (Nat.repr p) ++ c == utf8 (Nat.repr p') ++ c'
  | .method s n, .method s' n' => equivB s s' && equivB n n'
  | .ndarray sh dt d, .ndarray sh' dt' d' => header sh dt == header sh' dt' && d == d'
  | .dataclass t xs, .dataclass t' ys => t == t' && matchB xs ys
  | .newargs t xs, .newargs t' ys => t == t' && equivLB xs ys
  | .immutable m i xs, .immutable m' i' ys => immTag m i == immTag m' i' && equivLB xs ys
  | .dclass m xs, .dclass m' ys => m == m' && equivLB xs ys
  | .frozendict m xs, .frozendict m' ys => m == m' && matchB xs ys
  | .frozenmultiset m xs, .frozenmultiset m' ys => m == m' && matchB xs ys
  | .opaque p, .opaque q => p == q
  | .pair k v, .pair k' v' => equivB k k' && equivB v v'
  | .counted n v, .counted n' v' => n == n' && equivB v v'
  | _, _ => false
partial def equivLB : List Value → List Value → Bool
  | [], [] => true
  | x :: xs, y :: ys => equivB x y && equivLB xs ys
  | _, _ => false
partial def removeFirst (x : Value) : List Value → Option (List Value)
  | [] => none
  | y :: ys => if equivB x y then some ys else (removeFirst x ys).map (y :: ·)
partial def matchB : List Value → List Value → Bool
  | [], ys => ys.isEmpty
  | x :: xs, ys => match removeFirst x ys with
    | some ys' => matchB xs ys'
    | none => false
end

/-- all `(tag, kind)` pairs of the tagged nodes of a value -/
partial def tagKinds : Value → List (Bytes × Kind)
  | v =>
    let own := match kind v with | some k => [(tagB v, k)] | none => []
    let kids : List Value := match v with
      | .tuple xs | .list xs | .dict xs | .set xs | .frozenset xs => xs
      | .dataclass _ xs | .newargs _ xs | .immutable _ _ xs | .dclass _ xs | .frozendict _ xs | .frozenmultiset _ xs => xs
      | .method s n => [s, n]
      | .pair k v => [k, v]
      | .counted _ v => [v]
      | .npscalar _ v => [v]
      | _ => []
    own ++ kids.flatMap tagKinds

/-- is there a registry that both values respect?  (the first occurrence of every tag decides) -/
def clashFree (v w : Value) : Bool :=
  let tk := tagKinds v ++ tagKinds w
  let reg : Registry := fun t => (tk.find? (fun e => e.1 == t)).map (·.2)
  respects reg v && respects reg w

def errName : HashErr → String | .typeError => "TypeError" | .keyError => "KeyError"

def b01 (b : Bool) : String := if b then "1" else "0"

def hashAns (v : Value) : String :=
  match check v with
  | some e => s!"err|{errName e}"
  | none => s!"ok|{hex (nhash sha1 v)}|wf={b01 (wf .obj (norm v))}"

def parseEvents (s : String) : Option (List (IEvent Nat)) :=
  (words s).mapM fun t =>
    if t.startsWith "c" then (tailNat t).map .call
    else if t.startsWith "d" then (tailNat t).map .drop
    else none

def showOptNat : Option Nat → String | some i => toString i | none => "-"

def parseParam (s : String) : Option (Param Int) :=
  match s.splitOn ":" with
  | [n] => some ⟨n, none⟩
  | [n, d] => d.toInt?.map fun d => ⟨n, some d⟩
  | _ => none

def parseKw (s : String) : Option (String × Int) :=
  match s.splitOn "=" with
  | [n, d] => d.toInt?.map fun d => (n, d)
  | _ => none

/-- `x<hex of the utf-8 name>=<int>` -/
def parseKwItem (s : String) : Option (Bytes × Int) :=
  match s.splitOn "=" with
  | [n, d] => do let n ← xbytes n; let d ← d.toInt?; pure (n, d)
  | _ => none

def bindErrName : BindErr → String
  | .tooMany => "tooMany" | .multiple => "multiple" | .missing => "missing" | .unexpected => "unexpected"

def handle (line : String) : String :=
  match fields line with
  | ["sha1", h] =>
    match unhex h with
    | some b => hex (sha1 b)
    | none => "bad-request"
  | ["hash", v] =>
    match parseValue v with
    | some v => hashAns v
    | none => "bad-request"
  | ["cname", v] =>
    match parseValue v with
    | some v => if (check v).isSome then "err" else constName sha1 v
    | none => "bad-request"
  | ["pair", v, w] =>
    match parseValue v, parseValue w with
    | some v, some w =>
      if (check v).isSome || (check w).isSome then "err" else
      let nv := norm v; let nw := norm w
      s!"eq={b01 (nhash sha1 v == nhash sha1 w)}|equiv={b01 (equivB nv nw)}|wf={b01 (wf .obj nv && wf .obj nw)}|clashfree={b01 (clashFree nv nw)}"
    | _, _ => "bad-request"
  | ["ckey", f, args, kwargs] =>
    match unhex f, parseValue args, parseValue kwargs with
    | some f, some (.tuple args), some (.dict kws) =>
      let kw := kws.mapM fun e => match e with
        | .pair (.str n) v => some (n, v)
        | _ => none
      match kw with
      | some kw =>
        if (checkL args).isSome || (kw.any fun e => (check e.2).isSome) then "err" else hex (cacheKey sha1 f args kw)
      | none => "bad-request"
    | _, _, _ => "bad-request"
  | ["intern", evs] =>
    match parseEvents evs with
    | some evs =>
      let tr := itrace (IState.empty : IState Nat) evs
      let s := irun (IState.empty : IState Nat) evs
      s!"{" ".intercalate (tr.map showOptNat)}|{" ".intercalate (s.objs.reverse.map fun o => s!"{o.1}:{o.2}")}"
    | none => "bad-request"
  | ["bind", ps, pos, kw] =>
    match (words ps).mapM parseParam, parseInts pos, (words kw).mapM parseKw with
    | some ps, some pos, some kw =>
      match bindGo ps pos kw with
      | .ok vals => s!"ok|{showInts vals}"
      | .error e => s!"err|{bindErrName e}"
    | _, _, _ => "bad-request"
  | ["canon", sg, w, items] =>
    match w.toNat?, (words items).mapM unhex with
    | some w, some items =>
      if sg != "s" && sg != "u" then "bad-request"
      else if items.any (fun b => b.length != w) then "bad-request"
      else match canonInts (sg == "s") w items with
        | some out => s!"ok|{hex out.flatten}"
        | none => "err|ValueError"
    | _, _ => "bad-request"
  | ["canonbo", sg, bo, w, items] =>
    match w.toNat?, (words items).mapM unhex with
    | some w, some items =>
      if sg != "s" && sg != "u" then "bad-request"
      else if bo != "<" && bo != ">" then "bad-request"
      else if items.any (fun b => b.length != w) then "bad-request"
      else match canonIntsBO (bo == ">") (sg == "s") w items with
        | some out => s!"ok|{hex out.flatten}"
        | none => "err|ValueError"
    | _, _ => "bad-request"
  | ["kwcanon", kw] =>
    match (words kw).mapM parseKwItem with
    | some kw =>
      if !(kw.map (·.1)).Nodup then "bad-request"
      else s!"ok|{" ".intercalate ((kwCanon kw).map fun i => s!"x{hex i.1}={i.2}")}"
    | none => "bad-request"
  | _ => "bad-request"


end NutilsVerif.C17
