import NutilsVerif.Model.ExprJson
import NutilsVerif.Model.C13
/-! Request handlers of the C13 driver (compiled once; `Drivers/C13.lean` only serves them).  Protocol: see `Drivers/C13.lean`. -/
open Lean NutilsVerif NutilsVerif.Expr

namespace C13Driver

def tEq (a b : T) : Bool := a.shape == b.shape && a.data.toList == b.data.toList

def verdict (a b : M T) : String :=
  match a, b with
  | .ok x, .ok y => if tEq x y then "same" else "differ"
  | _, _ => "error"

def objPairs (j : Json) : Except String (List (String × Json)) :=
  match j with
  | .obj kvs => pure (kvs.toList.map fun (k, v) => (k, v))
  | _ => throw "expected object"

def rootId (roots : List Nat) (pos : Nat) : M Nat :=
  match roots[pos]? with
  | some id => pure id
  | none => bad s!"root position {pos} out of range"

def bindStage (env : Env) (roots : List Nat) (stage : List (String × Nat)) : M Env := do
  let vals ← stage.mapM fun (name, pos) => do
    let t ← evalRef env (← rootId roots pos)
    pure (name, t)
  pure { env with args := vals ++ env.args }

/-! ### first-order coefficient in the reserved atom `#t` -/

def tKey : String := "#t"

def hasSub (s sub : String) : Bool := (s.splitOn sub).length > 1

/-- coefficient of `#t`¹ of a polynomial; `none` when `#t` occurs inside a non-polynomial atom -/
def coefT (p : Poly) : Option Poly :=
  if p.terms.any (fun (m, _) => m.any fun (k, _) => k != tKey && hasSub k tKey) then none else
  some (p.terms.foldl (fun (acc : Poly) (m, c) =>
    if m.lookup tKey == some 1 then acc + ⟨[(m.filter (·.1 != tKey), c)]⟩ else acc) Poly.zero)

def coefTensor (t : T) : M T := do
  let vals ← t.data.toList.mapM fun p => match coefT p with
    | some q => pure q
    | none => .error (.unsupported "non-polynomial dependence on the differentiation variable")
  pure ⟨t.shape, vals.toArray⟩

def lookupArg (env : Env) (name : String) : M T :=
  match env.args.lookup name with
  | some t => pure t
  | none => bad s!"missing argument {name}"

def linCheck (env : Env) (roots : List Nat) (root : Nat) (pairs : List (String × String)) : M T := do
  let vals ← pairs.mapM fun (u, v) => do
    let tu ← lookupArg env u
    let tv ← lookupArg env v
    if tu.shape != tv.shape then bad s!"linearize pair {u}:{v}: shapes differ"
    pure (u, Tensor.zipWith (fun a b => a + Poly.atom tKey * b) tu tv)
  let r ← evalRef { env with args := vals ++ env.args } (← rootId roots root)
  coefTensor r

def derivCheck (env : Env) (roots : List Nat) (root : Nat) (name : String) : M T := do
  let tu ← lookupArg env name
  let id ← rootId roots root
  let cols ← (Tensor.indices tu.shape).mapM fun uidx => do
    let pert : T := Tensor.ofFn tu.shape fun idx => if idx == uidx then tu.get idx + Poly.atom tKey else tu.get idx
    let r ← evalRef { env with args := (name, pert) :: env.args } id
    coefTensor r
  match cols with
  | [] => do
    let r ← evalRef env id
    pure (Tensor.ofFn (r.shape ++ tu.shape) fun _ => (0 : Poly))
  | c0 :: _ =>
    let nf := c0.shape.length
    pure (Tensor.ofFn (c0.shape ++ tu.shape) fun idx =>
      ((cols.getD (flatIdx tu.shape (idx.drop nf)) c0).get (idx.take nf)))

/-- degree of the normal form in the entries `name[…]`; `none`: occurs inside a function atom -/
def degreeIn (name : String) (t : T) : Option Nat :=
  let pre := name ++ "["
  t.data.toList.foldl (fun (acc : Option Nat) p =>
    p.terms.foldl (fun (acc : Option Nat) (m, _) =>
      match acc with
      | none => none
      | some d =>
        if m.any (fun (k, _) => !k.startsWith pre && hasSub k pre) then none else
        some (max d ((m.filter fun (k, _) => k.startsWith pre).foldl (fun s (_, n) => s + n) 0))) acc) (some 0)

def handleExpr (line : String) : String :=
  match parseRequest line with
  | .error e => "bad-request " ++ e
  | .ok r =>
    let res : Except String Json := do
      let cmpPairs := (r.json.getObjValAs? (List (List Nat)) "cmp").toOption.getD []
      let cmps := cmpPairs.map fun p =>
        verdict (r.results.getD (p.getD 0 0) (bad "cmp index")) (r.results.getD (p.getD 1 0) (bad "cmp index"))
      let bindsJ := (r.json.getObjValAs? (Array Json) "binds").toOption.getD #[]
      let binds ← bindsJ.toList.mapM fun b => do
        let stagesJ ← b.getObjValAs? (Array Json) "stages"
        let stages ← stagesJ.toList.mapM fun s => do
          (← objPairs s).mapM fun (k, v) => do pure (k, ← v.getNat?)
        let root ← b.getObjValAs? Nat "root"
        let cmp ← b.getObjValAs? Nat "cmp"
        let value : M T := do
          let env ← stages.foldlM (fun env st => bindStage env r.roots st) r.env
          evalRef env (← rootId r.roots root)
        pure (Json.mkObj [("verdict", verdict value (r.results.getD cmp (bad "cmp index"))), ("result", resultJson value)])
      let linsJ := (r.json.getObjValAs? (Array Json) "lins").toOption.getD #[]
      let lins ← linsJ.toList.mapM fun b => do
        let root ← b.getObjValAs? Nat "root"
        let cmp ← b.getObjValAs? Nat "cmp"
        let pairs ← (← objPairs (← b.getObjVal? "pairs")).mapM fun (k, v) => do pure (k, ← v.getStr?)
        let stagesJ := (b.getObjValAs? (Array Json) "stages").toOption.getD #[]
        let stages ← stagesJ.toList.mapM fun s => do
          (← objPairs s).mapM fun (k, v) => do pure (k, ← v.getNat?)
        let value : M T := do
          let env ← stages.foldlM (fun env st => bindStage env r.roots st) r.env
          linCheck env r.roots root pairs
        pure (Json.mkObj [("verdict", verdict value (r.results.getD cmp (bad "cmp index"))), ("result", resultJson value)])
      let dersJ := (r.json.getObjValAs? (Array Json) "derivs").toOption.getD #[]
      let ders ← dersJ.toList.mapM fun b => do
        let root ← b.getObjValAs? Nat "root"
        let cmp ← b.getObjValAs? Nat "cmp"
        let name ← b.getObjValAs? String "name"
        let value := derivCheck r.env r.roots root name
        pure (Json.mkObj [("verdict", verdict value (r.results.getD cmp (bad "cmp index"))), ("result", resultJson value)])
      let degsJ := (r.json.getObjValAs? (Array Json) "degrees").toOption.getD #[]
      let degs ← degsJ.toList.mapM fun b => do
        let root ← b.getObjValAs? Nat "root"
        let names ← b.getObjValAs? (List String) "names"
        match r.results.getD root (bad "degree root") with
        | .ok t => pure (toJson (names.map fun n => match degreeIn n t with | some d => (d : Int) | none => -1))
        | .error _ => pure Json.null
      pure (Json.mkObj [("results", Json.arr (r.results.map resultJson).toArray), ("cmp", toJson cmps),
        ("binds", Json.arr binds.toArray), ("lins", Json.arr lins.toArray), ("derivs", Json.arr ders.toArray),
        ("degrees", Json.arr degs.toArray)])
    match res with
    | .ok j => j.compress
    | .error e => "bad-request " ++ e

/-! ### spec -/

open NutilsVerif.C13 in
def toDType (s : String) : Except String DType :=
  match s with
  | "bool" => pure .bool | "int" => pure .int | "float" => pure .float | "complex" => pure .complex
  | _ => throw "dtype"

open NutilsVerif.C13 in
def toSig (shape : Json) (dt : Json) : Except String Sig := do
  let sh ← (fromJson? shape : Except String (List Nat))
  pure ⟨sh, ← toDType (← dt.getStr?)⟩

open NutilsVerif.C13 in
def toCtx (j : Json) : Except String Ctx := do
  let a ← j.getArr?
  a.toList.mapM fun e => do
    match e with
    | .arr #[n, sh, dt] => pure ((← n.getStr?).toList, ← toSig sh dt)
    | _ => throw "ctx entry"

open NutilsVerif.C13 in
def toKey (j : Json) : Except String Key :=
  match j.getObjVal? "name", j.getObjVal? "arg", j.getObjVal? "other" with
  | .ok (.str s), _, _ => pure (.name s.toList)
  | _, .ok (.arr #[n, sh, dt]), _ => do pure (.argobj (← n.getStr?).toList (← toSig sh dt))
  | _, _, .ok _ => pure .other
  | _, _, _ => throw "key"

open NutilsVerif.C13 in
def toVal (j : Json) : Except String Val :=
  match j.getObjVal? "name", j.getObjVal? "arg", j.getObjVal? "array" with
  | .ok (.str s), _, _ => pure (.name s.toList)
  | _, .ok (.arr #[n, sh, dt]), _ => do pure (.argobj (← n.getStr?).toList (← toSig sh dt))
  | _, _, .ok (.arr #[id, sh, dt, args, b]) => do pure (.array (← id.getNat?) (← toSig sh dt) (← toCtx args) (← b.getBool?))
  | _, _, _ => throw "val"

open NutilsVerif.C13 in
def toItem (j : Json) : Except String Item :=
  match j.getObjVal? "str", j.getObjVal? "pair" with
  | .ok (.str s), _ => pure (.str s.toList)
  | _, .ok (.arr #[k, v]) => do pure (.pair (← toKey k) (← toVal v))
  | _, _ => throw "item"

open NutilsVerif.C13 in
def toSpec (j : Json) : Except String Spec := do
  match ← j.getObjValAs? String "kind" with
  | "str" => pure (.str (← j.getObjValAs? String "s").toList)
  | "dict" => do
    let items ← j.getObjValAs? (Array Json) "items"
    pure (.dict (← items.toList.mapM fun e => match e with
      | .arr #[k, v] => do pure (← toKey k, ← toVal v)
      | _ => throw "dict item"))
  | "seq" => do
    let items ← j.getObjValAs? (Array Json) "items"
    pure (.seq (← items.toList.mapM toItem))
  | _ => throw "spec kind"

open NutilsVerif.C13 in
def dtName : DType → String
  | .bool => "bool" | .int => "int" | .float => "float" | .complex => "complex"

open NutilsVerif.C13 in
def sigJson (s : Sig) : Json := Json.arr #[toJson s.shape, dtName s.dtype]

open NutilsVerif.C13 in
def ctxJson (c : Ctx) : Json := Json.arr (c.map fun (n, s) => Json.arr #[String.ofList n, toJson s.shape, dtName s.dtype]).toArray

open NutilsVerif.C13 in
def replJson : Replacement → Json
  | .arg n s => Json.mkObj [("arg", Json.arr #[String.ofList n, toJson s.shape, dtName s.dtype])]
  | .array id s _ _ => Json.mkObj [("array", Json.arr #[(id : Nat), toJson s.shape, dtName s.dtype])]

open NutilsVerif.C13 in
def errName : C13.Err → String
  | .unpack => "unpack" | .keyType => "keyType" | .keySig => "keySig" | .valShape => "valShape" | .valDtype => "valDtype"
  | .boundToSpace => "boundToSpace" | .joinShape => "joinShape" | .joinDtype => "joinDtype"

open NutilsVerif.C13 in
def handleSpec (j : Json) : Except String Json := do
  let ctx ← toCtx (← j.getObjVal? "ctx")
  let spec ← toSpec (← j.getObjVal? "spec")
  let pj := match parse spec ctx with
    | .ok l => Json.mkObj [("ok", Json.arr (l.map fun (n, r) => Json.arr #[String.ofList n, replJson r]).toArray)]
    | .error e => Json.mkObj [("error", errName e)]
  let rj := match replaceInit spec ctx with
    | .ok (d, joined) => Json.mkObj [("map", Json.arr (d.map fun (n, r) => Json.arr #[String.ofList n, replJson r]).toArray), ("arguments", ctxJson joined)]
    | .error e => Json.mkObj [("error", errName e)]
  pure (Json.mkObj [("parse", pj), ("replace", rj)])

/-! ### machine -/

open NutilsVerif.C13 in
partial def toTree (j : Json) : Except String (C13.Expr String) :=
  match j with
  | .arr #[.str "var", .str x] => pure (.var x)
  | .arr #[.str "const", c] => do pure (.const (← c.getInt?))
  | .arr #[.str "add", a, b] => do pure (.add (← toTree a) (← toTree b))
  | .arr #[.str "mul", a, b] => do pure (.mul (← toTree a) (← toTree b))
  | .arr #[.str "neg", a] => do pure (.neg (← toTree a))
  | .arr #[.str "app", .str f, .arr args] => do pure (.app f (← args.toList.mapM toTree))
  | _ => throw "tree"

open NutilsVerif.C13 in
def toDNode (j : Json) : Except String (DNode String) :=
  match j with
  | .arr #[.str "var", .str x] => pure (.var x)
  | .arr #[.str "const", c] => do pure (.const (← c.getInt?))
  | .arr #[.str "add", a, b] => do pure (.add (← a.getNat?) (← b.getNat?))
  | .arr #[.str "mul", a, b] => do pure (.mul (← a.getNat?) (← b.getNat?))
  | .arr #[.str "neg", a] => do pure (.neg (← a.getNat?))
  | .arr #[.str "app", .str f, .arr args] => do pure (.app f (← args.toList.mapM (·.getNat?)))
  | _ => throw "dnode"

partial def showTree : C13.Expr String → String
  | .var x => s!"(var {x})"
  | .const c => s!"(const {c})"
  | .add a b => s!"(add {showTree a} {showTree b})"
  | .mul a b => s!"(mul {showTree a} {showTree b})"
  | .neg a => s!"(neg {showTree a})"
  | .app f args => s!"(app {f}" ++ String.join (args.map fun a => " " ++ showTree a) ++ ")"

open NutilsVerif.C13 NutilsVerif.C13.Machine in
def handleMachine (j : Json) : Except String Json := do
  let dagJ ← j.getObjValAs? (Array Json) "dag"
  let dag ← dagJ.toList.mapM toDNode
  let sig ← (← objPairs (← j.getObjVal? "sigma")).mapM fun (k, v) => do pure (k, ← toTree v)
  let root ← j.getObjValAs? Nat "root"
  let σ : String → Option (C13.Expr String) := fun x => sig.lookup x
  -- well-formedness is a precondition of the theorem: refuse anything else
  if !(dag.zipIdx.all fun (n, k) => n.children.all (· < k)) || root ≥ dag.length then throw "dag not well-formed"
  let fuel := 16 * (dag.length + (dag.map fun n => n.children.length).foldl (· + ·) 0) + 16
  -- run, recording the objects on which `func` is called
  let (final, trace, steps) := (List.range fuel).foldl (fun (st : State String × List Nat × Nat) _ =>
    let (s, tr, n) := st
    match s.fstack with
    | [] => st
    | .obj id :: _ =>
      let called := (s.cache.lookup id).isNone && (dag[id]?).isSome
      (step dag σ s, if called then tr ++ [id] else tr, n + 1)
    | _ => (step dag σ s, tr, n + 1)) (init root, [], 0)
  let result := match final.fstack, final.rstack with
    | [], [r] => Json.str (showTree r)
    | _, _ => Json.null
  pure (Json.mkObj [("result", result), ("spec", showTree (C13.Expr.subst σ (Dag.denote dag root))),
    ("trace", toJson trace), ("steps", toJson steps)])

def handle (line : String) : String :=
  match Json.parse line with
  | .error e => "bad-request " ++ e
  | .ok j =>
    match j.getObjValAs? String "op" with
    | .ok "expr" => handleExpr line
    | .ok "spec" => match handleSpec j with | .ok r => r.compress | .error e => "bad-request " ++ e
    | .ok "machine" => match handleMachine j with | .ok r => r.compress | .error e => "bad-request " ++ e
    | _ => "bad-request unknown op"

end C13Driver
