/-!
# C11 — compressed containers `elementseq.References` / `pointsseq.PointsSequence` (model; no Mathlib)

Both modules implement the same algebra (Empty / Plain / Uniform / Take / Repeat / Product / Chain and, for references,
Derived) with the same class specific overrides of `take`, `compress`, `repeat`, `product`, `chain`, `children`, `edges`.
The model is generic in the item type `β`; `Ops.mul` stands for `item1.product(item2)` and `Ops.der tag` for
`child_refs` (`tag = false`) / `edge_refs` (`tag = true`).
-/
namespace NutilsVerif.C11.Alg

inductive Seq (β : Type) where
  | empty
  | plain (items : List β)
  | uniform (item : β) (n : Nat)
  | take (p : Seq β) (idx : List Nat)
  | rep (p : Seq β) (count : Nat)
  | prod (a b : Seq β)
  | chain (a b : Seq β)
  | derived (tag : Bool) (p : Seq β)
deriving DecidableEq, Repr

structure Ops (β : Type) where
  mul : β → β → β
  der : Bool → β → List β

variable {β : Type} [DecidableEq β]

/-- the sequence a container stands for (specification) -/
def Seq.toList (o : Ops β) : Seq β → List β
  | .empty => []
  | .plain items => items
  | .uniform x n => List.replicate n x
  | .take p idx => idx.filterMap fun i => (p.toList o)[i]?
  | .rep p c => (List.replicate c (p.toList o)).flatten
  | .prod a b => (a.toList o).flatMap fun x => (b.toList o).map fun y => o.mul x y
  | .chain a b => a.toList o ++ b.toList o
  | .derived tag p => (p.toList o).flatMap (o.der tag)

/-- `len(seq)` as the classes compute it -/
def Seq.len (o : Ops β) : Seq β → Nat
  | .empty => 0
  | .plain items => items.length
  | .uniform _ n => n
  | .take _ idx => idx.length
  | .rep p c => p.len o * c
  | .prod a b => a.len o * b.len o
  | .chain a b => a.len o + b.len o
  | .derived tag p => ((p.toList o).map fun x => (o.der tag x).length).sum

/-- walk the offsets of `_Derived`: element `i` of the concatenation of the lists -/
def locate (ls : List (List β)) (i : Nat) : Option β :=
  match ls with
  | [] => none
  | l :: rest => if i < l.length then l[i]? else locate rest (i - l.length)

/-- `seq.get(i)` for `0 ≤ i`; `none` = IndexError -/
def Seq.get (o : Ops β) : Seq β → Nat → Option β
  | .empty, _ => none
  | .plain items, i => items[i]?
  | .uniform x n, i => if i < n then some x else none
  | .take p idx, i => (idx[i]?).bind (p.get o)
  | .rep p c, i => if i < p.len o * c then p.get o (i % p.len o) else none
  | .prod a b, i =>
    if i < a.len o * b.len o then
      match a.get o (i / b.len o), b.get o (i % b.len o) with
      | some x, some y => some (o.mul x y)
      | _, _ => none
    else none
  | .chain a b, i => if i < a.len o then a.get o i else b.get o (i - a.len o)
  | .derived tag p, i => locate ((p.toList o).map (o.der tag)) i

/-! ## constructors as the static methods and overrides build them -/

/-- `from_iter` -/
def fromIter (l : List β) : Seq β :=
  match l with
  | [] => .empty
  | x :: t => if t.all (· == x) then .uniform x l.length else .plain l

/-- `uniform(value, length)` -/
def uniformS (x : β) (n : Nat) : Seq β := if n = 0 then .empty else .uniform x n

/-- `seq.repeat(count)` -/
def repeatS (s : Seq β) (c : Nat) : Seq β :=
  match s with
  | .uniform x n => if c = 0 then .empty else uniformS x (n * c)
  | .rep p c0 => if c = 0 then .empty else .rep p (c0 * c)
  | s => if c = 0 then .empty else if c = 1 then s else .rep s c

/-- `_unchain` -/
def unchain (o : Ops β) : Seq β → List (Seq β)
  | .chain a b => unchain o a ++ unchain o b
  | s => if s.len o = 0 then [] else [s]

/-- `_merge_chain` -/
def mergeChain (a b : Seq β) : Option (Seq β) :=
  if a = b then some (repeatS a 2) else
  match a, b with
  | .uniform x n, .uniform y m => if x = y then some (.uniform x (n + m)) else none
  | .rep p c, .rep p' c' => if p = p' then some (repeatS p (c + c')) else none
  | .rep p c, b => if p = b then some (repeatS p (c + 1)) else none
  | a, .rep p' c' => if p' = a then some (repeatS p' (c' + 1)) else none
  | _, _ => none

/-- index of the first minimum -/
def argmin : List Nat → Nat
  | [] => 0
  | [_] => 0
  | x :: y :: t => let k := argmin (y :: t); if x ≤ (y :: t).getD k 0 then 0 else k + 1

def absDiff (a b : Nat) : Nat := if a ≤ b then b - a else a - b

/-- split point of `_balanced_chain`: `argmin(abs(c[1:-1] - c[-1]/2)) + 1` with `c` the cumulative lengths -/
def splitPoint (lens : List Nat) : Nat :=
  let total := lens.sum
  let cum := (lens.foldl (fun (acc : List Nat × Nat) n => (acc.1 ++ [acc.2 + n], acc.2 + n)) ([], 0)).1
  argmin ((cum.dropLast).map fun c => absDiff (2 * c) total) + 1

/-- `_balanced_chain` (`fuel` ≥ number of items; the fall-back branch is never reached) -/
def balanced (o : Ops β) : Nat → List (Seq β) → Seq β
  | _, [] => .empty
  | _, [s] => s
  | 0, s :: rest => rest.foldl .chain s
  | fuel+1, items =>
    let i := min (max (splitPoint (items.map (·.len o))) 1) (items.length - 1)
    let a := balanced o fuel (items.take i)
    let b := balanced o fuel (items.drop i)
    match mergeChain a b with
    | some m => m
    | none => .chain a b

/-- `seq.chain(other)` -/
def chainS (o : Ops β) (a b : Seq β) : Seq β :=
  if b.len o = 0 then a
  else if a.len o = 0 then b
  else
    let sa := unchain o a
    let sb := unchain o b
    match sa.getLast?, sb.head? with
    | some x, some y =>
      (match mergeChain x y with
       | some m => balanced o (sa.length + sb.length) (sa.dropLast ++ [m] ++ sb.tail)
       | none => balanced o (sa.length + sb.length) (sa ++ sb))
    | _, _ => balanced o (sa.length + sb.length) (sa ++ sb)

/-- the base class `take`: `_Empty`, `_Uniform(seq.get(i), 1)` or `_Take(seq, indices)` -/
def takeGeneric (o : Ops β) (s : Seq β) (idx : List Nat) : Seq β :=
  match idx with
  | [] => .empty
  | [i] => (match s.get o i with
    | some x => .uniform x 1
    | none => .empty)
  | _ => .take s idx

/-- `(mask[1:] > mask[:-1]).any()` for `mask = indices < n`: an index into the first part follows one into the second -/
def crossesBack (n : Nat) : List Nat → Bool
  | i :: j :: t => (!(decide (i < n)) && decide (j < n)) || crossesBack n (j :: t)
  | _ => false

/-- `seq.take(indices)` -/
def takeS (o : Ops β) : Seq β → List Nat → Seq β
  | .uniform x _, idx => uniformS x idx.length
  | .take p i0, idx => takeS o p (idx.filterMap fun k => i0[k]?)
  | .chain a b, idx =>
    let n := a.len o
    if crossesBack n idx then takeGeneric o (.chain a b) idx
    else chainS o (takeS o a (idx.filter (· < n))) (takeS o b ((idx.filter (fun i => !(i < n))).map (· - n)))
  | s, idx => takeGeneric o s idx

/-- `_Chain.take` as it was before the repair (`fix: _Chain.take keeps the order of unsorted indices`): hits in the first
sequence always came first.  Kept as documentation for `containers_take_old_counterexample`. -/
def takeSOld (o : Ops β) : Seq β → List Nat → Seq β
  | .uniform x _, idx => uniformS x idx.length
  | .take p i0, idx => takeSOld o p (idx.filterMap fun k => i0[k]?)
  | .chain a b, idx =>
    let n := a.len o
    chainS o (takeSOld o a (idx.filter (· < n))) (takeSOld o b ((idx.filter (fun i => !(i < n))).map (· - n)))
  | s, idx => takeGeneric o s idx

def nonzero (mask : List Bool) : List Nat := (mask.zipIdx.filter (·.1)).map (·.2)

/-- `seq.compress(mask)` -/
def compressS (o : Ops β) : Seq β → List Bool → Seq β
  | .uniform x _, mask => uniformS x (mask.count true)
  | .take p i0, mask => takeS o p ((i0.zip mask).filter (·.2) |>.map (·.1))
  | .chain a b, mask => chainS o (compressS o a (mask.take (a.len o))) (compressS o b (mask.drop (a.len o)))
  | s, mask => takeS o s (nonzero mask)

/-- `seq.product(other)` -/
def productS (o : Ops β) : Seq β → Seq β → Seq β
  | .uniform x n, .uniform y m => uniformS (o.mul x y) (n * m)
  | .prod a1 a2, b => productS o a1 (productS o a2 b)
  | a, b => .prod a b

/-- `seq.children` (`tag = false`) / `seq.edges` (`tag = true`) -/
def derivedS (o : Ops β) (tag : Bool) : Seq β → Seq β
  | .empty => .empty
  | .uniform x n => repeatS (fromIter (o.der tag x)) n
  | .rep p c => repeatS (derivedS o tag p) c
  | .chain a b => chainS o (derivedS o tag a) (derivedS o tag b)
  | s => .derived tag s

/-- class nesting, for the correspondence -/
def Seq.shape : Seq β → String
  | .empty => "Empty"
  | .plain _ => "Plain"
  | .uniform _ _ => "Uniform"
  | .take p _ => "Take(" ++ p.shape ++ ")"
  | .rep p _ => "Repeat(" ++ p.shape ++ ")"
  | .prod a b => "Product(" ++ a.shape ++ "," ++ b.shape ++ ")"
  | .chain a b => "Chain(" ++ a.shape ++ "," ++ b.shape ++ ")"
  | .derived _ p => "Derived(" ++ p.shape ++ ")"

end NutilsVerif.C11.Alg
