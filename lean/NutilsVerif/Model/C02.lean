import NutilsVerif.Model.C02Core
/-!
# C02 — static well-formedness of generated scripts  (model; no Mathlib)

The harness parses every script that `nutils.evaluable.compile` generates (Python `ast`) into the statement
language `Stmt` below; `chkBlock` decides, on the script alone,

(i)   every variable is assigned before it is used on every path, a loop index is used only inside its `for`,
      a variable assigned inside a loop body is not used after the loop (its value "goes out of scope");
(ii)  an array allocated with `numpy.empty` is zero-filled or completely written before it is read or
      accumulated into (`numpy.add(…, out=)`, `numpy.add.at`), no contribution is accumulated into an array after
      somebody has read it (the reader would have seen an unfinished value), no accumulated contribution is
      discarded by a later zero-fill or overwrite before anybody has read it (zero-fill placed in the wrong
      loop block), cached arrays of the `first_run` branch are computed there and never written afterwards.

Arrays are tracked at the granularity of *regions*: a view `numpy.transpose(out[..., slice(a, b)], …)` addresses
the region `["slice(a, b)"]` of `out` (transposes do not change the region; `einsum('...ii->...i', ·)` adds
`"diag"`).  Assumption (tiling): the last component of the region written by a statement is completed when the
innermost loop around that statement exits (the slices `start:stop` of a `LoopConcatenate` tile the axis; the
diagonal written into a zero-filled array completes it).  The harness validates this assumption dynamically
(sentinel-filled `numpy.empty`).

Block ids (`get_block_id`, loop/block numbering and the assembly of the blocks into one script) are modelled in
the second half.
-/
namespace NutilsVerif.C02

abbrev Var := String
/-- the non-transpose components of a view, outermost first: `"slice(v3, v4)"`, `"diag"` -/
abbrev Sig := List String

inductive Init where
  | none
  | part (zs : List Sig)
  | full
deriving Repr, BEq, DecidableEq, Inhabited

structure VS where
  init : Init
  /-- read since it was (re)initialised -/
  sealed : Bool
  /-- contributions written since it was initialised and not yet read by anybody -/
  dirty : Bool
  /-- cached between calls (`setflags(write=False)`) -/
  frozen : Bool
deriving Repr, BEq, DecidableEq, Inhabited

def Init.isFull : Init → Bool
  | .full => true
  | _ => false

def VS.value : VS := { init := .full, sealed := false, dirty := false, frozen := false }
def VS.empty : VS := { init := .none, sealed := false, dirty := false, frozen := false }
def VS.cached : VS := { init := .full, sealed := true, dirty := false, frozen := true }

/-- association list, first binding wins; an absent variable is unbound -/
abbrev AState := List (Var × VS)

def put (σ : AState) (x : Var) (v : VS) : AState := (x, v) :: σ

inductive Stmt where
  /-- `x = <expression over reads>`: a completely defined new value -/
  | assign (x : Var) (reads : List Var)
  /-- `x = numpy.empty(<reads>)` / `parallel.shempty(…)` -/
  | alloc (x : Var) (reads : List Var)
  /-- `view(x).fill(0)` -/
  | fill (x : Var) (sig : Sig)
  /-- `numpy.copyto(view(x), <reads>)` -/
  | write (x : Var) (sig : Sig) (reads : List Var)
  /-- `numpy.add(view(x), <reads>, out=view(x))` / `numpy.add.at(view(x), <reads>)` -/
  | accum (x : Var) (sig : Sig) (reads : List Var)
  /-- statement that only reads: expression statement, `if …: raise …`, `with lock:` header, `return` -/
  | use (reads : List Var)
  /-- `with <reads> as r: for i in map(numpy.int_, r): body` -/
  | loop (i : Var) (reads : List Var) (body : List Stmt)
  /-- `global first_run, <cached>` · `if first_run: first  else: again` -/
  | rerun (cached : List Var) (first again : List Stmt)
deriving Repr, Inhabited

structure Err where
  kind : String
  var : Var
deriving Repr, BEq, DecidableEq

/-! ## transfer functions of the straight-line statements -/

def readVar (σ : AState) (x : Var) : Except Err AState :=
  match σ.lookup x with
  | none => .error ⟨"read-unbound", x⟩
  | some v =>
    if v.init.isFull then .ok (put σ x { v with sealed := true, dirty := false })
    else .error ⟨"read-uninitialised", x⟩

def readAll (σ : AState) : List Var → Except Err AState
  | [] => .ok σ
  | x :: xs => (readVar σ x).bind fun σ' => readAll σ' xs

/-- the initialisation state after (zero-)filling or writing the region `sig`; writing a part of an array that has
been read starts a new generation of the array (`LoopConcatenate` in an outer loop) -/
def initAfter (v : VS) (sig : Sig) : Init :=
  if sig.isEmpty then .full
  else if v.sealed then .part [sig]
  else match v.init with
    | .full => .full
    | .part zs => .part (sig :: zs)
    | .none => .part [sig]

def isPrefix : Sig → Sig → Bool
  | [], _ => true
  | _ :: _, [] => false
  | a :: as, b :: bs => a == b && isPrefix as bs

def doFill (σ : AState) (x : Var) (sig : Sig) : Except Err AState :=
  match σ.lookup x with
  | none => .error ⟨"write-unbound", x⟩
  | some v =>
    if v.frozen then .error ⟨"write-cached", x⟩
    else if v.dirty && sig.isEmpty then .error ⟨"discard-unread-contributions", x⟩
    else .ok (put σ x { init := initAfter v sig, sealed := false, dirty := v.dirty && !sig.isEmpty, frozen := false })

def doWrite (σ : AState) (x : Var) (sig : Sig) : Except Err AState :=
  match σ.lookup x with
  | none => .error ⟨"write-unbound", x⟩
  | some v =>
    if v.frozen then .error ⟨"write-cached", x⟩
    else if v.dirty && sig.isEmpty then .error ⟨"discard-unread-contributions", x⟩
    else .ok (put σ x { init := initAfter v sig, sealed := false, dirty := true, frozen := false })

/-- may a contribution be accumulated into the region `sig` of an array in this initialisation state? -/
def accOK : Init → Sig → Bool
  | .full, _ => true
  | .part zs, sig => zs.any fun z => isPrefix z sig
  | .none, _ => false

def doAccum (σ : AState) (x : Var) (sig : Sig) : Except Err AState :=
  match σ.lookup x with
  | none => .error ⟨"write-unbound", x⟩
  | some v =>
    if v.frozen then .error ⟨"write-cached", x⟩
    else if v.sealed then .error ⟨"accumulate-after-read", x⟩
    else if accOK v.init sig then .ok (put σ x { v with dirty := true })
    else .error ⟨"accumulate-into-uninitialised", x⟩

/-! ## joins and the order `a ⊑ b` ("b is at least as pessimistic as a") -/

def joinInit : Init → Init → Init
  | .full, .full => .full
  | .full, .part b => .part b
  | .part a, .full => .part a
  | .part a, .part b => .part (a.filter fun z => b.contains z)
  | _, _ => .none

def joinVS (a b : VS) : VS :=
  { init := joinInit a.init b.init, sealed := a.sealed || b.sealed, dirty := a.dirty || b.dirty, frozen := a.frozen || b.frozen }

def leInit : Init → Init → Bool
  | _, .none => true
  | .full, .part _ => true
  | .part a, .part b => b.all fun z => a.contains z
  | .full, .full => true
  | _, _ => false

def leVS (a b : VS) : Bool :=
  leInit a.init b.init && (!a.sealed || b.sealed) && (!a.dirty || b.dirty) && (!a.frozen || b.frozen)

def dedup : List Var → List Var
  | [] => []
  | x :: xs => if (dedup xs).contains x then dedup xs else x :: dedup xs

def keys (σ : AState) : List Var := dedup (σ.map (·.1))

/-- the variables of `σ`, with the states they have in `τ` (variables unbound in `τ` are dropped) -/
def restrict (σ τ : AState) : AState :=
  (keys σ).filterMap fun x => (τ.lookup x).map fun v => (x, v)

/-- pointwise join over the variables bound in both -/
def merge (a b : AState) : AState :=
  (keys a).filterMap fun x =>
    match a.lookup x, b.lookup x with
    | some va, some vb => some (x, joinVS va vb)
    | _, _ => none

def leB (a b : AState) : Bool :=
  (keys b).all fun x =>
    match a.lookup x, b.lookup x with
    | some va, some vb => leVS va vb
    | none, some _ => false
    | _, none => true

/-! ## loops: regions completed at loop exit -/

mutual
/-- `(x, region)` for every region of `x` that is complete when a loop with this body exits: the region written
by a statement of the body minus its last component -/
def exitSigsS : Stmt → List (Var × Sig)
  | .fill x sig => if sig.isEmpty then [] else [(x, sig.dropLast)]
  | .write x sig _ => if sig.isEmpty then [] else [(x, sig.dropLast)]
  | .loop _ _ body => (exitSigsL body).filterMap fun p => if p.2.isEmpty then none else some (p.1, p.2.dropLast)
  | _ => []
def exitSigsL : List Stmt → List (Var × Sig)
  | [] => []
  | s :: rest => exitSigsS s ++ exitSigsL rest
end

/-- the region `sig` of an array in state `v` has been completed (`sig = []`: the whole array) -/
def promoteVS (v : VS) (sig : Sig) : VS :=
  if sig.isEmpty then { v with init := .full, sealed := false }
  else { v with init := match v.init with
    | .full => .full
    | .part zs => .part (sig :: zs)
    | .none => .part [sig] }

def promote1 (σ : AState) (p : Var × Sig) : AState :=
  match σ.lookup p.1 with
  | none => σ
  | some v => put σ p.1 (promoteVS v p.2)

def promote (σ : AState) (ps : List (Var × Sig)) : AState := ps.foldl promote1 σ

/-! ## the checker -/

def cachedOK (σ : AState) (cached : List Var) : Except Err Unit :=
  match cached.find? (fun c => match σ.lookup c with | some v => !v.init.isFull | none => true) with
  | some c => .error ⟨"cached-not-computed", c⟩
  | none => .ok ()

def bindCached (σ : AState) (cached : List Var) : AState := cached.foldl (fun s c => put s c VS.cached) σ

mutual
def chkS : Stmt → AState → Except Err AState
  | .assign x reads, σ => (readAll σ reads).bind fun σ' => .ok (put σ' x VS.value)
  | .alloc x reads, σ => (readAll σ reads).bind fun σ' => .ok (put σ' x VS.empty)
  | .fill x sig, σ => doFill σ x sig
  | .write x sig reads, σ => (readAll σ reads).bind fun σ' => doWrite σ' x sig
  | .accum x sig reads, σ => (readAll σ reads).bind fun σ' => doAccum σ' x sig
  | .use reads, σ => readAll σ reads
  | .loop i reads body, σ =>
    (readAll σ reads).bind fun σ0 =>
    (chkL body (put σ0 i VS.value)).bind fun σ1 =>
    let inv := merge σ0 (restrict σ0 σ1)
    (chkL body (put inv i VS.value)).bind fun σ2 =>
    if leB (restrict σ0 σ2) inv then .ok (promote inv (exitSigsL body)) else .error ⟨"loop-not-stable", i⟩
  | .rerun cached first again, σ =>
    (chkL first σ).bind fun σf =>
    (cachedOK σf cached).bind fun _ =>
    (chkL again (bindCached σ cached)).bind fun σa =>
    .ok (merge σf σa)
def chkL : List Stmt → AState → Except Err AState
  | [], σ => .ok σ
  | s :: rest, σ => (chkS s σ).bind (chkL rest)
end

/-- the state in which a script starts: constants, modules and the argument dictionary are defined and read-only -/
def initial (globals : List Var) : AState := globals.map fun g => (g, VS.cached)

def checkScript (globals : List Var) (prog : List Stmt) : Except Err Unit :=
  (chkL prog (initial globals)).bind fun _ => .ok ()

/-! ## concrete executions: any trip count, either branch of `first_run`

`Exec p c r`: starting in state `c` the statements `p` may end in `r` (an error or a final state).  The markers are
the same as in the checker; what differs is that a loop body runs an arbitrary number of times and that the
`first_run` conditional takes either branch (the `again` branch with the cached variables bound). -/

def stepSimple : Stmt → AState → Except Err AState
  | .assign x reads, σ => (readAll σ reads).bind fun σ' => .ok (put σ' x VS.value)
  | .alloc x reads, σ => (readAll σ reads).bind fun σ' => .ok (put σ' x VS.empty)
  | .fill x sig, σ => doFill σ x sig
  | .write x sig reads, σ => (readAll σ reads).bind fun σ' => doWrite σ' x sig
  | .accum x sig reads, σ => (readAll σ reads).bind fun σ' => doAccum σ' x sig
  | .use reads, σ => readAll σ reads
  | _, σ => .ok σ

def Stmt.isSimple : Stmt → Bool
  | .loop .. => false
  | .rerun .. => false
  | _ => true

/-- what can be executed: a statement, a block, or the remaining iterations of a loop (`c0` = state at loop entry,
whose variables are the ones that survive an iteration) -/
inductive Code where
  | stmt (s : Stmt)
  | block (l : List Stmt)
  | iter (i : Var) (body : List Stmt) (c0 : AState)

inductive Exec : Code → AState → Except Err AState → Prop
  | simple (s : Stmt) (c : AState) : s.isSimple = true → Exec (.stmt s) c (stepSimple s c)
  | loopReadErr (i : Var) (reads : List Var) (body : List Stmt) (c : AState) (e : Err) :
      readAll c reads = .error e → Exec (.stmt (.loop i reads body)) c (.error e)
  | loop (i : Var) (reads : List Var) (body : List Stmt) (c c0 : AState) (r : Except Err AState) :
      readAll c reads = .ok c0 → Exec (.iter i body c0) c0 r →
      Exec (.stmt (.loop i reads body)) c (r.map fun cN => promote cN (exitSigsL body))
  | rerunFirst (cached : List Var) (first again : List Stmt) (c : AState) (r : Except Err AState) :
      Exec (.block first) c r → Exec (.stmt (.rerun cached first again)) c r
  | rerunAgain (cached : List Var) (first again : List Stmt) (c : AState) (r : Except Err AState) :
      Exec (.block again) (bindCached c cached) r → Exec (.stmt (.rerun cached first again)) c r
  | iterDone (i : Var) (body : List Stmt) (c0 c : AState) : Exec (.iter i body c0) c (.ok c)
  | iterFail (i : Var) (body : List Stmt) (c0 c : AState) (e : Err) :
      Exec (.block body) (put c i VS.value) (.error e) → Exec (.iter i body c0) c (.error e)
  | iterStep (i : Var) (body : List Stmt) (c0 c c1 : AState) (r : Except Err AState) :
      Exec (.block body) (put c i VS.value) (.ok c1) → Exec (.iter i body c0) (restrict c0 c1) r → Exec (.iter i body c0) c r
  | nil (c : AState) : Exec (.block []) c (.ok c)
  | consErr (s : Stmt) (rest : List Stmt) (c : AState) (e : Err) : Exec (.stmt s) c (.error e) → Exec (.block (s :: rest)) c (.error e)
  | cons (s : Stmt) (rest : List Stmt) (c c1 : AState) (r : Except Err AState) :
      Exec (.stmt s) c (.ok c1) → Exec (.block rest) c1 r → Exec (.block (s :: rest)) c r

def leO : Option VS → Option VS → Prop
  | some va, some vb => leVS va vb = true
  | none, some _ => False
  | _, none => True

/-- `a ⊑ b`: every variable bound in `b` is bound in `a`, in a state that is at least as defined -/
def le (a b : AState) : Prop := ∀ x, leO (a.lookup x) (b.lookup x)

/-! ## block ids

`get_block_id`: the block of an evaluable is the maximum (Python tuple order) of the blocks of its dependencies,
`(0,)` without dependencies.  `render` assembles the blocks exactly as `compile()` does (loop `(p,k)` is appended to
block `(p,k)`, followed by block `(p,k+1)`), and `flatIds` lists the block ids in the order in which the assembled
script executes them. -/

abbrev BlockId := List Nat

/-- Python's `<` on tuples of ints -/
def lexLt : BlockId → BlockId → Bool
  | [], [] => false
  | [], _ :: _ => true
  | _ :: _, [] => false
  | a :: as, b :: bs => a < b || (a == b && lexLt as bs)

def bmax (a b : BlockId) : BlockId := if lexLt a b then b else a

def blockOf : List BlockId → BlockId
  | [] => [0]
  | d :: ds => ds.foldl bmax d

/-- the assertion in `get_block_id`: all but the last entry of the argument's block id identify loops that also
enclose the chosen block -/
def scopeOK (arg blk : BlockId) : Bool := !arg.isEmpty && isPrefixN arg.dropLast blk
where isPrefixN : List Nat → List Nat → Bool
  | [], _ => true
  | _ :: _, [] => false
  | a :: as, b :: bs => a == b && isPrefixN as bs

/-- the tree of loops: at every level the loops `0 … n-1` (`node [t0, …]`: `ti` = the loops nested in loop `i`) -/
inductive LoopTree where
  | node (children : List LoopTree)
deriving Repr, Inhabited

mutual
/-- block ids in execution order for the level with prefix `p`: `(p,0)`, [loop `(p,0)`: its level], `(p,1)`, … -/
def flatIds : LoopTree → List Nat → List BlockId
  | .node cs, p => flatFrom cs p 0
def flatFrom : List LoopTree → List Nat → Nat → List BlockId
  | [], p, k => [p ++ [k]]
  | c :: cs, p, k => (p ++ [k]) :: (flatIds c (p ++ [k]) ++ flatFrom cs p (k+1))
end

end NutilsVerif.C02
