/-!
# C01 (driver) — executable model of `nutils._util.deep_replace_property.__get__`

The Python driver is an explicit stack machine:

```
fstack = [obj]; rstack = []; ostack = IDSet()
while fstack:
    obj = fstack.pop()
    if isinstance(obj, recreate):                      -- (R)
        f, nargs = obj
        r = f(*[rstack.pop() for _ in range(nargs)])
        if isinstance(r, owner) and (newr := func(r)) is not r: fstack.append(newr)
        else: rstack.append(r)
    elif obj is ostack:                                -- (S)
        orig = ostack.pop(); r = rstack[-1]
        if r is orig: r = identity
        orig.__dict__[name] = r
    elif isinstance(obj, owner):                       -- (T)
        if (r := obj.__dict__.get(name)) is not None: rstack.append(r if r is not identity else obj)
        elif obj in ostack: raise Exception('... is caught in a loop')
        else: ostack.add(obj); fstack.append(ostack); f, args = obj.__reduce__()
              fstack.append(recreate(f, len(args))); fstack.extend(args)
    ...
assert not ostack; assert len(rstack) == 1; return rstack[0]
```

Objects are interned (hash-consed), so `is` is structural equality: terms are a plain inductive type with
decidable equality and the memo (`obj.__dict__[name]`) is an association list keyed by terms.  All lists that
model Python stacks have their *top at the head*.  Non-owner containers (tuples, ints in constructor arguments)
are transparent for the driver and are not modelled: every node is an owner instance.

Besides the machine (`step`, `runFrom`, `run`) this file defines its *specification*: the naive recursive,
depth-first innermost rewriting `simp` (children first, rebuild, apply the one-step function, recurse on the
result), with recursion depth as fuel.
-/
namespace NutilsVerif.C01Driver

inductive Term where
  | node (label : Nat) (args : List Term)
  deriving Repr, Inhabited

namespace Term

mutual
  def decEq : (a b : Term) → Decidable (a = b)
    | .node l as, .node m bs =>
      if h : l = m then
        match decEqList as bs with
        | isTrue h' => isTrue (by rw [h, h'])
        | isFalse h' => isFalse (by intro e; cases e; exact h' rfl)
      else isFalse (by intro e; cases e; exact h rfl)
  def decEqList : (as bs : List Term) → Decidable (as = bs)
    | [], [] => isTrue rfl
    | [], _ :: _ => isFalse (by intro e; cases e)
    | _ :: _, [] => isFalse (by intro e; cases e)
    | a :: as, b :: bs =>
      match decEq a b, decEqList as bs with
      | isTrue h, isTrue h' => isTrue (by rw [h, h'])
      | isFalse h, _ => isFalse (by intro e; cases e; exact h rfl)
      | _, isFalse h' => isFalse (by intro e; cases e; exact h' rfl)
end

instance : DecidableEq Term := decEq

def label : Term → Nat
  | .node l _ => l

def args : Term → List Term
  | .node _ as => as

end Term

/-- entries of `fstack`: an unprocessed object, the command token `recreate(f, nargs)` (the constructor `f` is
identified with the label), or the `ostack` marker ("store new representation"). -/
inductive Item where
  | term (t : Term)
  | recreate (label : Nat) (nargs : Nat)
  | store
  deriving Repr

/-- `obj.__dict__[name]` of all objects: `none` is the `identity` marker. -/
abbrev Memo := List (Term × Option Term)

def lookup (t : Term) : Memo → Option (Option Term)
  | [] => none
  | (k, v) :: m => if k = t then some v else lookup t m

structure State where
  fstack : List Item
  rstack : List Term
  ostack : List Term
  memo : Memo
  /-- number of calls of `func` so far (observable from outside, used by the correspondence check) -/
  calls : Nat
  deriving Repr

inductive Outcome where
  /-- normal return of `__get__` -/
  | done (r : Term)
  /-- `raise Exception('<class of x>.<name> is caught in a loop')` -/
  | loop (x : Term)
  | outOfFuel
  /-- `IndexError` from popping an empty stack or one of the two final assertions fails -/
  | stuck
  deriving Repr, DecidableEq

inductive StepResult where
  | next (s : State)
  | halt (o : Outcome)

/-- one iteration of the `while fstack:` loop (or the code after the loop when `fstack` is empty) -/
def step (f : Term → Term) (s : State) : StepResult :=
  match s.fstack with
  | [] =>
    match s.ostack, s.rstack with
    | [], [r] => .halt (.done r)
    | _, _ => .halt .stuck
  | .recreate l n :: fs =>
    if s.rstack.length < n then .halt .stuck else
    let r := Term.node l (s.rstack.take n)
    let rs := s.rstack.drop n
    if f r = r then .next { s with fstack := fs, rstack := r :: rs, calls := s.calls + 1 }
    else .next { s with fstack := .term (f r) :: fs, rstack := rs, calls := s.calls + 1 }
  | .store :: fs =>
    match s.ostack, s.rstack with
    | orig :: os, r :: _ =>
      .next { s with fstack := fs, ostack := os, memo := (orig, if r = orig then none else some r) :: s.memo }
    | _, _ => .halt .stuck
  | .term t :: fs =>
    match lookup t s.memo with
    | some v => .next { s with fstack := fs, rstack := v.getD t :: s.rstack }
    | none =>
      if t ∈ s.ostack then .halt (.loop t) else
      .next { s with fstack := t.args.reverse.map .term ++ .recreate t.label t.args.length :: .store :: fs,
                     ostack := t :: s.ostack }

def init (memo : Memo) (t : Term) : State :=
  { fstack := [.term t], rstack := [], ostack := [], memo := memo, calls := 0 }

/-- run at most `fuel` iterations; returns the outcome together with the last state (whose memo is what stays
behind in the objects' `__dict__`, also after an exception) -/
def runFrom (f : Term → Term) : Nat → State → Outcome × State
  | 0, s => (.outOfFuel, s)
  | n+1, s =>
    match step f s with
    | .next s' => runFrom f n s'
    | .halt o => (o, s)

/-- `obj.<name>` on objects with empty `__dict__` -/
def run (f : Term → Term) (fuel : Nat) (t : Term) : Outcome := (runFrom f fuel (init [] t)).1

/-- `k` iterations without halting -/
def iter (f : Term → Term) : Nat → State → Option State
  | 0, s => some s
  | n+1, s =>
    match step f s with
    | .next s' => iter f n s'
    | .halt _ => none

/-! ## Specification: recursive depth-first rewriting -/

def optMap (g : Term → Option Term) : List Term → Option (List Term)
  | [] => some []
  | a :: as =>
    match g a, optMap g as with
    | some b, some bs => some (b :: bs)
    | _, _ => none

/-- `simp f n t`: simplify the children, rebuild, apply `f`; if `f` rewrote the node, simplify the result.
`n` bounds the recursion depth. -/
def simp (f : Term → Term) : Nat → Term → Option Term
  | 0, _ => none
  | n+1, .node l args =>
    match optMap (simp f n) args with
    | none => none
    | some args' =>
      if f (.node l args') = .node l args' then some (.node l args') else simp f n (f (.node l args'))

/-! ## A small rule language for one-step functions (used by the driver and the examples) -/

inductive Action where
  /-- rewrite to the `i`-th child (no rewrite if absent) -/
  | arg (i : Nat)
  | relabel (l : Nat)
  /-- `t ↦ node l [t]` -/
  | wrap (l : Nat)
  /-- reverse the children -/
  | swap
  /-- drop the first child -/
  | dropFirst
  | const (t : Term)
  deriving Repr

def Action.apply (t : Term) : Action → Term
  | .arg i => (t.args[i]?).getD t
  | .relabel l => .node l t.args
  | .wrap l => .node l [t]
  | .swap => .node t.label t.args.reverse
  | .dropFirst => .node t.label t.args.tail
  | .const c => c

def lookupExact (t : Term) : List (Term × Term) → Option Term
  | [] => none
  | (k, v) :: m => if k = t then some v else lookupExact t m

def lookupRule (l : Nat) : List (Nat × Action) → Option Action
  | [] => none
  | (k, a) :: m => if k = l then some a else lookupRule l m

/-- table-driven one-step function: exact entries first, then the first rule for the root label -/
def applyRules (exact : List (Term × Term)) (rules : List (Nat × Action)) (t : Term) : Term :=
  match lookupExact t exact with
  | some r => r
  | none =>
    match lookupRule t.label rules with
    | some a => a.apply t
    | none => t

end NutilsVerif.C01Driver
