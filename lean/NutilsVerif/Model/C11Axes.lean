import NutilsVerif.Model.C11
/-!
# C11 — how `StructuredTopology` derives axes: `transformseq.DimAxis.{refined, getitem, boundaries, intaxis}`

`StructuredTopology.interfaces` builds, per dimension, the two `StructuredTransforms` of the interface topology from
`axis.intaxis(nbounds, side=True)` (transforms) and `axis.intaxis(nbounds, side=False)` (opposites); slicing replaces the axis by
`axis.getitem(slice)`, refinement by `axis.refined`, the boundary uses `axis.boundaries(nbounds)`.  The functions below mirror the
source line by line (Python `True`/`False` used as the integers 1/0).
-/
namespace NutilsVerif.C11

/-- `transformseq.DimAxis(i, j, mod, isperiodic)` -/
structure DimAx where
  i : Int
  j : Int
  mod : Int
  isperiodic : Bool
deriving DecidableEq, Repr

def b2i (b : Bool) : Int := if b then 1 else 0

/-- the element axis as `StructuredTransforms` sees it -/
def DimAx.toAxis (d : DimAx) : Axis := { i := d.i, j := d.j, mod := d.mod, isdim := true, ibound := 0, side := false }

def DimAx.len (d : DimAx) : Nat := d.toAxis.len

/-- `DimAxis.refined` -/
def DimAx.refined (d : DimAx) : DimAx := { i := d.i * 2, j := d.j * 2, mod := d.mod * 2, isperiodic := d.isperiodic }

/-- `DimAxis.getitem(s)` for a slice that is not `slice(None)`, after `s.indices(j - i)`: `DimAxis(i+start, i+stop, mod=mod, isperiodic=False)` -/
def DimAx.getitem (d : DimAx) (start stop : Nat) : DimAx :=
  { i := d.i + start, j := d.i + stop, mod := d.mod, isperiodic := false }

/-- `DimAxis.intaxis(ibound, side)`: `IntAxis(i-side+1-isperiodic, j-side, mod, ibound, side)` -/
def DimAx.intaxis (d : DimAx) (ibound : Nat) (side : Bool) : Axis :=
  { i := d.i - b2i side + 1 - b2i d.isperiodic, j := d.j - b2i side, mod := d.mod, isdim := false, ibound := ibound, side := side }

/-- `DimAxis.boundaries(ibound)` -/
def DimAx.boundaries (d : DimAx) (ibound : Nat) : List Axis :=
  if d.isperiodic then []
  else [{ i := d.i, j := d.i + 1, mod := d.mod, isdim := false, ibound := ibound, side := false },
        { i := d.j - 1, j := d.j, mod := d.mod, isdim := false, ibound := ibound, side := true }]

/-- `IntAxis.opposite(ibound)` -/
def Axis.intOpposite (a : Axis) (ibound : Nat) : Axis :=
  if ibound = a.ibound then { a with i := a.i + 2 * b2i a.side - 1, j := a.j + 2 * b2i a.side - 1, side := !a.side } else a

end NutilsVerif.C11
