import Lean.Data.Json
import NutilsVerif.Model.Expr
/-!
JSON front end of the specification-level evaluator, shared by the drivers of all expression-level
properties.  See `Drivers/Expr.lean` for the request format.
-/
open Lean
namespace NutilsVerif.Expr


def parseRat (s : String) : Option Rat :=
  match s.splitOn "/" with
  | [a] => a.toInt?.map fun z => (z : Rat)
  | [a, b] => do let n ← a.toInt?; let d ← b.toNat?; if d == 0 then none else some ((n : Rat) / (d : Rat))
  | _ => none

partial def toArg (j : Json) : Except String Arg :=
  match j with
  | .null => pure .none
  | .bool b => pure (.bool b)
  | .num n => if n.exponent == 0 then pure (.int n.mantissa) else throw "non-integer number"
  | .str s => pure (.str s)
  | .arr a => do pure (.list (← a.toList.mapM toArg))
  | .obj _ =>
    match j.getObjVal? "r" with
    | .ok (.num n) => pure (.ref n.mantissa.toNat)
    | _ =>
    match j.getObjVal? "ms" with
    | .ok (.arr a) => do pure (.ms (← a.toList.mapM toArg))
    | _ =>
    match j.getObjVal? "t" with
    | .ok (.str s) => pure (.dtype s)
    | _ =>
    match j.getObjVal? "loop" with
    | .ok (.str s) => pure (.loop s)
    | _ =>
    match j.getObjVal? "o" with
    | .ok (.str s) => pure (.opaque s)
    | _ =>
    match j.getObjVal? "a" with
    | .ok a => do
      let dt ← a.getObjValAs? String "dtype"
      let sh ← a.getObjValAs? (List Nat) "shape"
      let data ← a.getObjValAs? (List String) "data"
      let vals ← data.mapM fun s => match parseRat s with | some q => pure q | none => throw s!"bad rational {s}"
      pure (.data dt sh vals)
    | _ => throw "unknown arg object"

def toNode (j : Json) : Except String Node :=
  match j with
  | .arr a =>
    match a.toList with
    | .str cls :: args => do pure ⟨cls, ← args.mapM toArg⟩
    | _ => throw "bad node"
  | _ => throw "bad node"

def toArgTensor (name : String) (j : Json) : Except String T := do
  let sh ← j.getObjValAs? (List Nat) "shape"
  match j.getObjVal? "data" with
  | .ok d => do
    let data ← (fromJson? d : Except String (List String))
    let vals ← data.mapM fun s => match parseRat s with | some q => pure (Poly.ofRat q) | none => throw s!"bad rational {s}"
    if vals.length != shapeSize sh then throw "argument data length ≠ shape size"
    pure ⟨sh, vals.toArray⟩
  | .error _ =>
    pure (Tensor.ofFn sh fun idx => Poly.atom (name ++ "[" ++ ",".intercalate (idx.map toString) ++ "]"))

def resultJson : M T → Json
  | .ok t => Json.mkObj [("shape", toJson t.shape), ("data", toJson (t.data.toList.map Poly.key))]
  | .error (.unsupported w) => Json.mkObj [("error", "unsupported"), ("what", w)]
  | .error (.undefined w) => Json.mkObj [("error", "undefined"), ("what", w)]
  | .error (.illformed w) => Json.mkObj [("error", "illformed"), ("what", w)]


structure Request where
  env : Env
  roots : List Nat
  results : List (M T)
  json : Json

def parseRequest (line : String) : Except String Request := do
  let j ← Json.parse line
  let nodesJ ← j.getObjValAs? (Array Json) "nodes"
  let nodes ← nodesJ.toList.mapM toNode
  let roots ← j.getObjValAs? (List Nat) "roots"
  let argsJ ← j.getObjVal? "args"
  let args ← match argsJ with
    | .obj kvs => kvs.toList.mapM fun (k, v) => do pure (k, ← toArgTensor k v)
    | _ => throw "args must be an object"
  let env : Env := { nodes := nodes.toArray, args := args }
  pure { env := env, roots := roots, results := roots.map fun id => evalRef env id, json := j }

end NutilsVerif.Expr
