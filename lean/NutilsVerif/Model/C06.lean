import NutilsVerif.Core.Proto
/-!
# C06 — static array metadata is sound  (model; no Mathlib)

Part 1 mirrors the integer-range inference of `nutils.evaluable`: the `_intbounds` property
(post-validation of what `_intbounds_impl` returns) and one *transfer function* per class that
defines `_intbounds_impl`.  Range endpoints are Python numbers: `int`, `float('-inf')`,
`float('inf')` and — as a trap — `float('nan')` (`0 * inf`, `inf - inf`).  `PyNum` reproduces
Python's semantics of exactly those operations the code applies to endpoints: `*`, `+`, `-`,
unary `-`, `abs`, `<`/`<=`/`==`, truthiness (`b1 and b2 and b1 * b2`), the builtin `min`/`max`
(which are order dependent in the presence of `nan`), `isinstance(_, int)` and `//` on ints.

Part 2 gives the concrete integer semantics of the operations (Python floor division and modulo,
`numeric.normdim`, `InRange.evalf`, `poly.degree`/`poly.ncoeffs`, …), part 3 a small integer
expression language (constants, arguments with declared ranges, loop indices, all modelled
operations) with its evaluator, inferred ranges, announced lengths and announced arguments, and
part 4 the rewrites that *consume* ranges (`InRange/Mod/Minimum/Maximum/NormDim._simplified`, …).
-/
namespace NutilsVerif.C06

/-! ## Part 1a: Python numbers as used for range endpoints -/

/-- `abs` on Python ints -/
def iabs (z : Int) : Int := if z < 0 then -z else z

/-- `numpy.sign` on integers -/
def isign (z : Int) : Int := if 0 < z then 1 else if z < 0 then -1 else 0

inductive PyNum where
  | int (z : Int)
  | ninf
  | pinf
  | nan
deriving DecidableEq, Repr, Inhabited

namespace PyNum

/-- `bool(x)`: only the integer zero is falsy (`nan` and the infinities are truthy) -/
def truthy : PyNum → Bool
  | int z => z != 0
  | _ => true

/-- `isinstance(x, int)` -/
def isInt : PyNum → Bool
  | int _ => true
  | _ => false

def neg : PyNum → PyNum
  | int z => int (-z)
  | ninf => pinf
  | pinf => ninf
  | nan => nan

def add : PyNum → PyNum → PyNum
  | int a, int b => int (a + b)
  | nan, _ => nan
  | _, nan => nan
  | pinf, ninf => nan
  | ninf, pinf => nan
  | pinf, _ => pinf
  | _, pinf => pinf
  | ninf, _ => ninf
  | _, ninf => ninf

/-- `a - b` (IEEE: `inf - inf = nan`) -/
def sub (a b : PyNum) : PyNum := add a (neg b)

/-- sign of an infinity times a finite or infinite factor; `0 * inf = nan` -/
def mul : PyNum → PyNum → PyNum
  | int a, int b => int (a * b)
  | nan, _ => nan
  | _, nan => nan
  | int a, pinf => if a > 0 then pinf else if a < 0 then ninf else nan
  | int a, ninf => if a > 0 then ninf else if a < 0 then pinf else nan
  | pinf, int b => if b > 0 then pinf else if b < 0 then ninf else nan
  | ninf, int b => if b > 0 then ninf else if b < 0 then pinf else nan
  | pinf, pinf => pinf
  | ninf, ninf => pinf
  | pinf, ninf => ninf
  | ninf, pinf => ninf

def abs : PyNum → PyNum
  | int z => int (iabs z)
  | ninf => pinf
  | pinf => pinf
  | nan => nan

/-- `a < b` (every comparison with `nan` is `False`) -/
def lt : PyNum → PyNum → Bool
  | int a, int b => decide (a < b)
  | nan, _ => false
  | _, nan => false
  | ninf, ninf => false
  | ninf, _ => true
  | _, ninf => false
  | pinf, _ => false
  | _, pinf => true

/-- `a == b` -/
def eq : PyNum → PyNum → Bool
  | int a, int b => decide (a = b)
  | ninf, ninf => true
  | pinf, pinf => true
  | _, _ => false

/-- `a <= b` -/
def le (a b : PyNum) : Bool := lt a b || eq a b

/-- builtin `min(a, b)`: the first argument unless the second is strictly smaller -/
def min2 (a b : PyNum) : PyNum := if lt b a then b else a

/-- builtin `max(a, b)`: the first argument unless the second is strictly larger -/
def max2 (a b : PyNum) : PyNum := if lt a b then b else a

/-- builtin `min(list)` (left fold; an empty list raises, modelled as `nan` which no validation accepts) -/
def minL : List PyNum → PyNum
  | [] => nan
  | a :: t => t.foldl min2 a

def maxL : List PyNum → PyNum
  | [] => nan
  | a :: t => t.foldl max2 a

/-- `b1 and b2 and b1 * b2`: a falsy (zero) factor is returned as is, which prevents `0 * inf` -/
def andMul (b1 b2 : PyNum) : PyNum :=
  if !b1.truthy then b1 else if !b2.truthy then b2 else mul b1 b2

/-- `int(numpy.sign(x))` (raises for `nan`) -/
def sign : PyNum → Option PyNum
  | int z => some (int (isign z))
  | ninf => some (int (-1))
  | pinf => some (int 1)
  | nan => none

end PyNum

open PyNum

/-- an inclusive range `(lower, upper)` as returned by `_intbounds_impl` -/
abbrev Rng := PyNum × PyNum

/-- `Array._intbounds`: the three assertions that post-process `_intbounds_impl` (`none` = AssertionError) -/
def post (r : Rng) : Option Rng :=
  if (r.1.isInt || PyNum.eq r.1 ninf) && (r.2.isInt || PyNum.eq r.2 pinf) && PyNum.le r.1 r.2 then some r else none

/-- what every `_intbounds` satisfies -/
def Valid (r : Rng) : Prop := post r = some r

/-- `lower <= v <= upper` for a concrete integer value -/
def Mem (v : Int) (r : Rng) : Prop := PyNum.le r.1 (int v) = true ∧ PyNum.le (int v) r.2 = true

instance (v : Int) (r : Rng) : Decidable (Mem v r) := by unfold Mem; exact inferInstance
instance (r : Rng) : Decidable (Valid r) := by unfold Valid; exact inferInstance

def unbounded : Rng := (ninf, pinf)

/-- element-wise membership of a list of values in a list of ranges -/
inductive MemAll : List Int → List Rng → Prop
  | nil : MemAll [] []
  | cons {x : Int} {r : Rng} {xs : List Int} {rs : List Rng} : Mem x r → MemAll xs rs → MemAll (x :: xs) (r :: rs)

/-! ## Part 1b: transfer functions, one per `_intbounds_impl`
`none` = the implementation raises (always an AssertionError or a swallowed exception, see each function). -/

/-- `Array._intbounds_impl` for a 0-d constant integer array whose value is `v` (`some v`), else unbounded -/
def tfDefault (constScalar : Option Int) : Option Rng :=
  match constScalar with
  | some v => some (int v, int v)
  | none => some unbounded

/-- `Constant`: `(value.min(), value.max())` if the array is non-empty, else the default (non-empty ⇒ not 0-d ⇒ unbounded) -/
def tfConstant (vals : List Int) : Option Rng :=
  match vals with
  | [] => some unbounded
  | a :: t => some (int (t.foldl min a), int (t.foldl max a))

/-- `InsertAxis, Transpose, TakeDiag, Take, _TakeSlice, _Get, Unravel, Ravel, LoopConcatenate`, `Cast` of an int -/
def tfIdentity (r : Rng) : Option Rng := some r

/-- `AssertEqual`: `max(lowera, lowerb), min(uppera, upperb)` -/
def tfAssertEqual (a b : Rng) : Option Rng := some (max2 a.1 b.1, min2 a.2 b.2)

/-- `extrema = [b1 and b2 and b1 * b2 for b1 in r1 for b2 in r2]; min(extrema), max(extrema)` -/
def mulRng (r1 r2 : Rng) : Rng :=
  let extrema := [andMul r1.1 r2.1, andMul r1.1 r2.2, andMul r1.2 r2.1, andMul r1.2 r2.2]
  (minL extrema, maxL extrema)

/-- `Multiply`: the four guarded corner products -/
def tfMul (r1 r2 : Rng) : Option Rng := some (mulRng r1 r2)

/-- `builtins.sum(xs)`: left fold starting from the integer 0 -/
def pySum (xs : List PyNum) : PyNum := xs.foldl add (int 0)

/-- `Add`: sums of the lowers and of the uppers of all (flattened) terms -/
def tfAdd (terms : List Rng) : Option Rng :=
  some (pySum (terms.map (·.1)), pySum (terms.map (·.2)))

/-- `util.product(xs, 1)` -/
def pyProd (xs : List PyNum) : PyNum := xs.foldl mul (int 1)

/-- `Einsum` (after the fix of finding `intbounds-unsound:Einsum`): the number of terms lies between the
products of the lower and of the upper bounds of the summed lengths; then one interval product per operand -/
def tfEinsum (sumLengths : List Rng) (args : List Rng) : Option Rng :=
  if sumLengths.any (fun l => PyNum.eq l.2 (int 0)) then some (int 0, int 0) else
  let upper := pyProd (sumLengths.map (·.2))
  let lower := if sumLengths.any (fun l => PyNum.le l.1 (int 0)) then int 0 else pyProd (sumLengths.map (·.1))
  some (args.foldl mulRng (lower, upper))

/-- `Einsum` as in the pinned tree before the fix (kept for the refutation theorem) -/
def tfEinsumOld (sumUppers : List PyNum) (args : List Rng) : Option Rng :=
  if sumUppers.any (fun l => PyNum.eq l (int 0)) then some (int 0, int 0) else
  let p := pyProd sumUppers
  some (args.foldl mulRng (p, p))

/-- `Sum` over the last axis whose length has range `len` -/
def tfSum (f len : Rng) : Option Rng :=
  if PyNum.eq len.2 (int 0) then some (int 0, int 0)
  else if PyNum.eq len.1 (int 0) then some (min2 (int 0) (mul f.1 len.2), max2 (int 0) (mul f.2 len.2))
  else some (min2 (mul f.1 len.1) (mul f.1 len.2), max2 (mul f.2 len.1) (mul f.2 len.2))

def tfNeg (r : Rng) : Option Rng := some (neg r.2, neg r.1)

/-- `lower //= d` is only executed when `isinstance(lower, int)`; the divisor expression is an `int` as well -/
def floordivIf (x : PyNum) (d : PyNum) : Option PyNum :=
  match x, d with
  | int a, int b => if b = 0 then none else some (int (Int.fdiv a b))
  | int _, _ => none  -- would produce a float: never happens (see `tfFloorDiv_int`)
  | x, _ => some x

/-- `if isinstance(lower, int): lower //= divisor_lower if lower <= 0 else min(lower + 1, divisor_upper)` -/
def fdLower (lower dl du : PyNum) : Option PyNum :=
  if lower.isInt then floordivIf lower (if PyNum.le lower (int 0) then dl else min2 (add lower (int 1)) du) else some lower

/-- `if isinstance(upper, int): upper //= divisor_lower if upper >= 0 else min(1 - upper, divisor_upper)` -/
def fdUpper (upper dl du : PyNum) : Option PyNum :=
  if upper.isInt then floordivIf upper (if PyNum.le (int 0) upper then dl else min2 (sub (int 1) upper) du) else some upper

/-- the part of `FloorDivide._intbounds_impl` after the divisor has been made positive -/
def fdivGo (lower upper dl du : PyNum) : Option Rng :=
  match fdLower lower dl du, fdUpper upper dl du with
  | some l, some u => some (l, u)
  | _, _ => none

def tfFloorDiv (dividend divisor : Rng) : Option Rng :=
  if PyNum.lt divisor.2 (int 0) then fdivGo (neg dividend.2) (neg dividend.1) (neg divisor.2) (neg divisor.1)
  else if PyNum.le divisor.1 (int 0) then some unbounded
  else fdivGo dividend.1 dividend.2 divisor.1 divisor.2

def tfAbs (r : Rng) : Option Rng :=
  let e1 := PyNum.abs r.1
  let e2 := PyNum.abs r.2
  if PyNum.le r.1 (int 0) && PyNum.le (int 0) r.2 then some (int 0, max2 e1 e2) else some (min2 e1 e2, max2 e1 e2)

/-- `Mod`; `constScalar` feeds the fall-back to `Array._intbounds_impl` -/
def tfMod (dividend divisor : Rng) (constScalar : Option Int) : Option Rng :=
  if PyNum.lt (int 0) divisor.1 then
    if PyNum.le (int 0) dividend.1 && PyNum.lt dividend.2 divisor.1 then some dividend
    else some (int 0, sub divisor.2 (int 1))
  else tfDefault constScalar

def tfMin (x y : Rng) : Option Rng := some (min2 x.1 y.1, min2 x.2 y.2)
def tfMax (x y : Rng) : Option Rng := some (max2 x.1 y.1, max2 x.2 y.2)

/-- `Cast` (`BoolToInt`) of a boolean array -/
def tfBoolToInt : Option Rng := some (int 0, int 1)

def tfSign (r : Rng) : Option Rng := do
  let l ← PyNum.sign r.1
  let u ← PyNum.sign r.2
  some (l, u)

def tfZeros : Option Rng := some (int 0, int 0)

/-- how `Inflate._intbounds_impl` (after the fix of `intbounds-unsound:Inflate`) determines the number of
entries that can be added into one dof -/
inductive DofKind where
  | scalar                          -- `dofmap.ndim == 0`
  | const (maxcount : Nat)          -- constant dofmap: largest number of equal entries (0 if empty)
  | shape (uppers : List PyNum)     -- otherwise: upper bounds of `dofmap.shape`
deriving Repr

def inflateMult : DofKind → PyNum
  | .scalar => int 1
  | .const c => int c
  | .shape us => us.foldl andMul (int 1)

def tfInflate (f : Rng) (k : DofKind) : Option Rng :=
  let m := inflateMult k
  some (min2 (andMul f.1 m) (int 0), max2 (andMul f.2 m) (int 0))

/-- `Inflate` as in the pinned tree before the fix -/
def tfInflateOld (f : Rng) : Option Rng := some (min2 f.1 (int 0), max2 f.2 (int 0))

/-- `Find`, `ArgSort`, `_LoopIndex`: `0, max(0, upper_length - 1)` -/
def tfIndexBelow (len : Rng) : Option Rng := some (int 0, max2 (int 0) (sub len.2 (int 1)))

/-- `Range`: additionally `assert lower >= 0` -/
def tfRange (len : Rng) : Option Rng :=
  if PyNum.le (int 0) len.1 then some (int 0, max2 (int 0) (sub len.2 (int 1))) else none

def tfRavelIndex (ia ib nb : Rng) : Option Rng :=
  some (add (mul ia.1 nb.1) ib.1, add (andMul ia.2 nb.2) ib.2)

def tfInRange (index length : Rng) : Option Rng :=
  let upper := min2 index.2 (max2 (int 0) (sub length.2 (int 1)))
  some (max2 (int 0) (min2 index.1 upper), upper)

def tfNormDim (length index : Rng) : Option Rng :=
  if PyNum.le (int 0) index.1 then some (min2 index.1 (sub length.2 (int 1)), min2 index.2 (sub length.2 (int 1)))
  else if PyNum.lt index.2 (int 0) && length.1.isInt && PyNum.eq length.1 length.2 then
    some (max2 (add index.1 length.1) (int 0), max2 (add index.2 length.1) (int 0))
  else some (int 0, sub length.2 (int 1))

/-- number of coefficients of a polynomial of degree `d` in `nv` variables, `C(d+nv, nv)` (`poly.ncoeffs`) -/
def ncoeffs : Nat → Nat → Nat
  | 0, _ => 1
  | _+1, 0 => 1
  | nv+1, d+1 => ncoeffs (nv+1) d + ncoeffs nv (d+1)

/-- `poly.degree(nvars, ncoeffs)`: the inverse of `ncoeffs`, raising when there is none -/
def degree? (nv : Nat) (n : Int) : Option Nat :=
  if n ≤ 0 then none else (List.range n.toNat).find? (fun d => ncoeffs nv d == n.toNat)

def tfPolyDegree (nv : Nat) (r : Rng) : Option Rng :=
  let lower := match r.1 with
    | int z => (match degree? nv z with | some d => int d | none => int 0)
    | _ => int 0
  let upper := match r.2 with
    | int z => (match degree? nv z with | some d => int d | none => pinf)
    | _ => pinf
  some (lower, upper)

def tfPolyNCoeffs (nv : Nat) (r : Rng) : Option Rng :=
  let lower := match r.1 with
    | int z => if 0 ≤ z then int (ncoeffs nv z.toNat) else int 0
    | _ => int 0
  let upper := match r.2 with
    | int z => if 0 ≤ z then int (ncoeffs nv z.toNat) else pinf
    | _ => pinf
  some (lower, upper)

/-- `TransformIndex`: `0, len(target) - 1` -/
def tfTransformIndex (ntarget : Nat) : Option Rng := some (int 0, int ((ntarget : Int) - 1))

/-- `_SizesToOffsets`: `n` = upper bound of the number of sizes, `m` = upper bound of the sizes -/
def tfSizesToOffsets (sizes len : Rng) : Option Rng :=
  let n := len.2
  let m := sizes.2
  some (int 0, if PyNum.eq n (int 0) || PyNum.eq m (int 0) then int 0 else mul n m)

/-- `SearchSorted`: `0, array.shape[0]._intbounds[1]` -/
def tfSearchSorted (len : Rng) : Option Rng := some (int 0, len.2)

/-- every transfer function followed by the validation of `_intbounds` -/
def bnd (raw : Option Rng) : Option Rng := raw.bind post


/-! ## Part 2: concrete integer semantics of the operations (what evaluation delivers) -/

/-- Python / NumPy `//` on integers (floor division); a zero divisor is outside the modelled domain -/
def pyFloorDiv (a b : Int) : Option Int := if b = 0 then none else some (Int.fdiv a b)

/-- Python / NumPy `%` on integers (sign of the divisor) -/
def pyMod (a b : Int) : Option Int := if b = 0 then none else some (Int.fmod a b)

/-- `InRange.evalf`: `assert 0 <= index < length; return index` -/
def inRangeVal (index length : Int) : Option Int := if 0 ≤ index ∧ index < length then some index else none

/-- `numeric.normdim(length, index)` -/
def normdimVal (length index : Int) : Option Int :=
  if length < 0 then none
  else if index < 0 then (if index + length < 0 then none else some (index + length))
  else if index ≥ length then none else some index

/-- `RavelIndex.evalf`: `ia * nb + ib` -/
def ravelIndexVal (ia ib nb : Int) : Int := ia * nb + ib

/-- `PolyDegree` evaluation -/
def polyDegreeVal (nv : Nat) (n : Int) : Option Int := (degree? nv n).map (fun d => (d : Int))

/-- `PolyNCoeffs` evaluation (a negative degree raises) -/
def polyNCoeffsVal (nv : Nat) (d : Int) : Option Int := if 0 ≤ d then some (ncoeffs nv d.toNat : Int) else none

/-- `_SizesToOffsets` evaluation: `numpy.cumsum([0, *sizes])` -/
def offsetsVal (sizes : List Int) : List Int := (List.range (sizes.length + 1)).map fun k => (sizes.take k).sum

end NutilsVerif.C06
