import NutilsVerif.Model.C14
/-!
# C14 — the sub-block cache of `Matrix.submatrix` and solve *histories* on one Matrix object

`Matrix.submatrix(rows, cols)` remembers the last extracted block together with the two masks it was built from
(`_cached_rows`, `_cached_cols`, `_cached_submatrix`) and hands it out again when *both* masks compare equal.
`Matrix.solve` obtains its reduced system through it, so the answer of a solve may depend on what was asked of the
same object before.  This file mirrors the cache (`submatrixM`) and `Matrix.solve` on top of it (`solveCached`,
`solveHist`); `Props/C14.lean` proves that a history never changes an answer.
-/
namespace NutilsVerif.C14

/-- `_cached_rows`, `_cached_cols`, `_cached_submatrix` (the whole state is `Option SubCache`, `none` = nothing cached) -/
structure SubCache where
  rows : List Bool
  cols : List Bool
  sub : Mat
deriving Repr

/-- how a request was served: the object itself, the remembered block, or a fresh extraction (`_submatrix` called) -/
inductive SubHow where
  | self | hit | miss
deriving Repr, DecidableEq

def allTrue (m : List Bool) : Bool := m.all id

/-- `Matrix.submatrix(rows, cols)` for boolean masks: new cache state, how it was served, the matrix handed out -/
def submatrixM (A : Mat) (st : Option SubCache) (rows cols : List Bool) : Option SubCache × SubHow × Mat :=
  if allTrue rows && allTrue cols then (st, .self, A)
  else
    match st with
    | some c =>
      if rows != c.rows || cols != c.cols then
        (some ⟨rows, cols, subMat rows cols A⟩, .miss, subMat rows cols A)
      else (st, .hit, c.sub)
    | none => (some ⟨rows, cols, subMat rows cols A⟩, .miss, subMat rows cols A)

/-- the cache only ever holds what a fresh extraction would give -/
def SubCache.valid (A : Mat) : Option SubCache → Prop
  | none => True
  | some c => c.sub = subMat c.rows c.cols A

/-- `Matrix.solve` with the block obtained from `blk I J` (the real code: `self.submatrix(I, J)`) -/
def solveB (nrm : Vec → F) (s : SolveIn) (blk : List Bool → List Bool → Mat) : Except MErr Vec :=
  match s.rhs, s.lhs0, s.cons, s.rcons with
  | some b, none, none, none => solverM nrm s.A s.ncols b s.atol s.rtol s.sol
  | none, none, none, none => if s.nrows ≠ s.ncols then .error .notSquare else .error .attribute
  | _, _, _, _ =>
    let rhs := s.rhs.getD (zeros s.nrows)
    match prepCols s.ncols s.lhs0 s.cons with
    | .error e => .error e
    | .ok (lhs, J) =>
      match prepRows s.nrows s.ncols J s.cons s.rcons with
      | .error e => .error e
      | .ok I =>
        if rhs.length ≠ s.nrows then .error .broadcast
        else
          match solverM nrm (blk I J) (count J) (sel I (vsub rhs (matVec s.A lhs))) s.atol s.rtol s.sol with
          | .ok y => .ok (scatterAdd J y lhs)
          | .error (.tolNotReached y) => .error (.tolNotReached (scatterAdd J y lhs))
          | .error e => .error e

/-- the masks `(I, J)` a solve hands to `submatrix`; `none`: the unconstrained fast path or an error before the call -/
def solveSel (s : SolveIn) : Option (List Bool × List Bool) :=
  match s.lhs0, s.cons, s.rcons with
  | none, none, none => none
  | _, _, _ =>
    match prepCols s.ncols s.lhs0 s.cons with
    | .error _ => none
    | .ok (_, J) =>
      match prepRows s.nrows s.ncols J s.cons s.rcons with
      | .error _ => none
      | .ok I => some (I, J)

/-- one `Matrix.solve` on an object whose cache is `st`: the new cache and the outcome -/
def solveCached (nrm : Vec → F) (st : Option SubCache) (s : SolveIn) : Option SubCache × Except MErr Vec :=
  (match solveSel s with
   | some (I, J) => (submatrixM s.A st I J).1
   | none => st,
   solveB nrm s (fun I J => (submatrixM s.A st I J).2.2))

/-- a history of solves on ONE Matrix object `A` (every request carries the same `A`) -/
def solveHist (nrm : Vec → F) : Option SubCache → List SolveIn → List (Except MErr Vec)
  | _, [] => []
  | st, s :: rest => (solveCached nrm st s).2 :: solveHist nrm (solveCached nrm st s).1 rest

/-- a history of direct `submatrix` requests -/
def submatrixHist (A : Mat) : Option SubCache → List (List Bool × List Bool) → List (SubHow × Mat)
  | _, [] => []
  | st, (r, c) :: rest => (submatrixM A st r c).2 :: submatrixHist A (submatrixM A st r c).1 rest

/-- `A` is an `nrows × ncols` table -/
def HasShape (A : Mat) (nrows ncols : Nat) : Prop := A.length = nrows ∧ ∀ row ∈ A, row.length = ncols

end NutilsVerif.C14
