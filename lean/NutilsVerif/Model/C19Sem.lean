import NutilsVerif.Model.C19
/-!
# C19 — what the backend operations mean: tensors over an abstract scalar algebra  (no Mathlib)

`evalOps` gives every operation tree the meaning `_FunctionArrayOps` promises in NumPy terms:
`trace` sums the diagonal of two axes and removes them, `multiply` is the outer product with the axes of the
later factors appended, `get_element` selects, `transpose` permutes, `add` / `divide` / `power` act entry-wise
(denominator and exponent are scalars).  Functions, jump and mean are uninterpreted tensor operators.
The index-notation *reading* of a labelled tensor is `Tensor.at`: its entry under an assignment of numbers to
index letters; `sumOver` is the explicit sum over assignments of a list of (letter, length) pairs.
-/
namespace NutilsVerif.C19

/-- the scalar operations (no laws are needed for the theorems about `_trace`) -/
structure Alg (α : Type) where
  zero : α
  add : α → α → α
  neg : α → α
  mul : α → α → α
  div : α → α → α
  pow : α → α → α
  ofInt : Int → α
  ofFloat : Nat → Int → α

structure Tensor (α : Type) where
  shape : List Nat
  get : List Nat → α

structure Env (α : Type) where
  alg : Alg α
  var : Name → Tensor α
  fn : Name → Tensor α → Tensor α
  mean : Tensor α → Tensor α
  jump : Tensor α → Tensor α

/-- `Σ_{k<n} f k` -/
def sumRange {α : Type} (A : Alg α) (n : Nat) (f : Nat → α) : α :=
  (List.range n).foldr (fun k acc => A.add (f k) acc) A.zero

/-- the multi-index of the operand of `trace(·, i, j)` (i < j) that has `k` on both traced axes -/
def insert2 (idx : List Nat) (i j k : Nat) : List Nat := (idx.insertIdx i k).insertIdx j k

/-- outer product: the multi-index is cut into consecutive pieces, one per factor -/
def mulGet {α : Type} (A : Alg α) : List (Tensor α) → List Nat → α
  | [], _ => A.ofInt 1
  | [t], idx => t.get idx
  | t :: ts, idx => A.mul (t.get (idx.take t.shape.length)) (mulGet A ts (idx.drop t.shape.length))

def addGet {α : Type} (A : Alg α) : List Bool → List (Tensor α) → List Nat → α
  | n :: ns, t :: ts, idx =>
    (List.zip ns ts).foldl (fun acc p => A.add acc (if p.1 then A.neg (p.2.get idx) else p.2.get idx))
      (if n then A.neg (t.get idx) else t.get idx)
  | _, _, _ => A.zero

def evalOps {α : Type} (E : Env α) : Ops → Tensor α
  | .int v => ⟨[], fun _ => E.alg.ofInt v⟩
  | .float m e => ⟨[], fun _ => E.alg.ofFloat m e⟩
  | .var n => E.var n
  | .call n _ a => E.fn n (evalOps E a)
  | .getElement a axis k =>
    let t := evalOps E a
    ⟨t.shape.eraseIdx axis, fun idx => t.get (idx.insertIdx axis k)⟩
  | .transpose a axes =>
    let t := evalOps E a
    ⟨axes.map (t.shape.getD · 0), fun idx => t.get ((List.range axes.length).map fun p => idx.getD (axes.idxOf p) 0)⟩
  | .trace a i j =>
    let t := evalOps E a
    ⟨(t.shape.eraseIdx j).eraseIdx i, fun idx => sumRange E.alg (t.shape.getD i 0) fun k => t.get (insert2 idx i j k)⟩
  | .scope a => evalOps E a
  | .mean a => E.mean (evalOps E a)
  | .jump a => E.jump (evalOps E a)
  | .add negs args =>
    let ts := args.map (evalOps E)
    ⟨(ts.head?.map (·.shape)).getD [], addGet E.alg negs ts⟩
  | .mul args =>
    let ts := args.map (evalOps E)
    ⟨(ts.map (·.shape)).flatten, mulGet E.alg ts⟩
  | .div n d =>
    let tn := evalOps E n
    let td := evalOps E d
    ⟨tn.shape, fun idx => E.alg.div (tn.get idx) (td.get [])⟩
  | .pow b e =>
    let tb := evalOps E b
    let te := evalOps E e
    ⟨tb.shape, fun idx => E.alg.pow (tb.get idx) (te.get [])⟩

/-- the entry of a tensor whose axes are labelled `L`, under the assignment `σ` of numbers to index letters -/
def Tensor.at {α : Type} (t : Tensor α) (L : List Char) (σ : Char → Nat) : α := t.get (L.map σ)

def update (σ : Char → Nat) (c : Char) (k : Nat) : Char → Nat := fun d => if d = c then k else σ d

/-- explicit summation over all assignments of the listed (index, length) pairs; the first pair is the innermost sum -/
def sumOver {α : Type} (A : Alg α) : List (Char × Nat) → (Char → Nat) → ((Char → Nat) → α) → α
  | [], σ, f => f σ
  | (c, n) :: ps, σ, f => sumOver A ps σ fun σ' => sumRange A n fun k => f (update σ' c k)

/-- the (index, length) pairs `_trace` sums, in the order the loop meets the second occurrences -/
def tracePairs (kI : List Char) (kS : List Nat) : List Char → List Nat → List (Char × Nat)
  | [], _ => []
  | c :: rI, rS =>
    if kI.idxOf c < kI.length then
      (c, kS.getD (kI.idxOf c) 0) :: tracePairs (kI.eraseIdx (kI.idxOf c)) (kS.eraseIdx (kI.idxOf c)) rI rS.tail
    else tracePairs (kI ++ [c]) (kS ++ [rS.headD 0]) rI rS.tail

/-- the product of the entries of labelled tensors under an assignment (same association as `mulGet`) -/
def prodAt {α : Type} (A : Alg α) : List (Tensor α × List Char) → (Char → Nat) → α
  | [], _ => A.ofInt 1
  | [p], σ => p.1.at p.2 σ
  | p :: ps, σ => A.mul (p.1.at p.2 σ) (prodAt A ps σ)

end NutilsVerif.C19
