import NutilsVerif.Core.Proto
/-!
# C15 — matrix assembly from CSR / COO / block data  (model; no Mathlib)

Mirrors `nutils.matrix.assemble_csr` (validation), `nutils.matrix._numpy.assemble`
(last-write-wins scatter into a dense array), `numeric.compress_indices`,
`assemble_block_csr`, and the dense semantics of the `NumpyMatrix` operations.
Values are integers (the harness only feeds integer-valued float/complex data, so
NumPy's float arithmetic is exact on them).
-/
namespace NutilsVerif.C15

structure CSR where
  values : List Int
  rowptr : List Int
  colidx : List Int
  ncols  : Nat
deriving Repr, BEq

/-! ## validation exactly as `assemble_csr` performs it -/

def monotone : List Int → Bool
  | a :: b :: t => decide (a ≤ b) && monotone (b :: t)
  | _ => true

/-- `rowptr[0] == 0 and all(rowptr[1:] >= rowptr[:-1]) and rowptr[-1] == len(values)`
(an empty `rowptr` raises IndexError in the code: rejected as well) -/
def rowptrOK (rp : List Int) (nnz : Nat) : Bool :=
  match rp with
  | [] => false
  | a :: _ => a == 0 && monotone rp && rp.getLast? == some (nnz : Int)

/-- `len(colidx) == rowptr[-1] and all(0 <= colidx) and all(colidx < ncols)` -/
def colRangeOK (ci : List Int) (ncols : Nat) : Bool :=
  ci.all fun c => decide (0 ≤ c) && decide (c < (ncols : Int))

/-- the flag vector `colidx_is_increasing` of length `len(colidx)+1`:
interior entries compare neighbours strictly, entries at positions listed in `rowptr` are forced true -/
def orderFlags (rp ci : List Int) : List Bool :=
  (List.range (ci.length + 1)).map fun (k : Nat) =>
    rp.contains (k : Int) ||
      (decide (1 ≤ k ∧ k < ci.length) && decide (ci.getD (k-1) 0 < ci.getD k 0))

inductive Reject | values | rowptr | colidx | order
deriving Repr, BEq, DecidableEq

def validate (m : CSR) : Except Reject Unit :=
  if !rowptrOK m.rowptr m.values.length then .error .rowptr
  else if !(m.colidx.length == m.values.length && colRangeOK m.colidx m.ncols) then .error .colidx
  else if !(orderFlags m.rowptr m.colidx).all id then .error .order
  else .ok ()

def codeAccept (m : CSR) : Bool := (validate m).isOk

/-! ## specification: the triple defines a matrix unambiguously -/

def strictInc : List Int → Bool
  | a :: b :: t => decide (a < b) && strictInc (b :: t)
  | _ => true

/-- the column indices of each row, `colidx[rowptr[r]:rowptr[r+1]]` -/
def rowSlices (rp ci : List Int) : List (List Int) :=
  (List.zip rp rp.tail).map fun (a, b) => (ci.drop a.toNat).take (b - a).toNat

/-- Specification of "defines a matrix unambiguously": row pointers partition `0..nnz`, every column
index is inside `[0,ncols)`, and within each row the column indices strictly increase. -/
def validB (m : CSR) : Bool :=
  rowptrOK m.rowptr m.values.length && m.colidx.length == m.values.length &&
  colRangeOK m.colidx m.ncols && (rowSlices m.rowptr m.colidx).all strictInc

/-! ## dense meaning -/

def nrows (m : CSR) : Nat := m.rowptr.length - 1

/-- `numpy.concatenate([numpy.full(n, i) for i, n in enumerate(numpy.diff(rowptr))])` -/
def rowidxOf (rp : List Int) : List Nat :=
  let diffs := List.zipWith (fun a b => (b - a).toNat) rp rp.tail
  (diffs.zipIdx.map fun (n, i) => List.replicate n i).flatten

def entries (m : CSR) : List (Nat × Int × Int) :=
  List.zip (rowidxOf m.rowptr) (List.zip m.colidx m.values)

/-- specification semantics: entry (i,j) is the sum of all listed values at (i,j) -/
def denseSum (m : CSR) : List (List Int) :=
  (List.range (nrows m)).map fun (i : Nat) => (List.range m.ncols).map fun (j : Nat) =>
    ((entries m).filter fun e => e.1 == i && e.2.1 == (j : Int)).foldl (fun s e => s + e.2.2) 0

/-- implementation semantics of the numpy backend: `array[rowidx, colidx] = data`, last write wins -/
def denseAssign (m : CSR) : List (List Int) :=
  (List.range (nrows m)).map fun (i : Nat) => (List.range m.ncols).map fun (j : Nat) =>
    match ((entries m).filter fun e => e.1 == i && e.2.1 == (j : Int)).getLast? with
    | some e => e.2.2
    | none => 0

def assemble (m : CSR) : Except Reject (List (List Int)) := do
  validate m
  return denseAssign m

/-! ## compress_indices (COO -> CSR row pointers) -/

inductive CErr | bounds | notMonotone
deriving Repr, BEq, DecidableEq

/-- `numeric.compress_indices(indices, length)` -/
def compressIndices (idx : List Int) (length : Nat) : Except CErr (List Int) :=
  match idx with
  | [] => .ok (List.replicate (length+1) 0)
  | a :: _ =>
    let last := idx.getLast?.getD a
    if a < 0 || last ≥ (length : Int) then .error .bounds
    else
      let step : List Int := (a + 1) :: (List.zipWith (fun x y => y - x) idx idx.tail ++ [(length : Int) - last])
      if step.any (· < 0) then .error .notMonotone
      else .ok ((step.zipIdx.map fun (s, i) => List.replicate s.toNat (i : Int)).flatten)

/-- the documented meaning: `indices.searchsorted(arange(length+1))` (left) -/
def searchsortedAll (idx : List Int) (length : Nat) : List Int :=
  (List.range (length+1)).map fun (i : Nat) => ((idx.filter (· < (i : Int))).length : Int)

/-! ## export and operations on the dense representation (numpy backend) -/

abbrev Dense := List (List Int)

def exportCSR (d : Dense) (ncols : Nat) : CSR :=
  let rows := d.map fun row => (row.zipIdx.filter fun (v, _) => v != 0)
  { values := (rows.map fun r => r.map (·.1)).flatten
    colidx := (rows.map fun r => r.map fun (_, j) => (j : Int)).flatten
    rowptr := (rows.foldl (fun (acc : List Int × Int) r => (acc.1 ++ [acc.2 + r.length], acc.2 + r.length)) ([0], 0)).1
    ncols := ncols }

def dAdd (a b : Dense) : Dense := List.zipWith (List.zipWith (· + ·)) a b
def dSub (a b : Dense) : Dense := List.zipWith (List.zipWith (· - ·)) a b
def dNeg (a : Dense) : Dense := a.map (·.map (- ·))
def dScale (a : Dense) (s : Int) : Dense := a.map (·.map (· * s))
def dT (a : Dense) (ncols : Nat) : Dense := (List.range ncols).map fun j => a.map (·.getD j 0)
def dMatVec (a : Dense) (x : List Int) : List Int := a.map fun row => (List.zipWith (· * ·) row x).foldl (· + ·) 0
def dRowsupp (a : Dense) : List Bool := a.map (·.any (· != 0))
def dDiag (a : Dense) : List Int := a.zipIdx.map fun (row, i) => row.getD i 0
def dSub2 (a : Dense) (rows cols : List Bool) : Dense :=
  ((a.zip rows).filter (·.2)).map fun (row, _) => ((row.zip cols).filter (·.2)).map (·.1)

/-! ## block assembly -/

structure Block where
  values : List Int
  rowptr : List Int
  colidx : List Int
  ncols  : Nat

/-- `assemble_block_csr` merging (the generic row-by-row path and the single-block fast path give the
same CSR triple; the model uses the generic path for all rows) -/
def blockMerge (blocks : List (List Block)) : CSR :=
  let ncols := ((blocks.head?.getD []).map (·.ncols)).foldl (· + ·) 0
  let rows : List (List (List (Int × Int))) := blocks.map fun brow =>
    let nr := (brow.head?.map (·.rowptr.length - 1)).getD 0
    (List.range nr).map fun i =>
      (brow.foldl (fun (acc : List (Int × Int) × Nat) b =>
        let lo := (b.rowptr.getD i 0).toNat
        let hi := (b.rowptr.getD (i+1) 0).toNat
        let cs := (b.colidx.drop lo).take (hi - lo)
        let vs := (b.values.drop lo).take (hi - lo)
        (acc.1 ++ List.zip (cs.map (· + (acc.2 : Int))) vs, acc.2 + b.ncols)) ([], 0)).1
  let flat := rows.flatten
  { values := (flat.map (·.map (·.2))).flatten
    colidx := (flat.map (·.map (·.1))).flatten
    rowptr := (flat.foldl (fun (acc : List Int × Int) r => (acc.1 ++ [acc.2 + r.length], acc.2 + r.length)) ([0], 0)).1
    ncols := ncols }

end NutilsVerif.C15
