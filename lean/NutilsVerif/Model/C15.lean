import NutilsVerif.Core.Proto
/-!
# C15 — matrix assembly from CSR / COO / block data  (model; no Mathlib)

Mirrors `nutils.matrix.assemble_csr` (validation), `nutils.matrix._numpy.assemble`
(last-write-wins scatter into a dense array), `numeric.compress_indices`, `assemble_coo`,
`assemble_block_csr` (both the single-block fast path and the generic row-by-row path, the skipping of
empty blocks, the assertions), `NumpyMatrix.export` (`coo`, `csr`), `Matrix.diagonal`, `Matrix.rowsupp`
and the dense semantics of the `NumpyMatrix` operations.
Values are integers (the harness only feeds integer-valued float/complex data, so NumPy's float
arithmetic is exact on them; complex matrices are handled as a pair of integer matrices).

Every definition is either
* **code model** — a transcription of what the Python code does (named in the doc comment), or
* **specification** — what the property demands (`validB`, `denseSum`, `searchsortedAll`, `blockDense`,
  `dDiag`, `dRowsupp`, …).
`Props/C15.lean` proves the unbounded statements that relate the two.
-/
namespace NutilsVerif.C15

structure CSR where
  values : List Int
  rowptr : List Int
  colidx : List Int
  ncols  : Nat
deriving Repr, BEq, DecidableEq

/-! ## validation exactly as `assemble_csr` performs it (code model) -/

def monotone : List Int → Bool
  | a :: b :: t => decide (a ≤ b) && monotone (b :: t)
  | _ => true

/-- `rowptr[0] == 0 and all(rowptr[1:] >= rowptr[:-1]) and rowptr[-1] == len(values)`
(an empty `rowptr` raises IndexError in the code: rejected as well) -/
def rowptrOK (rp : List Int) (nnz : Nat) : Bool :=
  match rp with
  | [] => false
  | a :: _ => a == 0 && monotone rp && rp.getLast? == some (nnz : Int)

/-- `len(colidx) == rowptr[-1] and all(colidx >= 0) and all(colidx < ncols)` -/
def colRangeOK (ci : List Int) (ncols : Nat) : Bool :=
  ci.all fun c => decide (0 ≤ c) && decide (c < (ncols : Int))

/-- the flag vector `colidx_is_increasing` of length `len(colidx)+1`:
interior entries compare neighbours strictly (`numpy.greater(colidx[1:], colidx[:-1], out=flags[1:-1])`),
entries at positions listed in `rowptr` are forced true (`flags[rowptr] = True`); the two end entries are
uninitialised memory in the code and therefore only true when `rowptr` lists them -/
def orderFlags (rp ci : List Int) : List Bool :=
  (List.range (ci.length + 1)).map fun (k : Nat) =>
    rp.contains (k : Int) ||
      (decide (1 ≤ k ∧ k < ci.length) && decide (ci.getD (k-1) 0 < ci.getD k 0))

inductive Reject | values | rowptr | colidx | order
deriving Repr, BEq, DecidableEq

def validate (m : CSR) : Except Reject Unit :=
  if !rowptrOK m.rowptr m.values.length then .error .rowptr
  else if !(m.colidx.length == m.values.length && colRangeOK m.colidx m.ncols) then .error .colidx
  else if !(orderFlags m.rowptr m.colidx).all id then .error .order
  else .ok ()

def codeAccept (m : CSR) : Bool := (validate m).isOk

/-! ## specification: the triple defines a matrix unambiguously -/

def strictInc : List Int → Bool
  | a :: b :: t => decide (a < b) && strictInc (b :: t)
  | _ => true

/-- `[l[a:b] for a, b in zip(rp, rp[1:])]` -/
def slicesBy {α : Type} (rp : List Int) (l : List α) : List (List α) :=
  (List.zip rp rp.tail).map fun (a, b) => (l.drop a.toNat).take (b - a).toNat

/-- the column indices of each row, `colidx[rowptr[r]:rowptr[r+1]]` -/
def rowSlices (rp ci : List Int) : List (List Int) := slicesBy rp ci

/-- Specification of "defines a matrix unambiguously": row pointers partition `0..nnz`, every column
index is inside `[0,ncols)`, and within each row the column indices strictly increase. -/
def validB (m : CSR) : Bool :=
  rowptrOK m.rowptr m.values.length && m.colidx.length == m.values.length &&
  colRangeOK m.colidx m.ncols && (rowSlices m.rowptr m.colidx).all strictInc

/-! ## dense meaning -/

abbrev Dense := List (List Int)

def nrows (m : CSR) : Nat := m.rowptr.length - 1

/-- `numpy.repeat(numpy.arange(len(rowptr)-1), numpy.diff(rowptr))` (code model) -/
def rowidxOf (rp : List Int) : List Nat :=
  let diffs := List.zipWith (fun a b => (b - a).toNat) rp rp.tail
  (diffs.zipIdx.map fun (n, i) => List.replicate n i).flatten

/-- the stored entries as (row, column, value) in storage order -/
def entries (m : CSR) : List (Nat × Int × Int) :=
  List.zip (rowidxOf m.rowptr) (List.zip m.colidx m.values)

/-- specification semantics: entry (i,j) is the sum of all listed values at (i,j) -/
def denseSum (m : CSR) : Dense :=
  (List.range (nrows m)).map fun (i : Nat) => (List.range m.ncols).map fun (j : Nat) =>
    (((entries m).filter fun e => e.1 == i && e.2.1 == (j : Int)).map (·.2.2)).sum

/-- implementation semantics of the numpy backend: `array[rowidx, colidx] = data`, last write wins (code model) -/
def denseAssign (m : CSR) : Dense :=
  (List.range (nrows m)).map fun (i : Nat) => (List.range m.ncols).map fun (j : Nat) =>
    match ((entries m).filter fun e => e.1 == i && e.2.1 == (j : Int)).getLast? with
    | some e => e.2.2
    | none => 0

/-- `assemble_csr` with the numpy backend (code model) -/
def assemble (m : CSR) : Except Reject Dense := do
  validate m
  return denseAssign m

/-! ## compress_indices (COO -> CSR row pointers) -/

inductive CErr | bounds | notMonotone
deriving Repr, BEq, DecidableEq

/-- `numeric.compress_indices(indices, length)` (code model) -/
def compressIndices (idx : List Int) (length : Nat) : Except CErr (List Int) :=
  match idx with
  | [] => .ok (List.replicate (length+1) 0)
  | a :: _ =>
    let last := idx.getLast?.getD a
    if a < 0 || last ≥ (length : Int) then .error .bounds
    else
      let step : List Int := (a + 1) :: (List.zipWith (fun x y => y - x) idx idx.tail ++ [(length : Int) - last])
      if step.any (· < 0) then .error .notMonotone
      else .ok ((step.zipIdx.map fun (s, i) => List.replicate s.toNat (i : Int)).flatten)

/-- the documented meaning: `indices.searchsorted(arange(length+1))` (left) for a sorted vector (specification) -/
def searchsortedAll (idx : List Int) (length : Nat) : List Int :=
  (List.range (length+1)).map fun (i : Nat) => ((idx.filter (· < (i : Int))).length : Int)

/-- `0 <= i < n` for every index (specification of "in bounds") -/
def inRange (idx : List Int) (n : Nat) : Bool := idx.all fun i => decide (0 ≤ i) && decide (i < (n : Int))

/-- specification of `compress_indices`: sorted, in-range index vectors are compressed to their
`searchsorted` positions; everything else is an error of the documented class -/
def compressSpec (idx : List Int) (n : Nat) : Except CErr (List Int) :=
  if monotone idx && inRange idx n then .ok (searchsortedAll idx n)
  else match idx.head?, idx.getLast? with
    | some a, some l => if a < 0 || l ≥ (n:Int) then .error .bounds else .error .notMonotone
    | _, _ => .error .bounds

/-- outcome of `assemble_coo`: `compress_indices` may raise `ValueError`, `assemble_csr` may raise `MatrixError` -/
inductive CooOut
  | valueError (e : CErr)
  | reject (r : Reject)
  | ok (d : Dense)
deriving Repr, BEq, DecidableEq

/-- `assemble_coo(values, rowidx, nrows, colidx, ncols) = assemble_csr(values, compress_indices(rowidx, nrows), colidx, ncols)` -/
def assembleCOO (values rowidx : List Int) (nr : Nat) (colidx : List Int) (nc : Nat) : CooOut :=
  match compressIndices rowidx nr with
  | .error e => .valueError e
  | .ok rp =>
    match assemble { values := values, rowptr := rp, colidx := colidx, ncols := nc } with
    | .error r => .reject r
    | .ok d => .ok d

/-- specification of unambiguous COO data: row indices sorted and in range, and the CSR triple they induce is valid -/
def cooValidB (values rowidx : List Int) (nr : Nat) (colidx : List Int) (nc : Nat) : Bool :=
  monotone rowidx && inRange rowidx nr &&
  validB { values := values, rowptr := searchsortedAll rowidx nr, colidx := colidx, ncols := nc }

/-! ## row view of CSR data -/

/-- one matrix row as (column, value) pairs -/
abbrev Row := List (Int × Int)

/-- running end positions of consecutive chunks, starting after position `s` -/
def ptrTail {α : Type} (s : Int) : List (List α) → List Int
  | [] => []
  | r :: t => (s + (r.length : Int)) :: ptrTail (s + (r.length : Int)) t

def ptrOf {α : Type} (L : List (List α)) : List Int := 0 :: ptrTail 0 L

/-- the CSR triple that stores the given rows -/
def ofRows (L : List Row) (nc : Nat) : CSR :=
  { values := (L.map (·.map (·.2))).flatten
    colidx := (L.map (·.map (·.1))).flatten
    rowptr := ptrOf L
    ncols := nc }

/-- the rows of a CSR triple -/
def toRows (m : CSR) : List Row := slicesBy m.rowptr (List.zip m.colidx m.values)

/-- dense meaning of one row: entry j is the sum of the listed values with column j (specification) -/
def rowDense (r : Row) (nc : Nat) : List Int :=
  (List.range nc).map fun (j : Nat) => ((r.filter fun p => p.1 == (j : Int)).map (·.2)).sum

/-! ## export (numpy backend, code model) -/

/-- the non-zero entries of a dense row as (column, value) -/
def nzRow (row : List Int) : Row :=
  (row.zipIdx.filter fun p => p.1 != 0).map fun p => ((p.2 : Int), p.1)

/-- `export('coo')`: `ij = core.nonzero(); return core[ij], ij` — row-major non-zero entries -/
def exportCOO (d : Dense) : List (Nat × Int × Int) :=
  (d.zipIdx.map fun (p : List Int × Nat) => (nzRow p.1).map fun (q : Int × Int) => (p.2, q.1, q.2)).flatten

/-- `export('csr')`: `rows, cols = core.nonzero(); return core[rows, cols], cols, rows.searchsorted(arange(nrows+1))` -/
def exportCSR (d : Dense) (ncols : Nat) : CSR :=
  let coo := exportCOO d
  { values := coo.map (·.2.2)
    colidx := coo.map (·.2.1)
    rowptr := searchsortedAll (coo.map fun e => (e.1 : Int)) d.length
    ncols := ncols }

/-- `numpy.searchsorted(l, x)` (left) for sorted `l` -/
def searchsortedLeft (l : List Int) (x : Int) : Nat := (l.filter (· < x)).length

/-- `Matrix.diagonal` on the CSR export (code model): per row, `searchsorted` of the row number in the row's
column slice, take the value there if the column matches, else 0 -/
def csrDiagonal (m : CSR) : List Int :=
  (List.range (nrows m)).map fun (irow : Nat) =>
    let lo := m.rowptr.getD irow 0
    let hi := m.rowptr.getD (irow+1) 0
    let icols := (m.colidx.drop lo.toNat).take (hi - lo).toNat
    let idiag := searchsortedLeft icols (irow : Int)
    if idiag < icols.length && icols.getD idiag 0 == (irow : Int) then m.values.getD (lo.toNat + idiag) 0 else 0

/-- `Matrix.rowsupp(tol)` of the base class (code model): `supp[row[abs(data) > tol]] = True` on the COO export -/
def cooRowsupp (coo : List (Nat × Int × Int)) (nr : Nat) (tol : Nat) : List Bool :=
  (List.range nr).map fun (i : Nat) => coo.any fun e => e.1 == i && decide (tol < e.2.2.natAbs)

/-! ## operations on the dense representation (specification = numpy backend) -/

def dAdd (a b : Dense) : Dense := List.zipWith (List.zipWith (· + ·)) a b
def dSub (a b : Dense) : Dense := List.zipWith (List.zipWith (· - ·)) a b
def dNeg (a : Dense) : Dense := a.map (·.map (- ·))
def dScale (a : Dense) (s : Int) : Dense := a.map (·.map (· * s))
def dT (a : Dense) (ncols : Nat) : Dense := (List.range ncols).map fun j => a.map (·.getD j 0)
def dMatVec (a : Dense) (x : List Int) : List Int := a.map fun row => (List.zipWith (· * ·) row x).sum
def dRowsupp (a : Dense) (tol : Nat := 0) : List Bool := a.map (·.any fun v => decide (tol < v.natAbs))
def dDiag (a : Dense) : List Int := a.zipIdx.map fun (row, i) => row.getD i 0
def dSub2 (a : Dense) (rows cols : List Bool) : Dense :=
  ((a.zip rows).filter (·.2)).map fun (row, _) => ((row.zip cols).filter (·.2)).map (·.1)

/-! ## block assembly -/

structure Block where
  values : List Int
  rowptr : List Int
  colidx : List Int
  ncols  : Nat
  /-- dtype tag (0 = float, 1 = complex, …); only compared for equality -/
  dt     : Nat := 0
deriving Repr, BEq

def Block.csr (b : Block) : CSR := { values := b.values, rowptr := b.rowptr, colidx := b.colidx, ncols := b.ncols }

/-- Python `l[i:j]` for `0 ≤ i`, `j ≤ len(l)` (guaranteed by the per-block row pointer check) -/
def pySlice {α : Type} (l : List α) (i j : Int) : List α := (l.drop i.toNat).take (j - i).toNat

/-- `rowSizes`, `dtype`, `colSizes` are the three `assert`s (AssertionError); `blockRowptr`, `blockColidx` are the
per-block `MatrixError`s; `noBlocks` stands for the IndexError on an empty block list -/
inductive BErr | rowSizes | dtype | colSizes | noBlocks | blockRowptr | blockColidx
deriving Repr, BEq, DecidableEq

/-- a non-empty block of the current block row with its column offset applied: (values, rowptr, colidx + col_offset) -/
abbrev BData := List Int × List Int × List Int

/-- the first loop over a block row: assertions, per-block validation (`block_rowptr[0] == 0`, monotone,
`block_rowptr[-1] == len(block_values) == len(block_colidx)`; column indices inside `[0, block_ncols)`),
skipping of empty blocks, column offsets.
Returns the `block_data` list and the final `col_offset`. -/
def collectRow (nr : Nat) (dt : Nat) : List Block → Nat → Except BErr (List BData × Nat)
  | [], off => .ok ([], off)
  | b :: t, off =>
    if b.rowptr.length - 1 != nr || b.rowptr.length == 0 then .error .rowSizes
    else if b.dt != dt then .error .dtype
    else if !(rowptrOK b.rowptr b.values.length && b.colidx.length == b.values.length) then .error .blockRowptr
    else if !colRangeOK b.colidx b.ncols then .error .blockColidx
    else do
      let (rest, off') ← collectRow nr dt t (off + b.ncols)
      if b.values.length != 0 then
        return ((b.values, b.rowptr, b.colidx.map (· + (off : Int))) :: rest, off')
      else return (rest, off')

/-- generic path, one matrix row: the value and column slices of all blocks, and the advance of `ptr` -/
def genRow (data : List BData) (irow : Nat) : List Int × List Int × Int :=
  data.foldl (fun (acc : List Int × List Int × Int) (d : BData) =>
    let i := d.2.1.getD irow 0
    let j := d.2.1.getD (irow+1) 0
    (acc.1 ++ pySlice d.1 i j, acc.2.1 ++ pySlice d.2.2 i j, acc.2.2 + (j - i))) ([], [], 0)

/-- accumulated output lists of `assemble_block_csr`: `values`, `rowptr`, `colidx` (concatenated) and whether
anything was appended to the Python list `values` -/
structure Acc where
  values : List Int := []
  rowptr : List Int := [0]
  colidx : List Int := []
  any    : Bool := false
deriving Repr, BEq

def Acc.ptr (a : Acc) : Int := a.rowptr.getLast?.getD 0

/-- generic path over all `nr` matrix rows of a block row -/
def genericRows (data : List BData) (nr : Nat) (a : Acc) : Acc :=
  (List.range nr).foldl (fun (a : Acc) (irow : Nat) =>
    let (vs, cs, dp) := genRow data irow
    { values := a.values ++ vs, colidx := a.colidx ++ cs, rowptr := a.rowptr ++ [a.ptr + dp],
      any := a.any || !data.isEmpty }) a

/-- single-block fast path: `values.append(v); rowptr.extend(rp[1:] + ptr); colidx.append(ci)` -/
def fastRows (d : BData) (a : Acc) : Acc :=
  { values := a.values ++ d.1, colidx := a.colidx ++ d.2.2, rowptr := a.rowptr ++ d.2.1.tail.map (· + a.ptr), any := true }

/-- one block row of `assemble_block_csr` (code model) -/
def blockRowStep (ncols : Nat) (dt : Nat) (a : Acc) (brow : List Block) : Except BErr Acc :=
  match brow with
  | [] => .error .noBlocks
  | b0 :: _ => do
    let nr := b0.rowptr.length - 1
    let (data, off) ← collectRow nr dt brow 0
    if off != ncols then .error .colSizes
    else match data with
      | [d] => return fastRows d a
      | _ => return genericRows data nr a

/-- `assemble_block_csr` up to the final call (code model): the merged triple and the flag "something was appended
to the Python list `values`" (when it is false the `if not values` shortcut to `empty(...)` is taken) -/
def blockMergeCode (blocks : List (List Block)) : Except BErr (CSR × Bool) :=
  match blocks with
  | [] => .error .noBlocks
  | [] :: _ => .error .noBlocks
  | (b0 :: r0) :: _ => do
    let ncols := ((b0 :: r0).map (·.ncols)).sum
    let a ← blocks.foldlM (blockRowStep ncols b0.dt) {}
    return ({ values := a.values, rowptr := a.rowptr, colidx := a.colidx, ncols := ncols }, a.any)

/-- `empty((nrows, ncols))` -/
def emptyCSR (nr nc : Nat) : CSR := { values := [], rowptr := List.replicate (nr+1) 0, colidx := [], ncols := nc }

/-- full `assemble_block_csr` with the numpy backend -/
def assembleBlock (blocks : List (List Block)) : Except BErr (Except Reject Dense) := do
  let (m, any) ← blockMergeCode blocks
  if any then return assemble m
  else return assemble (emptyCSR (m.rowptr.length - 1) m.ncols)

/-- the matrix rows of one block row: row `i` is the concatenation of the blocks' rows `i`, columns shifted by
the widths of the blocks to the left (specification-level merge, no fast path, empty blocks not special) -/
def mergeBlockRow : List (List Row × Nat) → Nat → List Row
  | [], nr => List.replicate nr []
  | (L, w) :: t, nr =>
    List.zipWith (fun (r : Row) (r' : Row) => r ++ r'.map fun p => (p.1 + (w : Int), p.2)) L (mergeBlockRow t nr)

/-- `blockMerge`: the CSR triple of the block matrix, defined on the row view of the blocks (specification-level
merge; `Props.block_code` proves that the code model `blockMergeCode` produces exactly this triple) -/
def blockMerge (blocks : List (List Block)) : CSR :=
  let ncols := ((blocks.head?.getD []).map (·.ncols)).sum
  ofRows (blocks.map fun brow =>
    mergeBlockRow (brow.map fun b => (toRows b.csr, b.ncols)) ((brow.head?.map fun b => nrows b.csr).getD 0)).flatten ncols

/-- horizontal concatenation of dense matrices with `nr` rows each -/
def hcat : List Dense → Nat → Dense
  | [], nr => List.replicate nr []
  | d :: t, nr => List.zipWith (· ++ ·) d (hcat t nr)

/-- the block matrix of the blocks' dense meanings (specification) -/
def blockDense (blocks : List (List Block)) : Dense :=
  (blocks.map fun brow => hcat (brow.map fun b => denseSum b.csr) ((brow.head?.map fun b => nrows b.csr).getD 0)).flatten

/-- well-formed block structure: every block is a valid CSR triple, blocks in a block row have the same number
of rows, every block row is non-empty and has the same total width -/
def blocksOK (blocks : List (List Block)) : Bool :=
  let ncols := ((blocks.head?.getD []).map (·.ncols)).sum
  !blocks.isEmpty && blocks.all fun brow =>
    !brow.isEmpty && (brow.map (·.ncols)).sum == ncols &&
    brow.all fun b => validB b.csr && nrows b.csr == (brow.head?.map fun b => nrows b.csr).getD 0

end NutilsVerif.C15
