/-!
# C19 — expression strings mean their index-notation reading  (model; no Mathlib)

Part 1 (this file): a line-by-line port of `nutils.expression_v2._Substring` and `_Parser`
over an abstract array backend.  The real parser is generic over its `_ArrayOps` backend; the
harness plugs in a *recording* backend, so the operation tree `Ops` below is exactly what the real
parser asks its backend to do, and `Err` is exactly the `ExpressionSyntaxError` it raises
(message + caret/tilde spans).

Conventions
* a `_Substring(base, start, stop)` is `Sub` = absolute start offset + the list of its characters;
* the mutual recursion `parse_expression → parse_fraction → parse_term → parse_power → parse_item →
  parse_expression` is written with *open recursion*: every `…Body` takes the function `rec` used for
  the nested `parse_expression` calls (scopes, function arguments, exponents).  `parseExpr` closes the
  knot by structural recursion on a fuel argument; `Props/C19.lean` proves that fuel
  `length + 1` is always sufficient (the port terminates and never answers `outOfFuel`).
-/
namespace NutilsVerif.C19

abbrev Name := List Char

/-! ## the abstract array backend: operation trees -/

inductive Ops where
  | int (v : Int)                                  -- from_int
  | float (mant : Nat) (exp : Int)                 -- from_float (value = mant · 10^exp)
  | var (name : Name)                              -- get_variable
  | call (name : Name) (ngen : Nat) (arg : Ops)    -- call
  | getElement (a : Ops) (axis index : Nat)
  | transpose (a : Ops) (axes : List Nat)
  | trace (a : Ops) (i j : Nat)
  | scope (a : Ops)
  | mean (a : Ops)
  | jump (a : Ops)
  | add (negs : List Bool) (args : List Ops)       -- add(*[(neg, arg)])
  | mul (args : List Ops)                          -- multiply(*args)
  | div (n d : Ops)
  | pow (b e : Ops)
deriving Repr, BEq, Inhabited

/-- the context the backend answers from: variables with their shapes, functions with the shape of the
axes they generate -/
structure Ctx where
  vars : List (Name × List Nat)
  fns : List (Name × List Nat)
deriving Repr

def Ctx.lookupVar (Γ : Ctx) (n : Name) : Option (List Nat) := (Γ.vars.find? (·.1 == n)).map (·.2)
def Ctx.lookupFn (Γ : Ctx) (n : Name) : Option (List Nat) := (Γ.fns.find? (·.1 == n)).map (·.2)

/-! ## `_Substring` -/

structure Sub where
  start : Nat
  chars : List Char
deriving Repr, BEq, Inhabited

namespace Sub
def len (s : Sub) : Nat := s.chars.length
def isEmpty (s : Sub) : Bool := s.chars.isEmpty
/-- `s[a:]` -/
def dropN (s : Sub) (a : Nat) : Sub := ⟨s.start + min a s.len, s.chars.drop a⟩
/-- `s[:b]` -/
def takeN (s : Sub) (b : Nat) : Sub := ⟨s.start, s.chars.take b⟩
/-- `s[a:b]` (python slice semantics for `0 ≤ a`, `0 ≤ b`) -/
def slice (s : Sub) (a b : Nat) : Sub := ⟨s.start + min a s.len, (s.chars.drop a).take (b - a)⟩
def trimStart (s : Sub) : Sub :=
  let k := (s.chars.takeWhile (· == ' ')).length
  ⟨s.start + k, s.chars.drop k⟩
def trimEnd (s : Sub) : Sub :=
  let k := (s.chars.reverse.takeWhile (· == ' ')).length
  ⟨s.start, s.chars.take (s.len - k)⟩
def trim (s : Sub) : Sub := s.trimEnd.trimStart
def startsWith (s : Sub) (p : List Char) : Bool := p.isPrefixOf s.chars
def endsWith (s : Sub) (p : List Char) : Bool := p.reverse.isPrefixOf s.chars.reverse
/-- `s.trim() or s` -/
def trimOr (s : Sub) : Sub := if s.trim.isEmpty then s else s.trim
/-- the span (start, length) used for carets -/
def span (s : Sub) : Nat × Nat := (s.start, s.len)
end Sub

def isOpen (c : Char) : Bool := c == '(' || c == '[' || c == '{' || c == '<'
def isClose (c : Char) : Bool := c == ')' || c == ']' || c == '}' || c == '>'

/-- the matchers the parser passes to `_find` -/
inductive Matcher where
  | lit (p : List Char)     -- `_match(p)`
  | spaces                  -- `_match_spaces`
  | opening                 -- `lambda tail: tail[0] in '([{<'`
  | closing                 -- `lambda tail: tail[0] in ')]}>'`
deriving Repr

def Matcher.run : Matcher → List Char → Nat
  | .lit p, tail => if p.isPrefixOf tail then p.length else 0
  | .spaces, tail => (tail.takeWhile (· == ' ')).length
  | .opening, tail => match tail with | c :: _ => if isOpen c then 1 else 0 | [] => 0
  | .closing, tail => match tail with | c :: _ => if isClose c then 1 else 0 | [] => 0

/-- first matcher (in order) with a non-zero match length on `tail` -/
def firstMatch : List Matcher → List Char → Nat → Option (Nat × Nat)
  | [], _, _ => none
  | m :: ms, tail, k => if m.run tail ≠ 0 then some (k, m.run tail) else firstMatch ms tail (k + 1)

/-- the scanning loop of `_Substring._find`: `lvl` is the bracket level *before* the current character -/
def findGo (ms : List Matcher) : List Char → Int → Nat → Option (Nat × Nat × Nat)
  | [], _, _ => none
  | c :: cs, lvl, off =>
    let lvl1 := if isClose c then lvl - 1 else lvl
    match (if lvl1 = 0 then firstMatch ms (c :: cs) 0 else none) with
    | some (im, n) => some (im, off, n)
    | none => findGo ms cs (if isOpen c then lvl1 + 1 else lvl1) (off + 1)

structure Found where
  imatcher : Option Nat      -- `none` is python's `-1`
  offset : Nat
  length : Nat
deriving Repr, BEq

/-- `_Substring._find(*matchers)` -/
def find (ms : List Matcher) (l : List Char) : Found :=
  match findGo ms l 0 0 with
  | some (im, off, n) => ⟨some im, off, n⟩
  | none => ⟨none, l.length, 0⟩

theorem findGo_bound (ms : List Matcher) (l : List Char) (lvl : Int) (off : Nat) (r : Nat × Nat × Nat)
    (h : findGo ms l lvl off = some r) : off ≤ r.2.1 ∧ r.2.1 < off + l.length := by
  induction l generalizing lvl off with
  | nil => simp [findGo] at h
  | cons c cs ih =>
    simp only [findGo] at h
    split at h
    · injection h with h; subst h; simp
    · have := ih _ _ h
      simp only [List.length_cons]; omega

theorem find_offset_le (ms : List Matcher) (l : List Char) : (find ms l).offset ≤ l.length := by
  unfold find; split
  · rename_i im off n h; have := findGo_bound ms l 0 0 _ h; simp at this ⊢; omega
  · simp

theorem find_length_pos (ms : List Matcher) (l : List Char) (h : (find ms l).length ≠ 0) :
    (find ms l).offset < l.length := by
  unfold find at h ⊢; split
  · rename_i im off n h'; have := findGo_bound ms l 0 0 _ h'; simp at this ⊢; omega
  · rename_i h'; simp [h'] at h

/-- `_Substring.split(*matchers)`: the pieces between non-overlapping level-0 matches -/
def splitL (ms : List Matcher) (start : Nat) (l : List Char) : List Sub :=
  if h : (find ms l).length = 0 then [⟨start, l.take (find ms l).offset⟩]
  else ⟨start, l.take (find ms l).offset⟩ ::
    splitL ms (start + ((find ms l).offset + (find ms l).length)) (l.drop ((find ms l).offset + (find ms l).length))
termination_by l.length
decreasing_by
  have := find_length_pos ms l h
  simp only [List.length_drop]; omega

def Sub.split (s : Sub) (ms : List Matcher) : List Sub := splitL ms s.start s.chars

/-- `_Substring.isplit(*matchers, first=…)`: pieces tagged with the index of the matcher to their left -/
def isplitL (ms : List Matcher) (first : Option Nat) (start : Nat) (l : List Char) : List (Option Nat × Sub) :=
  if h : (find ms l).length = 0 then [(first, ⟨start, l.take (find ms l).offset⟩)]
  else (first, ⟨start, l.take (find ms l).offset⟩) ::
    isplitL ms (find ms l).imatcher (start + ((find ms l).offset + (find ms l).length)) (l.drop ((find ms l).offset + (find ms l).length))
termination_by l.length
decreasing_by
  have := find_length_pos ms l h
  simp only [List.length_drop]; omega

def Sub.isplit (s : Sub) (ms : List Matcher) (first : Nat) : List (Option Nat × Sub) := isplitL ms (some first) s.start s.chars

/-- `_Substring.partition(matcher)` → (left, match, right) -/
def Sub.partition (s : Sub) (ms : List Matcher) : Sub × Sub × Sub :=
  let r := find ms s.chars
  (s.takeN r.offset, s.slice r.offset (r.offset + r.length), s.dropN (r.offset + r.length))

structure ScopeParts where
  head : Sub
  sOpen : Sub
  scope : Sub
  sClose : Sub
  tail : Sub

/-- offset of the first level-0 opening bracket (or the length) -/
def Sub.openAt (s : Sub) : Nat := (find [.opening] s.chars).offset
/-- offset of the bracket closing the scope opened at `openAt` (or the length) -/
def Sub.closeAt (s : Sub) : Nat := (find [.closing] (s.chars.drop s.openAt)).offset + s.openAt

/-- `_Substring.partition_scope()` → (head, open, scope, close, tail) -/
def Sub.partitionScope (s : Sub) : ScopeParts :=
  ⟨s.takeN s.openAt, s.slice s.openAt (s.openAt + 1), s.slice (s.openAt + 1) s.closeAt,
   s.slice s.closeAt (s.closeAt + 1), s.dropN (s.closeAt + 1)⟩

/-- `item in substring`: a level-0 occurrence -/
def Sub.containsLit (s : Sub) (p : List Char) : Bool := (find [.lit p] s.chars).imatcher.isSome

/-! ## errors: `ExpressionSyntaxError(message, caret, tilde)` -/

inductive ErrKind where
  | missingInTerm (index : Char) (iterm : Nat)        -- Index {} of the first term [^] is missing in the {} term [~].
  | missingInFirst (index : Char) (iterm : Nat)       -- Index {} of the {} term [~] is missing in the first term [^].
  | termLength (index : Char) (n m iterm : Nat)       -- Index {} has length {} in the first term [^] but length {} in the {} term [~].
  | repeatedFractions
  | denominatorDim
  | repeatedPowers
  | wsBeforePow
  | wsAfterPow
  | expectedIntOrScope
  | exponentDim
  | expected (allowNumber hint : Bool)
  | numberNotAtStart
  | unclosed (o : List Char)
  | closedBy (o c : List Char)
  | afterScope
  | noSuchVariable (name : Name)
  | varDim (actual : Nat) (name : Name) (got : Nat)
  | noSuchFunction (name : Name)
  | fnDim (actual : Nat) (name : Name) (got : Nat)
  | indexRange (len : Nat)
  | badIndex (c : Char)
  | moreThanTwice (index : Char)
  | differentLengths (index : Char) (n m : Nat)
  | expectedInt
  | expectedFloat
  | outOfFuel                                          -- never produced by `parse` (theorem `parse_no_outOfFuel`)
deriving Repr, BEq, DecidableEq

abbrev Span := Nat × Nat   -- (start, length)

structure Err where
  kind : ErrKind
  caret : Option Span
  tilde : Option Span := none
deriving Repr, BEq, DecidableEq

/-- what every parse function returns: `(array, shape, indices, summed_indices)` -/
structure Res where
  ops : Ops
  shape : List Nat
  indices : List Char
  summed : List Char        -- a set (only membership matters)
deriving Repr, Inhabited

abbrev P := Except Err

def fail {α : Type} (k : ErrKind) (caret : Sub) : P α := .error ⟨k, some caret.span, none⟩
def fail2 {α : Type} (k : ErrKind) (caret tilde : Sub) : P α := .error ⟨k, some caret.span, some tilde.span⟩

/-! ## python literal syntax: `int(str)` and `float(str)` restricted to the characters that can occur -/

def isDigit (c : Char) : Bool := '0' ≤ c && c ≤ '9'
def digitVal (c : Char) : Nat := c.toNat - '0'.toNat

/-- `digitpart ::= digit (["_"] digit)*` → the digits -/
def digitPart : List Char → Option (List Nat)
  | [] => none
  | [c] => if isDigit c then some [digitVal c] else none
  | c :: '_' :: cs => if isDigit c then (digitPart cs).map (digitVal c :: ·) else none
  | c :: d :: cs => if isDigit c then (digitPart (d :: cs)).map (digitVal c :: ·) else none

def digitsVal (ds : List Nat) : Nat := ds.foldl (fun a d => 10 * a + d) 0

/-- python `int(s)` for a string without surrounding whitespace -/
def pyInt (l : List Char) : Option Int :=
  match l with
  | '-' :: r => (digitPart r).map fun ds => - (digitsVal ds : Int)
  | '+' :: r => (digitPart r).map fun ds => (digitsVal ds : Int)
  | r => (digitPart r).map fun ds => (digitsVal ds : Int)

/-- split a list at the first element satisfying `p`: (before, some (rest after it)) -/
def splitAtFirst (p : Char → Bool) : List Char → List Char × Option (List Char)
  | [] => ([], none)
  | c :: cs => if p c then ([], some cs) else let r := splitAtFirst p cs; (c :: r.1, r.2)

/-- python `float(s)` for a string that starts with a digit or a dot (so: no sign, no inf/nan):
`[digitpart] "." digitpart | digitpart ["."]` then optional `(e|E) [+-] digitpart`; result `mant · 10^exp` -/
def pyFloat (l : List Char) : Option (Nat × Int) :=
  let (num, expo) := splitAtFirst (fun c => c == 'e' || c == 'E') l
  let (ip, fp) := splitAtFirst (· == '.') num
  let mant : Option (List Nat × Nat) :=   -- digits, number of fractional digits
    match fp with
    | none => (digitPart ip).map fun d => (d, 0)
    | some [] => (digitPart ip).map fun d => (d, 0)
    | some f =>
      match ip with
      | [] => (digitPart f).map fun d => (d, d.length)
      | _ => match digitPart ip, digitPart f with
        | some a, some b => some (a ++ b, b.length)
        | _, _ => none
  let ex : Option Int :=     -- `(e|E) [+-] digitpart`: the sign and digits follow the syntax of `int()`
    match expo with
    | none => some 0
    | some r => pyInt r
  match mant, ex with
  | some (d, nf), some e => some (digitsVal d, e - nf)
  | _, _ => none

/-! ## index bookkeeping: `_verify_indices_summed`, `_merge_summed_indices_same_term`, `_trace` -/

def minChar : List Char → Option Char
  | [] => none
  | c :: cs => match minChar cs with | none => some c | some d => some (if c ≤ d then c else d)

/-- `for index in indices: if index in summed: raise` -/
def verifyIndicesSummed (s : Sub) (indices summed : List Char) : P Unit :=
  match indices.find? (summed.contains ·) with
  | some c => fail (.moreThanTwice c) s
  | none => .ok ()

/-- `_merge_summed_indices_same_term`: union of the parts; a common element of a part with the union of
the earlier parts is an error (the smallest one is reported) -/
def mergeSummedGo (s : Sub) : List Char → List (List Char) → P (List Char)
  | merged, [] => .ok merged
  | merged, part :: parts =>
    match minChar (part.filter (merged.contains ·)) with
    | some c => fail (.moreThanTwice c) s
    | none => mergeSummedGo s (merged ++ part) parts

def mergeSummed (s : Sub) (parts : List (List Char)) : P (List Char) := mergeSummedGo s [] parts

/-- the `while j < len(indices)` loop of `_trace`.  Loop state `(indices, shape, j)` is kept as
`indices = kI ++ rI`, `shape = kS ++ rS`, `j = len kI`: the processed prefix `kI` (all distinct) and the rest. -/
def traceGo (s : Sub) (ops : Ops) (kI : List Char) (kS : List Nat) (summed : List Char) :
    List Char → List Nat → P Res
  | [], rS => .ok ⟨ops, kS ++ rS, kI, summed⟩
  | c :: rI, rS =>
    if summed.contains c then fail (.moreThanTwice c) s
    else
      let i := kI.idxOf c
      if i < kI.length then
        let ni := kS.getD i 0
        let nj := rS.headD 0
        if ni != nj then fail (.differentLengths c ni nj) s
        else traceGo s (.trace ops i kI.length) (kI.eraseIdx i) (kS.eraseIdx i) (c :: summed) rI rS.tail
      else traceGo s ops (kI ++ [c]) (kS ++ [rS.headD 0]) summed rI rS.tail

/-- `_trace(s, array, shape, indices, *summed_indices_parts)` -/
def trace (s : Sub) (ops : Ops) (shape : List Nat) (indices : List Char) (summedParts : List (List Char)) : P Res :=
  (mergeSummed s summedParts).bind fun summed => traceGo s ops [] [] summed indices shape

/-! ## the parser -/

abbrev Rec := Sub → P Res

def lit (s : String) : List Char := s.toList

def parseSignedInt (s : Sub) : P Res :=
  match pyInt s.trim.chars with
  | some v => .ok ⟨.int v, [], [], []⟩
  | none => fail .expectedInt s.trimOr

def parseUnsignedInt (s : Sub) : P Res :=
  match pyInt s.trim.chars with
  | some v => if v < 0 then fail .expectedInt s.trimOr else .ok ⟨.int v, [], [], []⟩
  | none => fail .expectedInt s.trimOr

def parseUnsignedFloat (s : Sub) : P Res :=
  match pyFloat s.trim.chars with
  | some (m, e) => .ok ⟨.float m e, [], [], []⟩
  | none => fail .expectedFloat s.trimOr

/-- the loop over `s_generated_indices` in `parse_item`: numerals select an element, letters label an axis -/
def genIndicesGo (ops : Ops) (shape : List Nat) (indices : List Char) : Sub → P (Ops × List Nat × List Char)
  | ⟨_, []⟩ => .ok (ops, shape, indices)
  | ⟨st, c :: cs⟩ =>
    if isDigit c then
      let index := digitVal c
      let axis := indices.length
      if index ≥ shape.getD axis 0 then fail (.indexRange (shape.getD axis 0)) ⟨st, [c]⟩
      else genIndicesGo (.getElement ops axis index) (shape.eraseIdx axis) indices ⟨st + 1, cs⟩
    else if 'a' ≤ c && c ≤ 'z' then genIndicesGo ops shape (indices ++ [c]) ⟨st + 1, cs⟩
    else fail (.badIndex c) ⟨st, [c]⟩
termination_by s => s.chars.length

def closerOf (c : List Char) : List Char :=
  if c == ['('] then [')'] else if c == ['['] then [']'] else if c == ['{'] then ['}'] else ['>']

/-- `_Parser.parse_item` -/
def itemBody (Γ : Ctx) (rec : Rec) (s : Sub) (allowNumber : Bool) : P Res :=
  let t := s.trim
  let hint := t.containsLit ['+'] || t.containsLit ['-'] || t.containsLit ['/']
  let error : Err := ⟨.expected allowNumber hint, some s.trimOr.span, none⟩
  match t.chars with
  | [] => .error error
  | c0 :: _ =>
    if isDigit c0 || c0 == '.' then
      if !allowNumber then fail .numberNotAtStart t
      else match parseUnsignedInt t with
        | .ok r => .ok r
        | .error _ => match parseUnsignedFloat t with
          | .ok r => .ok r
          | .error _ => .error error
    else
      let ps := t.partitionScope
      if !ps.sOpen.isEmpty && ps.sClose.isEmpty then fail2 (.unclosed ps.sOpen.chars) ps.sOpen ps.sClose
      else if !ps.sOpen.isEmpty && closerOf ps.sOpen.chars != ps.sClose.chars then
        fail2 (.closedBy ps.sOpen.chars ps.sClose.chars) ps.sOpen ps.sClose
      else if !ps.tail.isEmpty then fail .afterScope ps.tail
      else if !ps.head.isEmpty then
        let sName := (ps.head.partition [.lit ['_']]).1
        let sGen := (ps.head.partition [.lit ['_']]).2.2
        let base : P Res :=
          if ps.sOpen.isEmpty then
            match Γ.lookupVar sName.chars with
            | none => fail (.noSuchVariable sName.chars) sName
            | some shape =>
              if shape.length != sGen.len then fail (.varDim shape.length sName.chars sGen.len) t
              else .ok ⟨.var sName.chars, shape, [], []⟩
          else if ps.sOpen.chars == ['('] then
            (rec ps.scope).bind fun arg =>
              match Γ.lookupFn sName.chars with
              | none => fail (.noSuchFunction sName.chars) sName
              | some gen =>
                if gen.length != sGen.len then fail (.fnDim gen.length sName.chars sGen.len) t
                else .ok ⟨.call sName.chars sGen.len arg.ops, arg.shape ++ gen, arg.indices, arg.summed⟩
          else .error error
        base.bind fun b =>
          (genIndicesGo b.ops b.shape b.indices sGen).bind fun g =>
            trace t g.1 g.2.1 g.2.2 [b.summed]
      else if ps.sOpen.chars == ['('] then (rec ps.scope).bind fun r => .ok { r with ops := .scope r.ops }
      else if ps.sOpen.chars == ['['] then (rec ps.scope).bind fun r => .ok { r with ops := .jump r.ops }
      else if ps.sOpen.chars == ['{'] then (rec ps.scope).bind fun r => .ok { r with ops := .mean r.ops }
      else .error error

/-- `_Parser.parse_power` -/
def powerBody (Γ : Ctx) (rec : Rec) (s : Sub) (allowNumber : Bool) : P Res :=
  let parts := s.trim.split [.lit ['^']]
  match parts with
  | [b] => itemBody Γ rec b allowNumber
  | [b, e] =>
    if b.endsWith [' '] then fail .wsBeforePow (b.dropN (b.len - 1))
    else if e.startsWith [' '] then fail .wsAfterPow (e.takeN 1)
    else
      (itemBody Γ rec b allowNumber).bind fun base =>
        let ps := e.partitionScope
        let ex : P Res :=
          if ps.head.isEmpty && ps.tail.isEmpty && ps.sOpen.chars == ['('] && ps.sClose.chars == [')'] then rec ps.scope
          else match e.chars with
            | c :: _ => if isDigit c || c == '-' then parseSignedInt e else fail .expectedIntOrScope e
            | [] => fail .expectedIntOrScope e
        ex.bind fun ex =>
          if !ex.indices.isEmpty then fail .exponentDim e
          else
            (mergeSummed s.trim [base.summed, ex.summed]).bind fun summed =>
              (verifyIndicesSummed s.trim base.indices summed).bind fun _ =>
                .ok ⟨.pow base.ops ex.ops, base.shape, base.indices, summed⟩
  | _ => fail .repeatedPowers s.trim

/-- `mapM` with the position as extra argument (python `enumerate`) -/
def mapMIdx {α β : Type} (f : Nat → α → P β) : List α → Nat → P (List β)
  | [], _ => .ok []
  | a :: as, k => (f k a).bind fun b => (mapMIdx f as (k + 1)).bind fun bs => .ok (b :: bs)

/-- `_Parser.parse_term` -/
def termBody (Γ : Ctx) (rec : Rec) (s : Sub) : P Res :=
  let t := s.trim
  if t.isEmpty then powerBody Γ rec s true
  else
    (mapMIdx (fun i p => powerBody Γ rec p (i == 0)) (t.split [.spaces]) 0).bind fun parts =>
      match parts with
      | [r] => .ok r
      | _ =>
        trace t (.mul (parts.map (·.ops))) (parts.map (·.shape)).flatten (parts.map (·.indices)).flatten (parts.map (·.summed))

def plusMinus : List Matcher := [.lit [' ', '+', ' '], .lit [' ', '-', ' ']]
def slash : List Matcher := [.lit [' ', '/', ' ']]

/-- `_Parser.parse_fraction` -/
def fractionBody (Γ : Ctx) (rec : Rec) (s : Sub) : P Res :=
  match s.split slash with
  | [n] => termBody Γ rec n
  | [n, d] =>
    (termBody Γ rec n).bind fun num =>
      (termBody Γ rec d).bind fun den =>
        if !den.indices.isEmpty then fail .denominatorDim d.trim
        else
          (mergeSummed s.trim [num.summed, den.summed]).bind fun summed =>
            (verifyIndicesSummed s.trim num.indices summed).bind fun _ =>
              .ok ⟨.div num.ops den.ops, num.shape, num.indices, summed⟩
  | _ => fail .repeatedFractions s.trim

def charsMinus (a b : List Char) : Option Char := minChar (a.filter (!b.contains ·))

/-- first position where the two shapes differ (python `zip` over shape, term_shape, indices) -/
def firstShapeMismatch : List Nat → List Nat → List Char → Option (Char × Nat × Nat)
  | n :: ns, m :: ms, c :: cs => if n != m then some (c, n, m) else firstShapeMismatch ns ms cs
  | _, _, _ => none

/-- one round of the alignment loop: compare the indices of a term with those of the first term, transpose -/
def alignTerm (sFirst sTerm : Sub) (indices : List Char) (iterm : Nat) (r : Res) : P (Ops × List Nat) :=
  if r.indices != indices then
    match charsMinus indices r.indices with
    | some c => fail2 (.missingInTerm c iterm) sFirst.trim sTerm.trim
    | none => match charsMinus r.indices indices with
      | some c => fail2 (.missingInFirst c iterm) sFirst.trim sTerm.trim
      | none =>
        let axes := indices.map (r.indices.idxOf ·)
        .ok (.transpose r.ops axes, axes.map (r.shape.getD · 0))
  else .ok (r.ops, r.shape)

/-- the alignment loop of `parse_expression` over the terms after the first -/
def alignGo (sFirst : Sub) (shape : List Nat) (indices : List Char) :
    List (Bool × Sub × Res) → Nat → List Bool → List Ops → List Char → P (List Bool × List Ops × List Char)
  | [], _, negs, args, summed => .ok (negs, args, summed)
  | (neg, sTerm, r) :: rest, iterm, negs, args, summed =>
    match alignTerm sFirst sTerm indices iterm r with
    | .error e => .error e
    | .ok (ops, tshape) =>
      match firstShapeMismatch shape tshape indices with
      | some (c, n, m) => fail2 (.termLength c n m iterm) sFirst.trim sTerm.trim
      | none => alignGo sFirst shape indices rest (iterm + 1) (negs ++ [neg]) (args ++ [ops]) (summed ++ r.summed)

/-- `s.trim_start().strip_prefix('-')` when that is a non-empty substring (python truthiness of `_Substring`) -/
def stripMinus (s : Sub) : Option Sub :=
  if s.trimStart.startsWith ['-'] && (s.trimStart.dropN 1).len != 0 then some (s.trimStart.dropN 1) else none

/-- the part of `parse_expression` after all terms have been parsed -/
def exprCombine (s : Sub) (unaligned : List (Bool × Sub × Res)) : P Res :=
  match unaligned with
  | [] => fail (.expected true false) s      -- unreachable: isplit yields at least once
  | (neg, sFirst, first) :: rest =>
    if !neg && rest.isEmpty then .ok first
    else
      (alignGo sFirst first.shape first.indices rest 2 [neg] [first.ops] first.summed).bind fun a =>
        .ok ⟨.add a.1 a.2.1, first.shape, first.indices, a.2.2⟩

/-- `_Parser.parse_expression` -/
def exprBody (Γ : Ctx) (rec : Rec) (s : Sub) : P Res :=
  let stripped := stripMinus s
  let negate := stripped.isSome
  let sTail := stripped.getD s
  (mapMIdx (fun _ (p : Option Nat × Sub) => (fractionBody Γ rec p.2).bind fun r => .ok (p.1 == some 1, p.2, r))
      (sTail.isplit plusMinus (if negate then 1 else 0)) 0).bind (exprCombine s)

/-- closing the knot on fuel; `base` answers when the fuel is exhausted -/
def parseExprB (Γ : Ctx) (base : Rec) : Nat → Sub → P Res
  | 0, s => base s
  | n + 1, s => exprBody Γ (parseExprB Γ base n) s

/-- (theorem `parse_total`: with fuel above the input length the base case is never reached) -/
def parseExpr (Γ : Ctx) : Nat → Sub → P Res := parseExprB Γ (fun s => .error ⟨.outOfFuel, some s.span, none⟩)

inductive Entry where
  | expression | fraction | term | power (allowNumber : Bool) | item (allowNumber : Bool)
deriving Repr, BEq

/-- entry points of the real parser (`parser.parse_expression(_Substring(str))` etc.) -/
def parseAt (Γ : Ctx) (e : Entry) (l : List Char) : P Res :=
  let s : Sub := ⟨0, l⟩
  let rec' := parseExpr Γ (l.length + 1)
  match e with
  | .expression => parseExpr Γ (l.length + 1) s
  | .fraction => fractionBody Γ rec' s
  | .term => termBody Γ rec' s
  | .power a => powerBody Γ rec' s a
  | .item a => itemBody Γ rec' s a

def parse (Γ : Ctx) (l : List Char) : P Res := parseAt Γ .expression l

/-! ## `Namespace.__rmatmul__` / `__setattr__`: alignment of the parsed array -/

/-- `_FunctionArrayOps.align(array, in_indices, out_indices)`: the axes handed to `transpose` -/
def alignAxes (inI outI : List Char) : List Nat := outI.map (inI.idxOf ·)

/-- `'expr' @ ns`: `ops.align(array, indices, ''.join(sorted(indices)))` -/
def rmatmul (r : Res) : Ops × List Char :=
  let out := r.indices.mergeSort (fun a b => decide (a.toNat ≤ b.toNat))
  (.transpose r.ops (alignAxes r.indices out), out)

/-! ## rendering of `ExpressionSyntaxError.__str__` (message line and marker line) -/

def nth (n : Nat) : String :=
  match n with
  | 0 => "zeroth" | 1 => "first" | 2 => "second" | 3 => "third" | 4 => "fourth" | 5 => "fifth"
  | n => s!"{n}th"

def sp (n : Nat) (s p : String) : String := s!"{n} {if n == 1 then s else p}"

def str (l : List Char) : String := String.ofList l

def ErrKind.message : ErrKind → String
  | .missingInTerm c k => s!"Index {c} of the first term [^] is missing in the {nth k} term [~]."
  | .missingInFirst c k => s!"Index {c} of the {nth k} term [~] is missing in the first term [^]."
  | .termLength c n m k => s!"Index {c} has length {n} in the first term [^] but length {m} in the {nth k} term [~]."
  | .repeatedFractions => "Repeated fractions are not allowed. Use parentheses if necessary."
  | .denominatorDim => "The denominator must have dimension zero."
  | .repeatedPowers => "Repeated powers are not allowed. Use parentheses if necessary."
  | .wsBeforePow => "Unexpected whitespace before `^`."
  | .wsAfterPow => "Unexpected whitespace after `^`."
  | .expectedIntOrScope => "Expected an int or scoped expression."
  | .exponentDim => "The exponent must have dimension zero."
  | .expected a h =>
    (if a then "Expected a number, variable, scope, mean, jump or function call."
     else "Expected a variable, scope, mean, jump or function call.") ++
    (if h then " Hint: the operators `+`, `-` and `/` must be surrounded by spaces." else "")
  | .numberNotAtStart => "Numbers are only allowed at the start of a term."
  | .unclosed o => s!"Unclosed `{str o}`."
  | .closedBy o c => s!"Parenthesis `{str o}` closed by `{str c}`."
  | .afterScope => "Unexpected symbols after scope."
  | .noSuchVariable n => s!"No such variable: `{str n}`."
  | .varDim a n g => s!"Expected {sp a "index" "indices"} for variable `{str n}` but got {g}."
  | .noSuchFunction n => s!"No such function: `{str n}`."
  | .fnDim a n g => s!"Expected {sp a "index" "indices"} for axes generated by function `{str n}` but got {g}."
  | .indexRange n => s!"Index of axis with length {n} out of range."
  | .badIndex c => s!"Symbol `{c}` is not allowed as index."
  | .moreThanTwice c => s!"Index {c} occurs more than twice."
  | .differentLengths c n m => s!"Index {c} is assigned to axes with different lengths: {n} and {m}."
  | .expectedInt => "Expected an int."
  | .expectedFloat => "Expected a float."
  | .outOfFuel => "<model out of fuel>"

def applyMarker (m : List Char) (c : Char) (sp : Option Span) : List Char :=
  match sp with
  | none => m
  | some (start, len) =>
    let n := max 1 len
    m.take start ++ List.replicate n c ++ m.drop (start + n)

def rstrip (l : List Char) : List Char := (l.reverse.dropWhile (· == ' ')).reverse

def Err.markers (e : Err) (exprLen : Nat) : List Char :=
  rstrip (applyMarker (applyMarker (List.replicate exprLen ' ') '^' e.caret) '~' e.tilde)

end NutilsVerif.C19
