/-!
# C12 — model of `function.Basis.__getitem__` for slices (`src/nutils/function.py`)

```python
elif isinstance(index, slice):
    start, stop, step = index.indices(self.ndofs)
    if step == 1 and start == 0 and stop == self.ndofs: return self
    elif step > 0: return MaskedBasis(self, numpy.arange(start, stop, step))
    else: return super().__getitem__(index)
```
`slice.indices` is CPython's normalisation (`None` defaults, negative values count from the end, clipping), transcribed here;
the harness compares it with the running interpreter on every request.
-/
namespace NutilsVerif.C12

/-- CPython `slice(start, stop, step).indices(n)` (`None` = `none`); `none` = `ValueError: slice step cannot be zero` -/
def sliceIndices (n : Nat) (start stop step : Option Int) : Option (Int × Int × Int) :=
  let s : Int := step.getD 1
  if s = 0 then none else
  let len : Int := n
  let lower : Int := if s < 0 then -1 else 0
  let upper : Int := if s < 0 then len - 1 else len
  let adj (x : Int) : Int := if x < 0 then (if x + len < lower then lower else x + len) else (if x > upper then upper else x)
  let a := match start with | none => (if s < 0 then upper else lower) | some x => adj x
  let b := match stop with | none => (if s < 0 then lower else upper) | some x => adj x
  some (a, b, s)

/-- `numpy.arange(a, b, s)` for `s > 0`, `a ≥ 0` as a list of naturals: `a, a+s, …` below `b` -/
def arangeUp (a b s : Int) : List Nat :=
  (List.range ((b - a + s - 1) / s).toNat).map fun (k : Nat) => (a + (k : Int) * s).toNat

/-- outcome of `Basis.__getitem__(slice)` -/
inductive GetItem
  | self                       -- the basis itself
  | masked (idx : List Nat)    -- `MaskedBasis(self, idx)`
  | generic                    -- falls through to `Array.__getitem__` (negative step)
  | valueError                 -- step 0
deriving Repr, DecidableEq

def basisGetSlice (n : Nat) (start stop step : Option Int) : GetItem :=
  match sliceIndices n start stop step with
  | none => .valueError
  | some (a, b, s) =>
    if s = 1 ∧ a = 0 ∧ b = n then .self
    else if s > 0 then .masked (arangeUp a b s)
    else .generic

/-- the parent functions a `Basis.__getitem__` result consists of, in order -/
def GetItem.content (n : Nat) : GetItem → Option (List Nat)
  | .self => some (List.range n)
  | .masked idx => some idx
  | _ => none

end NutilsVerif.C12
