/-!
# C09 — integration is exact quadrature of point evaluation  (model; no Mathlib)

Part (a) mirrors the index bookkeeping of `nutils.sample`: `_DefaultIndex`, `_CustomIndex`, `_Add`,
`_Mul`, `_TakeElements`, `_Zip`, `_Empty` (`nelems`, `npoints`, `getindex`), the per-element point
and weight lists the classes hand to `_Integral.lower` / `_ConcatenatePoints.lower`
(`get_lower_args`, `get_evaluable_weights`), the dispatch of `Sample._integral` / `Sample._bind`
(`integralCode`, `bindAt`), the smart constructors `Sample.__add__`, `Sample.take_elements`, and which
classes implement the evaluable interface at all (`hasLower`, `canIntegrate`).

Part (b) models `points.TensorPoints`, `TransformPoints`, `ConcatPoints` (with its duplicate handling)
as operations on quadrature rules, part (c) the specification functions for the extracted Gauss tables
(`Generated/C09.lean`) over exact rationals.

Arrays are modelled as `List`s (or as functions of the flat index where the code nests arrays);
values live in an arbitrary type with `+ * 0` (the theorems ask for a commutative semiring).
-/
namespace NutilsVerif.C09

/-! ## (a) sample expressions -/

/-- A leaf carries a tag (standing for its space / transforms / points sequence) and the number of
points of every element. -/
inductive SampleExpr where
  | default (tag : Nat) (counts : List Nat)            -- `_DefaultIndex(space, transforms, points)`
  | custom (parent : SampleExpr) (index : List Nat)    -- `_CustomIndex(parent, index)`
  | add (a b : SampleExpr)                             -- `_Add(sample1, sample2)`
  | mul (a b : SampleExpr)                             -- `_Mul(sample1, sample2)`
  | take (parent : SampleExpr) (indices : List Nat)    -- `_TakeElements(parent, indices)`
  | zip (a b : SampleExpr)                             -- `_Zip(sample1, sample2)` (n-ary zip = left nested)
  | empty                                              -- `_Empty`
deriving Repr, BEq, Inhabited

/-- `numpy.cumsum([s, *l])` -/
def cumsumFrom (s : Nat) : List Nat → List Nat
  | [] => [s]
  | c :: cs => s :: cumsumFrom (s + c) cs

/-- `numpy.cumsum([0] + l)`: the `offsets` arrays of `_DefaultIndex`, `_TakeElements`, `_Zip` -/
def cumsum0 (l : List Nat) : List Nat := cumsumFrom 0 l

/-- `numpy.arange(a, b)` -/
def arange (a b : Nat) : List Nat := List.range' a (b - a)

/-- `numpy.arange(*offsets[i:i+2])` for `i+1 < len(offsets)` -/
def segment (offs : List Nat) (i : Nat) : List Nat := arange (offs.getD i 0) (offs.getD (i+1) 0)

/-- what the constructors compute and `getindex` returns (`[]` stands for the `IndexError` of an
out-of-range element number) -/
structure Sem where
  nelems : Nat
  npoints : Nat
  getindex : Nat → List Nat

/-- `_Zip.__init__`: the element a point was last assigned to by the loop
`for ielem in range(nelems): ielems[isample, sample.getindex(ielem)] = ielem` -/
def elemOf (s : Sem) (p : Nat) : Nat :=
  (((List.range s.nelems).filter fun i => (s.getindex i).contains p).getLast?).getD 0

/-- `_Zip.__init__`: `ilocals[isample, indices] = arange(len(indices))` -/
def localOf (s : Sem) (p : Nat) : Nat := (s.getindex (elemOf s p)).idxOf p

/-- `numpy.ravel_multi_index((ielems_a, ielems_b), (nelems_a, nelems_b))` of point `p` -/
def zipKey (sa sb : Sem) (p : Nat) : Nat := elemOf sa p * sb.nelems + elemOf sb p

/-- `numpy.unique(flat_ielems)`: the sorted distinct keys -/
def zipUniq (sa sb : Sem) : List Nat :=
  let keys := (List.range sa.npoints).map (zipKey sa sb)
  (List.range (keys.foldl max 0 + 1)).filter fun k => keys.contains k

def sem : SampleExpr → Sem
  | .default _ counts =>
    { nelems := counts.length, npoints := counts.sum,
      getindex := fun i => if i < counts.length then segment (cumsum0 counts) i else [] }
  | .custom p ix =>
    let sp := sem p
    { nelems := sp.nelems, npoints := sp.npoints,
      getindex := fun i => (sp.getindex i).map fun j => ix.getD j 0 }   -- numpy.take(index, parent.getindex(i))
  | .add a b =>
    let sa := sem a; let sb := sem b
    { nelems := sa.nelems + sb.nelems, npoints := sa.npoints + sb.npoints,
      getindex := fun i => if i < sa.nelems then sa.getindex i
                           else (sb.getindex (i - sa.nelems)).map (· + sa.npoints) }
  | .mul a b =>
    let sa := sem a; let sb := sem b
    { nelems := sa.nelems * sb.nelems, npoints := sa.npoints * sb.npoints,
      getindex := fun e =>      -- ielem1, ielem2 = divmod(ielem, sample2.nelems)
        (sa.getindex (e / sb.nelems)).flatMap fun p => (sb.getindex (e % sb.nelems)).map fun q => p * sb.npoints + q }
  | .take p ind =>
    let sp := sem p
    let offs := cumsum0 (ind.map fun i => (sp.getindex i).length)
    { nelems := ind.length, npoints := offs.getLast?.getD 0,           -- self._offsets[-1]
      getindex := fun i => if i < ind.length then segment offs i else [] }
  | .zip a b =>
    let sa := sem a; let sb := sem b
    let uniq := zipUniq sa sb
    { nelems := uniq.length, npoints := sa.npoints,
      getindex := fun i => match uniq[i]? with       -- argsort(inverse)[offsets[i]:offsets[i+1]], stable
        | some k => (List.range sa.npoints).filter fun p => zipKey sa sb p == k
        | none => [] }
  | .empty => { nelems := 0, npoints := 0, getindex := fun _ => [] }

def nelems (s : SampleExpr) : Nat := (sem s).nelems
def npoints (s : SampleExpr) : Nat := (sem s).npoints
def getindex (s : SampleExpr) (i : Nat) : List Nat := (sem s).getindex i

/-- `Sample.index` -/
def index (s : SampleExpr) : List (List Nat) := (List.range (nelems s)).map (getindex s)

/-- What the constructors assume of their arguments (partly asserted by the code, partly the caller's
duty): a custom index is a permutation of `0..npoints`, taken element numbers exist, zipped samples have
equally many points. -/
def Valid : SampleExpr → Prop
  | .default _ _ => True
  | .custom p ix => Valid p ∧ ix.Perm (List.range (npoints p))
  | .add a b => Valid a ∧ Valid b
  | .mul a b => Valid a ∧ Valid b
  | .take p ind => Valid p ∧ ∀ i ∈ ind, i < nelems p
  | .zip a b => Valid a ∧ Valid b ∧ npoints a = npoints b
  | .empty => True

/-- executable version of `Valid` (`isPermB l n`: `l` has length `n` and contains every `j < n`) -/
def isPermB (l : List Nat) (n : Nat) : Bool := l.length == n && (List.range n).all fun j => l.contains j

def validB : SampleExpr → Bool
  | .default _ _ => true
  | .custom p ix => validB p && isPermB ix (npoints p)
  | .add a b => validB a && validB b
  | .mul a b => validB a && validB b
  | .take p ind => validB p && ind.all fun i => decide (i < nelems p)
  | .zip a b => validB a && validB b && npoints a == npoints b
  | .empty => true

/-! ### points and weights per element (`get_lower_args`, `get_evaluable_weights`) -/

/-- one point of a leaf sample: (leaf tag, element number, local point number) -/
abbrev LeafPt := Nat × Nat × Nat
/-- a point of a sample: one leaf point per space -/
abbrev Pt := List LeafPt

/-- the points of element `i` in the order of `Sample.points[i]` / the coordinates in `get_lower_args(i)` -/
def pts : SampleExpr → Nat → List Pt
  | .default t counts, i => (List.range (counts.getD i 0)).map fun k => [(t, i, k)]
  | .custom p _, i => pts p i
  | .add a b, i => if i < nelems a then pts a i else pts b (i - nelems a)
  | .mul a b, e => (pts a (e / nelems b)).flatMap fun pa => (pts b (e % nelems b)).map fun pb => pa ++ pb
  | .take p ind, i => match ind[i]? with | some j => pts p j | none => []
  | .zip a b, i =>
    let sa := sem a; let sb := sem b
    match (zipUniq sa sb)[i]? with
    | some k =>   -- ielems = unravel_index(k, (nelems a, nelems b)); coordinates taken at `ilocals`
      ((sem (.zip a b)).getindex i).map fun p =>
        ((pts a (k / sb.nelems)).getD (localOf sa p) []) ++ ((pts b (k % sb.nelems)).getD (localOf sb p) [])
    | none => []
  | .empty, _ => []

variable {α : Type} [Add α] [Mul α] [Zero α]

/-- `get_evaluable_weights(i)` (flattened), for leaf weights `w` -/
def wts (w : LeafPt → α) : SampleExpr → Nat → List α
  | .default t counts, i => (List.range (counts.getD i 0)).map fun k => w (t, i, k)
  | .custom p _, i => wts w p i
  | .add a b, i => if i < nelems a then wts w a i else wts w b (i - nelems a)   -- (only used by the specification: `_Add` has no weights)
  | .mul a b, e => (wts w a (e / nelems b)).flatMap fun wa => (wts w b (e % nelems b)).map fun wb => wa * wb  -- einsum('A,B->AB')
  | .take p ind, i => match ind[i]? with | some j => wts w p j | none => []
  | .zip a b, i =>
    let sa := sem a; let sb := sem b
    match (zipUniq sa sb)[i]? with
    | some k => ((sem (.zip a b)).getindex i).map fun p => (wts w a (k / sb.nelems)).getD (localOf sa p) 0   -- first sample provides the weights
    | none => []
  | .empty, _ => []

def dot (ws vs : List α) : α := (List.zipWith (· * ·) ws vs).sum

/-- `_Integral.lower`: `loop_sum(einsum('B,ABC->AC', weights, integrand), ielem)` -/
def loopIntegral (w : LeafPt → α) (s : SampleExpr) (f : Pt → α) : α :=
  ((List.range (nelems s)).map fun i => dot (wts w s i) ((pts s i).map f)).sum

/-- `Sample.integral` with the overrides of `_Add._integral`, `_Mul._integral`, `_Empty._integral` -/
def integralCode (w : LeafPt → α) : SampleExpr → (Pt → α) → α
  | .add a b, f => integralCode w a f + integralCode w b f
  | .mul a b, f => integralCode w a fun pa => integralCode w b fun pb => f (pa ++ pb)
  | .empty, _ => 0
  | .default t c, f => loopIntegral w (.default t c) f
  | .custom p ix, f => loopIntegral w (.custom p ix) f
  | .take p ind, f => loopIntegral w (.take p ind) f
  | .zip a b, f => loopIntegral w (.zip a b) f

/-- `Inflate(loop_concatenate(vals), loop_concatenate(indices), npoints)` at position `q`:
every entry of element `i`, local point `k` is added at position `getindex(i)[k]` -/
def scatterAt (nel : Nat) (gi : Nat → List Nat) (vals : Nat → List α) (q : Nat) : α :=
  ((List.range nel).map fun i => ((List.zip (gi i) (vals i)).map fun pv => if pv.1 = q then pv.2 else 0).sum).sum

/-- `loop_concatenate(vals)` at position `q` (`_ConcatenatePoints.lower`) -/
def concatAt (nel : Nat) (vals : Nat → List α) (q : Nat) : α :=
  (((List.range nel).map vals).flatten)[q]?.getD 0

/-- `Sample.bind(f)` at flat position `q` (arrays of arrays are indexed, not built), with the overrides of
`_DefaultIndex._bind` (no reordering), `_Add._bind` (concatenate), `_Mul._bind` (nested, reshaped),
`_Empty._bind`; all others reorder by the concatenated `get_evaluable_indices`. -/
def bindAt : SampleExpr → (Pt → α) → Nat → α
  | .default t c, f, q => concatAt (nelems (.default t c)) (fun i => (pts (.default t c) i).map f) q
  | .add a b, f, q => if q < npoints a then bindAt a f q else bindAt b f (q - npoints a)
  | .mul a b, f, q => bindAt a (fun pa => bindAt b (fun pb => f (pa ++ pb)) (q % npoints b)) (q / npoints b)
  | .empty, _, _ => 0
  | .custom p ix, f, q => scatterAt (nelems (.custom p ix)) (getindex (.custom p ix)) (fun i => (pts (.custom p ix) i).map f) q
  | .take p ind, f, q => scatterAt (nelems (.take p ind)) (getindex (.take p ind)) (fun i => (pts (.take p ind) i).map f) q
  | .zip a b, f, q => scatterAt (nelems (.zip a b)) (getindex (.zip a b)) (fun i => (pts (.zip a b) i).map f) q

/-- `Sample.eval(f)` -/
def bindList (s : SampleExpr) (f : Pt → α) : List α := (List.range (npoints s)).map (bindAt s f)

/-- specification: the weight that belongs to flat position `q` of `Sample.eval` -/
def weightAt (w : LeafPt → α) (s : SampleExpr) (q : Nat) : α := scatterAt (nelems s) (getindex s) (wts w s) q

/-- specification: `(weights * sample.eval(f)).sum()` -/
def flatWeightedSum (w : LeafPt → α) (s : SampleExpr) (f : Pt → α) : α :=
  ((List.range (npoints s)).map fun q => weightAt w s q * bindAt s f q).sum

/-! ### which classes implement the evaluable interface -/

/-- `get_evaluable_indices`, `get_evaluable_weights`, `get_lower_args` are implemented (`_Add` has none) -/
def hasLower : SampleExpr → Bool
  | .default _ _ => true
  | .custom _ _ => true           -- parent is a `_TransformChainsSample`
  | .add _ _ => false
  | .mul a b => hasLower a && hasLower b
  | .take p _ => hasLower p
  | .zip a b => hasLower a && hasLower b
  | .empty => true

/-- `integrate` / `eval` do not raise `NotImplementedError` -/
def canIntegrate : SampleExpr → Bool
  | .add a b => canIntegrate a && canIntegrate b
  | .mul a b => canIntegrate a && canIntegrate b
  | .take p _ => hasLower p
  | .zip a b => hasLower a && hasLower b
  | _ => true

/-! ### smart constructors -/

/-- `Sample.__add__` -/
def mkAdd (a b : SampleExpr) : SampleExpr :=
  if npoints b == 0 then a else if npoints a == 0 then b else .add a b

/-- `Sample.take_elements` with the overrides of `_Add`, `_TakeElements`, `_Empty` -/
def takeElements : SampleExpr → List Nat → SampleExpr
  | .empty, _ => .empty
  | .add a b, ind =>
    mkAdd (takeElements a (ind.filter fun i => decide (i < nelems a))) (takeElements b ((ind.filter fun i => !decide (i < nelems a)).map (· - nelems a)))
  | .take p pind, ind => takeElements p (ind.map fun i => pind.getD i 0)
  | .default t c, ind => if ind.isEmpty then .empty else .take (.default t c) ind
  | .custom p ix, ind => if ind.isEmpty then .empty else .take (.custom p ix) ind
  | .mul a b, ind => if ind.isEmpty then .empty else .take (.mul a b) ind
  | .zip a b, ind => if ind.isEmpty then .empty else .take (.zip a b) ind

/-! ## (b) quadrature rules: `TensorPoints`, `TransformPoints`, `ConcatPoints` -/

section Quadrature
variable {P Q P' : Type}

/-- a quadrature rule: the list of (point, weight) of a `Points` object -/
abbrev Rule (P α : Type) := List (P × α)

/-- `Σ w·g(x)` -/
def quad (r : Rule P α) (g : P → α) : α := (r.map fun pw => pw.2 * g pw.1).sum

def totalWeight (r : Rule P α) : α := (r.map (·.2)).sum

/-- `TensorPoints(points1, points2)`: coordinates concatenated, `weights = (w1[:,None] * w2[None,:]).ravel()` -/
def tensor (r1 : Rule P α) (r2 : Rule Q α) : Rule (P × Q) α :=
  r1.flatMap fun a => r2.map fun b => ((a.1, b.1), a.2 * b.2)

/-- `TransformPoints(points, trans)`: `coords = trans.apply(coords)`, `weights = weights * abs(det)` -/
def transform (r : Rule P α) (T : P → P') (absdet : α) : Rule P' α :=
  r.map fun pw => (T pw.1, pw.2 * absdet)

/-- `ConcatPoints(allpoints)` without duplicates (the Gauss and uniform schemes of `WithChildrenReference.getpoints`
and `MosaicReference.getpoints`) -/
def concat (rs : List (Rule P α)) : Rule P α := rs.flatten

/-- all (part, point) positions of `allpoints`, in concatenation order -/
def positions (rs : List (Rule P α)) : List (Nat × Nat) :=
  rs.zipIdx.flatMap fun ri => (List.range ri.1.length).map fun j => (ri.2, j)

def entryAt (rs : List (Rule P α)) (ij : Nat × Nat) : Option (P × α) := (rs[ij.1]?).bind (·[ij.2]?)

/-- `ConcatPoints.masks`: point `j` of part `i` is dropped when it is listed in some group after the first position -/
def dupMasked (dups : List (List (Nat × Nat))) (ij : Nat × Nat) : Bool := dups.any fun grp => grp.tail.contains ij

def weightOf (rs : List (Rule P α)) (ij : Nat × Nat) : α := ((entryAt rs ij).map (·.2)).getD 0

/-- `ConcatPoints.weights`: the first point of a group receives the weights of the dropped ones -/
def dupExtra (rs : List (Rule P α)) (dups : List (List (Nat × Nat))) (ij : Nat × Nat) : α :=
  (dups.map fun grp => if grp.head? = some ij then (grp.tail.map (weightOf rs)).sum else 0).sum

/-- `ConcatPoints(allpoints, duplicates)` (bezier scheme): masked points dropped, weights merged -/
def concatDedup (rs : List (Rule P α)) (dups : List (List (Nat × Nat))) : Rule P α :=
  (positions rs).filterMap fun ij =>
    if dupMasked dups ij then none else (entryAt rs ij).map fun pw => (pw.1, pw.2 + dupExtra rs dups ij)

end Quadrature

/-- `gauss1(degree)` uses `gauss(degree // 2)`, an `(degree//2 + 1)`-point Gauss-Legendre rule (eigenvalues of a
Jacobi matrix of that size); an `n`-point Gauss rule is exact to degree `2n-1` -/
def gauss1Npoints (degree : Nat) : Nat := degree / 2 + 1

/-! ## (c) specification of the extracted simplex tables (exact arithmetic)

A table entry `(deg, denX, denW, pts)` stands for the rule with points `x/denX` and weights `w/denW`
(`Generated/C09.lean`).  The checks are stated in cross-multiplied integer arithmetic: for a monomial
with exponents `e`, `|e| = Σ e_i`,

  `Σ (w/denW) Π (x_i/denX)^{e_i} = S / scale`,  `S = Σ w Π x_i^{e_i}`,  `scale = denW · denX^{|e|}`,
  `∫_simplex x^e = fn / fd`,  `fn = Π e_i!`,  `fd = (|e| + dim)!`,

so `|S/scale − fn/fd| ≤ 2·10⁻¹⁵  ⇔  |S·fd − fn·scale| · 10¹⁵ ≤ 2 · scale · fd`.  The same statement in `Rat`
arithmetic (`ratMonomialOK`) is kept as an executable cross-check (the driver evaluates both). -/

abbrev ITable := Nat × Nat × Nat × List (List Int × Int)

/-- all exponent tuples of length `dim` with total degree at most `deg` -/
def monomials : Nat → Nat → List (List Nat)
  | 0, _ => [[]]
  | dim+1, deg => (List.range (deg+1)).flatMap fun a => (monomials dim (deg - a)).map (a :: ·)

def factorial : Nat → Nat
  | 0 => 1
  | n+1 => (n+1) * factorial n

def prodNat (l : List Nat) : Nat := l.foldl (· * ·) 1
def prodInt (l : List Int) : Int := l.foldl (· * ·) 1
def sumInt (l : List Int) : Int := l.foldl (· + ·) 0

/-- `S = Σ w Π x_i^{e_i}` (numerators only) -/
def iRule (pts : List (List Int × Int)) (e : List Nat) : Int :=
  sumInt (pts.map fun pw => pw.2 * prodInt (List.zipWith (fun xi ei => xi ^ ei) pw.1 e))

/-- the tolerance `2·10⁻¹⁵` of the table check (the decimal literals carry 15-16 digits) as `epsNum / epsDen` -/
def epsNum : Nat := 2
def epsDen : Nat := 1000000000000000

def iMonomialOK (dim : Nat) (t : ITable) (e : List Nat) : Bool :=
  let s := iRule t.2.2.2 e
  let scale : Nat := t.2.2.1 * t.2.1 ^ e.sum
  let fn : Nat := prodNat (e.map factorial)
  let fd : Nat := factorial (e.sum + dim)
  decide ((s * (fd : Int) - (fn : Int) * (scale : Int)).natAbs * epsDen ≤ epsNum * scale * fd)

/-- positive denominators, `dim` coordinates per point, all barycentric coordinates nonnegative -/
def insideSimplex (dim : Nat) (t : ITable) : Bool :=
  decide (0 < t.2.1) && decide (0 < t.2.2.1) &&
  t.2.2.2.all fun pw => pw.1.length == dim && pw.1.all (fun x => decide (0 ≤ x)) && decide (sumInt pw.1 ≤ (t.2.1 : Int))

/-- every monomial of total degree at most the claimed degree is integrated to within `2·10⁻¹⁵`
(degree 0: the weights sum to the volume `1/dim!`) -/
def exactToDegree (dim : Nat) (t : ITable) : Bool := (monomials dim t.1).all (iMonomialOK dim t)

def tableOK (dim : Nat) (t : ITable) : Bool := insideSimplex dim t && exactToDegree dim t

/-- the same check in rational arithmetic -/
def ratMonomialOK (dim : Nat) (t : ITable) (e : List Nat) : Bool :=
  let q : Rat := (t.2.2.2.map fun pw => ((pw.2 : Rat) / (t.2.2.1 : Nat)) *
      (List.zipWith (fun (xi : Int) ei => ((xi : Rat) / (t.2.1 : Nat)) ^ ei) pw.1 e).foldl (· * ·) 1).foldl (· + ·) 0
  let exact : Rat := ((prodNat (e.map factorial) : Nat) : Rat) / ((factorial (e.sum + dim) : Nat) : Rat)
  let d := q - exact
  decide ((if d < 0 then -d else d) ≤ (epsNum : Rat) / (epsDen : Rat))

end NutilsVerif.C09
