/-!
# C09 — integration is exact quadrature of point evaluation  (model; no Mathlib)

Part (a) mirrors the index bookkeeping of `nutils.sample`: `_DefaultIndex`, `_CustomIndex`, `_Add`,
`_Mul`, `_TakeElements`, `_Zip`, `_Empty` (`nelems`, `npoints`, `getindex`), the per-element point
and weight lists the classes hand to `_Integral.lower` / `_ConcatenatePoints.lower`
(`get_lower_args`, `get_evaluable_weights`), the dispatch of `Sample._integral` / `Sample._bind`
(`integralCode`, `bindAt`), the smart constructors `Sample.__add__`, `Sample.take_elements`, and which
classes implement the evaluable interface at all (`hasLower`, `canIntegrate`).

Part (b) models `points.TensorPoints`, `TransformPoints`, `ConcatPoints` (with its duplicate handling)
as operations on quadrature rules, part (c) the specification functions for the extracted Gauss tables
(`Generated/C09.lean`) over exact rationals.

Arrays are modelled as `List`s (or as functions of the flat index where the code nests arrays);
values live in an arbitrary type with `+ * 0` (the theorems ask for a commutative semiring).
-/
namespace NutilsVerif.C09

/-! ## (a) sample expressions -/

/-- A leaf carries a tag (standing for its space / transforms / points sequence) and the number of
points of every element. -/
inductive SampleExpr where
  | default (tag : Nat) (counts : List Nat)            -- `_DefaultIndex(space, transforms, points)`
  | custom (parent : SampleExpr) (index : List Nat)    -- `_CustomIndex(parent, index)`
  | add (a b : SampleExpr)                             -- `_Add(sample1, sample2)`
  | mul (a b : SampleExpr)                             -- `_Mul(sample1, sample2)`
  | take (parent : SampleExpr) (indices : List Nat)    -- `_TakeElements(parent, indices)`
  | zip (a b : SampleExpr)                             -- `_Zip(sample1, sample2)` (n-ary zip = left nested)
  | empty                                              -- `_Empty`
deriving Repr, BEq, Inhabited

/-- `numpy.cumsum([s, *l])` -/
def cumsumFrom (s : Nat) : List Nat → List Nat
  | [] => [s]
  | c :: cs => s :: cumsumFrom (s + c) cs

/-- `numpy.cumsum([0] + l)`: the `offsets` arrays of `_DefaultIndex`, `_TakeElements`, `_Zip` -/
def cumsum0 (l : List Nat) : List Nat := cumsumFrom 0 l

/-- `numpy.arange(a, b)` -/
def arange (a b : Nat) : List Nat := List.range' a (b - a)

/-- `numpy.arange(*offsets[i:i+2])` for `i+1 < len(offsets)` -/
def segment (offs : List Nat) (i : Nat) : List Nat := arange (offs.getD i 0) (offs.getD (i+1) 0)

/-- what the constructors compute and `getindex` returns (`[]` stands for the `IndexError` of an
out-of-range element number) -/
structure Sem where
  nelems : Nat
  npoints : Nat
  getindex : Nat → List Nat

/-- `_Zip.__init__`: the element a point was last assigned to by the loop
`for ielem in range(nelems): ielems[isample, sample.getindex(ielem)] = ielem` -/
def elemOf (s : Sem) (p : Nat) : Nat :=
  (((List.range s.nelems).filter fun i => (s.getindex i).contains p).getLast?).getD 0

/-- `_Zip.__init__`: `ilocals[isample, indices] = arange(len(indices))` -/
def localOf (s : Sem) (p : Nat) : Nat := (s.getindex (elemOf s p)).idxOf p

/-- `numpy.ravel_multi_index((ielems_a, ielems_b), (nelems_a, nelems_b))` of point `p` -/
def zipKey (sa sb : Sem) (p : Nat) : Nat := elemOf sa p * sb.nelems + elemOf sb p

/-- `numpy.unique(flat_ielems)`: the sorted distinct keys -/
def zipUniq (sa sb : Sem) : List Nat :=
  let keys := (List.range sa.npoints).map (zipKey sa sb)
  (List.range (keys.foldl max 0 + 1)).filter fun k => keys.contains k

def sem : SampleExpr → Sem
  | .default _ counts =>
    { nelems := counts.length, npoints := counts.sum,
      getindex := fun i => if i < counts.length then segment (cumsum0 counts) i else [] }
  | .custom p ix =>
    let sp := sem p
    { nelems := sp.nelems, npoints := sp.npoints,
      getindex := fun i => (sp.getindex i).map fun j => ix.getD j 0 }   -- numpy.take(index, parent.getindex(i))
  | .add a b =>
    let sa := sem a; let sb := sem b
    { nelems := sa.nelems + sb.nelems, npoints := sa.npoints + sb.npoints,
      getindex := fun i => if i < sa.nelems then sa.getindex i
                           else (sb.getindex (i - sa.nelems)).map (· + sa.npoints) }
  | .mul a b =>
    let sa := sem a; let sb := sem b
    { nelems := sa.nelems * sb.nelems, npoints := sa.npoints * sb.npoints,
      getindex := fun e =>      -- ielem1, ielem2 = divmod(ielem, sample2.nelems)
        (sa.getindex (e / sb.nelems)).flatMap fun p => (sb.getindex (e % sb.nelems)).map fun q => p * sb.npoints + q }
  | .take p ind =>
    let sp := sem p
    let offs := cumsum0 (ind.map fun i => (sp.getindex i).length)
    { nelems := ind.length, npoints := offs.getLast?.getD 0,           -- self._offsets[-1]
      getindex := fun i => if i < ind.length then segment offs i else [] }
  | .zip a b =>
    let sa := sem a; let sb := sem b
    let uniq := zipUniq sa sb
    { nelems := uniq.length, npoints := sa.npoints,
      getindex := fun i => match uniq[i]? with       -- argsort(inverse)[offsets[i]:offsets[i+1]], stable
        | some k => (List.range sa.npoints).filter fun p => zipKey sa sb p == k
        | none => [] }
  | .empty => { nelems := 0, npoints := 0, getindex := fun _ => [] }

def nelems (s : SampleExpr) : Nat := (sem s).nelems
def npoints (s : SampleExpr) : Nat := (sem s).npoints
def getindex (s : SampleExpr) (i : Nat) : List Nat := (sem s).getindex i

/-- `Sample.index` -/
def index (s : SampleExpr) : List (List Nat) := (List.range (nelems s)).map (getindex s)

/-- What the constructors assume of their arguments (partly asserted by the code, partly the caller's
duty): a custom index is a permutation of `0..npoints`, taken element numbers exist, zipped samples have
equally many points. -/
def Valid : SampleExpr → Prop
  | .default _ _ => True
  | .custom p ix => Valid p ∧ ix.Perm (List.range (npoints p))
  | .add a b => Valid a ∧ Valid b
  | .mul a b => Valid a ∧ Valid b
  | .take p ind => Valid p ∧ ∀ i ∈ ind, i < nelems p
  | .zip a b => Valid a ∧ Valid b ∧ npoints a = npoints b
  | .empty => True

/-- executable version of `Valid` (`isPermB l n`: `l` has length `n` and contains every `j < n`) -/
def isPermB (l : List Nat) (n : Nat) : Bool := l.length == n && (List.range n).all fun j => l.contains j

def validB : SampleExpr → Bool
  | .default _ _ => true
  | .custom p ix => validB p && isPermB ix (npoints p)
  | .add a b => validB a && validB b
  | .mul a b => validB a && validB b
  | .take p ind => validB p && ind.all fun i => decide (i < nelems p)
  | .zip a b => validB a && validB b && npoints a == npoints b
  | .empty => true

/-! ### points and weights per element (`get_lower_args`, `get_evaluable_weights`) -/

/-- one point of a leaf sample: (leaf tag, element number, local point number) -/
abbrev LeafPt := Nat × Nat × Nat
/-- a point of a sample: one leaf point per space -/
abbrev Pt := List LeafPt

/-- the points of element `i` in the order of `Sample.points[i]` / the coordinates in `get_lower_args(i)` -/
def pts : SampleExpr → Nat → List Pt
  | .default t counts, i => (List.range (counts.getD i 0)).map fun k => [(t, i, k)]
  | .custom p _, i => pts p i
  | .add a b, i => if i < nelems a then pts a i else pts b (i - nelems a)
  | .mul a b, e => (pts a (e / nelems b)).flatMap fun pa => (pts b (e % nelems b)).map fun pb => pa ++ pb
  | .take p ind, i => match ind[i]? with | some j => pts p j | none => []
  | .zip a b, i =>
    let sa := sem a; let sb := sem b
    match (zipUniq sa sb)[i]? with
    | some k =>   -- ielems = unravel_index(k, (nelems a, nelems b)); coordinates taken at `ilocals`
      ((sem (.zip a b)).getindex i).map fun p =>
        ((pts a (k / sb.nelems)).getD (localOf sa p) []) ++ ((pts b (k % sb.nelems)).getD (localOf sb p) [])
    | none => []
  | .empty, _ => []

variable {α : Type} [Add α] [Mul α] [Zero α]

/-- `get_evaluable_weights(i)` (flattened), for leaf weights `w` -/
def wts (w : LeafPt → α) : SampleExpr → Nat → List α
  | .default t counts, i => (List.range (counts.getD i 0)).map fun k => w (t, i, k)
  | .custom p _, i => wts w p i
  | .add a b, i => if i < nelems a then wts w a i else wts w b (i - nelems a)   -- (only used by the specification: `_Add` has no weights)
  | .mul a b, e => (wts w a (e / nelems b)).flatMap fun wa => (wts w b (e % nelems b)).map fun wb => wa * wb  -- einsum('A,B->AB')
  | .take p ind, i => match ind[i]? with | some j => wts w p j | none => []
  | .zip a b, i =>
    let sa := sem a; let sb := sem b
    match (zipUniq sa sb)[i]? with
    | some k => ((sem (.zip a b)).getindex i).map fun p => (wts w a (k / sb.nelems)).getD (localOf sa p) 0   -- first sample provides the weights
    | none => []
  | .empty, _ => []

def dot (ws vs : List α) : α := (List.zipWith (· * ·) ws vs).sum

/-- `_Integral.lower`: `loop_sum(einsum('B,ABC->AC', weights, integrand), ielem)` -/
def loopIntegral (w : LeafPt → α) (s : SampleExpr) (f : Pt → α) : α :=
  ((List.range (nelems s)).map fun i => dot (wts w s i) ((pts s i).map f)).sum

/-- `Sample.integral` with the overrides of `_Add._integral`, `_Mul._integral`, `_Empty._integral` -/
def integralCode (w : LeafPt → α) : SampleExpr → (Pt → α) → α
  | .add a b, f => integralCode w a f + integralCode w b f
  | .mul a b, f => integralCode w a fun pa => integralCode w b fun pb => f (pa ++ pb)
  | .empty, _ => 0
  | .default t c, f => loopIntegral w (.default t c) f
  | .custom p ix, f => loopIntegral w (.custom p ix) f
  | .take p ind, f => loopIntegral w (.take p ind) f
  | .zip a b, f => loopIntegral w (.zip a b) f

/-- `Inflate(loop_concatenate(vals), loop_concatenate(indices), npoints)` at position `q`:
every entry of element `i`, local point `k` is added at position `getindex(i)[k]` -/
def scatterAt (nel : Nat) (gi : Nat → List Nat) (vals : Nat → List α) (q : Nat) : α :=
  ((List.range nel).map fun i => ((List.zip (gi i) (vals i)).map fun pv => if pv.1 = q then pv.2 else 0).sum).sum

/-- `loop_concatenate(vals)` at position `q` (`_ConcatenatePoints.lower`) -/
def concatAt (nel : Nat) (vals : Nat → List α) (q : Nat) : α :=
  (((List.range nel).map vals).flatten)[q]?.getD 0

/-- `Sample.bind(f)` at flat position `q` (arrays of arrays are indexed, not built), with the overrides of
`_DefaultIndex._bind` (no reordering), `_Add._bind` (concatenate), `_Mul._bind` (nested, reshaped),
`_Empty._bind`; all others reorder by the concatenated `get_evaluable_indices`. -/
def bindAt : SampleExpr → (Pt → α) → Nat → α
  | .default t c, f, q => concatAt (nelems (.default t c)) (fun i => (pts (.default t c) i).map f) q
  | .add a b, f, q => if q < npoints a then bindAt a f q else bindAt b f (q - npoints a)
  | .mul a b, f, q => bindAt a (fun pa => bindAt b (fun pb => f (pa ++ pb)) (q % npoints b)) (q / npoints b)
  | .empty, _, _ => 0
  | .custom p ix, f, q => scatterAt (nelems (.custom p ix)) (getindex (.custom p ix)) (fun i => (pts (.custom p ix) i).map f) q
  | .take p ind, f, q => scatterAt (nelems (.take p ind)) (getindex (.take p ind)) (fun i => (pts (.take p ind) i).map f) q
  | .zip a b, f, q => scatterAt (nelems (.zip a b)) (getindex (.zip a b)) (fun i => (pts (.zip a b) i).map f) q

/-- `Sample.eval(f)` -/
def bindList (s : SampleExpr) (f : Pt → α) : List α := (List.range (npoints s)).map (bindAt s f)

/-- specification: the weight that belongs to flat position `q` of `Sample.eval` -/
def weightAt (w : LeafPt → α) (s : SampleExpr) (q : Nat) : α := scatterAt (nelems s) (getindex s) (wts w s) q

/-- specification: `(weights * sample.eval(f)).sum()` -/
def flatWeightedSum (w : LeafPt → α) (s : SampleExpr) (f : Pt → α) : α :=
  ((List.range (npoints s)).map fun q => weightAt w s q * bindAt s f q).sum

/-! ### which classes implement the evaluable interface -/

/-- `get_evaluable_indices`, `get_evaluable_weights`, `get_lower_args` are implemented (`_Add` has none) -/
def hasLower : SampleExpr → Bool
  | .default _ _ => true
  | .custom _ _ => true           -- parent is a `_TransformChainsSample`
  | .add _ _ => false
  | .mul a b => hasLower a && hasLower b
  | .take p _ => hasLower p
  | .zip a b => hasLower a && hasLower b
  | .empty => true

/-- `integrate` / `eval` do not raise `NotImplementedError` -/
def canIntegrate : SampleExpr → Bool
  | .add a b => canIntegrate a && canIntegrate b
  | .mul a b => canIntegrate a && canIntegrate b
  | .take p _ => hasLower p
  | .zip a b => hasLower a && hasLower b
  | _ => true

/-! ### smart constructors -/

/-- `Sample.__add__` -/
def mkAdd (a b : SampleExpr) : SampleExpr :=
  if npoints b == 0 then a else if npoints a == 0 then b else .add a b

/-- `Sample.take_elements` with the overrides of `_Add`, `_TakeElements`, `_Empty` -/
def takeElements : SampleExpr → List Nat → SampleExpr
  | .empty, _ => .empty
  | .add a b, ind =>
    mkAdd (takeElements a (ind.filter fun i => decide (i < nelems a))) (takeElements b ((ind.filter fun i => !decide (i < nelems a)).map (· - nelems a)))
  | .take p pind, ind => takeElements p (ind.map fun i => pind.getD i 0)
  | .default t c, ind => if ind.isEmpty then .empty else .take (.default t c) ind
  | .custom p ix, ind => if ind.isEmpty then .empty else .take (.custom p ix) ind
  | .mul a b, ind => if ind.isEmpty then .empty else .take (.mul a b) ind
  | .zip a b, ind => if ind.isEmpty then .empty else .take (.zip a b) ind

end NutilsVerif.C09
