import NutilsVerif.Model.C06
/-!
# C06 — part 3: a small integer expression language, and part 4: the consumers of ranges  (no Mathlib)

`Expr` is a fragment of `nutils.evaluable` restricted to integer arrays, flattened to `List Int`:
constants, arguments with a declared range (the harness realises them as `Argument` subclasses),
loop indices, the pointwise integer operations, `InRange`, `NormDim`, `RavelIndex`, `Range`,
`InsertAxis`, `Take`, `Sum`, `_SizesToOffsets`, `LoopSum`, `LoopConcatenate`.  Nodes whose range or
whose arguments depend on a length (`Sum`, `_SizesToOffsets`, `LoopConcatenate` whose `start/stop/concat_length`
are built from `func.shape[-1]`, …) carry that length expression as an explicit child (`f.shape[-1]` in the
code); the evaluator checks that the child really is the length.

* `eval`    what evaluation delivers (`none` = evaluation raises / operands outside the modelled domain)
* `bounds`  `_intbounds` of the node (`none` = it raises)
* `deps`    the announced `arguments` (arguments and free loop indices; a loop removes its own index)
-/
namespace NutilsVerif.C06
open PyNum

inductive Expr where
  | const (scalar : Bool) (vals : List Int)
  | argS (name : Nat) (lo hi : PyNum)
  | argV (name : Nat) (lo hi : PyNum) (len : Expr)
  | loopIndex (id : Nat) (len : Expr)
  | neg (a : Expr)
  | abs (a : Expr)
  | sign (a : Expr)
  | add (a b : Expr)
  | mul (a b : Expr)
  | floordiv (a b : Expr)
  | mod (a b : Expr)
  | min (a b : Expr)
  | max (a b : Expr)
  | inRange (idx len : Expr)
  | normDim (len idx : Expr)
  | ravelIndex (ia ib nb : Expr)
  | range (n : Expr)
  | insertAxis (a n : Expr)
  | take (f idx : Expr)
  | sum (f n : Expr)
  | sizesToOffsets (s n : Expr)
  | loopSum (id : Nat) (len body : Expr)
  | loopConcat (id : Nat) (len body blen : Expr)
deriving Repr, Inhabited

/-- what a node can depend on: a named argument or the index of an enclosing loop -/
inductive Dep where
  | arg (name : Nat)
  | loop (id : Nat)
deriving DecidableEq, Repr

structure Env where
  args : Nat → List Int
  loops : Nat → Int

def Env.setLoop (ρ : Env) (id : Nat) (i : Int) : Env :=
  { ρ with loops := fun j => if j = id then i else ρ.loops j }

def Env.empty : Env := { args := fun _ => [], loops := fun _ => 0 }

def scalarOf : Option (List Int) → Option Int
  | some [v] => some v
  | _ => none

/-- `mapM` for `Option`, with plain structural equations -/
def mapOpt {α β : Type} (f : α → Option β) : List α → Option (List β)
  | [] => some []
  | a :: t =>
    match f a, mapOpt f t with
    | some b, some bs => some (b :: bs)
    | _, _ => none

/-- pointwise binary operation on equally shaped operands; `none` as soon as one element is undefined -/
def zipOp (f : Int → Int → Option Int) (a b : Option (List Int)) : Option (List Int) :=
  match a, b with
  | some va, some vb => if va.length = vb.length then mapOpt (fun p => f p.1 p.2) (va.zip vb) else none
  | _, _ => none

def inRng (lo hi : PyNum) (v : List Int) : Bool := v.all fun x => decide (Mem x (lo, hi))

/-- `numpy.take(f, i, axis=-1)` for 1-d `f`: negative indices wrap once, anything else raises -/
def takeVal (fv : List Int) (i : Int) : Option Int :=
  let j := if i < 0 then i + fv.length else i
  if 0 ≤ j ∧ j < fv.length then fv[j.toNat]? else none

/-- values of the loop body for the iterations `0 .. n-1` -/
def iterate (n : Int) (body : Int → Option (List Int)) : Option (List (List Int)) :=
  if n < 0 then none else mapOpt (fun (i : Nat) => body (i : Int)) (List.range n.toNat)

/-- one chunk of a `LoopConcatenate`: the body value, whose length must be what the body's announced length evaluates to -/
def checkedPart (p : Option (List Int)) (k : Option Int) : Option (List Int) :=
  match p, k with
  | some p, some k => if (p.length : Int) = k then some p else none
  | _, _ => none

def eval : Expr → Env → Option (List Int)
  | .const _ vals, _ => some vals
  | .argS name lo hi, ρ =>
    let v := ρ.args name
    if v.length = 1 ∧ inRng lo hi v then some v else none
  | .argV name lo hi len, ρ =>
    match scalarOf (eval len ρ) with
    | some n =>
      let v := ρ.args name
      if (v.length : Int) = n ∧ inRng lo hi v then some v else none
    | none => none
  | .loopIndex id len, ρ =>
    match scalarOf (eval len ρ) with
    | some n => if 0 ≤ ρ.loops id ∧ ρ.loops id < n then some [ρ.loops id] else none
    | none => none
  | .neg a, ρ => (eval a ρ).map (·.map fun x => -x)
  | .abs a, ρ => (eval a ρ).map (·.map iabs)
  | .sign a, ρ => (eval a ρ).map (·.map isign)
  | .add a b, ρ => zipOp (fun x y => some (x + y)) (eval a ρ) (eval b ρ)
  | .mul a b, ρ => zipOp (fun x y => some (x * y)) (eval a ρ) (eval b ρ)
  | .floordiv a b, ρ => zipOp pyFloorDiv (eval a ρ) (eval b ρ)
  | .mod a b, ρ => zipOp pyMod (eval a ρ) (eval b ρ)
  | .min a b, ρ => zipOp (fun x y => some (Min.min x y)) (eval a ρ) (eval b ρ)
  | .max a b, ρ => zipOp (fun x y => some (Max.max x y)) (eval a ρ) (eval b ρ)
  | .inRange idx len, ρ =>
    match eval idx ρ, scalarOf (eval len ρ) with
    | some iv, some n => if iv.all (fun x => decide (0 ≤ x ∧ x < n)) then some iv else none
    | _, _ => none
  | .normDim len idx, ρ => zipOp normdimVal (eval len ρ) (eval idx ρ)
  | .ravelIndex ia ib nb, ρ =>
    match eval ia ρ, eval ib ρ, scalarOf (eval nb ρ) with
    | some va, some vb, some n =>
      if va.all (fun a => decide (0 ≤ a)) ∧ 0 ≤ n then some (va.flatMap fun a => vb.map fun b => ravelIndexVal a b n) else none
    | _, _, _ => none
  | .range n, ρ =>
    match scalarOf (eval n ρ) with
    | some k => if k < 0 then none else some ((List.range k.toNat).map fun (i : Nat) => (i : Int))
    | none => none
  | .insertAxis a n, ρ =>
    match eval a ρ, scalarOf (eval n ρ) with
    | some va, some k => if k < 0 then none else some (va.flatMap fun x => List.replicate k.toNat x)
    | _, _ => none
  | .take f idx, ρ =>
    match eval f ρ, eval idx ρ with
    | some fv, some iv => mapOpt (takeVal fv) iv
    | _, _ => none
  | .sum f n, ρ =>
    match eval f ρ, scalarOf (eval n ρ) with
    | some fv, some k => if (fv.length : Int) = k then some [fv.sum] else none
    | _, _ => none
  | .sizesToOffsets s n, ρ =>
    match eval s ρ, scalarOf (eval n ρ) with
    | some sv, some k => if (sv.length : Int) = k ∧ sv.all (fun x => decide (0 ≤ x)) then some (offsetsVal sv) else none
    | _, _ => none
  | .loopSum id len body, ρ =>
    match scalarOf (eval len ρ) with
    | some n =>
      match iterate n (fun i => (scalarOf (eval body (ρ.setLoop id i))).map fun v => [v]) with
      | some parts => some [parts.flatten.sum]
      | none => none
    | none => none
  | .loopConcat id len body blen, ρ =>
    match scalarOf (eval len ρ) with
    | some n =>
      match iterate n (fun i => checkedPart (eval body (ρ.setLoop id i)) (scalarOf (eval blen (ρ.setLoop id i)))) with
      | some parts => some parts.flatten
      | none => none
    | none => none

/-- the node is 0-d (`ndim == 0`) -/
def isScalar : Expr → Bool
  | .const s _ => s
  | .argS .. => true
  | .argV .. => false
  | .loopIndex .. => true
  | .neg a | .abs a | .sign a => isScalar a
  | .add a _ | .mul a _ | .floordiv a _ | .mod a _ | .min a _ | .max a _ => isScalar a
  | .inRange idx _ => isScalar idx
  | .normDim _ idx => isScalar idx
  | .ravelIndex ia ib _ => isScalar ia && isScalar ib
  | .range _ => false
  | .insertAxis .. => false
  | .take _ idx => isScalar idx
  | .sum .. => true
  | .sizesToOffsets .. => false
  | .loopSum .. => true
  | .loopConcat .. => false

/-- everything the value or the definedness of a node can depend on: arguments, free loop indices, and the arguments of the
lengths of `Argument`s and loop indices (an `Argument` raises when the passed value does not have the announced shape) -/
def depsAll : Expr → List Dep
  | .const .. => []
  | .argS name .. => [.arg name]
  | .argV name _ _ len => .arg name :: depsAll len
  | .loopIndex id len => .loop id :: depsAll len
  | .neg a | .abs a | .sign a => depsAll a
  | .add a b | .mul a b | .floordiv a b | .mod a b | .min a b | .max a b => depsAll a ++ depsAll b
  | .inRange a b | .normDim a b | .insertAxis a b | .take a b | .sum a b | .sizesToOffsets a b => depsAll a ++ depsAll b
  | .ravelIndex ia ib nb => depsAll ia ++ depsAll ib ++ depsAll nb
  | .range n => depsAll n
  | .loopSum id len body => depsAll len ++ (depsAll body).filter (· ≠ .loop id)
  | .loopConcat id len body blen => depsAll len ++ (depsAll body ++ depsAll blen).filter (· ≠ .loop id)

/-- `Evaluable.arguments` as announced by the code: union over the dependencies, except that `Argument.arguments` and
`_LoopIndex.arguments` are `{self}` (the arguments of their shape / length are not included); a `Loop` removes its own index -/
def deps : Expr → List Dep
  | .const .. => []
  | .argS name .. => [.arg name]
  | .argV name .. => [.arg name]
  | .loopIndex id _ => [.loop id]
  | .neg a | .abs a | .sign a => deps a
  | .add a b | .mul a b | .floordiv a b | .mod a b | .min a b | .max a b => deps a ++ deps b
  | .inRange a b | .normDim a b | .insertAxis a b | .take a b => deps a ++ deps b
  | .sum f _ | .sizesToOffsets f _ => deps f   -- the length child is `f.shape[-1]`, not a dependency of the node
  | .ravelIndex ia ib nb => deps ia ++ deps ib ++ deps nb
  | .range n => deps n
  | .loopSum id len body => deps len ++ (deps body).filter (· ≠ .loop id)
  | .loopConcat id len body blen => deps len ++ (deps body ++ deps blen).filter (· ≠ .loop id)

/-- `Array._intbounds_impl` (the default): a 0-d constant integer array is evaluated (`__index__`), else unbounded.
(`isconstant` is `not arguments`; on DAGs that can be built — every loop index inside a loop carries the loop's own length —
`deps e = []` and `depsAll e = []` coincide.) -/
def defaultBounds (e : Expr) : Option Rng :=
  if isScalar e && (depsAll e).isEmpty then
    match scalarOf (eval e Env.empty) with
    | some v => some (int v, int v)
    | none => none
  else some unbounded

/-- constructor assertions (`_isindex(nb)`, `_isindex` of every shape entry, `sizes._intbounds[0] >= 0`): a node violating
them cannot be built, which the model renders as "no range" -/
def guardIdx (r : Rng) (o : Option Rng) : Option Rng := if PyNum.le (int 0) r.1 then o else none

def bounds : Expr → Option Rng
  | .const _ vals => bnd (tfConstant vals)
  | .argS _ lo hi => bnd (some (lo, hi))
  | .argV _ lo hi _ => bnd (some (lo, hi))
  | .loopIndex _ len => (bounds len).bind fun l => bnd (tfIndexBelow l)
  | .neg a => (bounds a).bind fun r => bnd (tfNeg r)
  | .abs a => (bounds a).bind fun r => bnd (tfAbs r)
  | .sign a => (bounds a).bind fun r => bnd (tfSign r)
  | .add a b => (bounds a).bind fun ra => (bounds b).bind fun rb => bnd (tfAdd [ra, rb])
  | .mul a b => (bounds a).bind fun ra => (bounds b).bind fun rb => bnd (tfMul ra rb)
  | .floordiv a b => (bounds a).bind fun ra => (bounds b).bind fun rb => bnd (tfFloorDiv ra rb)
  | .mod a b =>
    (bounds b).bind fun rb =>
      if PyNum.lt (int 0) rb.1 then (bounds a).bind fun ra => bnd (tfMod ra rb none)
      else (defaultBounds (.mod a b)).bind post
  | .min a b => (bounds a).bind fun ra => (bounds b).bind fun rb => bnd (tfMin ra rb)
  | .max a b => (bounds a).bind fun ra => (bounds b).bind fun rb => bnd (tfMax ra rb)
  | .inRange idx len => (bounds idx).bind fun ri => (bounds len).bind fun rl => bnd (tfInRange ri rl)
  | .normDim len idx => (bounds len).bind fun rl => (bounds idx).bind fun ri => bnd (tfNormDim rl ri)
  | .ravelIndex ia ib nb => (bounds nb).bind fun rn => (bounds ia).bind fun ra => (bounds ib).bind fun rb => bnd (guardIdx rn (tfRavelIndex ra rb rn))
  | .range n => (bounds n).bind fun l => bnd (tfRange l)
  | .insertAxis a _ => (bounds a).bind fun r => bnd (tfIdentity r)
  | .take f _ => (bounds f).bind fun r => bnd (tfIdentity r)
  | .sum f n => (bounds f).bind fun rf => (bounds n).bind fun rn => bnd (guardIdx rn (tfSum rf rn))
  | .sizesToOffsets s n => (bounds n).bind fun rn => (bounds s).bind fun rs => bnd (guardIdx rs (tfSizesToOffsets rs rn))
  | .loopSum id len body => (defaultBounds (.loopSum id len body)).bind post
  | .loopConcat _ _ body _ => (bounds body).bind fun r => bnd (tfIdentity r)

/-! ## announced shape (0-d or 1-d: the announced length as an expression) -/

def one : Expr := .const true [1]

/-- `loop_concatenate`: `concat_length = Take(_SizesToOffsets(chunk_sizes), index.length)` with
`chunk_sizes = loop_concatenate(InsertAxis(chunk_size, 1), index)`, whose own length is built the same way from the constant
chunk size 1.  (For a chunk size without arguments the code uses `InsertAxis(chunk_size, length)` as `chunk_sizes` instead: same
values and the same range — `_SizesToOffsets` only reads upper bounds —, checked by the harness against the real shape.) -/
def concatLen (id : Nat) (len blen : Expr) : Expr :=
  .take (.sizesToOffsets (.loopConcat id len (.insertAxis blen one) one)
      (.take (.sizesToOffsets (.insertAxis one len) len) len)) len

/-- the announced `shape`: `none` = 0-d, `some l` = 1-d of length `l` (2-d results of `RavelIndex` are outside the fragment) -/
def lenOf : Expr → Option Expr
  | .const s vals => if s then none else some (.const true [(vals.length : Int)])
  | .argS .. => none
  | .argV _ _ _ len => some len
  | .loopIndex .. => none
  | .neg a | .abs a | .sign a => lenOf a
  | .add a _ | .mul a _ | .floordiv a _ | .mod a _ | .min a _ | .max a _ => lenOf a
  | .inRange idx _ => lenOf idx
  | .normDim _ idx => lenOf idx
  | .ravelIndex ia ib _ => (match lenOf ia with | none => lenOf ib | some l => some l)
  | .range n => some n
  | .insertAxis _ n => some n
  | .take _ idx => lenOf idx
  | .sum .. => none
  | .sizesToOffsets _ n => some (.add n one)
  | .loopSum .. => none
  | .loopConcat id len _ blen => some (concatLen id len blen)

/-- well-shaped expressions of the 0-d / 1-d fragment -/
def WF : Expr → Prop
  | .const s vals => s = true → vals.length = 1
  | .argS .. => True
  | .argV _ _ _ len => WF len
  | .loopIndex _ len => WF len
  | .neg a | .abs a | .sign a | .range a => WF a
  | .add a b | .mul a b | .floordiv a b | .mod a b | .min a b | .max a b => WF a ∧ WF b
  | .inRange a b | .normDim a b | .take a b | .sum a b | .sizesToOffsets a b => WF a ∧ WF b
  | .ravelIndex ia ib nb => WF ia ∧ WF ib ∧ WF nb ∧ (lenOf ia = none ∨ lenOf ib = none)
  | .insertAxis a n => WF a ∧ WF n ∧ lenOf a = none
  | .loopSum _ len body => WF len ∧ WF body
  | .loopConcat _ len body blen => WF len ∧ WF body ∧ WF blen

/-- the evaluated value has the announced shape -/
def LenOK (e : Expr) (ρ : Env) (v : List Int) : Prop :=
  match lenOf e with
  | none => v.length = 1
  | some l => scalarOf (eval l ρ) = some (v.length : Int)

/-! ## Part 4: consumers of ranges -/

/-- `_isindex(arg)` -/
def isIndex (e : Expr) : Bool :=
  isScalar e && (match bounds e with | some r => PyNum.le (int 0) r.1 | none => false)

/-- `InRange._simplified`: `0 <= lower_index <= upper_index < lower_length` drops the run-time check -/
def simpInRange (idx len : Expr) : Option Expr :=
  match bounds len, bounds idx with
  | some rl, some ri => if PyNum.le (int 0) ri.1 && PyNum.le ri.1 ri.2 && PyNum.lt ri.2 rl.1 then some idx else none
  | _, _ => none

/-- `Mod._simplified` -/
def simpMod (a b : Expr) : Option Expr :=
  match bounds b with
  | some rb =>
    if PyNum.lt (int 0) rb.1 then
      match bounds a with
      | some ra => if PyNum.le (int 0) ra.1 && PyNum.lt ra.2 rb.1 then some a else none
      | none => none
    else none
  | none => none

/-- `Minimum._simplified` -/
def simpMin (x y : Expr) : Option Expr :=
  match bounds x, bounds y with
  | some r1, some r2 => if PyNum.le r1.2 r2.1 then some x else if PyNum.le r2.2 r1.1 then some y else none
  | _, _ => none

/-- `Maximum._simplified` -/
def simpMax (x y : Expr) : Option Expr :=
  match bounds x, bounds y with
  | some r1, some r2 => if PyNum.le r2.2 r1.1 then some x else if PyNum.le r1.2 r2.1 then some y else none
  | _, _ => none

/-- `NormDim._simplified`, first rule: `0 <= lower_index and upper_index < lower_length` (the second rule, `index + lower_length`
for a constant length and a negative index, and the constant-folding rule are exercised on the real code only) -/
def simpNormDim (len idx : Expr) : Option Expr :=
  match bounds len, bounds idx with
  | some rl, some ri => if PyNum.le (int 0) ri.1 && PyNum.lt ri.2 rl.1 then some idx else none
  | _, _ => none

end NutilsVerif.C06
