import NutilsVerif.Core.Tensor
/-!
# C13 (e): the ravel loop of `evaluable.Monomial._derivative`

`factor` stores one index vector per axis of every argument of a monomial.  To differentiate, `Monomial._derivative`
combines these into one flat (row-major) index into the raveled argument:

```
*indices, ravel_index = self.indices[iarg]
*lengths, ravel_length = arg.shape
while indices:
    ravel_index += indices.pop() * ravel_length
    ravel_length *= lengths.pop()
m = unravel(Inflate(Diagonalize(m), ravel_index, ravel_length), -1, arg.shape)
```

The model works on one entry of the index vectors (the code does the same arithmetic on whole vectors).  `pop()` takes
from the end, so the loop state holds the remaining leading axes *reversed*.  `none` = `lengths.pop()` on an empty list
(IndexError; excluded by `Monomial.__post_init__`, which asserts `len(indices) == arg.ndim`).
-/
namespace NutilsVerif.C13

/-- the `while indices:` loop; both lists hold the remaining leading axes, last one first -/
def ravelLoop : List Nat → List Nat → Nat → Nat → Option (Nat × Nat)
  | [], _, ri, rl => some (ri, rl)
  | _ :: _, [], _, _ => none
  | i :: is, n :: ns, ri, rl => ravelLoop is ns (ri + i * rl) (rl * n)

/-- `(ravel_index, ravel_length)` handed to `Inflate`, for an argument with at least one axis -/
def monomialRavel (indices lengths : List Nat) : Option (Nat × Nat) :=
  match indices.reverse, lengths.reverse with
  | ri :: is, rl :: ns => ravelLoop is ns ri rl
  | _, _ => none

/-- the seeded variant that walks the lengths from the first axis while the indices are walked from the last -/
def monomialRavelForwardLengths (indices lengths : List Nat) : Option (Nat × Nat) :=
  match indices.reverse, lengths.reverse with
  | ri :: is, rl :: ns => ravelLoop is ns.reverse ri rl
  | _, _ => none

end NutilsVerif.C13
