import NutilsVerif.Generated.C11
/-!
# C11 — element lookup and coordinate maps (model; no Mathlib)

Mirrors `nutils.transform` (transform items as affine maps, `apply`, `swapup` / `swapdown` of
`SimplexEdge`, `TensorEdge1/2`, `ScaledUpdim`, `Updim`, the loops `canonical`, `uppermost`, `promote`)
and `nutils.transformseq` (`index_with_tail`, `__getitem__`, `__len__` of Empty/Plain/Index/Structured/
Masked/Reordered/Derived/UniformDerived/Chained transforms).

The affine data of `SimplexChild` / `SimplexEdge` and the table `SimplexEdge.swap` are *not* written
here: they are read from `Generated/C11.lean`, which the harness regenerates from the real classes on
every run.  Coefficients are exact rationals (all of them are dyadic in the source).

Items are kinded the way the constructors of the source assert it: `TensorChild(Square, Square)`,
`TensorEdge1(Updim, int)`, `TensorEdge2(int, Updim)`, `ScaledUpdim(Square, Updim)`.
-/
namespace NutilsVerif.C11

abbrev Vec := List Rat
abbrev Mat := List (List Rat)

/-! ## rational affine maps -/

def dot (a b : Vec) : Rat := (List.zipWith (· * ·) a b).sum

/-- `numpy.dot(points, linear.T) + offset` for one point -/
def affApply (lin : Mat) (off : Vec) (x : Vec) : Vec :=
  List.zipWith (· + ·) (lin.map (dot · x)) off

def lookupTab (tab : List ((Nat × Nat) × (Mat × Vec × Bool))) (n k : Nat) : Mat × Vec × Bool :=
  match tab.lookup (n, k) with
  | some v => v
  | none => ([], [], false)

/-- affine data of `SimplexChild(n, k)` (extracted table) -/
def childAff (n k : Nat) : Mat × Vec × Bool := lookupTab Gen.childTab n k
/-- affine data of `SimplexEdge(n, k)` (extracted table, not inverted) -/
def edgeAff (n k : Nat) : Mat × Vec × Bool := lookupTab Gen.edgeTab n k

/-- determinant by Laplace expansion along the first row (`fuel` = size) -/
def det : Nat → Mat → Rat
  | 0, _ => 1
  | n+1, m =>
    match m with
    | [] => 1
    | r :: rest =>
      ((List.range r.length).map fun j =>
        (if j % 2 = 0 then (1 : Rat) else -1) * r.getD j 0 * det n (rest.map fun row => row.eraseIdx j)).sum

/-! ## transform items -/

/-- subclasses of `transform.Square` -/
inductive Sq where
  | identity (n : Nat)
  | index (n : Nat) (i : Int)
  | simplexChild (n k : Nat)
  | tensorChild (a b : Sq)
  | generic (lin : Mat) (off : Vec)
deriving DecidableEq, Repr

/-- subclasses of `transform.Updim` -/
inductive Up where
  | simplexEdge (n k : Nat) (inverted : Bool)
  | tensorEdge1 (e : Up) (n2 : Nat)
  | tensorEdge2 (n1 : Nat) (e : Up)
  | scaledUpdim (c : Sq) (e : Up)
  | generic (lin : Mat) (off : Vec) (flip : Bool)
deriving DecidableEq, Repr

/-- a transform item; `mat` is a plain `transform.Matrix` / `transform.Point` (never swapped) -/
inductive Item where
  | sq (s : Sq)
  | up (u : Up)
  | mat (fd : Nat) (lin : Mat) (off : Vec)
deriving DecidableEq, Repr

abbrev Chain := List Item

def Sq.dim : Sq → Nat
  | .identity n => n
  | .index n _ => n
  | .simplexChild n _ => n
  | .tensorChild a b => a.dim + b.dim
  | .generic _ off => off.length

def Up.td : Up → Nat
  | .simplexEdge n _ _ => n
  | .tensorEdge1 e n2 => e.td + n2
  | .tensorEdge2 n1 e => n1 + e.td
  | .scaledUpdim c _ => c.dim
  | .generic _ off _ => off.length

def Up.fd : Up → Nat
  | .simplexEdge n _ _ => n - 1
  | .tensorEdge1 e n2 => e.fd + n2
  | .tensorEdge2 n1 e => n1 + e.fd
  | .scaledUpdim _ e => e.fd
  | .generic _ off _ => off.length - 1

def Item.td : Item → Nat
  | .sq s => s.dim
  | .up u => u.td
  | .mat _ _ off => off.length

def Item.fd : Item → Nat
  | .sq s => s.dim
  | .up u => u.fd
  | .mat fd _ _ => fd

def Item.isUp : Item → Bool
  | .up _ => true
  | _ => false

/-- `trans.apply(point)` -/
def Sq.app : Sq → Vec → Vec
  | .identity _, x => x
  | .index _ _, x => x
  | .simplexChild n k, x => affApply (childAff n k).1 (childAff n k).2.1 x
  | .tensorChild a b, x => a.app (x.take a.dim) ++ b.app (x.drop a.dim)
  | .generic lin off, x => affApply lin off x

def Up.app : Up → Vec → Vec
  | .simplexEdge n k _, x => affApply (edgeAff n k).1 (edgeAff n k).2.1 x
  | .tensorEdge1 e _, x => e.app (x.take e.fd) ++ x.drop e.fd
  | .tensorEdge2 n1 e, x => x.take n1 ++ e.app (x.drop n1)
  | .scaledUpdim c e, x => c.app (e.app x)
  | .generic lin off _, x => affApply lin off x

def Item.app : Item → Vec → Vec
  | .sq s, x => s.app x
  | .up u, x => u.app x
  | .mat _ lin off, x => affApply lin off x

/-- `isflipped` -/
def Sq.flip : Sq → Bool
  | .identity _ => false
  | .index _ _ => false
  | .simplexChild n k => (childAff n k).2.2
  | .tensorChild a b => a.flip != b.flip
  | .generic lin _ => decide (det lin.length lin < 0)

def Up.flip : Up → Bool
  | .simplexEdge n k inv => inv != (edgeAff n k).2.2
  | .tensorEdge1 e _ => e.flip
  | .tensorEdge2 n1 e => e.flip != (n1 % 2 == 1)
  | .scaledUpdim c e => c.flip != e.flip
  | .generic _ _ f => f

def Item.flip : Item → Bool
  | .sq s => s.flip
  | .up u => u.flip
  | .mat .. => false

/-- `transform.apply(chain, point)`: the last item is applied first -/
def Chain.app (ch : Chain) (x : Vec) : Vec := ch.foldr (fun it acc => it.app acc) x

def Chain.flip (ch : Chain) : Bool := ch.foldr (fun it acc => it.flip != acc) false

def zeros (n : Nat) : Vec := List.replicate n 0
def unitVec (n j : Nat) : Vec := (List.range n).map fun i => if i = j then 1 else 0

/-- the matrix and offset of a map `R^fd → R^td` given pointwise: `(linear rows, offset)` -/
def linOff (f : Vec → Vec) (fd : Nat) : Mat × Vec :=
  let o := f (zeros fd)
  let cols := (List.range fd).map fun j => List.zipWith (· - ·) (f (unitVec fd j)) o
  ((List.range o.length).map fun r => cols.map fun c => c.getD r 0, o)

/-! ## swaps -/

def swapLookup (ie ic : Nat) : Option (Nat × Nat) := (Gen.swapTab[ie]?).bind (·[ic]?)

/-- the search of `SimplexEdge.swapdown`: first row among `swap[:n+1]` that lists `key` in its first `2**fdim` columns -/
def swapFind (n fdim : Nat) (key : Nat × Nat) : Option (Nat × Nat) :=
  ((Gen.swapTab.take (n+1)).zipIdx).findSome? fun (row, r) =>
    let cols := row.take (2^fdim)
    if cols.contains key then some (r, cols.idxOf key) else none

/-- `e.swapup(c)`: change `updim << scale` (the pair `(e, c)` of a chain) to `scale << updim` -/
def Up.swapup : Up → Sq → Option (Sq × Up)
  | .simplexEdge n ie inv, .simplexChild _ ic =>
    (swapLookup ie ic).map fun (ic', ie') => (.simplexChild n ic', .simplexEdge n ie' inv)
  | .simplexEdge .., _ => none
  | .scaledUpdim c e, .identity _ => some (c, e)
  | .scaledUpdim .., _ => none
  | .tensorEdge1 e _, .tensorChild a b =>
    if e.fd = a.dim then
      (e.swapup a).map fun (c, e') => (.tensorChild c b, .tensorEdge1 e' b.dim)
    else if e.fd = 0 then
      (e.swapup (.simplexChild 0 0)).map fun (c, e') => (.tensorChild c (.tensorChild a b), .tensorEdge1 e' (a.dim + b.dim))
    else none
  | .tensorEdge1 e _, .simplexChild m k =>
    if e.fd = 0 then
      (e.swapup (.simplexChild 0 0)).map fun (c, e') => (.tensorChild c (.simplexChild m k), .tensorEdge1 e' m)
    else none
  | .tensorEdge1 .., _ => none
  | .tensorEdge2 _ e, .tensorChild a b =>
    if e.fd = b.dim then
      (e.swapup b).map fun (c, e') => (.tensorChild a c, .tensorEdge2 a.dim e')
    else if e.fd = 0 then
      (e.swapup (.simplexChild 0 0)).map fun (c, e') => (.tensorChild (.tensorChild a b) c, .tensorEdge2 (a.dim + b.dim) e')
    else none
  | .tensorEdge2 _ e, .simplexChild m k =>
    if e.fd = 0 then
      (e.swapup (.simplexChild 0 0)).map fun (c, e') => (.tensorChild (.simplexChild m k) c, .tensorEdge2 m e')
    else none
  | .tensorEdge2 .., _ => none
  | .generic .., _ => none

/-- `e.swapdown(c)`: change `scale << updim` (the pair `(c, e)` of a chain) to `updim << scale` -/
def Up.swapdown : Up → Sq → Option (Up × Sq)
  | .simplexEdge n ie inv, .simplexChild _ ic =>
    (swapFind n (n-1) (ic, ie)).map fun (r, col) => (.simplexEdge n r inv, .simplexChild (n-1) col)
  | .simplexEdge .., _ => none
  | .tensorEdge1 e1 n2, .tensorChild a b =>
    if a.dim = e1.td then
      match e1.swapdown a with
      | some (edge, child) => some (.tensorEdge1 edge b.dim, if child.dim ≠ 0 then .tensorChild child b else b)
      | none => some (.scaledUpdim (.tensorChild a b) (.tensorEdge1 e1 n2), .identity (e1.fd + n2))
    else none
  | .tensorEdge1 .., _ => none
  | .tensorEdge2 n1 e2, .tensorChild a b =>
    if b.dim = e2.td then
      match e2.swapdown b with
      | some (edge, child) => some (.tensorEdge2 a.dim edge, if child.dim ≠ 0 then .tensorChild a child else a)
      | none => some (.scaledUpdim (.tensorChild a b) (.tensorEdge2 n1 e2), .identity (n1 + e2.fd))
    else none
  | .tensorEdge2 .., _ => none
  | .scaledUpdim c e, .tensorChild a b => some (.scaledUpdim (.tensorChild a b) (.scaledUpdim c e), .identity e.fd)
  | .scaledUpdim .., _ => none
  | .generic l o f, .tensorChild a b => some (.scaledUpdim (.tensorChild a b) (.generic l o f), .identity (o.length - 1))
  | .generic .., _ => none

/-- `a.swapup(b)` for the adjacent chain items `(a, b)` -/
def Item.swapup : Item → Item → Option (Item × Item)
  | .up e, .sq c => (e.swapup c).map fun (c', e') => (.sq c', .up e')
  | _, _ => none

/-- `b.swapdown(a)` for the adjacent chain items `(a, b)`; result `(a', b')` in chain order -/
def Item.swapdown : Item → Item → Option (Item × Item)
  | .sq c, .up e => (e.swapdown c).map fun (e', c') => (.up e', .sq c')
  | _, _ => none

/-! ## chain rewrites -/

def cntUp (l : Chain) : Nat := l.countP Item.isUp

/-- number of pairs (non-updim … updim) in chain order: the potential of `canonical` -/
def invDown : Chain → Nat
  | [] => 0
  | a :: t => (if a.isUp then 0 else cntUp t) + invDown t

/-- number of pairs (updim … non-updim) in chain order: the potential of `uppermost` -/
def invUp : Chain → Nat
  | [] => 0
  | a :: t => (if a.isUp then t.length - cntUp t else 0) + invUp t

def lastFd (l : Chain) : Nat := (l.getLast?.map Item.fd).getD 0
/-- `items[0].todims` of a reversed prefix -/
def revHeadTd (l : Chain) : Nat := (l.getLast?.map Item.td).getD 0

theorem cntUp_append (p q : Chain) : cntUp (p ++ q) = cntUp p + cntUp q := by
  simp [cntUp, List.countP_append]

theorem invDown_append (p q : Chain) :
    invDown (p ++ q) = invDown p + (p.length - cntUp p) * cntUp q + invDown q := by
  induction p with
  | nil => simp [invDown, cntUp]
  | cons a t ih =>
    have hle : cntUp t ≤ t.length := List.countP_le_length
    simp only [List.cons_append, invDown, ih, cntUp_append, List.length_cons]
    cases h : a.isUp
    · have : cntUp (a :: t) = cntUp t := by simp [cntUp, h]
      rw [this]
      have : t.length + 1 - cntUp t = (t.length - cntUp t) + 1 := by omega
      rw [this]
      rw [Nat.add_mul]; simp; omega
    · have : cntUp (a :: t) = cntUp t + 1 := by simp [cntUp, h]
      rw [this]
      have : t.length + 1 - (cntUp t + 1) = t.length - cntUp t := by omega
      rw [this]; simp

theorem invUp_append (p q : Chain) :
    invUp (p ++ q) = invUp p + cntUp p * (q.length - cntUp q) + invUp q := by
  induction p with
  | nil => simp [invUp, cntUp]
  | cons a t ih =>
    have hle : cntUp q ≤ q.length := List.countP_le_length
    have hle' : cntUp t ≤ t.length := List.countP_le_length
    simp only [List.cons_append, invUp, ih, cntUp_append, List.length_append]
    cases h : a.isUp
    · have : cntUp (a :: t) = cntUp t := by simp [cntUp, h]
      rw [this]; simp
    · have : cntUp (a :: t) = cntUp t + 1 := by simp [cntUp, h]
      rw [this, Nat.add_mul]
      have : t.length + q.length - (cntUp t + cntUp q) = (t.length - cntUp t) + (q.length - cntUp q) := by omega
      rw [this]; simp; omega

theorem Item.swapdown_kinds {a b x y : Item} (h : Item.swapdown a b = some (x, y)) :
    a.isUp = false ∧ b.isUp = true ∧ x.isUp = true ∧ y.isUp = false := by
  cases a <;> cases b <;> simp [Item.swapdown] at h
  obtain ⟨_, _, _, rfl, rfl⟩ := h
  simp [Item.isUp]

theorem Item.swapup_kinds {a b x y : Item} (h : Item.swapup a b = some (x, y)) :
    a.isUp = true ∧ b.isUp = false ∧ x.isUp = false ∧ y.isUp = true := by
  cases a <;> cases b <;> simp [Item.swapup] at h
  obtain ⟨_, _, _, rfl, rfl⟩ := h
  simp [Item.isUp]

theorem invDown_swap_lt (p post : Chain) {a b x y : Item} (h : Item.swapdown a b = some (x, y)) :
    invDown (p ++ x :: y :: post) < invDown (p ++ a :: b :: post) := by
  obtain ⟨ha, hb, hx, hy⟩ := Item.swapdown_kinds h
  rw [invDown_append, invDown_append p]
  simp [invDown, ha, hb, hx, hy, cntUp]

theorem invUp_swap_lt (p post : Chain) {a b x y : Item} (h : Item.swapup a b = some (x, y)) :
    invUp (p ++ x :: y :: post) < invUp (p ++ a :: b :: post) := by
  obtain ⟨ha, hb, hx, hy⟩ := Item.swapup_kinds h
  have : List.countP Item.isUp post ≤ post.length := List.countP_le_length
  rw [invUp_append, invUp_append p]
  simp [invUp, ha, hb, hx, hy, cntUp]
  omega

/-- The loop of `transform.canonical` as a zipper: `left` is `items[:i]` reversed, `right` is `items[i:]`.

```
while items[i].fromdims > items[n-1].fromdims:
    swapped = items[i+1].swapdown(items[i])
    if swapped: items[i:i+2] = swapped; i -= i > 0
    else: i += 1
```
Termination needs no fuel: a swap removes one inversion (non-updim before updim), a step to the
right shortens `right`. -/
def canonLoop (left right : Chain) : Chain :=
  match right with
  | a :: b :: post =>
    if a.fd > lastFd (b :: post) then
      match h : Item.swapdown a b with
      | some (x, y) =>
        match left with
        | [] => canonLoop [] (x :: y :: post)
        | l :: left' => canonLoop left' (l :: x :: y :: post)
      | none => canonLoop (a :: left) (b :: post)
    else left.reverse ++ right
  | _ => left.reverse ++ right
termination_by (invDown (left.reverse ++ right), right.length)
decreasing_by
  · simp_wf
    exact Prod.Lex.left _ _ (invDown_swap_lt [] post h)
  · simp_wf
    exact Prod.Lex.left _ _ (by simpa using invDown_swap_lt (left'.reverse ++ [l]) post h)
  · simp_wf
    exact Prod.Lex.right _ (by omega)

/-- `transform.canonical(chain)`: keep at lowest ndims possible (updims as early as possible) -/
def canonical (chain : Chain) : Chain :=
  if chain.length < 2 then chain else canonLoop [] chain

/-- The loop of `transform.uppermost` as a zipper: `pre` is `items[:i]` reversed (head = `items[i-1]`), `suf` is `items[i:]`.

```
i = n
while items[i-1].todims < items[0].todims:
    swapped = items[i-2].swapup(items[i-1])
    if swapped: items[i-2:i] = swapped; i += i < n
    else: i -= 1
```
-/
def upLoop (pre suf : Chain) : Chain :=
  match pre with
  | b :: a :: rest =>
    if b.td < revHeadTd (a :: rest) then
      match h : Item.swapup a b with
      | some (x, y) =>
        match suf with
        | [] => upLoop (y :: x :: rest) []
        | s :: suf' => upLoop (s :: y :: x :: rest) suf'
      | none => upLoop (a :: rest) (b :: suf)
    else pre.reverse ++ suf
  | _ => pre.reverse ++ suf
termination_by (invUp (pre.reverse ++ suf), pre.length)
decreasing_by
  · simp_wf
    exact Prod.Lex.left _ _ (by simpa using invUp_swap_lt rest.reverse [] h)
  · simp_wf
    exact Prod.Lex.left _ _ (invUp_swap_lt rest.reverse (s :: suf') h)
  · simp_wf
    exact Prod.Lex.right _ (by omega)

/-- `transform.uppermost(chain)`: bring to highest ndims possible (updims as late as possible) -/
def uppermost (chain : Chain) : Chain :=
  if chain.length < 2 then chain else upLoop chain.reverse []

/-- `transform.promote(chain, ndims)` -/
def promote (chain : Chain) (ndims : Nat) : Chain :=
  match chain.findIdx? (fun it => it.fd == ndims) with
  | some i => canonical (chain.take (i+1)) ++ uppermost (chain.drop (i+1))
  | none => chain

/-- `transform.iscanonical(chain)` -/
def isCanonical : Chain → Bool
  | a :: b :: t => (Item.swapdown a b).isNone && isCanonical (b :: t)
  | _ => true

/-- one row of the extracted reference tables (`Generated/C11Refs.lean`): a child (`isEdge = false`) or edge transform at
position `pos` of a reference, as a model item, with the matrix, offset, flip flag and dims of the real object -/
structure RefEntry where
  isEdge : Bool
  pos : Nat
  item : Item
  lin : Mat
  off : Vec
  flip : Bool
  td : Nat
  fd : Nat

/-- the model reproduces the extracted data of the entry -/
def RefEntry.ok (e : RefEntry) : Bool :=
  e.item.td == e.td && e.item.fd == e.fd && e.item.flip == e.flip && linOff e.item.app e.item.fd == (e.lin, e.off)

/-! ## transform sequences (`nutils.transformseq`) -/

inductive Err where
  | value   -- ValueError
  | index   -- IndexError
deriving DecidableEq, Repr

/-- `transformseq.Axis` (`DimAxis`: `isdim = true`, `ibound`/`side` unused; `IntAxis`: `isdim = false`) -/
structure Axis where
  i : Int
  j : Int
  mod : Int
  isdim : Bool
  ibound : Nat
  side : Bool
deriving DecidableEq, Repr

def Axis.len (a : Axis) : Nat := (a.j - a.i).toNat

/-- `Axis.unmap`: `None` = ValueError -/
def Axis.unmap (a : Axis) (index : Int) : Option Nat :=
  let ielem := index - a.i
  let ielem := if a.mod ≠ 0 then Int.fmod ielem a.mod else ielem
  if 0 ≤ ielem ∧ ielem < (a.len : Int) then some ielem.toNat else none

def Axis.map (a : Axis) (ielem : Nat) : Int :=
  let index := a.i + (ielem : Int)
  if a.mod ≠ 0 then Int.fmod index a.mod else index

def lineChildren : List Sq := [.simplexChild 1 0, .simplexChild 1 1]
def lineEdges : List Up := [.simplexEdge 1 0 false, .simplexEdge 1 1 false]

/-- `(LineReference()**n).child_transforms` -/
def cubeChildren : Nat → List Sq
  | 0 => [.simplexChild 0 0]
  | 1 => lineChildren
  | n+2 => lineChildren.flatMap fun c1 => (cubeChildren (n+1)).map fun c2 => .tensorChild c1 c2

/-- `(LineReference()**n).edge_transforms` -/
def cubeEdges : Nat → List Up
  | 0 => []
  | 1 => lineEdges
  | n+2 => lineEdges.map (fun e => .tensorEdge1 e (n+1)) ++ (cubeEdges (n+1)).map fun e => .tensorEdge2 1 e

/-- binary digits of `p`, most significant first, `n` digits: the multi-index of `_ctransforms.reshape((2,)*n)` -/
def digits : Nat → Nat → List Int
  | 0, _ => []
  | n+1, p => ((p / 2^n % 2 : Nat) : Int) :: digits n p

def tripleLe (a b : Nat × Nat × Nat) : Bool :=
  a.1 < b.1 || (a.1 == b.1 && (a.2.1 < b.2.1 || (a.2.1 == b.2.1 && a.2.2 ≤ b.2.2)))

/-- `StructuredTransforms.__init__`: the edge transforms of the non-dim axes, ordered by `(ibound, side, idim)` -/
def etransforms (axes : List Axis) : List Item :=
  let trip := (axes.zipIdx.filter fun (ax, _) => !ax.isdim).map fun (ax, idim) => (ax.ibound, (if ax.side then 1 else 0), idim)
  let trip := trip.mergeSort tripleLe
  (trip.foldl (fun (st : List Bool × List Item) (t : Nat × Nat × Nat) =>
      let rm := st.1
      let idim := t.2.2
      let m := (rm.filter (!·)).length
      let iedge := (idim - ((rm.take idim).filter id).length) * 2 + 1 - t.2.1
      let out := match (cubeEdges m)[iedge]? with
        | some e => st.2 ++ [Item.up e]
        | none => st.2
      (rm.set idim true, out)) (axes.map fun _ => false, [])).2

def structFd (axes : List Axis) : Nat := (axes.filter (·.isdim)).length

def structLen (axes : List Axis) : Nat := (axes.map Axis.len).foldl (· * ·) 1

/-- `StructuredTransforms.__getitem__` -/
def structGet (root : Item) (axes : List Axis) (nrefine : Nat) (index : Nat) : Chain :=
  let dec := axes.foldr (fun ax (st : List Int × Nat) => (ax.map (st.2 % ax.len) :: st.1, st.2 / ax.len)) ([], index)
  let na := axes.length
  let ref := (List.range nrefine).foldl (fun (st : List Int × List Item) _ =>
      let r := st.1.map fun i => Int.fmod i 2
      let q := st.1.map fun i => Int.fdiv i 2
      let pos := r.foldl (fun acc d => acc * 2 + d.toNat) 0
      let c := match (cubeChildren na)[pos]? with
        | some c => [Item.sq c]
        | none => []
      (q, c ++ st.2)) (dec.1, [])
  root :: (ref.1.map fun i => Item.sq (.index na i)) ++ ref.2 ++ etransforms axes

def indexOfItem? (it : Item) (l : List Item) : Option Nat :=
  if l.contains it then some (l.idxOf it) else none

/-- `StructuredTransforms.index_with_tail` -/
def structIwt (root : Item) (axes : List Axis) (nrefine : Nat) (trans : Chain) : Except Err (Nat × Chain) :=
  let na := axes.length
  let et := etransforms axes
  if trans.length < 1 + na + nrefine + et.length then .error .value else
  match trans with
  | [] => .error .value
  | r :: rest =>
    let tail := uppermost (rest.drop na)
    if r ≠ root then .error .value else
    match (rest.take na).mapM (fun it => match it with
        | .sq (.index n i) => if n = na then some i else none
        | _ => none) with
    | none => .error .value
    | some indices =>
      let cs := (cubeChildren na).map Item.sq
      match (tail.take nrefine).foldlM (fun (ind : List Int) item =>
          (indexOfItem? item cs).map fun p => List.zipWith (fun i d => i * 2 + d) ind (digits na p)) indices with
      | none => .error .value
      | some indices =>
        match (List.zip indices axes).foldlM (fun (flat : Nat) (p : Int × Axis) =>
            (p.2.unmap p.1).map fun k => flat * p.2.len + k) 0 with
        | none => .error .value
        | some flat =>
          let tail := promote (tail.drop nrefine) (structFd axes)
          if tail.take et.length ≠ et then .error .value
          else .ok (flat, tail.drop et.length)

def lexLe : List Nat → List Nat → Bool
  | [], _ => true
  | _ :: _, [] => false
  | a :: s, b :: t => a < b || (a == b && lexLe s t)

/-- `PlainTransforms.index_with_tail`; `key` plays the role of `id` of the interned items -/
def plainIwt (key : Item → Nat) (chains : List Chain) (fd : Nat) (trans : Chain) : Except Err (Nat × Chain) :=
  let srt := (chains.map (·.map key)).zipIdx.mergeSort (fun a b => lexLe a.1 b.1)
  let trans := promote trans fd
  let tid := trans.map key
  let i := (srt.takeWhile fun e => lexLe e.1 tid).length
  match i with
  | 0 => .error .value
  | i+1 =>
    match srt[i]? with
    | none => .error .value
    | some (m, idx) => if tid.take m.length ≠ m then .error .value else .ok (idx, trans.drop m.length)

/-- position of flat index `idx` in the concatenation of the per-parent lists: `(iparent, item)` -/
def derivedLocate : List (List Item) → Nat → Nat → Option (Nat × Item)
  | [], _, _ => none
  | d :: rest, ip, idx => if idx < d.length then (d[idx]?).map fun it => (ip, it) else derivedLocate rest (ip+1) (idx - d.length)

def derivedOffset (dts : List (List Item)) (ip : Nat) : Nat := ((dts.take ip).map List.length).sum

inductive TSeq where
  | empty (td fd : Nat)
  | plain (chains : List Chain) (td fd : Nat)
  | index (nd len : Nat) (offset : Int)
  | structured (root : Item) (axes : List Axis) (nrefine : Nat)
  | masked (parent : TSeq) (indices : List Nat)
  | reordered (parent : TSeq) (indices : List Nat)
  | derived (parent : TSeq) (dts : List (List Item)) (fd : Nat)
  | uniform (parent : TSeq) (dts : List Item) (fd : Nat)
  | chain (a b : TSeq)
deriving Repr

def TSeq.fd : TSeq → Nat
  | .empty _ fd => fd
  | .plain _ _ fd => fd
  | .index nd _ _ => nd
  | .structured _ axes _ => structFd axes
  | .masked p _ => p.fd
  | .reordered p _ => p.fd
  | .derived _ _ fd => fd
  | .uniform _ _ fd => fd
  | .chain a _ => a.fd

def TSeq.td : TSeq → Nat
  | .empty td _ => td
  | .plain _ td _ => td
  | .index nd _ _ => nd
  | .structured root _ _ => root.td
  | .masked p _ => p.td
  | .reordered p _ => p.td
  | .derived p _ _ => p.td
  | .uniform p _ _ => p.td
  | .chain a _ => a.td

/-- `len(transforms)` -/
def TSeq.len : TSeq → Nat
  | .empty .. => 0
  | .plain chains _ _ => chains.length
  | .index _ len _ => len
  | .structured _ axes _ => structLen axes
  | .masked _ indices => indices.length
  | .reordered p _ => p.len
  | .derived _ dts _ => (dts.map List.length).sum
  | .uniform p dts _ => p.len * dts.length
  | .chain a b => a.len + b.len

/-- `transforms[i]` for `0 ≤ i`; `none` = IndexError -/
def TSeq.get : TSeq → Nat → Option Chain
  | .empty .., _ => none
  | .plain chains _ _, i => chains[i]?
  | .index nd len off, i => if i < len then some [.sq (.index nd (off + (i : Int)))] else none
  | .structured root axes nrefine, i => if i < structLen axes then some (structGet root axes nrefine i) else none
  | .masked p indices, i => (indices[i]?).bind p.get
  | .reordered p indices, i => (indices[i]?).bind p.get
  | .derived p dts _, i => (derivedLocate dts 0 i).bind fun (ip, it) => (p.get ip).map (· ++ [it])
  | .uniform p dts _, i =>
    if dts.length = 0 then none else
    (dts[i % dts.length]?).bind fun it => (p.get (i / dts.length)).map (· ++ [it])
  | .chain a b, i => if i < a.len then a.get i else b.get (i - a.len)

/-- `transforms.index_with_tail(trans)`; `key` stands for `id` of interned items (used by `PlainTransforms` only) -/
def TSeq.iwt (key : Item → Nat) : TSeq → Chain → Except Err (Nat × Chain)
  | .empty .., _ => .error .value
  | .plain chains _ fd, trans => plainIwt key chains fd trans
  | .index nd len off, trans =>
    match trans with
    | [] => .error .index
    | .sq (.index n i) :: rest =>
      if n = nd ∧ 0 ≤ i - off ∧ i - off < (len : Int) then .ok ((i - off).toNat, rest) else .error .value
    | _ :: _ => .error .value
  | .structured root axes nrefine, trans => structIwt root axes nrefine trans
  | .masked p indices, trans =>
    match p.iwt key trans with
    | .error e => .error e
    | .ok (pi, tail) =>
      let index := (indices.takeWhile (· < pi)).length
      if indices[index]? = some pi then .ok (index, tail) else .error .value
  | .reordered p indices, trans =>
    match p.iwt key trans with
    | .error e => .error e
    | .ok (pi, tail) => .ok (indices.idxOf pi, tail)
  | .derived p dts fd, trans =>
    match p.iwt key trans with
    | .error e => .error e
    | .ok (ip, tail) =>
      if tail.isEmpty then .error .value else
      let tail := if fd = p.fd then uppermost tail else canonical tail
      match tail, dts[ip]? with
      | h :: rest, some d =>
        (match indexOfItem? h d with
         | some k => .ok (derivedOffset dts ip + k, rest)
         | none => .error .value)
      | _, _ => .error .index
  | .uniform p dts fd, trans =>
    match p.iwt key trans with
    | .error e => .error e
    | .ok (ip, tail) =>
      if tail.isEmpty then .error .value else
      let tail := if fd = p.fd then uppermost tail else canonical tail
      match tail with
      | h :: rest =>
        (match indexOfItem? h dts with
         | some k => .ok (ip * dts.length + k, rest)
         | none => .error .value)
      | [] => .error .index
  | .chain a b, trans =>
    match a.iwt key trans with
    | .ok r => .ok r
    | .error .value =>
      (match b.iwt key trans with
       | .ok (i, tail) => .ok (i + a.len, tail)
       | .error e => .error e)
    | .error e => .error e

/-- `transforms.index(trans)` -/
def TSeq.indexOf (key : Item → Nat) (s : TSeq) (trans : Chain) : Except Err Nat :=
  match s.iwt key trans with
  | .ok (i, []) => .ok i
  | .ok _ => .error .value
  | .error e => .error e

/-- `transforms.contains(trans)` (`IndexError` is not caught by the source) -/
def TSeq.contains (key : Item → Nat) (s : TSeq) (trans : Chain) : Except Err Bool :=
  match s.indexOf key trans with
  | .ok _ => .ok true
  | .error .value => .ok false
  | .error e => .error e

end NutilsVerif.C11
