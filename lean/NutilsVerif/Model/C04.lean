import NutilsVerif.Core.Poly
/-!
# C04 — symbolic derivatives equal the true derivatives  (model, no Mathlib)

Three parts.

* `SE`: the small scalar expression language in which (a) the **extracted** derivative table
  (`Generated/C04.lean`: every `Pointwise.deriv` entry of the code applied to scalar arguments and the
  derivative trees of `reciprocal`, `negative`, `sqrt`, `power` with constant exponent) and (b) the
  **specification** rule table `specRules` (the true partial derivatives of every scalar function
  that can occur as an atom of the engine's carrier `Poly`) are written.  `Props/C04.lean` gives `SE`
  a meaning in ℝ and proves both tables are the real derivatives.
* `pderiv`: the formal partial derivative on the engine's scalar carrier `Poly`.  Atoms `name[i,j]` are
  independent variables; atoms `f(k1,…)` are differentiated by the chain rule: the canonical keys
  `k1,…` are parsed back into `Poly` (`parseKey`, round trip checked at run time by the driver) and the
  partial derivatives of `f` are taken from `specRules`.
* `evalAt`: substitution of a rational point for the entries of one argument, re-evaluating the atoms with
  `Poly.app`; reports kinks of abs/sign/min/max/floor/comparisons and points outside the domain.

The (V) check of the harness (driver `Drivers/C04.lean`) evaluates an expression `e` with the
specification semantics `Model/Expr.lean` symbolically in the argument `x`, applies `pderiv` to every
entry, and compares with the value of the REAL tree `evaluable.derivative(e, x)`.
-/
namespace NutilsVerif.C04
open NutilsVerif

/-! ### the scalar expression language -/

/-- scalar expressions over variables `var i`; constants are rationals `num/den` -/
inductive SE
  | var (i : Nat)
  | const (num : Int) (den : Nat)
  | add (a b : SE)
  | mul (a b : SE)
  | pow (a b : SE)
  | app1 (f : String) (a : SE)
  | app2 (f : String) (a b : SE)
deriving Repr, BEq, Inhabited

/-- one row of a derivative table: the function `fn` of `arity` variables and its claimed partial
derivative `deriv` with respect to variable `pos` -/
structure Entry where
  name : String
  arity : Nat
  pos : Nat
  fn : SE
  deriv : SE
deriving Repr, Inhabited

namespace SE

/-- interpretation in the engine's carrier (`none` = undefined at this constant point) -/
def toPoly (args : List Poly) : SE → Option Poly
  | var i => args[i]?
  | const n d => if d == 0 then none else some (Poly.ofRat ((n : Rat) / (d : Rat)))
  | add a b => do some ((← toPoly args a) + (← toPoly args b))
  | mul a b => do some ((← toPoly args a) * (← toPoly args b))
  | pow a b => do Poly.app "pow" [← toPoly args a, ← toPoly args b]
  | app1 f a => do Poly.app f [← toPoly args a]
  | app2 f a b => do Poly.app f [← toPoly args a, ← toPoly args b]

end SE

/-! ### specification rules: the partial derivatives of the scalar functions of `Poly.app` -/

/-- The specification rule table: `⟨f, n, i, f(v₀,…), ∂f/∂vᵢ⟩` for every scalar function that can occur as an atom
of the carrier (`Poly.app`), where the derivative exists (away from the kinks of abs, sign, min, max, floor and the
comparisons, and inside the domain of `f`).  The *forms* mirror the ones the code produces (so that correct
derivative trees have the same normal form); their *truth* is `specRules_sound` in `Props/C04.lean`. -/
def specRules : List Entry := [
  ⟨"sin", 1, 0, (.app1 "sin" (.var 0)), (.app1 "cos" (.var 0))⟩,
  ⟨"cos", 1, 0, (.app1 "cos" (.var 0)), (.mul ((.app1 "sin" (.var 0))) (.const (-1) 1))⟩,
  ⟨"tan", 1, 0, (.app1 "tan" (.var 0)), (.pow ((.app1 "cos" (.var 0))) (.const (-2) 1))⟩,
  ⟨"arcsin", 1, 0, (.app1 "arcsin" (.var 0)), (.pow ((.pow ((.add (.const (1) 1) ((.mul ((.pow (.var 0) (.const (2) 1))) (.const (-1) 1))))) (.const (1) 2))) (.const (-1) 1))⟩,
  ⟨"arccos", 1, 0, (.app1 "arccos" (.var 0)), (.mul ((.pow ((.pow ((.add (.const (1) 1) ((.mul ((.pow (.var 0) (.const (2) 1))) (.const (-1) 1))))) (.const (1) 2))) (.const (-1) 1))) (.const (-1) 1))⟩,
  ⟨"arctan", 1, 0, (.app1 "arctan" (.var 0)), (.pow ((.add (.const (1) 1) ((.pow (.var 0) (.const (2) 1))))) (.const (-1) 1))⟩,
  ⟨"exp", 1, 0, (.app1 "exp" (.var 0)), (.app1 "exp" (.var 0))⟩,
  ⟨"log", 1, 0, (.app1 "log" (.var 0)), (.pow (.var 0) (.const (-1) 1))⟩,
  ⟨"sinh", 1, 0, (.app1 "sinh" (.var 0)), (.app1 "cosh" (.var 0))⟩,
  ⟨"cosh", 1, 0, (.app1 "cosh" (.var 0)), (.app1 "sinh" (.var 0))⟩,
  ⟨"tanh", 1, 0, (.app1 "tanh" (.var 0)), (.add (.const (1) 1) ((.mul ((.pow ((.app1 "tanh" (.var 0))) (.const (2) 1))) (.const (-1) 1))))⟩,
  ⟨"arctanh", 1, 0, (.app1 "arctanh" (.var 0)), (.pow ((.add (.const (1) 1) ((.mul ((.pow (.var 0) (.const (2) 1))) (.const (-1) 1))))) (.const (-1) 1))⟩,
  ⟨"arctan2", 2, 0, (.app2 "arctan2" (.var 0) (.var 1)), (.mul (.var 1) ((.pow ((.add ((.pow (.var 0) (.const (2) 1))) ((.pow (.var 1) (.const (2) 1))))) (.const (-1) 1))))⟩,
  ⟨"arctan2", 2, 1, (.app2 "arctan2" (.var 0) (.var 1)), (.mul ((.mul (.var 0) (.const (-1) 1))) ((.pow ((.add ((.pow (.var 0) (.const (2) 1))) ((.pow (.var 1) (.const (2) 1))))) (.const (-1) 1))))⟩,
  ⟨"inv", 1, 0, (.app1 "inv" (.var 0)), (.mul ((.pow ((.app1 "inv" (.var 0))) (.const (2) 1))) (.const (-1) 1))⟩,
  ⟨"pow", 2, 0, (.pow (.var 0) (.var 1)), (.mul (.var 1) ((.pow (.var 0) ((.add (.var 1) (.const (-1) 1))))))⟩,
  ⟨"pow", 2, 1, (.pow (.var 0) (.var 1)), (.mul ((.app1 "log" (.var 0))) ((.pow (.var 0) (.var 1))))⟩,
  ⟨"abs", 1, 0, (.app1 "abs" (.var 0)), (.app1 "sign" (.var 0))⟩,
  ⟨"sign", 1, 0, (.app1 "sign" (.var 0)), .const (0) 1⟩,
  ⟨"min", 2, 0, (.app2 "min" (.var 0) (.var 1)), (.add (.const (1) 2) ((.mul ((.mul ((.app1 "sign" ((.add (.var 0) ((.mul (.var 1) (.const (-1) 1))))))) (.const (1) 2))) (.const (-1) 1))))⟩,
  ⟨"min", 2, 1, (.app2 "min" (.var 0) (.var 1)), (.add (.const (1) 2) ((.mul ((.app1 "sign" ((.add (.var 0) ((.mul (.var 1) (.const (-1) 1))))))) (.const (1) 2))))⟩,
  ⟨"max", 2, 0, (.app2 "max" (.var 0) (.var 1)), (.add (.const (1) 2) ((.mul ((.app1 "sign" ((.add (.var 0) ((.mul (.var 1) (.const (-1) 1))))))) (.const (1) 2))))⟩,
  ⟨"max", 2, 1, (.app2 "max" (.var 0) (.var 1)), (.add (.const (1) 2) ((.mul ((.mul ((.app1 "sign" ((.add (.var 0) ((.mul (.var 1) (.const (-1) 1))))))) (.const (1) 2))) (.const (-1) 1))))⟩,
  ⟨"floor", 1, 0, (.app1 "floor" (.var 0)), .const (0) 1⟩,
  ⟨"not", 1, 0, (.app1 "not" (.var 0)), .const (0) 1⟩,
  ⟨"less", 2, 0, (.app2 "less" (.var 0) (.var 1)), .const (0) 1⟩,
  ⟨"less", 2, 1, (.app2 "less" (.var 0) (.var 1)), .const (0) 1⟩,
  ⟨"greater", 2, 0, (.app2 "greater" (.var 0) (.var 1)), .const (0) 1⟩,
  ⟨"greater", 2, 1, (.app2 "greater" (.var 0) (.var 1)), .const (0) 1⟩,
  ⟨"equal", 2, 0, (.app2 "equal" (.var 0) (.var 1)), .const (0) 1⟩,
  ⟨"equal", 2, 1, (.app2 "equal" (.var 0) (.var 1)), .const (0) 1⟩,
  ⟨"fdiv", 2, 0, (.app2 "fdiv" (.var 0) (.var 1)), .const (0) 1⟩,
  ⟨"fdiv", 2, 1, (.app2 "fdiv" (.var 0) (.var 1)), .const (0) 1⟩,
  ⟨"fmod", 2, 0, (.app2 "fmod" (.var 0) (.var 1)), .const (1) 1⟩,
  ⟨"fmod", 2, 1, (.app2 "fmod" (.var 0) (.var 1)), (.mul ((.app2 "fdiv" (.var 0) (.var 1))) (.const (-1) 1))⟩
]

/-- `specRule f n i` = ∂/∂vᵢ f(v₀,…,v_{n-1}); besides the table, the derivatives of the normalised sinc:
`sinc{k}' = sinc{k+1}` (not covered by a theorem) -/
def specRule (f : String) (arity pos : Nat) : Option SE :=
  match specRules.find? fun e => e.name == f && e.arity == arity && e.pos == pos with
  | some e => some e.deriv
  | none =>
    if arity == 1 && pos == 0 && f.startsWith "sinc" then (f.drop 4).toNat?.map fun k => .app1 s!"sinc{k+1}" (.var 0) else none

/-! ### parsing canonical keys back into polynomials -/

/-- split at top level (outside `(…)` and `[…]`) on `sep` -/
def splitTop (sep : Char) (cs : List Char) : List (List Char) :=
  let rec go : List Char → Nat → List Char → List (List Char) → List (List Char)
    | [], _, cur, acc => (cur.reverse :: acc).reverse
    | ch :: rest, depth, cur, acc =>
      if ch == '(' || ch == '[' then go rest (depth + 1) (ch :: cur) acc
      else if ch == ')' || ch == ']' then go rest (depth - 1) (ch :: cur) acc
      else if ch == sep && depth == 0 then go rest depth [] (cur.reverse :: acc)
      else go rest depth (ch :: cur) acc
  go cs 0 [] []

def parseRatChars (cs : List Char) : Option Rat :=
  match splitTop '/' cs with
  | [a] => (String.ofList a).toInt?.map fun z => (z : Rat)
  | [a, b] => do
    let n ← (String.ofList a).toInt?
    let d ← (String.ofList b).toNat?
    if d == 0 then none else some ((n : Rat) / (d : Rat))
  | _ => none

def parseAtomPow (cs : List Char) : Option (String × Nat) :=
  match splitTop '^' cs with
  | [a] => if a.isEmpty then none else some (String.ofList a, 1)
  | [a, n] => do
    let k ← (String.ofList n).toNat?
    if a.isEmpty || k == 0 then none else some (String.ofList a, k)
  | _ => none

def parseTerm (cs : List Char) : Option (Mono × Rat) :=
  match splitTop '*' cs with
  | [] => none
  | c :: atoms => do
    let q ← parseRatChars c
    let m ← atoms.mapM parseAtomPow
    some (m, q)

/-- inverse of `Poly.key` (atoms stay keys; nothing is re-normalised, so `key (parseKey k) = k` for every
key printed by `Poly.key` — checked by the driver on every key it parses) -/
def parseKey (k : String) : Option Poly :=
  if k == "0" then some Poly.zero else do
    let ts ← (splitTop '+' k.toList).mapM parseTerm
    some ⟨ts⟩

/-- `name[i,j]` — an entry of a symbolic argument -/
def isVarAtom (a : String) : Bool := a.endsWith "]"

/-- `f(k1,…,kn)` ↦ `(f, [k1,…,kn])` -/
def atomArgs (a : String) : Option (String × List String) :=
  let cs := a.toList
  let name := cs.takeWhile (· != '(')
  let rest := cs.drop name.length
  match rest with
  | '(' :: body =>
    if body.getLast? != some ')' then none else
    some (String.ofList name, (splitTop ',' body.dropLast).map String.ofList)
  | _ => none

/-! ### the formal partial derivative -/

/-- the polynomial consisting of one monomial with coefficient 1 (`1` for the empty monomial) -/
def monoPoly (m : Mono) : Poly := ⟨[(m, 1)]⟩

/-- `a^n` as a polynomial; `a^0 = 1` -/
def atomPow (a : String) (n : Nat) : Poly := if n == 0 then Poly.one else monoPoly [(a, n)]

/-- Leibniz rule on a monomial, given the derivative `d a` of every atom (`none` = not differentiable) -/
def monoDeriv (d : String → Option Poly) : Mono → Option Poly
  | [] => some Poly.zero
  | (a, n) :: s => do
    let da ← d a
    let ds ← monoDeriv d s
    some (Poly.scale (n : Rat) (atomPow a (n - 1)) * da * monoPoly s + monoPoly [(a, n)] * ds)

/-- linear extension to polynomials -/
def termsDeriv (d : String → Option Poly) : List (Mono × Rat) → Option Poly
  | [] => some Poly.zero
  | (m, c) :: t => do
    let dm ← monoDeriv d m
    let dt ← termsDeriv d t
    some (Poly.scale c dm + dt)

def pderivWith (d : String → Option Poly) (p : Poly) : Option Poly := termsDeriv d p.terms

/-- derivative of a variable atom with respect to the variable atom `x` -/
def dvar (x a : String) : Option Poly := some (if a == x then Poly.one else Poly.zero)

/-- formal partial derivative of a polynomial in independent variables -/
def pderivVar (x : String) (p : Poly) : Option Poly := pderivWith (dvar x) p

def atomsOf (p : Poly) : List String := (p.terms.flatMap fun (m, _) => m.map (·.1)).eraseDups

/-- chain rule for one function atom `f(k1,…,kn)`, given the derivative `rec` of polynomials -/
def datom (rec : Poly → Option Poly) (x a : String) : Option Poly :=
  if isVarAtom a then dvar x a else do
    let (f, ks) ← atomArgs a
    let qs ← ks.mapM parseKey
    let dqs ← qs.mapM rec
    let n := qs.length
    (List.range n).foldlM (fun (acc : Poly) i => do
      let dq := dqs.getD i Poly.zero
      if dq.isZero then some acc else
      let r ← specRule f n i
      let v ← r.toPoly qs
      some (acc + v * dq)) Poly.zero

/-- `pderiv fuel x p` = ∂p/∂x for the variable atom `x`; `fuel` bounds the nesting depth of function atoms.
`none` = some atom is not differentiable (unknown function) or the fuel ran out or a rule is undefined. -/
def pderiv : Nat → String → Poly → Option Poly
  | 0, _, _ => none
  | fuel + 1, x, p =>
    let tbl := (atomsOf p).map fun a => (a, datom (pderiv fuel x) x a)
    pderivWith (fun a => (tbl.lookup a).bind id) p

/-! ### equality modulo the defining relation of reciprocals

`inv(k)` and `pow(k,-n)` are atoms of the carrier, so `det · inv(det)` and `1` are different normal forms.
`eqModInv` decides equality modulo the relations `inv(k)·k = 1` and `pow(k,-n)·kⁿ = 1`: the difference is
multiplied by the power of `k` that clears the atom (`clearAtom`), which is sound wherever `k ≠ 0`, i.e.
wherever the reciprocal is defined (`clearAtom_sound` in `Props/C04.lean`). -/

/-- exponent of atom `a` in a monomial -/
def expOf (a : String) (m : Mono) : Nat := (m.lookup a).getD 0

/-- `D · Qⁿ` rewritten with `a · Q = 1`, where `n` is the largest exponent of `a` in `D`: the result has no `a` -/
def clearAtom (a : String) (Q : Poly) (D : Poly) : Poly :=
  let n := D.terms.foldl (fun acc (m, _) => max acc (expOf a m)) 0
  D.terms.foldl (fun (acc : Poly) (m, c) =>
    acc + Poly.scale c (monoPoly (m.filter (·.1 != a))) * Poly.npow Q (n - expOf a m)) Poly.zero

/-- the polynomial `Q` with `a · Q = 1` for a reciprocal atom `a` -/
def invRelation (a : String) : Option Poly :=
  match atomArgs a with
  | some ("inv", [k]) => parseKey k
  | some ("pow", [k, e]) => do
    let q ← (← parseKey e).toRat?
    if q.den == 1 && q.num < 0 then some (Poly.npow (← parseKey k) (-q.num).toNat) else none
  | _ => none

def eqModInv : Nat → Poly → Poly → Bool
  | 0, a, b => a == b
  | fuel + 1, a, b =>
    let D := a - b
    if D.isZero then true else
    match (atomsOf D).findSome? fun at' => (invRelation at').map fun Q => (at', Q) with
    | none => false
    | some (at', Q) => eqModInv fuel (clearAtom at' Q D) Poly.zero

/-! ### substitution of a point -/

inductive PointErr
  | kink (what : String)        -- at a kink of abs/sign/min/max/floor/comparison: not differentiable there
  | undefined (what : String)   -- outside the domain
  | unknown (what : String)     -- cannot decide (kink function of a non-constant, unparsable key, fuel)
deriving Repr, Inhabited

def isKink (f : String) (args : List Rat) : Bool :=
  match f, args with
  | "abs", [x] | "sign", [x] => x == 0
  | "min", [x, y] | "max", [x, y] | "less", [x, y] | "greater", [x, y] | "equal", [x, y] => x == y
  | "floor", [x] => x.den == 1
  | "fdiv", [x, y] | "fmod", [x, y] => y != 0 && (x / y).den == 1
  | "pow", [x, y] => x == 0 && !(y.den == 1 && y.num ≥ 0)
  | "arctan2", [y, x] => y == 0 && x ≤ 0
  | _, _ => false

def kinkFunctions : List String := ["abs", "sign", "min", "max", "less", "greater", "equal", "floor", "fdiv", "fmod"]

/-- value of `p` when the variable atoms listed in `pt` are given rational values (other atoms stay).
`strict`: a kink function whose arguments do not become constants is an error (the point may be a kink);
non-strict: it stays an atom (used when the remaining arguments are symbolic: "for all values away from kinks"). -/
def evalAt (strict : Bool) : Nat → List (String × Rat) → Poly → Except PointErr Poly
  | 0, _, _ => .error (.unknown "fuel")
  | fuel + 1, pt, p => do
    let atoms := atomsOf p
    let vals ← atoms.mapM fun a => do
      if isVarAtom a then
        match pt.lookup a with
        | some q => pure (a, Poly.ofRat q)
        | none => pure (a, Poly.atom a)
      else
        match atomArgs a with
        | none => throw (.unknown s!"atom {a}")
        | some (f, ks) =>
          let qs ← ks.mapM fun k => match parseKey k with
            | some q => evalAt strict fuel pt q
            | none => throw (.unknown s!"key {k}")
          match qs.mapM Poly.toRat? with
          | some rs => if isKink f rs then throw (.kink f)
          | none => if strict && kinkFunctions.contains f then throw (.unknown s!"{f} of a non-constant")
          match Poly.app f qs with
          | some v => pure (a, v)
          | none => throw (.undefined f)
    pure (p.terms.foldl (fun (acc : Poly) (m, c) =>
      acc + Poly.scale c (m.foldl (fun (mp : Poly) (a, n) => mp * Poly.npow ((vals.lookup a).getD Poly.zero) n) Poly.one)) Poly.zero)

end NutilsVerif.C04
