import NutilsVerif.Model.C19
/-!
# C19 — source ASTs of the documented grammar, their printer and their direct elaboration  (no Mathlib)

`Src` is the abstract syntax of the documented grammar: sums (optional leading
minus, `+` / `-`) of fractions ` / ` of products (juxtaposition) of powers `^` (signed integer or parenthesised
exponent) of items; an item is an unsigned integer or decimal number, a variable with indices (letters and single numerals), a
parenthesised / jump / mean expression or a function call with indices for generated axes.  Lists are encoded in the tree (`pnil` / `pcons` for the factors after the
first, `tnil` / `tcons` for the terms after the first), so that plain structural induction applies.

* `print : Src → List Char` is the canonical printing (single blanks, ` + `, ` - `, ` / `, no padding);
* `elabExpr` elaborates a tree **without looking at any string**: it calls the very same bookkeeping functions
  as the parser (`genIndicesGo`, `trace`, `alignGo`, `mergeSummed`, `verifyIndicesSummed`) in the order the grammar
  dictates;
* `Props/C19.lean` proves `parse_print_partial`: for every well-formed tree `t`,
  `toOpt (parse Γ (print t)) = elabExpr Γ t`, for all contexts.
-/
namespace NutilsVerif.C19

inductive Src where
  | num (ds : List Nat)                        -- decimal digits, most significant first
  | dec (ip : List Nat) (fp : Option (List Nat)) (ex : Option (Bool × List Nat))   -- `ip[.fp][e[-]ex]`, not an integer
  | var (name : Name) (idx : List Char)        -- `name` or `name_idx`
  | paren (e : Src)                            -- `(e)`
  | jump (e : Src)                             -- `[e]`
  | mean (e : Src)                             -- `{e}`
  | call (name : Name) (idx : List Char) (arg : Src)   -- `name(arg)` or `name_idx(arg)`: generated axes `idx`
  | powInt (b : Src) (neg : Bool) (ds : List Nat)   -- `b^ds`, `b^-ds`
  | powExpr (b : Src) (e : Src)                -- `b^(e)`
  | prod (f : Src) (tail : Src)                -- a term: first factor and the chain of the others
  | pnil
  | pcons (f : Src) (tail : Src)               -- ` f` followed by the rest
  | frac (n d : Src)                           -- `n / d`
  | sum (neg : Bool) (first : Src) (tail : Src) -- an expression: optional `-`, first term, chain of the others
  | tnil
  | tcons (minus : Bool) (t : Src) (tail : Src) -- ` + t` / ` - t` followed by the rest
deriving Repr, Inhabited

def digitChar (d : Nat) : Char := Char.ofNat (48 + d)

/-- the text of a signed integer exponent -/
def expoText (neg : Bool) (ds : List Nat) : List Char := (if neg then ['-'] else []) ++ ds.map digitChar

/-- integer part and optional fractional part of a decimal literal -/
def numText (ip : List Nat) (fp : Option (List Nat)) : List Char :=
  ip.map digitChar ++ (match fp with | none => [] | some f => '.' :: f.map digitChar)

/-- optional exponent of a decimal literal -/
def expSuffix (ex : Option (Bool × List Nat)) : List Char :=
  match ex with | none => [] | some (neg, ds) => 'e' :: expoText neg ds

def decText (ip : List Nat) (fp : Option (List Nat)) (ex : Option (Bool × List Nat)) : List Char :=
  numText ip fp ++ expSuffix ex

def Src.print : Src → List Char
  | .num ds => ds.map digitChar
  | .dec ip fp ex => decText ip fp ex
  | .var name idx => name ++ (if idx.isEmpty then [] else '_' :: idx)
  | .paren e => '(' :: e.print ++ [')']
  | .jump e => '[' :: e.print ++ [']']
  | .mean e => '{' :: e.print ++ ['}']
  | .call name idx arg => (name ++ (if idx.isEmpty then [] else '_' :: idx)) ++ ('(' :: arg.print ++ [')'])
  | .powInt b neg ds => b.print ++ '^' :: ((if neg then ['-'] else []) ++ ds.map digitChar)
  | .powExpr b e => b.print ++ '^' :: ('(' :: e.print ++ [')'])
  | .prod f tail => f.print ++ tail.print
  | .pnil => []
  | .pcons f tail => ' ' :: f.print ++ tail.print
  | .frac n d => n.print ++ ([' ', '/', ' '] ++ d.print)
  | .sum neg first tail => (if neg then ['-'] else []) ++ first.print ++ tail.print
  | .tnil => []
  | .tcons minus t tail => [' ', if minus then '-' else '+', ' '] ++ t.print ++ tail.print

/-! ## which trees belong to the grammar -/

/-- characters a name may contain: anything the scanner does not look for -/
def nameChar (c : Char) : Bool := !(c == ' ' || c == '_' || c == '^' || isOpen c || isClose c)
/-- a name must not start like a number or an operator -/
def nameStart (c : Char) : Bool := nameChar c && !(isDigit c || c == '.' || c == '+' || c == '-' || c == '/')

def nameOK : Name → Bool
  | [] => false
  | c :: cs => nameStart c && cs.all nameChar

def idxChar (c : Char) : Bool := isDigit c || ('a' ≤ c && c ≤ 'z')

def digitsOK (ds : List Nat) : Bool := !ds.isEmpty && ds.all (· < 10)

/-- a decimal literal in python syntax that is not an integer literal: `1.5`, `.5`, `2.`, `1e1`, `2.5e-1` -/
def decOK (ip : List Nat) (fp : Option (List Nat)) (ex : Option (Bool × List Nat)) : Bool :=
  ip.all (· < 10) &&
  (match fp with
   | none => !ip.isEmpty && ex.isSome
   | some f => f.all (· < 10) && !(ip.isEmpty && f.isEmpty)) &&
  (match ex with | none => true | some (_, ds) => digitsOK ds)

/-- value of a decimal literal: mantissa digits and decimal exponent -/
def decValue (ip : List Nat) (fp : Option (List Nat)) (ex : Option (Bool × List Nat)) : Nat × Int :=
  (digitsVal (ip ++ fp.getD []),
   (match ex with | none => (0 : Int) | some (neg, ds) => if neg then - (digitsVal ds : Int) else (digitsVal ds : Int)) - ((fp.getD []).length : Int))

inductive Kind where
  | item | power | ptail | term | frac | ttail | expr
deriving Repr, DecidableEq

def Src.ok : Kind → Src → Bool
  | .item, .num ds => digitsOK ds
  | .item, .dec ip fp ex => decOK ip fp ex
  | .item, .var name idx => nameOK name && idx.all idxChar
  | .item, .paren e => e.ok .expr
  | .item, .jump e => e.ok .expr
  | .item, .mean e => e.ok .expr
  | .item, .call name idx arg => nameOK name && idx.all idxChar && arg.ok .expr
  | .power, .num ds => digitsOK ds
  | .power, .dec ip fp ex => decOK ip fp ex
  | .power, .var name idx => nameOK name && idx.all idxChar
  | .power, .paren e => e.ok .expr
  | .power, .jump e => e.ok .expr
  | .power, .mean e => e.ok .expr
  | .power, .call name idx arg => nameOK name && idx.all idxChar && arg.ok .expr
  | .power, .powInt b _ ds => b.ok .item && digitsOK ds
  | .power, .powExpr b e => b.ok .item && e.ok .expr
  | .ptail, .pnil => true
  | .ptail, .pcons f tail => f.ok .power && tail.ok .ptail
  | .term, .prod f tail => f.ok .power && tail.ok .ptail
  | .frac, .prod f tail => f.ok .power && tail.ok .ptail
  | .frac, .frac n d => n.ok .term && d.ok .term
  | .ttail, .tnil => true
  | .ttail, .tcons _ t tail => t.ok .frac && tail.ok .ttail
  | .expr, .sum _ first tail => first.ok .frac && tail.ok .ttail
  | _, _ => false

/-! ## direct elaboration -/

def noSub : Sub := ⟨0, []⟩

def toOpt {α : Type} : P α → Option α
  | .ok a => some a
  | .error _ => none

/-- `parse_term` on the parsed factors: one factor is returned as is, several are multiplied and traced -/
def termCombine (r : Res) (rs : List Res) : Option Res :=
  match r :: rs with
  | [r] => some r
  | parts => toOpt (trace noSub (.mul (parts.map (·.ops))) (parts.map (·.shape)).flatten (parts.map (·.indices)).flatten (parts.map (·.summed)))

/-- the tail of `parse_power` / `parse_fraction`: the exponent / denominator must be a scalar, summed indices merge -/
def scalarCombine (mk : Ops → Ops → Ops) (base ex : Res) : Option Res :=
  if !ex.indices.isEmpty then none
  else (toOpt (mergeSummed noSub [base.summed, ex.summed])).bind fun summed =>
    (toOpt (verifyIndicesSummed noSub base.indices summed)).bind fun _ =>
      some ⟨mk base.ops ex.ops, base.shape, base.indices, summed⟩

mutual
/-- an item or a power, as `parse_power` / `parse_item` treat it -/
def elabPower (Γ : Ctx) : Src → Bool → Option Res
  | .num ds, allowNumber => if allowNumber then some ⟨.int (digitsVal ds), [], [], []⟩ else none
  | .dec ip fp ex, allowNumber =>
    if allowNumber then some ⟨.float (decValue ip fp ex).1 (decValue ip fp ex).2, [], [], []⟩ else none
  | .var name idx, _ =>
    match Γ.lookupVar name with
    | none => none
    | some shape =>
      if shape.length != idx.length then none
      else (toOpt (genIndicesGo (.var name) shape [] ⟨0, idx⟩)).bind fun g => toOpt (trace noSub g.1 g.2.1 g.2.2 [[]])
  | .paren e, _ => (elabExpr Γ e).map fun r => { r with ops := .scope r.ops }
  | .jump e, _ => (elabExpr Γ e).map fun r => { r with ops := .jump r.ops }
  | .mean e, _ => (elabExpr Γ e).map fun r => { r with ops := .mean r.ops }
  | .call name idx arg, _ =>
    (elabExpr Γ arg).bind fun a =>
      match Γ.lookupFn name with
      | none => none
      | some gen =>
        if gen.length != idx.length then none
        else (toOpt (genIndicesGo (.call name idx.length a.ops) (a.shape ++ gen) a.indices ⟨0, idx⟩)).bind fun g =>
          toOpt (trace noSub g.1 g.2.1 g.2.2 [a.summed])
  | .powInt b neg ds, a =>
    (elabPower Γ b a).bind fun base =>
      scalarCombine .pow base ⟨.int (if neg then - (digitsVal ds : Int) else (digitsVal ds : Int)), [], [], []⟩
  | .powExpr b e, a =>
    (elabPower Γ b a).bind fun base => (elabExpr Γ e).bind fun ex => scalarCombine .pow base ex
  | _, _ => none
/-- the factors after the first (numbers are not allowed there) -/
def elabFactors (Γ : Ctx) : Src → Option (List Res)
  | .pnil => some []
  | .pcons f tail => (elabPower Γ f false).bind fun r => (elabFactors Γ tail).bind fun rs => some (r :: rs)
  | _ => none
/-- a term, as `parse_term` treats it -/
def elabTerm (Γ : Ctx) : Src → Option Res
  | .prod f tail => (elabPower Γ f true).bind fun r => (elabFactors Γ tail).bind fun rs => termCombine r rs
  | _ => none
/-- a fraction (or a plain term), as `parse_fraction` treats it -/
def elabFrac (Γ : Ctx) : Src → Option Res
  | .prod f tail => (elabPower Γ f true).bind fun r => (elabFactors Γ tail).bind fun rs => termCombine r rs
  | .frac n d => (elabTerm Γ n).bind fun num => (elabTerm Γ d).bind fun den => scalarCombine .div num den
  | _ => none
/-- the terms after the first with their signs -/
def elabTail (Γ : Ctx) : Src → Option (List (Bool × Sub × Res))
  | .tnil => some []
  | .tcons minus t tail => (elabFrac Γ t).bind fun r => (elabTail Γ tail).bind fun rs => some ((minus, noSub, r) :: rs)
  | _ => none
/-- an expression, as `parse_expression` treats it -/
def elabExpr (Γ : Ctx) : Src → Option Res
  | .sum neg first tail =>
    (elabFrac Γ first).bind fun r => (elabTail Γ tail).bind fun rest =>
      if !neg && rest.isEmpty then some r
      else (toOpt (alignGo noSub r.shape r.indices rest 2 [neg] [r.ops] r.summed)).map fun a =>
        ⟨.add a.1 a.2.1, r.shape, r.indices, a.2.2⟩
  | _ => none
end

end NutilsVerif.C19
