import NutilsVerif.Core.Poly
import NutilsVerif.Core.Tensor
import NutilsVerif.Core.Proto
/-!
# Specification-level semantics of the evaluable IR  (no Mathlib)

A serialised expression DAG is a table of nodes in topological order; node `i` is
`(ClassName, args)` where args refer to earlier nodes.  `evalNode` gives each node class of
fragment **F** its NumPy meaning as a `Tensor Poly` (see `Core/Tensor.lean`: every operation is an
index formula).  Integer-valued sub-expressions (shapes, indices, loop lengths) are required to
evaluate to constants.  Classes outside F answer `unsupported <Class>` — never a default value.
-/
namespace NutilsVerif.Expr
open NutilsVerif

inductive Arg
  | ref (id : Nat)
  | int (z : Int)
  | str (s : String)
  | bool (b : Bool)
  | none
  | list (l : List Arg)
  | ms (l : List Arg)                                   -- frozenmultiset
  | data (dtype : String) (shape : List Nat) (vals : List Rat)   -- arraydata
  | dtype (s : String)
  | loop (name : String)                                -- _LoopId
  | opaque (cls : String)
deriving Inhabited

structure Node where
  cls : String
  args : List Arg
deriving Inhabited

abbrev T := Tensor Poly

structure Env where
  nodes : Array Node
  args : List (String × T)            -- argument values (constant or symbolic entries)
  loops : List (String × Nat) := []   -- current loop indices

inductive Err
  | unsupported (what : String)
  | undefined (what : String)        -- the expression is not defined at this point (division by zero, sqrt of negative, …)
  | illformed (what : String)        -- the tree violates an invariant of the IR (shape mismatch, index out of range, …)
deriving Repr, Inhabited

abbrev M := Except Err

def bad (s : String) : M α := .error (.illformed s)

def T.toNats (t : T) : M (Tensor Nat) := do
  let vals ← t.data.toList.mapM fun p => match p.toInt? with
    | some z => if z ≥ 0 then pure z.toNat else bad s!"negative index {z}"
    | none => bad s!"non-integer index {p.key}"
  return ⟨t.shape, vals.toArray⟩

def T.toInts (t : T) : M (Tensor Int) := do
  let vals ← t.data.toList.mapM fun p => match p.toInt? with
    | some z => pure z
    | none => bad s!"non-integer value {p.key}"
  return ⟨t.shape, vals.toArray⟩

def T.toNat (t : T) : M Nat := do
  if t.shape != [] then bad "expected 0-d integer" else
  match (t.data.getD 0 0).toInt? with
  | some z => if z ≥ 0 then pure z.toNat else bad s!"negative length {z}"
  | none => bad "non-constant length"

def ofInts (shape : List Nat) (l : List Int) : T := ⟨shape, (l.map Poly.ofInt).toArray⟩

/-- pointwise application of a scalar function; `none` from `Poly.app` = undefined here -/
def mapApp (f : String) (ts : List T) : M T := do
  match ts with
  | [] => bad "mapApp: no operands"
  | t0 :: _ =>
    if ts.any (·.shape != t0.shape) then bad s!"{f}: operand shapes differ" else
    let vals ← (List.range t0.data.size).mapM fun k =>
      match Poly.app f (ts.map fun t => t.data.getD k 0) with
      | some v => pure v
      | none => .error (.undefined f)
    return ⟨t0.shape, vals.toArray⟩

def unaryName : String → Option String
  | "Absolute" => some "abs" | "Sign" => some "sign" | "Reciprocal" => some "inv" | "LogicalNot" => some "not"
  | "Sin" => some "sin" | "Cos" => some "cos" | "Tan" => some "tan" | "ArcSin" => some "arcsin" | "ArcCos" => some "arccos"
  | "ArcTan" => some "arctan" | "Exp" => some "exp" | "Log" => some "log" | "SinH" => some "sinh" | "CosH" => some "cosh"
  | "TanH" => some "tanh" | "ArcTanH" => some "arctanh"
  | _ => none

def binaryName : String → Option String
  | "Minimum" => some "min" | "Maximum" => some "max" | "FloorDivide" => some "fdiv" | "Mod" => some "fmod"
  | "Equal" => some "equal" | "Less" => some "less" | "Greater" => some "greater" | "ArcTan2" => some "arctan2"
  | "Power" => some "pow"
  | _ => none

/-- determinant by Laplace expansion along the first row (matrices as lists of rows) -/
def det : Nat → List (List Poly) → Poly
  | 0, _ => 1
  | n + 1, m =>
    match m with
    | [] => 1
    | row :: rest =>
      (row.zipIdx.foldl (fun (acc : Poly) (a, j) =>
        let minor := rest.map fun r => r.eraseIdx j
        let term := a * det n minor
        if j % 2 == 0 then acc + term else acc - term) 0)

def minorOf (m : List (List Poly)) (i j : Nat) : List (List Poly) :=
  (m.eraseIdx i).map fun r => r.eraseIdx j

/-- einsum: output index labels `out`, operands with their labels; summed labels = those not in `out` -/
def einsum (ops : List (T × List Nat)) (out : List Nat) : M T := do
  let labels := (ops.flatMap (·.2)).eraseDups
  let len (l : Nat) : Nat := (ops.findSome? fun (t, idx) => (idx.idxOf? l).map fun k => t.shape.getD k 0).getD 0
  for (t, idx) in ops do
    if t.shape.length != idx.length then bad "einsum: rank mismatch"
    for (l, k) in idx.zipIdx do
      if t.shape.getD k 0 != len l then bad "einsum: inconsistent lengths"
  let summed := labels.filter fun l => !out.contains l
  let sumShape := summed.map len
  return Tensor.ofFn (out.map len) fun oidx =>
    (Tensor.indices sumShape).foldl (fun (acc : Poly) sidx =>
      let val (l : Nat) : Nat := match out.idxOf? l with
        | some k => oidx.getD k 0
        | none => sidx.getD (summed.idxOf l) 0
      acc + ops.foldl (fun (p : Poly) (t, idx) => p * t.get (idx.map val)) 1) 0


/-- exponent vectors of all monomials of degree ≤ p in n variables, in nutils_poly's reverse lexicographic order -/
def polyPowers : Nat → Nat → List (List Nat)
  | 0, _ => [[]]
  | n + 1, p => (List.range (p + 1)).reverse.flatMap fun kl => (polyPowers n (p - kl)).map (· ++ [kl])

def polyNCoeffs (nvars degree : Nat) : Nat := (polyPowers nvars degree).length

/-- degree of a polynomial in `nvars` variables with `ncoeffs` coefficients (none if no such degree) -/
def polyDegree? (ncoeffs nvars : Nat) : Option Nat :=
  (List.range (ncoeffs + 1)).find? fun p => polyNCoeffs nvars p == ncoeffs

def monomialAt (x : List Poly) (pw : List Nat) : Poly :=
  (x.zip pw).foldl (fun acc (xi, k) => acc * Poly.npow xi k) 1

def stableArgsort (l : List Int) : List Nat :=
  let indexed := l.zipIdx
  (indexed.mergeSort fun a b => a.1 < b.1 || (a.1 == b.1 && a.2 ≤ b.2)).map (·.2)

mutual

partial def evalRef (env : Env) (id : Nat) : M T :=
  match env.nodes[id]? with
  | some n => evalNode env n
  | none => bad s!"dangling reference {id}"

partial def evalArg (env : Env) : Arg → M T
  | .ref id => evalRef env id
  | .int z => pure (Tensor.scalar (Poly.ofInt z))
  | _ => bad "expected array argument"

partial def evalNat (env : Env) (a : Arg) : M Nat := do (← evalArg env a).toNat

partial def evalShape (env : Env) : Arg → M (List Nat)
  | .list l => l.mapM (evalNat env)
  | _ => bad "expected shape tuple"

partial def evalNode (env : Env) (n : Node) : M T := do
  match n.cls, n.args with
  | "Constant", [.data _ shape vals] => pure ⟨shape, (vals.map Poly.ofRat).toArray⟩
  | "Zeros", [shape, _] => do pure (Tensor.full (← evalShape env shape) 0)
  | "Argument", [.str name, shape, _] => do
    let sh ← evalShape env shape
    match env.args.lookup name with
    | some t => if t.shape == sh then pure t else bad s!"argument {name}: shape {t.shape} ≠ announced {sh}"
    | none => bad s!"missing argument {name}"
  | "InsertAxis", [f, len] => do pure ((← evalArg env f).insertAxis (← evalNat env len))
  | "Transpose", [f, .list axes] => do
    let t ← evalArg env f
    let ax ← axes.mapM fun | .int z => pure z.toNat | _ => bad "Transpose axes"
    if ax.length != t.ndim || !(List.range t.ndim).all ax.contains then bad "Transpose: not a permutation" else
    pure (t.transpose ax)
  | "Add", [.ms [a, b]] => do
    let x ← evalArg env a; let y ← evalArg env b
    if x.shape != y.shape then bad "Add: shapes differ" else pure (Tensor.zipWith (· + ·) x y)
  | "Multiply", [.ms [a, b]] => do
    let x ← evalArg env a; let y ← evalArg env b
    if x.shape != y.shape then bad "Multiply: shapes differ" else pure (Tensor.zipWith (· * ·) x y)
  | "Add@bool", [.ms [a, b]] => do
    -- boolean addition is logical or: a + b - a*b on {0,1}
    let x ← evalArg env a; let y ← evalArg env b
    if x.shape != y.shape then bad "Add: shapes differ" else pure (Tensor.zipWith (fun p q => p + q - p * q) x y)
  | "Sum@bool", [f] => do
    let t ← evalArg env f
    if t.ndim == 0 then bad "Sum of 0-d" else pure (t.reduceLast (fun p q => p + q - p * q) 0)
  | "Inflate@bool", [f, d, len] => do
    let t ← evalArg env f
    let dm ← (← evalArg env d).toNats
    let n ← evalNat env len
    if t.ndim < dm.shape.length || t.shape.drop (t.ndim - dm.shape.length) != dm.shape then bad "Inflate: dofmap shape mismatch" else
    if dm.data.any (· ≥ n) then bad "Inflate: dof out of range" else
    pure (t.inflate (fun p q => p + q - p * q) 0 dm n)
  | "LoopSum@bool", [.loop name, len, f, shape] => do
    let n ← evalNat env len
    let sh ← evalShape env shape
    let mut acc : T := Tensor.full sh 0
    for i in List.range n do
      let t ← evalArg { env with loops := (name, i) :: env.loops } f
      if t.shape != sh then bad "LoopSum: body shape ≠ announced shape"
      acc := Tensor.zipWith (fun p q => p + q - p * q) acc t
    pure acc
  | "Sum", [f] => do
    let t ← evalArg env f
    if t.ndim == 0 then bad "Sum of 0-d" else pure (t.reduceLast (· + ·) 0)
  | "Product", [f] => do
    let t ← evalArg env f
    if t.ndim == 0 then bad "Product of 0-d" else pure (t.reduceLast (· * ·) 1)
  | "TakeDiag", [f] => do
    let t ← evalArg env f
    let k := t.ndim
    if k < 2 || t.shape.getD (k-1) 0 != t.shape.getD (k-2) 0 then bad "TakeDiag: last axes differ" else pure t.takeDiag
  | "Diagonalize", [f] => do
    let t ← evalArg env f
    if t.ndim == 0 then bad "Diagonalize of 0-d" else pure (t.diagonalize 0)
  | "Take", [f, i] => do
    let t ← evalArg env f
    let ind ← (← evalArg env i).toNats
    if t.ndim == 0 then bad "Take of 0-d" else
    if ind.data.any (· ≥ t.shape.getLastD 0) then bad "Take: index out of range" else pure (t.take ind)
  | "Inflate", [f, d, len] => do
    let t ← evalArg env f
    let dm ← (← evalArg env d).toNats
    let n ← evalNat env len
    if t.ndim < dm.shape.length || t.shape.drop (t.ndim - dm.shape.length) != dm.shape then bad "Inflate: dofmap shape mismatch" else
    if dm.data.any (· ≥ n) then bad "Inflate: dof out of range" else
    pure (t.inflate (· + ·) 0 dm n)
  | "Ravel", [f] => do
    let t ← evalArg env f
    if t.ndim < 2 then bad "Ravel: ndim < 2" else pure t.ravel
  | "Unravel", [f, a, b] => do
    let t ← evalArg env f
    let a ← evalNat env a; let b ← evalNat env b
    if t.ndim == 0 || t.shape.getLastD 0 != a * b then bad "Unravel: length mismatch" else pure (t.unravel a b)
  | "Negative", [f] => do pure ((← evalArg env f).map (- ·))
  | "BoolToInt", [f] | "IntToFloat", [f] | "Guard", [f] | "Real", [f] | "Conjugate", [f] => evalArg env f
  | "Imag", [f] => do pure (Tensor.full (← evalArg env f).shape 0)
  | "WithDerivative", [f, _, _] => evalArg env f
  | "Sinc", [f, .int k] => do mapApp s!"sinc{k}" [← evalArg env f]
  | "Range", [len] => do
    let n ← evalNat env len
    pure (ofInts [n] ((List.range n).map Int.ofNat))
  | "InRange", [i, len] => do
    let t ← evalArg env i
    let n ← evalNat env len
    let v ← t.toInts
    if v.data.any (fun z => z < 0 || z ≥ n) then bad "InRange: index outside [0,length)" else pure t
  | "NormDim", [len, i] => do
    let l ← (← evalArg env len).toInts
    let v ← (← evalArg env i).toInts
    if l.shape != v.shape then bad "NormDim: shapes differ" else
    let res := (List.range v.data.size).map fun k =>
      let z := v.data.getD k 0; let n := l.data.getD k 0
      (if z < 0 then z + n else z, n)
    if res.any (fun (z, n) => z < 0 || z ≥ n) then bad "NormDim: index out of bounds" else
    pure (ofInts v.shape (res.map (·.1)))
  | "RavelIndex", [ia, ib, _na, nb] => do
    let a ← evalArg env ia; let b ← evalArg env ib
    let nb ← evalNat env nb
    pure (Tensor.ofFn (a.shape ++ b.shape) fun idx =>
      a.get (idx.take a.ndim) * Poly.ofInt nb + b.get (idx.drop a.ndim))
  | "Choose", [i, ch] => do
    let ind ← (← evalArg env i).toNats
    let c ← evalArg env ch
    if c.shape.dropLast != ind.shape then bad "Choose: shapes differ" else
    if ind.data.any (· ≥ c.shape.getLastD 0) then bad "Choose: index out of range" else
    pure (Tensor.ofFn ind.shape fun idx => c.get (idx ++ [ind.get idx]))
  | "Determinant", [f] => do
    let t ← evalArg env f
    let k := t.ndim
    let n := t.shape.getLastD 0
    if k < 2 || t.shape.getD (k-2) 0 != n then bad "Determinant: not square" else
    pure (Tensor.ofFn (t.shape.take (k-2)) fun idx =>
      det n ((List.range n).map fun i => (List.range n).map fun j => t.get (idx ++ [i, j])))
  | "Inverse", [f] => do
    let t ← evalArg env f
    let k := t.ndim
    let n := t.shape.getLastD 0
    if k < 2 || t.shape.getD (k-2) 0 != n then bad "Inverse: not square" else
    let pre := t.shape.take (k-2)
    let mats := (Tensor.indices pre).map fun idx => (List.range n).map fun i => (List.range n).map fun j => t.get (idx ++ [i, j])
    let invs ← mats.mapM fun m => do
      let d := det n m
      match Poly.app "inv" [d] with
      | some di => pure ((List.range n).map fun i => (List.range n).map fun j =>
          let c := det (n-1) (minorOf m j i) * di
          if (i + j) % 2 == 0 then c else - c)
      | none => .error (.undefined "inverse of singular matrix")
    pure (Tensor.ofFn t.shape fun idx =>
      let m := invs.getD (flatIdx pre (idx.take (k-2))) []
      (m.getD (idx.getD (k-2) 0) []).getD (idx.getD (k-1) 0) 0)
  | "_LoopIndex", [.loop name, _] =>
    match env.loops.lookup name with
    | some i => pure (Tensor.scalar (Poly.ofInt i))
    | none => bad s!"loop index {name} used outside its loop"
  | "LoopSum", [.loop name, len, f, shape] => do
    let n ← evalNat env len
    let sh ← evalShape env shape
    let mut acc : T := Tensor.full sh 0
    for i in List.range n do
      let t ← evalArg { env with loops := (name, i) :: env.loops } f
      if t.shape != sh then bad "LoopSum: body shape ≠ announced shape"
      acc := Tensor.zipWith (· + ·) acc t
    pure acc
  | "LoopConcatenate", [.loop name, len, f, start, stop, clen] => do
    let n ← evalNat env len
    let total ← evalNat env clen
    let mut parts : List T := []
    let mut pos := 0
    let mut pre : Option (List Nat) := none
    for i in List.range n do
      let env' := { env with loops := (name, i) :: env.loops }
      let t ← evalArg env' f
      let a ← evalNat env' start; let b ← evalNat env' stop
      if t.ndim == 0 then bad "LoopConcatenate: 0-d body"
      if a != pos || b != pos + t.shape.getLastD 0 then bad "LoopConcatenate: start/stop do not tile the axis"
      if (pre.map (· != t.shape.dropLast)).getD false then bad "LoopConcatenate: leading shapes differ"
      pre := some t.shape.dropLast
      pos := b
      parts := parts ++ [t]
    if pos != total then bad "LoopConcatenate: concat_length ≠ total length"
    match pre with
    | some p => pure (Tensor.concatLast parts p)
    | none => .error (.unsupported "LoopConcatenate of zero iterations (leading shape unknown)")
  | "_SizesToOffsets", [s] => do
    let v ← (← evalArg env s).toInts
    if v.shape.length != 1 then bad "_SizesToOffsets: not 1-d" else
    let offs := v.data.toList.foldl (fun (acc : List Int) z => acc ++ [acc.getLastD 0 + z]) [0]
    pure (ofInts [offs.length] offs)
  | "Einsum", [.list args, .list idxs, .list out] => do
    let ts ← args.mapM (evalArg env)
    let getIdx : Arg → M (List Nat) := fun
      | .list l => l.mapM fun | .int z => pure z.toNat | _ => bad "Einsum index"
      | _ => bad "Einsum indices"
    let is ← idxs.mapM getIdx
    let o ← getIdx (.list out)
    einsum (ts.zip is) o
  | "Assemble", [f, .list inds, shape] => do
    let t ← evalArg env f
    let sh ← evalShape env shape
    let its ← inds.mapM fun a => do (← evalArg env a).toNats
    if (its.map (·.shape.length)).foldl (· + ·) 0 != t.ndim || its.length != sh.length then bad "Assemble: rank mismatch" else
    if (its.zip sh).any (fun (it, n) => it.data.any (· ≥ n)) then bad "Assemble: index out of range" else
    let srcs := Tensor.indices t.shape
    pure (Tensor.ofFn sh fun oidx =>
      srcs.foldl (fun (acc : Poly) sidx =>
        let (ok, _) := (its.zip oidx).foldl (fun (st : Bool × List Nat) (it, o) =>
          let k := it.shape.length
          (st.1 && it.get (st.2.take k) == o, st.2.drop k)) (true, sidx)
        if ok then acc + t.get sidx else acc) 0)
  | "_TakeSlice", [f, len, off] => do
    let t ← evalArg env f
    let l ← evalNat env len; let o ← evalNat env off
    if t.ndim == 0 || o + l > t.shape.getLastD 0 then bad "_TakeSlice: out of range" else pure (t.sliceLast o l)
  | "_Get", [f, i] => do
    let t ← evalArg env f
    let k ← evalNat env i
    if t.ndim == 0 || k ≥ t.shape.getLastD 0 then bad "_Get: out of range" else
    pure (Tensor.ofFn t.shape.dropLast fun idx => t.get (idx ++ [k]))
  | "ArgSort", [a] => do
    let v ← (← evalArg env a).toInts
    if v.shape.length != 1 then bad "ArgSort: not 1-d" else
    pure (ofInts v.shape ((stableArgsort v.data.toList).map Int.ofNat))
  | "UniqueMask", [a] => do
    let v ← (← evalArg env a).toInts
    let l := v.data.toList
    pure (ofInts v.shape (l.zipIdx.map fun (z, k) => if k == 0 || l.getD (k-1) 0 != z then 1 else 0))
  | "UniqueInverse", [mask, sorter] => do
    let m ← (← evalArg env mask).toInts
    let s ← (← evalArg env sorter).toNats
    let cum := m.data.toList.foldl (fun (acc : List Int) z => acc ++ [acc.getLastD 0 + z]) []
    -- inverse[sorter[k]] = cumsum(mask)[k] - 1
    let n := s.data.size
    pure (ofInts [n] ((List.range n).map fun pos =>
      match s.data.toList.idxOf? pos with
      | some k => cum.getD k 0 - 1
      | none => -1))
  | "Find", [w] => do
    let v ← (← evalArg env w).toInts
    let pos := (v.data.toList.zipIdx.filter (·.1 != 0)).map fun (_, k) => Int.ofNat k
    pure (ofInts [pos.length] pos)
  | "CompressIndices", [i, len] => do
    let v ← (← evalArg env i).toInts
    let n ← evalNat env len
    let l := v.data.toList
    pure (ofInts [n+1] ((List.range (n+1)).map fun (k : Nat) => ((l.filter (· < (k : Int))).length : Int)))
  | "SearchSorted", [a, arr, sorter, .str side] => do
    let x ← (← evalArg env a).toInts
    let v ← (← evalArg env arr).toInts
    let sorted ← match sorter with
      | .none => pure v.data.toList
      | s => do let p ← (← evalArg env s).toNats; pure (p.data.toList.map fun k => v.data.getD k 0)
    pure (ofInts x.shape (x.data.toList.map fun z =>
      ((sorted.filter fun w => if side == "left" then w < z else w ≤ z).length : Int)))
  | "AssertEqual", [a, b] => do
    let x ← evalArg env a; let y ← evalArg env b
    if x.shape == y.shape && x.data.toList == y.data.toList then pure x else bad "AssertEqual: operands differ"
  | "PolyNCoeffs", [.int nv, d] => do
    let deg ← evalNat env d
    pure (Tensor.scalar (Poly.ofInt (polyNCoeffs nv.toNat deg)))
  | "PolyDegree", [nc, .int nv] => do
    let n ← evalNat env nc
    match polyDegree? n nv.toNat with
    | some p => pure (Tensor.scalar (Poly.ofInt p))
    | none => bad s!"PolyDegree: {n} coefficients is not a valid count for {nv} variables"
  | "Polyval", [cf, pts] => do
    let c ← evalArg env cf; let x ← evalArg env pts
    if c.ndim == 0 || x.ndim == 0 then bad "Polyval: 0-d operand" else
    let nv := x.shape.getLastD 0
    match polyDegree? (c.shape.getLastD 0) nv with
    | none => bad "Polyval: invalid number of coefficients"
    | some p =>
      let pws := polyPowers nv p
      let np := x.ndim - 1
      pure (Tensor.ofFn (x.shape.dropLast ++ c.shape.dropLast) fun idx =>
        let xi := (List.range nv).map fun v => x.get (idx.take np ++ [v])
        pws.zipIdx.foldl (fun (acc : Poly) (pw, k) => acc + c.get (idx.drop np ++ [k]) * monomialAt xi pw) 0)
  | "PolyGrad", [cf, .int nv] => do
    let c ← evalArg env cf
    let nv := nv.toNat
    if c.ndim == 0 then bad "PolyGrad: 0-d operand" else
    match polyDegree? (c.shape.getLastD 0) nv with
    | none => bad "PolyGrad: invalid number of coefficients"
    | some p =>
      let pws := polyPowers nv p
      let out := polyPowers nv (p - 1)
      let nc := c.ndim - 1
      pure (Tensor.ofFn (c.shape.dropLast ++ [nv, out.length]) fun idx =>
        let v := idx.getD nc 0
        let pw := out.getD (idx.getD (nc+1) 0) []
        if p == 0 then 0 else
        let src := pw.set v (pw.getD v 0 + 1)
        match pws.idxOf? src with
        | some k => Poly.ofInt (pw.getD v 0 + 1) * c.get (idx.take nc ++ [k])
        | none => 0)
  | "PolyMul", [cl, cr, .list vars, _, _] | "PolyMul", [cl, cr, .list vars] => do
    let l ← evalArg env cl; let r ← evalArg env cr
    let vs ← vars.mapM fun | .str s => pure s | _ => bad "PolyMul vars"
    let nl := (vs.filter (· != "Right")).length
    let nr := (vs.filter (· != "Left")).length
    if l.ndim == 0 || r.ndim == 0 || l.shape.dropLast != r.shape.dropLast then bad "PolyMul: operand shapes" else
    match polyDegree? (l.shape.getLastD 0) nl, polyDegree? (r.shape.getLastD 0) nr with
    | some pl, some pr =>
      let embed (side : String) (pw : List Nat) : List Nat :=
        (vs.foldl (fun (st : List Nat × List Nat) v => if v == side then (st.1 ++ [0], st.2) else (st.1 ++ [st.2.headD 0], st.2.tail)) ([], pw)).1
      let lp := (polyPowers nl pl).map (embed "Right")
      let rp := (polyPowers nr pr).map (embed "Left")
      let out := polyPowers vs.length (pl + pr)
      let nc := l.ndim - 1
      pure (Tensor.ofFn (l.shape.dropLast ++ [out.length]) fun idx =>
        let k := out.getD (idx.getD nc 0) []
        lp.zipIdx.foldl (fun (acc : Poly) (a, ia) =>
          rp.zipIdx.foldl (fun (acc : Poly) (b, ib) =>
            if List.zipWith (· + ·) a b == k then acc + l.get (idx.take nc ++ [ia]) * r.get (idx.take nc ++ [ib]) else acc) acc) 0)
    | _, _ => bad "PolyMul: invalid number of coefficients"
  | "Legendre", [x, .int deg] => do
    let t ← evalArg env x
    let n := deg.toNat
    pure (Tensor.ofFn (t.shape ++ [n+1]) fun idx =>
      let xv := t.get idx.dropLast
      let k := idx.getLastD 0
      -- P0 = 1, P1 = x, (m+1) P_{m+1} = (2m+1) x P_m - m P_{m-1}
      let ps := (List.range k).foldl (fun (st : Poly × Poly × Nat) _ =>
        let (pm1, pm, m) := st
        (pm, Poly.scale (1 / ((m : Rat) + 1)) (Poly.scale (2 * (m : Rat) + 1) (xv * pm) - Poly.scale (m : Rat) pm1), m + 1)) ((0 : Poly), (1 : Poly), 0)
      ps.2.1)
  | "Monomial", [v, .list args, .list inds, _] => do
    let vals ← evalArg env v
    if vals.ndim != 1 then bad "Monomial: values not 1-d" else
    if args.length != inds.length then bad "Monomial: args/indices length" else
    let n := vals.shape.getD 0 0
    let fs ← (args.zip inds).mapM fun (a, is) => do
      let t ← evalArg env a
      let its ← match is with | .list l => l.mapM (fun i => do (← evalArg env i).toNats) | _ => bad "Monomial indices"
      if its.length != t.ndim || its.any (·.shape != [n]) then bad "Monomial: index rank/shape" else
      if (its.zip t.shape).any (fun (it, m) => it.data.any (· ≥ m)) then bad "Monomial: index out of range" else
      pure (t, its)
    pure (Tensor.ofFn [n] fun idx => fs.foldl (fun (acc : Poly) (t, its) => acc * t.get (its.map (·.get idx))) (vals.get idx))
  | "Singular", _ => .error (.undefined "Singular")
  | cls, args => do
    match unaryName cls, binaryName cls, args with
    | some f, _, [a] => do mapApp f [← evalArg env a]
    | _, some f, [a, b] => do mapApp f [← evalArg env a, ← evalArg env b]
    | _, _, _ => .error (.unsupported cls)

end

end NutilsVerif.Expr
