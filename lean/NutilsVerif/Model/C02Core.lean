/-!
# C02 — verified core of the in-place compilation protocol  (model; no Mathlib)

Mirrors, for the sub-language {leaf, Add, Inflate/Assemble (scatter), Transpose, LoopSum}, what
`nutils.evaluable` does when it compiles an expression to statements:

* `Evaluable._compile` / `Add._compile` / `Inflate._compile` / `LoopSum._compile`   →  `Comp.compile`
* `_BlockTreeBuilder.compile_with_out` (the gate + the fallback `copyto` / `iadd`)  →  `cwoOf`
* `Add/Inflate/Assemble/Transpose/LoopSum._compile_with_out` (modes `assign`/`iadd`) →  `Comp.self`

A *leaf* is any node without an in-place protocol (Argument, Constant, Take of a loop index, …): an opaque
array whose value may depend on the indices of the enclosing loops.  Arrays are flat (`cell : Nat`);
`Transpose` is a bijective renumbering of cells, `Inflate`/`Assemble` a not necessarily injective one that
may depend on the enclosing loop indices (element loops).  What is *not* modelled here: placement of
statements in loop blocks (hoisting of loop invariant statements), merging of loops, `Diagonalize`,
`LoopConcatenate`; those are covered by the script checker (`Model/C02.lean`) and by the harness.
-/
namespace NutilsVerif.C02

/-- commutative additive monoid with core classes only -/
class CAM (α : Type) extends Add α, Zero α where
  add_assoc : ∀ a b c : α, a + b + c = a + (b + c)
  add_comm : ∀ a b : α, a + b = b + a
  add_zero : ∀ a : α, a + 0 = a

instance : CAM Int := { add_assoc := Int.add_assoc, add_comm := Int.add_comm, add_zero := Int.add_zero }
instance : CAM Nat := { add_assoc := Nat.add_assoc, add_comm := Nat.add_comm, add_zero := Nat.add_zero }

/-! ## expressions and their denotation -/

inductive E where
  /-- opaque array `k` with `size` cells (value may depend on the enclosing loop indices) -/
  | leaf (k : Nat) (size : Nat)
  | add (a b : E)
  /-- `Inflate` / `Assemble`: cell `j` of `e` is added to cell `M t env j` of a result with `n` cells -/
  | scatter (t : Nat) (n : Nat) (e : E)
  /-- `Transpose`: cell `j` of `e` becomes cell `P t j` of the result (a bijection of the cells) -/
  | transp (t : Nat) (e : E)
  /-- `LoopSum` over `n` iterations; binds a new innermost loop index -/
  | loopsum (n : Nat) (e : E)
deriving Repr, DecidableEq, Inhabited

def E.size : E → Nat
  | .leaf _ s => s
  | .add a _ => a.size
  | .scatter _ n _ => n
  | .transp _ e => e.size
  | .loopsum _ e => e.size

def E.isLeaf : E → Bool
  | .leaf _ _ => true
  | _ => false

/-- interpretation of the opaque symbols: leaf values, scatter maps (loop dependent), transpose maps `P` with
their inverses `Q` (nutils: `Transpose.axes` / `_invaxes`) -/
structure Ctx (α : Type) where
  ρ : Nat → List Nat → Nat → α
  M : Nat → List Nat → Nat → Nat
  P : Nat → Nat → Nat
  Q : Nat → Nat → Nat

section
variable {α : Type} [CAM α]

def sumRange (n : Nat) (f : Nat → α) : α := (List.range n).foldl (fun acc i => acc + f i) 0

/-- `Σ_{j<n, m j = c} f j` -/
def gatherSum (n : Nat) (m : Nat → Nat) (f : Nat → α) (c : Nat) : α :=
  sumRange n fun j => if m j = c then f j else 0

/-- what the expressions denote (`env` = values of the enclosing loop indices, innermost first) -/
def eval (Γ : Ctx α) : List Nat → E → Nat → α
  | env, .leaf k _, c => Γ.ρ k env c
  | env, .add a b, c => eval Γ env a c + eval Γ env b c
  | env, .scatter t _ e, c => gatherSum e.size (Γ.M t env) (eval Γ env e) c
  | env, .transp t e, c => gatherSum e.size (Γ.P t) (eval Γ env e) c
  | env, .loopsum n e, c => sumRange n fun i => eval Γ (i :: env) e c

/-- `P t` renumbers the cells `0..n-1` bijectively, with inverse `Q t` -/
def TagOK (Γ : Ctx α) (t n : Nat) : Prop :=
  ∀ j, j < n → Γ.P t j < n ∧ Γ.Q t j < n ∧ Γ.Q t (Γ.P t j) = j ∧ Γ.P t (Γ.Q t j) = j

/-- well-formedness: operands of `Add` have equal size, scatter indices are in range, transposes are
renumberings of the cells -/
def WF (Γ : Ctx α) : E → Prop
  | .leaf _ _ => True
  | .add a b => a.size = b.size ∧ WF Γ a ∧ WF Γ b
  | .scatter t n e => (∀ env j, j < e.size → Γ.M t env j < n) ∧ WF Γ e
  | .transp t e => TagOK Γ t e.size ∧ WF Γ e
  | .loopsum _ e => WF Γ e

/-! ## statements and their execution -/

inductive Mode | assign | iadd
deriving Repr, DecidableEq

/-- a view of an array: the transposes (outermost last) through which the cells are addressed -/
abbrev View := List Nat

def appV (Γ : Ctx α) : View → Nat → Nat
  | [], j => j
  | t :: v, j => appV Γ v (Γ.P t j)

inductive S where
  /-- `x = numpy.empty(n)`: every cell uninitialised -/
  | alloc (x n : Nat)
  /-- `view(x).fill(0)` -/
  | zero (x : Nat) (v : View) (n : Nat)
  /-- `x = <leaf k>` evaluated at the current loop indices -/
  | leafv (x k n : Nat)
  /-- `x = a + b` -/
  | plus (x a b n : Nat)
  /-- `x = numpy.transpose(a, …)` -/
  | reindex (x t a n : Nat)
  /-- `numpy.add.at(view(x), index, src)` / `numpy.add(view(x), src, out=view(x))`: cell `j` of `src` is added to
  cell `view (index j)` of `x`; `sc = some t` is the scatter index of an `Inflate`/`Assemble` -/
  | addAt (x : Nat) (v : View) (sc : Option Nat) (src n : Nat)
  /-- `numpy.copyto(view(x), src)` -/
  | copyTo (x : Nat) (v : View) (src n : Nat)
  /-- `for i in range(n): body` -/
  | loop (n : Nat) (body : List S)
deriving Repr, Inhabited

/-- named flat arrays; `none` = uninitialised (or unallocated) cell -/
abbrev Store (α : Type) := Nat → Nat → Option α

def Store.set (st : Store α) (x : Nat) (f : Nat → Option α) : Store α := fun y => if y = x then f else st y

def allSome (n : Nat) (f : Nat → Option α) : Bool := (List.range n).all fun j => (f j).isSome

def hits (n : Nat) (m : Nat → Nat) (c : Nat) : Bool := (List.range n).any fun j => m j == c

def idxOf (Γ : Ctx α) (env : List Nat) (v : View) (sc : Option Nat) (j : Nat) : Nat :=
  match sc with
  | none => appV Γ v j
  | some t => appV Γ v (Γ.M t env j)

/-- iterate `f 0, f 1, …, f (n-1)` -/
def iter (n : Nat) (f : Nat → Store α → Option (Store α)) (st : Store α) : Option (Store α) :=
  (List.range n).foldlM (fun st i => f i st) st

mutual
/-- one statement; `none` = an uninitialised cell was read (NumPy would compute with garbage) -/
def execS (Γ : Ctx α) (env : List Nat) : S → Store α → Option (Store α)
  | .alloc x _, st => some (st.set x fun _ => none)
  | .zero x v n, st => some (st.set x fun c => if hits n (appV Γ v) c then some 0 else st x c)
  | .leafv x k n, st => some (st.set x fun c => if c < n then some (Γ.ρ k env c) else none)
  | .plus x a b n, st =>
    if allSome n (st a) && allSome n (st b) then
      some (st.set x fun c => if c < n then some ((st a c).getD 0 + (st b c).getD 0) else none)
    else none
  | .reindex x t a n, st =>
    if allSome n (st a) then
      some (st.set x fun c => if c < n then some (gatherSum n (Γ.P t) (fun j => (st a j).getD 0) c) else none)
    else none
  | .addAt x v sc src n, st =>
    if allSome n (st src) && allSome n (fun j => st x (idxOf Γ env v sc j)) then
      some (st.set x fun c => (st x c).map (· + gatherSum n (idxOf Γ env v sc) (fun j => (st src j).getD 0) c))
    else none
  | .copyTo x v src n, st =>
    if allSome n (st src) then
      -- cells are written one after the other: the last write to a cell wins
      some (st.set x fun c => (List.range n).foldl (fun acc j => if appV Γ v j = c then st src j else acc) (st x c))
    else none
  | .loop n body, st => iter n (fun i st => execL Γ (i :: env) body st) st
def execL (Γ : Ctx α) (env : List Nat) : List S → Store α → Option (Store α)
  | [], st => some st
  | s :: rest, st => (execS Γ env s st).bind (execL Γ env rest)
end

/-! ## the compiler -/

/-- the two entry points nutils has for every node: `compile n` (= `_compile`: allocate an own variable,
returns statements, result variable, next free variable) and `self out view mode n` (= the class's
`_compile_with_out`) -/
structure Comp where
  compile : Nat → List S × Nat × Nat
  self : Nat → View → Mode → Nat → List S × Nat

/-- the two reasons for which `compile_with_out` refuses to compile a node into the caller's array:
`shared` = `ndependents > 1`, `early` = the node's block precedes the block where the array is initialised
(`evaluable_block_id < out_block_id`, e.g. a loop invariant term of a `LoopSum` body) -/
structure Gate where
  shared : E → Bool
  early : E → Bool

/-- `_BlockTreeBuilder.compile_with_out`: nodes that the gate singles out and nodes without in-place protocol are
computed separately and then copied / added; all others write into `out` themselves -/
def cwoOf (gate : Gate) (e : E) (c : Comp) (out : Nat) (v : View) (mode : Mode) (n : Nat) : List S × Nat :=
  if gate.shared e || gate.early e || e.isLeaf then
    let (s, x, n') := c.compile n
    match mode with
    | .assign => (s ++ [S.copyTo out v x e.size], n')
    | .iadd => (s ++ [S.addAt out v none x e.size], n')
  else c.self out v mode n

def zeroIf (mode : Mode) (out : Nat) (v : View) (n : Nat) : List S :=
  match mode with
  | .assign => [S.zero out v n]
  | .iadd => []

/-- may `Add._compile` start an in-place chain for this operand?  (`ndependents == 1` and the class has a
`_compile_with_out`) -/
def inplaceOK (gate : Gate) (e : E) : Bool := !(gate.shared e) && !e.isLeaf

def build (gate : Gate) : E → Comp
  | .leaf k s =>
    { compile := fun n => ([S.leafv n k s], n, n+1)
      self := fun _ _ _ n => ([], n) }
  | .add a b =>
    let ca := build gate a
    let cb := build gate b
    let self := fun out v mode n =>
      let (sa, n1) := cwoOf gate a ca out v .iadd n
      let (sb, n2) := cwoOf gate b cb out v .iadd n1
      (zeroIf mode out v a.size ++ sa ++ sb, n2)
    { self := self
      compile := fun n =>
        if inplaceOK gate a || inplaceOK gate b then
          let (s, n') := self n [] .assign (n+1)
          (S.alloc n a.size :: s, n, n')
        else
          let (sa, xa, n1) := ca.compile n
          let (sb, xb, n2) := cb.compile n1
          (sa ++ sb ++ [S.plus n2 xa xb a.size], n2, n2+1) }
  | .scatter t m e =>
    let ce := build gate e
    let self := fun out v mode n =>
      let (s, x, n') := ce.compile n
      (zeroIf mode out v m ++ s ++ [S.addAt out v (some t) x e.size], n')
    { self := self
      compile := fun n =>
        let (s, n') := self n [] .assign (n+1)
        (S.alloc n m :: s, n, n') }
  | .transp t e =>
    let ce := build gate e
    { self := fun out v mode n => cwoOf gate e ce out (t :: v) mode n
      compile := fun n =>
        let (s, x, n') := ce.compile n
        (s ++ [S.reindex n' t x e.size], n', n'+1) }
  | .loopsum k e =>
    let ce := build gate e
    let self := fun out v mode n =>
      let (s, n') := cwoOf gate e ce out v .iadd n
      (zeroIf mode out v e.size ++ [S.loop k s], n')
    { self := self
      compile := fun n =>
        let (s, n') := self n [] .assign (n+1)
        (S.alloc n e.size :: s, n, n') }

/-- the script for `e`: statements and the variable that holds the result -/
def compileCore (gate : Gate) (e : E) : List S × Nat :=
  let (s, x, _) := (build gate e).compile 0
  (s, x)

/-- nutils' gate on trees: every node has exactly one dependent, nothing is forced out of the chain -/
def noGate : Gate := { shared := fun _ => false, early := fun _ => false }

end

end NutilsVerif.C02
