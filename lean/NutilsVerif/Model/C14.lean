import NutilsVerif.Core.Proto
/-!
# C14 — solvers return a certified solution or raise  (model; no Mathlib)

Decision logic of `nutils.matrix.Matrix._solver` / `Matrix.solve` / `solve_leniently`
(`matrix/_base.py`) and of `nutils.solver.System.solve` / `System.step` /
`System.solve_constraints` / `System.deconstruct` / `System.construct` / `LinesearchNewton`
(`solver.py`), over an IEEE-like extended order `F` whose comparisons behave exactly like Python
floats (every comparison with `nan` is false).  Linear algebra is over `Rat` (the harness feeds
integer / dyadic data, so NumPy's float arithmetic is exact on it).

The vector norm is a *parameter* `nrm : List Rat → F` of the matrix models: the theorems hold for
every norm function (also one that returns NaN, which is what `numpy.linalg.norm` does on a NaN
right-hand side); the driver instantiates it with the squared 2-norm (and squared tolerances),
which decides exactly like the real 2-norm for non-negative tolerances, or with observed norms.
-/
namespace NutilsVerif.C14

/-! ## IEEE-like extended order -/

inductive F where
  | fin (q : Rat)
  | posInf
  | negInf
  | nan
deriving DecidableEq, Repr

namespace F

def isNan : F → Bool
  | nan => true
  | _ => false

def isFinite : F → Bool
  | fin _ => true
  | _ => false

/-- Python `a < b` on floats -/
def lt : F → F → Bool
  | fin a, fin b => decide (a < b)
  | fin _, posInf => true
  | negInf, fin _ => true
  | negInf, posInf => true
  | _, _ => false

/-- Python `a <= b` on floats -/
def le : F → F → Bool
  | fin a, fin b => decide (a ≤ b)
  | fin _, posInf => true
  | negInf, fin _ => true
  | negInf, posInf => true
  | posInf, posInf => true
  | negInf, negInf => true
  | _, _ => false

/-- Python `a > b` -/
def gt (a b : F) : Bool := lt b a
/-- Python `a >= b` -/
def ge (a b : F) : Bool := le b a

def zero : F := fin 0

/-- Python's builtin `max(a, b)` = `b if b > a else a` (not symmetric in the presence of NaN) -/
def pyMax (a b : F) : F := if gt b a then b else a

/-- IEEE multiplication (no overflow, no signed zero) -/
def mul : F → F → F
  | nan, _ => nan
  | _, nan => nan
  | fin a, fin b => fin (a * b)
  | fin a, posInf => if a > 0 then posInf else if a < 0 then negInf else nan
  | fin a, negInf => if a > 0 then negInf else if a < 0 then posInf else nan
  | posInf, fin b => if b > 0 then posInf else if b < 0 then negInf else nan
  | negInf, fin b => if b > 0 then negInf else if b < 0 then posInf else nan
  | posInf, posInf => posInf
  | negInf, negInf => posInf
  | posInf, negInf => negInf
  | negInf, posInf => negInf

end F

open F

/-! ## dense linear algebra over `Rat` on lists -/

abbrev Vec := List Rat
abbrev Mat := List (List Rat)

def dot : Vec → Vec → Rat
  | a :: as, b :: bs => a * b + dot as bs
  | _, _ => 0

def matVec (A : Mat) (x : Vec) : Vec := A.map (dot · x)

def vsub : Vec → Vec → Vec
  | a :: as, b :: bs => (a - b) :: vsub as bs
  | _, _ => []

/-- boolean-mask selection `v[m]` -/
def sel {α : Type} : List Bool → List α → List α
  | true :: m, a :: as => a :: sel m as
  | false :: m, _ :: as => sel m as
  | _, _ => []

/-- `lhs[J] += y` -/
def scatterAdd : List Bool → Vec → Vec → Vec
  | true :: m, y :: ys, l :: ls => (l + y) :: scatterAdd m ys ls
  | true :: m, [], l :: ls => l :: scatterAdd m [] ls
  | false :: m, ys, l :: ls => l :: scatterAdd m ys ls
  | _, _, _ => []

/-- `A[ix_(I, J)]` -/
def subMat (I J : List Bool) (A : Mat) : Mat := (sel I A).map (sel J)

def count (m : List Bool) : Nat := (m.filter id).length

def normSq (v : Vec) : Rat := dot v v

def toRat? : List F → Option Vec
  | [] => some []
  | fin q :: t => (toRat? t).map (q :: ·)
  | _ :: _ => none

/-! ## `Matrix._solver` -/

/-- what the (scripted) solver callable does -/
inductive SolverRet where
  | vec (x : List F)
  | matrixError
  | otherError
deriving Repr

inductive MErr where
  | notSquare          -- MatrixError('constrained matrix is not square')
  | rhsShape           -- MatrixError('right-hand size shape does not match matrix shape')
  | rhsNonFinite       -- MatrixError('right-hand side is not finite')
  | resNonFinite       -- MatrixError('residual is not finite')
  | solverMatrixError  -- MatrixError raised by the solver, re-raised
  | solverFailed       -- any other exception of the solver, wrapped in MatrixError
  | nonFinite          -- MatrixError('solver returned non-finite left hand side')
  | matmulShape        -- bare MatrixError of `self @ lhs` on a wrong-length solver result
  | tolNotReached (best : Vec)
  | assertion          -- AssertionError (shape asserts of Matrix.solve)
  | attribute          -- AttributeError (rhs=None without constraints; rconstrain without constrain)
  | broadcast          -- rhs of the wrong length in the constrained path (never compared)
deriving Repr, DecidableEq

/-- the tolerance `_solver` works with: `atol = max(atol, rtol * rhsnorm)` -/
def effTol (atol rtol rhsnorm : F) : F := pyMax atol (mul rtol rhsnorm)

/-- `Matrix._solver(rhs, solver, atol=, rtol=)` for a matrix with `A.length` rows and `ncols` columns -/
def solverM (nrm : Vec → F) (A : Mat) (ncols : Nat) (b : Vec) (atol rtol : F) (sol : SolverRet) : Except MErr Vec :=
  if A.length ≠ ncols then .error .notSquare
  else if b.length ≠ A.length then .error .rhsShape
  else
    let tol := effTol atol rtol (nrm b)
    if !(nrm b).isFinite then .error .rhsNonFinite
    else if le (nrm b) tol then .ok (b.map fun _ => 0)     -- zero-rhs / within-tolerance shortcut
    else match sol with
      | .matrixError => .error .solverMatrixError
      | .otherError => .error .solverFailed
      | .vec xs =>
        match toRat? xs with
        | none => .error .nonFinite
        | some x =>
          if x.length ≠ ncols then .error .matmulShape
          else if !(nrm (vsub b (matVec A x))).isFinite then .error .resNonFinite
          else if gt (nrm (vsub b (matVec A x))) tol && gt tol zero then .error (.tolNotReached x)
          else .ok x

/-- `_solver` before the repair: no finiteness checks on the two norms -/
def solverOld (nrm : Vec → F) (A : Mat) (ncols : Nat) (b : Vec) (atol rtol : F) (sol : SolverRet) : Except MErr Vec :=
  if A.length ≠ ncols then .error .notSquare
  else if b.length ≠ A.length then .error .rhsShape
  else
    let tol := effTol atol rtol (nrm b)
    if le (nrm b) tol then .ok (b.map fun _ => 0)
    else match sol with
      | .matrixError => .error .solverMatrixError
      | .otherError => .error .solverFailed
      | .vec xs =>
        match toRat? xs with
        | none => .error .nonFinite
        | some x =>
          if x.length ≠ ncols then .error .matmulShape
          else if gt (nrm (vsub b (matVec A x))) tol && gt tol zero then .error (.tolNotReached x)
          else .ok x

/-! ## `Matrix.solve` -/

inductive Cons where
  | mask (m : List Bool)            -- boolean: True = constrained to lhs0
  | vals (v : List (Option Rat))    -- float: number = constrained to it, NaN (= none) = free
deriving Repr

def zeros (n : Nat) : Vec := List.replicate n 0

/-- `lhs[~J] = constrain[~J]` for float constraints -/
def applyVals : List (Option Rat) → Vec → Vec
  | some c :: cs, _ :: ls => c :: applyVals cs ls
  | none :: cs, l :: ls => l :: applyVals cs ls
  | _, _ => []

structure SolveIn where
  A : Mat
  nrows : Nat
  ncols : Nat
  rhs : Option Vec
  lhs0 : Option Vec
  cons : Option Cons
  rcons : Option (List Bool)
  atol : F
  rtol : F
  sol : SolverRet

/-- the vector `lhs` and the column mask `J` (True = free) that `Matrix.solve` forms before the inner solve -/
def prepCols (ncols : Nat) (lhs0 : Option Vec) (cons : Option Cons) : Except MErr (Vec × List Bool) :=
  let lhs := lhs0.getD (zeros ncols)
  if lhs.length ≠ ncols then .error .assertion
  else match cons with
    | none => .ok (lhs, List.replicate ncols true)
    | some (.mask m) => if m.length ≠ ncols then .error .assertion else .ok (lhs, m.map (!·))
    | some (.vals v) => if v.length ≠ ncols then .error .assertion else .ok (applyVals v lhs, v.map Option.isNone)

/-- the row mask `I` (True = free) -/
def prepRows (nrows ncols : Nat) (J : List Bool) (cons : Option Cons) (rcons : Option (List Bool)) : Except MErr (List Bool) :=
  match rcons with
  | none => if nrows ≠ ncols then .error .assertion else .ok J
  | some r =>
    if r.length ≠ nrows then .error .assertion
    else match cons with
      | none => .error .attribute
      | some (.vals _) => .error .assertion
      | some (.mask _) => .ok (r.map (!·))

def solveM (nrm : Vec → F) (s : SolveIn) : Except MErr Vec :=
  match s.rhs, s.lhs0, s.cons, s.rcons with
  | some b, none, none, none => solverM nrm s.A s.ncols b s.atol s.rtol s.sol
  | none, none, none, none => if s.nrows ≠ s.ncols then .error .notSquare else .error .attribute
  | _, _, _, _ =>
    let rhs := s.rhs.getD (zeros s.nrows)
    match prepCols s.ncols s.lhs0 s.cons with
    | .error e => .error e
    | .ok (lhs, J) =>
      match prepRows s.nrows s.ncols J s.cons s.rcons with
      | .error e => .error e
      | .ok I =>
        if rhs.length ≠ s.nrows then .error .broadcast
        else
          match solverM nrm (subMat I J s.A) (count J) (sel I (vsub rhs (matVec s.A lhs))) s.atol s.rtol s.sol with
          | .ok y => .ok (scatterAdd J y lhs)
          | .error (.tolNotReached y) => .error (.tolNotReached (scatterAdd J y lhs))
          | .error e => .error e

/-- `Matrix.solve_leniently`: ToleranceNotReached is downgraded to a warning and `.best` returned -/
def solveLenientM (nrm : Vec → F) (s : SolveIn) : Except MErr Vec :=
  match solveM nrm s with
  | .error (.tolNotReached best) => .ok best
  | r => r

/-- the value each constrained entry is prescribed to have -/
def prescribed (ncols : Nat) (lhs0 : Option Vec) (cons : Option Cons) (j : Nat) : Option Rat :=
  match cons with
  | none => none
  | some (.mask m) => if m.getD j false then some ((lhs0.getD (zeros ncols)).getD j 0) else none
  | some (.vals v) => (v.getD j none)

/-- `a` and `b` have the length of the mask and agree on the entries where the mask is false (constrained entries) -/
def agreeOff : List Bool → Vec → Vec → Prop
  | [], [], [] => True
  | true :: m, _ :: as, _ :: bs => agreeOff m as bs
  | false :: m, a :: as, b :: bs => a = b ∧ agreeOff m as bs
  | _, _, _ => False

/-! ## `System.solve` -/

/-- one `next(m)` on the method's iterator -/
inductive Ev where
  | yield (r : F)      -- yields (arguments, resnorm)
  | raise (tag : Nat)  -- raises an exception (SolverError / MatrixError / ... of the method)
deriving Repr, DecidableEq

inductive MethodRet where
  | tuple (r : F)          -- direct method: returns (arguments, resnorm)
  | iter (evs : List Ev)   -- iterative method: the events of its iterator; exhausted = StopIteration
deriving Repr

inductive Why where | nan | tol | maxiter
deriving Repr, DecidableEq

/-- outcome of `System.solve`; `k` = index of the last iterate consumed -/
inductive SOut where
  | returned (k : Nat) (r : F)
  | solverError (k : Nat) (why : Why)
  | valueError
  | stopIteration (k : Nat)
  | raised (k : Nat) (tag : Nat)
deriving Repr, DecidableEq

def hitMax (maxiter : Option Int) (iiter : Nat) : Bool :=
  match maxiter with
  | some M => decide (M ≤ (iiter : Int))
  | none => false

/-- `while iiter < miniter or not resnorm <= tol:` with the NaN and maxiter raises -/
def loop (tol : F) (miniter : Int) (maxiter : Option Int) : Nat → F → List Ev → SOut
  | iiter, r, rest =>
    if decide ((iiter : Int) < miniter) || !(le r tol) then
      if r.isNan then .solverError iiter .nan
      else if hitMax maxiter iiter then .solverError iiter .maxiter
      else match rest with
        | [] => .stopIteration iiter
        | .raise t :: _ => .raised iiter t
        | .yield r' :: rest' => loop tol miniter maxiter (iiter + 1) r' rest'
    else .returned iiter r

def solveSys (tol : F) (miniter : Int) (maxiter : Option Int) : MethodRet → SOut
  | .tuple r =>
    if r.isNan then .solverError 0 .nan
    else if gt r tol && gt tol zero then .solverError 0 .tol
    else .returned 0 r
  | .iter evs =>
    if le tol zero then .valueError
    else match evs with
      | [] => .stopIteration 0
      | .raise t :: _ => .raised 0 t
      | .yield r :: rest => loop tol miniter maxiter 0 r rest

/-- the loop of the pinned tree before the fix: `while iiter < miniter or resnorm > tol:` -/
def loopOld (tol : F) (miniter : Int) (maxiter : Option Int) : Nat → F → List Ev → SOut
  | iiter, r, rest =>
    if decide ((iiter : Int) < miniter) || gt r tol then
      if hitMax maxiter iiter then .solverError iiter .maxiter
      else match rest with
        | [] => .stopIteration iiter
        | .raise t :: _ => .raised iiter t
        | .yield r' :: rest' => loopOld tol miniter maxiter (iiter + 1) r' rest'
    else .returned iiter r

def solveSysOld (tol : F) (miniter : Int) (maxiter : Option Int) : MethodRet → SOut
  | .tuple r => if gt r tol && gt tol zero then .solverError 0 .tol else .returned 0 r
  | .iter evs =>
    if le tol zero then .valueError
    else match evs with
      | [] => .stopIteration 0
      | .raise t :: _ => .raised 0 t
      | .yield r :: rest => loopOld tol miniter maxiter 0 r rest

/-- `_with_solve.solve_withinfo` (legacy wrappers `newton(...).solve(tol, maxiter, miniter)` etc.):
`if miniter > maxiter: ValueError`, then the same loop as `System.solve` (`maxiter = none` is `inf`);
there is no `tol <= 0` check. -/
def legacySolve (tol : F) (miniter : Int) (maxiter : Option Int) (evs : List Ev) : SOut :=
  if (match maxiter with | some M => decide (M < miniter) | none => false) then .valueError
  else match evs with
    | [] => .stopIteration 0
    | .raise t :: _ => .raised 0 t
    | .yield r :: rest => loop tol miniter maxiter 0 r rest

/-- the legacy loop before the repair: `while info.resnorm > tol or iiter < miniter` -/
def legacySolveOld (tol : F) (miniter : Int) (maxiter : Option Int) (evs : List Ev) : SOut :=
  if (match maxiter with | some M => decide (M < miniter) | none => false) then .valueError
  else match evs with
    | [] => .stopIteration 0
    | .raise t :: _ => .raised 0 t
    | .yield r :: rest => loopOld tol miniter maxiter 0 r rest

/-! ## `System.step` -/

/-- one call of `self.solve` inside `step`: the time interval it was asked to bridge, and whether it succeeded -/
structure Call where
  t0 : Rat
  t1 : Rat
  ok : Bool
deriving Repr, DecidableEq

/-- `System.step` with `timearg`: `script` lists the success of consecutive `solve` calls (exhausted = failure);
`dep` = the system depends on timearg or timesteparg; returns (succeeded, calls, unused script).
This is the *intended* (and, after the fix, actual) behaviour: a failed step from `t` over `dt` is retried as
two steps `t → t+dt/2 → t+dt`. -/
def stepM : (maxretry : Nat) → (dep : Bool) → (t dt : Rat) → List Bool → Bool × List Call × List Bool
  | n, dep, t, dt, script =>
    let ok := script.headD false
    let rest := script.tail
    if ok then (true, [⟨t, t + dt, true⟩], rest)
    else match n with
      | 0 => (false, [⟨t, t + dt, false⟩], rest)
      | n + 1 =>
        if !dep then (false, [⟨t, t + dt, false⟩], rest)
        else
          let r1 := stepM n dep t (dt / 2) rest
          if !r1.1 then (false, ⟨t, t + dt, false⟩ :: r1.2.1, r1.2.2)
          else
            let r2 := stepM n dep (t + dt / 2) (dt / 2) r1.2.2
            (r2.1, ⟨t, t + dt, false⟩ :: (r1.2.1 ++ r2.2.1), r2.2.2)

/-- the pinned tree: the half steps start from the already advanced time `t + dt` -/
def stepOld : (maxretry : Nat) → (dep : Bool) → (t dt : Rat) → List Bool → Bool × List Call × List Bool
  | n, dep, t, dt, script =>
    let ok := script.headD false
    let rest := script.tail
    if ok then (true, [⟨t, t + dt, true⟩], rest)
    else match n with
      | 0 => (false, [⟨t, t + dt, false⟩], rest)
      | n + 1 =>
        if !dep then (false, [⟨t, t + dt, false⟩], rest)
        else
          let r1 := stepOld n dep (t + dt) (dt / 2) rest
          if !r1.1 then (false, ⟨t, t + dt, false⟩ :: r1.2.1, r1.2.2)
          else
            let r2 := stepOld n dep (t + dt + dt / 2) (dt / 2) r1.2.2
            (r2.1, ⟨t, t + dt, false⟩ :: (r1.2.1 ++ r2.2.1), r2.2.2)

/-- the successful calls chain from `a` to `b` without gap or overlap -/
def chains : Rat → List Call → Rat → Prop
  | a, [], b => a = b
  | a, c :: cs, b => c.t0 = a ∧ chains c.t1 cs b

/-! ## `System.solve_constraints`: drop-tolerance mask -/

def rabs (q : Rat) : Rat := if q < 0 then -q else q

/-- an exported (nonzero) entry with `abs(data) > droptol` -/
def influences (d : F) (q : Rat) : Bool := q != 0 && gt (fin (rabs q)) d

/-- `mycons = ones; mycons[colidx[abs(data) > droptol]] = False`: True = stays constrained (result NaN) -/
def droptolMask (A : Mat) (ncols : Nat) (d : F) : List Bool :=
  (List.range ncols).map fun j => !(A.any fun row => influences d (row.getD j 0))

/-- `x += dx; x[mycons] = nan` -/
def maskNan : List Bool → Vec → List (Option Rat)
  | true :: m, _ :: xs => none :: maskNan m xs
  | false :: m, x :: xs => some x :: maskNan m xs
  | _, _ => []

/-! ## `System.deconstruct` / `System.construct` for one trial argument (flattened) -/

/-- returns the template (none = NaN = free entry) and the vector of free values -/
def deconstruct (n : Nat) (a : Option Vec) (c : Option Cons) : List (Option Rat) × Vec :=
  match a, c with
  | none, none => (List.replicate n none, zeros n)
  | none, some (.mask m) => let t := m.map fun b => if b then some (0 : Rat) else none; (t, zeros (count (m.map (!·))))
  | none, some (.vals v) => (v, zeros (count (v.map Option.isNone)))
  | some a, none => (List.replicate n none, a)
  | some a, some (.mask m) => (List.zipWith (fun b x => if b then some x else none) m a, sel (m.map (!·)) a)
  | some a, some (.vals v) => (v, sel (v.map Option.isNone) a)

/-- `v[free] = x` -/
def construct : List (Option Rat) → Vec → Vec
  | some c :: t, xs => c :: construct t xs
  | none :: t, x :: xs => x :: construct t xs
  | none :: t, [] => 0 :: construct t []
  | [], _ => []

/-- what the round trip must give: constraint value where given, else initial guess, else zero -/
def expected (n : Nat) (a : Option Vec) (c : Option Cons) : Vec :=
  match c with
  | some (.vals v) => List.zipWith (fun c x => c.getD x) v (a.getD (zeros n))
  | _ => a.getD (zeros n)

/-! ## `LinesearchNewton`: relaxation bookkeeping with a scripted strategy -/

inductive LOut where
  | accepted (relaxUsed relaxNext : Rat) (ncalls : Nat)   -- the step `x + dx * relaxUsed` becomes the next iterate
  | stuck (ncalls : Nat)                                     -- SolverError('stuck in local minimum')
  | assertion (ncalls : Nat)                                 -- `assert scale < 1`
  | exhausted (ncalls : Nat)                                 -- script ran out (harness never compares)
deriving Repr, DecidableEq

/-- inner `while True: # line search` loop; the strategy's answers `(scale, accept)` are scripted -/
def linesearch (failrelax : Rat) : Rat → Nat → List (Rat × Bool) → LOut
  | _, n, [] => .exhausted n
  | relax, n, (scale, accept) :: rest =>
    if accept then .accepted relax (if relax * scale < 1 then relax * scale else 1) (n + 1)
    else if ¬ scale < 1 then .assertion (n + 1)
    else if relax * scale ≤ failrelax then .stuck (n + 1)
    else linesearch failrelax (relax * scale) (n + 1) rest

end NutilsVerif.C14
