import NutilsVerif.Model.C11
/-!
# C11 — specification side: well-formedness predicates the theorems are stated for (no Mathlib)

`Sq.wf` / `Up.wf` describe the transform items the constructors of the source can produce from simplex references of
dimension ≤ 3 and tensor products thereof (any nesting depth), together with what `swapup` / `swapdown` make of them.
-/
namespace NutilsVerif.C11

def matShape (lin : Mat) (off : Vec) (cols : Nat) : Bool :=
  lin.length == off.length && lin.all (·.length == cols)

def Sq.wf : Sq → Bool
  | .identity _ => true
  | .index _ _ => true
  | .simplexChild n k => n ≤ 3 && k < 2^n
  | .tensorChild a b => a.wf && b.wf && 1 ≤ a.dim && 1 ≤ b.dim
  | .generic lin off => matShape lin off off.length

def Up.wf : Up → Bool
  | .simplexEdge n k _ => 1 ≤ n && n ≤ 3 && k ≤ n
  | .tensorEdge1 e n2 => e.wf && 1 ≤ n2
  | .tensorEdge2 n1 e => e.wf && 1 ≤ n1
  | .scaledUpdim c e => c.wf && e.wf && c.dim == e.td
  | .generic lin off _ => 1 ≤ off.length && matShape lin off (off.length - 1)

def Item.wf : Item → Bool
  | .sq s => s.wf
  | .up u => u.wf
  | .mat fd lin off => matShape lin off fd && decide (fd ≤ off.length)

/-- consecutive items fit: `fromdims` of each item is `todims` of the next -/
def dimsOK : Chain → Bool
  | a :: b :: t => a.fd == b.td && dimsOK (b :: t)
  | _ => true

/-- a well-formed chain: well-formed items whose dimensions fit -/
def Chain.wf (l : Chain) : Bool := l.all Item.wf && dimsOK l

/-- the dimension a chain maps from, `dflt` for the empty chain -/
def Chain.fdOr (l : Chain) (dflt : Nat) : Nat := (l.getLast?.map Item.fd).getD dflt
/-- the dimension a chain maps to, `dflt` for the empty chain -/
def Chain.tdOr (l : Chain) (dflt : Nat) : Nat := (l.head?.map Item.td).getD dflt

/-- `Fits l td fd`: `l` is a chain of well-formed items mapping `R^fd → R^td` (the empty chain only for `td = fd`) -/
inductive Fits : Chain → Nat → Nat → Prop
  | nil (n : Nat) : Fits [] n n
  | cons (a : Item) (l : Chain) (fd : Nat) : a.wf = true → Fits l a.fd fd → Fits (a :: l) a.td fd

/-- one swap of `canonical`: an adjacent pair (scale, updim) replaced by what `swapdown` returns -/
inductive StepDn : Chain → Chain → Prop
  | mk (p q : Chain) (a b x y : Item) : Item.swapdown a b = some (x, y) → StepDn (p ++ a :: b :: q) (p ++ x :: y :: q)

/-- one swap of `uppermost`: an adjacent pair (updim, scale) replaced by what `swapup` returns -/
inductive StepUp : Chain → Chain → Prop
  | mk (p q : Chain) (a b x y : Item) : Item.swapup a b = some (x, y) → StepUp (p ++ a :: b :: q) (p ++ x :: y :: q)

/-- a swap in either direction -/
def Step (l l' : Chain) : Prop := StepDn l l' ∨ StepUp l l'

/-- reflexive transitive closure -/
inductive Reach (r : Chain → Chain → Prop) : Chain → Chain → Prop
  | refl (l : Chain) : Reach r l l
  | tail (l m n : Chain) : Reach r l m → r m n → Reach r l n

end NutilsVerif.C11
