import NutilsVerif.Model.C11
/-!
# C11 — specification side: well-formedness predicates the theorems are stated for (no Mathlib)

`Sq.wf` / `Up.wf` describe the transform items the constructors of the source can produce from simplex references of
dimension ≤ 3 and tensor products thereof (any nesting depth), together with what `swapup` / `swapdown` make of them.
-/
namespace NutilsVerif.C11

def matShape (lin : Mat) (off : Vec) (cols : Nat) : Bool :=
  lin.length == off.length && lin.all (·.length == cols)

def Sq.wf : Sq → Bool
  | .identity _ => true
  | .index _ _ => true
  | .simplexChild n k => n ≤ 3 && k < 2^n
  | .tensorChild a b => a.wf && b.wf && 1 ≤ a.dim && 1 ≤ b.dim
  | .generic lin off => matShape lin off off.length

def Up.wf : Up → Bool
  | .simplexEdge n k _ => 1 ≤ n && n ≤ 3 && k ≤ n
  | .tensorEdge1 e n2 => e.wf && 1 ≤ n2
  | .tensorEdge2 n1 e => e.wf && 1 ≤ n1
  | .scaledUpdim c e => c.wf && e.wf && c.dim == e.td
  | .generic lin off _ => 1 ≤ off.length && matShape lin off (off.length - 1)

def Item.wf : Item → Bool
  | .sq s => s.wf
  | .up u => u.wf
  | .mat fd lin off => matShape lin off fd

/-- consecutive items fit: `fromdims` of each item is `todims` of the next -/
def dimsOK : Chain → Bool
  | a :: b :: t => a.fd == b.td && dimsOK (b :: t)
  | _ => true

/-- a well-formed chain: well-formed items whose dimensions fit -/
def Chain.wf (l : Chain) : Bool := l.all Item.wf && dimsOK l

/-- the dimension a chain maps from, `dflt` for the empty chain -/
def Chain.fdOr (l : Chain) (dflt : Nat) : Nat := (l.getLast?.map Item.fd).getD dflt
/-- the dimension a chain maps to, `dflt` for the empty chain -/
def Chain.tdOr (l : Chain) (dflt : Nat) : Nat := (l.head?.map Item.td).getD dflt

end NutilsVerif.C11
