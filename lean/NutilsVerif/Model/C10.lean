import NutilsVerif.Core.Proto
/-!
# C10 — topology operations conserve the domain  (model; no Mathlib)

Three executable models, each mirroring one family of mechanisms of `nutils.topology` / `nutils.element`:

* (a) **hierarchical cell sets** — `HierarchicalTopology` over a structured base.  A cell is what its
  transform chain is: the multi-index of its level-0 ancestor (`Index` items) followed by the child numbers
  (`TensorChild` items).  `Anc` is `Transforms.contains_with_tail` (prefix of chains).  `refineSel` is
  `HierarchicalTopology._refined_by` / `TransformChainsTopology._refined_by` (selection by position in the
  element order, level by level and row-major inside a level), `Op.refined` is `.refined`.
* (b) **structured grids with an arbitrary cell subset** — `StructuredTopology.connectivity` (index
  arithmetic with periodic wrap), and the connectivity-driven `TransformChainsTopology.boundary/interfaces`
  as used by `SubsetTopology` (a face is listed from the element with the larger index).
* (c) **1-D trimming** — `Reference.trim` with `maxrefine` bisection (`child_divide`, `with_children`) and
  the leaf `Reference.slice` of a line (round-half-even binning on `2^ndivisions` bins), the complement
  `baseref - ref`, volumes in integer units and the exposed end points with their orientation.
-/
namespace NutilsVerif.C10

/-! ## shared: the multi-indices of a box, row-major (the element order of `StructuredTopology`) -/

def multiIndices : List Nat → List (List Nat)
  | [] => [[]]
  | n :: s => (List.range n).flatMap fun i => (multiIndices s).map (i :: ·)

/-! ## (a) hierarchical cell sets -/

structure Cell where
  base : List Nat
  path : List Nat
deriving DecidableEq, Repr

def Cell.level (c : Cell) : Nat := c.path.length

def Cell.child (c : Cell) (k : Nat) : Cell := { base := c.base, path := c.path ++ [k] }

/-- the `2^d` children of a cell (`ref.children` of a `d`-cube, all non-empty) -/
def children (d : Nat) (c : Cell) : List Cell := (List.range (2 ^ d)).map c.child

/-- `a` is `b` or an ancestor of `b`: the chain of `a` is a prefix of the chain of `b`
(`transforms.contains_with_tail`) -/
def Anc (a b : Cell) : Prop := a.base = b.base ∧ a.path <+: b.path

def ancB (a b : Cell) : Bool := a.base == b.base && a.path.isPrefixOf b.path

/-- two cells do not overlap: neither contains the other -/
def Apart (a b : Cell) : Prop := ¬ Anc a b ∧ ¬ Anc b a

/-- binary digit of child number `k` along axis `j` (`TensorChild` order: axis 0 most significant) -/
def digit (d k j : Nat) : Nat := (k / 2 ^ (d - 1 - j)) % 2

/-- multi-index of the cell inside the uniformly refined grid of its level -/
def Cell.index (d : Nat) (c : Cell) : List Nat :=
  (List.range d).map fun j => c.path.foldl (fun acc k => 2 * acc + digit d k j) (c.base.getD j 0)

def lexLt : List Nat → List Nat → Bool
  | a :: as, b :: bs => a < b || (a == b && lexLt as bs)
  | [], _ :: _ => true
  | _, _ => false

/-- element order of `HierarchicalTopology`: by level, then by flat (row-major) index inside the level -/
def cellLe (d : Nat) (a b : Cell) : Bool :=
  a.level < b.level || (a.level == b.level && !lexLt (b.index d) (a.index d))

/-- insertion sort (structurally recursive, so that closed instances reduce by `decide`) -/
def insertBy {α : Type} (le : α → α → Bool) (a : α) : List α → List α
  | [] => [a]
  | b :: t => if le a b then a :: b :: t else b :: insertBy le a t

def isort {α : Type} (le : α → α → Bool) : List α → List α
  | [] => []
  | a :: t => insertBy le a (isort le t)

def canon (d : Nat) (cells : List Cell) : List Cell := isort (cellLe d) cells

inductive Op where
  | refined
  | refinedBy (sel : List Int)
deriving Repr

/-- replace the cells at the selected positions by their children (duplicates count once — `numpy.unique`) -/
def refineSel (d : Nat) (cells : List Cell) (sel : List Nat) : List Cell :=
  cells.zipIdx.flatMap fun ci => if sel.contains ci.2 then children d ci.1 else [ci.1]

/-- index handling of `Topology.refined_by`: negative indices count from the end, anything outside `[0, n)` is rejected -/
def normIndex (n : Nat) (i : Int) : Option Nat :=
  let j := if i < 0 then i + n else i
  if 0 ≤ j ∧ j < n then some j.toNat else none

def step (d : Nat) (cells : List Cell) : Op → Except String (List Cell)
  | .refined => .ok (canon d (cells.flatMap (children d)))
  | .refinedBy sel =>
    match sel.mapM (normIndex cells.length) with
    | some s => .ok (canon d (refineSel d cells s))
    | none => .error "IndexError"

def cellsOfBases (bases : List (List Nat)) : List Cell := bases.map fun i => { base := i, path := [] }

/-- the state after a history of operations, starting from level-0 cells with the given multi-indices
(an `IndexError` of any step aborts the history, as an exception does) -/
def runFrom (d : Nat) (bases : List (List Nat)) (ops : List Op) : Except String (List Cell) :=
  ops.foldlM (step d) (cellsOfBases bases)

/-- history on a full `shape` grid -/
def run (shape : List Nat) (ops : List Op) : Except String (List Cell) := runFrom shape.length (multiIndices shape) ops

/-- measure of a cell in units of a level-`L` cell -/
def weight (d L : Nat) (c : Cell) : Nat := 2 ^ (d * (L - c.level))

def measure (d L : Nat) (cells : List Cell) : Nat := (cells.map (weight d L)).sum

/-- executable partition test used by the driver (the theorem says it never fails) -/
def apartAll : List Cell → Bool
  | [] => true
  | c :: cs => cs.all (fun x => !ancB c x && !ancB x c) && apartAll cs

/-- `HierarchicalTopology.__and__`: keep the cells of either side that lie inside a cell of the other side -/
def hand (d : Nat) (A B : List Cell) : List Cell :=
  canon d ((A.filter fun a => B.any fun b => ancB b a) ++ (B.filter fun b => (A.any fun a => ancB a b) && !A.contains b))

/-! ## (b) structured grid with a cell subset -/

structure Grid where
  shape : List Nat
  per : List Bool
deriving Repr

def Grid.dim (g : Grid) : Nat := g.shape.length

def Grid.cells (g : Grid) : List (List Nat) := multiIndices g.shape

/-- neighbour across the `+` face of axis `k` (edge `2k`): `connectivity[..., k, 0]` -/
def Grid.up (g : Grid) (k : Nat) (i : List Nat) : Option (List Nat) :=
  if i.getD k 0 + 1 < g.shape.getD k 0 then some (i.set k (i.getD k 0 + 1))
  else if g.per.getD k false then some (i.set k 0) else none

/-- neighbour across the `-` face of axis `k` (edge `2k+1`): `connectivity[..., k, 1]` -/
def Grid.down (g : Grid) (k : Nat) (i : List Nat) : Option (List Nat) :=
  if 0 < i.getD k 0 then some (i.set k (i.getD k 0 - 1))
  else if g.per.getD k false then some (i.set k (g.shape.getD k 0 - 1)) else none

def Grid.nbr (g : Grid) (k : Nat) (s : Bool) (i : List Nat) : Option (List Nat) :=
  if s then g.up k i else g.down k i

/-- the faces of a `d`-cube in nutils edge order: `2k ↦ (k, +)`, `2k+1 ↦ (k, -)` -/
def sides (d : Nat) : List (Nat × Bool) := (List.range d).flatMap fun k => [(k, true), (k, false)]

abbrev Face := List Nat × Nat × Bool
abbrev IFace := List Nat × Nat × Bool × List Nat

def Grid.isBnd (g : Grid) (S : List Nat → Bool) (i : List Nat) (ks : Nat × Bool) : Bool :=
  match g.nbr ks.1 ks.2 i with
  | none => true
  | some j => !S j

/-- faces of selected cells whose neighbour is missing (outside the grid or not selected) -/
def Grid.boundary (g : Grid) (S : List Nat → Bool) : List Face :=
  g.cells.flatMap fun i => if S i then ((sides g.dim).filter (g.isBnd S i)).map fun ks => (i, ks.1, ks.2) else []

def Grid.isInt (g : Grid) (S : List Nat → Bool) (i : List Nat) (ks : Nat × Bool) : Option IFace :=
  match g.nbr ks.1 ks.2 i with
  | none => none
  | some j => if S j && decide (g.cells.idxOf j < g.cells.idxOf i) then some (i, ks.1, ks.2, j) else none

/-- `TransformChainsTopology.interfaces`: every face with a selected neighbour of smaller element index,
listed from the element with the larger index, together with that neighbour -/
def Grid.interfaces (g : Grid) (S : List Nat → Bool) : List IFace :=
  g.cells.flatMap fun i => if S i then (sides g.dim).filterMap (g.isInt S i) else []

/-- signed face count of the boundary along axis `k` and side `s` -/
def Grid.bndCount (g : Grid) (S : List Nat → Bool) (k : Nat) (s : Bool) : Nat :=
  ((g.boundary S).filter fun f => f.2.1 == k && f.2.2 == s).length

/-! ## (c) 1-D trimming -/

/-- trimmed line references: `LineReference`, `EmptyLike`, `WithChildrenReference`, and the leaf
`MosaicReference` that keeps the end at `x=1` (`hi = true`, occupying `[1 - xi/nbins, 1]`) or the end at
`x=0` (occupying `[0, 1 - xi/nbins]`) -/
inductive Ref1 where
  | full
  | empty
  | kids (a b : Ref1)
  | cut (hi : Bool) (xi : Nat)
deriving DecidableEq, Repr

/-- `Reference.with_children` -/
def withChildren (a b : Ref1) : Ref1 :=
  if a = .empty ∧ b = .empty then .empty else if a = .full ∧ b = .full then .full else .kids a b

/-- `numpy.round(num/den * nbins)` for `den ≠ 0`, as exact rational arithmetic with ties to even -/
def roundHalfEven (num den : Int) : Int :=
  let n := if den < 0 then -num else num
  let q := if den < 0 then -den else den
  let fl := (2 * n) / (2 * q)        -- floor of n/q  (Int `/` is floor division for positive divisor)
  let r := 2 * n - 2 * q * fl         -- 2 * remainder, in [0, 2q)
  if r < q then fl else if q < r then fl + 1 else if fl % 2 == 0 then fl else fl + 1

/-- leaf `Reference.slice` of a line with vertex levels `a` (at 0) and `b` (at 1) of opposite strict sign -/
def slice1 (ndiv : Nat) (a b : Int) : Ref1 :=
  let nbins : Int := 2 ^ ndiv
  let xi := roundHalfEven (b * nbins) (b - a)
  if xi == 0 then (if a < 0 then .empty else .full)
  else if xi == nbins then (if b < 0 then .empty else .full)
  else .cut (decide (0 < b)) xi.toNat

/-- `Reference.trim(levels, maxrefine = m, ndivisions = ndiv)` for a line; `levels` has `2^m+1` entries -/
def trim1 (ndiv : Nat) : Nat → List Int → Ref1
  | m, lv =>
    if lv.all (0 ≤ ·) then .full
    else if lv.all (· ≤ 0) then .empty
    else match m with
      | 0 => slice1 ndiv (lv.getD 0 0) (lv.getD 1 0)
      | m + 1 => withChildren (trim1 ndiv m (lv.take (2 ^ m + 1))) (trim1 ndiv m (lv.drop (2 ^ m)))

/-- `baseref - ref` (`WithChildrenReference.__rsub__`, `MosaicReference.__rsub__`, `EmptyLike.__rsub__`) -/
def compl : Ref1 → Ref1
  | .full => .empty
  | .empty => .full
  | .kids a b => withChildren (compl a) (compl b)
  | .cut hi xi => .cut (!hi) xi

/-- volume of a reference that lives `m` bisection levels above the leaves, in units of `2^-(m+ndiv)` -/
def vol (ndiv : Nat) : Nat → Ref1 → Nat
  | m, .full => 2 ^ m * 2 ^ ndiv
  | _, .empty => 0
  | m + 1, .kids a b => vol ndiv m a + vol ndiv m b
  | 0, .kids _ _ => 0
  | _, .cut hi xi => if hi then xi else 2 ^ ndiv - xi

/-- well-formedness: `kids` only above the leaves and never collapsible, `cut` only at a leaf, strictly inside -/
def WF (ndiv : Nat) : Nat → Ref1 → Prop
  | _, .full => True
  | _, .empty => True
  | m + 1, .kids a b => WF ndiv m a ∧ WF ndiv m b ∧ ¬(a = .empty ∧ b = .empty) ∧ ¬(a = .full ∧ b = .full)
  | 0, .kids _ _ => False
  | m, .cut _ xi => m = 0 ∧ 0 < xi ∧ xi < 2 ^ ndiv

/-- does the reference contain its end at 0 / at 1 (the edge reference there is non-empty) -/
def hasLo : Ref1 → Bool
  | .full => true | .empty => false | .kids a _ => hasLo a | .cut hi _ => !hi
def hasHi : Ref1 → Bool
  | .full => true | .empty => false | .kids _ b => hasHi b | .cut hi _ => hi

/-- exposed interior end points (position in units of `2^-(m+ndiv)` from offset `o`, outward normal positive?):
the extra edges of `MosaicReference` / `WithChildrenReference` -/
def cuts (ndiv : Nat) : Nat → Nat → Ref1 → List (Nat × Bool)
  | _, _, .full => []
  | _, _, .empty => []
  | _, o, .cut hi xi => [(o + (2 ^ ndiv - xi), !hi)]
  | 0, _, .kids _ _ => []
  | m + 1, o, .kids a b =>
    let mid := o + 2 ^ m * 2 ^ ndiv
    cuts ndiv m o a ++ (if hasHi a && !hasLo b then [(mid, true)] else if hasLo b && !hasHi a then [(mid, false)] else [])
      ++ cuts ndiv m mid b

/-- no two neighbouring sample values vanish together -/
def noZeroPair : List Int → Prop
  | a :: b :: t => ¬(a = 0 ∧ b = 0) ∧ noZeroPair (b :: t)
  | _ => True

end NutilsVerif.C10
