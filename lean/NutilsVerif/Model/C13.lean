import NutilsVerif.Core.Proto
/-!
# C13 — argument manipulation commutes with evaluation  (model; no Mathlib)

Four mechanisms of `nutils.function` / `nutils.evaluable` are modelled:

* **(a) substitution** — `evaluable.replace_arguments` = `util.shallow_replace` applied to an expression DAG:
  `Expr.subst` is the *specification* (simultaneous substitution, replaced subtrees are not re-visited);
  `Machine` is the *implementation*: the explicit `fstack / rstack / cache` loop of `_util.shallow_replace`
  over a node table with identity (= node id) keyed memo.
* **(b) argument specifications** — `function._argument_to_array` with its documented spellings
  (`'u:v,p:q'`, dict, sequences of `'u:v'` strings / pairs, `Argument` objects as keys and values) and what
  `_Replace.__init__` / `_join_arguments` / `arguments_for` do with the result.
* **(c) linearize** — `function.linearize` = Σ over the parsed pairs of `derivative(f, arg) · lin` on the
  polynomial fragment, with the formal derivative `Expr.deriv`.
* **(d) factor** — `evaluable.factor`: the queue of `(args, func)` pairs with alphabetically ordered `args`,
  `derivative(func, arg) / n`, `zero_all_arguments`, on sparse polynomials (`MPoly`), and the
  `argument_degree` bookkeeping on expressions.

Scalars: the model is entry-level — a variable is one entry of a nutils `Argument` (`V` is any key type;
`String × Nat` = (argument name, flat index) where the axis structure matters).
-/
namespace NutilsVerif.C13

/-! ## (a) expressions, evaluation, substitution -/

inductive Expr (V : Type) where
  | var (x : V)
  | const (c : Int)
  | add (a b : Expr V)
  | mul (a b : Expr V)
  | neg (a : Expr V)
  | app (f : String) (args : List (Expr V))
deriving Repr, Inhabited

namespace Expr
variable {V : Type}

/-- value of an expression: `I` interprets the uninterpreted n-ary functions, `ρ` the arguments -/
def eval {α : Type} [Add α] [Mul α] [Neg α] [IntCast α] (I : String → List α → α) (ρ : V → α) : Expr V → α
  | var x => ρ x
  | const c => (c : α)
  | add a b => eval I ρ a + eval I ρ b
  | mul a b => eval I ρ a * eval I ρ b
  | neg a => - eval I ρ a
  | app f args => I f (args.map (eval I ρ))

/-- simultaneous substitution: a replaced argument is *not* visited again (`shallow_replace` stops as soon
as the callable returns a value) -/
def subst (σ : V → Option (Expr V)) : Expr V → Expr V
  | var x => match σ x with | some g => g | none => var x
  | const c => const c
  | add a b => add (subst σ a) (subst σ b)
  | mul a b => mul (subst σ a) (subst σ b)
  | neg a => neg (subst σ a)
  | app f args => app f (args.map (subst σ))

/-- the (wrong) variant that keeps substituting inside replacements, `fuel` times: what a `shallow_replace`
that re-visits replaced subtrees would compute.  Only used to exhibit that swaps tell the two apart. -/
def substDeep (σ : V → Option (Expr V)) : Nat → Expr V → Expr V
  | 0, e => e
  | n + 1, e => substDeep σ n (subst σ e)

/-- arguments an expression depends on (with repetitions) -/
def freeVars : Expr V → List V
  | var x => [x]
  | const _ => []
  | add a b => freeVars a ++ freeVars b
  | mul a b => freeVars a ++ freeVars b
  | neg a => freeVars a
  | app _ args => (args.map freeVars).flatten

/-- the environment under which the un-substituted expression has to be evaluated -/
def bindEnv {α : Type} [Add α] [Mul α] [Neg α] [IntCast α] (I : String → List α → α) (ρ : V → α)
    (σ : V → Option (Expr V)) : V → α :=
  fun x => match σ x with | some g => eval I ρ g | none => ρ x

end Expr

/-! ### the DAG and the `shallow_replace` machine

Objects are rows of a node table; a row refers to earlier rows only.  Object identity = row index, which
is what the `IDDict` cache of `shallow_replace` is keyed by. -/

inductive DNode (V : Type) where
  | var (x : V)
  | const (c : Int)
  | add (i j : Nat)
  | mul (i j : Nat)
  | neg (i : Nat)
  | app (f : String) (args : List Nat)
deriving Repr, Inhabited

namespace DNode
variable {V : Type}

/-- `_reduce(obj)`: the constructor arguments that are themselves objects -/
def children : DNode V → List Nat
  | var _ => [] | const _ => []
  | add i j => [i, j] | mul i j => [i, j] | neg i => [i] | app _ args => args

/-- `f(*args)`: re-create the object from processed constructor arguments -/
def rebuild : DNode V → List (Expr V) → Expr V
  | var x, _ => .var x
  | const c, _ => .const c
  | add _ _, [a, b] => .add a b
  | mul _ _, [a, b] => .mul a b
  | neg _, [a] => .neg a
  | app f _, l => .app f l
  | _, _ => .const 0   -- arity mismatch: unreachable for results of the machine

end DNode

abbrev Dag (V : Type) := List (DNode V)

/-- every row refers to earlier rows only -/
def Dag.WF {V : Type} (d : Dag V) : Prop :=
  ∀ (k : Nat) (n : DNode V), d[k]? = some n → ∀ c ∈ n.children, c < k

/-- the tree denoted by row `k` (fuel = k+1 suffices on a well-formed table) -/
def Dag.denoteF {V : Type} (d : Dag V) : Nat → Nat → Expr V
  | 0, _ => .const 0
  | fuel + 1, k =>
    match d[k]? with
    | none => .const 0
    | some n => n.rebuild (n.children.map (Dag.denoteF d fuel))

def Dag.denote {V : Type} (d : Dag V) (k : Nat) : Expr V := d.denoteF (k + 1) k

namespace Machine
variable {V : Type}

inductive Tok where
  | obj (id : Nat)
  | recreate (id : Nat)     -- `recreate(f, nargs, orig)`: f and nargs are determined by the row
deriving Repr

structure State (V : Type) where
  fstack : List Tok                 -- head = top of the Python list
  rstack : List (Expr V)
  cache : List (Nat × Expr V)       -- IDDict: identity (row index) ↦ result

/-- `func(obj, arguments)` of `evaluable.replace_arguments`: only `Argument`s whose name is in the map -/
def func (σ : V → Option (Expr V)) : DNode V → Option (Expr V)
  | .var x => σ x
  | _ => none

/-- one iteration of the `while fstack:` loop of `util.shallow_replace` -/
def step (d : Dag V) (σ : V → Option (Expr V)) (s : State V) : State V :=
  match s.fstack with
  | [] => s
  | .recreate id :: fs =>
    match d[id]? with
    | none => { s with fstack := fs }
    | some n =>
      let k := n.children.length
      let r := n.rebuild (s.rstack.take k)
      { fstack := fs, rstack := r :: s.rstack.drop k, cache := (id, r) :: s.cache }
  | .obj id :: fs =>
    match s.cache.lookup id with
    | some r => { s with fstack := fs, rstack := r :: s.rstack }
    | none =>
      match d[id]? with
      | none => { s with fstack := fs }
      | some n =>
        match func σ n with
        | some r => { fstack := fs, rstack := r :: s.rstack, cache := (id, r) :: s.cache }
        | none => { s with fstack := (n.children.reverse.map Tok.obj) ++ Tok.recreate id :: fs }

def run (d : Dag V) (σ : V → Option (Expr V)) : Nat → State V → State V
  | 0, s => s
  | n + 1, s => run d σ n (step d σ s)

def init (id : Nat) : State V := { fstack := [.obj id], rstack := [], cache := [] }

/-- run with a generous bound and return `rstack[0]` when the loop has finished -/
def shallowReplace (d : Dag V) (σ : V → Option (Expr V)) (id : Nat) (fuel : Nat) : Option (Expr V) :=
  let s := run d σ fuel (init id)
  match s.fstack, s.rstack with
  | [], [r] => some r
  | _, _ => none

end Machine

/-! ## (b) argument specifications (`_argument_to_array`, `_Replace.__init__`, `_join_arguments`) -/

abbrev Name := List Char

inductive DType | bool | int | float | complex
deriving Repr, DecidableEq, Inhabited

structure Sig where
  shape : List Nat
  dtype : DType
deriving Repr, DecidableEq, Inhabited

/-- `array.arguments`: name ↦ (shape, dtype) -/
abbrev Ctx := List (Name × Sig)

inductive Key where
  | name (s : Name)
  | argobj (n : Name) (sig : Sig)     -- an `Argument` object used as key
  | other                              -- anything else: 'Key must be string or argument'
deriving Repr, DecidableEq

inductive Val where
  | name (s : Name)
  | argobj (n : Name) (sig : Sig)     -- an `Argument` object used as value (is an `Array`)
  | array (id : Nat) (sig : Sig) (args : Ctx) (bound : Bool)   -- any other Array: identity, shape/dtype, its arguments, bound to a space?
deriving Repr, DecidableEq

inductive Item where
  | str (s : Name)                    -- 'u:v'
  | pair (k : Key) (v : Val)
deriving Repr, DecidableEq

inductive Spec where
  | str (s : Name)                    -- 'u:v,p:q'
  | dict (items : List (Key × Val))
  | seq (items : List Item)
deriving Repr

inductive Replacement where
  | arg (n : Name) (sig : Sig)                       -- `Argument(new, arg.shape, arg.dtype)`
  | array (id : Nat) (sig : Sig) (args : Ctx) (bound : Bool)
deriving Repr, DecidableEq

inductive Err where
  | unpack          -- `arg, new = item.split(':', 1)` with no colon
  | keyType         -- 'Key must be string or argument'
  | keySig          -- 'Argument … has wrong shape or dtype'
  | valShape | valDtype
  | boundToSpace    -- _Replace: replacement bound to a space
  | joinShape | joinDtype      -- _join_arguments
deriving Repr, DecidableEq

/-- Python `s.split(c)` -/
def splitAll (c : Char) : List Char → List (List Char)
  | [] => [[]]
  | d :: s =>
    if d = c then [] :: splitAll c s
    else match splitAll c s with
      | h :: t => (d :: h) :: t
      | [] => [[d]]

/-- Python `s.split(c, 1)` followed by unpacking into two names -/
def splitFirst (c : Char) : List Char → Option (List Char × List Char)
  | [] => none
  | d :: s =>
    if d = c then some ([], s)
    else match splitFirst c s with
      | some (a, b) => some (d :: a, b)
      | none => none

def Item.toPair : Item → Except Err (Key × Val)
  | .str s => match splitFirst ':' s with
    | some (k, v) => .ok (.name k, .name v)
    | none => .error .unpack
  | .pair k v => .ok (k, v)

/-- the items the `for` loop of `_argument_to_array` iterates over -/
def Spec.items : Spec → List Item
  | .str s => (splitAll ',' s).map Item.str
  | .dict kvs => kvs.map fun (k, v) => Item.pair k v
  | .seq l => l

def Replacement.sig : Replacement → Sig
  | .arg _ s => s
  | .array _ s _ _ => s

/-- the key of an item: `none` = `continue` (not an argument of the function) -/
def resolveKey (ctx : Ctx) : Key → Except Err (Option (Name × Sig))
  | .name s => match ctx.lookup s with
    | none => .ok none
    | some sig => .ok (some (s, sig))
  | .other => .error .keyType
  | .argobj n sig => match ctx.lookup n with
    | none => .ok none
    | some sig' => if sig' = sig then .ok (some (n, sig)) else .error .keySig

/-- the value of an item, for an argument of shape/dtype `sig` -/
def checkVal (sig : Sig) : Val → Except Err Replacement
  | .name s => .ok (.arg s sig)
  | .argobj m sv =>
    if sv.shape ≠ sig.shape then .error .valShape
    else if sv.dtype ≠ sig.dtype then .error .valDtype
    else .ok (.arg m sv)
  | .array id sv args b =>
    if sv.shape ≠ sig.shape then .error .valShape
    else if sv.dtype ≠ sig.dtype then .error .valDtype
    else .ok (.array id sv args b)

/-- body of the loop for one item: `none` = `continue` -/
def parseItem (ctx : Ctx) (it : Item) : Except Err (Option (Name × Replacement)) :=
  match it.toPair with
  | .error e => .error e
  | .ok (k, v) =>
    match resolveKey ctx k with
    | .error e => .error e
    | .ok none => .ok none
    | .ok (some (n, sig)) =>
      match checkVal sig v with
      | .error e => .error e
      | .ok r => .ok (some (n, r))

def parseItems (ctx : Ctx) : List Item → Except Err (List (Name × Replacement))
  | [] => .ok []
  | it :: rest =>
    match parseItem ctx it with
    | .error e => .error e
    | .ok r =>
      match parseItems ctx rest with
      | .error e => .error e
      | .ok l => .ok (match r with | some p => p :: l | none => l)

/-- `list(_argument_to_array(d, array))` -/
def parse (spec : Spec) (ctx : Ctx) : Except Err (List (Name × Replacement)) :=
  parseItems ctx spec.items

/-- `_join_arguments`: first occurrence wins, later ones must agree -/
def joinInto (acc : Ctx) : Ctx → Except Err Ctx
  | [] => .ok acc
  | (n, s) :: rest =>
    match acc.lookup n with
    | none => joinInto (acc ++ [(n, s)]) rest
    | some s' =>
      if s.shape ≠ s'.shape then .error .joinShape
      else if s.dtype ≠ s'.dtype then .error .joinDtype
      else joinInto acc rest

def joinArguments : List Ctx → Except Err Ctx
  | [] => .ok []
  | l => l.foldlM joinInto []

def Replacement.arguments : Replacement → Ctx
  | .arg n s => [(n, s)]
  | .array _ _ args _ => args

def Replacement.bound : Replacement → Bool
  | .arg _ _ => false
  | .array _ _ _ b => b

/-- `self._replacements[old.name] = new` in order: the last binding of a name wins, position of the first -/
def replDict : List (Name × Replacement) → List (Name × Replacement)
  | [] => []
  | (n, r) :: rest =>
    let d := replDict rest
    if d.any (·.1 == n) then (n, (d.lookup n).getD r) :: d.filter (·.1 != n) else (n, r) :: d

/-- `_Replace.__init__`: the replacement map and the announced `.arguments` of the result -/
def replaceInit (spec : Spec) (ctx : Ctx) : Except Err (List (Name × Replacement) × Ctx) :=
  match parse spec ctx with
  | .error e => .error e
  | .ok l =>
    if l.any (·.2.bound) then .error .boundToSpace else
    let d := replDict l
    let unreplaced := ctx.filter fun (n, _) => !d.any (·.1 == n)
    match joinArguments (unreplaced :: d.map (·.2.arguments)) with
    | .error e => .error e
    | .ok joined => .ok (d, joined)

/-! ## (c) formal derivative and `linearize` on the polynomial fragment -/

namespace Expr
variable {V : Type} [DecidableEq V]

/-- no uninterpreted application: the fragment on which `deriv` is total -/
def isPoly : Expr V → Bool
  | var _ => true | const _ => true
  | add a b => isPoly a && isPoly b
  | mul a b => isPoly a && isPoly b
  | neg a => isPoly a
  | app _ _ => false

/-- `evaluable.derivative(e, Argument x)` entry-wise (applications: 0 — outside the fragment) -/
def deriv (x : V) : Expr V → Expr V
  | var y => if y = x then const 1 else const 0
  | const _ => const 0
  | add a b => add (deriv x a) (deriv x b)
  | mul a b => add (mul (deriv x a) b) (mul a (deriv x b))
  | neg a => neg (deriv x a)
  | app _ _ => const 0

def sumList : List (Expr V) → Expr V
  | [] => const 0
  | e :: rest => add e (sumList rest)

/-- `util.sum(numpy.sum(derivative(array, arg) * lin, axes) for arg, lin in pairs)` where every tensor pair
(u, v) has been expanded into its entries `(u[i], v[i])` -/
def linearize (pairs : List (V × V)) (e : Expr V) : Expr V :=
  sumList (pairs.map fun (x, v) => mul (deriv x e) (var v))

end Expr

/-- entries of a tensor pair: the contraction over *all* axes of the argument -/
def expandPair (u v : String) (size : Nat) : List ((String × Nat) × (String × Nat)) :=
  (List.range size).map fun i => ((u, i), (v, i))

/-! ## (d) `factor` on sparse polynomials, `argument_degree` -/

/-- a monomial: the multiset of its variables (arguments entries numbered in alphabetical order) -/
abbrev Mono := List Nat
/-- Σ c · Π x_v — not normalised: equal monomials may repeat, coefficients may be 0 -/
abbrev MPoly := List (Rat × Mono)

namespace MPoly

def evalMono (x : Nat → Rat) (m : Mono) : Rat := (m.map x).foldr (· * ·) 1
def eval (x : Nat → Rat) (p : MPoly) : Rat := (p.map fun (c, m) => c * evalMono x m).foldr (· + ·) 0

/-- ∂/∂x_a term by term -/
def deriv (a : Nat) (p : MPoly) : MPoly := p.map fun (c, m) => (c * (m.count a : Rat), m.erase a)
def scale (q : Rat) (p : MPoly) : MPoly := p.map fun (c, m) => (q * c, m)
/-- `zero_all_arguments(func)`: the constant term -/
def zeroed (p : MPoly) : Rat := eval (fun _ => 0) p

/-- may argument `a` be appended to the alphabetically ordered list `args`?  (`not args or arg.name >= args[-1].name`) -/
def allowed (args : List Nat) (a : Nat) : Bool :=
  match args.getLast? with
  | none => true
  | some b => decide (b ≤ a)

/-- the queue of `evaluable.factor`, depth first: node `(args, func)` emits the monomial
`zeroed(func) · Π args` and descends into `(args + [a], derivative(func, a) / n)` with
`n = args.count(a) + 1`.  `fuel` bounds the depth (the code stops when no arguments remain in `func`,
i.e. after `degree` levels); `vars` = all arguments, ascending. -/
def factorAux (vars : List Nat) : Nat → List Nat → MPoly → MPoly
  | 0, args, g => [(zeroed g, args)]
  | fuel + 1, args, g =>
    (zeroed g, args) ::
      ((vars.filter (allowed args)).map fun a =>
        factorAux vars fuel (args ++ [a]) (scale (1 / ((args.count a : Rat) + 1)) (deriv a g))).flatten

def factor (vars : List Nat) (degree : Nat) (p : MPoly) : MPoly := factorAux vars degree [] p

/-- total degree bound used as fuel -/
def degree (p : MPoly) : Nat := (p.map fun (_, m) => m.length).foldr max 0

/-- `Monomial.powers`: `args[i:].count(args[i])` -/
def powers : List Nat → List Nat
  | [] => []
  | a :: rest => ((a :: rest).count a) :: powers rest

end MPoly

namespace Expr

/-- expansion of a polynomial expression into monomials (no cancellation performed) -/
def toMPoly : Expr Nat → MPoly
  | var x => [(1, [x])]
  | const c => [((c : Rat), [])]
  | add a b => toMPoly a ++ toMPoly b
  | mul a b => (toMPoly a).flatMap fun (c, m) => (toMPoly b).map fun (c', m') => (c * c', m ++ m')
  | neg a => MPoly.scale (-1) (toMPoly a)
  | app _ _ => []

/-- `Array.argument_degree(x)`: `Add` → max, `Multiply` → sum, independent of `x` → 0, otherwise
`None` (`NotPolynomal`) -/
def argDegree (x : Nat) : Expr Nat → Option Nat
  | var y => some (if y = x then 1 else 0)
  | const _ => some 0
  | add a b => do pure (max (← argDegree x a) (← argDegree x b))
  | mul a b => do pure ((← argDegree x a) + (← argDegree x b))
  | neg a => argDegree x a
  | app _ args => if (args.map freeVars).flatten.contains x then none else some 0

end Expr

end NutilsVerif.C13
