import NutilsVerif.Core.Tensor
/-!
# C05 — sparse extraction denotes exactly the dense array  (model; no Mathlib)

Three layers:

1. **Certified checkers over evaluated data** (`checkCOO`, `checkCSR`).  The correspondence harness hands the
   *real* sparse trees produced by `Array.assparse` / `evaluable.as_csr` / `function.as_coo` to the Lean
   specification evaluator (`Model/Expr.lean`), which evaluates the dense expression, the value vector and the
   index vectors (values may be symbolic polynomials in the real-valued arguments); the checkers below then decide
   the property clause by clause.  `Props/C05.lean` proves that acceptance implies the property
   (`checkCOO_sound`, `checkCSR_sound`) and conversely (`checkCOO_complete`).
2. **The merge performed by `Array.assparse`** (evaluable.py 588-616): Horner flat index, `unique` (stable argsort,
   `UniqueMask`, `Find`, `UniqueInverse`), inflation of the chunk values through the inverse, and the divmod loop
   that unravels the flat index (`assparse`).
3. **`numeric.compress_indices`** (numeric.py 687-711) with its error branches, the COO→CSR step of
   `evaluable.as_csr`, and `numeric.accumulate` (the additive scatter that defines the meaning of sparse data).

The carrier `α` of the values is arbitrary (`add`, `zero` are explicit), so everything applies to ℤ, ℚ and to the
polynomial carrier of the evaluator.
-/
namespace NutilsVerif.C05
open NutilsVerif

/-! ## index tuples -/

/-- strict lexicographic order on index tuples -/
def lexLt : List Nat → List Nat → Bool
  | a :: s, b :: t => decide (a < b) || (a == b && lexLt s t)
  | _, _ => false

/-- neighbouring tuples strictly increase -/
def strictLexSorted : List (List Nat) → Bool
  | a :: b :: t => lexLt a b && strictLexSorted (b :: t)
  | _ => true

def monotone : List Nat → Bool
  | a :: b :: t => decide (a ≤ b) && monotone (b :: t)
  | _ => true

def strictInc : List Nat → Bool
  | a :: b :: t => decide (a < b) && strictInc (b :: t)
  | _ => true

/-! ## meaning of sparse data -/

section meaning
variable {α : Type} {ι : Type} [BEq ι]

/-- **Additive meaning** of `(indices, values)` at position `idx`: the sum (left to right) of all listed values
whose index equals `idx` — `numeric.accumulate` / `numpy.add.at` / what `Inflate` and matrix assembly mean. -/
def scatterSum (add : α → α → α) (zero : α) (indices : List ι) (values : List α) (idx : ι) : α :=
  ((indices.zip values).filter (·.1 == idx)).foldl (fun acc p => add acc p.2) zero

/-- the value listed first at `idx`, or `zero` when `idx` is not listed (what the checkers compare with) -/
def lookup (zero : α) (indices : List ι) (values : List α) (idx : ι) : α :=
  match (indices.zip values).find? (·.1 == idx) with
  | some p => p.2
  | none => zero

end meaning

/-- `numeric.accumulate(data, index, shape)`: dense array of `shape` holding the additive meaning -/
def accumulate {α : Type} [Inhabited α] (add : α → α → α) (zero : α) (shape : List Nat) (indices : List (List Nat))
    (values : List α) : Tensor α :=
  Tensor.ofFn shape fun idx => scatterSum add zero indices values idx

/-! ## certified checker: COO -/

section checkers
variable {α : Type} [Inhabited α] [BEq α]

/-- the clauses of the property for COO data `(values, indices, shape)` against the dense tensor, in the order in
which they are reported: lengths agree · the dense array has the announced shape · every index tuple lies inside
the shape · tuples strictly lexicographically increasing · every entry of the box equals the listed value, or
zero when its position is not listed -/
def cooClauses (zero : α) (shape : List Nat) (indices : List (List Nat)) (values : List α) (dense : Tensor α) :
    List (String × Bool) :=
  [("length", indices.length == values.length),
   ("shape", dense.shape == shape),
   ("range", indices.all (inBox shape)),
   ("order", strictLexSorted indices),
   ("scatter", (Tensor.indices shape).all fun idx => dense.get idx == lookup zero indices values idx)]

def checkCOO (zero : α) (shape : List Nat) (indices : List (List Nat)) (values : List α) (dense : Tensor α) : Bool :=
  (cooClauses zero shape indices values dense).all (·.2)

/-- name of the first clause that fails (`none` = all hold) -/
def firstFailed (clauses : List (String × Bool)) : Option String :=
  (clauses.find? (!·.2)).map (·.1)

/-! ## certified checker: CSR -/

/-- `l[rowptr[i] : rowptr[i+1]]` -/
def rowSlice {β : Type} (l : List β) (rowptr : List Nat) (i : Nat) : List β :=
  (l.drop (rowptr.getD i 0)).take (rowptr.getD (i+1) 0 - rowptr.getD i 0)

/-- clauses for CSR data `(values, rowptr, colidx, ncols)` of an `nrows × ncols` array: `rowptr` has `nrows+1`
entries, starts at 0, is monotone and ends at `nnz` · one column index per value, all `< ncols` · column indices
strictly increase within each row · every dense entry equals the value listed in its row at its column, or zero -/
def csrClauses (zero : α) (nrows ncols : Nat) (rowptr colidx : List Nat) (values : List α) (dense : Tensor α) :
    List (String × Bool) :=
  [("rowptr-length", rowptr.length == nrows + 1),
   ("rowptr-first", rowptr.head? == some 0),
   ("rowptr-monotone", monotone rowptr),
   ("rowptr-last", rowptr.getLast? == some values.length),
   ("colidx-length", colidx.length == values.length),
   ("colidx-range", colidx.all (decide <| · < ncols)),
   ("colidx-order", (List.range nrows).all fun i => strictInc (rowSlice colidx rowptr i)),
   ("shape", dense.shape == [nrows, ncols]),
   ("scatter", (List.range nrows).all fun i => (List.range ncols).all fun j =>
      dense.get [i, j] == lookup zero (rowSlice colidx rowptr i) (rowSlice values rowptr i) j)]

def checkCSR (zero : α) (nrows ncols : Nat) (rowptr colidx : List Nat) (values : List α) (dense : Tensor α) : Bool :=
  (csrClauses zero nrows ncols rowptr colidx values dense).all (·.2)

end checkers

/-- column-wise index vectors (as `assparse` returns them) to index tuples; `nnz` entries -/
def tuplesOf (nnz : Nat) (cols : List (List Nat)) : List (List Nat) :=
  (List.range nnz).map fun k => cols.map fun c => c.getD k 0

/-! ## `numeric.compress_indices` and the COO → CSR step of `evaluable.as_csr` -/

inductive CErr | bounds | notMonotone
deriving Repr, BEq, DecidableEq

/-- `numeric.compress_indices(indices, length)`:
```
if not len(indices): return zeros(length+1)
if indices[0] < 0 or indices[-1] >= length: raise ValueError('out of bounds')
step = [indices[0]+1, *diff(indices), length-indices[-1]]
nz, = step.nonzero(); return repeat(nz, step[nz])      # ValueError if a step is negative
``` -/
def compressIndices (idx : List Int) (length : Nat) : Except CErr (List Int) :=
  match idx with
  | [] => .ok (List.replicate (length+1) 0)
  | a :: _ =>
    let last := idx.getLast?.getD a
    if a < 0 || last ≥ (length : Int) then .error .bounds
    else
      let step : List Int := (a + 1) :: (List.zipWith (fun x y => y - x) idx idx.tail ++ [(length : Int) - last])
      if step.any (· < 0) then .error .notMonotone
      else .ok ((step.zipIdx.map fun (s, i) => List.replicate s.toNat (i : Int)).flatten)

/-- the documented meaning: `indices.searchsorted(numpy.arange(length+1))` (side left) -/
def searchsortedAll (idx : List Int) (length : Nat) : List Int :=
  (List.range (length+1)).map fun (i : Nat) => ((idx.filter (· < (i : Int))).length : Int)

def monotoneInt : List Int → Bool
  | a :: b :: t => decide (a ≤ b) && monotoneInt (b :: t)
  | _ => true

def inRangeInt (idx : List Int) (n : Nat) : Bool := idx.all fun x => decide (0 ≤ x) && decide (x < (n : Int))

/-- `evaluable.as_csr`: `values, (rowidx, colidx), (nrows, ncols) = assparse; rowptr = CompressIndices(rowidx, nrows)` -/
def asCsr (indices : List (List Nat)) (nrows : Nat) : Except CErr (List Nat × List Nat) :=
  match compressIndices (indices.map fun t => (t.getD 0 0 : Int)) nrows with
  | .ok rp => .ok (rp.map Int.toNat, indices.map fun t => t.getD 1 0)
  | .error e => .error e

/-! ## the block position of `Inflate._assparse` -/

/-- `(acc, *itertools.accumulate(l, operator.mul, initial=acc)[1:])`, i.e. `[acc, acc*l0, acc*l0*l1, …]`: with `acc = 1` this is
`(1, *itertools.accumulate(l, operator.mul))` -/
def runProd (acc : Nat) : List Nat → List Nat
  | [] => [acc]
  | n :: t => acc :: runProd (acc * n) t

/-- `strides = (1, *itertools.accumulate(self.dofmap.shape[:0:-1], operator.mul))[::-1]` -/
def blockStrides (shape : List Nat) : List Nat := (runProd 1 (shape.drop 1).reverse).reverse

/-- `functools.reduce(operator.add, map(operator.mul, indices[keep_dim:], strides))` -/
def stridedPos (idx strides : List Nat) : Nat := (List.zipWith (· * ·) idx strides).foldl (· + ·) 0

/-! ## the merge step of `Array.assparse` -/

/-- `flatindex = i0; for n, index in zip(shape[1:], indices[1:]): flatindex = flatindex * n + index` -/
def hornerFlat (shape idx : List Nat) : Nat :=
  match shape, idx with
  | _ :: s, i :: rest => (List.zip s rest).foldl (fun acc p => acc * p.1 + p.2) i
  | _, _ => 0

/-- one `indices[:1] = divmod(indices[0], n)` -/
def unravelStep (acc : List Nat) (n : Nat) : List Nat :=
  match acc with
  | k :: t => (k / n) :: (k % n) :: t
  | [] => []

/-- `indices = [flat]; for n in reversed(shape[1:]): indices[:1] = divmod(indices[0], n)` -/
def unravelLoop (shape : List Nat) (flat : Nat) : List Nat :=
  (shape.drop 1).reverse.foldl unravelStep [flat]

/-- `ArgSort`: `numpy.argsort(array, kind='stable')` -/
def argsortStable (f : List Nat) : List Nat :=
  (f.zipIdx.mergeSort fun a b => decide (a.1 ≤ b.1)).map (·.2)

/-- `UniqueMask.evalf`: `mask[:1] = True; mask[1:] = sorted[1:] != sorted[:-1]`, written with the previous entry
as an accumulator (`none` in front of the first entry) -/
def uniqueMaskFrom (prev : Option Nat) : List Nat → List Bool
  | [] => []
  | x :: t => (prev != some x) :: uniqueMaskFrom (some x) t

def uniqueMask (sorted : List Nat) : List Bool := uniqueMaskFrom none sorted

/-- `numpy.cumsum(mask)` continued from `c` -/
def cumsumFrom (c : Nat) : List Bool → List Nat
  | [] => []
  | b :: t => (c + b.toNat) :: cumsumFrom (c + b.toNat) t

/-- entries of `l` selected by `mask` (`Take(l, Find(mask))`) -/
def selectMask {β : Type} (l : List β) (mask : List Bool) : List β :=
  ((l.zip mask).filter (·.2)).map (·.1)

/-- `unique(array, return_inverse=True)`:
```
sorter = ArgSort(array); mask = UniqueMask(Take(array, sorter))
unique = Take(array, Take(sorter, Find(mask)))
inverse[sorter] = cumsum(mask) - 1                       # UniqueInverse.evalf
``` -/
def uniqueInv (f : List Nat) : List Nat × List Nat :=
  let sorter := argsortStable f
  let sorted := sorter.map fun k => f.getD k 0
  let mask := uniqueMask sorted
  let uniq := selectMask sorted mask
  let ranks := (cumsumFrom 0 mask).map (· - 1)
  let inverse := (List.range f.length).map fun pos => ranks.getD (sorter.idxOf pos) 0
  (uniq, inverse)

/-- `Inflate(values, inverse, n)` of a vector: entry `u` is the sum of the values sent to `u` -/
def inflateAdd {α : Type} (add : α → α → α) (zero : α) (values : List α) (inverse : List Nat) (n : Nat) : List α :=
  (List.range n).map fun u => scatterSum add zero inverse values u

/-- flat indices and values of all chunks → unique sorted flat indices and merged values -/
def mergeFlat {α : Type} (add : α → α → α) (zero : α) (flat : List Nat) (values : List α) : List Nat × List α :=
  let (uniq, inverse) := uniqueInv flat
  (uniq, inflateAdd add zero values inverse uniq.length)

/-- `Array.assparse` for `ndim > 0` on evaluated chunks: `tuples` / `values` are the concatenated index tuples and
values of all chunks of `_assparse` -/
def assparse {α : Type} (add : α → α → α) (zero : α) (shape : List Nat) (tuples : List (List Nat)) (values : List α) :
    List (List Nat) × List α :=
  let m := mergeFlat add zero (tuples.map (hornerFlat shape)) values
  (m.1.map (unravelLoop shape), m.2)

end NutilsVerif.C05
