import NutilsVerif.Model.C11Spec
/-!
# C11 — specification side: normal forms of transform chains under the two swaps (no Mathlib)

`nfDown` is the chain with every updim moved as far to the front as `swapdown` allows, `nfUp` the chain with every updim
moved as far to the back as `swapup` allows, both defined by plain structural recursion (insertion).  The theorems show
that the index loops of `transform.canonical` / `transform.uppermost` compute exactly these.
-/
namespace NutilsVerif.C11

/-- put `c` in front of a down-normal chain and let it sink behind the updims it can be swapped with -/
def pushDn (c : Item) : Chain → Chain
  | [] => [c]
  | e :: ys =>
    match Item.swapdown c e with
    | some (e', c') => e' :: pushDn c' ys
    | none => c :: e :: ys

def nfDown : Chain → Chain
  | [] => []
  | a :: l => pushDn a (nfDown l)

/-- put `e` in front of an up-normal chain and let it sink behind the scales it can be swapped with -/
def pushUp (e : Item) : Chain → Chain
  | [] => [e]
  | c :: ys =>
    match Item.swapup e c with
    | some (c', e') => c' :: pushUp e' ys
    | none => e :: c :: ys

def nfUp : Chain → Chain
  | [] => []
  | a :: l => pushUp a (nfUp l)

/-- no adjacent pair can be swapped down -/
def DnNormal : Chain → Prop
  | a :: b :: t => Item.swapdown a b = none ∧ DnNormal (b :: t)
  | _ => True

/-- no adjacent pair can be swapped up -/
def UpNormal : Chain → Prop
  | a :: b :: t => Item.swapup a b = none ∧ UpNormal (b :: t)
  | _ => True

/-- A class of transform items on which the two swaps undo each other (the property lookups through boundaries of
refinements rely on).  `Props/C11.lean` shows that the simplex items form such a class; for tensor items it fails in
dimension ≥ 4 (known finding). -/
structure RevSys (G : Item → Prop) : Prop where
  wf : ∀ a, G a → a.wf = true
  kind : ∀ a, G a → (a.isUp = true ∧ a.td = a.fd + 1) ∨ (a.isUp = false ∧ a.td = a.fd)
  up : ∀ a b x y, G a → G b → a.fd = b.td → Item.swapup a b = some (x, y) → G x ∧ G y ∧ Item.swapdown x y = some (a, b)
  dn : ∀ a b x y, G a → G b → a.fd = b.td → Item.swapdown a b = some (x, y) → G x ∧ G y ∧ Item.swapup x y = some (a, b)

/-- a well-formed chain `R^fd → R^td` of items of the class `G` -/
def GFits (G : Item → Prop) (l : Chain) (td fd : Nat) : Prop := Fits l td fd ∧ ∀ a ∈ l, G a

/-- two chains are equivalent when they have the same down-normal form -/
def Eqv (l l' : Chain) : Prop := nfDown l = nfDown l'

end NutilsVerif.C11
