import NutilsVerif.Core.Proto
/-!
# C18 — disk memoisation (`nutils.cache`)  (model; no Mathlib)

Mirrors `cache.function` (src/nutils/cache.py:139-236), `Recursion.__iter__` (251-408) and the
file lock protocol (`_lock_file`, 98-136).

* A cache file is a list of bytes (`Bytes`).  `touch` + `open('r+b')` do not change the
  content (a file that does not exist is the empty file), so the state of one cache entry is
  just its content.
* `pickle` is an abstract parameter `Pickle α`: `dump nonce x` (the nonce says *which run*
  produced the bytes, so that determinism of the pickle is an explicit hypothesis, H3) and
  `load : Bytes → Except LoadErr α`.
* The code writes with `seek(0)` + `dump` and **never truncates**: a write of `new` that is cut
  after `k` bytes leaves `overlay k new old = take k new ++ drop k old`; a complete write leaves
  `new ++ drop |new| old`.
-/
namespace NutilsVerif.C18

abbrev Bytes := List Nat

/-- exception classes of `pickle.load` that cache.py distinguishes (`other` = anything else:
ValueError, AttributeError, MemoryError, TypeError ...) -/
inductive LoadErr | eof | unpickling | index | other
deriving DecidableEq, Repr

structure Pickle (α : Type) where
  dump : Nat → α → Bytes
  load : Bytes → Except LoadErr α

/-- content of a file after the first `k` bytes of `new` were written at offset 0 over `old` -/
def overlay (k : Nat) (new old : Bytes) : Bytes := new.take k ++ old.drop k

/-- one `write` of a single byte at position `k` (used by the byte-level concurrent model) -/
def writeByte (k b : Nat) (file : Bytes) : Bytes := file.take k ++ b :: file.drop (k + 1)

/-! ## `cache.function` -/

/-- what `pickle.load` may return for a function entry: the current `(value, log)` format or the
old `(log, fail, value)` format that the code still accepts -/
inductive Data (V L : Type)
  | entry (v : V) (l : L)
  | old (l : L) (fail : Bool) (v : V)
  | illTyped      -- a 2- or 3-tuple whose log component is not a `RecordLog` (garbage that unpickles without error)

/-- result of the wrapped function on the (fixed) argument tuple: value + emitted log, or exception -/
inductive FRes (V L E : Type) | ret (v : V) (l : L) | exc (e : E) (l : L)

/-- what the environment does to a call: nothing, kill the process after `k` bytes of the dump
were written, or raise a transient exception (KeyboardInterrupt ...) inside the wrapped function -/
inductive Fault (E : Type) | none | kill (k : Nat) | intr (e : E)

structure Event (E : Type) where
  nonce : Nat
  fault : Fault E

inductive Outcome (V L E : Type)
  | ret (v : V) (l : L) (ncalls : Nat)   -- returned `v`, the caller's logger saw `l`, `func` ran `ncalls` times
  | exc (e : E) (l : L) (ncalls : Nat)   -- `func` raised `e` (nothing is cached)
  | intr (e : E)                         -- transient exception injected by the environment
  | killed
  | loadCrash (e : LoadErr)              -- `pickle.load` raised outside the caught tuple: escapes to the caller

structure Cfg (V L E : Type) where
  pk : Pickle (Data V L)
  caught : LoadErr → Bool                -- the tuple in `except (EOFError, pickle.UnpicklingError, IndexError)`
  f : FRes V L E

inductive Lookup (V L : Type) | hit (v : V) (l : L) | miss | escape (e : LoadErr)

variable {V L E : Type}

/-- lines 211-225: `pickle.load`, old/new format, `except (...)` -/
def lookup (c : Cfg V L E) (file : Bytes) : Lookup V L :=
  match c.pk.load file with
  | .ok (.entry v l) => .hit v l
  | .ok (.old l false v) => .hit v l
  | .ok (.old _ true _) => if c.caught .unpickling then .miss else .escape .unpickling
  | .ok .illTyped => if c.caught .unpickling then .miss else .escape .unpickling   -- `if not isinstance(log_, log.RecordLog): raise pickle.UnpicklingError`
  | .error e => if c.caught e then .miss else .escape e

/-- the bytes a run with this nonce dumps for result `(v, l)` -/
def entryBytes (c : Cfg V L E) (nonce : Nat) (v : V) (l : L) : Bytes := c.pk.dump nonce (.entry v l)

/-- one call of the memoised function on a given file content (lines 205-234) -/
def call (c : Cfg V L E) (ev : Event E) (file : Bytes) : Bytes × Outcome V L E :=
  match lookup c file with
  | .hit v l => (file, .ret v l 0)                 -- `log_.replay(); return value`
  | .escape e => (file, .loadCrash e)
  | .miss =>                                       -- `f.seek(0)`; `with disable(), log.add(log_): value = func(...)`
    match ev.fault, c.f with
    | .intr e, _ => (file, .intr e)
    | .kill k, .ret v l =>
        let d := entryBytes c ev.nonce v l
        (overlay (min k d.length) d file, .killed)
    | .kill _, .exc _ _ => (file, .killed)
    | .none, .ret v l =>
        let d := entryBytes c ev.nonce v l
        (overlay d.length d file, .ret v l 1)     -- `pickle.dump((value, log_), f)` — no truncate
    | .none, .exc e l => (file, .exc e l 1)

/-- file content after a history of calls -/
def fileAfter (c : Cfg V L E) : List (Event E) → Bytes → Bytes
  | [], file => file
  | ev :: h, file => fileAfter c h (call c ev file).1

/-- outcomes of a history of calls -/
def outcomes (c : Cfg V L E) : List (Event E) → Bytes → List (Outcome V L E)
  | [], _ => []
  | ev :: h, file => (call c ev file).2 :: outcomes c h (call c ev file).1

/-- specification: the uncached call (`caching.current is None`: `return func(*args, **kwargs)`) -/
def uncached (c : Cfg V L E) : Outcome V L E :=
  match c.f with
  | .ret v l => .ret v l 1
  | .exc e l => .exc e l 1

/-- same observable result (value / exception and log), possibly fewer executions of `func` -/
def Outcome.sameAs : Outcome V L E → Outcome V L E → Prop
  | .ret v l n, .ret v' l' n' => v = v' ∧ l = l' ∧ n ≤ n'
  | .exc e l n, .exc e' l' n' => e = e' ∧ l = l' ∧ n = n'
  | _, _ => False

/-! ## `Recursion.__iter__` -/

/-- result of one `next(resume)` -/
inductive Next (V L E : Type) | item (v : V) (l : L) | stop (l : L) | exc (e : E) (l : L)

/-- content of an item file: `(log, stop, value)`.  For item files `Pickle.load` stands for the whole guarded statement
`log_, stop, value = pickle.load(f)` *including* the validation `isinstance(log_, RecordLog) and isinstance(stop, bool)`:
content that unpickles to something ill-typed is `.error .unpickling` (the code raises UnpicklingError for it). -/
inductive Stored (V L : Type) | item (l : L) (v : V) | stop (l : L)

structure RecCfg (V L E : Type) where
  length : Nat
  /-- `resume_index(history, index)` and then the `j`-th `next` -/
  resume : List V → Nat → Nat → Next V L E
  pk : Pickle (Stored V L)
  caught : LoadErr → Bool      -- union of `except (UnpicklingError, IndexError)` and `except EOFError`

abbrev Files := Nat → Bytes

def setFile (fs : Files) (i : Nat) (b : Bytes) : Files := fun j => if j = i then b else fs j

/-- lines 374-376: `history.append(value); if len(history) > length: history = history[1:]` -/
def push (length : Nat) (hist : List V) (v : V) : List V :=
  let h := hist ++ [v]
  if h.length > length then h.drop 1 else h

inductive RFault (E : Type) | none | kill (i k : Nat) | intr (i : Nat) (e : E)

inductive End (E : Type)
  | closed                  -- the consumer stopped asking
  | stopped                 -- StopIteration (stop marker)
  | raised (e : E)          -- `resume` raised
  | killed | interrupted (e : E)
  | loadCrash (e : LoadErr)
deriving DecidableEq

/-- observable result of one iteration + bookkeeping -/
structure RunOut (V L E : Type) where
  items : List (V × L)             -- yielded values, each with the log the caller saw at that item
  fin : End E
  finLog : Option L                -- log seen during the final step (stop / raise)
  resumed : Option (List V × Nat)  -- arguments of the `resume_index` call, if any
  ncomputed : Nat                  -- number of `next(resume)` calls
  files : Files

def RunOut.cons (x : V × L) (comp : Nat) (r : RunOut V L E) : RunOut V L E :=
  { r with items := x :: r.items, ncomputed := r.ncomputed + comp }

structure RunCfg (E : Type) where
  nonce : Nat
  fault : RFault E

inductive StepRes (V L E : Type) | fin (r : RunOut V L E) | cont (x : V × L) (fs : Files)

/-- one pass through lines 381-391 for item `i` in `exhausted` mode: `next(resume)`, `pickle.dump` at offset 0
(the file of the first exhausted item was `seek(0)`ed, later ones are freshly opened) -/
def compStep (c : RecCfg V L E) (rc : RunCfg E) (hist : List V) (idx i : Nat) (fs : Files) : StepRes V L E :=
  match rc.fault with
  | .intr i' e =>
    if i' = i then .fin ⟨[], .interrupted e, none, none, 1, fs⟩ else
    match c.resume hist idx (i - idx) with
    | .item v l => let d := c.pk.dump rc.nonce (.item l v); .cont (v, l) (setFile fs i (overlay d.length d (fs i)))
    | .stop l => let d := c.pk.dump rc.nonce (.stop l); .fin ⟨[], .stopped, some l, none, 1, setFile fs i (overlay d.length d (fs i))⟩
    | .exc e l => .fin ⟨[], .raised e, some l, none, 1, fs⟩
  | .kill i' k =>
    match c.resume hist idx (i - idx) with
    | .item v l =>
      let d := c.pk.dump rc.nonce (.item l v)
      if i' = i then .fin ⟨[], .killed, none, none, 1, setFile fs i (overlay (min k d.length) d (fs i))⟩
      else .cont (v, l) (setFile fs i (overlay d.length d (fs i)))
    | .stop l =>
      let d := c.pk.dump rc.nonce (.stop l)
      if i' = i then .fin ⟨[], .killed, none, none, 1, setFile fs i (overlay (min k d.length) d (fs i))⟩
      else .fin ⟨[], .stopped, some l, none, 1, setFile fs i (overlay d.length d (fs i))⟩
    | .exc e l => .fin ⟨[], .raised e, some l, none, 1, fs⟩
  | .none =>
    match c.resume hist idx (i - idx) with
    | .item v l => let d := c.pk.dump rc.nonce (.item l v); .cont (v, l) (setFile fs i (overlay d.length d (fs i)))
    | .stop l => let d := c.pk.dump rc.nonce (.stop l); .fin ⟨[], .stopped, some l, none, 1, setFile fs i (overlay d.length d (fs i))⟩
    | .exc e l => .fin ⟨[], .raised e, some l, none, 1, fs⟩

/-- the `exhausted` part of the loop from item `i` on; the generator was created by
`resume_index(hist, idx)`; `n` = number of items the consumer still asks for -/
def compute (c : RecCfg V L E) (rc : RunCfg E) (hist : List V) (idx : Nat) : Nat → Nat → Files → RunOut V L E
  | 0, _, fs => ⟨[], .closed, none, none, 0, fs⟩
  | n+1, i, fs =>
    match compStep c rc hist idx i fs with
    | .fin r => r
    | .cont x fs' => (compute c rc hist idx n (i+1) fs').cons x 1

/-- the reading part of the loop (lines 362-380); `hist` is the truncated history so far.  A fault of the run only
strikes where something is computed or written, i.e. never while cached items are read. -/
def iterate (c : RecCfg V L E) (rc : RunCfg E) : Nat → Nat → List V → Files → RunOut V L E
  | 0, _, _, fs => ⟨[], .closed, none, none, 0, fs⟩
  | n+1, i, hist, fs =>
    match c.pk.load (fs i) with
    | .ok (.item l v) => (iterate c rc n (i+1) (push c.length hist v) fs).cons (v, l) 0
    | .ok (.stop l) => ⟨[], .stopped, some l, none, 0, fs⟩
    | .error e =>
      if c.caught e then
        { compute c rc hist i (n+1) i fs with resumed := some (hist, i) }
      else ⟨[], .loadCrash e, none, none, 0, fs⟩

inductive REvent (E : Type)
  | take (nonce n : Nat)          -- consumer takes `n` items, then closes the generator
  | kill (nonce i k : Nat)        -- iterate; the process is killed at item `i` after `k` bytes of its dump
  | intr (nonce i : Nat) (e : E)  -- iterate; a transient exception strikes in `next(resume)` at item `i`

def REvent.run (c : RecCfg V L E) : REvent E → Files → RunOut V L E
  | .take nonce n, fs => iterate c ⟨nonce, .none⟩ n 0 [] fs
  | .kill nonce i k, fs => iterate c ⟨nonce, .kill i k⟩ (i+1) 0 [] fs
  | .intr nonce i e, fs => iterate c ⟨nonce, .intr i e⟩ (i+1) 0 [] fs

def filesAfter (c : RecCfg V L E) : List (REvent E) → Files → Files
  | [], fs => fs
  | ev :: h, fs => filesAfter c h (ev.run c fs).files

/-- specification: the uncached iteration `yield from self.resume_index([], 0)`, consumer takes `n` items -/
def specRun (c : RecCfg V L E) : Nat → Nat → List (V × L) × End E × Option L
  | 0, _ => ([], .closed, none)
  | n+1, j =>
    match c.resume [] 0 j with
    | .item v l => let r := specRun c n (j+1); ((v, l) :: r.1, r.2)
    | .stop l => ([], .stopped, some l)
    | .exc e l => ([], .raised e, some l)

/-- the values of the first `i` items of the uncached sequence (valid while they are all items) -/
def specVals (c : RecCfg V L E) : Nat → List V
  | 0 => []
  | i+1 => match c.resume [] 0 i with
    | .item v _ => specVals c i ++ [v]
    | _ => specVals c i

/-! ## concurrent callers of one `cache.function` entry under the file lock -/

inductive PState (V L E : Type)
  | idle                       -- touch/open done, `_lock_file` not yet returned
  | locked                     -- lock held, about to `pickle.load`
  | computing                  -- load failed, `seek(0)` done, `func` running
  | writing (k : Nat)          -- `k` bytes of the dump written
  | done (out : Outcome V L E) -- file closed (lock released), returned
  | dead

def PState.critical : PState V L E → Bool
  | .locked | .computing | .writing _ => true
  | _ => false

inductive Act | step (p : Nat) | kill (p : Nat)

structure CState (V L E : Type) where
  file : Bytes
  procs : Nat → PState V L E       -- process `p` (any number of them; all start `idle`)
  holder : Option Nat              -- owner of the flock on the cache file
  execs : Nat                      -- how often `func` was started
  hist : List (Nat × Event E)      -- ghost: linearised history, one event per released lock (process id, event)

def setProc (ps : Nat → PState V L E) (p : Nat) (st : PState V L E) : Nat → PState V L E :=
  fun q => if q = p then st else ps q

/-- process `p` leaves the critical section (close → unlock): record its event in the ghost history -/
def release (s : CState V L E) (p : Nat) (st : PState V L E) (fault : Fault E) : CState V L E :=
  { s with procs := setProc s.procs p st, holder := (if s.holder = some p then none else s.holder),
           hist := s.hist ++ [(p, ⟨p, fault⟩)] }

/-- one scheduler action; `useLock = false` is the `_lock_file_fallback` platform.  Process `p` dumps with nonce `p`. -/
def act (c : Cfg V L E) (useLock : Bool) (s : CState V L E) : Act → CState V L E
  | .step p =>
    match s.procs p with
    | .idle =>
      if useLock then
        (if s.holder = none then { s with procs := setProc s.procs p .locked, holder := some p } else s)   -- blocked in flock
      else { s with procs := setProc s.procs p .locked }
    | .locked =>
      match lookup c s.file with
      | .hit v l => release s p (.done (.ret v l 0)) .none
      | .escape e => release s p (.done (.loadCrash e)) .none
      | .miss => { s with procs := setProc s.procs p .computing, execs := s.execs + 1 }
    | .computing =>
      match c.f with
      | .ret _ _ => { s with procs := setProc s.procs p (.writing 0) }
      | .exc e l => release s p (.done (.exc e l 1)) .none
    | .writing k =>
      match c.f with
      | .ret v l =>
        let d := entryBytes c p v l
        if h : k < d.length then { s with file := writeByte k d[k] s.file, procs := setProc s.procs p (.writing (k+1)) }
        else release s p (.done (.ret v l 1)) .none
      | .exc _ _ => s
    | _ => s
  | .kill p =>
    match s.procs p with
    | .idle => { s with procs := setProc s.procs p .dead }
    | .locked => release s p .dead (.kill 0)
    | .computing => release s p .dead (.kill 0)
    | .writing k => release s p .dead (.kill k)
    | _ => s

def initC (file : Bytes) : CState V L E := ⟨file, fun _ => .idle, none, 0, []⟩

def runPar (c : Cfg V L E) (useLock : Bool) (sched : List Act) (s : CState V L E) : CState V L E :=
  sched.foldl (act c useLock) s

/-! ## specification predicates used by the theorems -/

/-- hypotheses about pickle on the entry this function writes (validated on the real pickle by the harness) -/
structure Hyps (c : Cfg V L E) : Prop where
  /-- the empty file raises a caught error (EOFError) -/
  h0 : ∃ e, c.pk.load [] = .error e ∧ c.caught e = true
  /-- (H1) a complete entry followed by anything loads the entry -/
  h1 : ∀ v l n r, c.f = .ret v l → c.pk.load (entryBytes c n v l ++ r) = .ok (.entry v l)
  /-- (H2) every proper prefix of an entry raises an exception of the caught tuple -/
  h2 : ∀ v l n p, c.f = .ret v l → p <+: entryBytes c n v l → p ≠ entryBytes c n v l →
        ∃ e, c.pk.load p = .error e ∧ c.caught e = true
  /-- (H3) the dump is deterministic -/
  h3 : ∀ v l n m, c.f = .ret v l → entryBytes c n v l = entryBytes c m v l

/-- the file is a prefix of the entry, or the entry followed by a tail; empty if `func` raises -/
def Good (c : Cfg V L E) (file : Bytes) : Prop :=
  match c.f with
  | .ret v l => file <+: entryBytes c 0 v l ∨ entryBytes c 0 v l <+: file
  | .exc _ _ => file = []

/-- the last `n` elements -/
def lastN (n : Nat) (l : List V) : List V := l.drop (l.length - n)

/-- the first `i` steps of the uncached sequence are all items -/
def Live (c : RecCfg V L E) (i : Nat) : Prop := ∀ m, m < i → ∃ v l, c.resume [] 0 m = .item v l

/-- what item file `i` holds once complete -/
def storedAt (c : RecCfg V L E) (i : Nat) : Option (Stored V L) :=
  match c.resume [] 0 i with
  | .item v l => some (.item l v)
  | .stop l => some (.stop l)
  | .exc _ _ => none

structure RHyps (c : RecCfg V L E) : Prop where
  h0 : ∃ e, c.pk.load [] = .error e ∧ c.caught e = true
  h1 : ∀ i s n r, Live c i → storedAt c i = some s → c.pk.load (c.pk.dump n s ++ r) = .ok s
  h2 : ∀ i s n p, Live c i → storedAt c i = some s → p <+: c.pk.dump n s → p ≠ c.pk.dump n s →
        ∃ e, c.pk.load p = .error e ∧ c.caught e = true
  h3 : ∀ s n m, c.pk.dump n s = c.pk.dump m s
  /-- the documented contract of `resume`: resuming from the last `length` items continues the same sequence -/
  consistent : ∀ i j, Live c i → c.resume (lastN c.length (specVals c i)) i j = c.resume [] 0 (i + j)

/-- every item file is a prefix of the pickle of the corresponding item of the uncached sequence; files past the
end of the sequence are empty -/
def Inv (c : RecCfg V L E) (fs : Files) : Prop :=
  ∀ i, (Live c i → ∀ s, storedAt c i = some s → fs i <+: c.pk.dump 0 s) ∧
       ((¬ Live c i ∨ storedAt c i = none) → fs i = [])

def RunOut.obs (r : RunOut V L E) : List (V × L) × End E × Option L := (r.items, r.fin, r.finLog)

/-- the sequential file content that the ghost history of `s` produces -/
def base (c : Cfg V L E) (file0 : Bytes) (s : CState V L E) : Bytes := fileAfter c (s.hist.map (·.2)) file0

/-! ## an idealised pickle given by a table (used by the driver, and to show the hypotheses are satisfiable) -/

def isPrefix : Bytes → Bytes → Bool
  | [], _ => true
  | _ :: _, [] => false
  | a :: p, b :: l => a == b && isPrefix p l

/-- `load` defined by a table of complete pickles: a file that starts with a complete pickle loads it
(H1), a proper prefix of a complete pickle raises EOFError (H2), anything else is outside the idealisation
(`other`) -/
def tableLoad {α : Type} : List (Bytes × α) → Bytes → Except LoadErr α
  | [], file => if file.isEmpty then .error .eof else .error .other   -- H0: the empty file raises EOFError
  | (d, x) :: t, file =>
    if isPrefix d file then .ok x
    else match tableLoad t file with
      | .ok y => .ok y
      | .error e => if isPrefix file d then .error .eof else .error e

end NutilsVerif.C18
