import NutilsVerif.Model.C11Norm
/-!
# C11 — specification side: well-formed transform sequences (no Mathlib)
-/
namespace NutilsVerif.C11

/-- a derived (child or edge) transform fits between the parent sequence (`pfd`) and the derived sequence (`fd`) -/
def DerivedItemOK (G : Item → Prop) (pfd fd : Nat) (it : Item) : Prop :=
  G it ∧ it.td = pfd ∧ it.fd = fd ∧ (fd = pfd → it.isUp = false) ∧ (fd ≠ pfd → it.isUp = true)

/-- Well-formed nestings of transform sequences (what the constructors of the source require, plus the contract
"no transform starts with another transform of the same sequence" in the form needed for chained sequences:
the first operand rejects every extended chain of the second). -/
def TSeq.WF (G : Item → Prop) (key : Item → Nat) : TSeq → Prop
  | .empty _ _ => True
  | .plain _ _ _ => False
  | .index _ _ _ => True
  | .structured _ _ _ => False
  | .masked p idx => p.WF G key ∧ idx.Pairwise (· < ·) ∧ ∀ i ∈ idx, i < p.len
  | .reordered p idx => p.WF G key ∧ idx.Nodup ∧ (∀ i ∈ idx, i < p.len) ∧ idx.length = p.len
  | .derived p dts fd => p.WF G key ∧ dts.length = p.len ∧ ∀ d ∈ dts, d.Nodup ∧ ∀ it ∈ d, DerivedItemOK G p.fd fd it
  | .uniform p dts fd => p.WF G key ∧ dts.Nodup ∧ ∀ it ∈ dts, DerivedItemOK G p.fd fd it
  | .chain a b => a.WF G key ∧ b.WF G key ∧ a.fd = b.fd ∧
      ∀ j ch, b.get j = some ch → ∀ t fdt, GFits G t b.fd fdt → a.iwt key (ch ++ t) = .error .value

end NutilsVerif.C11

namespace NutilsVerif.C11

/-- the items of simplex meshes (line, triangle, tetrahedron): children, edges, and the identities / index roots -/
def SimplexItem : Item → Prop
  | .sq (.simplexChild n k) => n ≤ 3 ∧ k < 2^n
  | .sq (.identity _) => True
  | .sq (.index _ _) => True
  | .up (.simplexEdge n k _) => 1 ≤ n ∧ n ≤ 3 ∧ k ≤ n
  | _ => False

end NutilsVerif.C11
