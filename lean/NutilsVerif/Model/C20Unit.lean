import NutilsVerif.Model.C20
/-!
# C20 — executable model of `nutils/unit.py` (`create`, `_Units`, `_Quantity`, `_Bound`)

Values are exact rationals, powers are integers.  Only strings over letters, digits and `. + - * /` are
modelled (the harness generates no others), so `float()` / `int()` are the plain decimal grammars.
-/
namespace NutilsVerif.C20.Unit
open NutilsVerif.C20

/-- `_Quantity`: value and a dict of non-zero integer powers (kept sorted by name) -/
structure UQ where
  val : Rat
  pows : List (String × Int)
  deriving Repr, DecidableEq

inductive UErr | value | zeroDiv | recursion | range
  deriving DecidableEq, Repr

/-- the character class of `_words = re.compile('([a-zA-Zα-ωΑ-Ω]+)')` -/
def isWordChar (c : Char) : Bool :=
  ('a' ≤ c && c ≤ 'z') || ('A' ≤ c && c ≤ 'Z') || ('α' ≤ c && c ≤ 'ω') || ('Α' ≤ c && c ≤ 'Ω')

/-- `_words.split(s)`: non-word, word, non-word, …, non-word (odd length) -/
def tokenize : (fuel : Nat) → List Char → List (List Char)
  | 0, s => [s]
  | fuel + 1, s =>
    let sep := s.takeWhile (fun c => !isWordChar c)
    let rest := s.dropWhile (fun c => !isWordChar c)
    match rest with
    | [] => [sep]
    | _ =>
      let w := rest.takeWhile isWordChar
      sep :: w :: tokenize fuel (rest.dropWhile isWordChar)

/-- `_words.findall(s)` -/
def words (s : List Char) : List (List Char) :=
  ((tokenize (s.length + 1) s).zipIdx.filter fun x => x.2 % 2 = 1).map (·.1)

def rstripOps (s : List Char) : List Char := (s.reverse.dropWhile fun c => c = '*' || c = '/').reverse

/-- Python `int()` on `[sign] digits` -/
def readInt (s : List Char) : Option Int :=
  let (neg, body) := match s with
    | '-' :: t => (true, t)
    | '+' :: t => (false, t)
    | t => (false, t)
  if body = [] ∨ !body.all Char.isDigit then none
  else
    let n : Int := (Nat.ofDigitChars 10 body 0 : Nat)
    some (if neg then -n else n)

/-- insert/accumulate a power, dropping zeros (what `__imul__` does per key) -/
def addPow (k : String) (v : Int) : List (String × Int) → List (String × Int)
  | [] => if v = 0 then [] else [(k, v)]
  | (b, p) :: t =>
    if k < b then (if v = 0 then (b, p) :: t else (k, v) :: (b, p) :: t)
    else if k = b then (if p + v = 0 then t else (b, p + v) :: t)
    else (b, p) :: addPow k v t

/-- `_Quantity.__imul__` -/
def qmul (a b : UQ) : UQ :=
  { val := a.val * b.val, pows := b.pows.foldl (fun acc e => addPow e.1 e.2 acc) a.pows }

/-- `_Quantity.__pow__` for an `int` -/
def qpow (q : UQ) (n : Int) : Except UErr UQ :=
  if n = 1 then .ok q
  else if n = 0 then .ok { val := 1, pows := [] }
  else if n.natAbs > 4096 then .error .range
  else if q.val = 0 ∧ n < 0 then .error .zeroDiv
  else .ok { val := q.val ^ n, pows := q.pows.map fun e => (e.1, e.2 * n) }

abbrev QTable := List (List Char × UQ)

def qlookup (Q : QTable) (n : List Char) : Option UQ := (Q.find? (·.1 = n)).map (·.2)

/-- the loop of `_Units.parse` over the token list `[sep₀, w₁, sep₁, w₂, sep₂, …]` -/
def parseLoop (Q : QTable) : UQ → List Char → List (List Char) → Except UErr UQ
  | q, _, [] => .ok q
  | q, _, [_] => .ok q          -- cannot happen: words and separators alternate
  | q, prev, w :: nxt :: rest => do
    let t := rstripOps nxt
    let s0 ← match (if t = [] then some 1 else readInt t) with
      | some n => pure n
      | none => throw .value
    let s : Int := if prev.getLast? = some '/' then -s0 else s0
    let step (q : UQ) (name : List Char) : Except UErr UQ :=
      match qlookup Q name with
      | some u => do let p ← qpow u s; pure (qmul q p)
      | none => throw .value
    if (qlookup Q w).isSome then do
      let q' ← step q w
      parseLoop Q q' nxt rest
    else
      match w with
      | [] => throw .value
      | c :: name =>
        match (prefixes.find? (·.1 = [c])), qlookup Q name with
        | some pf, some _ => do
          if s.natAbs > 4096 then throw .range
          if pf.2 = 0 ∧ s < 0 then throw .zeroDiv
          let q1 := qmul q { val := pf.2 ^ s, pows := [] }
          let q' ← step q1 name
          parseLoop Q q' nxt rest
        | _, _ => throw .value

/-- `_Units.parse(s)` -/
def parse (Q : QTable) (s : List Char) : Except UErr UQ :=
  match tokenize (s.length + 1) s with
  | [] => .error .value
  | p0 :: rest =>
    let t := rstripOps p0
    match (if t = [] then some 1 else readNum t) with
    | none => .error .value
    | some v => parseLoop Q { val := v, pows := [] } p0 rest

/-- a unit definition: a number or a string -/
inductive Def | num (v : Rat) | str (s : List Char)
  deriving Repr

abbrev Defs := List (List Char × Def)

def dlookup (D : Defs) (n : List Char) : Option Def := (D.find? (·.1 = n)).map (·.2)

/-- `depth` in `_Units.__init__` (without the memo; `none` = unbounded recursion on cyclic definitions) -/
def depth (D : Defs) : (fuel : Nat) → List Char → Option Nat
  | 0, _ => none
  | fuel + 1, name =>
    let name := if (dlookup D name).isSome then name else name.drop 1
    match dlookup D name with
    | some (.str s) => (words s).foldl (fun acc w => do let a ← acc; let d ← depth D fuel w; pure (a + d)) (some 1)
    | _ => some 0

/-- stable insertion sort by key (Python's `sorted(..., key=depth)`) -/
def insertBy (k : Nat) (x : List Char × Def) : List (Nat × (List Char × Def)) → List (Nat × (List Char × Def))
  | [] => [(k, x)]
  | (k', y) :: t => if k < k' then (k, x) :: (k', y) :: t else (k', y) :: insertBy k x t

/-- `_Units.__init__(units)` -/
def build (D : Defs) : Except UErr QTable := do
  let keyed ← D.mapM fun d => match depth D (D.length + 2) d.1 with
    | some k => pure (k, d)
    | none => throw UErr.recursion
  let sorted := keyed.foldl (fun acc kd => insertBy kd.1 kd.2 acc) []
  sorted.foldlM (fun (Q : QTable) kd =>
    match kd.2.2 with
    | .num v => pure (Q ++ [(kd.2.1, { val := v, pows := [(String.ofList kd.2.1, 1)] })])
    | .str s => do let q ← parse Q s; pure (Q ++ [(kd.2.1, q)])) []

/-- `_Bound.__stringly_loads__`: the value of `s`, provided it has the powers of the bound unit -/
def loads (Q : QTable) (unit s : List Char) : Except UErr Rat := do
  let q ← parse Q s
  let u ← parse Q unit
  if q.pows = u.pows then pure q.val else throw .value

/-- `_Unbound.__call__`: the unit is what remains after `s.lstrip('1234567890.*')` -/
def unboundUnit (s : List Char) : List Char := s.dropWhile fun c => c.isDigit || c = '.' || c = '*'

end NutilsVerif.C20.Unit
