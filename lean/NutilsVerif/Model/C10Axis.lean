/-!
# C10 — axis arithmetic of structured topologies (`nutils.transformseq.Axis / DimAxis / IntAxis`)

An axis enumerates the cells `i, i+1, …, j-1` of one direction of a structured topology; `mod ≠ 0` is the number of
cells of a full period of that direction at the current level (kept by slices of a periodic direction), and
`map e = (i + e) % mod` is the cell index of element `e`.  A `DimAxis` is a direction of the topology itself, an
`IntAxis` a direction that has been reduced to a boundary / interface layer on the `side` of its cells.

The model mirrors the constructors the code uses: `refined`, `getitem` (slice), `boundaries`, `intaxis`, `opposite`.
Python's `%` with a positive modulus is `Int.emod`.  No Mathlib.
-/
namespace NutilsVerif.C10

structure Axis where
  i : Int
  j : Int
  mod : Nat
  isdim : Bool
  /-- `isperiodic` of a `DimAxis`, `side` of an `IntAxis` -/
  flag : Bool
  deriving Repr, DecidableEq

namespace Axis

def len (a : Axis) : Int := a.j - a.i

/-- `Axis.map` -/
def map (a : Axis) (e : Int) : Int :=
  if a.mod = 0 then a.i + e else (a.i + e) % (a.mod : Int)

def sideInt (a : Axis) : Int := if a.flag then 1 else 0

/-- `DimAxis.refined` / `IntAxis.refined` -/
def refined (a : Axis) : Axis :=
  if a.isdim then { a with i := 2 * a.i, j := 2 * a.j, mod := 2 * a.mod }
  else { a with i := 2 * a.i + a.sideInt, j := 2 * a.j + a.sideInt - 1, mod := 2 * a.mod }

/-- `DimAxis.getitem(slice(start, stop))` with `0 ≤ start < stop ≤ len` (already normalised by `slice.indices`) -/
def getitem (a : Axis) (start stop : Int) : Axis :=
  { a with i := a.i + start, j := a.i + stop, flag := false }

/-- `DimAxis.boundaries`: the two end layers of a non-periodic direction -/
def boundaries (a : Axis) : List Axis :=
  if a.flag then [] else
    [{ i := a.i, j := a.i + 1, mod := a.mod, isdim := false, flag := false },
     { i := a.j - 1, j := a.j, mod := a.mod, isdim := false, flag := true }]

/-- `DimAxis.intaxis(side)`: the interface layers of a direction, seen from the cell on `side` -/
def intaxis (a : Axis) (side : Bool) : Axis :=
  { i := a.i - (if side then 1 else 0) + 1 - (if a.flag then 1 else 0), j := a.j - (if side then 1 else 0), mod := a.mod,
    isdim := false, flag := side }

/-- `IntAxis.opposite` (for its own boundary number) -/
def opposite (a : Axis) : Axis :=
  { a with i := a.i + 2 * a.sideInt - 1, j := a.j + 2 * a.sideInt - 1, flag := !a.flag }

end Axis

inductive AxisOp where
  | refined
  | getitem (start stop : Int)
  | boundary (k : Nat)
  | intaxis (side : Bool)
  | opposite
  deriving Repr

/-- one operation; operations the code does not offer for the kind of axis (or that the harness never issues) are errors -/
def axisStep (a : Axis) : AxisOp → Except String Axis
  | .refined => .ok a.refined
  | .getitem s t => if a.isdim && decide (0 ≤ s) && decide (s < t) && decide (t ≤ a.len) then .ok (a.getitem s t) else .error "getitem"
  | .boundary k => if a.isdim then (match a.boundaries[k]? with | some b => .ok b | none => .error "boundary") else .error "boundary"
  | .intaxis s => if a.isdim then .ok (a.intaxis s) else .error "intaxis"
  | .opposite => if a.isdim then .error "opposite" else .ok a.opposite

def axisRun (a : Axis) : List AxisOp → Except String Axis
  | [] => .ok a
  | op :: ops => match axisStep a op with
    | .ok b => axisRun b ops
    | .error e => .error e

/-- all cell indices of an axis, in element order -/
def Axis.cells (a : Axis) : List Int := (List.range a.len.toNat).map fun (e : Nat) => a.map (e : Int)

end NutilsVerif.C10
