import NutilsVerif.Model.C17.Sha1
/-!
# C17 — structural identity and hashing  (model; no Mathlib)

Mirrors `nutils.types.nutils_hash` (src/nutils/types.py:74-150) branch by branch, together with the
`__nutils_hash__` implementations of `Immutable`, `DataClass`, `frozendict`, `frozenmultiset`
(types.py:236, 362, 447, 531).  The hash function is a parameter `H : Bytes → Bytes`; the driver
instantiates it with the executable `sha1` of `Model/C17/Sha1.lean`.

A Python value is a `Value`.  Three constructors are *not* Python objects but pieces of a
preimage that are fed to the parent without being hashed on their own:
`pair k v` (a `dict` / `frozendict` item, contributes `nutils_hash(k)+nutils_hash(v)`),
`counted n v` (a `frozenmultiset` item, contributes `'{:04d}'.format(n).encode()+nutils_hash(v)`) and
`npscalar kind v` (a NumPy scalar of dtype kind `kind`, which line 98-102 replaces by the Python
scalar `v` before anything else happens).
-/
namespace NutilsVerif.C17

def utf8 (s : String) : Bytes := s.toByteArray.data.toList

inductive Value where
  | none
  | ellipsis
  | bool (b : Bool)
  | int (i : Int)
  | float (repr : Bytes)      -- `repr(data).encode()`, supplied by the harness (Python float repr is not modelled)
  | complex (repr : Bytes)
  | str (s : Bytes)           -- `data.encode()`
  | bytes (b : Bytes)
  | type (name : Bytes)       -- a class whose metaclass is exactly `type`: `data.__name__.encode()`
  | tuple (xs : List Value)
  | list (xs : List Value)
  | dict (items : List Value)             -- items are `pair`s
  | set (xs : List Value)
  | frozenset (xs : List Value)
  | bufio (tname : Bytes) (pos : Nat) (content : Bytes)   -- seekable `io.BufferedIOBase`
  | method (self name : Value)            -- `types.MethodType`; `name` is the `str` `data.__name__`
  | ndarray (shape : List Nat) (dtype : Bytes) (data : Bytes)   -- `dtype.str`, `tobytes()`
  | dataclass (tname : Bytes) (fields : List Value)   -- stdlib dataclass; fields are `tuple [str name, value]`
  | newargs (tname : Bytes) (args : List Value)       -- any other object with `__getnewargs__` (e.g. namedtuple)
  | immutable (modqual : Bytes) (version : Int) (args : List Value)   -- `types.Immutable._args`
  | dclass (modqual : Bytes) (args : List Value)                      -- `types.DataClass`, fields in signature order
  | frozendict (modqual : Bytes) (items : List Value)                 -- items are `pair`s
  | frozenmultiset (modqual : Bytes) (items : List Value)             -- items are `counted`
  | opaque (pre : Bytes)      -- object whose `__nutils_hash__` is `sha1(pre)` of an untagged string (`_util.function`)
  | pair (k v : Value)
  | counted (n : Nat) (v : Value)
  | npscalar (kind : UInt8) (v : Value)
  | unsupported (tname : Bytes)           -- anything else: `TypeError('unhashable type')`
deriving Repr, Inhabited

/-! ## byte-string order and `sorted` -/

/-- Python's order on `bytes`: lexicographic on unsigned bytes, a proper prefix is smaller -/
def bytesLe : Bytes → Bytes → Bool
  | [], _ => true
  | _ :: _, [] => false
  | a :: as, b :: bs => decide (a.toNat < b.toNat) || (decide (a.toNat = b.toNat) && bytesLe as bs)

def sortB (l : List Bytes) : List Bytes := l.mergeSort bytesLe

/-! ## type tags -/

def T (s : String) : Bytes := utf8 s

/-- `'{:04d}'.format(count).encode()` -/
def fmt4 (n : Nat) : Bytes :=
  if n < 10000 then
    [UInt8.ofNat (48 + n / 1000 % 10), UInt8.ofNat (48 + n / 100 % 10), UInt8.ofNat (48 + n / 10 % 10), UInt8.ofNat (48 + n % 10)]
  else utf8 (Nat.repr n)

/-- `','.join(map(str, data.shape))` -/
def shapeStr : List Nat → Bytes
  | [] => []
  | [n] => utf8 (Nat.repr n)
  | n :: t => utf8 (Nat.repr n) ++ T "," ++ shapeStr t

/-- `'{}{}'.format(','.join(map(str, data.shape)), data.dtype.str)` -/
def header (shape : List Nat) (dtype : Bytes) : Bytes := shapeStr shape ++ dtype

/-- `'{}.{}:{}'.format(module, qualname, version)`; `modqual` is `module.qualname` -/
def immTag (modqual : Bytes) (version : Int) : Bytes := modqual ++ T ":" ++ utf8 (Int.repr version)

/-- the tag that precedes the NUL byte in the preimage (for values that have one) -/
def tagB : Value → Bytes
  | .none => T "NoneType"
  | .ellipsis => T "ellipsis"
  | .bool _ => T "bool"
  | .int _ => T "int"
  | .float _ => T "float"
  | .complex _ => T "complex"
  | .str _ => T "str"
  | .bytes _ => T "bytes"
  | .type _ => T "type"
  | .tuple _ => T "tuple"
  | .list _ => T "list"
  | .dict _ => T "dict"
  | .set _ => T "set"
  | .frozenset _ => T "frozenset"
  | .bufio t _ _ => t
  | .method _ _ => T "method"
  | .ndarray _ _ _ => T "ndarray"
  | .dataclass t _ => t
  | .newargs t _ => t
  | .immutable mq ver _ => immTag mq ver
  | .dclass mq _ => mq
  | .frozendict mq _ => mq
  | .frozenmultiset mq _ => mq
  | _ => []

/-- how a value contributes to the preimage of its parent -/
inductive Shape | tagged | opaque | raw
deriving DecidableEq, Repr

def shape : Value → Shape
  | .opaque _ => .opaque
  | .pair _ _ | .counted _ _ | .npscalar _ _ | .unsupported _ => .raw
  | _ => .tagged

/-- the bytes a value contributes to its parent, given its `body` -/
def emit1 (H : Bytes → Bytes) (v : Value) (body : Bytes) : Bytes :=
  match shape v with
  | .tagged => H (tagB v ++ 0 :: body)
  | .opaque => H body
  | .raw => body

/-- payload of the scalar-like branches, hashed once before it is fed (`h.update(sha1(...).digest())`) -/
def leaf : Value → Option Bytes
  | .bool b => some (if b then T "True" else T "False")
  | .int i => some (utf8 (Int.repr i))
  | .float r => some r
  | .complex r => some r
  | .str s => some s
  | .bytes b => some b
  | .type n => some n
  | _ => none

mutual
/-- what follows `tag\0` in the preimage (for `raw` shapes: the contribution itself) -/
def body (H : Bytes → Bytes) : Value → Bytes
  | .none => []
  | .ellipsis => []
  | .bool b => H (if b then T "True" else T "False")
  | .int i => H (utf8 (Int.repr i))
  | .float r => H r
  | .complex r => H r
  | .str s => H s
  | .bytes b => H b
  | .type n => H n
  | .tuple xs => (emitL H xs).flatten
  | .list xs => (emitL H xs).flatten
  | .dict items => (sortB (emitL H items)).flatten
  | .set xs => (sortB (emitL H xs)).flatten
  | .frozenset xs => (sortB (emitL H xs)).flatten
  | .bufio _ pos content => utf8 (Nat.repr pos) ++ content
  | .method self name => emit1 H self (body H self) ++ emit1 H name (body H name)
  | .ndarray sh dt data => header sh dt ++ 0 :: data
  | .dataclass _ fields => (sortB (emitL H fields)).flatten
  | .newargs _ args => (emitL H args).flatten
  | .immutable _ _ args => (emitL H args).flatten
  | .dclass _ args => (emitL H args).flatten
  | .frozendict _ items => (sortB (emitL H items)).flatten
  | .frozenmultiset _ items => (sortB (emitL H items)).flatten
  | .opaque p => p
  | .pair k v => emit1 H k (body H k) ++ emit1 H v (body H v)
  | .counted n v => fmt4 n ++ emit1 H v (body H v)
  | .npscalar _ v => emit1 H v (body H v)
  | .unsupported _ => []
def emitL (H : Bytes → Bytes) : List Value → List Bytes
  | [] => []
  | x :: xs => emit1 H x (body H x) :: emitL H xs
end

def emit (H : Bytes → Bytes) (v : Value) : Bytes := emit1 H v (body H v)

/-- the byte string fed to the outer hash for a Python object -/
def pre (H : Bytes → Bytes) (v : Value) : Bytes :=
  match shape v with
  | .tagged => tagB v ++ 0 :: body H v
  | _ => body H v

/-- `nutils_hash(v)` with `H` in the role of SHA-1 -/
def nhash (H : Bytes → Bytes) (v : Value) : Bytes := emit H v

mutual
/-- every byte string that is passed to `H` while computing `emit H v` -/
def fed (H : Bytes → Bytes) : Value → List Bytes
  | .tuple xs => pre H (.tuple xs) :: fedL H xs
  | .list xs => pre H (.list xs) :: fedL H xs
  | .dict xs => pre H (.dict xs) :: fedL H xs
  | .set xs => pre H (.set xs) :: fedL H xs
  | .frozenset xs => pre H (.frozenset xs) :: fedL H xs
  | .method s n => pre H (.method s n) :: (fed H s ++ fed H n)
  | .dataclass t xs => pre H (.dataclass t xs) :: fedL H xs
  | .newargs t xs => pre H (.newargs t xs) :: fedL H xs
  | .immutable m i xs => pre H (.immutable m i xs) :: fedL H xs
  | .dclass m xs => pre H (.dclass m xs) :: fedL H xs
  | .frozendict m xs => pre H (.frozendict m xs) :: fedL H xs
  | .frozenmultiset m xs => pre H (.frozenmultiset m xs) :: fedL H xs
  | .pair k v => fed H k ++ fed H v
  | .counted _ v => fed H v
  | .npscalar _ v => fed H v
  | .unsupported _ => []
  | v => pre H v :: (leaf v).toList
def fedL (H : Bytes → Bytes) : List Value → List Bytes
  | [] => []
  | x :: xs => fed H x ++ fedL H xs
end

/-! ## NumPy scalar normalisation (types.py:98-102) and error branches -/

mutual
/-- replace every NumPy scalar by the Python scalar it is converted to -/
def norm : Value → Value
  | .tuple xs => .tuple (normL xs)
  | .list xs => .list (normL xs)
  | .dict xs => .dict (normL xs)
  | .set xs => .set (normL xs)
  | .frozenset xs => .frozenset (normL xs)
  | .method s n => .method (norm s) (norm n)
  | .dataclass t xs => .dataclass t (normL xs)
  | .newargs t xs => .newargs t (normL xs)
  | .immutable m i xs => .immutable m i (normL xs)
  | .dclass m xs => .dclass m (normL xs)
  | .frozendict m xs => .frozendict m (normL xs)
  | .frozenmultiset m xs => .frozenmultiset m (normL xs)
  | .pair k v => .pair (norm k) (norm v)
  | .counted n v => .counted n (norm v)
  | .npscalar _ v => norm v
  | v => v
def normL : List Value → List Value
  | [] => []
  | x :: xs => norm x :: normL xs
end

inductive HashErr | typeError | keyError
deriving DecidableEq, Repr

def firstErr : List (Option HashErr) → Option HashErr
  | [] => .none
  | some e :: _ => some e
  | .none :: t => firstErr t

mutual
/-- the exception `nutils_hash` raises, if any (children are visited left to right) -/
def check : Value → Option HashErr
  | .tuple xs => checkL xs
  | .list xs => checkL xs
  | .dict xs => checkL xs
  | .set xs => checkL xs
  | .frozenset xs => checkL xs
  | .method s n => (check s).or (check n)
  | .dataclass _ xs => checkL xs
  | .newargs _ xs => checkL xs
  | .immutable _ _ xs => checkL xs
  | .dclass _ xs => checkL xs
  | .frozendict _ xs => checkL xs
  | .frozenmultiset _ xs => checkL xs
  | .pair k v => (check k).or (check v)
  | .counted _ v => check v
  | .npscalar k v =>
    -- `dict(b=bool, i=int, f=float, c=complex)[data.dtype.kind]`
    if k = 98 ∨ k = 105 ∨ k = 102 ∨ k = 99 then check v else some .keyError
  | .unsupported _ => some .typeError
  | _ => .none
def checkL : List Value → Option HashErr
  | [] => .none
  | x :: xs => (check x).or (checkL xs)
end

/-! ## well-formedness, and the class-name registry -/

inductive Role | obj | pair | counted
deriving DecidableEq, Repr

def noNul (b : Bytes) : Bool := !b.contains 0

mutual
/-- `wf .obj v`: `v` is a Python object in the supported domain: containers hold objects, `dict`s hold
pairs, multisets hold counted items with multiplicity below 10000 (the width of `'{:04d}'`), class and
module names contain no NUL, no NumPy scalars are left (apply `norm` first), nothing is unsupported. -/
def wf : Role → Value → Bool
  | .obj, .none => true
  | .obj, .ellipsis => true
  | .obj, .bool _ => true
  | .obj, .int _ => true
  | .obj, .float _ => true
  | .obj, .complex _ => true
  | .obj, .str _ => true
  | .obj, .bytes _ => true
  | .obj, .type _ => true
  | .obj, .tuple xs => wfL .obj xs
  | .obj, .list xs => wfL .obj xs
  | .obj, .dict xs => wfL .pair xs
  | .obj, .set xs => wfL .obj xs
  | .obj, .frozenset xs => wfL .obj xs
  | .obj, .bufio t _ _ => noNul t
  | .obj, .method s n => wf .obj s && wf .obj n
  | .obj, .ndarray sh dt _ => noNul (header sh dt)
  | .obj, .dataclass t xs => noNul t && wfL .obj xs
  | .obj, .newargs t xs => noNul t && wfL .obj xs
  | .obj, .immutable m i xs => noNul (immTag m i) && wfL .obj xs
  | .obj, .dclass m xs => noNul m && wfL .obj xs
  | .obj, .frozendict m xs => noNul m && wfL .pair xs
  | .obj, .frozenmultiset m xs => noNul m && wfL .counted xs
  | .obj, .opaque p => noNul p
  | .pair, .pair k v => wf .obj k && wf .obj v
  | .counted, .counted n v => decide (n < 10000) && wf .obj v
  | _, _ => false
def wfL : Role → List Value → Bool
  | _, [] => true
  | r, x :: xs => wf r x && wfL r xs
end

/-- one per hashing branch / class family -/
inductive Kind
  | none | ellipsis | bool | int | float | complex | str | bytes | type | tuple | list | dict | set | frozenset
  | bufio | method | ndarray | dataclass | newargs | immutable | dclass | frozendict | frozenmultiset
deriving DecidableEq, Repr

def kind : Value → Option Kind
  | .none => some .none
  | .ellipsis => some .ellipsis
  | .bool _ => some .bool
  | .int _ => some .int
  | .float _ => some .float
  | .complex _ => some .complex
  | .str _ => some .str
  | .bytes _ => some .bytes
  | .type _ => some .type
  | .tuple _ => some .tuple
  | .list _ => some .list
  | .dict _ => some .dict
  | .set _ => some .set
  | .frozenset _ => some .frozenset
  | .bufio _ _ _ => some .bufio
  | .method _ _ => some .method
  | .ndarray _ _ _ => some .ndarray
  | .dataclass _ _ => some .dataclass
  | .newargs _ _ => some .newargs
  | .immutable _ _ _ => some .immutable
  | .dclass _ _ => some .dclass
  | .frozendict _ _ => some .frozendict
  | .frozenmultiset _ _ => some .frozenmultiset
  | _ => .none

/-- a registry assigns to every tag at most one hashing branch: the *no name clash* discipline -/
abbrev Registry := Bytes → Option Kind

def regOK (reg : Registry) (v : Value) : Bool :=
  match kind v with
  | some k => reg (tagB v) == some k
  | .none => true

mutual
/-- every tagged node of `v` is filed in the registry under its own hashing branch -/
def respects (reg : Registry) : Value → Bool
  | .tuple xs => regOK reg (.tuple xs) && respectsL reg xs
  | .list xs => regOK reg (.list xs) && respectsL reg xs
  | .dict xs => regOK reg (.dict xs) && respectsL reg xs
  | .set xs => regOK reg (.set xs) && respectsL reg xs
  | .frozenset xs => regOK reg (.frozenset xs) && respectsL reg xs
  | .method s n => regOK reg (.method s n) && respects reg s && respects reg n
  | .dataclass t xs => regOK reg (.dataclass t xs) && respectsL reg xs
  | .newargs t xs => regOK reg (.newargs t xs) && respectsL reg xs
  | .immutable m i xs => regOK reg (.immutable m i xs) && respectsL reg xs
  | .dclass m xs => regOK reg (.dclass m xs) && respectsL reg xs
  | .frozendict m xs => regOK reg (.frozendict m xs) && respectsL reg xs
  | .frozenmultiset m xs => regOK reg (.frozenmultiset m xs) && respectsL reg xs
  | .pair k v => respects reg k && respects reg v
  | .counted _ v => respects reg v
  | .npscalar _ v => respects reg v
  | v => regOK reg v
def respectsL (reg : Registry) : List Value → Bool
  | [] => true
  | x :: xs => respects reg x && respectsL reg xs
end

/-- the registry that knows exactly the builtin tags -/
def builtinReg : Registry := fun t =>
  if t = T "NoneType" then some .none else if t = T "ellipsis" then some .ellipsis
  else if t = T "bool" then some .bool else if t = T "int" then some .int
  else if t = T "float" then some .float else if t = T "complex" then some .complex
  else if t = T "str" then some .str else if t = T "bytes" then some .bytes
  else if t = T "type" then some .type else if t = T "tuple" then some .tuple
  else if t = T "list" then some .list else if t = T "dict" then some .dict
  else if t = T "set" then some .set else if t = T "frozenset" then some .frozenset
  else if t = T "method" then some .method else if t = T "ndarray" then some .ndarray
  else .none

/-- extend a registry by user / nutils classes: `(tag, kind)` entries, first match wins, builtins first -/
def regOf (classes : List (Bytes × Kind)) : Registry := fun t =>
  match builtinReg t with
  | some k => some k
  | .none => (classes.find? (fun e => e.1 == t)).map (·.2)

/-! ## the intended identification `≈` -/

mutual
/-- `Equiv v w`: `v` and `w` are the same value up to the order of `dict` / `set` / `frozenset` /
stdlib-dataclass-field / `frozendict` / `frozenmultiset` items.  Three clauses are deliberately stated on the
*formatted* strings the code produces (`bufio`: `str(pos)+content`; `ndarray`: shape/dtype header;
`immutable`: `module.qualname:version`). -/
inductive Equiv : Value → Value → Prop
  | none : Equiv .none .none
  | ellipsis : Equiv .ellipsis .ellipsis
  | bool (b) : Equiv (.bool b) (.bool b)
  | int (i) : Equiv (.int i) (.int i)
  | float (r) : Equiv (.float r) (.float r)
  | complex (r) : Equiv (.complex r) (.complex r)
  | str (s) : Equiv (.str s) (.str s)
  | bytes (b) : Equiv (.bytes b) (.bytes b)
  | type (n) : Equiv (.type n) (.type n)
  | tuple {xs ys} : EquivL xs ys → Equiv (.tuple xs) (.tuple ys)
  | list {xs ys} : EquivL xs ys → Equiv (.list xs) (.list ys)
  | dict {xs ys ys'} : ys.Perm ys' → EquivL xs ys' → Equiv (.dict xs) (.dict ys)
  | set {xs ys ys'} : ys.Perm ys' → EquivL xs ys' → Equiv (.set xs) (.set ys)
  | frozenset {xs ys ys'} : ys.Perm ys' → EquivL xs ys' → Equiv (.frozenset xs) (.frozenset ys)
  | bufio (t) {p c p' c'} : utf8 (Nat.repr p) ++ c = utf8 (Nat.repr p') ++ c' → Equiv (.bufio t p c) (.bufio t p' c')
  | method {s n s' n'} : Equiv s s' → Equiv n n' → Equiv (.method s n) (.method s' n')
  | ndarray {sh dt sh' dt'} (d) : header sh dt = header sh' dt' → Equiv (.ndarray sh dt d) (.ndarray sh' dt' d)
  | dataclass (t) {xs ys ys'} : ys.Perm ys' → EquivL xs ys' → Equiv (.dataclass t xs) (.dataclass t ys)
  | newargs (t) {xs ys} : EquivL xs ys → Equiv (.newargs t xs) (.newargs t ys)
  | immutable {m i m' i' xs ys} : immTag m i = immTag m' i' → EquivL xs ys → Equiv (.immutable m i xs) (.immutable m' i' ys)
  | dclass (m) {xs ys} : EquivL xs ys → Equiv (.dclass m xs) (.dclass m ys)
  | frozendict (m) {xs ys ys'} : ys.Perm ys' → EquivL xs ys' → Equiv (.frozendict m xs) (.frozendict m ys)
  | frozenmultiset (m) {xs ys ys'} : ys.Perm ys' → EquivL xs ys' → Equiv (.frozenmultiset m xs) (.frozenmultiset m ys)
  | opaque (p) : Equiv (.opaque p) (.opaque p)
  | pair {k v k' v'} : Equiv k k' → Equiv v v' → Equiv (.pair k v) (.pair k' v')
  | counted (n) {v v'} : Equiv v v' → Equiv (.counted n v) (.counted n v')
inductive EquivL : List Value → List Value → Prop
  | nil : EquivL [] []
  | cons {x y xs ys} : Equiv x y → EquivL xs ys → EquivL (x :: xs) (y :: ys)
end

/-- collision-freeness of `H` *between the byte strings actually fed to it* while hashing two values -/
def CollisionFree (H : Bytes → Bytes) (A B : List Bytes) : Prop :=
  ∀ a ∈ A, ∀ b ∈ B, H a = H b → a = b

/-! ## consumers -/

/-- `evaluable._Builder.add_constant`: the global is named `'c' + nutils_hash(value).hex()` -/
def constName (H : Bytes → Bytes) (v : Value) : String := "c" ++ hex (nhash H v)

/-- `cache.function` key (cache.py:179-197): `sha1(sha1('module.qualname:version'))` updated with the hashes of
the canonical positional arguments and the sorted `sha1(name)+nutils_hash(value)` of keyword arguments;
the result is the file name `hexdigest()` -/
def cacheKey (H : Bytes → Bytes) (funcId : Bytes) (args : List Value) (kwargs : List (Bytes × Value)) : Bytes :=
  H (H funcId ++ ((args.map (emit H)).flatten ++ (sortB (kwargs.map fun kv => H kv.1 ++ emit H kv.2)).flatten))

end NutilsVerif.C17
