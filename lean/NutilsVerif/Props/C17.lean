import NutilsVerif.Proofs.C17Main
import NutilsVerif.Proofs.C17Stable
import NutilsVerif.Proofs.C17Intern
import NutilsVerif.Proofs.C17Bind
import NutilsVerif.Proofs.C17Header
import NutilsVerif.Proofs.C17Kw
/-!
# C17 — structural identity and hashing are injective and stable: property theorems

All statements are about the executable model in `Model/C17.lean` (`nhash`, mirroring
`nutils.types.nutils_hash`) and `Model/C17/Intern.lean` (intern table, argument canonicalisation, canonical
integer array data).  The hash function `H` is a parameter; nothing is assumed about it except a fixed digest
length of 20 bytes and, for injectivity, collision-freeness *between the byte strings that are actually fed to it*
(a global injectivity hypothesis would be unsatisfiable).
-/
namespace NutilsVerif.C17

variable {H : Bytes → Bytes}

/-! ## injectivity: "values that can behave differently never share a nutils hash" -/

/-- **Flagship.** For all supported values `v w` (well-formed, class names filed consistently in one registry
= no two different hashing branches / classes share a tag): if `nutils_hash v = nutils_hash w` then either
`v ≈ w` (same value up to dict/set/multiset item order) or the fixed-length hash `H` has a collision among the
inputs fed to it (contrapositive of `CollisionFree`).  Clause: no collisions between different values. -/
theorem nhash_injective (hlen : ∀ b, (H b).length = 20) (reg : Registry) (v w : Value)
    (hv : wf .obj v = true) (hw : wf .obj w = true)
    (rv : respects reg v = true) (rw' : respects reg w = true)
    (cf : CollisionFree H (fed H v) (fed H w)) :
    nhash H v = nhash H w → Equiv v w :=
  inj_core hlen reg v w .obj hv hw rv rw' cf

/-- The same with NumPy scalars anywhere inside the values: they are identified with the Python scalars they
convert to (types.py:98-102), and with nothing else.  Clause: numpy scalar = python scalar normalisation. -/
theorem nhash_injective_numpy (hlen : ∀ b, (H b).length = 20) (reg : Registry) (v w : Value)
    (hv : wf .obj (norm v) = true) (hw : wf .obj (norm w) = true)
    (rv : respects reg (norm v) = true) (rw' : respects reg (norm w) = true)
    (cf : CollisionFree H (fed H (norm v)) (fed H (norm w))) :
    nhash H v = nhash H w → Equiv (norm v) (norm w) := by
  intro h
  apply nhash_injective hlen reg _ _ hv hw rv rw' cf
  simp only [nhash] at *
  rw [emit_norm, emit_norm, h]

/-- `evaluable._Builder.add_constant`: two constants get the same global name `c<hex>` only if they are `≈`. -/
theorem constName_injective (hlen : ∀ b, (H b).length = 20) (reg : Registry) (v w : Value)
    (hv : wf .obj v = true) (hw : wf .obj w = true)
    (rv : respects reg v = true) (rw' : respects reg w = true)
    (cf : CollisionFree H (fed H v) (fed H w)) :
    constName H v = constName H w → Equiv v w := by
  intro h
  apply nhash_injective hlen reg v w hv hw rv rw' cf
  have hd : ∀ i j : Fin 16, hexDigit i.val = hexDigit j.val → i = j := by decide
  have hinj : ∀ a b : Bytes, (a.flatMap fun x => [hexDigit (x.toNat / 16), hexDigit (x.toNat % 16)]) =
      (b.flatMap fun x => [hexDigit (x.toNat / 16), hexDigit (x.toNat % 16)]) → a = b := by
    intro a
    induction a with
    | nil =>
      intro b hb
      cases b with
      | nil => rfl
      | cons y b => simp at hb
    | cons x a ih =>
      intro b hb
      cases b with
      | nil => simp at hb
      | cons y b =>
        simp only [List.flatMap_cons, List.cons_append, List.nil_append, List.cons.injEq] at hb
        have hx := x.toNat_lt
        have hy := y.toNat_lt
        have h1 := hd ⟨x.toNat / 16, by omega⟩ ⟨y.toNat / 16, by omega⟩ hb.1
        have h2 := hd ⟨x.toNat % 16, by omega⟩ ⟨y.toNat % 16, by omega⟩ hb.2.1
        simp only [Fin.mk.injEq] at h1 h2
        have : x = y := UInt8.toNat_inj.mp (by omega)
        rw [this, ih b hb.2.2]
  unfold constName at h
  have h' := (String.append_right_inj "c").mp h
  exact hinj _ _ (String.ofList_inj.mp h')

/-- `v` and `w` can be filed in one registry: no tag is used by two different hashing branches
(builtin type vs same-named user class, stdlib dataclass vs namedtuple of the same name, ...) -/
def NoNameClash (v w : Value) : Prop := ∃ reg : Registry, respects reg v = true ∧ respects reg w = true

/-- the flagship in the form of DESIGN.md: `NoNameClash` instead of an explicit registry -/
theorem nhash_injective_noclash (hlen : ∀ b, (H b).length = 20) (v w : Value)
    (hv : wf .obj v = true) (hw : wf .obj w = true) (hc : NoNameClash v w)
    (cf : CollisionFree H (fed H v) (fed H w)) :
    nhash H v = nhash H w → Equiv v w := by
  obtain ⟨reg, rv, rw'⟩ := hc
  exact nhash_injective hlen reg v w hv hw rv rw' cf

/-- everything fed to `H` for a `cache.function` key without keyword-only arguments -/
def fedKey (H : Bytes → Bytes) (funcId : Bytes) (args : List Value) : List Bytes :=
  (H funcId ++ ((args.map (emit H)).flatten ++ (sortB []).flatten)) :: funcId :: fedL H args

/-- `cache.function` (cache.py:179-197): two calls are served from the same cache file only if they are calls of
the same `module.qualname:version` with `≈` canonical positional arguments (no separator is needed between the
function digest and the argument digests because all have length 20).  Stated for calls without keyword-only
arguments; with them the boundary between 20-byte argument digests and 40-byte keyword items additionally needs
equal positional arity, which a fixed signature provides. -/
theorem cacheKey_injective (hlen : ∀ b, (H b).length = 20) (reg : Registry) (f f' : Bytes) (args args' : List Value)
    (hv : wfL .obj args = true) (hw : wfL .obj args' = true)
    (rv : respectsL reg args = true) (rw' : respectsL reg args' = true)
    (cf : CollisionFree H (fedKey H f args) (fedKey H f' args')) :
    cacheKey H f args [] = cacheKey H f' args' [] → f = f' ∧ EquivL args args' := by
  intro h
  simp only [cacheKey, List.map_nil] at h
  have h1 := cf _ (by simp [fedKey]) _ (by simp [fedKey]) h
  have e : (sortB ([] : List Bytes)).flatten = [] := by simp [sortB]
  rw [e, List.append_nil, List.append_nil] at h1
  have h2 := List.append_inj h1 (by rw [hlen, hlen])
  refine ⟨cf f (by simp [fedKey]) f' (by simp [fedKey]) h2.1, ?_⟩
  refine seq_children hlen reg args args' (fun x _ => inj_core hlen reg x) hv hw rv rw' (cf.mono ?_ ?_) ?_
  · intro a ha; simp [fedKey, ha]
  · intro a ha; simp [fedKey, ha]
  · rw [emitL_eq_map, emitL_eq_map]; exact h2.2

/-- `≈` on arrays is equality of shape, dtype and data: the formatted header `'2,3<f8'` determines shape and
dtype, because `dtype.str` starts with a byte-order character (`dtypeOK`). -/
theorem equiv_ndarray_fields {sh sh' : List Nat} {dt dt' d d' : Bytes}
    (h : Equiv (.ndarray sh dt d) (.ndarray sh' dt' d')) (hd : dtypeOK dt = true) (hd' : dtypeOK dt' = true) :
    sh = sh' ∧ dt = dt' ∧ d = d' := by
  cases h with
  | ndarray _ hh => exact ⟨(header_inj hd hd' hh).1, (header_inj hd hd' hh).2, rfl⟩

/-- `≈` on `Immutable` instances is equality of class (module.qualname), version and `≈` of the arguments, when
qualified names contain no colon. -/
theorem equiv_immutable_fields {m m' : Bytes} {i i' : Int} {xs ys : List Value}
    (h : Equiv (.immutable m i xs) (.immutable m' i' ys)) (hm : (58 : UInt8) ∉ m) (hm' : (58 : UInt8) ∉ m') :
    m = m' ∧ i = i' ∧ EquivL xs ys := by
  cases h with
  | immutable ht hl => exact ⟨(immTag_inj hm hm' ht).1, (immTag_inj hm hm' ht).2, hl⟩

/-! ## stability: "a value has the same hash however it was built" -/

/-- `≈`-equal values have the same hash, for every `H` whatsoever.  Clause: dict / set / frozenset / dataclass
field / frozendict / frozenmultiset (= commutative operand) order independence, hence independence of
`PYTHONHASHSEED`, which only permutes set and dict iteration. -/
theorem nhash_respects_equiv (v w : Value) (h : Equiv v w) : nhash H v = nhash H w :=
  equiv_emit h

/-- iteration order of a `set` is irrelevant -/
theorem nhash_set_order (xs ys : List Value) (h : xs.Perm ys) : nhash H (.set xs) = nhash H (.set ys) := by
  simp only [nhash, emit, emit1, shape, tagB, body]
  rw [sortB_perm (l1 := emitL H xs) (l2 := emitL H ys) (by rw [emitL_eq_map, emitL_eq_map]; exact h.map _)]

/-- insertion order of a `dict` is irrelevant -/
theorem nhash_dict_order (xs ys : List Value) (h : xs.Perm ys) : nhash H (.dict xs) = nhash H (.dict ys) := by
  simp only [nhash, emit, emit1, shape, tagB, body]
  rw [sortB_perm (l1 := emitL H xs) (l2 := emitL H ys) (by rw [emitL_eq_map, emitL_eq_map]; exact h.map _)]

/-- operand order of a commutative operation (`Add`, `Multiply` keep their operands in a `frozenmultiset`) is
irrelevant -/
theorem nhash_multiset_order (m : Bytes) (xs ys : List Value) (h : xs.Perm ys) :
    nhash H (.frozenmultiset m xs) = nhash H (.frozenmultiset m ys) := by
  simp only [nhash, emit, emit1, shape, tagB, body]
  rw [sortB_perm (l1 := emitL H xs) (l2 := emitL H ys) (by rw [emitL_eq_map, emitL_eq_map]; exact h.map _)]

/-- a NumPy scalar hashes like the Python scalar it converts to -/
theorem nhash_numpy_scalar (k : UInt8) (v : Value) : nhash H (.npscalar k v) = nhash H v := by
  simp [nhash, emit, emit1, shape, body]

/-- NumPy scalars nested anywhere hash like their normal form -/
theorem nhash_norm (v : Value) : nhash H (norm v) = nhash H v := emit_norm v

/-- Keyword vs positional construction (`argument_canonicalizer`, `DataClassMeta.__call__`): passing the first
`pre` parameters positionally and any of the others by keyword, in any order, leaving out any parameter whose
default is the intended value, always binds to the same canonical positional argument list — which is all that
`__nutils_hash__`, `__eq__`, `__reduce__` and the intern tables look at. -/
theorem bind_route_independent {α : Type} (pre post : List (Param α × α)) (kw : List (String × α))
    (hn : ((pre ++ post).map (·.1.name)).Nodup) (c : Covers post kw) :
    bindGo ((pre ++ post).map (·.1)) (pre.map (·.2)) kw = .ok ((pre ++ post).map (·.2)) :=
  bind_positional_then_keywords pre post kw hn c

/-- Integer width of data wrapped in `arraydata`: the canonical bytes of an integer item do not depend on the
width (1, 2, 4, 8, ... bytes; `hlo`/`hhi` say the value fits the width) or signedness of the source dtype -/
theorem arraydata_width_independent (w : Nat) (x : Int) (hx : fits64 x = true)
    (hlo : -(256 ^ w : Nat) ≤ 2 * x) (hhi : 2 * x < (256 ^ w : Nat)) :
    canonInts true w [reprS w x] = some [encode64 x] := by
  simp [canonInts, decode_reprS w x hlo hhi, hx]

theorem arraydata_unsigned_width_independent (w : Nat) (x : Int) (hx : fits64 x = true)
    (hlo : 0 ≤ x) (hhi : x < (256 ^ w : Nat)) :
    canonInts false w [reprU w x] = some [encode64 x] := by
  simp [canonInts, decode_reprU w x hlo hhi, hx]

/-- the canonical `int64` bytes determine the integer: different data, different `arraydata` -/
theorem arraydata_canonical_injective {x y : Int} (hx : fits64 x = true) (hy : fits64 y = true)
    (h : encode64 x = encode64 y) : x = y := encode64_inj hx hy h

/-- Byte order of the source data (`'>i8'`, `'>u4'`, ... vs the little-endian layout): an integer item stored most
significant byte first is cast to the same canonical `int64` bytes as the item stored least significant byte first —
in particular for the native item size, where only the byte order differs.  Clause: same value however it was built. -/
theorem arraydata_byteorder_independent (big : Bool) (w : Nat) (x : Int) (hx : fits64 x = true)
    (hlo : -(256 ^ w : Nat) ≤ 2 * x) (hhi : 2 * x < (256 ^ w : Nat)) :
    canonIntsBO big true w [if big then (reprS w x).reverse else reprS w x] = some [encode64 x] := by
  simp [canonIntsBO, decodeBO_reprS big w x hlo hhi, hx]

theorem arraydata_unsigned_byteorder_independent (big : Bool) (w : Nat) (x : Int) (hx : fits64 x = true)
    (hlo : 0 ≤ x) (hhi : x < (256 ^ w : Nat)) :
    canonIntsBO big false w [if big then (reprU w x).reverse else reprU w x] = some [encode64 x] := by
  simp [canonIntsBO, decodeBO_reprU big w x hlo hhi, hx]

/-- the little-endian instance of `canonIntsBO` is `canonInts` (the width theorems above are about the same function) -/
theorem canonIntsBO_little (signed : Bool) (w : Nat) (items : List Bytes) :
    canonIntsBO false signed w items = canonInts signed w items := by
  simp [canonIntsBO, canonInts, decodeIntBO]

/-- Keyword order (`Immutable.__new__`: `tuple(sorted(kwargs.items()))`): the canonical keyword tuple — the last
construction argument, which `__eq__`, `__hash__`, `__reduce__`, `__nutils_hash__` and the Singleton table see — is the
same for every order in which the caller wrote the (pairwise different) keywords, including those collected by
`**kwargs`.  Clause: same hash / same object however it was built (keyword arguments in any order). -/
theorem kwcanon_order_independent {α : Type} (kw kw' : List (Bytes × α)) (hn : (kw.map (·.1)).Nodup)
    (h : kw.Perm kw') : kwCanon kw = kwCanon kw' := kwCanon_perm' hn h

/-- ... and it forgets nothing: equal canonical keyword tuples come from the same keyword assignment. -/
theorem kwcanon_injective {α : Type} (kw kw' : List (Bytes × α)) (h : kwCanon kw = kwCanon kw') : kw.Perm kw' := by
  unfold kwCanon at h
  exact (List.mergeSort_perm kw _).symm.trans (h ▸ List.mergeSort_perm kw' _)

example : kwCanon [(utf8 "solver", 1), (utf8 "atol", 2), (utf8 "precon", 3)]
    = kwCanon [(utf8 "precon", 3), (utf8 "solver", 1), (utf8 "atol", 2)] :=
  kwcanon_order_independent _ _ (by decide) (by decide)

/-! ## interning: "structurally equal values of interned types are the same object while either is alive" -/

/-- In every reachable state of the intern table (any history of constructions and deaths) two live objects
with the same construction key are one object. -/
theorem intern_unique {K : Type} [DecidableEq K] (evs : List (IEvent K)) (i j : Nat) (k : K)
    (hi : (i, k) ∈ (irun IState.empty evs).objs) (hj : (j, k) ∈ (irun IState.empty evs).objs) : i = j := by
  have inv := IInv.empty.run (K := K) evs
  exact nodup_keys_unique inv.keys_nodup ((inv.tab_iff k i).mpr hi) ((inv.tab_iff k j).mpr hj)

/-- The weak table holds exactly the live objects (no stale entry can be returned, no live object is missed). -/
theorem intern_table_exact {K : Type} [DecidableEq K] (evs : List (IEvent K)) (i : Nat) (k : K) :
    (k, i) ∈ (irun IState.empty evs).table ↔ (i, k) ∈ (irun IState.empty evs).objs :=
  (IInv.empty.run (K := K) evs).tab_iff k i

/-- Rebuilding a value while the first instance is alive returns that very instance: after any history `evs₁`,
if `call k` yields object `i`, then after any further history `evs₂` in which `i` does not die, `call k` yields
`i` again and allocates nothing. -/
theorem intern_rebuilt_is_same {K : Type} [DecidableEq K] (evs₁ evs₂ : List (IEvent K)) (k : K) (i : Nat)
    (h1 : (istep (irun IState.empty evs₁) (.call k)).2 = some i)
    (halive : evs₂.all (fun e => !dropsId i e) = true) :
    let s₂ := irun (istep (irun IState.empty evs₁) (.call k)).1 evs₂
    istep s₂ (.call k) = (s₂, some i) := by
  intro s₂
  have inv1 := IInv.empty.run (K := K) evs₁
  obtain ⟨i', hi', hlive⟩ := call_live inv1 k
  rw [h1] at hi'
  cases hi'
  have inv2 : IInv s₂ := (inv1.step (.call k)).run evs₂
  exact call_hit_of_inv inv2 (live_preserved_run hlive evs₂ halive)

/-- The table identifies whatever its key function identifies: if two argument tuples `a b` (of any type `V`) have
the same dictionary key, constructing `b` while the object built from `a` is alive returns *that* object.  In the
real code the key is the argument tuple under Python `==`/`hash`, for which `1`, `1.0` and `True` (and `0.0`, `-0.0`)
coincide although `nutils_hash` separates them: this is the model-level statement of the open finding
`intern-key-python-equality` (see notes/C17.md). -/
theorem intern_conflates_equal_keys {K V : Type} [DecidableEq K] (keyOf : V → K) (a b : V) (hk : keyOf a = keyOf b)
    (evs : List (IEvent K)) (i : Nat) (h1 : (istep (irun IState.empty evs) (.call (keyOf a))).2 = some i) :
    (istep (istep (irun IState.empty evs) (.call (keyOf a))).1 (.call (keyOf b))).2 = some i := by
  have := intern_rebuilt_is_same evs [] (keyOf a) i h1 (by simp)
  simp only [irun] at this
  rw [← hk, this]

/-- Identities are never reused: an object allocated later is different from every object that ever lived
(so `is` comparisons in the harness against dead objects cannot be confused). -/
theorem intern_fresh {K : Type} [DecidableEq K] (evs : List (IEvent K)) (o : Nat × K)
    (h : o ∈ (irun IState.empty evs).objs) : o.1 < (irun IState.empty evs).next :=
  (IInv.empty.run (K := K) evs).fresh o h

/-! ## the hypotheses are needed: collisions of the model without them (hold for every `H`) -/

/-- `NoNameClash` is needed: an object with `__getnewargs__` whose class is *named* `tuple` (e.g.
`collections.namedtuple('tuple', ...)`) collides with the plain tuple of its fields. -/
theorem nameclash_collision (xs : List Value) : nhash H (.newargs (T "tuple") xs) = nhash H (.tuple xs) := rfl

/-- a stdlib dataclass and a `__getnewargs__` class of the same name collide when they have no fields -/
theorem nameclash_collision_kinds (t : Bytes) : nhash H (.dataclass t []) = nhash H (.newargs t []) := by
  simp [nhash, emit, emit1, shape, tagB, body, emitL, sortB]

/-- Seekable buffered files: `str(pos)` and the content are concatenated without separator, so position 1 of
`b'05'` and position 10 of `b'5'` collide.  (Genuine ambiguity of the pinned code; `Equiv.bufio` is stated on the
concatenation for this reason.) -/
theorem bufio_collision (t : Bytes) : nhash H (.bufio t 1 (T "05")) = nhash H (.bufio t 10 (T "5")) := by
  have : utf8 (Nat.repr 1) ++ T "05" = utf8 (Nat.repr 10) ++ T "5" := by decide
  simp only [nhash, emit, emit1, shape, tagB, body, this]

/-! ## non-vacuity -/

mutual
theorem equiv_refl : (v : Value) → (r : Role) → wf r v = true → Equiv v v
  | .none, _, _ => .none
  | .ellipsis, _, _ => .ellipsis
  | .bool b, _, _ => .bool b
  | .int i, _, _ => .int i
  | .float r, _, _ => .float r
  | .complex r, _, _ => .complex r
  | .str s, _, _ => .str s
  | .bytes b, _, _ => .bytes b
  | .type n, _, _ => .type n
  | .tuple xs, r, h => by cases r <;> simp only [wf, Bool.false_eq_true] at h; exact .tuple (equivL_refl xs _ h)
  | .list xs, r, h => by cases r <;> simp only [wf, Bool.false_eq_true] at h; exact .list (equivL_refl xs _ h)
  | .dict xs, r, h => by cases r <;> simp only [wf, Bool.false_eq_true] at h; exact .dict (.refl _) (equivL_refl xs _ h)
  | .set xs, r, h => by cases r <;> simp only [wf, Bool.false_eq_true] at h; exact .set (.refl _) (equivL_refl xs _ h)
  | .frozenset xs, r, h => by cases r <;> simp only [wf, Bool.false_eq_true] at h; exact .frozenset (.refl _) (equivL_refl xs _ h)
  | .bufio t p c, _, _ => .bufio t rfl
  | .method s n, r, h => by
    cases r <;> simp only [wf, Bool.false_eq_true, Bool.and_eq_true] at h
    exact .method (equiv_refl s _ h.1) (equiv_refl n _ h.2)
  | .ndarray sh dt d, _, _ => .ndarray d rfl
  | .dataclass t xs, r, h => by
    cases r <;> simp only [wf, Bool.false_eq_true, Bool.and_eq_true] at h
    exact .dataclass t (.refl _) (equivL_refl xs _ h.2)
  | .newargs t xs, r, h => by
    cases r <;> simp only [wf, Bool.false_eq_true, Bool.and_eq_true] at h
    exact .newargs t (equivL_refl xs _ h.2)
  | .immutable m i xs, r, h => by
    cases r <;> simp only [wf, Bool.false_eq_true, Bool.and_eq_true] at h
    exact .immutable rfl (equivL_refl xs _ h.2)
  | .dclass m xs, r, h => by
    cases r <;> simp only [wf, Bool.false_eq_true, Bool.and_eq_true] at h
    exact .dclass m (equivL_refl xs _ h.2)
  | .frozendict m xs, r, h => by
    cases r <;> simp only [wf, Bool.false_eq_true, Bool.and_eq_true] at h
    exact .frozendict m (.refl _) (equivL_refl xs _ h.2)
  | .frozenmultiset m xs, r, h => by
    cases r <;> simp only [wf, Bool.false_eq_true, Bool.and_eq_true] at h
    exact .frozenmultiset m (.refl _) (equivL_refl xs _ h.2)
  | .opaque p, _, _ => .opaque p
  | .pair k v, r, h => by
    cases r <;> simp only [wf, Bool.false_eq_true, Bool.and_eq_true] at h
    exact .pair (equiv_refl k _ h.1) (equiv_refl v _ h.2)
  | .counted n v, r, h => by
    cases r <;> simp only [wf, Bool.false_eq_true, Bool.and_eq_true] at h
    exact .counted n (equiv_refl v _ h.2)
  | .npscalar _ _, r, h => by cases r <;> simp [wf] at h
  | .unsupported _, r, h => by cases r <;> simp [wf] at h
theorem equivL_refl : (xs : List Value) → (r : Role) → wfL r xs = true → EquivL xs xs
  | [], _, _ => .nil
  | x :: xs, r, h => by
    simp only [wfL, Bool.and_eq_true] at h
    exact .cons (equiv_refl x r h.1) (equivL_refl xs r h.2)
end

instance (H : Bytes → Bytes) (A B : List Bytes) : Decidable (CollisionFree H A B) := by
  unfold CollisionFree; infer_instance

/-- the hypotheses of `nhash_injective` hold for real SHA-1 and the nesting-boundary pair
`(1, (2,))` / `((1,), 2)` with the builtin registry (so the theorem says: their hashes differ) -/
example :
    let v := Value.tuple [.int 1, .tuple [.int 2]]
    let w := Value.tuple [.tuple [.int 1], .int 2]
    (∀ b, (sha1 b).length = 20) ∧ wf .obj v = true ∧ wf .obj w = true ∧
      respects builtinReg v = true ∧ respects builtinReg w = true ∧
      CollisionFree sha1 (fed sha1 v) (fed sha1 w) := by
  refine ⟨sha1_length, ?_, ?_, ?_, ?_, ?_⟩ <;> decide +kernel

/-- user classes: an `Immutable`, a nutils `DataClass`, a namedtuple and a frozenmultiset with two operands
are well-formed and respect a registry that files their names -/
example :
    let reg := regOf [(T "mod.Foo:0", .immutable), (T "mod.Bar", .dclass), (T "Point", .newargs),
      (T "nutils.types.frozenmultiset", .frozenmultiset)]
    let v := Value.immutable (T "mod.Foo") 0 [.dclass (T "mod.Bar") [.newargs (T "Point") [.int 1, .float (T "2.0")]],
      .frozenmultiset (T "nutils.types.frozenmultiset") [.counted 2 (.str (T "a")), .counted 1 .none], .tuple []]
    wf .obj v = true ∧ respects reg v = true := by
  decide +kernel

/-- a name clash is rejected by every registry built with `regOf`: a namedtuple called `tuple` -/
example : respects (regOf [(T "tuple", .newargs)]) (.newargs (T "tuple") []) = false := by decide +kernel

/-- `Covers`: `f(a, b=4, c=5)` called as `f(1, c=5)` with `b` left to its default -/
example : Covers [(⟨"b", some 4⟩, 4), (⟨"c", some 0⟩, 5)] [("c", 5)] :=
  ⟨by simp, by simp⟩

end NutilsVerif.C17
