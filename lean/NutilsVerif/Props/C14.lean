import NutilsVerif.Proofs.C14
import NutilsVerif.Proofs.C14Cache
/-!
# C14 — property theorems: solvers return a certified solution or raise

All statements are about the executable model in `Model/C14.lean`, which mirrors `Matrix._solver`, `Matrix.solve`,
`Matrix.solve_leniently`, `System.solve`, `_with_solve.solve_withinfo`, `System.step`, `System.solve_constraints`
(drop-tolerance mask), `System.deconstruct/construct` and the relaxation loop of `LinesearchNewton`.
They hold for every matrix, right-hand side, constraint pattern, tolerance (also NaN/inf/negative), every behaviour of the
inner solver / iterative method (scripts are universally quantified) and every norm function.
-/
namespace NutilsVerif.C14
open F

deriving instance DecidableEq for Except

/-- `ToleranceNotReached` is raised by `_solver` only for a finite solver result of the right length whose residual
really exceeds a strictly positive effective tolerance; `.best` is that result. -/
theorem solver_tolNotReached (nrm : Vec → F) (A : Mat) (ncols : Nat) (b : Vec) (atol rtol : F) (sol : SolverRet) (y : Vec)
    (h : solverM nrm A ncols b atol rtol sol = .error (.tolNotReached y)) :
    ∃ xs, sol = .vec xs ∧ toRat? xs = some y ∧ y.length = ncols ∧
      gt (nrm (vsub b (matVec A y))) (effTol atol rtol (nrm b)) = true ∧ gt (effTol atol rtol (nrm b)) zero = true := by
  unfold solverM at h
  simp only at h
  split at h
  · cases h
  · split at h
    · cases h
    · split at h
      · cases h
      · split at h
        · cases h
        · cases sol with
          | matrixError => cases h
          | otherError => cases h
          | vec xs =>
            simp only at h
            split at h
            · cases h
            · rename_i x' hx
              split at h
              · cases h
              · rename_i hlen
                split at h
                · cases h
                · split at h
                  · rename_i hgt
                    simp at h
                    subst h
                    simp at hgt
                    exact ⟨xs, rfl, hx, by simpa using hlen, hgt.1, hgt.2⟩
                  · cases h

/-- Clause "residual within the requested tolerance, all numbers finite - or raises" for `Matrix._solver`: a returned
vector is either the zero vector of the within-tolerance shortcut (`|b| <= tol`), or the finite result of the solver
whose residual norm is finite and, unless the effective tolerance is not positive (`atol = rtol = 0`: the documented
"machine precision, unchecked" mode), within that tolerance. -/
theorem solver_post (nrm : Vec → F) (A : Mat) (ncols : Nat) (b : Vec) (atol rtol : F) (sol : SolverRet) (x : Vec)
    (h : solverM nrm A ncols b atol rtol sol = .ok x) :
    x.length = ncols ∧ (nrm b).isFinite = true ∧
    ((le (nrm b) (effTol atol rtol (nrm b)) = true ∧ x = b.map (fun _ => 0)) ∨
     (∃ xs, sol = .vec xs ∧ toRat? xs = some x ∧
        (nrm (vsub b (matVec A x))).isFinite = true ∧
        (gt (effTol atol rtol (nrm b)) zero = false ∨
          le (nrm (vsub b (matVec A x))) (effTol atol rtol (nrm b)) = true))) := by
  unfold solverM at h
  simp only at h
  split at h
  · cases h
  · rename_i hsq
    split at h
    · cases h
    · rename_i hb
      split at h
      · cases h
      · rename_i hfin
        simp at hfin
        split at h
        · rename_i hle
          simp at h
          subst h
          refine ⟨by simp at hsq hb ⊢; omega, hfin, Or.inl ⟨hle, rfl⟩⟩
        · cases sol with
          | matrixError => cases h
          | otherError => cases h
          | vec xs =>
            simp only at h
            split at h
            · cases h
            · rename_i x' hx
              split at h
              · cases h
              · rename_i hlen
                split at h
                · cases h
                · rename_i hrf
                  simp at hrf
                  split at h
                  · cases h
                  · rename_i hgt
                    simp at h
                    subst h
                    refine ⟨by simpa using hlen, hfin, Or.inr ⟨xs, rfl, hx, hrf, ?_⟩⟩
                    simp at hgt
                    by_cases hz : gt (effTol atol rtol (nrm b)) zero = true
                    · right
                      have hng := hgt
                      by_cases hg : gt (nrm (vsub b (matVec A x'))) (effTol atol rtol (nrm b)) = true
                      · exact absurd hz (by simpa [hg] using hgt)
                      · exact F.le_of_not_gt (F.isFinite_not_nan hrf) (F.gt_not_nan hz).1 (by simpa using hg)
                    · left; simpa using hz

/-- Clause "constrained entries exactly equal to their prescribed values, residual of the free equations within the
requested tolerance" for `Matrix.solve` with `lhs0` / `constrain` / `rconstrain`: the free-row residual of the
*returned full vector* is what was certified. -/
theorem solve_post (nrm : Vec → F) (s : SolveIn) (x : Vec) (hA : s.A.length = s.nrows)
    (hc : ¬ (s.lhs0 = none ∧ s.cons = none ∧ s.rcons = none)) (h : solveM nrm s = .ok x) :
    ∃ lhs J I, prepCols s.ncols s.lhs0 s.cons = .ok (lhs, J) ∧ prepRows s.nrows s.ncols J s.cons s.rcons = .ok I ∧
      x.length = s.ncols ∧
      (∀ j q, prescribed s.ncols s.lhs0 s.cons j = some q → x.getD j 0 = q) ∧
      (nrm (sel I (vsub (s.rhs.getD (zeros s.nrows)) (matVec s.A x)))).isFinite = true ∧
      (gt (effTol s.atol s.rtol (nrm (sel I (vsub (s.rhs.getD (zeros s.nrows)) (matVec s.A lhs))))) zero = false ∨
       le (nrm (sel I (vsub (s.rhs.getD (zeros s.nrows)) (matVec s.A x))))
          (effTol s.atol s.rtol (nrm (sel I (vsub (s.rhs.getD (zeros s.nrows)) (matVec s.A lhs))))) = true) := by
  rw [solveM_constrained nrm s hc] at h
  split at h
  · cases h
  · rename_i lhs J hpc
    split at h
    · cases h
    · rename_i I hpr
      split at h
      · cases h
      · rename_i hrhs
        simp at hrhs
        obtain ⟨hl, hJ, hpres⟩ := prepCols_spec hpc
        have hI := prepRows_length hJ hpr
        have hJl : J.length = lhs.length := by omega
        split at h
        · rename_i y hy
          simp at h
          subst h
          refine ⟨lhs, J, I, hpc, hpr, by rw [scatterAdd_length J y lhs hJl]; exact hl, ?_, ?_⟩
          · intro j q hp
            obtain ⟨h1, h2⟩ := hpres j q hp
            rw [scatterAdd_fixed J y lhs j hJl h1]; exact h2
          · have hres := residual_reduced J y lhs hJl I s.A (s.rhs.getD (zeros s.nrows)) (by omega) (by omega)
            obtain ⟨_, hfin, hcase⟩ := solver_post nrm _ _ _ _ _ _ _ hy
            rcases hcase with ⟨hle, hy0⟩ | ⟨xs, _, _, hrf, hdis⟩
            · subst hy0
              rw [List.map_const', scatterAdd_zeros J _ lhs hJl]
              exact ⟨hfin, Or.inr hle⟩
            · rw [hres]
              exact ⟨hrf, hdis⟩
        · cases h
        · cases h

/-- Clause "never returns a silently unconverged answer" for `System.solve`: the returned iterate is the first one at
or after `miniter` whose residual norm is `<= tol` (not NaN), all earlier norms were not NaN, `maxiter` was respected;
for direct methods the norm is not NaN and `<= tol` whenever `tol > 0`. -/
theorem system_solve_post (tol : F) (mi : Int) (ma : Option Int) (m : MethodRet) (k : Nat) (r : F)
    (h : solveSys tol mi ma m = .returned k r) :
    r.isNan = false ∧
    match m with
    | .tuple r0 => k = 0 ∧ r = r0 ∧ (gt tol zero = true → le r tol = true)
    | .iter evs =>
        gt tol zero = true ∧ le r tol = true ∧ evs[k]? = some (.yield r) ∧ mi ≤ (k : Int) ∧
        (∀ M, ma = some M → k = 0 ∨ (k : Int) ≤ M) ∧
        (∀ j, j < k → ∃ rj, evs[j]? = some (.yield rj) ∧ rj.isNan = false ∧ (mi ≤ (j : Int) → le rj tol = false)) := by
  cases m with
  | tuple r0 =>
    simp only [solveSys] at h
    split at h
    · cases h
    · rename_i hnan
      split at h
      · cases h
      · rename_i hgt
        simp at h
        obtain ⟨rfl, rfl⟩ := h
        simp at hnan hgt
        refine ⟨hnan, rfl, rfl, ?_⟩
        intro hz
        apply F.le_of_not_gt hnan (F.gt_not_nan hz).1
        cases hg : gt r0 tol with
        | false => rfl
        | true => exact absurd hz (by simpa [hg] using hgt)
  | iter evs =>
    simp only [solveSys] at h
    split at h
    · cases h
    · rename_i hz
      cases evs with
      | nil => cases h
      | cons e rest =>
        cases e with
        | raise t => cases h
        | yield r0 =>
          simp only at h
          obtain ⟨_, h2, h3, h4, h5⟩ := loop_post tol mi ma (.yield r0 :: rest) rest 0 r0 k r (by simp) (by simp) h
          have hn := F.le_not_nan h3
          refine ⟨hn.1, ?_, h3, h2, h4, ?_, ?_⟩
          · exact F.gt_of_not_le hn.2 (by simp [zero, isNan]) (by simpa using hz)
          · intro M hM
            cases k with
            | zero => left; rfl
            | succ k =>
              right
              obtain ⟨_, _, _, _, hmax⟩ := h5 k (by omega) (by omega)
              subst hM
              simp [hitMax] at hmax
              omega
          · intro j hj
            obtain ⟨rj, a, b, c, _⟩ := h5 j (by omega) hj
            exact ⟨rj, a, b, c⟩

/-- A NaN residual norm anywhere in the stream: the solve either ended strictly before it, or raises SolverError
exactly there (or rejected the call with ValueError because `tol <= 0`). It never gets past it. -/
theorem system_solve_nan_raises (tol : F) (mi : Int) (ma : Option Int) (pre post : List Ev) :
    (solveSys tol mi ma (.iter (pre ++ .yield nan :: post))).idx < pre.length ∨
    solveSys tol mi ma (.iter (pre ++ .yield nan :: post)) = .solverError pre.length .nan ∨
    solveSys tol mi ma (.iter (pre ++ .yield nan :: post)) = .valueError := by
  simp only [solveSys]
  split
  · right; right; rfl
  · cases pre with
    | nil =>
      right; left
      simp only [List.nil_append, List.length_nil]
      rw [loop.eq_def]
      simp [F.nan_le, F.isNan]
    | cons e pre =>
      cases e with
      | raise t => left; simp [SOut.idx]
      | yield r0 =>
        simp only [List.cons_append, List.length_cons]
        rcases loop_nan tol mi ma pre post 0 r0 with h | h
        · left; omega
        · right; left; rw [h]; congr 1; omega

/-- Why the repair matters: the loop condition of the pinned tree (`resnorm > tol`) accepts a NaN residual norm. -/
theorem system_solve_nan_old_counterexample :
    solveSysOld (fin (1/2)) 0 none (.iter [.yield (fin 5), .yield nan, .yield (fin 1)]) = .returned 1 nan ∧
    solveSysOld (fin (1/2)) 0 none (.tuple nan) = .returned 0 nan ∧
    solveSys (fin (1/2)) 0 none (.iter [.yield (fin 5), .yield nan, .yield (fin 1)]) = .solverError 1 .nan ∧
    solveSys (fin (1/2)) 0 none (.tuple nan) = .solverError 0 .nan := by
  decide +kernel

/-- `System.step`: at most `2^(maxretry+1) - 1` solves, whatever fails. -/
theorem step_retry_bound (n : Nat) (dep : Bool) : ∀ (t dt : Rat) (script : List Bool),
    (stepM n dep t dt script).2.1.length + 1 ≤ 2 ^ (n + 1) := by
  induction n with
  | zero =>
    intro t dt script
    cases h : script.headD false
    · rw [stepM_zero _ _ _ _ h]; simp
    · rw [stepM_ok _ _ _ _ _ h]; simp
  | succ n ih =>
    intro t dt script
    have hpow : 2 ^ (n + 1 + 1) = 2 ^ (n + 1) + 2 ^ (n + 1) := by omega
    have hpos : 1 ≤ 2 ^ (n + 1) := Nat.one_le_two_pow
    cases h : script.headD false
    · rw [stepM_succ _ _ _ _ _ h]
      cases dep with
      | false => simp; omega
      | true =>
        simp only [Bool.not_true, Bool.false_eq_true, if_false]
        have h1 := ih t (dt / 2) script.tail
        split
        · simp only [List.length_cons]; omega
        · have h2 := ih (t + dt / 2) (dt / 2) (stepM n true t (dt / 2) script.tail).2.2
          simp only [List.length_cons, List.length_append]; omega
    · rw [stepM_ok _ _ _ _ _ h]; simp; omega

/-- `System.step`: if the step succeeds, the successful solves bridge `[t, t+dt]` without gap or overlap. -/
theorem step_chain (n : Nat) (dep : Bool) : ∀ (t dt : Rat) (script : List Bool),
    (stepM n dep t dt script).1 = true →
    chains t ((stepM n dep t dt script).2.1.filter (·.ok)) (t + dt) := by
  induction n with
  | zero =>
    intro t dt script hs
    cases h : script.headD false
    · rw [stepM_zero _ _ _ _ h] at hs; simp at hs
    · rw [stepM_ok _ _ _ _ _ h]; simp [chains]
  | succ n ih =>
    intro t dt script hs
    cases h : script.headD false
    · rw [stepM_succ _ _ _ _ _ h] at hs ⊢
      cases dep with
      | false => simp at hs
      | true =>
        simp only [Bool.not_true, Bool.false_eq_true, if_false] at hs ⊢
        split at hs
        · simp at hs
        · rename_i h1
          rw [if_neg h1]
          simp only at hs ⊢
          simp at h1
          have c1 := ih t (dt / 2) script.tail h1
          have c2 := ih (t + dt / 2) (dt / 2) _ hs
          have : t + dt / 2 + dt / 2 = t + dt := by grind
          rw [this] at c2
          simpa [List.filter_cons] using chains_append _ _ _ _ _ c1 c2
    · rw [stepM_ok _ _ _ _ _ h]; simp [chains]

/-- no retry when the system does not depend on the time arguments -/
theorem step_independent_no_retry (n : Nat) (t dt : Rat) (script : List Bool) :
    (stepM n false t dt script).2.1.length = 1 := by
  cases n with
  | zero =>
    cases h : script.headD false
    · rw [stepM_zero _ _ _ _ h]; rfl
    · rw [stepM_ok _ _ _ _ _ h]; rfl
  | succ n =>
    cases h : script.headD false
    · rw [stepM_succ _ _ _ _ _ h]; rfl
    · rw [stepM_ok _ _ _ _ _ h]; rfl

/-- the pinned tree restarted the half steps from the already advanced time: the successful solves bridge
`[t+dt, t+2dt]` instead of `[t, t+dt]` -/
theorem step_old_counterexample :
    (stepOld 1 true 10 1 [false, true, true]).1 = true ∧
    (stepOld 1 true 10 1 [false, true, true]).2.1 = [⟨10, 11, false⟩, ⟨11, 23/2, true⟩, ⟨23/2, 12, true⟩] ∧
    (stepM 1 true 10 1 [false, true, true]).2.1 = [⟨10, 11, false⟩, ⟨10, 21/2, true⟩, ⟨21/2, 11, true⟩] := by
  decide +kernel

/-- Clause "constraint projection leaves undetermined (NaN) exactly those entries whose influence is below the drop
tolerance": column `j` is freed iff some stored (nonzero) entry of it exceeds `droptol` in absolute value. -/
theorem droptol_mask (A : Mat) (ncols : Nat) (d : F) (j : Nat) (hj : j < ncols) :
    (droptolMask A ncols d).getD j true = false ↔
      ∃ row ∈ A, row.getD j 0 ≠ 0 ∧ gt (fin (rabs (row.getD j 0))) d = true := by
  unfold droptolMask
  rw [List.getD_eq_getElem?_getD, List.getElem?_map, List.getElem?_range hj]
  simp [influences]

theorem droptol_mask_length (A : Mat) (ncols : Nat) (d : F) : (droptolMask A ncols d).length = ncols := by
  simp [droptolMask]

/-- for a non-negative drop tolerance the explicit-zero exclusion is immaterial -/
theorem droptol_mask_nonneg (A : Mat) (ncols : Nat) (q : Rat) (hq : 0 ≤ q) (j : Nat) (hj : j < ncols) :
    (droptolMask A ncols (fin q)).getD j true = false ↔ ∃ row ∈ A, q < rabs (row.getD j 0) := by
  rw [droptol_mask A ncols (fin q) j hj]
  constructor
  · rintro ⟨row, hr, _, h⟩; exact ⟨row, hr, by simpa [gt, lt] using h⟩
  · rintro ⟨row, hr, h⟩
    refine ⟨row, hr, ?_, by simpa [gt, lt] using h⟩
    intro h0
    rw [h0] at h
    simp [rabs] at h
    grind

/-- `construct (deconstruct ...)` gives the constraint value where one is prescribed (float constraints), the initial
guess elsewhere (also on boolean-constrained entries), zero without a guess. -/
theorem deconstruct_construct (n : Nat) (a : Option Vec) (c : Option Cons)
    (ha : ∀ a', a = some a' → a'.length = n) (hc : ∀ k, consLength c = some k → k = n) :
    construct (deconstruct n a c).1 (deconstruct n a c).2 = expected n a c := by
  cases a with
  | none =>
    cases c with
    | none => simp [deconstruct, expected, construct_allnone n (zeros n) (by simp [zeros])]
    | some c =>
      cases c with
      | mask m =>
        have := hc m.length rfl
        simp [deconstruct, expected, construct_mask_zeros, this]
      | vals v =>
        have := hc v.length rfl
        simp [deconstruct, expected, construct_vals_zeros, this]
  | some a =>
    have hl := ha a rfl
    cases c with
    | none => simp [deconstruct, expected, construct_allnone n a hl]
    | some c =>
      cases c with
      | mask m =>
        have := hc m.length rfl
        simp [deconstruct, expected, construct_mask_sel m a (by omega)]
      | vals v =>
        have := hc v.length rfl
        simp [deconstruct, expected, construct_vals_sel v a (by omega)]

/-- the number of free values handed to the solver equals the number of NaN entries of the template -/
theorem deconstruct_free_count (n : Nat) (a : Option Vec) (c : Option Cons)
    (ha : ∀ a', a = some a' → a'.length = n) (hc : ∀ k, consLength c = some k → k = n) :
    (deconstruct n a c).2.length = count ((deconstruct n a c).1.map Option.isNone) := by
  cases a with
  | none =>
    cases c with
    | none => simp [deconstruct, zeros, count_replicate_true]
    | some c =>
      cases c with
      | mask m =>
        simp only [deconstruct, zeros, List.length_replicate, List.map_map]
        congr 1
        apply List.map_congr_left
        intro b _; cases b <;> rfl
      | vals v => simp [deconstruct, zeros]
  | some a =>
    have hl := ha a rfl
    cases c with
    | none => simp [deconstruct, count_replicate_true, hl]
    | some c =>
      cases c with
      | mask m =>
        have := hc m.length rfl
        simp only [deconstruct]
        rw [zipWith_isNone m a (by omega), sel_length_count _ a (by simp; omega)]
      | vals v =>
        have := hc v.length rfl
        simp only [deconstruct]
        rw [sel_length_count _ a (by simp; omega)]

/-- `LinesearchNewton`: the step that becomes the next iterate was accepted by the strategy (all earlier answers were
rejections), was taken with a relaxation above `failrelax`, and the next relaxation is at most one. -/
theorem linesearch_post (failrelax : Rat) : ∀ (script : List (Rat × Bool)) (relax : Rat) (n : Nat) (used next : Rat) (k : Nat),
    failrelax < relax → linesearch failrelax relax n script = .accepted used next k →
    failrelax < used ∧ next ≤ 1 ∧ n < k ∧
    (∃ sc, script[k - n - 1]? = some (sc, true)) ∧ ∀ i, i < k - n - 1 → ∃ sc, script[i]? = some (sc, false) := by
  intro script
  induction script with
  | nil => intro relax n used next k _ h; simp [linesearch] at h
  | cons e rest ih =>
    intro relax n used next k hr h
    obtain ⟨scale, accept⟩ := e
    simp only [linesearch] at h
    split at h
    · rename_i hacc
      simp at h
      obtain ⟨rfl, rfl, rfl⟩ := h
      refine ⟨hr, ?_, by omega, ⟨scale, by simp [hacc]⟩, by intro i hi; omega⟩
      split
      · rename_i hlt; exact Rat.le_of_lt hlt
      · exact Rat.le_refl
    · rename_i hacc
      split at h
      · cases h
      · split at h
        · cases h
        · rename_i hstuck
          have hr' : failrelax < relax * scale := Rat.not_le.mp hstuck
          obtain ⟨h1, h2, h3, ⟨sc, h4⟩, h5⟩ := ih (relax * scale) (n + 1) used next k hr' h
          refine ⟨h1, h2, by omega, ⟨sc, ?_⟩, ?_⟩
          · have : k - n - 1 = (k - (n + 1) - 1) + 1 := by omega
            rw [this]; simpa using h4
          · intro i hi
            cases i with
            | zero => exact ⟨scale, by simp at hacc; simp [hacc]⟩
            | succ i =>
              obtain ⟨sc', h6⟩ := h5 i (by omega)
              exact ⟨sc', by simpa using h6⟩

/-- `ToleranceNotReached.best` of the constrained path: constrained entries are patched in exactly, and the exception
is raised only when the free-row residual of `best` really exceeds a positive tolerance. -/
theorem solve_best_post (nrm : Vec → F) (s : SolveIn) (x : Vec) (hA : s.A.length = s.nrows)
    (hc : ¬ (s.lhs0 = none ∧ s.cons = none ∧ s.rcons = none)) (h : solveM nrm s = .error (.tolNotReached x)) :
    ∃ lhs J I, prepCols s.ncols s.lhs0 s.cons = .ok (lhs, J) ∧ prepRows s.nrows s.ncols J s.cons s.rcons = .ok I ∧
      x.length = s.ncols ∧
      (∀ j q, prescribed s.ncols s.lhs0 s.cons j = some q → x.getD j 0 = q) ∧
      gt (nrm (sel I (vsub (s.rhs.getD (zeros s.nrows)) (matVec s.A x))))
         (effTol s.atol s.rtol (nrm (sel I (vsub (s.rhs.getD (zeros s.nrows)) (matVec s.A lhs))))) = true ∧
      gt (effTol s.atol s.rtol (nrm (sel I (vsub (s.rhs.getD (zeros s.nrows)) (matVec s.A lhs))))) zero = true := by
  rw [solveM_constrained nrm s hc] at h
  split at h
  · rename_i e he; cases prepCols_err he; cases h
  · rename_i lhs J hpc
    split at h
    · rename_i e he; rcases prepRows_err he with rfl | rfl <;> cases h
    · rename_i I hpr
      split at h
      · cases h
      · rename_i hrhs
        simp at hrhs
        obtain ⟨hl, hJ, hpres⟩ := prepCols_spec hpc
        have hI := prepRows_length hJ hpr
        have hJl : J.length = lhs.length := by omega
        split at h
        · cases h
        · rename_i y hy
          simp at h
          subst h
          refine ⟨lhs, J, I, hpc, hpr, by rw [scatterAdd_length J y lhs hJl]; exact hl, ?_, ?_⟩
          · intro j q hp
            obtain ⟨h1, h2⟩ := hpres j q hp
            rw [scatterAdd_fixed J y lhs j hJl h1]; exact h2
          · have hres := residual_reduced J y lhs hJl I s.A (s.rhs.getD (zeros s.nrows)) (by omega) (by omega)
            obtain ⟨xs, _, _, _, hg, hz⟩ := solver_tolNotReached nrm _ _ _ _ _ _ _ hy
            rw [hres]
            exact ⟨hg, hz⟩
        · rename_i e hne hy
          cases e <;> simp at h
          exact absurd rfl (hne _)

/-- Clause "for linear problems the result does not depend on the initial guess": two runs of the constrained solve
that start from vectors `lhs`, `lhs'` which agree on the constrained entries (same prescribed values, different initial
guess on the free entries) and end with the same free-row residual (in particular: both exact) return the same
vector, provided the reduced matrix `A[I,J]` is injective. -/
theorem solve_indep_lhs0 (J I : List Bool) (A : Mat) (rhs lhs lhs' y y' : Vec)
    (hI : I.length = A.length) (hr : rhs.length = A.length) (hag : agreeOff J lhs lhs')
    (hres : sel I (vsub rhs (matVec A (scatterAdd J y lhs))) = sel I (vsub rhs (matVec A (scatterAdd J y' lhs'))))
    (hinj : ∀ z z' : Vec, z.length = count J → z'.length = count J →
      matVec (subMat I J A) z = matVec (subMat I J A) z' → z = z') :
    scatterAdd J y lhs = scatterAdd J y' lhs' := by
  obtain ⟨hJ1, hJ2⟩ := agreeOff_length J lhs lhs' hag
  have a1 : agreeOff J (scatterAdd J y lhs) lhs' := agreeOff_trans J _ _ _ (agreeOff_scatterAdd J y lhs hJ1) hag
  have a2 : agreeOff J (scatterAdd J y' lhs') lhs' := agreeOff_scatterAdd J y' lhs' hJ2
  have e1 := eq_scatterAdd_of_agreeOff J _ _ a1
  have e2 := eq_scatterAdd_of_agreeOff J _ _ a2
  generalize scatterAdd J y lhs = x at *
  generalize scatterAdd J y' lhs' = x' at *
  have lx := (agreeOff_length J x lhs' a1).1
  have lx' := (agreeOff_length J x' lhs' a2).1
  have lz : (vsub (sel J x) (sel J lhs')).length = count J := by
    rw [vsub_length _ _ (by rw [sel_length_count J x lx, sel_length_count J lhs' hJ2]), sel_length_count J x lx]
  have lz' : (vsub (sel J x') (sel J lhs')).length = count J := by
    rw [vsub_length _ _ (by rw [sel_length_count J x' lx', sel_length_count J lhs' hJ2]), sel_length_count J x' lx']
  have r1 := residual_reduced J (vsub (sel J x) (sel J lhs')) lhs' hJ2 I A rhs hI hr
  have r2 := residual_reduced J (vsub (sel J x') (sel J lhs')) lhs' hJ2 I A rhs hI hr
  rw [← e1] at r1
  rw [← e2] at r2
  rw [r1, r2] at hres
  have lr0 : (sel I (vsub rhs (matVec A lhs'))).length = count I := by
    apply sel_length_count
    rw [vsub_length _ _ (by simp [matVec, hr])]; omega
  have lM : ∀ z, (matVec (subMat I J A) z).length = count I := by
    intro z; simp [matVec, subMat, sel_length_count I A hI]
  have hm := vsub_left_cancel _ _ _ (by rw [lr0, lM]) (by rw [lr0, lM]) hres
  have hz := hinj _ _ lz lz' hm
  rw [e1, e2, hz]

example : ∀ z z' : Vec, z.length = count [true, false] → z'.length = count [true, false] →
    matVec (subMat [true, false] [true, false] [[2, 1], [1, 3]]) z = matVec (subMat [true, false] [true, false] [[2, 1], [1, 3]]) z' → z = z' := by
  intro z z' h1 h2 h
  match z, z', h1, h2 with
  | [a], [b], _, _ =>
    simp [matVec, subMat, sel, dot] at h
    congr 1; grind

/-- `Matrix.solve_leniently` returns either a vector that passed `solve`, or the patched `.best`: in both cases the
constrained entries are exactly the prescribed values. -/
theorem solve_leniently_constrained (nrm : Vec → F) (s : SolveIn) (x : Vec) (hA : s.A.length = s.nrows)
    (hc : ¬ (s.lhs0 = none ∧ s.cons = none ∧ s.rcons = none)) (h : solveLenientM nrm s = .ok x) :
    x.length = s.ncols ∧ ∀ j q, prescribed s.ncols s.lhs0 s.cons j = some q → x.getD j 0 = q := by
  unfold solveLenientM at h
  split at h
  · rename_i best hb
    simp at h; subst h
    obtain ⟨_, _, _, _, _, h1, h2, _⟩ := solve_best_post nrm s _ hA hc hb
    exact ⟨h1, h2⟩
  · rename_i r hr
    obtain ⟨_, _, _, _, _, h1, h2, _⟩ := solve_post nrm s x hA hc h
    exact ⟨h1, h2⟩

/-- Clause "constrained entries exactly equal to their prescribed values", for every way a vector leaves the constrained
`Matrix.solve`: returned, carried as `ToleranceNotReached.best`, or returned by `solve_leniently`.  The entries are
*equal* (copied), not computed. -/
theorem constrain_exact (nrm : Vec → F) (s : SolveIn) (x : Vec) (hA : s.A.length = s.nrows)
    (hc : ¬ (s.lhs0 = none ∧ s.cons = none ∧ s.rcons = none))
    (h : solveM nrm s = .ok x ∨ solveM nrm s = .error (.tolNotReached x) ∨ solveLenientM nrm s = .ok x) :
    x.length = s.ncols ∧ ∀ j q, prescribed s.ncols s.lhs0 s.cons j = some q → x.getD j 0 = q := by
  rcases h with h | h | h
  · obtain ⟨_, _, _, _, _, h1, h2, _⟩ := solve_post nrm s x hA hc h
    exact ⟨h1, h2⟩
  · obtain ⟨_, _, _, _, _, h1, h2, _⟩ := solve_best_post nrm s x hA hc h
    exact ⟨h1, h2⟩
  · exact solve_leniently_constrained nrm s x hA hc h

/-- If the inner solve is exact (`A[I,J] y = (rhs − A lhs)[I]`), the free rows of the full system hold exactly for the
returned vector `lhs[J] += y`. -/
theorem constrain_exact_free_rows (J I : List Bool) (A : Mat) (rhs lhs y : Vec)
    (hJ : J.length = lhs.length) (hI : I.length = A.length) (hr : rhs.length = A.length)
    (hex : matVec (subMat I J A) y = sel I (vsub rhs (matVec A lhs))) :
    sel I (vsub rhs (matVec A (scatterAdd J y lhs))) = List.replicate (count I) 0 := by
  rw [residual_reduced J y lhs hJ I A rhs hI hr, hex, vsub_self]
  congr 1
  apply sel_length_count
  rw [vsub_length _ _ (by simp [matVec, hr])]; omega

/-- A non-finite solver result is never returned. -/
theorem solver_nonfinite_raises (nrm : Vec → F) (A : Mat) (ncols : Nat) (b : Vec) (atol rtol : F) (xs : List F)
    (hx : toRat? xs = none) : ∀ x, solverM nrm A ncols b atol rtol (.vec xs) = .ok x → x = b.map (fun _ => 0) := by
  intro x h
  obtain ⟨_, _, h1 | ⟨xs', h2, h3, _⟩⟩ := solver_post nrm A ncols b atol rtol _ x h
  · exact h1.2
  · cases h2; rw [hx] at h3; cases h3

/-- Why the two finiteness checks in `_solver` matter: before the repair a NaN norm (NaN in the right-hand side or in the
matrix) sailed through `rhsnorm <= atol` and `resnorm > atol > 0`, and the solver's answer was returned as is. -/
theorem solver_nan_old_counterexample :
    solverOld (fun _ => nan) [[2, 1], [1, 3]] 2 [1, 1] (fin (1/100)) (fin 0) (.vec [fin 0, fin 0]) = .ok [0, 0] ∧
    solverM (fun _ => nan) [[2, 1], [1, 3]] 2 [1, 1] (fin (1/100)) (fin 0) (.vec [fin 0, fin 0]) = .error .rhsNonFinite ∧
    solverM (fun v => if v.headD 0 ≤ 1 then fin 2 else nan) [[2, 1], [1, 3]] 2 [1, 1] (fin (1/100)) (fin 0) (.vec [fin (-1), fin 0])
      = .error .resNonFinite := by
  decide +kernel

/-- `_with_solve.solve_withinfo` (legacy `newton(...).solve(tol)` etc.): same postcondition as `System.solve`. -/
theorem legacy_solve_post (tol : F) (mi : Int) (ma : Option Int) (evs : List Ev) (k : Nat) (r : F)
    (h : legacySolve tol mi ma evs = .returned k r) :
    r.isNan = false ∧ le r tol = true ∧ evs[k]? = some (.yield r) ∧ mi ≤ (k : Int) ∧
    (∀ M, ma = some M → mi ≤ M ∧ (k = 0 ∨ (k : Int) ≤ M)) ∧
    (∀ j, j < k → ∃ rj, evs[j]? = some (.yield rj) ∧ rj.isNan = false ∧ (mi ≤ (j : Int) → le rj tol = false)) := by
  have key : ∀ r0 rest, evs = .yield r0 :: rest → loop tol mi ma 0 r0 rest = .returned k r →
      r.isNan = false ∧ le r tol = true ∧ evs[k]? = some (.yield r) ∧ mi ≤ (k : Int) ∧
      (∀ M, ma = some M → (k = 0 ∨ (k : Int) ≤ M)) ∧
      (∀ j, j < k → ∃ rj, evs[j]? = some (.yield rj) ∧ rj.isNan = false ∧ (mi ≤ (j : Int) → le rj tol = false)) := by
    intro r0 rest he hl
    subst he
    obtain ⟨_, h2, h3, h4, h5⟩ := loop_post tol mi ma (.yield r0 :: rest) rest 0 r0 k r (by simp) (by simp) hl
    refine ⟨(F.le_not_nan h3).1, h3, h2, h4, ?_, ?_⟩
    · intro M hM
      subst hM
      cases k with
      | zero => left; rfl
      | succ k =>
        right
        obtain ⟨_, _, _, _, hmax⟩ := h5 k (by omega) (by omega)
        simp [hitMax] at hmax
        omega
    · intro j hj
      obtain ⟨rj, a, b, c, _⟩ := h5 j (by omega) hj
      exact ⟨rj, a, b, c⟩
  cases ma with
  | none =>
    simp only [legacySolve] at h
    cases evs with
    | nil => simp at h
    | cons e rest =>
      cases e with
      | raise t => simp at h
      | yield r0 =>
        simp at h
        obtain ⟨a, b, c, d, _, f⟩ := key r0 rest rfl h
        exact ⟨a, b, c, d, (fun M hM => by cases hM), f⟩
  | some M0 =>
    simp only [legacySolve] at h
    by_cases hm : M0 < mi
    · simp [hm] at h
    · cases evs with
      | nil => simp [hm] at h
      | cons e rest =>
        cases e with
        | raise t => simp [hm] at h
        | yield r0 =>
          simp [hm] at h
          obtain ⟨a, b, c, d, e, f⟩ := key r0 rest rfl h
          refine ⟨a, b, c, d, ?_, f⟩
          intro M hM
          cases hM
          exact ⟨by omega, e M0 rfl⟩

theorem legacy_nan_old_counterexample :
    legacySolveOld (fin (1/2)) 0 none [.yield (fin 5), .yield nan, .yield (fin 1)] = .returned 1 nan ∧
    legacySolve (fin (1/2)) 0 none [.yield (fin 5), .yield nan, .yield (fin 1)] = .solverError 1 .nan := by
  decide +kernel

/-! ### non-vacuity -/

example : solverM (fun v => fin (normSq v)) [[2, 0], [0, 4]] 2 [2, 4] (fin 0) (fin 0) (.vec [fin 1, fin 1]) = .ok [1, 1] := by
  decide +kernel
example : solverM (fun v => fin (normSq v)) [[2, 0], [0, 4]] 2 [2, 4] (fin (1/4)) (fin 0) (.vec [fin 1, fin 2])
    = .error (.tolNotReached [1, 2]) := by
  decide +kernel
example : solveM (fun v => fin (normSq v)) ⟨[[2, 1], [1, 3]], 2, 2, some [4, 7], some [5, 9], some (.vals [some 1, none]), none,
    fin 0, fin 0, .vec [fin (-7)]⟩ = .ok [1, 2] := by
  decide +kernel
example : solveSys (fin (1/2)) 2 (some 5) (.iter [.yield (fin 0), .yield (fin 3), .yield (fin (1/2))]) = .returned 2 (fin (1/2)) := by
  decide +kernel
example : (stepM 2 true 0 1 [false, true, false, true, true]).1 = true := by decide +kernel

/-! ## histories on one Matrix object: the sub-block cache of `Matrix.submatrix` -/

/-- the sub-block cache is transparent: a request is answered by the remembered block only when both masks are the ones
it was built from, so what `submatrix` hands out is always `A[ix_(rows, cols)]` (or `A` itself for two full masks),
whatever was requested from the same object before. -/
theorem submatrix_history_spec (A : Mat) (st : Option SubCache) (hst : SubCache.valid A st) (hist : List (List Bool × List Bool)) :
    (submatrixHist A st hist).map (·.2) =
      hist.map (fun rc => if allTrue rc.1 && allTrue rc.2 then A else subMat rc.1 rc.2 A) := by
  induction hist generalizing st with
  | nil => rfl
  | cons rc rest ih =>
    obtain ⟨r, c⟩ := rc
    simp only [submatrixHist, List.map_cons]
    rw [ih _ (submatrixM_valid A st r c hst)]
    congr 1
    by_cases hall : (allTrue r && allTrue c) = true
    · simp [submatrixM, hall]
    · rw [submatrixM_val A st r c hst (fun h => absurd h hall)]; simp [hall]

/-- the remembered block is used exactly when it was built from the same two masks (and the request is not the full matrix) -/
theorem submatrix_hit_iff (A : Mat) (st : Option SubCache) (rows cols : List Bool) :
    (submatrixM A st rows cols).2.1 = .hit ↔
      (allTrue rows && allTrue cols) = false ∧ ∃ c, st = some c ∧ rows = c.rows ∧ cols = c.cols := by
  unfold submatrixM
  split
  · next h => simp [h]
  · next h =>
    cases st with
    | none => simp
    | some c =>
      simp only
      split
      · next hne =>
        simp only [Bool.or_eq_true, bne_iff_ne, ne_eq] at hne
        simp only [reduceCtorEq, false_iff, not_and, not_exists]
        intro _ c' hc' hr hcn
        cases hc'
        rcases hne with h' | h' <;> exact h' (by assumption)
      · next hne =>
        have : rows = c.rows ∧ cols = c.cols := by simpa using hne
        simp only [true_iff]
        exact ⟨by simpa using h, c, rfl, this.1, this.2⟩

/-- one solve on an object with an arbitrary (valid) cache gives exactly the answer of `Matrix.solve` on a fresh object,
and leaves a valid cache behind. -/
theorem solve_cached_eq (nrm : Vec → F) (st : Option SubCache) (s : SolveIn) (hst : SubCache.valid s.A st)
    (hA : HasShape s.A s.nrows s.ncols) :
    (solveCached nrm st s).2 = solveM nrm s ∧ SubCache.valid s.A (solveCached nrm st s).1 := by
  constructor
  · apply solveB_eq
    intro I J hsel
    apply submatrixM_val _ _ _ _ hst
    intro hall
    have hall' : allTrue I = true ∧ allTrue J = true := by simpa using hall
    have hlen : I.length = s.nrows ∧ J.length = s.ncols := by
      unfold solveSel at hsel
      split at hsel
      · cases hsel
      · split at hsel
        · cases hsel
        · next lhs J' hc =>
          split at hsel
          · cases hsel
          · next I' hr =>
            cases hsel
            exact ⟨prepRows_length (prepCols_length hc) hr, prepCols_length hc⟩
    exact subMat_allTrue s.A I J hall'.1 hall'.2 (by rw [hlen.1, hlen.2]; exact hA)
  · unfold solveCached
    simp only
    split
    · exact submatrixM_valid _ _ _ _ hst
    · exact hst

/-- **history independence of `Matrix.solve`** — for every sequence of solves on ONE Matrix object (any mixture of
`lhs0` / boolean / NaN-float `constrain` / `rconstrain`, any inner-solver behaviour, any earlier cache content) every
outcome equals that of the same solve on a fresh object; together with `solve_post` / `constrain_exact` each returned
vector therefore carries its prescribed entries and a free-row residual within tolerance of the *full* matrix. -/
theorem solve_history_independent (nrm : Vec → F) (A : Mat) (nr nc : Nat) (hA : HasShape A nr nc)
    (st : Option SubCache) (hst : SubCache.valid A st) (reqs : List SolveIn)
    (hreq : ∀ s ∈ reqs, s.A = A ∧ s.nrows = nr ∧ s.ncols = nc) :
    solveHist nrm st reqs = reqs.map (solveM nrm) := by
  induction reqs generalizing st with
  | nil => rfl
  | cons s rest ih =>
    obtain ⟨hsA, hsr, hsc⟩ := hreq s (by simp)
    have h1 := solve_cached_eq nrm st s (hsA ▸ hst) (by rw [hsA, hsr, hsc]; exact hA)
    simp only [solveHist, List.map_cons]
    rw [h1.1, ih _ (hsA ▸ h1.2) (fun s' hs' => hreq s' (by simp [hs']))]

/-- the hypotheses of `solve_history_independent` are satisfiable with a cache that is hit: rows `[T,F]`, columns `[F,T]`
first, then the same rows with `rconstrain` absent. -/
example : ∃ r, submatrixHist [[1, 2], [3, 4]] none [([true, false], [false, true]), ([true, false], [true, false]), ([true, false], [true, false])]
    = r ∧ r.map (·.1) = [.miss, .miss, .hit] := ⟨_, rfl, by decide⟩

end NutilsVerif.C14
