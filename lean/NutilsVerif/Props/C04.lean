import NutilsVerif.Proofs.C04Tables
import NutilsVerif.Proofs.C04Chain
/-!
# C04 — symbolic derivatives equal the true derivatives: theorems

* `derivTable_sound` — every row of the table EXTRACTED from the running code (`Generated/C04.lean`: each `Pointwise.deriv`
  entry applied to scalar arguments, and the derivative trees the generic rules produce for reciprocal, negative, sqrt,
  abs, power, divide, subtract, `x**y`) is the true partial derivative over ℝ on the stated domain `Dom`.
* `specRules_sound` — the same for the specification rule table used by the formal derivative `pderiv` of the model.
* `pderivWith_hasDerivAt`, `pderiv_hasDerivAt`, `pderivVar_hasDerivAt` — the formal derivative on the carrier `Poly`
  (Leibniz rule over monomials, linearity over terms, chain rule through the atoms) is the derivative of the
  evaluation along every differentiable curve of interpretations; `pderiv_add`, `pderiv_mul`, `pderiv_const`.
* `clearAtom_sound`, `eqModInv_sound` — the comparison modulo `inv(k)·k = 1` used by the driver is sound.

What is NOT proved: that `Model/Expr.lean`'s evaluator commutes with interpretations of the atoms (parametricity is
assumed, see notes/C04.md), and the multivariate chain rule through two-argument function atoms (the rule table gives
the partial derivatives; joint differentiability of pow/arctan2/min/max is not stated).
-/
set_option linter.unusedSimpArgs false
set_option linter.unusedVariables false
namespace NutilsVerif.C04
open Real

/-- **Pointwise.deriv tables and generic scalar rules.**  For every row `(f, i, d)` extracted from the code whose
function name has a fixed real meaning, and every point `x` of the claimed domain of differentiability,
`t ↦ f(x with xᵢ := t)` has derivative `d(x)` at `xᵢ`.  (Row-by-row proof in `Proofs/C04Tables.lean`; it is
re-checked whenever the extracted table changes.) -/
theorem derivTable_sound : ∀ e ∈ Generated.table, e.name ∈ provedNames → ∀ x : Nat → ℝ, Dom e.name e.pos x → e.SoundAt x :=
  derivTable_sound_proof

/-- **Specification rules.**  The rule table that the formal partial derivative `pderiv` applies to function atoms
consists of true partial derivatives (same statement as `derivTable_sound`, for the hand-written table). -/
theorem specRules_sound : ∀ e ∈ specRules, e.name ∈ provedNames → ∀ x : Nat → ℝ, Dom e.name e.pos x → e.SoundAt x :=
  specRules_sound_proof

/-- **The rule in the carrier denotes the rule over ℝ**: under every interpretation that models the atom layer
(`AppModel`), `SE.toPoly` evaluates to `SE.sem`. -/
theorem rule_toPoly_sem (ρ : String → ℝ) (hρ : AppModel ρ) (args : List Poly) (e : SE) (v : Poly)
    (hn : e.noPowApp = true) (h : e.toPoly args = some v) :
    Poly.eval ρ v = e.sem (fun i => Poly.eval ρ (args[i]?.getD Poly.zero)) := toPoly_sem ρ hρ args e v hn h

/-- **Chain rule through a unary function atom** — the step `datom` performs: if the atom `a` denotes `f` of the value
of `q` along the curve and `q` moves with derivative `eval dq`, then `a` moves with derivative
`eval (rule(f)(q) · dq)` at every point of the claimed domain of `f` (rule = the row of `specRules` that
`specRule f 1 0` returns, see `specRule_lookup`). -/
theorem unary_atom_chain (f : String) (e : Entry) (q dq v : Poly) (ρ : ℝ → String → ℝ) (a : String) (t0 : ℝ)
    (hr : specRules.find? (fun e => e.name == f && e.arity == 1 && e.pos == 0) = some e) (hf : f ∈ provedNames)
    (hv : e.deriv.toPoly [q] = some v) (hρ : AppModel (ρ t0))
    (ha : ∀ t, ρ t a = sem1 f (Poly.eval (ρ t) q))
    (hq : HasDerivAt (fun t => Poly.eval (ρ t) q) (Poly.eval (ρ t0) dq) t0)
    (hdom : Dom f 0 (fun i => Poly.eval (ρ t0) (([q] : List Poly)[i]?.getD Poly.zero))) :
    HasDerivAt (fun t => ρ t a) (Poly.eval (ρ t0) (v * dq)) t0 :=
  unary_atom_hasDerivAt f e q dq v ρ a t0 hr hf hv hρ ha hq hdom

/-- the rule `datom` uses for `f` is the row found in the table -/
theorem specRule_lookup {f : String} {n i : Nat} {e : Entry}
    (h : specRules.find? (fun e => e.name == f && e.arity == n && e.pos == i) = some e) : specRule f n i = some e.deriv :=
  specRule_of_find h

/-! ### the formal partial derivative on `Poly` -/

/-- **Leibniz + chain rule on the carrier.**  Along a curve of interpretations `ρ t`, if every atom `a` moves with
derivative `eval (d a)`, the value of the polynomial `p` moves with derivative `eval (pderivWith d p)`; no
well-formedness of `p` is assumed. -/
theorem pderivWith_chain (ρ : ℝ → String → ℝ) (d : String → Option Poly) (p dp : Poly) (t0 : ℝ)
    (h : pderivWith d p = some dp)
    (hd : ∀ a da, d a = some da → HasDerivAt (fun t => ρ t a) (Poly.eval (ρ t0) da) t0) :
    HasDerivAt (fun t => Poly.eval (ρ t) p) (Poly.eval (ρ t0) dp) t0 :=
  pderivWith_hasDerivAt ρ d p dp t0 h hd

/-- The executable `pderiv` (memo table + fuel) satisfies the same chain rule with `datom` as atom derivative. -/
theorem pderiv_chain (ρ : ℝ → String → ℝ) (fuel : Nat) (x : String) (p dp : Poly) (t0 : ℝ)
    (h : pderiv (fuel + 1) x p = some dp)
    (hd : ∀ a da, datom (pderiv fuel x) x a = some da → HasDerivAt (fun t => ρ t a) (Poly.eval (ρ t0) da) t0) :
    HasDerivAt (fun t => Poly.eval (ρ t) p) (Poly.eval (ρ t0) dp) t0 :=
  pderiv_hasDerivAt ρ fuel x p dp t0 h hd

/-- **Polynomial fragment (true Jacobian entry).**  For a polynomial in independent variables, `pderivVar x p`
evaluates to the partial derivative of the value of `p` with respect to the variable `x`, at every point `ρ0`. -/
theorem pderivVar_true_partial (ρ0 : String → ℝ) (x : String) (p dp : Poly) (h : pderivVar x p = some dp) :
    HasDerivAt (fun t => Poly.eval (Function.update ρ0 x t) p) (Poly.eval ρ0 dp) (ρ0 x) :=
  pderivVar_hasDerivAt ρ0 x p dp h

/-- the formal partial derivative of a polynomial always exists -/
theorem pderivVar_total (x : String) (p : Poly) : (pderivVar x p).isSome := pderivVar_isSome x p

/-- on polynomials whose atoms are all argument entries, the executable `pderiv` is `pderivVar` -/
theorem pderiv_on_polynomials (fuel : Nat) (x : String) (p : Poly) (h : ∀ a ∈ atomsOf p, isVarAtom a = true) :
    pderiv (fuel + 1) x p = pderivVar x p := pderiv_eq_pderivVar fuel x p h

/-- `pderiv` is additive (semantically, for every interpretation of the atoms) -/
theorem pderiv_add (d : String → Option Poly) (ρ0 : String → ℝ) (p q dp dq r : Poly)
    (hp : pderivWith d p = some dp) (hq : pderivWith d q = some dq) (hr : pderivWith d (p + q) = some r) :
    Poly.eval ρ0 r = Poly.eval ρ0 dp + Poly.eval ρ0 dq := pderivWith_add_sem d ρ0 p q dp dq r hp hq hr

/-- `pderiv` satisfies the product rule (semantically, for every interpretation of the atoms) -/
theorem pderiv_mul (d : String → Option Poly) (ρ0 : String → ℝ) (p q dp dq r : Poly)
    (hp : pderivWith d p = some dp) (hq : pderivWith d q = some dq) (hr : pderivWith d (p * q) = some r) :
    Poly.eval ρ0 r = Poly.eval ρ0 dp * Poly.eval ρ0 q + Poly.eval ρ0 p * Poly.eval ρ0 dq :=
  pderivWith_mul_sem d ρ0 p q dp dq r hp hq hr

/-- the derivative of a constant is zero -/
theorem pderiv_const (d : String → Option Poly) (ρ0 : String → ℝ) (c : Rat) (r : Poly)
    (h : pderivWith d (Poly.ofRat c) = some r) : Poly.eval ρ0 r = 0 := pderivWith_const d ρ0 c r h

/-! ### comparison modulo reciprocals -/

/-- clearing a reciprocal atom multiplies the value by the corresponding power of its argument -/
theorem clearAtom_value (ρ : String → ℝ) (a : String) (Q D : Poly) (hQ : ρ a * Poly.eval ρ Q = 1)
    (hD : ∀ mc ∈ D.terms, (mc.1.map (·.1)).Nodup) :
    Poly.eval ρ (clearAtom a Q D)
      = Poly.eval ρ D * Poly.eval ρ Q ^ (D.terms.foldl (fun acc (m, _) => max acc (expOf a m)) 0) :=
  clearAtom_sound ρ a Q D hQ hD

/-- **`same-modinv` is sound.**  If `eqModInv` accepts two well-formed polynomials, they have the same value under
every interpretation in which each reciprocal atom is the reciprocal of its (well-formed) argument. -/
theorem eqModInv_equal (ρ : String → ℝ)
    (hinv : ∀ a Q, invRelation a = some Q → PolySorted Q ∧ ρ a * Poly.eval ρ Q = 1)
    (fuel : Nat) (p q : Poly) (hp : PolySorted p) (hq : PolySorted q) (h : eqModInv fuel p q = true) :
    Poly.eval ρ p = Poly.eval ρ q := eqModInv_sound ρ hinv fuel p q hp hq h

/-! ### the statements are not vacuous -/

/-- ∂/∂x (x²·y + 3/2·x − 1) = 2·x·y + 3/2, computed by the executable `pderiv` -/
example : (pderiv 3 "x[0]" (Poly.atom "x[0]" * Poly.atom "x[0]" * Poly.atom "y[]" + Poly.ofRat (3/2) * Poly.atom "x[0]" - 1)).map Poly.key
    = some "3/2+2*x[0]*y[]" := by decide +kernel

/-- a point of the domain of every proved row exists, e.g. for `arctan2` and `pow` -/
example : Dom "arctan2" 0 (fun _ => 1) := by simp [Dom]
example : Dom "pow" 1 (fun _ => 2) := by simp [Dom]

end NutilsVerif.C04
