import NutilsVerif.Generated.C04
import NutilsVerif.Proofs.C04Deriv
import NutilsVerif.Proofs.C04Link
/-!
# C04 — symbolic derivatives equal the true derivatives: theorems

* `derivTable_sound` — every row of the table EXTRACTED from the running code (`Generated/C04.lean`: each `Pointwise.deriv`
  entry applied to scalar arguments, and the derivative trees the generic rules produce for reciprocal, negative, sqrt,
  abs, power, divide, subtract, `x**y`) is the true partial derivative over ℝ on the stated domain `Dom`.
* `specRules_sound` — the same for the specification rule table used by the formal derivative `pderiv` of the model.
* `pderivWith_hasDerivAt`, `pderiv_hasDerivAt`, `pderivVar_hasDerivAt` — the formal derivative on the carrier `Poly`
  (Leibniz rule over monomials, linearity over terms, chain rule through the atoms) is the derivative of the
  evaluation along every differentiable curve of interpretations; `pderiv_add`, `pderiv_mul`, `pderiv_const`.
* `clearAtom_sound`, `eqModInv_sound` — the comparison modulo `inv(k)·k = 1` used by the driver is sound.

What is NOT proved: that `Model/Expr.lean`'s evaluator commutes with interpretations of the atoms (parametricity is
assumed, see notes/C04.md), and the multivariate chain rule through two-argument function atoms (the rule table gives
the partial derivatives; joint differentiability of pow/arctan2/min/max is not stated).
-/
set_option linter.unusedSimpArgs false
set_option linter.unusedVariables false
namespace NutilsVerif.C04
open Real

/-- **Pointwise.deriv tables and generic scalar rules.**  For every row `(f, i, d)` extracted from the code whose
function name has a fixed real meaning, and every point `x` of the claimed domain of differentiability,
`t ↦ f(x with xᵢ := t)` has derivative `d(x)` at `xᵢ`. -/
theorem derivTable_sound : ∀ e ∈ Generated.table, e.name ∈ provedNames → ∀ x : Nat → ℝ, Dom e.name e.pos x → e.SoundAt x := by
  intro e he hp x hd
  simp only [Generated.table, List.mem_cons, List.mem_nil_iff, or_false] at he
  rcases he with rfl | rfl | rfl | rfl | rfl | rfl | rfl | rfl | rfl | rfl | rfl | rfl | rfl | rfl | rfl | rfl | rfl | rfl | rfl | rfl | rfl | rfl | rfl | rfl | rfl | rfl | rfl | rfl | rfl | rfl | rfl | rfl
  · -- arccos 0
    simp [Entry.SoundAt, SE.sem, sem1, sem2, Dom, upd_01, upd_10] at hd ⊢
    have h := Real.hasDerivAt_arccos (ne_of_gt hd.1) (ne_of_lt hd.2)
    refine h.congr_deriv ?_
    rw [Real.rpow_neg_one, ← one_div (2:ℝ), ← Real.sqrt_eq_rpow, one_div, neg_add_eq_sub]
  · -- arcsin 0
    simp [Entry.SoundAt, SE.sem, sem1, sem2, Dom, upd_01, upd_10] at hd ⊢
    have h := Real.hasDerivAt_arcsin (ne_of_gt hd.1) (ne_of_lt hd.2)
    refine h.congr_deriv ?_
    rw [Real.rpow_neg_one, ← one_div (2:ℝ), ← Real.sqrt_eq_rpow, one_div, neg_add_eq_sub]
  · -- arctan 0
    simp [Entry.SoundAt, SE.sem, sem1, sem2, Dom, upd_01, upd_10] at hd ⊢
    refine (Real.hasDerivAt_arctan (x 0)).congr_deriv ?_
    rw [Real.rpow_neg_one, one_div, add_comm]
  · -- arctan2 0
    simp [Entry.SoundAt, SE.sem, sem1, sem2, Dom, upd_01, upd_10] at hd ⊢
    refine (hasDerivAt_arctan2_fst hd.1 hd.2).congr_deriv ?_
    rw [Real.rpow_neg_one]; ring_nf
  · -- arctan2 1
    simp [Entry.SoundAt, SE.sem, sem1, sem2, Dom, upd_01, upd_10] at hd ⊢
    refine (hasDerivAt_arctan2_snd hd.1 hd.2).congr_deriv ?_
    rw [Real.rpow_neg_one]; ring_nf
  · -- arctanh 0
    simp [Entry.SoundAt, SE.sem, sem1, sem2, Dom, upd_01, upd_10] at hd ⊢
    refine (hasDerivAt_artanh hd.1 hd.2).congr_deriv ?_
    rw [Real.rpow_neg_one, neg_add_eq_sub]
  · -- cos 0
    simp [Entry.SoundAt, SE.sem, sem1, sem2, Dom, upd_01, upd_10] at hd ⊢
    exact Real.hasDerivAt_cos (x 0)
  · -- cosh 0
    simp [Entry.SoundAt, SE.sem, sem1, sem2, Dom, upd_01, upd_10] at hd ⊢
    exact Real.hasDerivAt_cosh (x 0)
  · -- exp 0
    simp [Entry.SoundAt, SE.sem, sem1, sem2, Dom, upd_01, upd_10] at hd ⊢
    exact Real.hasDerivAt_exp (x 0)
  · -- log 0
    simp [Entry.SoundAt, SE.sem, sem1, sem2, Dom, upd_01, upd_10] at hd ⊢
    refine (Real.hasDerivAt_log (ne_of_gt hd)).congr_deriv ?_
    rw [Real.rpow_neg_one]
  · -- max 0
    simp [Entry.SoundAt, SE.sem, sem1, sem2, Dom, upd_01, upd_10] at hd ⊢
    refine (hasDerivAt_max_left hd).congr_deriv ?_
    rw [neg_add_eq_sub]; ring_nf
  · -- max 1
    simp [Entry.SoundAt, SE.sem, sem1, sem2, Dom, upd_01, upd_10] at hd ⊢
    refine (hasDerivAt_max_right hd).congr_deriv ?_
    rw [neg_add_eq_sub]; ring_nf
  · -- min 0
    simp [Entry.SoundAt, SE.sem, sem1, sem2, Dom, upd_01, upd_10] at hd ⊢
    refine (hasDerivAt_min_left hd).congr_deriv ?_
    rw [neg_add_eq_sub]; ring_nf
  · -- min 1
    simp [Entry.SoundAt, SE.sem, sem1, sem2, Dom, upd_01, upd_10] at hd ⊢
    refine (hasDerivAt_min_right hd).congr_deriv ?_
    rw [neg_add_eq_sub]; ring_nf
  · -- sin 0
    simp [Entry.SoundAt, SE.sem, sem1, sem2, Dom, upd_01, upd_10] at hd ⊢
    exact Real.hasDerivAt_sin (x 0)
  · -- sinh 0
    simp [Entry.SoundAt, SE.sem, sem1, sem2, Dom, upd_01, upd_10] at hd ⊢
    exact Real.hasDerivAt_sinh (x 0)
  · -- sinc0 0: not claimed (no real semantics fixed)
    simp [provedNames] at hp
  · -- tan 0
    simp [Entry.SoundAt, SE.sem, sem1, sem2, Dom, upd_01, upd_10] at hd ⊢
    refine (Real.hasDerivAt_tan hd).congr_deriv ?_
    rw [one_div]
  · -- tanh 0
    simp [Entry.SoundAt, SE.sem, sem1, sem2, Dom, upd_01, upd_10] at hd ⊢
    refine (hasDerivAt_tanh (x 0)).congr_deriv ?_
    ring_nf
  · -- reciprocal 0
    simp [Entry.SoundAt, SE.sem, sem1, sem2, Dom, upd_01, upd_10] at hd ⊢
    refine (Real.hasDerivAt_rpow_const (p := -1) (Or.inl hd)).congr_deriv ?_
    ring_nf
  · -- negative 0
    simp [Entry.SoundAt, SE.sem, sem1, sem2, Dom, upd_01, upd_10] at hd ⊢
    exact hasDerivAt_neg' (x 0)
  · -- sqrt 0
    simp [Entry.SoundAt, SE.sem, sem1, sem2, Dom, upd_01, upd_10] at hd ⊢
    refine (Real.hasDerivAt_rpow_const (p := 2⁻¹) (Or.inl (ne_of_gt hd))).congr_deriv ?_
    norm_num; ring_nf
  · -- abs 0
    simp [Entry.SoundAt, SE.sem, sem1, sem2, Dom, upd_01, upd_10] at hd ⊢
    exact hasDerivAt_sign_mul hd
  · -- power:3 0
    simp [Entry.SoundAt, SE.sem, sem1, sem2, Dom, upd_01, upd_10] at hd ⊢
    refine (hasDerivAt_pow 3 (x 0)).congr_deriv ?_
    norm_num; ring_nf
  · -- power:5/2 0
    simp [Entry.SoundAt, SE.sem, sem1, sem2, Dom, upd_01, upd_10] at hd ⊢
    refine (Real.hasDerivAt_rpow_const (p := 5/2) (Or.inl (ne_of_gt hd))).congr_deriv ?_
    norm_num; ring_nf
  · -- power:-2 0
    simp [Entry.SoundAt, SE.sem, sem1, sem2, Dom, upd_01, upd_10] at hd ⊢
    have h := ((hasDerivAt_pow 2 (x 0)).inv (pow_ne_zero 2 hd))
    refine h.congr_deriv ?_
    field_simp; ring_nf
  · -- divide 0
    simp [Entry.SoundAt, SE.sem, sem1, sem2, Dom, upd_01, upd_10] at hd ⊢
    exact ((hasDerivAt_id' (x 0)).const_mul (x 1 ^ (-1:ℝ))).congr_deriv (by ring)
  · -- divide 1
    simp [Entry.SoundAt, SE.sem, sem1, sem2, Dom, upd_01, upd_10] at hd ⊢
    refine ((Real.hasDerivAt_rpow_const (p := -1) (Or.inl hd)).mul_const (x 0)).congr_deriv ?_
    ring_nf
  · -- subtract 0
    simp [Entry.SoundAt, SE.sem, sem1, sem2, Dom, upd_01, upd_10] at hd ⊢
    exact ((hasDerivAt_id' (x 0)).const_add (-x 1))
  · -- subtract 1
    simp [Entry.SoundAt, SE.sem, sem1, sem2, Dom, upd_01, upd_10] at hd ⊢
    exact hasDerivAt_neg (x 1)
  · -- powvar 0
    simp [Entry.SoundAt, SE.sem, sem1, sem2, Dom, upd_01, upd_10] at hd ⊢
    have h0 : x 0 ≠ 0 := by
      rcases hd with h | h
      · exact ne_of_gt h
      · exact h.1
    refine (Real.hasDerivAt_rpow_const (p := x 1) (Or.inl h0)).congr_deriv ?_
    ring_nf
  · -- powvar 1
    simp [Entry.SoundAt, SE.sem, sem1, sem2, Dom, upd_01, upd_10] at hd ⊢
    refine (Real.hasStrictDerivAt_const_rpow hd (x 1)).hasDerivAt.congr_deriv ?_
    ring_nf

/-- **Specification rules.**  The rule table that the formal partial derivative `pderiv` applies to function atoms
consists of true partial derivatives (same statement as `derivTable_sound`, for the hand-written table). -/
theorem specRules_sound : ∀ e ∈ specRules, e.name ∈ provedNames → ∀ x : Nat → ℝ, Dom e.name e.pos x → e.SoundAt x := by
  intro e he hp x hd
  simp only [specRules, List.mem_cons, List.mem_nil_iff, or_false] at he
  rcases he with rfl | rfl | rfl | rfl | rfl | rfl | rfl | rfl | rfl | rfl | rfl | rfl | rfl | rfl | rfl | rfl | rfl | rfl | rfl | rfl | rfl | rfl | rfl | rfl | rfl | rfl | rfl | rfl | rfl | rfl | rfl | rfl | rfl | rfl | rfl
  · -- sin 0
    simp [Entry.SoundAt, SE.sem, sem1, sem2, Dom, upd_01, upd_10] at hd ⊢
    exact Real.hasDerivAt_sin (x 0)
  · -- cos 0
    simp [Entry.SoundAt, SE.sem, sem1, sem2, Dom, upd_01, upd_10] at hd ⊢
    exact Real.hasDerivAt_cos (x 0)
  · -- tan 0
    simp [Entry.SoundAt, SE.sem, sem1, sem2, Dom, upd_01, upd_10] at hd ⊢
    refine (Real.hasDerivAt_tan hd).congr_deriv ?_
    rw [one_div]
  · -- arcsin 0
    simp [Entry.SoundAt, SE.sem, sem1, sem2, Dom, upd_01, upd_10] at hd ⊢
    have h := Real.hasDerivAt_arcsin (ne_of_gt hd.1) (ne_of_lt hd.2)
    refine h.congr_deriv ?_
    rw [Real.rpow_neg_one, ← one_div (2:ℝ), ← Real.sqrt_eq_rpow, one_div, ← sub_eq_add_neg]
  · -- arccos 0
    simp [Entry.SoundAt, SE.sem, sem1, sem2, Dom, upd_01, upd_10] at hd ⊢
    have h := Real.hasDerivAt_arccos (ne_of_gt hd.1) (ne_of_lt hd.2)
    refine h.congr_deriv ?_
    rw [Real.rpow_neg_one, ← one_div (2:ℝ), ← Real.sqrt_eq_rpow, one_div, ← sub_eq_add_neg]
  · -- arctan 0
    simp [Entry.SoundAt, SE.sem, sem1, sem2, Dom, upd_01, upd_10] at hd ⊢
    refine (Real.hasDerivAt_arctan (x 0)).congr_deriv ?_
    rw [Real.rpow_neg_one, one_div]
  · -- exp 0
    simp [Entry.SoundAt, SE.sem, sem1, sem2, Dom, upd_01, upd_10] at hd ⊢
    exact Real.hasDerivAt_exp (x 0)
  · -- log 0
    simp [Entry.SoundAt, SE.sem, sem1, sem2, Dom, upd_01, upd_10] at hd ⊢
    refine (Real.hasDerivAt_log (ne_of_gt hd)).congr_deriv ?_
    rw [Real.rpow_neg_one]
  · -- sinh 0
    simp [Entry.SoundAt, SE.sem, sem1, sem2, Dom, upd_01, upd_10] at hd ⊢
    exact Real.hasDerivAt_sinh (x 0)
  · -- cosh 0
    simp [Entry.SoundAt, SE.sem, sem1, sem2, Dom, upd_01, upd_10] at hd ⊢
    exact Real.hasDerivAt_cosh (x 0)
  · -- tanh 0
    simp [Entry.SoundAt, SE.sem, sem1, sem2, Dom, upd_01, upd_10] at hd ⊢
    refine (hasDerivAt_tanh (x 0)).congr_deriv ?_
    ring_nf
  · -- arctanh 0
    simp [Entry.SoundAt, SE.sem, sem1, sem2, Dom, upd_01, upd_10] at hd ⊢
    refine (hasDerivAt_artanh hd.1 hd.2).congr_deriv ?_
    rw [Real.rpow_neg_one, ← sub_eq_add_neg]
  · -- arctan2 0
    simp [Entry.SoundAt, SE.sem, sem1, sem2, Dom, upd_01, upd_10] at hd ⊢
    refine (hasDerivAt_arctan2_fst hd.1 hd.2).congr_deriv ?_
    rw [Real.rpow_neg_one]; ring_nf
  · -- arctan2 1
    simp [Entry.SoundAt, SE.sem, sem1, sem2, Dom, upd_01, upd_10] at hd ⊢
    refine (hasDerivAt_arctan2_snd hd.1 hd.2).congr_deriv ?_
    rw [Real.rpow_neg_one]; ring_nf
  · -- inv 0
    simp [Entry.SoundAt, SE.sem, sem1, sem2, Dom, upd_01, upd_10] at hd ⊢
    refine (hasDerivAt_inv hd).congr_deriv ?_
    rfl
  · -- pow 0
    simp [Entry.SoundAt, SE.sem, sem1, sem2, Dom, upd_01, upd_10] at hd ⊢
    have h0 : x 0 ≠ 0 := by
      rcases hd with h | h
      · exact ne_of_gt h
      · exact h.1
    refine (Real.hasDerivAt_rpow_const (p := x 1) (Or.inl h0)).congr_deriv ?_
    ring_nf
  · -- pow 1
    simp [Entry.SoundAt, SE.sem, sem1, sem2, Dom, upd_01, upd_10] at hd ⊢
    refine (Real.hasStrictDerivAt_const_rpow hd (x 1)).hasDerivAt.congr_deriv ?_
    ring_nf
  · -- abs 0
    simp [Entry.SoundAt, SE.sem, sem1, sem2, Dom, upd_01, upd_10] at hd ⊢
    exact hasDerivAt_abs' hd
  · -- sign 0
    simp [Entry.SoundAt, SE.sem, sem1, sem2, Dom, upd_01, upd_10] at hd ⊢
    exact hasDerivAt_sign hd
  · -- min 0
    simp [Entry.SoundAt, SE.sem, sem1, sem2, Dom, upd_01, upd_10] at hd ⊢
    refine (hasDerivAt_min_left hd).congr_deriv ?_
    rw [← sub_eq_add_neg]; ring_nf
  · -- min 1
    simp [Entry.SoundAt, SE.sem, sem1, sem2, Dom, upd_01, upd_10] at hd ⊢
    refine (hasDerivAt_min_right hd).congr_deriv ?_
    rw [← sub_eq_add_neg]; ring_nf
  · -- max 0
    simp [Entry.SoundAt, SE.sem, sem1, sem2, Dom, upd_01, upd_10] at hd ⊢
    refine (hasDerivAt_max_left hd).congr_deriv ?_
    rw [← sub_eq_add_neg]; ring_nf
  · -- max 1
    simp [Entry.SoundAt, SE.sem, sem1, sem2, Dom, upd_01, upd_10] at hd ⊢
    refine (hasDerivAt_max_right hd).congr_deriv ?_
    rw [← sub_eq_add_neg]; ring_nf
  · -- floor 0
    simp [Entry.SoundAt, SE.sem, sem1, sem2, Dom, upd_01, upd_10] at hd ⊢
    exact hasDerivAt_floor hd
  · -- not 0
    simp [Entry.SoundAt, SE.sem, sem1, sem2, Dom, upd_01, upd_10] at hd ⊢
    exact hasDerivAt_of_eventually_const (eq_eventually_const hd)
  · -- less 0
    simp [Entry.SoundAt, SE.sem, sem1, sem2, Dom, upd_01, upd_10] at hd ⊢
    exact hasDerivAt_of_eventually_const (lt_eventually_const hd)
  · -- less 1
    simp [Entry.SoundAt, SE.sem, sem1, sem2, Dom, upd_01, upd_10] at hd ⊢
    exact hasDerivAt_of_eventually_const (gt_eventually_const (Ne.symm hd))
  · -- greater 0
    simp [Entry.SoundAt, SE.sem, sem1, sem2, Dom, upd_01, upd_10] at hd ⊢
    exact hasDerivAt_of_eventually_const (gt_eventually_const hd)
  · -- greater 1
    simp [Entry.SoundAt, SE.sem, sem1, sem2, Dom, upd_01, upd_10] at hd ⊢
    exact hasDerivAt_of_eventually_const (lt_eventually_const (Ne.symm hd))
  · -- equal 0
    simp [Entry.SoundAt, SE.sem, sem1, sem2, Dom, upd_01, upd_10] at hd ⊢
    exact hasDerivAt_of_eventually_const (eq_eventually_const hd)
  · -- equal 1
    simp [Entry.SoundAt, SE.sem, sem1, sem2, Dom, upd_01, upd_10] at hd ⊢
    exact hasDerivAt_of_eventually_const (eq_eventually_const' (Ne.symm hd))
  · -- fdiv 0
    simp [Entry.SoundAt, SE.sem, sem1, sem2, Dom, upd_01, upd_10] at hd ⊢
    exact hasDerivAt_fdiv_left hd.2
  · -- fdiv 1
    simp [Entry.SoundAt, SE.sem, sem1, sem2, Dom, upd_01, upd_10] at hd ⊢
    exact hasDerivAt_fdiv_right hd.1 hd.2
  · -- fmod 0
    simp [Entry.SoundAt, SE.sem, sem1, sem2, Dom, upd_01, upd_10] at hd ⊢
    have h := (hasDerivAt_id' (x 0)).sub ((hasDerivAt_fdiv_left hd.2).const_mul (x 1))
    exact h.congr_deriv (by ring)
  · -- fmod 1
    simp [Entry.SoundAt, SE.sem, sem1, sem2, Dom, upd_01, upd_10] at hd ⊢
    have h := (hasDerivAt_const (x 1) (x 0)).sub ((hasDerivAt_id' (x 1)).mul (hasDerivAt_fdiv_right hd.1 hd.2))
    exact h.congr_deriv (by ring)

/-! ### the formal partial derivative on `Poly` -/

/-- **Leibniz + chain rule on the carrier.**  Along a curve of interpretations `ρ t`, if every atom `a` moves with
derivative `eval (d a)`, the value of the polynomial `p` moves with derivative `eval (pderivWith d p)`; no
well-formedness of `p` is assumed. -/
theorem pderivWith_chain (ρ : ℝ → String → ℝ) (d : String → Option Poly) (p dp : Poly) (t0 : ℝ)
    (h : pderivWith d p = some dp)
    (hd : ∀ a da, d a = some da → HasDerivAt (fun t => ρ t a) (Poly.eval (ρ t0) da) t0) :
    HasDerivAt (fun t => Poly.eval (ρ t) p) (Poly.eval (ρ t0) dp) t0 :=
  pderivWith_hasDerivAt ρ d p dp t0 h hd

/-- The executable `pderiv` (memo table + fuel) satisfies the same chain rule with `datom` as atom derivative. -/
theorem pderiv_chain (ρ : ℝ → String → ℝ) (fuel : Nat) (x : String) (p dp : Poly) (t0 : ℝ)
    (h : pderiv (fuel + 1) x p = some dp)
    (hd : ∀ a da, datom (pderiv fuel x) x a = some da → HasDerivAt (fun t => ρ t a) (Poly.eval (ρ t0) da) t0) :
    HasDerivAt (fun t => Poly.eval (ρ t) p) (Poly.eval (ρ t0) dp) t0 :=
  pderiv_hasDerivAt ρ fuel x p dp t0 h hd

/-- **Polynomial fragment (true Jacobian entry).**  For a polynomial in independent variables, `pderivVar x p`
evaluates to the partial derivative of the value of `p` with respect to the variable `x`, at every point `ρ0`. -/
theorem pderivVar_true_partial (ρ0 : String → ℝ) (x : String) (p dp : Poly) (h : pderivVar x p = some dp) :
    HasDerivAt (fun t => Poly.eval (Function.update ρ0 x t) p) (Poly.eval ρ0 dp) (ρ0 x) :=
  pderivVar_hasDerivAt ρ0 x p dp h

/-- the formal partial derivative of a polynomial always exists -/
theorem pderivVar_total (x : String) (p : Poly) : (pderivVar x p).isSome := pderivVar_isSome x p

/-- on polynomials whose atoms are all argument entries, the executable `pderiv` is `pderivVar` -/
theorem pderiv_on_polynomials (fuel : Nat) (x : String) (p : Poly) (h : ∀ a ∈ atomsOf p, isVarAtom a = true) :
    pderiv (fuel + 1) x p = pderivVar x p := pderiv_eq_pderivVar fuel x p h

/-- `pderiv` is additive (semantically, for every interpretation of the atoms) -/
theorem pderiv_add (d : String → Option Poly) (ρ0 : String → ℝ) (p q dp dq r : Poly)
    (hp : pderivWith d p = some dp) (hq : pderivWith d q = some dq) (hr : pderivWith d (p + q) = some r) :
    Poly.eval ρ0 r = Poly.eval ρ0 dp + Poly.eval ρ0 dq := pderivWith_add_sem d ρ0 p q dp dq r hp hq hr

/-- `pderiv` satisfies the product rule (semantically, for every interpretation of the atoms) -/
theorem pderiv_mul (d : String → Option Poly) (ρ0 : String → ℝ) (p q dp dq r : Poly)
    (hp : pderivWith d p = some dp) (hq : pderivWith d q = some dq) (hr : pderivWith d (p * q) = some r) :
    Poly.eval ρ0 r = Poly.eval ρ0 dp * Poly.eval ρ0 q + Poly.eval ρ0 p * Poly.eval ρ0 dq :=
  pderivWith_mul_sem d ρ0 p q dp dq r hp hq hr

/-- the derivative of a constant is zero -/
theorem pderiv_const (d : String → Option Poly) (ρ0 : String → ℝ) (c : Rat) (r : Poly)
    (h : pderivWith d (Poly.ofRat c) = some r) : Poly.eval ρ0 r = 0 := pderivWith_const d ρ0 c r h

/-! ### comparison modulo reciprocals -/

/-- clearing a reciprocal atom multiplies the value by the corresponding power of its argument -/
theorem clearAtom_value (ρ : String → ℝ) (a : String) (Q D : Poly) (hQ : ρ a * Poly.eval ρ Q = 1)
    (hD : ∀ mc ∈ D.terms, (mc.1.map (·.1)).Nodup) :
    Poly.eval ρ (clearAtom a Q D)
      = Poly.eval ρ D * Poly.eval ρ Q ^ (D.terms.foldl (fun acc (m, _) => max acc (expOf a m)) 0) :=
  clearAtom_sound ρ a Q D hQ hD

/-- **`same-modinv` is sound.**  If `eqModInv` accepts two well-formed polynomials, they have the same value under
every interpretation in which each reciprocal atom is the reciprocal of its (well-formed) argument. -/
theorem eqModInv_equal (ρ : String → ℝ)
    (hinv : ∀ a Q, invRelation a = some Q → PolySorted Q ∧ ρ a * Poly.eval ρ Q = 1)
    (fuel : Nat) (p q : Poly) (hp : PolySorted p) (hq : PolySorted q) (h : eqModInv fuel p q = true) :
    Poly.eval ρ p = Poly.eval ρ q := eqModInv_sound ρ hinv fuel p q hp hq h

/-! ### the statements are not vacuous -/

/-- ∂/∂x (x²·y + 3/2·x − 1) = 2·x·y + 3/2, computed by the executable `pderiv` -/
example : (pderiv 3 "x[0]" (Poly.atom "x[0]" * Poly.atom "x[0]" * Poly.atom "y[]" + Poly.ofRat (3/2) * Poly.atom "x[0]" - 1)).map Poly.key
    = some "3/2+2*x[0]*y[]" := by decide +kernel

/-- a point of the domain of every proved row exists, e.g. for `arctan2` and `pow` -/
example : Dom "arctan2" 0 (fun _ => 1) := by simp [Dom]
example : Dom "pow" 1 (fun _ => 2) := by simp [Dom]

end NutilsVerif.C04
