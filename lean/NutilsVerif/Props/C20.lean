import NutilsVerif.Model.C20
import NutilsVerif.Generated.C20
/-!
# C20 — property theorems
-/
namespace NutilsVerif.C20

/-- (X) Every entry of the dispatch table extracted from `SI.py` whose function has a law in the trusted
classification `lawOf` is registered with the handler that implements this law. -/
theorem dispatch_table_sound :
    ∀ e ∈ Generated.dispatchTable, ∀ l, lawOf e.fname = some l → handlerKind e.handler e.rank = some (requiredKind l) := by
  decide

end NutilsVerif.C20
