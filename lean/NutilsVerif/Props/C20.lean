import NutilsVerif.Model.C20
import NutilsVerif.Generated.C20
import NutilsVerif.Proofs.C20Dim
import NutilsVerif.Proofs.C20Name
import NutilsVerif.Proofs.C20Kinds
import NutilsVerif.Proofs.C20Parse
import NutilsVerif.Proofs.C20Units
import NutilsVerif.Proofs.C20Expr
/-!
# C20 — physical dimensions are tracked soundly: property theorems

All statements are about the executable model `Model/C20.lean` of `nutils/SI.py`; the harness ties the model to
the real code.  Clauses of the property:

* (A) `*`, `/`, `**` on dimensions follow exact arithmetic on the exponents and form an abelian group
      → `dim_canonical`, `dim_ext`, `dim_group`, `composition_sound`
* (B) the class cache keyed by the name is sound, pickling by name round-trips
      → `split_name_roundtrip`, `name_injective`, `create_valid`
* (C) every dispatched function is routed to the handler its homogeneity law requires; that handler makes the
      result independent of the reference units; the numerical value is the plain computation
      → `dispatch_table_sound` (X), `result_dimension`, `value_commutes`, `units_invariance`, `dispatch_units_invariant`
* (D) adding / comparing / stacking / assigning / interpolating / locating with different dimensions is rejected
      → `mixed_rejected`
* (E) unit strings: no ambiguity between prefixed and unprefixed names; a leading number is a factor;
      `parse (format q unit) = q` on the token level
      → `unit_names_unambiguous` (X), `parse_number_prefix`, `parse_format_roundtrip_partial`
-/
namespace NutilsVerif.C20

/-! ## (A) the dimension group -/

/-- `from_powers`, `*`, `/`, `**` always return a canonical exponent vector (sorted, no zero exponent), whatever
the operands are: the value of `Dimension.__powers` is a function of the mathematical exponent vector. -/
theorem dim_canonical (l a b : Pows) (q : Rat) :
    Canon (fromPowers l) ∧ Canon (mul a b) ∧ Canon (div a b) ∧ Canon (pow a q) ∧ Canon one :=
  ⟨canon_fromPowers l, canon_mul a b, canon_div a b, canon_pow a q, canon_nil⟩

/-- canonical exponent vectors are equal iff they assign the same exponent to every base symbol; and the
operations compute exactly `+`, `-`, `* q` on these exponents. -/
theorem dim_ext {a b : Pows} (ha : Canon a) (hb : Canon b) :
    (a = b ↔ ∀ k, get a k = get b k) ∧
    (∀ k, get (mul a b) k = get a k + get b k) ∧ (∀ k, get (div a b) k = get a k - get b k) ∧
    (∀ q k, get (pow a q) k = get a k * q) :=
  ⟨⟨fun h _ => h ▸ rfl, ext ha hb⟩, get_mul ha.1 hb.1, get_div ha.1 hb.1, fun q k => get_pow ha.1 q k⟩

theorem dim_mul_comm {a b : Pows} (ha : Canon a) (hb : Canon b) : mul a b = mul b a := by
  apply ext (canon_mul _ _) (canon_mul _ _); intro k
  rw [get_mul ha.1 hb.1, get_mul hb.1 ha.1]; grind

theorem dim_mul_assoc {a b c : Pows} (ha : Canon a) (hb : Canon b) (hc : Canon c) : mul (mul a b) c = mul a (mul b c) := by
  apply ext (canon_mul _ _) (canon_mul _ _); intro k
  rw [get_mul (canon_mul a b).1 hc.1, get_mul ha.1 hb.1, get_mul ha.1 (canon_mul b c).1, get_mul hb.1 hc.1]; grind

theorem dim_mul_one {a : Pows} (ha : Canon a) : mul a one = a ∧ mul one a = a ∧ div a one = a := by
  refine ⟨?_, ?_, ?_⟩
  · apply ext (canon_mul _ _) ha; intro k; show get (mul a []) k = _; rw [get_mul ha.1 sorted_nil, get_nil]; grind
  · apply ext (canon_mul _ _) ha; intro k; show get (mul [] a) k = _; rw [get_mul sorted_nil ha.1, get_nil]; grind
  · apply ext (canon_div _ _) ha; intro k; show get (div a []) k = _; rw [get_div ha.1 sorted_nil, get_nil]; grind

theorem dim_div_self {a : Pows} (ha : Canon a) : div a a = one := by
  apply ext (canon_div _ _) canon_nil; intro k
  rw [get_div ha.1 ha.1]; show _ = get [] k; rw [get_nil]; grind

theorem dim_div_eq_mul_inv {a b : Pows} (ha : Canon a) (hb : Canon b) : div a b = mul a (pow b (-1)) := by
  apply ext (canon_div _ _) (canon_mul _ _); intro k
  rw [get_div ha.1 hb.1, get_mul ha.1 (canon_pow b _).1, get_pow hb.1]; grind

theorem dim_pow_add {a : Pows} (ha : Canon a) (p q : Rat) : pow a (p + q) = mul (pow a p) (pow a q) := by
  apply ext (canon_pow _ _) (canon_mul _ _); intro k
  rw [get_pow ha.1, get_mul (canon_pow a p).1 (canon_pow a q).1, get_pow ha.1, get_pow ha.1]; grind

theorem dim_pow_mul {a : Pows} (ha : Canon a) (p q : Rat) : pow (pow a p) q = pow a (p * q) := by
  apply ext (canon_pow _ _) (canon_pow _ _); intro k
  rw [get_pow (canon_pow a p).1, get_pow ha.1, get_pow ha.1]; grind

theorem dim_mul_pow {a b : Pows} (ha : Canon a) (hb : Canon b) (q : Rat) : pow (mul a b) q = mul (pow a q) (pow b q) := by
  apply ext (canon_pow _ _) (canon_mul _ _); intro k
  rw [get_pow (canon_mul a b).1, get_mul ha.1 hb.1, get_mul (canon_pow a q).1 (canon_pow b q).1, get_pow ha.1, get_pow hb.1]; grind

theorem dim_pow_one_zero {a : Pows} (ha : Canon a) : pow a 1 = a ∧ pow a 0 = one := by
  constructor
  · apply ext (canon_pow _ _) ha; intro k; rw [get_pow ha.1]; grind
  · apply ext (canon_pow _ _) canon_nil; intro k; rw [get_pow ha.1]; show _ = get [] k; rw [get_nil]; grind

/-- Clause "multiplying, dividing, taking powers and roots yield exactly the dimension dictated by the operands'
exponents": for all canonical exponent vectors and all rational exponents, `*` is an abelian group operation with
unit `one` and inverse `** -1`, `/` is multiplication with the inverse, and `**` is the ℚ-module action. -/
theorem dim_group {a b c : Pows} (ha : Canon a) (hb : Canon b) (hc : Canon c) (p q : Rat) :
    mul (mul a b) c = mul a (mul b c) ∧ mul a b = mul b a ∧ mul a one = a ∧ mul a (pow a (-1)) = one ∧
    div a b = mul a (pow b (-1)) ∧
    pow a (p + q) = mul (pow a p) (pow a q) ∧ pow (pow a p) q = pow a (p * q) ∧
    pow (mul a b) q = mul (pow a q) (pow b q) ∧ pow a 1 = a ∧ pow a 0 = one :=
  ⟨dim_mul_assoc ha hb hc, dim_mul_comm ha hb, (dim_mul_one ha).1,
   by rw [← dim_div_eq_mul_inv ha ha]; exact dim_div_self ha,
   dim_div_eq_mul_inv ha hb, dim_pow_add ha p q, dim_pow_mul ha p q, dim_mul_pow ha hb q,
   (dim_pow_one_zero ha).1, (dim_pow_one_zero ha).2⟩

/-- Quantifier "all compositions of the supported operators": for every expression tree over `*`, `/`, `**q`, `sqrt`,
add-like and dimension-preserving nodes with canonical leaves, the node-by-node dimension computation of the handlers
succeeds exactly when the expression is dimensionally consistent (both operands of every add-like node have the same
exponents by exact arithmetic), and then the result is canonical with, for every base symbol, exactly the exponent that
exact arithmetic on the leaves' exponents dictates. -/
theorem composition_sound (e : Expr) (hl : e.LeavesCanon) :
    ((∃ d, e.dim = .ok d) ↔ e.Consistent) ∧ (∀ d, e.dim = .ok d → Canon d ∧ ∀ k, get d k = e.expo k) := by
  obtain ⟨h1, h2⟩ := expr_sound e hl
  exact ⟨⟨fun ⟨d, hd⟩ => (h1 d hd).2.2, h2⟩, fun d hd => ⟨(h1 d hd).1, (h1 d hd).2.1⟩⟩

-- non-vacuity: force = M·L/T² is canonical, and √(force) · √(force) = force
example : Canon (fromPowers [("M", 1), ("L", 1), ("T", -2)]) := canon_fromPowers _
example : mul (pow [("L", 1), ("M", 1), ("T", -2)] (1/2)) (pow [("L", 1), ("M", 1), ("T", -2)] (1/2)) = [("L", 1), ("M", 1), ("T", -2)] := by
  decide +kernel

/-! ## (B) names -/

/-- Clause "the class cache keyed by the canonical name is sound / pickling round-trips": for every canonical
exponent vector over base symbols that `Dimension.create` admits, taking the class name apart with
`_split_factors` (as `Dimension.__getattr__` does) gives the exponent vector back — for all bases, all rational
exponents, any number of factors. -/
theorem split_name_roundtrip {d : Pows} (hd : Canon d) (hv : ∀ e ∈ d, ValidBase e.1) : dimOfName (name d) = .ok d :=
  dimOfName_name hd hv

/-- the cache key is injective on canonical exponent vectors -/
theorem name_injective {a b : Pows} (ha : Canon a) (hb : Canon b) (hva : ∀ e ∈ a, ValidBase e.1) (hvb : ∀ e ∈ b, ValidBase e.1)
    (h : name a = name b) : a = b := by
  have h1 := split_name_roundtrip ha hva
  have h2 := split_name_roundtrip hb hvb
  rw [h] at h1
  rw [h1] at h2
  exact Except.ok.inj h2

/-- Every symbol that `Dimension.create` accepts (`next(_split_factors(arg))[0] == arg`) is a valid base symbol; hence
`split_name_roundtrip` / `name_injective` apply to every dimension built from created bases by `*`, `/`, `**`. -/
theorem create_valid (s : List Char) (h : createCheck s = .ok) : ValidBase (String.ofList s) :=
  create_valid_aux s h

-- non-vacuity: the way back from the name of force**(3/2), and a name
example : (match dimOfName "M3_2*L3_2/T3".toList with | .ok d => decide (d = [("L", 3/2), ("M", 3/2), ("T", -3)]) | .error _ => false) = true := by
  decide +kernel
example : name [("T", -1)] = "/T".toList := by decide +kernel
example : ValidBase "L" ∧ ValidBase "θ" ∧ ValidBase "a1b" := by
  refine ⟨⟨by decide, by decide, by decide, ?_⟩, ⟨by decide, by decide, by decide, ?_⟩, ⟨by decide, by decide, by decide, ?_⟩⟩ <;>
  · intro c h; simp at h; subst h; decide
-- without the validity hypothesis the statement is false (`x1`² and `x`¹² have the same name); `create` rejects `x1`
example : name [("x1", 2)] = name [("x", 12)] ∧ createCheck "x1".toList = .invalid := by decide +kernel

/-! ## (C) the dispatch handlers -/

/-- (X) Every entry of the dispatch table extracted from `SI.py` whose function has a law in the trusted
classification `lawOf` is registered with the handler that implements this law. -/
theorem dispatch_table_sound :
    ∀ e ∈ Generated.dispatchTable, ∀ l, lawOf e.fname = some l → handlerKind e.handler e.rank = some (requiredKind l) := by
  decide

/-- Clause "yield exactly the dimension dictated by the operands' exponents": a successful single-result handler
returns the dimension given by its rule `ruleDim` (product, quotient, power, half power, …) for all operands. -/
theorem result_dimension {V} (k : Kind) (op : List (Arg V) → V) (tuple : V → List V) (expo : Arg V → Option Rat)
    (args : List (Arg V)) (c : Call V) (h : apply k op tuple expo args = .ok c) (hk : k ≠ .evaluate) :
    ∃ d, ruleDim k expo args = some d ∧ c.result.map Arg.dim = [d] :=
  result_dim_aux k op tuple expo args c h hk

/-- Clause "with a numerical value equal to the same computation on plain numbers in reference units": for every
handler and all arguments, a successful call applies the wrapped function to the payloads of the arguments (same
positions, nothing else) and returns its value(s) unchanged. -/
theorem value_commutes {V} (k : Kind) (op : List (Arg V) → V) (tuple : V → List V) (expo : Arg V → Option Rat)
    (args : List (Arg V)) (c : Call V) (h : apply k op tuple expo args = .ok c) :
    c.passed.map Arg.val = args.map Arg.val ∧
      c.result.map Arg.val = (if k = .evaluate then ((args.zip (tuple (op c.passed))).map (·.2)) else [op c.passed]) :=
  value_commutes_aux k op tuple expo args c h

/-- The meaning of the classification: if the wrapped function obeys homogeneity law `l`, then the handler
`requiredKind l` commutes with every change of reference units `sc` — rescaling all operands and calling gives the
rescaled result (same dimension, rescaled value), and the same error otherwise. -/
theorem units_invariance {S V} (sc : Scaling S V) (l : Law) (n : Nat) (hn : lawArity l = some n)
    (op : List (Arg V) → V) (tuple : V → List V) (expo : Arg V → Option Rat) (hlaw : LawHolds sc expo l op)
    (args : List (Arg V)) (hc : ∀ a ∈ args, Canon a.dim) (hrest : ∀ a ∈ args.drop n, a.isQ = false) :
    (apply (requiredKind l) op tuple expo (args.map sc.rescale)).map (·.result) =
      (apply (requiredKind l) op tuple expo args).map (fun c => c.result.map sc.rescale) :=
  units_invariance_aux sc l n hn op tuple expo hlaw args hc hrest

/-- (X) + the above: every extracted dispatch entry whose function obeys its classified law is handled in a way that
does not depend on the choice of reference units. -/
theorem dispatch_units_invariant {S V} (sc : Scaling S V) :
    ∀ e ∈ Generated.dispatchTable, ∀ l n, lawOf e.fname = some l → lawArity l = some n →
      ∀ k, handlerKind e.handler e.rank = some k →
      ∀ (op : List (Arg V) → V) (tuple : V → List V) (expo : Arg V → Option Rat), LawHolds sc expo l op →
      ∀ args : List (Arg V), (∀ a ∈ args, Canon a.dim) → (∀ a ∈ args.drop n, a.isQ = false) →
        (apply k op tuple expo (args.map sc.rescale)).map (·.result) =
          (apply k op tuple expo args).map (fun c => c.result.map sc.rescale) := by
  intro e he l n hl hn k hk op tuple expo hlaw args hc hrest
  have := dispatch_table_sound e he l hl
  rw [hk] at this
  cases this
  exact units_invariance sc l n hn op tuple expo hlaw args hc hrest

-- non-vacuity: a change of units exists (all scale factors one) and multiplication of rationals is bilinear for it
def trivialScaling : Scaling Rat Rat :=
  { one := 1, mul := (· * ·), div := (· / ·), spow := fun _ _ => 1, smul := (· * ·), σ := fun _ => 1,
    one_smul := Rat.one_mul, σ_one := rfl, σ_mul := by intros; simp [Rat.mul_one], σ_div := by intros; decide +kernel, σ_pow := by intros; rfl }
example : LawHolds trivialScaling (fun _ => none) .bilinear (fun as => match as with | a :: b :: _ => a.val * b.val | _ => 0) := by
  intro s t x y rest; simp only [trivialScaling, Arg.val]; grind

/-! ## (D) mixed dimensions -/

/-- Clause "adding, comparing, stacking or assigning quantities of different dimension is always rejected" (and
interpolating over a different abscissa, locating with different coordinates/tolerances): whenever a checked operand
is a Quantity and the dimensions differ the handler raises `DimensionError`; and no handler of these kinds ever
succeeds on operands of different dimension. -/
theorem mixed_rejected {V} (op : List (Arg V) → V) (tuple : V → List V) (expo : Arg V → Option Rat) :
    (∀ k, (k = .addLike ∨ k = .binaryOp) → ∀ a0 a1 rest, unpackOk [a0, a1] = true → a0.dim ≠ a1.dim →
        apply k op tuple expo (a0 :: a1 :: rest) = .error .dimension) ∧
    (∀ a0 i a2 rest, unpackOk [a0, a2] = true → a0.dim ≠ a2.dim → apply .setitem op tuple expo (a0 :: i :: a2 :: rest) = .error .dimension) ∧
    (∀ x xp fp rest, unpackOk [x, xp, fp] = true → x.dim ≠ xp.dim → apply .interp op tuple expo (x :: xp :: fp :: rest) = .error .dimension) ∧
    (∀ (sop : List (Arg V) → List (Arg V) → V) a0 as rest, unpackOk (a0 :: as) = true → (∃ a ∈ as, a.dim ≠ a0.dim) →
        applyStack sop (a0 :: as) rest = .error .dimension) ∧
    (∀ k args c, apply k op tuple expo args = .ok c →
        (k = .addLike ∨ k = .binaryOp → ∀ a0 a1 rest, args = a0 :: a1 :: rest → a0.dim = a1.dim) ∧
        (k = .setitem → ∀ a0 i a2 rest, args = a0 :: i :: a2 :: rest → a0.dim = a2.dim) ∧
        (k = .interp → ∀ x xp fp rest, args = x :: xp :: fp :: rest → x.dim = xp.dim)) ∧
    (∀ geom coords tol maxdist, applyLocate geom coords tol maxdist = .ok () →
        geom.1 = coords.1 ∧ (∀ t, tol = some t → t.1 = geom.1) ∧ (∀ m, maxdist = some m → m.1 = geom.1)) :=
  ⟨fun k hk a0 a1 rest hq hd => mixed_addLike k hk op tuple expo a0 a1 rest hq hd,
   fun a0 i a2 rest hq hd => mixed_setitem op tuple expo a0 i a2 rest hq hd,
   fun x xp fp rest hq hd => mixed_interp op tuple expo x xp fp rest hq hd,
   fun sop a0 as rest hq hd => mixed_stack sop a0 as rest hq hd,
   fun k args c h => mixed_never_ok k op tuple expo args c h,
   fun geom coords tol maxdist h => mixed_locate geom coords tol maxdist h⟩

-- non-vacuity: metre + second is rejected, metre + metre is not
example : apply (V := Nat) .addLike (fun _ => 0) (fun _ => []) (fun _ => none) [.q [("L", 1)] 1, .q [("T", 1)] 2] = .error .dimension := rfl
example : ∃ c, apply (V := Nat) .addLike (fun _ => 0) (fun _ => []) (fun _ => none) [.q [("L", 1)] 1, .q [("L", 1)] 2] = .ok c := ⟨_, rfl⟩

/-! ## (E) unit strings -/

/-- (X) For the unit definitions extracted from `SI.py`: no two definitions share a name, and the names that two
different definitions put into the table (the name itself and its 19 prefixed forms; `units['in']` has none) are
disjoint — so `Units.__setattr__` never reports a collision and every string names at most one unit (`min` is the
minute, not milli-inch; `Pa` is the pascal, not peta-year; …). -/
theorem unit_names_unambiguous :
    (Generated.unitDefs.map UDef.name).Nodup ∧
    ∀ a ∈ Generated.unitDefs, ∀ b ∈ Generated.unitDefs, a.name ≠ b.name → ∀ n ∈ a.names, n ∉ b.names :=
  ⟨by decide +kernel, names_disjoint Generated.unitDefs (by decide +kernel)⟩

/-- A numeral written in front of a unit string multiplies its value and does not change the dimension; errors are
unchanged (for every unit table, numeral and unit string that does not itself begin with a sign/digit/point). -/
theorem parse_number_prefix' (U : UTable) (num u : List Char) (x : Rat) (hnum : ∀ c ∈ num, isNumChar c = true)
    (hne : num ≠ []) (hx : readNum num = some x) (hu : ∀ c, u.head? = some c → isNumChar c = false) :
    parse U (num ++ u) = (parse U u).map (scaleU x) :=
  parse_number_prefix U num u x hnum hne hx hu

/-- Clause "parsing a unit string then formatting with the same unit round-trips the value", on the token level:
if `format(q, spec)` succeeds and prints the value `x` with unit text `unit`, then any numeral that reads back as `x`
followed by `unit` parses to exactly `q` (dimension and value).  *Partial*: the float formatting itself (`'.3f'`,
rounding to the printed precision) is not modelled — the full statement would be about
`parse (format q spec)` with Python's float formatter, which loses digits; and the unit must not begin with a
sign (for `format(q, '.1-2m')` the printed text `…-2m` does not parse back, also in the real code). -/
theorem parse_format_roundtrip_partial (U : UTable) (q : UVal) (spec pre unit txt : List Char) (x : Rat)
    (hf : formatParts U q spec = .ok (pre, x, unit))
    (htxt : ∀ c ∈ txt, isNumChar c = true) (hne : txt ≠ []) (hread : readNum txt = some x)
    (hu : ∀ c, unit.head? = some c → isNumChar c = false) :
    parse U (txt ++ unit) = .ok q :=
  format_parse_roundtrip U q spec pre unit txt x hf htxt hne hread hu

-- non-vacuity: 9 km/h formatted as '.1m/s' prints 2.5 and '2.5m/s' parses back
def U0 : UTable := [("m".toList, ⟨[("L", 1)], 1⟩), ("s".toList, ⟨[("T", 1)], 1⟩)]
example : (match formatParts U0 ⟨[("L", 1), ("T", -1)], 5/2⟩ ".1m/s".toList with | .ok r => decide (r = (".1".toList, 5/2, "m/s".toList)) | .error _ => false) = true := by decide +kernel
example : (match parse U0 "2.5m/s".toList with | .ok r => decide (r = ⟨[("L", 1), ("T", -1)], 5/2⟩) | .error _ => false) = true := by decide +kernel
-- the sign restriction is necessary: '-2m' is a legal unit for formatting but the printed text does not parse back
example : (formatParts U0 ⟨[("L", 1)], 3⟩ ".1-2m".toList).toBool = true ∧ (parse U0 "-1.5-2m".toList).toBool = false := by decide +kernel

end NutilsVerif.C20
