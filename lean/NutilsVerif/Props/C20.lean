import NutilsVerif.Model.C20
import NutilsVerif.Generated.C20
/-!
# C20 — property theorems
-/
namespace NutilsVerif.C20

/-- (X) Every entry of the dispatch table extracted from `SI.py` whose function has a law in the trusted
classification `lawOf` is registered with the handler that implements this law. -/
theorem dispatch_table_sound :
    ∀ e ∈ Generated.dispatchTable, ∀ l, lawOf e.fname = some l → handlerKind e.handler e.rank = some (requiredKind l) := by
  decide

/-- (X) Running the model of `Units.__setattr__` / `parse` over the unit definitions extracted from `SI.py`
succeeds (no collision between a prefixed and an unprefixed name) and every unit of the specification table
has exactly the specified dimension and value. -/
theorem si_units_sound :
    ∃ U, defineAll [] Generated.unitDefs = .ok U ∧ (∀ e ∈ siSpec, lookup U e.1 = some e.2) ∧ (∀ n ∈ siAbsent, lookup U n = none) := by
  decide +kernel

end NutilsVerif.C20
