import NutilsVerif.Proofs.C06Arith
import NutilsVerif.Proofs.C06Div
import NutilsVerif.Proofs.C06Sum
import NutilsVerif.Proofs.C06Poly
import NutilsVerif.Proofs.C06Einsum
import NutilsVerif.Proofs.C06Expr
import NutilsVerif.Proofs.C06Cons
import NutilsVerif.Proofs.C06Agree
import NutilsVerif.Proofs.C06Len
import NutilsVerif.Proofs.C06Comm
import NutilsVerif.Model.C06Func
/-!
# C06 — static array metadata is sound: property theorems

`PyNum` = Python numbers used as range endpoints (`int`, `±inf`, `nan`); `Valid r` = the range passed the assertions of
`Array._intbounds`; `Mem v r` = `lower <= v <= upper`; `bnd raw` = `_intbounds_impl` followed by that validation.

Part 1: one theorem per class with an `_intbounds_impl`: for ALL validated operand ranges (finite or infinite endpoints) and ALL
concrete operand values inside them, the validation succeeds and the concrete result of the operation (Python semantics:
`Int.fdiv`, `Int.fmod`, …) lies inside the transferred range.
Part 2: induction over the expression language — every node evaluates inside its inferred range under every environment and at
every loop iteration; evaluation depends only on the announced arguments (a loop removes its own index).
(also Part 2) the evaluated value has the announced shape (`shape_sound`).
Part 3: every consumer of ranges (`_isindex`, `InRange/Mod/Minimum/Maximum/NormDim._simplified`, `Power.__post_init__`,
`InsertAxis._inverse`) is value preserving.
Part 4 (`namespace Func`): user-level function arrays — the announced-arguments table computed by `function._Replace.__init__`
(`Model/C06Func.lean`) suffices for evaluation, for arbitrary nestings of simultaneous replacements.
-/
namespace NutilsVerif.C06
open PyNum

theorem bnd_intro {raw : Option Rng} {v : Int} (h : ∃ r', raw = some r' ∧ Mem v r') : ∃ r', bnd raw = some r' ∧ Mem v r' := by
  obtain ⟨r', e, m⟩ := h
  exact ⟨r', bnd_of_mem e m, m⟩

/-! ## Part 1: the transfer functions -/

/-- `Constant`: every entry of a non-empty integer constant lies in `(min, max)`; the range is always validated. -/
theorem intbounds_sound_Constant (vals : List Int) : ∃ r', tfConstant vals = some r' ∧ ∀ v ∈ vals, Mem v r' :=
  tfConstant_sound vals

/-- `Array._intbounds_impl` (default): a 0-d constant evaluates to `v` and announces `(v, v)`; everything else is unbounded. -/
theorem intbounds_sound_Default (c : Option Int) (v : Int) (h : ∀ c', c = some c' → v = c') : ∃ r', bnd (tfDefault c) = some r' ∧ Mem v r' := by
  apply bnd_intro
  cases c with
  | none => exact ⟨_, rfl, by simp [unbounded]⟩
  | some c' => exact ⟨_, rfl, by rw [h c' rfl]; simp⟩

/-- `InsertAxis, Transpose, TakeDiag, Take, _TakeSlice, _Get, Ravel, Unravel, LoopConcatenate`: the entries are entries of the operand. -/
theorem intbounds_sound_Identity {r : Rng} {v : Int} (h : Mem v r) : ∃ r', bnd (tfIdentity r) = some r' ∧ Mem v r' :=
  bnd_intro ⟨r, rfl, h⟩

/-- `AssertEqual`: a value that both operands take lies in the intersection. -/
theorem intbounds_sound_AssertEqual {r1 r2 : Rng} {x : Int} (hx : Mem x r1) (hy : Mem x r2) : ∃ r', bnd (tfAssertEqual r1 r2) = some r' ∧ Mem x r' :=
  bnd_intro (tfAssertEqual_sound hx hy)

/-- `Multiply`: products with infinities through the `b1 and b2 and b1 * b2` guard, builtin `min`/`max` of the four corners. -/
theorem intbounds_sound_Multiply {r1 r2 : Rng} (h1 : Valid r1) (h2 : Valid r2) {x y : Int} (hx : Mem x r1) (hy : Mem y r2) :
    ∃ r', bnd (tfMul r1 r2) = some r' ∧ Mem (x * y) r' :=
  bnd_intro ⟨_, rfl, mulRng_sound h1 h2 hx hy⟩

/-- `Multiply.funcs` is a `frozenmultiset`: the range does not depend on which factor is iterated first. -/
theorem intbounds_order_independent_Multiply {r1 r2 : Rng} (h1 : Valid r1) (h2 : Valid r2) : tfMul r2 r1 = tfMul r1 r2 := by
  simp only [tfMul, mulRng_comm h1 h2]

/-- `Add.funcs` is a `frozenmultiset` as well. -/
theorem intbounds_order_independent_Add (r1 r2 : Rng) : tfAdd [r2, r1] = tfAdd [r1, r2] :=
  tfAdd_comm r1 r2

/-- `Add._terms` flattens nested `Add`s: summing the bounds of all leaf terms equals adding the bounds of the two operands, so the
pairwise `bounds (.add a b)` of the expression language agrees with the flattened computation of the code. -/
theorem intbounds_Add_flatten (rs1 rs2 : List Rng) (h1 : ∀ r ∈ rs1, Valid r) (h2 : ∀ r ∈ rs2, Valid r) (x y : Rng)
    (hx : tfAdd rs1 = some x) (hy : tfAdd rs2 = some y) : tfAdd (rs1 ++ rs2) = tfAdd [x, y] :=
  tfAdd_append rs1 rs2 h1 h2 x y hx hy

/-- `Add` over any number of (flattened) terms. -/
theorem intbounds_sound_Add {xs : List Int} {rs : List Rng} (h : MemAll xs rs) : ∃ r', bnd (tfAdd rs) = some r' ∧ Mem xs.sum r' :=
  bnd_intro (tfAdd_sound h)

/-- `Einsum` (after the fix): `dims` are the actual summed lengths, `terms` the `∏ dims` tuples of operand entries whose products are summed. -/
theorem intbounds_sound_Einsum (sumLengths args : List Rng) (hvl : ∀ l ∈ sumLengths, Valid l ∧ PyNum.le (int 0) l.1 = true)
    (hva : ∀ r ∈ args, Valid r) (dims : List Int) (hd : MemAll dims sumLengths) (terms : List (List Int))
    (hcount : (terms.length : Int) = dims.prod) (ht : ∀ t ∈ terms, MemAll t args) :
    ∃ r', bnd (tfEinsum sumLengths args) = some r' ∧ Mem ((terms.map List.prod).sum) r' :=
  bnd_intro (tfEinsum_sound sumLengths args hvl hva dims hd terms hcount ht)

/-- The `Einsum` transfer function of the pinned tree (only upper bounds of the summed lengths) is unsound. -/
theorem intbounds_unsound_Einsum_pinned : ∃ (len : Rng) (n : Int) (args : List Rng) (terms : List (List Int)), Valid len ∧ Mem n len ∧
    (terms.length : Int) = n ∧ (∀ t ∈ terms, MemAll t args) ∧
    ∃ r', tfEinsumOld [len.2] args = some r' ∧ ¬ Mem ((terms.map List.prod).sum) r' :=
  tfEinsumOld_unsound

/-- `Sum` over an axis whose length `xs.length` lies in the (non-negative) length range, incl. the `0 * inf = nan` trap. -/
theorem intbounds_sound_Sum {f len : Rng} (hf : Valid f) (hl : Valid len) (hidx : PyNum.le (int 0) len.1 = true) {xs : List Int}
    (hn : Mem (xs.length : Int) len) (hx : ∀ x ∈ xs, Mem x f) : ∃ r', bnd (tfSum f len) = some r' ∧ Mem xs.sum r' :=
  bnd_intro (tfSum_sound hf hl hidx hn hx)

theorem intbounds_sound_Negative {r : Rng} (h : Valid r) {x : Int} (hx : Mem x r) : ∃ r', bnd (tfNeg r) = some r' ∧ Mem (-x) r' :=
  bnd_intro (tfNeg_sound h hx)

/-- `FloorDivide` with Python floor semantics (`Int.fdiv`), mixed signs, infinite endpoints; divisor ranges containing 0 are unbounded. -/
theorem intbounds_sound_FloorDivide {r1 r2 : Rng} (h1 : Valid r1) (h2 : Valid r2) {x y : Int} (hx : Mem x r1) (hy : Mem y r2) (hy0 : y ≠ 0) :
    ∃ r', bnd (tfFloorDiv r1 r2) = some r' ∧ Mem (Int.fdiv x y) r' :=
  bnd_intro (tfFloorDiv_sound h1 h2 hx hy hy0)

/-- `FloorDivide._intbounds_impl` never produces a float endpoint (the case the source comment worries about) nor an invalid range. -/
theorem intbounds_total_FloorDivide {r1 r2 : Rng} (h1 : Valid r1) (h2 : Valid r2) : ∃ r', bnd (tfFloorDiv r1 r2) = some r' := by
  obtain ⟨r', e, hv⟩ := tfFloorDiv_total h1 h2
  exact ⟨r', by rw [e]; exact hv⟩

theorem intbounds_sound_Absolute {r : Rng} (h : Valid r) {x : Int} (hx : Mem x r) : ∃ r', bnd (tfAbs r) = some r' ∧ Mem (iabs x) r' :=
  bnd_intro (tfAbs_sound h hx)

/-- `Mod` with Python semantics (`Int.fmod`); `cs` is the value of the node when it is a 0-d constant (fall-back to the default). -/
theorem intbounds_sound_Mod {r1 r2 : Rng} (h1 : Valid r1) (h2 : Valid r2) {x y : Int} (hx : Mem x r1) (hy : Mem y r2) (hy0 : y ≠ 0)
    (cs : Option Int) (hcs : ∀ c, cs = some c → Int.fmod x y = c) : ∃ r', bnd (tfMod r1 r2 cs) = some r' ∧ Mem (Int.fmod x y) r' :=
  bnd_intro (tfMod_sound h1 h2 hx hy hy0 cs hcs)

theorem intbounds_sound_Minimum {r1 r2 : Rng} (h1 : Valid r1) (h2 : Valid r2) {x y : Int} (hx : Mem x r1) (hy : Mem y r2) :
    ∃ r', bnd (tfMin r1 r2) = some r' ∧ Mem (min x y) r' :=
  bnd_intro (tfMin_sound h1 h2 hx hy)

theorem intbounds_sound_Maximum {r1 r2 : Rng} (h1 : Valid r1) (h2 : Valid r2) {x y : Int} (hx : Mem x r1) (hy : Mem y r2) :
    ∃ r', bnd (tfMax r1 r2) = some r' ∧ Mem (max x y) r' :=
  bnd_intro (tfMax_sound h1 h2 hx hy)

/-- `Cast` / `BoolToInt` of a boolean. -/
theorem intbounds_sound_BoolToInt (b : Bool) : ∃ r', bnd tfBoolToInt = some r' ∧ Mem (if b then 1 else 0) r' :=
  bnd_intro ⟨_, rfl, by cases b <;> simp⟩

theorem intbounds_sound_Sign {r : Rng} (h : Valid r) {x : Int} (hx : Mem x r) : ∃ r', bnd (tfSign r) = some r' ∧ Mem (isign x) r' :=
  bnd_intro (tfSign_sound h hx)

theorem intbounds_sound_Zeros : ∃ r', bnd tfZeros = some r' ∧ Mem 0 r' :=
  bnd_intro ⟨_, rfl, by simp⟩

/-- `Inflate` (after the fix): `xs` are the entries added into one dof, at most `inflateMult k` many. -/
theorem intbounds_sound_Inflate {f : Rng} (hf : Valid f) (k : DofKind) {xs : List Int} (hx : ∀ x ∈ xs, Mem x f)
    (hm : PyNum.le (int xs.length) (inflateMult k) = true) : ∃ r', bnd (tfInflate f k) = some r' ∧ Mem xs.sum r' :=
  bnd_intro (tfInflate_sound hf k hx hm)

/-- the multiplicity used for a non-constant dofmap bounds the number of dofmap entries: `∏ dims ≤ ∏ upper bounds` -/
theorem inflate_multiplicity_sound (ds : List Int) (us : List PyNum) (h : ds.length = us.length)
    (hd : ∀ p ∈ ds.zip us, 0 ≤ p.1 ∧ PyNum.le (int p.1) p.2 = true) : PyNum.le (int ds.prod) (inflateMult (.shape us)) = true := by
  have := inflateMult_shape_sound ds us h hd (int 1) 1 (by omega) (by simp)
  simpa [inflateMult] using this

/-- The `Inflate` transfer function of the pinned tree ignores that entries sharing a dof are added: unsound. -/
theorem intbounds_unsound_Inflate_pinned : ∃ (f : Rng) (xs : List Int), Valid f ∧ (∀ x ∈ xs, Mem x f) ∧
    ∃ r', tfInflateOld f = some r' ∧ ¬ Mem xs.sum r' :=
  tfInflateOld_unsound

/-- `Find`, `ArgSort`, `_LoopIndex`: an index `0 ≤ v < n`, `n` in the length range (a loop body runs for `0 ≤ index < length` only). -/
theorem intbounds_sound_IndexBelow {len : Rng} (h : Valid len) {n v : Int} (hn : Mem n len) (h0 : 0 ≤ v) (h1 : v < n) :
    ∃ r', bnd (tfIndexBelow len) = some r' ∧ Mem v r' :=
  bnd_intro (tfIndexBelow_sound h hn h0 h1)

theorem intbounds_sound_Range {len : Rng} (h : Valid len) (hidx : PyNum.le (int 0) len.1 = true) {n v : Int} (hn : Mem n len) (h0 : 0 ≤ v) (h1 : v < n) :
    ∃ r', bnd (tfRange len) = some r' ∧ Mem v r' :=
  bnd_intro (tfRange_sound h hidx hn h0 h1)

/-- `RavelIndex` on its documented domain (`ia ≥ 0` indexes an axis, `nb ≥ 0` is a length): if the range is validated
(`-inf * 0 = nan` makes `_intbounds` raise) the value is inside. -/
theorem intbounds_sound_RavelIndex {ia ib nb : Rng} (h3 : Valid nb) (hidx : PyNum.le (int 0) nb.1 = true)
    {a b n : Int} (ha : Mem a ia) (hb : Mem b ib) (hn : Mem n nb) (ha0 : 0 ≤ a) :
    ∀ r', bnd (tfRavelIndex ia ib nb) = some r' → Mem (ravelIndexVal a b n) r' := by
  intro r' hr
  obtain ⟨r0, e, m⟩ := tfRavelIndex_sound h3 hidx ha hb hn ha0
  obtain ⟨e2, hv⟩ := bnd_some hr
  rw [e] at e2; cases e2
  rcases m with m | m
  · exact absurd m (valid_nn hv).1
  · exact m

/-- `InRange`: evaluation succeeds only for `0 ≤ index < length`. -/
theorem intbounds_sound_InRange {ri rl : Rng} (h1 : Valid ri) (h2 : Valid rl) {i n v : Int} (hi : Mem i ri) (hn : Mem n rl)
    (hv : inRangeVal i n = some v) : ∃ r', bnd (tfInRange ri rl) = some r' ∧ Mem v r' :=
  bnd_intro (tfInRange_sound h1 h2 hi hn hv)

theorem intbounds_sound_PolyDegree (nv : Nat) {r : Rng} {n : Int} {d : Nat} (hn : Mem n r) (hd : degree? nv n = some d) :
    ∃ r', bnd (tfPolyDegree nv r) = some r' ∧ Mem (d : Int) r' :=
  bnd_intro (tfPolyDegree_sound nv hn hd)

theorem intbounds_sound_PolyNCoeffs (nv : Nat) {r : Rng} {d : Int} (hd : Mem d r) (hd0 : 0 ≤ d) :
    ∃ r', bnd (tfPolyNCoeffs nv r) = some r' ∧ Mem (ncoeffs nv d.toNat : Int) r' :=
  bnd_intro (tfPolyNCoeffs_sound nv hd hd0)

/-- `NormDim` with the semantics of `numeric.normdim`. -/
theorem intbounds_sound_NormDim {rl ri : Rng} (h1 : Valid rl) (h2 : Valid ri) {n i v : Int} (hn : Mem n rl) (hi : Mem i ri)
    (hv : normdimVal n i = some v) : ∃ r', bnd (tfNormDim rl ri) = some r' ∧ Mem v r' :=
  bnd_intro (tfNormDim_sound h1 h2 hn hi hv)

theorem intbounds_sound_TransformIndex (ntarget : Nat) {v : Int} (h0 : 0 ≤ v) (h1 : v < ntarget) :
    ∃ r', bnd (tfTransformIndex ntarget) = some r' ∧ Mem v r' :=
  bnd_intro (tfTransformIndex_sound ntarget h0 h1)

/-- `_SizesToOffsets`: an offset is the sum of the first `xs.length ≤ n` sizes. -/
theorem intbounds_sound_SizesToOffsets {sizes len : Rng} (hs : Valid sizes) (hs0 : PyNum.le (int 0) sizes.1 = true)
    {xs : List Int} {n : Int} (hx : ∀ x ∈ xs, Mem x sizes) (hn : Mem n len) (hk : (xs.length : Int) ≤ n) :
    ∃ r', bnd (tfSizesToOffsets sizes len) = some r' ∧ Mem xs.sum r' :=
  bnd_intro (tfSizesToOffsets_sound hs hs0 hx hn hk)

theorem intbounds_sound_SearchSorted {len : Rng} (h : Valid len) {n v : Int} (hn : Mem n len) (h0 : 0 ≤ v) (h1 : v ≤ n) :
    ∃ r', bnd (tfSearchSorted len) = some r' ∧ Mem v r' :=
  bnd_intro (tfSearchSorted_sound h hn h0 h1)

/-! ## Part 2: the expression language -/

/-- Every node of every expression evaluates inside its inferred range, under every environment (argument values, loop
indices) in which it evaluates — in particular at every loop iteration, since `eval` of a loop evaluates the body with the index
bound to each `0 ≤ i < length`. -/
theorem intbounds_sound (e : Expr) (ρ : Env) (v : List Int) (r : Rng) (hv : eval e ρ = some v) (hb : bounds e = some r) :
    ∀ x ∈ v, Mem x r :=
  intbounds_sound_expr e ρ v r hv hb

/-- every inferred range satisfies the assertions of `_intbounds` (integer or infinite endpoints of the right sign, lower ≤ upper) -/
theorem intbounds_valid (e : Expr) (r : Rng) (h : bounds e = some r) : Valid r :=
  bounds_valid e r h

/-- The evaluated value (and whether evaluation succeeds) depends only on the arguments: two environments that agree on
`depsAll e` — the announced arguments plus the arguments of the announced shapes of `Argument`s; a `Loop` removes its own index
from the arguments of its body — give the same result. -/
theorem eval_depends_only_on_arguments (e : Expr) (ρ ρ' : Env) (h : ∀ d ∈ depsAll e, Agree ρ ρ' d) : eval e ρ = eval e ρ' :=
  eval_congr e ρ ρ' h

/-- The evaluated VALUE depends only on the arguments the code ANNOUNCES (`Evaluable.arguments`, where `Argument.arguments` and
`_LoopIndex.arguments` are `{self}` and a `Loop` removes its own index): whenever evaluation succeeds in two environments that
agree on `deps e`, the results are equal.  (The arguments of an `Argument`'s shape can only make evaluation raise.) -/
theorem eval_depends_only_on_announced_arguments (e : Expr) (ρ ρ' : Env) (v v' : List Int) (h : ∀ d ∈ deps e, Agree ρ ρ' d)
    (hv : eval e ρ = some v) (hv' : eval e ρ' = some v') : v = v' :=
  eval_agree e ρ ρ' v v' h hv hv'

/-- What evaluation delivers has the announced shape: a 0-d node evaluates to exactly one entry, and a 1-d node to as many
entries as its announced length — a constant or a computed expression (`Argument` shapes, `Range(n)`, `InsertAxis(·, n)`,
`_SizesToOffsets` = `n + 1`, `LoopConcatenate` = `Take(_SizesToOffsets(chunk sizes), length)`) — evaluates to, in the same
environment. -/
theorem shape_sound (e : Expr) (hwf : WF e) (ρ : Env) (v : List Int) (hv : eval e ρ = some v) :
    match lenOf e with
    | none => v.length = 1
    | some l => scalarOf (eval l ρ) = some (v.length : Int) :=
  len_sound e hwf ρ v hv

/-! ## Part 3: consumers of ranges -/

/-- `_isindex`, `Power.__post_init__` (`power._intbounds[0] >= 0`), `InsertAxis._inverse` (`length._intbounds[0] > 1`): a constant
below the lower endpoint is below every evaluated value. -/
theorem consumer_safe_lower {e : Expr} {r : Rng} {c : Int} (hb : bounds e = some r) (hc : PyNum.le (int c) r.1 = true)
    {ρ : Env} {v : List Int} (hv : eval e ρ = some v) : ∀ x ∈ v, c ≤ x :=
  consumer_safe_lower_bound hb hc hv

theorem consumer_safe_isindex {e : Expr} (h : isIndex e = true) {ρ : Env} {v : List Int} (hv : eval e ρ = some v) : ∀ x ∈ v, 0 ≤ x :=
  consumer_safe_isIndex h hv

/-- `InRange._simplified` returns the index operand, and dropping the run-time bounds check is safe: it could never fail. -/
theorem consumer_safe_inrange {idx len e' : Expr} (h : simpInRange idx len = some e') :
    e' = idx ∧ ∀ (ρ : Env) (iv : List Int) (n : Int), eval idx ρ = some iv → scalarOf (eval len ρ) = some n →
      eval (.inRange idx len) ρ = some iv :=
  consumer_safe_InRange h

theorem consumer_safe_mod {a b e' : Expr} (h : simpMod a b = some e') {ρ : Env} {v : List Int} (hv : eval (.mod a b) ρ = some v) :
    eval e' ρ = some v :=
  consumer_safe_Mod h hv

theorem consumer_safe_minimum {x y e' : Expr} (h : simpMin x y = some e') {ρ : Env} {v : List Int} (hv : eval (.min x y) ρ = some v) :
    eval e' ρ = some v :=
  consumer_safe_Minimum h hv

theorem consumer_safe_maximum {x y e' : Expr} (h : simpMax x y = some e') {ρ : Env} {v : List Int} (hv : eval (.max x y) ρ = some v) :
    eval e' ρ = some v :=
  consumer_safe_Maximum h hv

theorem consumer_safe_normdim {len idx e' : Expr} (h : simpNormDim len idx = some e') {ρ : Env} {v : List Int}
    (hv : eval (.normDim len idx) ρ = some v) : eval e' ρ = some v :=
  consumer_safe_NormDim h hv

/-! ## non-vacuity: the hypotheses are satisfiable, the model computes -/

example : bnd (tfMul (ninf, int 3) (int 0, pinf)) = some (ninf, pinf) := by decide
example : bnd (tfSum (int 0, int 0) (int 0, pinf)) = some (int 0, int 0) := by decide
example : bnd (tfFloorDiv (int (-3), int 5) (int 2, pinf)) = some (int (-2), int 2) := by decide
example : bnd (tfRavelIndex (ninf, int 2) (int 0, int 0) (int 0, int 3)) = none := by decide
example : bounds (.mul (.argS 0 (int (-2)) (int 3)) (.const true [2])) = some (int (-4), int 6) := by decide
example : eval (.loopConcat 0 (.const true [3]) (.insertAxis (.loopIndex 0 (.const true [3])) (.const true [1])) (.const true [1])) Env.empty = some [0, 1, 2] := by decide
example : WF (.loopConcat 0 (.const true [3]) (.insertAxis (.loopIndex 0 (.const true [3])) (.loopIndex 0 (.const true [3]))) (.loopIndex 0 (.const true [3]))) := by
  simp [WF, lenOf]
example : scalarOf (eval (concatLen 0 (.const true [3]) (.loopIndex 0 (.const true [3]))) Env.empty) = some 3 := by decide
example : (simpInRange (.argS 0 (int 0) (int 2)) (.const true [3])).isSome = true := by decide

/-! ## Part 4: announced arguments of user-level function arrays under `replace_arguments` -/
namespace Func

/-- "depends only on the announced arguments" for function arrays: two environments that agree on the names `_Replace.__init__`
announces (unreplaced names of the operand + the announced names of the replacements of the names present) give the same value,
for every nesting of simultaneous replacements (also `a:b,b:a`, replacements that mention the replaced name, keys that are absent). -/
theorem eval_depends_only_on_announced_arguments (e : F) :
    ∀ env1 env2 : String → Int, (∀ n ∈ announced e, env1 n = env2 n) → eval env1 e = eval env2 e := by
  induction e with
  | const v => intro _ _ _; rfl
  | arg n => intro env1 env2 h; exact h n (by simp [announced])
  | add a b iha ihb =>
    intro env1 env2 h
    simp only [eval]
    rw [iha env1 env2 (fun n hn => h n (by simp [announced, hn])), ihb env1 env2 (fun n hn => h n (by simp [announced, hn]))]
  | mul a b iha ihb =>
    intro env1 env2 h
    simp only [eval]
    rw [iha env1 env2 (fun n hn => h n (by simp [announced, hn])), ihb env1 env2 (fun n hn => h n (by simp [announced, hn]))]
  | replace f keys repl ihf ihr =>
    intro env1 env2 h
    simp only [eval]
    apply ihf
    intro n hn
    by_cases hk : keys.contains n = true
    · simp only [hk, if_true]
      apply ihr
      intro m hm
      apply h
      simp only [announced, announceReplace, List.mem_append, List.mem_flatMap, List.mem_filter]
      exact Or.inr ⟨n, ⟨hn, hk⟩, hm⟩
    · simp only [hk]
      apply h
      simp only [announced, announceReplace, List.mem_append, List.mem_filter]
      exact Or.inl ⟨hn, by simpa using hk⟩

/-- the table is not an over-approximation by accident: a replaced name that the replacement does not use is NOT announced,
and a name that stays is -/
example : announced (.replace (.add (.arg "a") (.arg "b")) ["a"] (fun _ => .arg "ab")) = ["b", "ab"] := by decide

/-- the filter must test membership among the parsed names: a substring test on the textual specification `"a:ab"` drops `b`,
and evaluation then depends on an argument that is not announced -/
theorem substring_filter_unsound :
    ∃ env1 env2 : String → Int, (∀ n ∈ ["ab"], env1 n = env2 n) ∧
      eval env1 (.replace (.add (.arg "a") (.arg "b")) ["a"] (fun _ => .arg "ab")) ≠
      eval env2 (.replace (.add (.arg "a") (.arg "b")) ["a"] (fun _ => .arg "ab")) := by
  refine ⟨fun _ => 0, fun n => if n = "b" then 1 else 0, ?_, ?_⟩
  · intro n hn; simp at hn; subst hn; decide
  · decide

end Func

end NutilsVerif.C06
