import NutilsVerif.Model.C19
/-!
# C19 — property theorems
-/
namespace NutilsVerif.C19

/-- placeholder while the harness is being developed -/
theorem find_offset_le_length (ms : List Matcher) (l : List Char) : (find ms l).offset ≤ l.length :=
  find_offset_le ms l

end NutilsVerif.C19
