import NutilsVerif.Proofs.C19WF
import NutilsVerif.Proofs.C19ParsePrint
import NutilsVerif.Proofs.C19Sem
import NutilsVerif.Proofs.C19Balanced
/-!
# C19 — expression strings mean their index-notation reading: property theorems

All statements are about the executable port `Model/C19.lean` of `nutils.expression_v2._Parser` (tied to the
real parser string by string by the correspondence harness) and the source ASTs / printer / direct
elaboration of `Model/C19Src.lean`.
-/
namespace NutilsVerif.C19

/-! ## the port terminates -/

/-- **Termination of the port.**  `parseExpr` recurses on fuel; with any fuel above the length of the input
neither the amount of fuel nor the answer given when fuel runs out (`base`) influences the result: the
base case is never reached, for every string and every context.  (`parse` uses fuel `length + 1`.) -/
theorem parse_total (Γ : Ctx) (b1 b2 : Rec) (n m : Nat) (s : Sub) (hn : s.len < n) (hm : s.len < m) :
    parseExprB Γ b1 n s = parseExprB Γ b2 m s :=
  parseExprB_total Γ b1 b2 n m s hn hm

/-! ## `_trace`: which indices are summed -/

/-- **trace_spec** (clause "repeated indices are summed or traced, free indices keep the documented order").
For every index string, shape and set of already-summed indices: if `_trace` succeeds then the resulting
indices are exactly the indices occurring once, in order of occurrence; an index is in the new summed set
iff it was summed before or occurs exactly twice; and no index occurred more than twice or was summed before. -/
theorem trace_spec (s : Sub) (ops : Ops) (shape : List Nat) (indices : List Char) (parts : List (List Char)) (r : Res)
    (h : trace s ops shape indices parts = .ok r) :
    r.indices = indices.filter (fun c => indices.count c == 1)
    ∧ (∀ c, c ∈ r.summed ↔ (∃ p ∈ parts, c ∈ p) ∨ indices.count c = 2)
    ∧ (∀ c ∈ indices, ∀ p ∈ parts, c ∉ p)
    ∧ (∀ c, indices.count c ≤ 2) := by
  unfold trace at h
  obtain ⟨sm, hsm, h⟩ := bind_ok h
  obtain ⟨h1, h2, h3, h4⟩ := traceGo_spec s indices ops [] [] sm shape r List.nodup_nil (by simp) h
  simp only [List.nil_append] at h1 h2 h4
  refine ⟨h1, ?_, ?_, h4⟩
  · intro c; rw [h2 c, mergeSummed_mem s parts sm hsm c]
  · intro c hc p hp hcp
    exact h3 c hc ((mergeSummed_mem s parts sm hsm c).mpr ⟨p, hp, hcp⟩)

/-- **reject_triple_index** (clause "an index used more than twice is rejected"), for all inputs of `_trace`:
an index that occurs three times among the factors of a term, a variable or a call makes the parser raise. -/
theorem reject_triple_index (s : Sub) (ops : Ops) (shape : List Nat) (indices : List Char) (parts : List (List Char)) (c : Char)
    (h : 2 < indices.count c) : ∃ e, trace s ops shape indices parts = .error e := by
  cases hr : trace s ops shape indices parts with
  | error e => exact ⟨e, rfl⟩
  | ok r => have := (trace_spec s ops shape indices parts r hr).2.2.2 c; omega

/-- ... and so does an index that is used by one factor and was already summed inside another one
(`(a_i b_i) c_i`, `f(a_i b_i) c_i`, ...). -/
theorem reject_summed_reuse (s : Sub) (ops : Ops) (shape : List Nat) (indices : List Char) (parts : List (List Char)) (c : Char)
    (p : List Char) (hc : c ∈ indices) (hp : p ∈ parts) (hcp : c ∈ p) : ∃ e, trace s ops shape indices parts = .error e := by
  cases hr : trace s ops shape indices parts with
  | error e => exact ⟨e, rfl⟩
  | ok r => exact absurd hcp ((trace_spec s ops shape indices parts r hr).2.2.1 c hc p hp)

/-- two factors that both summed the same index inside (`(a_i b_i) (c_i d_i)`) are rejected as well -/
theorem reject_summed_twice (s : Sub) (ops : Ops) (shape : List Nat) (indices : List Char) (p q : List Char) (rest : List (List Char)) (c : Char)
    (hp : c ∈ p) (hq : c ∈ q) : ∃ e, trace s ops shape indices (p :: q :: rest) = .error e := by
  have hm : ∃ e, mergeSummed s (p :: q :: rest) = .error e := by
    have h0 : List.filter (fun x => ([] : List Char).contains x) p = [] := by simp
    simp only [mergeSummed, mergeSummedGo, h0, minChar, List.nil_append]
    have hne : q.filter (p.contains ·) ≠ [] := by
      intro h; rw [List.filter_eq_nil_iff] at h; exact h c hq (by simpa using hp)
    cases hmc : minChar (q.filter (p.contains ·)) with
    | none => exact absurd (minChar_none _ hmc) hne
    | some d => exact ⟨_, rfl⟩
  obtain ⟨e, he⟩ := hm
  exact ⟨e, by simp [trace, he, Except.bind]⟩

/-! ## `_trace` and products at the tensor level: repeated indices are summed -/

/-- **trace_sem** (clause "repeated indices are summed or traced").  Over any scalar algebra and any environment:
if `_trace` succeeds on an operation tree whose tensor has the recorded shape, then the tree it returns denotes —
entry by entry, for every assignment `σ` of the free indices — the explicit sum of the incoming labelled tensor
over all assignments of the (index, length) pairs `tracePairs`, i.e. (by `trace_sums_exactly_repeated`) over exactly
the indices that occur twice. -/
theorem trace_sem {α : Type} (E : Env α) (s : Sub) (ops : Ops) (shape : List Nat) (indices : List Char) (parts : List (List Char)) (r : Res)
    (hlen : shape.length = indices.length) (hsh : (evalOps E ops).shape = shape)
    (h : trace s ops shape indices parts = .ok r) (σ : Char → Nat) :
    (evalOps E r.ops).at r.indices σ =
      sumOver E.alg (tracePairs [] [] indices shape) σ (fun σ' => (evalOps E ops).at indices σ') := by
  unfold trace at h
  obtain ⟨sm, _, h⟩ := bind_ok h
  have := traceGo_sem E s indices ops [] [] sm shape r List.nodup_nil (by simp) rfl hlen (by simpa using hsh) h σ
  simpa using this

/-- the pairs summed by `_trace` are exactly the indices occurring twice (each once, by `parse_ok_wf`-style nodup) -/
theorem trace_sums_exactly_repeated (s : Sub) (ops : Ops) (shape : List Nat) (indices : List Char) (parts : List (List Char)) (r : Res)
    (h : trace s ops shape indices parts = .ok r) (c : Char) :
    c ∈ (tracePairs [] [] indices shape).map (·.1) ↔ indices.count c = 2 := by
  unfold trace at h
  obtain ⟨sm, _, h⟩ := bind_ok h
  simpa using tracePairs_mem s ops [] [] sm indices shape r List.nodup_nil (by simp) h c

/-- **term_reading** (clause "juxtaposition ... repeated indices are summed"): what `parse_term` returns for two or
more factors is the Einstein-summation reading of the product — for every assignment of the free indices, the sum
over the repeated indices of the product of the entries of the factors — for all lists of factors. -/
theorem term_reading {α : Type} (E : Env α) (s : Sub) (fs : List Res) (r : Res)
    (hfs : ∀ p ∈ fs, (evalOps E p.ops).shape = p.shape ∧ p.shape.length = p.indices.length)
    (h : trace s (.mul (fs.map (·.ops))) (fs.map (·.shape)).flatten (fs.map (·.indices)).flatten (fs.map (·.summed)) = .ok r)
    (σ : Char → Nat) :
    (evalOps E r.ops).at r.indices σ =
      sumOver E.alg (tracePairs [] [] (fs.map (·.indices)).flatten (fs.map (·.shape)).flatten) σ
        (fun σ' => prodAt E.alg (fs.map fun p => (evalOps E p.ops, p.indices)) σ') := by
  have hlen : (fs.map (·.shape)).flatten.length = (fs.map (·.indices)).flatten.length := by
    clear h
    induction fs with
    | nil => rfl
    | cons p ps ih =>
      simp only [List.map_cons, List.flatten_cons, List.length_append]
      rw [(hfs p List.mem_cons_self).2, ih (fun x hx => hfs x (List.mem_cons_of_mem _ hx))]
  have hsh : (evalOps E (.mul (fs.map (·.ops)))).shape = (fs.map (·.shape)).flatten := by
    simp only [evalOps, List.map_map]
    congr 1
    apply List.map_congr_left
    intro p hp; exact (hfs p hp).1
  rw [trace_sem E s _ _ _ _ r hlen hsh h σ]
  apply sumOver_congr
  intro σ'
  have := mulGet_at E.alg σ' (fs.map fun p => (evalOps E p.ops, p.indices)) (by
    intro q hq
    rw [List.mem_map] at hq
    obtain ⟨p, hp, rfl⟩ := hq
    simp only []
    rw [(hfs p hp).1, (hfs p hp).2])
  simp only [List.map_map] at this
  simp only [Tensor.at, evalOps, List.map_map]
  exact this

/-! ## every accepted string has sound bookkeeping (all strings, all contexts) -/

/-- **parse_ok_wf** (clauses "index used more than twice ... rejected", "free indices").  For *every* string and
context: if the parser accepts, the indices of the result are pairwise distinct lower-case letters, none of them
is also recorded as summed (so no index was used three times across factors, fractions, powers, scopes, calls),
and the shape has one length per index. -/
theorem parse_ok_wf (Γ : Ctx) (l : List Char) (r : Res) (h : parse Γ l = .ok r) : r.WF :=
  parseExpr_wf Γ (l.length + 1) ⟨0, l⟩ r h

/-- **parse_ok_balanced** (clause "unbalanced brackets ... rejected"), for *every* string: in a context whose variable
and function names contain no bracket characters, every string the parser accepts has properly nested brackets
(`( [ { <` against `) ] } >`, counted by level — that the kinds also match is checked scope by scope by `closerOf`). -/
theorem parse_ok_balanced (Γ : Ctx) (hΓ : Γ.plainNames) (l : List Char) (r : Res) (h : parse Γ l = .ok r) : Bal l :=
  parseExprB_bal Γ hΓ _ (fun _ _ h => by simp at h) (l.length + 1) ⟨0, l⟩ r h

/-- **reject_unbalanced**: a string with unbalanced brackets is rejected -/
theorem reject_unbalanced (Γ : Ctx) (hΓ : Γ.plainNames) (l : List Char) (h : ¬ Bal l) : ∃ e, parse Γ l = .error e := by
  cases hp : parse Γ l with
  | error e => exact ⟨e, rfl⟩
  | ok r => exact absurd (parse_ok_balanced Γ hΓ l r hp) h

/-- sums: a term whose index *set* differs from that of the first term is rejected (for all inputs of the
alignment step) -/
theorem reject_sum_index_mismatch (sF sT : Sub) (indices : List Char) (iterm : Nat) (r : Res) (c : Char)
    (h : (c ∈ indices ∧ c ∉ r.indices) ∨ (c ∈ r.indices ∧ c ∉ indices)) :
    ∃ e, alignTerm sF sT indices iterm r = .error e := by
  have hne : (r.indices != indices) = true := by
    simp only [bne_iff_ne, ne_eq]
    intro he; rw [he] at h; rcases h with h | h <;> exact h.2 h.1
  unfold alignTerm
  simp only [hne, if_true]
  cases h1 : charsMinus indices r.indices with
  | some d => exact ⟨_, rfl⟩
  | none =>
    cases h2 : charsMinus r.indices indices with
    | some d => exact ⟨_, rfl⟩
    | none =>
      exfalso
      rcases h with h | h
      · exact h.2 (charsMinus_none _ _ h1 c h.1)
      · exact h.2 (charsMinus_none _ _ h2 c h.1)

/-! ## alignment of the result (`'expr' @ ns`) -/

/-- **align_alphabetical**: `expr @ ns` hands `transpose` axes such that the labels of the result are the free
indices in alphabetical order -/
theorem align_alphabetical (r : Res) :
    (rmatmul r).2.Pairwise (fun a b => a.toNat ≤ b.toNat) ∧ (rmatmul r).2.Perm r.indices ∧
    (alignAxes r.indices (rmatmul r).2).map (fun ax => r.indices.getD ax ' ') = (rmatmul r).2 := by
  simp only [rmatmul]
  refine ⟨?_, List.mergeSort_perm _ _, ?_⟩
  · have := List.pairwise_mergeSort (le := fun a b : Char => decide (a.toNat ≤ b.toNat))
      (by intro a b c; simp only [decide_eq_true_eq]; omega) (by intro a b; simp only [Bool.or_eq_true, decide_eq_true_eq]; omega) r.indices
    exact this.imp (by intro a b hab; simpa using hab)
  · simp only [alignAxes, List.map_map]
    conv => rhs; rw [← List.map_id (r.indices.mergeSort _)]
    apply List.map_congr_left
    intro c hc
    have hm : c ∈ r.indices := (List.mergeSort_perm _ _).mem_iff.mp hc
    simp only [Function.comp, id]
    have hlt := List.idxOf_lt_length_iff.mpr hm
    rw [← List.getElem_eq_getD (h := hlt) ' ']
    exact List.getElem_idxOf hlt

/-! ## parse ∘ print -/

/-- **parse_print_partial** (clauses "a namespace expression that follows the documented grammar evaluates to ...",
"addition, juxtaposition, division, powers, function calls ... have their documented precedence", "numerals select
elements").  For every context and every well-formed source AST `t` of the documented grammar — sums with `+`, `-`
and an optional leading minus, of fractions ` / `, of products by juxtaposition, of powers `^` with a signed integer or
a parenthesised exponent, of unsigned integers and decimal numbers (`1.5`, `.5`, `2.`, `1e1`, `2.5e-1`), variables with
letter / numeral indices (traces included), function calls with indices for generated axes, and parenthesised, jump
`[ ]` and mean `{ }` sub-expressions, nested to any depth — the real parser's string scanning (`_Substring._find`,
`split`, `isplit`, `partition`, `partition_scope`, `trim`, python `int()` / `float()` literal syntax) applied to the
canonical printing of `t` succeeds exactly when the direct elaboration `elabExpr` of the tree does, with the same
operation tree, shape, index order and summed set.  `elabExpr` never looks at a string: it applies the bookkeeping
steps (`trace_spec`, `alignGo`, `mergeSummed`, `verifyIndicesSummed`) in the order the grammar dictates — so e.g.
`a b / c d` is `(a b) / (c d)`, `-a^2 + b` is `(-(a^2)) + b`, `a b^2` is `a (b^2)`, `f_i(a_i + b_i) c` is
`(trace of f(a + b)) c`.

"Partial" with respect to the full `parse_print`: (1) only the canonical printing (single blanks, lower-case `e`, no
`+` in exponents) — other legal spellings are covered by the correspondence stream; (2) the tensor-level statement
`evalOps o = ⟦t⟧` is proved for the steps that carry the index-notation reading (`trace_sem`,
`trace_sums_exactly_repeated`, `term_reading`), not composed over whole trees. -/
theorem parse_print_partial (Γ : Ctx) (t : Src) (h : t.ok .expr = true) :
    toOpt (parse Γ t.print) = elabExpr Γ t :=
  parse_print_core Γ t h

/-- consequence: a printed core-grammar string is rejected exactly when its tree does not elaborate -/
theorem reject_iff_elab_none (Γ : Ctx) (t : Src) (h : t.ok .expr = true) :
    (∃ e, parse Γ t.print = .error e) ↔ elabExpr Γ t = none := by
  rw [← parse_print_partial Γ t h]
  cases parse Γ t.print with
  | error e => simp
  | ok r => simp

/-! ## non-vacuity -/

/-- `-A_ij b_j + 2 (a_i)` is a well-formed tree of the core grammar -/
example : (Src.sum true (.prod (.var ['A'] ['i', 'j']) (.pcons (.var ['b'] ['j']) .pnil))
    (.tcons false (.prod (.num [2]) (.pcons (.paren (.sum false (.prod (.var ['a'] ['i']) .pnil) .tnil)) .pnil)) .tnil)).ok .expr = true := by decide

/-- `1.5 f_i(a_i)` uses a decimal number and a call with a traced generated axis -/
example : (Src.sum false (.prod (.dec [1] (some [5]) none) (.pcons (.call ['f'] ['i'] (.sum false (.prod (.var ['a'] ['i']) .pnil) .tnil)) .pnil)) .tnil).ok .expr = true := by decide

/-- `a_i b^-2 / s^(2 r)` uses fractions and both kinds of powers -/
example : (Src.sum false (.frac (.prod (.var ['a'] ['i']) (.pcons (.powInt (.var ['b'] []) true [2]) .pnil))
    (.prod (.powExpr (.var ['s'] []) (.sum false (.prod (.num [2]) (.pcons (.var ['r'] []) .pnil)) .tnil)) .pnil)) .tnil).ok .expr = true := by decide

/-- `(a_i` is not balanced; a context with plain names exists -/
example : ¬ Bal ['(', 'a', '_', 'i'] := by unfold Bal; decide
example : (⟨[(['a'], [2])], [(['f'], [])]⟩ : Ctx).plainNames := by
  constructor <;> intro p hp <;> simp at hp <;> subst hp <;> decide

example : ∃ r : Res, r.WF := ⟨⟨.int 1, [], [], []⟩, wf_scalar _⟩

end NutilsVerif.C19
