import NutilsVerif.Proofs.C18
import NutilsVerif.Generated.C18
/-!
# C18 — disk memoisation is transparent and crash-tolerant: property theorems

All statements are about the executable model in `Model/C18.lean` (`call` = one call of a `cache.function`
wrapper, `iterate` = `Recursion.__iter__`, `act` = one micro-step of a process under the file lock).  The pickle
is an abstract parameter; what is assumed about it is explicit (`Hyps` / `RHyps`: H0 empty file, H1 load of a
complete entry ignores a tail, H2 every proper prefix raises a *caught* exception, H3 deterministic dump) and is
validated on the real `pickle` by fault enumeration in the harness.
-/
namespace NutilsVerif.C18
variable {V L E : Type}

/-! ## cache.function -/

/-- **function_transparent** (needs H0-H3).  For every history of earlier calls (complete, killed after any number
of bytes, interrupted, raising) starting from an empty cache file, the cache file stays a prefix of the entry (or the
entry plus a tail) and a completed call returns exactly what the uncached call returns and shows the same log,
executing `func` at most once. -/
theorem function_transparent (c : Cfg V L E) (P : Hyps c) (h : List (Event E)) (nonce : Nat) :
    Good c (fileAfter c h []) ∧ (call c ⟨nonce, .none⟩ (fileAfter c h [])).2.sameAs (uncached c) := by
  have h0 : Good c [] := by unfold Good; cases c.f <;> simp
  have hg := fileAfter_good c P h [] h0
  exact ⟨hg, (call_good c P ⟨nonce, .none⟩ _ hg).2 rfl⟩

/-- the same for every call inside a history: each completed call of the history is transparent -/
theorem function_transparent_all (c : Cfg V L E) (P : Hyps c) (pre post : List (Event E)) (nonce : Nat) :
    ∃ out, (outcomes c (pre ++ ⟨nonce, .none⟩ :: post) [])[pre.length]? = some out ∧ out.sameAs (uncached c) := by
  have key : ∀ (pre : List (Event E)) (file : Bytes),
      (outcomes c (pre ++ ⟨nonce, .none⟩ :: post) file)[pre.length]? = some (call c ⟨nonce, .none⟩ (fileAfter c pre file)).2 := by
    intro pre
    induction pre with
    | nil => intro file; rfl
    | cons ev t ih => intro file; simpa [outcomes, fileAfter] using ih _
  exact ⟨_, key pre [], (function_transparent c P pre nonce).2⟩

/-- **memo_effective** (needs H1, H2, H3).  Once one call has completed with a value, every later completed call —
whatever happens in between — is served from the cache: `func` is not executed again. -/
theorem memo_effective (c : Cfg V L E) (P : Hyps c) (v : V) (l : L) (hf : c.f = .ret v l)
    (pre post : List (Event E)) (n m : Nat) :
    (call c ⟨m, .none⟩ (fileAfter c (pre ++ ⟨n, .none⟩ :: post) [])).2 = .ret v l 0 := by
  have h0 : Good c [] := by unfold Good; cases c.f <;> simp
  -- after the completed call the entry is complete
  have stable : ∀ (h : List (Event E)) (file : Bytes), entryBytes c 0 v l <+: file → entryBytes c 0 v l <+: fileAfter c h file := by
    intro h
    induction h with
    | nil => intro file hp; exact hp
    | cons ev t ih =>
      intro file hp
      apply ih
      have := lookup_complete c P hf file hp
      simp only [call, this]; exact hp
  have hpre := fileAfter_good c P pre [] h0
  have hcomp : entryBytes c 0 v l <+: (call c ⟨n, .none⟩ (fileAfter c pre [])).1 := by
    unfold Good at hpre; rw [hf] at hpre
    by_cases hc : entryBytes c 0 v l <+: fileAfter c pre []
    · have := lookup_complete c P hf _ hc
      simp only [call, this]; exact hc
    · have hp : fileAfter c pre [] <+: entryBytes c 0 v l := by rcases hpre with h | h; exact h; exact absurd h hc
      have hne : fileAfter c pre [] ≠ entryBytes c 0 v l := by intro h; apply hc; rw [h]; exact List.prefix_refl _
      have hm := lookup_partial c P hf _ hp hne
      simp only [call, hm, hf]
      rw [P.h3 v l n 0 hf, overlay_full _ _ hp]; exact List.prefix_refl _
  have := stable post _ hcomp
  rw [fileAfter_append]
  show (call c ⟨m, .none⟩ (fileAfter c post (call c ⟨n, .none⟩ (fileAfter c pre [])).1)).2 = _
  generalize fileAfter c post (call c ⟨n, .none⟩ (fileAfter c pre [])).1 = F at this
  have hl := lookup_complete c P hf F this
  simp only [call, hl]

/-- **function_transparent_catchall** (the repaired code: `except Exception:` around the load).  With a catch-all clause
neither H2 nor H3 is needed: for every history, if everything the pickle *silently* loads from a file that the history can
produce is either ill-typed (rejected by the `isinstance(log_, RecordLog)` check), an old failed entry, or the right entry
(`hsound`; loading may also fail in any way), a completed call returns what the uncached call returns.  Whether a reachable mixture `take k new ++ drop k old` can load silently to a wrong value is what
`stream_two_crashes` / `stream_mixture_exploration` look for on the real pickle. -/
theorem function_transparent_catchall (c : Cfg V L E) (hall : ∀ e, c.caught e = true)
    (hsound : ∀ (h : List (Event E)) (d : Data V L), c.pk.load (fileAfter c h []) = .ok d →
        d = .illTyped ∨ (∃ l v, d = .old l true v) ∨ ∃ v l, c.f = .ret v l ∧ (d = .entry v l ∨ d = .old l false v))
    (h : List (Event E)) (nonce : Nat) :
    (call c ⟨nonce, .none⟩ (fileAfter c h [])).2.sameAs (uncached c) := by
  have miss_ok : lookup c (fileAfter c h []) = .miss → (call c ⟨nonce, .none⟩ (fileAfter c h [])).2.sameAs (uncached c) := by
    intro hm
    cases hf : c.f with
    | ret v l => simp [call, hm, hf, uncached, Outcome.sameAs]
    | exc e l => simp [call, hm, hf, uncached, Outcome.sameAs]
  cases hl : c.pk.load (fileAfter c h []) with
  | error e =>
    apply miss_ok; simp [lookup, hl, hall]
  | ok d =>
    rcases hsound h d hl with rfl | ⟨l, v, rfl⟩ | ⟨v, l, hf, rfl | rfl⟩
    · apply miss_ok; simp [lookup, hl, hall]
    · apply miss_ok; simp [lookup, hl, hall]
    · have : lookup c (fileAfter c h []) = .hit v l := by simp [lookup, hl]
      simp [call, this, uncached, hf, Outcome.sameAs]
    · have : lookup c (fileAfter c h []) = .hit v l := by simp [lookup, hl]
      simp [call, this, uncached, hf, Outcome.sameAs]

/-- **h3_necessary.**  Determinism of the dump (H3) cannot be dropped: there is a pickle satisfying H0, H1, H2 with two
encodings of the same entry for which two killed writers leave a file that loads *silently* as a wrong value
(file `take 1 [0,1,5] ++ drop 1 [1,1,0]` = `[0,1,0]`). -/
theorem h3_necessary : ∃ (c : Cfg Nat Nat Nat) (h : List (Event Nat)),
    c.f = .ret 5 0 ∧
    (∃ e, c.pk.load [] = .error e ∧ c.caught e = true) ∧
    (∀ n r, c.pk.load (entryBytes c n 5 0 ++ r) = .ok (.entry 5 0)) ∧
    (∀ n p, p <+: entryBytes c n 5 0 → p ≠ entryBytes c n 5 0 → ∃ e, c.pk.load p = .error e ∧ c.caught e = true) ∧
    (call c ⟨0, .none⟩ (fileAfter c h [])).2 = .ret 0 0 0 := by
  let load : Bytes → Except LoadErr (Data Nat Nat) := fun
    | 0 :: 1 :: x :: _ => .ok (.entry x 0)
    | 1 :: 1 :: hi :: x :: _ => .ok (.entry (256 * hi + x) 0)
    | _ => .error .eof
  let dump : Nat → Data Nat Nat → Bytes := fun n _ => if n = 0 then [0, 1, 5] else [1, 1, 0, 5]
  refine ⟨⟨⟨dump, load⟩, fun e => e == .eof, .ret 5 0⟩, [⟨1, .kill 3⟩, ⟨0, .kill 1⟩], rfl, ⟨.eof, rfl, rfl⟩, ?_, ?_, ?_⟩
  · intro n r
    by_cases hn : n = 0 <;> simp [entryBytes, dump, hn, load]
  · intro n p hp hne
    refine ⟨.eof, ?_, rfl⟩
    by_cases hn : n = 0
    · simp only [entryBytes, dump, hn, if_true] at hp hne ⊢
      match p, hp, hne with
      | [], _, _ => rfl
      | [a], _, _ => simp [load]
      | [a, b], _, _ => simp [load]
      | [a, b, c], hp, hne =>
        exfalso; apply hne
        obtain ⟨t, ht⟩ := hp
        simp at ht; obtain ⟨rfl, rfl, rfl, _⟩ := ht; rfl
      | a :: b :: c :: d :: t, hp, _ => exfalso; have := hp.length_le; simp at this
    · simp only [entryBytes, dump, hn, if_false] at hp hne ⊢
      match p, hp, hne with
      | [], _, _ => rfl
      | [a], _, _ => simp [load]
      | [a, b], _, _ => simp [load]
      | [a, b, c], hp, _ =>
        obtain ⟨t, ht⟩ := hp
        simp at ht; obtain ⟨rfl, rfl, rfl, _⟩ := ht; rfl
      | [a, b, c, d], hp, hne =>
        exfalso; apply hne
        obtain ⟨t, ht⟩ := hp
        simp at ht; obtain ⟨rfl, rfl, rfl, rfl, _⟩ := ht; rfl
      | a :: b :: c :: d :: e :: t, hp, _ => exfalso; have := hp.length_le; simp at this
  · rfl

/-- **caught_necessary.**  `EOFError` has to be in the caught tuple: with `(UnpicklingError, IndexError)` only, the very first
call on a fresh cache directory (empty file) escapes with EOFError instead of computing. -/
theorem caught_necessary (c : Cfg V L E) (h : c.pk.load [] = .error .eof) (hc : c.caught .eof = false) (ev : Event E) :
    (call c ev []).2 = .loadCrash .eof := by
  simp [call, lookup, h, hc]

/-- **caught_tuples_cover_truncation** (X: the tuples are regenerated from src/nutils/cache.py on every run).  Both `except`
clauses that guard `pickle.load` list every exception class that a truncated or empty pickle raises (EOFError "Ran out of
input", UnpicklingError "pickle data was truncated"), i.e. the `caught` parameter of the theorems can be instantiated with
the tuple in the source such that H0/H2 are about exactly these two classes. -/
theorem caught_tuples_cover_truncation :
    ∀ e ∈ [LoadErr.eof, LoadErr.unpickling],
      (Gen.caughtFnAll || Gen.caughtFn.contains e) = true ∧ (Gen.caughtRecAll || Gen.caughtRec.contains e) = true := by
  decide

/-! ## Recursion -/

/-- **history_window.**  The loop's update `history.append(value); if len(history) > length: history = history[1:]`
keeps exactly the last `length` values read so far. -/
theorem history_window (length : Nat) (xs : List V) : xs.foldl (push length) [] = lastN length xs := by
  have key : ∀ (ys pre : List V), ys.foldl (push length) (lastN length pre) = lastN length (pre ++ ys) := by
    intro ys
    induction ys with
    | nil => intro pre; simp
    | cons y t ih => intro pre; rw [List.foldl_cons, push_lastN, ih]; simp
  have := key xs []
  simpa [lastN] using this

theorem filesAfter_inv (c : RecCfg V L E) (P : RHyps c) (h : List (REvent E)) (fs : Files) (hinv : Inv c fs) :
    Inv c (filesAfter c h fs) := by
  have h0 : Live c 0 := by intro m hm; omega
  induction h generalizing fs with
  | nil => exact hinv
  | cons ev t ih =>
    apply ih
    cases ev <;> exact iterate_inv c P _ _ 0 [] fs hinv h0 (by simp [lastN, specVals])

/-- **recursion_transparent** (needs H0-H3 for the item pickles and the documented contract of `resume`).  For every
history of partial iterations — the consumer stopped after any number of items, the process was killed at any item
after any number of bytes of that item's file, an exception struck at any item — starting from an empty cache
directory: every item file is a prefix of the pickle of the corresponding uncached item, the next iteration (taking
any number `n` of items) yields exactly the uncached sequence with the same logs and the same ending, and if `resume`
is called at all it is called as `resume_index(history, index)` with `history` = the last `length` values before
`index`, where item file `index` is the first one that fails to load. -/
theorem recursion_transparent (c : RecCfg V L E) (P : RHyps c) (h : List (REvent E)) (nonce n : Nat) :
    let fs := filesAfter c h (fun _ => [])
    let r := (REvent.take nonce n).run c fs
    Inv c fs ∧ r.obs = specRun c n 0 ∧
      ∀ hist idx, r.resumed = some (hist, idx) →
        hist = lastN c.length (specVals c idx) ∧ ∃ e, c.pk.load (fs idx) = .error e := by
  have h0 : Live c 0 := by intro m hm; omega
  have hinv0 : Inv c (fun _ => []) := by intro i; exact ⟨fun _ _ _ => List.nil_prefix, fun _ => rfl⟩
  have hinv := filesAfter_inv c P h _ hinv0
  refine ⟨hinv, iterate_spec c P nonce n 0 [] _ hinv h0 (by simp [lastN, specVals]), ?_⟩
  intro hist idx hr
  have := iterate_resumed c P ⟨nonce, .none⟩ n 0 [] _ hinv h0 (by simp [lastN, specVals]) hist idx hr
  exact ⟨this.1, this.2.2⟩

/-- **recursion_memo** (H0-H3 + contract of `resume`).  After any history, once an iteration has taken `n` items, a later
iteration that takes `m ≤ n` items (none of whose steps raises) is served entirely from the cache: `resume` is not
called, nothing is computed and no file changes. -/
theorem recursion_memo (c : RecCfg V L E) (P : RHyps c) (h : List (REvent E)) (n m nonce nonce' : Nat) (hm : m ≤ n)
    (hne : ∀ j, j < m → Live c j → ∃ s, storedAt c j = some s) :
    let fs := filesAfter c (h ++ [.take nonce n]) (fun _ => [])
    let r := (REvent.take nonce' m).run c fs
    r.ncomputed = 0 ∧ r.resumed = none ∧ r.files = fs := by
  have h0 : Live c 0 := by intro m hm; omega
  have hinv0 : Inv c (fun _ => []) := by intro i; exact ⟨fun _ _ _ => List.nil_prefix, fun _ => rfl⟩
  have happ : ∀ (h : List (REvent E)) (fs0 : Files), filesAfter c (h ++ [.take nonce n]) fs0 = ((REvent.take nonce n).run c (filesAfter c h fs0)).files := by
    intro h
    induction h with
    | nil => intro fs0; rfl
    | cons e t ih => intro fs0; exact ih _
  have hinv := filesAfter_inv c P h _ hinv0
  have hcomp := (iterate_complete c P nonce n 0 [] _ hinv h0 (by simp [lastN, specVals])).2
  simp only [happ]
  apply iterate_hits c P ⟨nonce', .none⟩ m 0 [] _ h0
  intro j _ hj hlj
  obtain ⟨s, hs⟩ := hne j (by omega) hlj
  exact ⟨s, hs, hcomp j s (Nat.zero_le _) (by omega) hlj hs⟩

/-! ## concurrent callers -/

/-- **lock_serialisable.**  With the lock taken before `pickle.load` and held until after `pickle.dump`, for every
schedule of micro-steps and kills of any number of processes calling the same entry:
(1) at most one process is between `lock acquired` and file close (so `func` runs in one process at a time);
(2) whenever no process holds the lock, the file content is the content produced by the *sequential* history of
    calls in the order the lock was released;
(3) every process that returned got exactly the outcome of its call in that sequential history. -/
theorem lock_serialisable (c : Cfg V L E) (file0 : Bytes) (sched : List Act) :
    let s := runPar c true sched (initC file0)
    (∀ p q, (s.procs p).critical = true → (s.procs q).critical = true → p = q) ∧
    (s.holder = none → s.file = fileAfter c (s.hist.map (·.2)) file0) ∧
    (∀ p out, s.procs p = .done out → ∃ pre post, s.hist = pre ++ (p, ⟨p, .none⟩) :: post ∧
        out = (call c ⟨p, .none⟩ (fileAfter c (pre.map (·.2)) file0)).2) := by
  have inv := runPar_inv c file0 sched _ (init_inv c file0)
  refine ⟨?_, ?_, inv.done⟩
  · intro p q hp hq
    have h1 := inv.mutex p hp; have h2 := inv.mutex q hq
    rw [h1] at h2; cases h2; rfl
  · intro hh
    have := inv.file
    unfold FileRel at this; rw [hh] at this; exact this

/-- **concurrent_transparent** (H0-H3).  Every concurrent caller that returns, under any schedule with any kills,
returns what the uncached call returns. -/
theorem concurrent_transparent (c : Cfg V L E) (P : Hyps c) (sched : List Act) (p : Nat) (out : Outcome V L E)
    (h : (runPar c true sched (initC [])).procs p = .done out) : out.sameAs (uncached c) := by
  obtain ⟨pre, post, _, ho⟩ := (lock_serialisable c [] sched).2.2 p out h
  rw [ho]; exact (function_transparent c P (pre.map (·.2)) p).2

/-- **concurrent_exec_once** (H0-H3).  Any number of concurrent callers of a fresh entry, under any schedule without kills:
the wrapped function is started at most once in total (the first lock owner computes, everybody else loads). -/
theorem concurrent_exec_once (c : Cfg V L E) (P : Hyps c) (v : V) (l : L) (hf : c.f = .ret v l) (ps : List Nat) :
    (runPar c true (ps.map Act.step) (initC [])).execs ≤ 1 := by
  have hg0 : Good c [] := by unfold Good; rw [hf]; exact Or.inl List.nil_prefix
  have key : ∀ (ps : List Nat) (s : CState V L E), CInv c [] s → EInv c [] v l s → EInv c [] v l (runPar c true (ps.map Act.step) s) := by
    intro ps
    induction ps with
    | nil => intro s _ he; exact he
    | cons p t ih =>
      intro s hs he
      exact ih _ (act_inv c [] s hs (.step p)) (act_einv c P [] hg0 v l hf s hs he p)
  have := key ps (initC []) (init_inv c []) (Or.inl ⟨rfl, fun _ => rfl⟩)
  rcases this with ⟨h, _⟩ | ⟨h, _⟩ <;> omega

/-- **lock_necessary.**  Without the lock (`_lock_file_fallback`) two callers of a fresh entry both run `func` at the
same time. -/
theorem lock_necessary (c : Cfg V L E) (h : lookup c [] = .miss) :
    let s := runPar c false [.step 0, .step 1, .step 0, .step 1] (initC [])
    s.procs 0 = .computing ∧ s.procs 1 = .computing ∧ s.execs = 2 := by
  simp [runPar, act, initC, setProc, h]

/-! ## the hypotheses are satisfiable for every entry: the table pickle -/

theorem isPrefix_iff (p l : Bytes) : isPrefix p l = true ↔ p <+: l := by
  induction p generalizing l with
  | nil => simp [isPrefix]
  | cons a t ih =>
    cases l with
    | nil => simp [isPrefix]
    | cons b l => simp [isPrefix, ih, List.cons_prefix_cons]

/-- For every non-empty byte string `d` the one-entry table pickle with constant dump `d` satisfies H0-H3; hence the
hypotheses of `function_transparent` are satisfiable for every function result. -/
theorem table_hyps (d : Bytes) (hd : d ≠ []) (v : V) (l : L) :
    Hyps (E := E) ⟨⟨fun _ _ => d, tableLoad [(d, Data.entry v l)]⟩, fun e => e == .eof, .ret v l⟩ := by
  refine ⟨⟨.eof, ?_, rfl⟩, ?_, ?_, ?_⟩
  · have h1 : isPrefix d [] = false := by cases d with | nil => exact absurd rfl hd | cons a t => rfl
    simp [tableLoad, h1, isPrefix]
  · intro v' l' n r hf; cases hf
    have : isPrefix d (d ++ r) = true := (isPrefix_iff _ _).2 (List.prefix_append _ _)
    simp [tableLoad, entryBytes, this]
  · intro v' l' n p hf hp hne
    simp only [entryBytes] at hp hne
    have h1 : isPrefix d p = false := by
      cases h : isPrefix d p with
      | false => rfl
      | true => exact absurd (hp.eq_of_length (Nat.le_antisymm hp.length_le ((isPrefix_iff _ _).1 h).length_le)) hne
    have h2 : isPrefix p d = true := (isPrefix_iff _ _).2 hp
    refine ⟨.eof, ?_, rfl⟩
    by_cases hpe : p = []
    · subst hpe; simp [tableLoad, h1, h2]
    · simp [tableLoad, h1, h2, hpe]
  · intros; rfl

end NutilsVerif.C18
