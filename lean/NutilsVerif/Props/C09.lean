import NutilsVerif.Proofs.C09Integral
import NutilsVerif.Proofs.C09Quad
import NutilsVerif.Proofs.C09Take
import NutilsVerif.Proofs.C09Dedup
import NutilsVerif.Proofs.C09Tables
import NutilsVerif.Proofs.C09Affine
import NutilsVerif.Proofs.C09Valid
/-!
# C09 — integration is exact quadrature of point evaluation: property theorems

(a) sample index algebra and integration (`Model/C09.lean`, `SampleExpr`): for every sample expression of any
nesting; (b) quadrature rule algebra (tensor products, affine images, refined children); (c) the simplex
Gauss tables extracted from `points.py` on every run (`Generated/C09.lean`).
-/
namespace NutilsVerif.C09

/-! ## (a) index algebra -/

/-- Clause "evaluation reports points in the order the sample's index advertises, for every kind of sample":
for every valid sample expression (arbitrary nesting of default / custom index / sum / product / element subset /
zip) the lists `getindex i` have no repeated entry, are pairwise disjoint, and their union is exactly `[0, npoints)`. -/
theorem getindex_partition (s : SampleExpr) (h : Valid s) :
    (∀ i, (getindex s i).Nodup) ∧
    (∀ i j x, x ∈ getindex s i → x ∈ getindex s j → i = j) ∧
    (∀ x, x < npoints s ↔ ∃ i, i < nelems s ∧ x ∈ getindex s i) ∧
    (∀ i, nelems s ≤ i → getindex s i = []) :=
  let p := part_sem s h
  ⟨p.nodup, p.disj, p.cover, p.oob⟩

/-- the concatenation of all index lists (`Sample.index`) is a permutation of `0, …, npoints-1` -/
theorem index_perm (s : SampleExpr) (h : Valid s) :
    (index s).flatten.Perm (List.range (npoints s)) := by
  have := flat_perm (part_sem s h)
  rwa [List.flatMap_def] at this

/-- the element point counts add up to `npoints` -/
theorem index_lengths_sum (s : SampleExpr) (h : Valid s) :
    ((index s).map List.length).sum = npoints s := by
  have := (index_perm s h).length_eq
  rwa [List.length_flatten, List.length_range] at this

/-- a zipped sample has a consistent index whatever is zipped (no hypothesis on the arguments) -/
theorem zip_partition (a b : SampleExpr) :
    (∀ i j x, x ∈ getindex (.zip a b) i → x ∈ getindex (.zip a b) j → i = j) ∧
    (∀ x, x < npoints (.zip a b) ↔ ∃ i, i < nelems (.zip a b) ∧ x ∈ getindex (.zip a b) i) :=
  let p := part_zip (sem a) (sem b)
  ⟨p.disj, p.cover⟩

/-- an element subset renumbers its points consecutively: consistent index whatever the parent and the element list are -/
theorem take_partition (p : SampleExpr) (ind : List Nat) :
    (∀ i j x, x ∈ getindex (.take p ind) i → x ∈ getindex (.take p ind) j → i = j) ∧
    (∀ x, x < npoints (.take p ind) ↔ ∃ i, i < nelems (.take p ind) ∧ x ∈ getindex (.take p ind) i) := by
  have q := part_segSem (ind.map fun i => ((sem p).getindex i).length)
  rw [← sem_take] at q
  exact ⟨q.disj, q.cover⟩

/-- Clause "`sample.eval(f)[sample.getindex(i)]` equals direct evaluation on element `i`": in `Sample.bind(f)`
(with the `_bind` overrides of `_DefaultIndex`, `_Add`, `_Mul`, `_Empty` and the scatter of `_ReorderPoints` elsewhere)
the entry at position `getindex(i)[k]` is `f` at point `k` of element `i`, for every integrand `f` with values in any
commutative semiring. -/
theorem bind_getindex {α : Type} [CommSemiring α] (s : SampleExpr) (h : Valid s) (f : Pt → α) (i k q : Nat) (P : Pt)
    (hq : (getindex s i)[k]? = some q) (hP : (pts s i)[k]? = some P) : bindAt s f q = f P :=
  bindAt_getindex s h f i k q P hq hP

/-- every element has as many points as index entries (so `bind_getindex` covers every point of every element) -/
theorem points_match_index (s : SampleExpr) (i : Nat) : (pts s i).length = (getindex s i).length := pts_length s i

/-- Clause "integrating a function over a sample equals the sum over its points of weight times value, for every
kind of sample": `Sample.integral` (with the `_integral` overrides of `_Add`, `_Mul`, `_Empty` and the element loop of
`_Integral.lower` elsewhere) equals the sum over elements and element points of weight × value, and equals the flat
sum `Σ_q weight(q) · sample.eval(f)[q]` over the evaluation order; for all integrands and leaf weights in any
commutative semiring. -/
theorem integrate_eq_weighted_sum {α : Type} [CommSemiring α] (w : LeafPt → α) (s : SampleExpr) (h : Valid s) (f : Pt → α) :
    integralCode w s f = loopIntegral w s f ∧ integralCode w s f = flatWeightedSum w s f :=
  ⟨integralCode_eq_loop w s f, (integralCode_eq_loop w s f).trans (loop_eq_flat w s h f)⟩

/-- integration over a sum of samples is additive, over a product sample iterated (no validity needed) -/
theorem integral_add_mul {α : Type} [CommSemiring α] (w : LeafPt → α) (a b : SampleExpr) (f : Pt → α) :
    loopIntegral w (.add a b) f = loopIntegral w a f + loopIntegral w b f ∧
    loopIntegral w (.mul a b) f = loopIntegral w a fun pa => loopIntegral w b fun pb => f (pa ++ pb) :=
  ⟨loopIntegral_add w a b f, loopIntegral_mul w a b f⟩

/-- Clause "element subset": `Sample.take_elements` (with the overrides of `_Add` — which regroups the selected elements by
summand —, `_TakeElements`, `_Empty`, and `Sample.__add__` dropping empty summands) yields a valid sample whose integral is the
sum of the contributions of the selected elements (with repetitions), whatever the order of the selection. -/
theorem take_elements_integral {α : Type} [CommSemiring α] (w : LeafPt → α) (s : SampleExpr) (hs : Valid s) (ind : List Nat)
    (hind : ∀ i ∈ ind, i < nelems s) (f : Pt → α) :
    Valid (takeElements s ind) ∧
    integralCode w (takeElements s ind) f = (ind.map fun i => dot (wts w s i) ((pts s i).map f)).sum :=
  takeElements_spec w s hs ind hind f

/-- the validity flag the driver reports (`validB`, compared with the exceptions / assertions of the real constructors)
decides the hypothesis `Valid` of the theorems above -/
theorem valid_decidable (s : SampleExpr) : validB s = true ↔ Valid s := validB_iff s

-- non-vacuity: a nested expression (subset of a product of a sum, zipped with a custom-index sample) is valid
example : Valid (.zip (.take (.mul (.add (.default 0 [2, 1]) (.default 0 [3])) (.default 1 [2])) [2, 0])
    (.custom (.default 2 [4, 6]) [9, 8, 7, 6, 5, 4, 3, 2, 1, 0])) := by
  simp only [Valid]
  decide

/-! ## (b) quadrature rules -/

section
variable {α : Type} [CommSemiring α] {P Q P' : Type}

/-- Clause "on every reference element including tensor products": if `r1` integrates `g` to `I1` and `r2` integrates
`h` to `I2`, the `TensorPoints` rule integrates `g ⊗ h` to `I1 · I2`. -/
theorem tensor_exact (r1 : Rule P α) (r2 : Rule Q α) (g : P → α) (h : Q → α) (I1 I2 : α)
    (h1 : quad r1 g = I1) (h2 : quad r2 h = I2) :
    quad (tensor r1 r2) (fun pq => g pq.1 * h pq.2) = I1 * I2 := by
  rw [quad_tensor_prod, h1, h2]

/-- … and hence every finite combination `Σ_j c_j g_j ⊗ h_j` of exactly integrated factors (all polynomials of
degree ≤ p per factor when the factors are the monomials) to `Σ_j c_j I1_j I2_j`. -/
theorem tensor_exact_span (r1 : Rule P α) (r2 : Rule Q α) (terms : List (α × (P → α) × (Q → α))) :
    quad (tensor r1 r2) (fun pq => (terms.map fun t => t.1 * (t.2.1 pq.1 * t.2.2 pq.2)).sum) =
      (terms.map fun t => t.1 * (quad r1 t.2.1 * quad r2 t.2.2)).sum := by
  induction terms with
  | nil => simp [quad_zero]
  | cons t ts ih =>
    simp only [List.map_cons, List.sum_cons]
    rw [quad_add, ih, quad_smul, quad_tensor_prod]

/-- the weights of a tensor rule sum to the product of the volumes -/
theorem tensor_weights (r1 : Rule P α) (r2 : Rule Q α) :
    totalWeight (tensor r1 r2) = totalWeight r1 * totalWeight r2 := by
  have := quad_tensor_prod r1 r2 (fun _ => (1 : α)) (fun _ => (1 : α))
  simp only [mul_one] at this
  rw [quad_one, quad_one, quad_one] at this
  exact this

/-- `TransformPoints`: the affine image of a rule integrates `g` like the original rule integrates `|det| · g∘T`;
in particular the weights sum to `|det|` times the original volume. -/
theorem transform_weights (r : Rule P α) (T : P → P') (absdet : α) (g : P' → α) :
    quad (transform r T absdet) g = absdet * quad r (fun x => g (T x)) ∧
    totalWeight (transform r T absdet) = absdet * totalWeight r := by
  refine ⟨quad_transform r T absdet g, ?_⟩
  have := quad_transform r T absdet (fun _ => (1 : α))
  rwa [quad_one, quad_one] at this

/-- Clause "refined children and trimmed mosaics" (Gauss/uniform schemes: `ConcatPoints` of `TransformPoints`, no
duplicates): the rule of a `WithChildrenReference` / `MosaicReference` integrates `g` to the sum over the parts of
`|det_c|` times the part rule applied to `g ∘ T_c`. -/
theorem children_exact (parts : List (Rule P α × (P → P') × α)) (g : P' → α) :
    quad (concat (parts.map fun c => transform c.1 c.2.1 c.2.2)) g =
      (parts.map fun c => c.2.2 * quad c.1 (fun x => g (c.2.1 x))).sum := by
  rw [quad_concat, List.map_map]
  congr 1
  apply List.map_congr_left
  intro c _
  exact quad_transform c.1 c.2.1 c.2.2 g

/-- Clause "trimmed mosaics / refined children" for the bezier scheme (`ConcatPoints` with the groups found by
`find_duplicates`): dropping all but the first point of every group of coinciding points and giving it the weights of the
dropped ones changes no weighted sum `Σ w g(x)`, in particular not the total weight (volume). -/
theorem concat_dedup_weights (rs : List (Rule P α)) (dups : List (List (Nat × Nat))) (h : DupOK rs dups) (g : P → α) :
    quad (concatDedup rs dups) g = quad (concat rs) g ∧ totalWeight (concatDedup rs dups) = totalWeight (concat rs) :=
  ⟨quad_concatDedup rs dups h g, totalWeight_concatDedup rs dups h⟩

-- non-vacuity: two parts sharing a point
example : DupOK (α := Int) [[((0 : Int), 1), (1, 2)], [(1, 3), (2, 4)]] [[(0, 1), (1, 0)]] where
  nodup := by decide
  inrange := by decide
  samepoint := by decide

end

/-- `TransformPoints` on the line, analytically: if a rule is exact on `[0,1]` to degree `d` (`Σ w x^j = 1/(j+1)`, `j ≤ d`), its affine
image with points `a + h x` and weights `h w` integrates `x^k`, `k ≤ d`, to `((a+h)^(k+1) − a^(k+1))/(k+1) = ∫_a^{a+h} x^k`
(over any field of characteristic zero). -/
theorem affine_image_exact {K : Type} [Field K] [CharZero K] (r : Rule K K) (d : ℕ)
    (hr : ∀ j ≤ d, quad r (fun x => x ^ j) = 1 / ((j : K) + 1)) (a h : K) (k : ℕ) (hk : k ≤ d) :
    quad (transform r (fun x => a + h * x) h) (fun x => x ^ k) = ((a + h) ^ (k + 1) - a ^ (k + 1)) / ((k : K) + 1) :=
  affine_line_exact r d hr a h k hk

/-- Clause "refined children" on the line: the `ConcatPoints` of the two child images of a rule exact to degree `d` is exact
to degree `d` on the parent. -/
theorem refined_children_exact_line {K : Type} [Field K] [CharZero K] (r : Rule K K) (d : ℕ)
    (hr : ∀ j ≤ d, quad r (fun x => x ^ j) = 1 / ((j : K) + 1)) (k : ℕ) (hk : k ≤ d) :
    quad (concat [transform r (fun x => 0 + (1/2) * x) (1/2), transform r (fun x => 1/2 + (1/2) * x) (1/2)]) (fun x => x ^ k)
      = 1 / ((k : K) + 1) :=
  refined_line_exact r d hr k hk

-- non-vacuity: the midpoint rule is exact to degree 1
example : ∀ j : ℕ, j ≤ 1 → quad ([((1 : ℚ) / 2, 1)] : Rule ℚ ℚ) (fun x => x ^ j) = 1 / ((j : ℚ) + 1) := by
  intro j hj
  match j, hj with
  | 0, _ => norm_num [quad]
  | 1, _ => norm_num [quad]

/-- `gauss1(degree)` asks for `degree//2 + 1` Gauss–Legendre points, and an `n`-point rule has degree `2n-1 ≥ degree` -/
theorem gauss1_count (degree : Nat) : degree ≤ 2 * gauss1Npoints degree - 1 := by
  unfold gauss1Npoints; omega

/-! ## (c) the extracted simplex tables -/

/-- `monomials dim deg` really lists every exponent tuple of that length and total degree at most `deg` -/
theorem monomials_complete (dim deg : Nat) (e : List Nat) (hl : e.length = dim) (hs : e.sum ≤ deg) :
    e ∈ monomials dim deg := by
  induction dim generalizing deg e with
  | zero =>
    have : e = [] := List.length_eq_zero_iff.1 hl
    subst this; simp [monomials]
  | succ dim ih =>
    cases e with
    | nil => simp at hl
    | cons a t =>
      simp only [List.sum_cons] at hs
      simp only [monomials, List.mem_flatMap, List.mem_range, List.mem_map]
      exact ⟨a, by omega, t, ih (deg - a) t (by simpa using hl) (by omega), rfl⟩

/-- Clause "Gauss samples of degree p integrate every polynomial of degree at most p exactly … with all points inside the
element and weights summing to its volume", triangle: for every table of `gauss2` (extracted on this run) with claimed
degree `d`, every monomial `x^a y^b`, `a+b ≤ d`: `|Σ w x^a y^b − a! b!/(a+b+2)!| ≤ 2·10⁻¹⁵` in exact arithmetic on the
decimal literals; all barycentric coordinates are ≥ 0. -/
theorem gauss_triangle_tables : ∀ t ∈ Gen.triTables, tableOK 2 t = true := tri_tables_ok

/-- the same for the tetrahedron tables of `gauss3`: `|Σ w x^a y^b z^c − a! b! c!/(a+b+c+3)!| ≤ 2·10⁻¹⁵`. -/
theorem gauss_tet_tables : ∀ t ∈ Gen.tetTables, tableOK 3 t = true := tet_tables_ok

/-- unfolding of `tableOK` for one monomial: the cross-multiplied form of `|S/scale − fn/fd| ≤ 2·10⁻¹⁵` -/
theorem tableOK_monomial (dim : Nat) (t : ITable) (h : tableOK dim t = true) (e : List Nat)
    (hl : e.length = dim) (hs : e.sum ≤ t.1) :
    ((iRule t.2.2.2 e * ((factorial (e.sum + dim) : Nat) : Int)
        - ((prodNat (e.map factorial) : Nat) : Int) * ((t.2.2.1 * t.2.1 ^ e.sum : Nat) : Int)).natAbs * epsDen
      ≤ epsNum * (t.2.2.1 * t.2.1 ^ e.sum) * factorial (e.sum + dim)) := by
  simp only [tableOK, Bool.and_eq_true, exactToDegree, List.all_eq_true] at h
  have := h.2 e (monomials_complete dim t.1 e hl hs)
  simpa [iMonomialOK] using this

end NutilsVerif.C09
