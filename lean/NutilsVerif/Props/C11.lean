import NutilsVerif.Model.C11
import NutilsVerif.Generated.C11Refs
/-!
# C11 — property theorems
-/
namespace NutilsVerif.C11

/-- (X) every child and edge transform of every reference kind of the source (point, line, square, cube, tesseract, triangle,
tetrahedron, prisms) denotes, in the model, exactly the matrix, offset, orientation flag and dimensions the real object has. -/
theorem refTab_matches_model : ∀ r ∈ Gen.refTab, ∀ e ∈ r.2.2, e.ok = true := by
  decide +kernel

end NutilsVerif.C11
