import NutilsVerif.Model.C11Spec
import NutilsVerif.Generated.C11Refs
import NutilsVerif.Proofs.C11Rewrite
/-!
# C11 — property theorems

Clause "rewriting a transform chain to canonical, uppermost or promoted form never changes the affine map it represents":
`swapup_preserves`, `swapdown_preserves` (any tensor nesting of simplex items of dimension ≤ 3), `canonical_preserves`,
`uppermost_preserves`, `promote_preserves` (all well-formed chains, no bound on the length; the loops are total functions, so
termination of `canonical` / `uppermost` is part of the model).
(X) tie: `refTab_matches_model`, `swap_table_sound`, `swap_table_inverse`, `children_tile`.
-/
namespace NutilsVerif.C11

/-! ## (X) the extracted tables -/

/-- (X) every child and edge transform of every reference kind of the source (point, line, square, cube, tesseract, triangle,
tetrahedron, prisms) denotes, in the model, exactly the matrix, offset, orientation flag and dimensions the real object has. -/
theorem refTab_matches_model : ∀ r ∈ Gen.refTab, ∀ e ∈ r.2.2, e.ok = true := by
  decide +kernel

/-- (X) every entry of the extracted `SimplexEdge.swap` table that `swapup` can read (simplices of dimension 1..3): the swapped
pair (child, edge) composes to the same matrix and offset as (edge, child), has the same orientation, and is found back by the
search of `swapdown`. -/
theorem swap_table_sound : ∀ n, n < 4 → 1 ≤ n → ∀ ie, ie < n + 1 → ∀ ic, ic < 2^(n-1) → swapUpOK n ie ic = true :=
  swapTab_up

/-- (X) every successful search of `SimplexEdge.swapdown` in the extracted table yields the same affine map and orientation and
is mapped back by `swapup`. -/
theorem swap_table_inverse : ∀ n, n < 4 → 1 ≤ n → ∀ ic, ic < 2^n → ∀ ie, ie < n + 1 → swapDownOK n ic ie = true :=
  swapTab_down

/-- the children of a reference tile it by volume: the absolute determinants of the extracted matrices add up to 1 -/
def childVolume (es : List RefEntry) : Rat :=
  ((es.filter fun e => !e.isEdge).map fun e => let d := det e.lin.length e.lin; if d < 0 then -d else d).sum

/-- (X) for every reference kind the child transforms are volume preserving in total: Σ |det| = 1. -/
theorem children_tile : ∀ r ∈ Gen.refTab, childVolume r.2.2 = 1 := by
  decide +kernel

/-- (X) the child and edge transforms of `LineReference()**n` (n ≤ 4) are the ones `StructuredTransforms` is modelled with. -/
theorem cube_tables :
    ∀ p ∈ [("point", 0), ("line", 1), ("square", 2), ("cube", 3), ("tesseract", 4)], ∀ r ∈ Gen.refTab, r.1 = p.1 →
      ((r.2.2.filter fun e => !e.isEdge).map (·.item)) = (cubeChildren p.2).map Item.sq ∧
      ((r.2.2.filter fun e => e.isEdge).map (·.item)) = (cubeEdges p.2).map Item.up := by
  decide +kernel

/-! ## swaps and chain rewrites preserve the affine map -/

/-- `e.swapup(c) = (c', e')` for fitting well-formed items of any tensor nesting: the results are well-formed, have the
dimensions of a (scale, updim) pair in the same place, the same orientation, and `c' ∘ e' = e ∘ c` as maps on points. -/
theorem swapup_preserves (e : Up) (c c' : Sq) (e' : Up) (hwe : e.wf = true) (hwc : c.wf = true) (hd : e.fd = c.dim)
    (h : e.swapup c = some (c', e')) : SwapUpSpec e c c' e' :=
  Up.swapup_sound e c c' e' hwe hwc hd h

/-- `e.swapdown(c) = (e', c')` (including the `ScaledUpdim` fallback): same statement in the other direction. -/
theorem swapdown_preserves (e : Up) (c : Sq) (e' : Up) (c' : Sq) (hwe : e.wf = true) (hwc : c.wf = true) (hd : c.dim = e.td)
    (h : e.swapdown c = some (e', c')) : SwapDownSpec e c e' c' :=
  Up.swapdown_sound e c e' c' hwe hwc hd h

/-- `transform.canonical` never changes the map: for every well-formed chain `R^fd → R^td` the result is again such a chain,
sends every point to the same image, and has the same orientation. -/
theorem canonical_preserves (l : Chain) (td fd : Nat) (h : Fits l td fd) : SameMap l (canonical l) td fd :=
  Reach.sameMap h ((canonical_reach l).mono fun _ _ s => .inl s)

/-- `transform.uppermost` never changes the map. -/
theorem uppermost_preserves (l : Chain) (td fd : Nat) (h : Fits l td fd) : SameMap l (uppermost l) td fd :=
  Reach.sameMap h ((uppermost_reach l).mono fun _ _ s => .inr s)

/-- `transform.promote` never changes the map, whatever `ndims` is asked for. -/
theorem promote_preserves (l : Chain) (n td fd : Nat) (h : Fits l td fd) : SameMap l (promote l n) td fd :=
  Reach.sameMap h (promote_reach l n)

-- non-vacuity: a cube child followed by a face and an edge of the face is a well-formed chain R^1 → R^3
example : Fits [.sq (.tensorChild (.simplexChild 1 0) (.tensorChild (.simplexChild 1 1) (.simplexChild 1 0))),
                .up (.tensorEdge2 1 (.tensorEdge1 (.simplexEdge 1 0 false) 1)), .up (.tensorEdge1 (.simplexEdge 1 1 false) 1)] 3 1 :=
  .cons _ _ _ (by decide) (.cons _ _ _ (by decide) (.cons _ _ _ (by decide) (.nil _)))

end NutilsVerif.C11
