import NutilsVerif.Model.C11Spec
import NutilsVerif.Generated.C11Refs
import NutilsVerif.Proofs.C11Rewrite
import NutilsVerif.Proofs.C11Alg
import NutilsVerif.Proofs.C11Simplex
import NutilsVerif.Proofs.C11Square
import NutilsVerif.Proofs.C11Struct
import NutilsVerif.Proofs.C11Axes
/-!
# C11 — property theorems

Clause "rewriting a transform chain to canonical, uppermost or promoted form never changes the affine map it represents":
`swapup_preserves`, `swapdown_preserves` (any tensor nesting of simplex items of dimension ≤ 3), `canonical_preserves`,
`uppermost_preserves`, `promote_preserves` (all well-formed chains, no bound on the length; the loops are total functions, so
termination of `canonical` / `uppermost` is part of the model).
(X) tie: `refTab_matches_model`, `swap_table_sound`, `swap_table_inverse`, `children_tile`.
-/
namespace NutilsVerif.C11

/-! ## (X) the extracted tables -/

/-- (X) every child and edge transform of every reference kind of the source (point, line, square, cube, tesseract, triangle,
tetrahedron, prisms) denotes, in the model, exactly the matrix, offset, orientation flag and dimensions the real object has. -/
theorem refTab_matches_model : ∀ r ∈ Gen.refTab, ∀ e ∈ r.2.2, e.ok = true := by
  decide +kernel

/-- (X) every entry of the extracted `SimplexEdge.swap` table that `swapup` can read (simplices of dimension 1..3): the swapped
pair (child, edge) composes to the same matrix and offset as (edge, child), has the same orientation, and is found back by the
search of `swapdown`. -/
theorem swap_table_sound : ∀ n, n < 4 → 1 ≤ n → ∀ ie, ie < n + 1 → ∀ ic, ic < 2^(n-1) → swapUpOK n ie ic = true :=
  swapTab_up

/-- (X) every successful search of `SimplexEdge.swapdown` in the extracted table yields the same affine map and orientation and
is mapped back by `swapup`. -/
theorem swap_table_inverse : ∀ n, n < 4 → 1 ≤ n → ∀ ic, ic < 2^n → ∀ ie, ie < n + 1 → swapDownOK n ic ie = true :=
  swapTab_down

/-- the children of a reference tile it by volume: the absolute determinants of the extracted matrices add up to 1 -/
def childVolume (es : List RefEntry) : Rat :=
  ((es.filter fun e => !e.isEdge).map fun e => let d := det e.lin.length e.lin; if d < 0 then -d else d).sum

/-- (X) for every reference kind the child transforms are volume preserving in total: Σ |det| = 1. -/
theorem children_tile : ∀ r ∈ Gen.refTab, childVolume r.2.2 = 1 := by
  decide +kernel

/-- (X) the child and edge transforms of `LineReference()**n` (n ≤ 4) are the ones `StructuredTransforms` is modelled with. -/
theorem cube_tables :
    ∀ p ∈ [("point", 0), ("line", 1), ("square", 2), ("cube", 3), ("tesseract", 4)], ∀ r ∈ Gen.refTab, r.1 = p.1 →
      ((r.2.2.filter fun e => !e.isEdge).map (·.item)) = (cubeChildren p.2).map Item.sq ∧
      ((r.2.2.filter fun e => e.isEdge).map (·.item)) = (cubeEdges p.2).map Item.up := by
  decide +kernel

/-! ## swaps and chain rewrites preserve the affine map -/

/-- `e.swapup(c) = (c', e')` for fitting well-formed items of any tensor nesting: the results are well-formed, have the
dimensions of a (scale, updim) pair in the same place, the same orientation, and `c' ∘ e' = e ∘ c` as maps on points. -/
theorem swapup_preserves (e : Up) (c c' : Sq) (e' : Up) (hwe : e.wf = true) (hwc : c.wf = true) (hd : e.fd = c.dim)
    (h : e.swapup c = some (c', e')) : SwapUpSpec e c c' e' :=
  Up.swapup_sound e c c' e' hwe hwc hd h

/-- `e.swapdown(c) = (e', c')` (including the `ScaledUpdim` fallback): same statement in the other direction. -/
theorem swapdown_preserves (e : Up) (c : Sq) (e' : Up) (c' : Sq) (hwe : e.wf = true) (hwc : c.wf = true) (hd : c.dim = e.td)
    (h : e.swapdown c = some (e', c')) : SwapDownSpec e c e' c' :=
  Up.swapdown_sound e c e' c' hwe hwc hd h

/-- `transform.canonical` never changes the map: for every well-formed chain `R^fd → R^td` the result is again such a chain,
sends every point to the same image, and has the same orientation. -/
theorem canonical_preserves (l : Chain) (td fd : Nat) (h : Fits l td fd) : SameMap l (canonical l) td fd :=
  Reach.sameMap h ((canonical_reach l).mono fun _ _ s => .inl s)

/-- `transform.uppermost` never changes the map. -/
theorem uppermost_preserves (l : Chain) (td fd : Nat) (h : Fits l td fd) : SameMap l (uppermost l) td fd :=
  Reach.sameMap h ((uppermost_reach l).mono fun _ _ s => .inr s)

/-- `transform.promote` never changes the map, whatever `ndims` is asked for. -/
theorem promote_preserves (l : Chain) (n td fd : Nat) (h : Fits l td fd) : SameMap l (promote l n) td fd :=
  Reach.sameMap h (promote_reach l n)

-- non-vacuity: a cube child followed by a face and an edge of the face is a well-formed chain R^1 → R^3
example : Fits [.sq (.tensorChild (.simplexChild 1 0) (.tensorChild (.simplexChild 1 1) (.simplexChild 1 0))),
                .up (.tensorEdge2 1 (.tensorEdge1 (.simplexEdge 1 0 false) 1)), .up (.tensorEdge1 (.simplexEdge 1 1 false) 1)] 3 1 :=
  .cons _ _ _ (by decide) (.cons _ _ _ (by decide) (.cons _ _ _ (by decide) (.nil _)))

/-! ## normal forms and lookups

`nfDown` / `nfUp` (Model/C11Norm.lean) are the chains with every updim swapped as far to the front / back as possible, defined
by structural recursion.  On a class of items on which the two swaps undo each other (`RevSys`) both are invariants of the
equivalence generated by the swaps; this is what makes a lookup through any nesting of derived sequences find the element. -/

/-- the index loop of `transform.canonical` computes the down-normal form of every well-formed chain (of any length) -/
theorem canonical_is_normal_form (l : Chain) (td fd : Nat) (h : Fits l td fd) : canonical l = nfDown l ∧ DnNormal (canonical l) :=
  ⟨canonical_eq_nfDown l td fd h, canonical_normal l td fd h⟩

/-- the index loop of `transform.uppermost` computes the up-normal form of every well-formed chain -/
theorem uppermost_is_normal_form (l : Chain) (td fd : Nat) (h : Fits l td fd) : uppermost l = nfUp l ∧ UpNormal (uppermost l) :=
  ⟨uppermost_eq_nfUp l td fd h, uppermost_normal l td fd h⟩

/-- (X) the items of simplex meshes form a reversible class: by the extracted `SimplexEdge.swap` table, `swapdown` undoes
`swapup` and vice versa, and the class is closed under both. -/
theorem simplex_reversible : RevSys SimplexItem := simplexItem_revSys

/-- For general tensor items the two swaps do NOT undo each other: `TensorEdge1.swapdown` hands back an `Identity` produced by an
earlier `ScaledUpdim` fallback, which `TensorEdge1.swapup` refuses.  This is the formal counterpart of the known finding
`lookup-own-element:swapdown-identity-not-swapped-back` (lookups fail on 4-D tensor elements). -/
theorem tensor_swapdown_not_inverted :
    ∃ a b x y : Item, a.wf = true ∧ b.wf = true ∧ a.fd = b.td ∧ Item.swapdown a b = some (x, y) ∧ Item.swapup x y = none :=
  ⟨.sq (.tensorChild (.simplexChild 1 0) (.identity 1)), .up (.tensorEdge1 (.simplexEdge 1 1 false) 1),
    .up (.tensorEdge1 (.simplexEdge 1 1 false) 1), .sq (.identity 1),
    by decide, by decide, by decide, by decide +kernel, by decide +kernel⟩

/-- **Element lookup.**  For every well-formed nesting `s` of index, masked, reordered, derived (children or edges, uniform or
not) and chained sequences over a reversible class of items, every element `i`, and every tail `t` of items of that class
(any number of child *and* edge transforms): `index_with_tail(s[i] + t)` returns `i` and a remainder `t'` that is a chain
between the same dimensions, equivalent to `t`, denotes the same affine map on every point and has the same orientation. -/
theorem indexWithTail_get (G : Item → Prop) (hG : RevSys G) (key : Item → Nat) (s : TSeq) (hs : s.WF G key)
    (i : Nat) (hi : i < s.len) (t : Chain) (fdt : Nat) (ht : GFits G t s.fd fdt) :
    ∃ ch t', s.get i = some ch ∧ s.iwt key (ch ++ t) = .ok (i, t') ∧ GFits G t' s.fd fdt ∧ Eqv t' t ∧
      SameMap t t' s.fd fdt := by
  obtain ⟨ch, t', hg, hl, hf, he⟩ := iwt_get hG key s hs i hi t fdt ht
  exact ⟨ch, t', hg, hl, hf, he, hG.eqv_sameMap ht hf (Eq.symm he)⟩

/-- `transforms.index(transforms[i]) = i` and `transforms.contains(transforms[i])`, same generality. -/
theorem index_get (G : Item → Prop) (hG : RevSys G) (key : Item → Nat) (s : TSeq) (hs : s.WF G key) (i : Nat) (hi : i < s.len) :
    ∃ ch, s.get i = some ch ∧ s.indexOf key ch = .ok i ∧ s.contains key ch = .ok true := by
  obtain ⟨ch, t', hg, hl, _, he⟩ := iwt_get hG key s hs i hi [] s.fd ⟨.nil _, by simp⟩
  have ht' : t' = [] := List.eq_nil_of_length_eq_zero (by simpa using he.length_eq)
  subst ht'
  simp only [List.append_nil] at hl
  exact ⟨ch, hg, by simp [TSeq.indexOf, hl], by simp [TSeq.contains, TSeq.indexOf, hl]⟩

/-- The lookup theorem for simplex meshes without further hypotheses on the items: lines, triangles, tetrahedra, their
boundaries, interfaces, refinements, hierarchical unions, with tails through any children and edges. -/
theorem indexWithTail_get_simplex (key : Item → Nat) (s : TSeq) (hs : s.WF SimplexItem key) (i : Nat) (hi : i < s.len)
    (t : Chain) (fdt : Nat) (ht : GFits SimplexItem t s.fd fdt) :
    ∃ ch t', s.get i = some ch ∧ s.iwt key (ch ++ t) = .ok (i, t') ∧ GFits SimplexItem t' s.fd fdt ∧ Eqv t' t ∧
      SameMap t t' s.fd fdt :=
  indexWithTail_get SimplexItem simplexItem_revSys key s hs i hi t fdt ht

/-- Scale-type items (children of any tensor product of simplices, of any nesting depth and dimension) are trivially a reversible
class: no swap ever fires between them. -/
theorem square_reversible : RevSys SquareItem := squareItem_revSys

/-- The lookup theorem for tails of child transforms ("the transform plus any number of child transformations", as the docstring
of `index_with_tail` puts it) over items of ANY tensor nesting: squares, cubes, prisms, n-cubes, their refinements, hierarchical
unions, masks and reorderings. -/
theorem indexWithTail_get_children (key : Item → Nat) (s : TSeq) (hs : s.WF SquareItem key) (i : Nat) (hi : i < s.len)
    (t : Chain) (fdt : Nat) (ht : GFits SquareItem t s.fd fdt) :
    ∃ ch t', s.get i = some ch ∧ s.iwt key (ch ++ t) = .ok (i, t') ∧ GFits SquareItem t' s.fd fdt ∧ Eqv t' t ∧
      SameMap t t' s.fd fdt :=
  indexWithTail_get SquareItem squareItem_revSys key s hs i hi t fdt ht

/-! ### the index arithmetic of `StructuredTransforms` -/

/-- `Axis.unmap(Axis.map(r)) = r` for every well-formed axis, periodic (`mod > 0`, length ≤ period) or not, also with negative `i`. -/
theorem axis_unmap_map (a : Axis) (h : a.ok) (r : Nat) (hr : r < a.len) : a.unmap (a.map r) = some r :=
  Axis.unmap_map a h r hr

/-- **Structured flat index ↔ per-axis indices**: the decomposition loop of `__getitem__` (`structDec`, literally the fold of the
model, see `structGet_eq_structDec`) followed by the flattening loop of `index_with_tail` (`structFlat`) is the identity on
`[0, len)`, for any number of axes. -/
theorem structured_index_roundtrip (axes : List Axis) (hax : ∀ ax ∈ axes, ax.ok) (index : Nat) (h : index < structLen axes) :
    (structDec axes index).2 = 0 ∧ structFlat 0 (List.zip (structDec axes index).1 axes) = some index :=
  struct_index_roundtrip axes hax index h

/-- One refinement level: `divmod(indices, 2)` of `__getitem__` picks the child at position `digitsPos r` of
`_ctransforms.reshape((2,)*n)`; `indices*2 + _cindices[child]` of `index_with_tail` restores the indices (also negative ones). -/
theorem structured_refine_roundtrip (ind : List Int) :
    digitsPos (ind.map fun i => Int.fmod i 2) < 2 ^ ind.length ∧
    List.zipWith (fun i d => i * 2 + d) (ind.map fun i => Int.fdiv i 2) (digits ind.length (digitsPos (ind.map fun i => Int.fmod i 2))) = ind :=
  refine_level_roundtrip ind

/-! ### interfaces, boundaries, slices and refinements of the axes of a `StructuredTopology`

Clause "both sides of an interface ..." / "looking up the transform chain of element i ..." for the chains `StructuredTopology.interfaces`
and `.boundary` create: along the axis every side of every facet is an element of the (sliced, refined, periodic or not) topology. -/

/-- number of interfaces along an axis: one per neighbouring pair, plus the seam exactly when the axis is periodic (a slice of a
periodic axis keeps its modulus but is not periodic: no seam). -/
theorem structured_interface_count (d : DimAx) (h : d.ok) (b : Nat) (side : Bool) :
    (d.intaxis b side).len = if d.isperiodic then d.len else d.len - 1 :=
  d.intaxis_len h b side

/-- **both sides of every interface are elements of the topology, and they are neighbours**: interface `r` of `intaxis(side=True)`
(the `transforms`) is a facet of element `r` (`r-1`, or the last element for `r = 0`, on a periodic axis), the same interface of
`intaxis(side=False)` (the `opposites`) is a facet of the next element (the first one across the seam).  For every well-formed
axis: any start, any length, with or without modulus. -/
theorem structured_interface_sides (d : DimAx) (h : d.ok) (b : Nat) (r : Nat) (hr : r < (d.intaxis b true).len) :
    d.toAxis.unmap ((d.intaxis b true).map r) = some (if d.isperiodic then (if r = 0 then d.len - 1 else r - 1) else r) ∧
    d.toAxis.unmap ((d.intaxis b false).map r) = some (if d.isperiodic then r else r + 1) :=
  d.intaxis_sides h b r hr

/-- slicing (`DimAxis.getitem`) keeps an axis well formed, makes it non-periodic, and element `r` of the slice is element
`start + r` of the sliced axis. -/
theorem structured_slice_axis (d : DimAx) (h : d.ok) (start stop : Nat) (h1 : start < stop) (h2 : stop ≤ d.len) :
    (d.getitem start stop).ok ∧ (d.getitem start stop).isperiodic = false ∧ (d.getitem start stop).len = stop - start ∧
    ∀ r, (d.getitem start stop).toAxis.map r = d.toAxis.map (start + r) :=
  d.getitem_ok h start stop h1 h2

/-- refinement (`DimAxis.refined`) keeps an axis well formed and (non-)periodic and doubles its length: with `structured_slice_axis`
every axis reachable from `mesh.rectilinear` / `topology.line` by slicing and refining is well formed. -/
theorem structured_refined_axis (d : DimAx) (h : d.ok) :
    d.refined.ok ∧ d.refined.isperiodic = d.isperiodic ∧ d.refined.len = 2 * d.len :=
  d.refined_ok h

/-- **interfaces of a slice** (also of a periodic axis, also across the seam position): exactly `stop - start - 1` of them, interface
`r` lies between elements `r` and `r + 1` of the slice — no interface refers to an element outside the slice. -/
theorem structured_slice_interfaces (d : DimAx) (h : d.ok) (start stop : Nat) (h1 : start < stop) (h2 : stop ≤ d.len) (b : Nat)
    (side : Bool) (r : Nat) (hr : r + 1 < stop - start) :
    ((d.getitem start stop).intaxis b side).len = stop - start - 1 ∧
    (d.getitem start stop).toAxis.unmap (((d.getitem start stop).intaxis b true).map r) = some r ∧
    (d.getitem start stop).toAxis.unmap (((d.getitem start stop).intaxis b false).map r) = some (r + 1) := by
  obtain ⟨hok, hper, hlen, _⟩ := d.getitem_ok h start stop h1 h2
  have hl := fun s => (d.getitem start stop).intaxis_len hok b s
  simp only [hper, Bool.false_eq_true, if_false, hlen] at hl
  have := (d.getitem start stop).intaxis_sides hok b r (by rw [hl]; omega)
  simp only [hper, Bool.false_eq_true, if_false] at this
  exact ⟨hl side, this.1, this.2⟩

/-- the boundary facets of a non-periodic axis belong to its first and last element; a periodic axis has no boundary. -/
theorem structured_boundary_sides (d : DimAx) (h : d.ok) (b : Nat) :
    if d.isperiodic then d.boundaries b = []
    else ∃ a0 a1, d.boundaries b = [a0, a1] ∧ a0.len = 1 ∧ a1.len = 1 ∧
      d.toAxis.unmap (a0.map 0) = some 0 ∧ d.toAxis.unmap (a1.map 0) = some (d.len - 1) :=
  d.boundaries_sides h b

-- non-vacuity: the periodic axis of `mesh.rectilinear([5], periodic=[0])`, its slice `[0:3]` and the refinement of that slice
example : (DimAx.mk 0 5 5 true).ok := by simp [DimAx.ok]
example : ((DimAx.mk 0 5 5 true).getitem 0 3).refined = DimAx.mk 0 6 10 false := by decide
example : ((DimAx.mk 0 5 5 true).getitem 0 3).intaxis 0 true = { i := 0, j := 2, mod := 5, isdim := false, ibound := 0, side := true } := by decide
example : (DimAx.mk 0 5 5 true).intaxis 0 true = { i := -1, j := 4, mod := 5, isdim := false, ibound := 0, side := true } := by decide

-- non-vacuity: the refined boundary of two triangles (children of the kept edges of `UniformDerived(Index)`), chained with the
-- edges of a third triangle refined the same way
def exampleSeq : TSeq :=
  .uniform (.masked (.uniform (.index 2 2 0) [.up (.simplexEdge 2 0 false), .up (.simplexEdge 2 1 false), .up (.simplexEdge 2 2 false)] 1) [0, 2, 4])
    [.sq (.simplexChild 1 0), .sq (.simplexChild 1 1)] 1

example : exampleSeq.WF SimplexItem (fun _ => 0) := by
  simp [exampleSeq, TSeq.WF, DerivedItemOK, SimplexItem, TSeq.fd, TSeq.len, Item.td, Item.fd, Item.isUp, Up.td, Up.fd, Sq.dim]

example : exampleSeq.len = 6 := by decide

/-! ## compressed containers (`elementseq.References`, `pointsseq.PointsSequence`)

`Alg.Seq.toList` is the sequence a container stands for.  The constructors below are the ones the classes really use
(class specific overrides of take / compress / repeat / product / chain / children / edges, chain merging and balancing);
every theorem says that the result denotes the corresponding list operation and is again well-formed, for all nestings. -/

section containers
variable {β : Type} [DecidableEq β] (o : Alg.Ops β)

/-- `len(seq)` and `seq.get(i)` read the denoted list (any nesting). -/
theorem containers_len_get (s : Alg.Seq β) (h : s.wf o) :
    s.len o = (s.toList o).length ∧ ∀ i, s.get o i = (s.toList o)[i]? :=
  ⟨Alg.Seq.len_eq o s h, Alg.Seq.get_eq o s h⟩

/-- `from_iter` and `uniform` denote the items they were given. -/
theorem containers_from_iter (l : List β) (x : β) (n : Nat) :
    (Alg.fromIter l).toList o = l ∧ (Alg.uniformS x n).toList o = List.replicate n x :=
  ⟨(Alg.toList_fromIter o l).1, (Alg.toList_uniformS o x n).1⟩

/-- `seq.repeat(count)` -/
theorem containers_repeat (s : Alg.Seq β) (c : Nat) (h : s.wf o) :
    (Alg.repeatS s c).toList o = (List.replicate c (s.toList o)).flatten ∧ (Alg.repeatS s c).wf o :=
  Alg.toList_repeatS o s c h

/-- `a.chain(b)`: concatenation, whatever `_merge_chain` / `_balanced_chain` do to the representation. -/
theorem containers_chain (a b : Alg.Seq β) (ha : a.wf o) (hb : b.wf o) :
    (Alg.chainS o a b).toList o = a.toList o ++ b.toList o ∧ (Alg.chainS o a b).wf o :=
  Alg.toList_chainS o a b ha hb

/-- `seq.take(indices)` denotes `[seq[i] for i in indices]` for all in-range indices **in any order** (the model mirrors the
repaired `_Chain.take`, which falls back to the generic `_Take` when an index into the first sequence follows one into
the second). -/
theorem containers_take (s : Alg.Seq β) (idx : List Nat) (h : s.wf o) (hi : ∀ i ∈ idx, i < (s.toList o).length) :
    (Alg.takeS o s idx).toList o = idx.filterMap (fun i => (s.toList o)[i]?) ∧ (Alg.takeS o s idx).wf o :=
  Alg.toList_takeS o s idx h hi

/-- Before the repair (`Alg.takeSOld`) the statement was false: `_Chain.take` returned the hits in the first sequence before
the hits in the second one (regression corpus case `container-take:chain-unsorted-indices` of the check). -/
theorem containers_take_old_counterexample :
    let o : Alg.Ops Nat := ⟨fun a b => a * 10 + b, fun _ _ => []⟩
    let s := Alg.chainS o (Alg.fromIter [1, 2, 1]) (Alg.fromIter [2, 2, 1])
    (Alg.takeSOld o s [5, 0, 4, 1]).toList o ≠ [5, 0, 4, 1].filterMap (fun i => (s.toList o)[i]?) ∧
    (Alg.takeS o s [5, 0, 4, 1]).toList o = [5, 0, 4, 1].filterMap (fun i => (s.toList o)[i]?) := by
  decide

/-- `seq.compress(mask)` -/
theorem containers_compress (s : Alg.Seq β) (mask : List Bool) (h : s.wf o) (hm : mask.length = (s.toList o).length) :
    (Alg.compressS o s mask).toList o = Alg.compressL (s.toList o) mask ∧ (Alg.compressS o s mask).wf o :=
  Alg.toList_compressS o s mask h hm

/-- `a.product(b)` (item products are associative by construction of `Reference.product`). -/
theorem containers_product (hassoc : ∀ x y z, o.mul (o.mul x y) z = o.mul x (o.mul y z)) (a b : Alg.Seq β)
    (ha : a.wf o) (hb : b.wf o) :
    (Alg.productS o a b).toList o = Alg.prodL o.mul (a.toList o) (b.toList o) ∧ (Alg.productS o a b).wf o :=
  Alg.toList_productS o hassoc a b ha hb

/-- `seq.children` / `seq.edges` -/
theorem containers_derived (tag : Bool) (s : Alg.Seq β) (h : s.wf o) :
    (Alg.derivedS o tag s).toList o = (s.toList o).flatMap (o.der tag) ∧ (Alg.derivedS o tag s).wf o :=
  Alg.toList_derivedS o tag s h

end containers

end NutilsVerif.C11
