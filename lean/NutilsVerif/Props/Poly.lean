import NutilsVerif.Proofs.Poly
/-!
# Soundness of the `Poly` normal-form arithmetic (`Core/Poly.lean`)

For every field `R` of characteristic zero (ℚ, ℝ, ℂ, …) and every interpretation `ρ : String → R`
of the atoms, `Poly.eval ρ` is a homomorphism from the normal-form arithmetic to `R`, and equal
normal forms have equal values.  Hence one symbolic evaluation with `Poly` scalars is a statement
about *all* real argument values (and all values of the uninterpreted function applications).
No theorem needs the term lists to be sorted / duplicate-free / zero-free: soundness is
unconditional; well-formedness only matters for completeness, which is not claimed.

`Mono.eval ρ m = ∏ (a,n) ∈ m, ρ a ^ n`, `Poly.eval ρ p = Σ (m,c) ∈ p.terms, (c : R) * Mono.eval ρ m`
(definitions in `Proofs/Poly.lean`; the two `…_eq_…` theorems below tie the recursive definitions
to these closed forms).
-/
namespace NutilsVerif.PolyProps
open NutilsVerif

universe u
variable {R : Type u} [Field R]

/-- The monomial value is the product of the atom powers. -/
theorem Mono.eval_eq_prod (ρ : String → R) (m : Mono) :
    Mono.eval ρ m = (m.map fun an => ρ an.1 ^ an.2).prod :=
  NutilsVerif.Mono.eval_eq_prod ρ m

/-- The polynomial value is the sum over its terms of coefficient times monomial value. -/
theorem eval_eq_sum (ρ : String → R) (p : Poly) :
    Poly.eval ρ p = (p.terms.map fun mc => (mc.2 : R) * NutilsVerif.Mono.eval ρ mc.1).sum :=
  Poly.evalTerms_eq_sum ρ p.terms

/-- `Mono.cmp` answers `.eq` only for identical monomials (used when `insertTerm` merges terms). -/
theorem Mono.eq_of_cmp_eq (a b : Mono) (h : NutilsVerif.Mono.cmp a b = .eq) : a = b :=
  NutilsVerif.Mono.eq_of_cmp_eq a b h

/-- The merge product of monomials evaluates to the product of the values (for arbitrary, also
unsorted, atom lists). -/
theorem Mono.eval_mul (ρ : String → R) (a b : Mono) :
    NutilsVerif.Mono.eval ρ (NutilsVerif.Mono.mul a b)
      = NutilsVerif.Mono.eval ρ a * NutilsVerif.Mono.eval ρ b :=
  NutilsVerif.Mono.eval_mul ρ a b

/-- The zero polynomial evaluates to 0. -/
theorem eval_zero (ρ : String → R) : Poly.eval ρ Poly.zero = 0 := Poly.eval_zero ρ

/-- A constant polynomial evaluates to its rational (cast into `R`). -/
theorem eval_ofRat (ρ : String → R) (q : Rat) : Poly.eval ρ (Poly.ofRat q) = (q : R) :=
  Poly.eval_ofRat ρ q

/-- An integer constant evaluates to that integer. -/
theorem eval_ofInt (ρ : String → R) (z : Int) : Poly.eval ρ (Poly.ofInt z) = (z : R) :=
  Poly.eval_ofInt ρ z

/-- The polynomial `one` evaluates to 1. -/
theorem eval_one (ρ : String → R) : Poly.eval ρ Poly.one = 1 := Poly.eval_one ρ

/-- A numeric literal of type `Poly` evaluates to that number. -/
theorem eval_ofNat (ρ : String → R) (n : Nat) : Poly.eval ρ (OfNat.ofNat n : Poly) = (n : R) :=
  Poly.eval_ofNat ρ n

/-- An atom evaluates to its interpretation. -/
theorem eval_atom (ρ : String → R) (k : String) : Poly.eval ρ (Poly.atom k) = ρ k :=
  Poly.eval_atom ρ k

/-- Inserting a term into any term list adds exactly that term's value (all three branches: new
position, merge with an equal monomial incl. cancellation to zero, dropped zero coefficient). -/
theorem eval_insertTerm [CharZero R] (ρ : String → R) (m : Mono) (c : Rat) (l : List (Mono × Rat)) :
    Poly.eval ρ ⟨Poly.insertTerm m c l⟩ = (c : R) * NutilsVerif.Mono.eval ρ m + Poly.eval ρ ⟨l⟩ :=
  Poly.eval_insertTerm ρ m c l

/-- Addition commutes with evaluation. -/
theorem eval_add [CharZero R] (ρ : String → R) (p q : Poly) :
    Poly.eval ρ (p + q) = Poly.eval ρ p + Poly.eval ρ q := Poly.eval_add ρ p q

/-- Negation commutes with evaluation. -/
theorem eval_neg (ρ : String → R) (p : Poly) : Poly.eval ρ (-p) = - Poly.eval ρ p :=
  Poly.eval_neg ρ p

/-- Subtraction commutes with evaluation. -/
theorem eval_sub [CharZero R] (ρ : String → R) (p q : Poly) :
    Poly.eval ρ (p - q) = Poly.eval ρ p - Poly.eval ρ q := Poly.eval_sub ρ p q

/-- Scaling by a rational commutes with evaluation. -/
theorem eval_scale [CharZero R] (ρ : String → R) (c : Rat) (p : Poly) :
    Poly.eval ρ (Poly.scale c p) = (c : R) * Poly.eval ρ p := Poly.eval_scale ρ c p

/-- Multiplication commutes with evaluation. -/
theorem eval_mul [CharZero R] (ρ : String → R) (p q : Poly) :
    Poly.eval ρ (p * q) = Poly.eval ρ p * Poly.eval ρ q := Poly.eval_mul ρ p q

/-- Natural powers commute with evaluation. -/
theorem eval_npow [CharZero R] (ρ : String → R) (p : Poly) (n : Nat) :
    Poly.eval ρ (Poly.npow p n) = Poly.eval ρ p ^ n := Poly.eval_npow ρ p n

/-- Equal term lists have equal values. -/
theorem eval_eq_of_terms_eq (ρ : String → R) {p q : Poly} (h : p.terms = q.terms) :
    Poly.eval ρ p = Poly.eval ρ q := Poly.eval_eq_of_terms_eq ρ h

/-- Headline: if the boolean normal-form comparison `p == q` succeeds, then `p` and `q` have the
same value under every interpretation of the atoms, in every characteristic-zero field. -/
theorem beq_sound {p q : Poly} (h : (p == q) = true) (ρ : String → R) :
    Poly.eval ρ p = Poly.eval ρ q := Poly.beq_sound h ρ

/-- `==` on `Poly` decides (a sufficient condition for) equality of the structures themselves. -/
theorem eq_of_beq {p q : Poly} (h : (p == q) = true) : p = q := Poly.eq_of_beq' h

/-- A polynomial recognised as the constant `q` has value `q` under every interpretation. -/
theorem toRat?_sound {p : Poly} {q : Rat} (h : p.toRat? = some q) (ρ : String → R) :
    Poly.eval ρ p = (q : R) := Poly.toRat?_sound h ρ

/-- A polynomial recognised as the integer constant `z` has value `z` under every interpretation. -/
theorem toInt?_sound {p : Poly} {z : Int} (h : p.toInt? = some z) (ρ : String → R) :
    Poly.eval ρ p = (z : R) := Poly.toInt?_sound h ρ

/-- A polynomial recognised as zero has value 0 under every interpretation. -/
theorem isZero_sound {p : Poly} (h : p.isZero = true) (ρ : String → R) : Poly.eval ρ p = 0 :=
  Poly.isZero_sound h ρ

/-! ### the hypotheses are satisfiable / the statements are not vacuous -/

/-- instance `R := ℚ` -/
example (ρ : String → ℚ) (p q : Poly) : Poly.eval ρ (p * q) = Poly.eval ρ p * Poly.eval ρ q :=
  eval_mul ρ p q

/-- a normal-form identity that holds (`(x+1)(x-1) = x² - 1`), decided by `==`, gives the identity
for all rational `x` -/
example (x : ℚ) : (x + 1) * (x - 1) = x ^ 2 - 1 := by
  have h : ((Poly.atom "x" + 1) * (Poly.atom "x" - 1) == Poly.npow (Poly.atom "x") 2 - 1) = true := by
    decide +kernel
  have e1 : Poly.eval (fun _ => x) (1 : Poly) = 1 := by simpa using eval_ofNat (fun _ => x) 1
  have := beq_sound h (fun _ => x)
  simpa [eval_mul, eval_add, eval_sub, eval_atom, e1, eval_npow] using this

/-- `==` does distinguish: `x` and `y` are different normal forms -/
example : (Poly.atom "x" == Poly.atom "y") = false := by decide +kernel

end NutilsVerif.PolyProps
