import NutilsVerif.Model.C07
import NutilsVerif.Generated.C07
import NutilsVerif.Proofs.C07Basic
import NutilsVerif.Proofs.C07Broadcast
import NutilsVerif.Proofs.C07Getitem
import NutilsVerif.Proofs.C07Reshape
import NutilsVerif.Proofs.C07Transpose
/-!
# C07 — property theorems

Every theorem relates a **code model** (transcription of the index / shape logic of `nutils/function.py`, see
`Model/C07.lean`) to the **specification** of NumPy / CPython written independently in the same file (`np…`, `py…`),
for ALL inputs.  The harness validates the specification functions against real NumPy and the code models against real
nutils on every run; the proofs themselves live in `Proofs/C07*.lean`.
-/
namespace NutilsVerif.C07

/-! ## axis normalisation (`numeric.normdim`, used by every `axis=` argument, `_Transpose._end`, `_Concatenate`) -/

/-- `normdim ndim n` is defined exactly for `-ndim ≤ n < ndim` (otherwise IndexError, as NumPy's AxisError), and then it
is the axis `n mod ndim` NumPy means. -/
theorem normdim_spec (ndim : Nat) (n : Int) :
    (normdim ndim n = none ↔ (n < -(ndim : Int) ∨ (ndim : Int) ≤ n)) ∧
    ∀ k, normdim ndim n = some k → (k < ndim ∧ (k : Int) = n % (ndim : Int)) :=
  ⟨normdim_none_iff ndim n, normdim_some ndim n⟩

/-- the constant-index branch of `numpy.take` (`indices[indices<0] += length`, bounds check): an in-range index is
normalised like NumPy does, anything else is rejected when the expression is built. -/
theorem take_index_normal (i : Int) (n : Nat) :
    (∀ k, normIndex i n = some k → k < n ∧ ((0 ≤ i ∧ (k : Int) = i) ∨ (i < 0 ∧ (k : Int) = i + n))) ∧
    (normIndex i n = none ↔ (i < -(n : Int) ∨ (n : Int) ≤ i)) := by
  unfold normIndex
  by_cases h : i < 0
  · simp [h]; constructor <;> (try intro k) <;> omega
  · simp [h]; constructor <;> (try intro k) <;> omega

/-! ## element kinds -/

/-- `typecast_arrays` computes NumPy's kind promotion (the join in `bool < int < float < complex`), which is
commutative, associative and idempotent. -/
theorem promote_lattice :
    (∀ a b, promote a b = npPromote a b) ∧ (∀ a b, npPromote a b = npPromote b a) ∧
    (∀ a b c, npPromote (npPromote a b) c = npPromote a (npPromote b c)) ∧ (∀ a, npPromote a a = a) :=
  ⟨promote_eq_np, npPromote_comm, npPromote_assoc, npPromote_idem⟩

/-- the common dtype chosen by `typecast_arrays(*arrays, min_dtype)` is the least kind that is at least `min_dtype`
and at least every operand kind. -/
theorem typecast_spec (m : DType) (ds : List DType) :
    typecast m ds = ds.foldl npPromote m ∧ m.rank ≤ (typecast m ds).rank ∧ (∀ d ∈ ds, d.rank ≤ (typecast m ds).rank) ∧
    (typecast m ds = m ∨ typecast m ds ∈ ds) := by
  have h := typecast_eq_np m ds
  have hr := foldl_npPromote_rank m ds
  have hge := foldl_max_ge m.rank ds
  refine ⟨h, by rw [h, hr]; exact hge.1, fun d hd => by rw [h, hr]; exact hge.2 d hd, ?_⟩
  rcases foldl_max_mem m.rank ds with hm | ⟨d, hd, hm⟩
  · left; rw [h]; exact rank_inj (by rw [hr, hm])
  · right; rw [h]; have : ds.foldl npPromote m = d := rank_inj (by rw [hr, hm]); rw [this]; exact hd

/-- (X) every entry of the table re-extracted from `HANDLED_FUNCTIONS` (`min_dtype`, `force_dtype` of each
`_Wrapper.broadcasted_arrays` call) produces, for all supported operand kinds, the element kind NumPy produces. -/
theorem ufunc_table_kind :
    ∀ e ∈ ufuncTable, ∀ ds ∈ allKinds e.nin, supportedKinds e.name ds = true → npUfuncKind e.name ds = some (e.result ds) := by
  decide +kernel

/-! ## broadcasting -/

/-- `function.broadcast_shapes` returns NumPy's broadcast shape (right-aligned, every axis pair equal or one of them 1,
folded over all shapes) and rejects exactly when NumPy rejects. -/
theorem broadcast_shapes_spec (shapes : List (List Nat)) (h : shapes ≠ []) :
    broadcastShapes shapes = npBroadcast shapes :=
  broadcastShapes_eq_npBroadcast shapes h

/-- the broadcast of shapes is commutative, associative and idempotent, with `()` as unit -/
theorem broadcast_laws :
    (∀ a b, npBroadcast2 a b = npBroadcast2 b a) ∧
    (∀ a b c, (npBroadcast2 a b).bind (fun x => npBroadcast2 x c) = (npBroadcast2 b c).bind (fun y => npBroadcast2 a y)) ∧
    (∀ a, npBroadcast2 a a = some a) ∧ (∀ a, npBroadcast2 a [] = some a) :=
  ⟨npBroadcast2_comm, npBroadcast2_assoc, npBroadcast2_idem, npBroadcast2_nil_right⟩

/-- the result of a successful broadcast has the maximal rank and every axis is the pairwise rule applied to the
right-aligned operand axes (missing axes count as 1) -/
theorem broadcast2_pointwise (a b c : List Nat) :
    npBroadcast2 a b = some c ↔
      c.length = max a.length b.length ∧ ∀ j, bcAxis (a.reverse.getD j 1) (b.reverse.getD j 1) = some (c.reverse.getD j 1) := by
  unfold npBroadcast2
  constructor
  · intro h
    obtain ⟨r, hr, rfl⟩ := Option.map_eq_some_iff.mp h
    have := (npBroadcastRev_iff _ _ _).mp hr
    simpa using this
  · rintro ⟨hl, hp⟩
    have : npBroadcastRev a.reverse b.reverse = some c.reverse := (npBroadcastRev_iff _ _ _).mpr ⟨by simpa using hl, hp⟩
    rw [this]; simp

/-! ## slices -/

/-- `_takeslice` (with the clipping fix): for all `(start, stop, step, n)` the index vector used equals
`range(*slice(start, stop, step).indices(n))`; a zero step is rejected in both. -/
theorem takeslice_spec (s : PySlice) (n : Nat) : (takeslice s n).map (·.indices n) = npSliceRange s n :=
  takeslice_indices s n

/-- every index a slice produces lies inside the axis (so the `Take` never reads out of bounds) -/
theorem slice_indices_inrange (s : PySlice) (n : Nat) (r : List Int) (h : npSliceRange s n = some r) :
    ∀ i ∈ r, 0 ≤ i ∧ i < n :=
  npSliceRange_inrange s n r h

/-- the pinned tree (no clipping in the unit-step branch) violates `takeslice_spec`: witness `a[0:10]` on length 3 -/
theorem takeslice_pinned_counterexample :
    (takeslicePinned ⟨some 0, some 10, none⟩ 3).map (·.indices 3) ≠ npSliceRange ⟨some 0, some 10, none⟩ 3 := by
  decide

/-! ## `Array.__getitem__` -/

/-- for every item tuple of ints (any sign), slices (any start / stop / step, also `None`), an ellipsis and newaxes,
the loop of `Array.__getitem__` (ellipsis expansion through the `nx` count, `axis += 1` bookkeeping, `expand_dims`,
`_takeslice`, `take`) rejects exactly when NumPy's basic indexing does, and otherwise yields NumPy's result shape and
NumPy's element map. -/
theorem getitem_normal_form (shape : List Nat) (items : List Item) (hb : ∀ it ∈ items, it.isBasic = true) :
    match getitem shape items, npGetitemBasic shape items with
    | some v, some w => v.shape = w.shape ∧ ∀ idx, inBox w.shape idx = true → v.src idx = w.src idx
    | none, none => True
    | _, _ => False :=
  getitem_normal_form' shape items hb

/-! ## `numpy.reshape` -/

/-- the ravel / unravel / roll plan (common-prefix detection, `-1` resolution, appended singletons, stripping of
trailing singletons) denotes the row-major reshape for every pair of shapes of equal size and rejects all others
(dimensions positive: zero-size arrays make the real code divide by zero, see notes). -/
theorem reshape_plan_spec (shape : List Nat) (newshape : List (Option Nat))
    (hpos : ∀ n ∈ shape, 0 < n) (hpos' : ∀ n ∈ newshape.filterMap id, 0 < n) :
    match reshape shape newshape, npReshape shape newshape with
    | .ok v, some w => v.shape = w.shape ∧ ∀ idx, inBox w.shape idx = true → v.src idx = w.src idx
    | .error _, none => True
    | _, _ => False :=
  reshape_plan_spec' shape newshape hpos hpos'

/-! ## lowering relative to the leading point axes -/

/-- `_Transpose.lower` with `k` point axes: the lowered transposition keeps the `k` leading axes in place and acts on
the remaining axes exactly as the unlowered transposition — for every `k`, every axes tuple and every point index. -/
theorem transpose_lower_pointwise (k : Nat) (axes ps sh p idx : List Nat) (hps : ps.length = k) (hp : p.length = k) :
    transposeShape (liftAxes k axes) (ps ++ sh) = ps ++ transposeShape axes sh ∧
    transposeSrc (liftAxes k axes) (p ++ idx) = p ++ transposeSrc axes idx :=
  ⟨lift_shape k axes ps sh hps, lift_src k axes p idx hp⟩

/-- `_Concatenate.lower` (and every `Sum`/`Take`/`Inflate` behind `_Transpose.to_end`) addresses its axis from the END
(`self.axis - self.ndim`): after `k` point axes have been prepended this is axis `k + axis` of the lowered array. -/
theorem concatenate_lower_axis (k ndim axis : Nat) (h : axis < ndim) :
    normdim (k + ndim) ((axis : Int) - (ndim : Int)) = some (k + axis) := by
  unfold normdim
  have h1 : (axis : Int) - (ndim : Int) < 0 := by omega
  simp only [h1, if_true]
  rw [if_neg (by push_cast; omega)]
  congr 1; push_cast; omega

/-- known finding `matmul:inner-dimension-broadcast`, as a fact about the code model: `matmul` (multiply with
broadcasting, then sum) accepts inner dimensions `1` vs `3`, which NumPy's matmul shape rule rejects; on aligned operands
both give the same shape. -/
theorem matmul_inner_dim_counterexample :
    matmulShape [2, 1] [3, 4] = some [2, 4] ∧ npMatmulShape [2, 1] [3, 4] = none ∧
    matmulShape [5, 2, 3] [3, 4] = npMatmulShape [5, 2, 3] [3, 4] ∧ matmulShape [3] [2, 3, 4] = npMatmulShape [3] [2, 3, 4] := by
  decide

-- the hypotheses of the theorems above are satisfiable / the statements are not vacuous
example : broadcastShapes [[2, 1, 3], [4, 1], []] = some [2, 4, 3] := by decide
example : broadcastShapes [[2, 3], [2]] = none := by decide
example : (getitem [2, 3, 4] [.int (-1), .ellipsis, .slice ⟨some 1, none, some 2⟩]).map (·.shape) = some [3, 2] := by decide
example : (npSliceRange ⟨none, none, some (-2)⟩ 5) = some [4, 2, 0] := by decide
example : (match reshape [2, 3, 4] [some 4, none] with | .ok v => some v.shape | .error _ => none) = some [4, 6] := by decide

end NutilsVerif.C07
