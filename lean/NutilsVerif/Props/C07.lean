import NutilsVerif.Model.C07
import NutilsVerif.Generated.C07
/-!
# C07 — property theorems (statements about the executable model in `Model/C07.lean`)
-/
namespace NutilsVerif.C07

theorem placeholder : normdim 3 (-1) = some 2 := by decide

end NutilsVerif.C07
