import NutilsVerif.Proofs.C15Block
import NutilsVerif.Proofs.C15Coo
import NutilsVerif.Proofs.C15BlockCode
/-!
# C15 — property theorems (statements only about the executable model in `Model/C15.lean`)

"A matrix assembled from CSR, COO or block data represents exactly that data … Input that does not define a
matrix unambiguously is rejected rather than silently altered."  All theorems are unbounded: for every triple,
every index vector, every rectangular dense array, every block structure.
-/
namespace NutilsVerif.C15

/-! ## 1. rejection: the code's validation is exactly the specification -/

/-- **Clause "input that does not define a matrix unambiguously is rejected".**  The vectorised validation of
`assemble_csr` (row pointer test, range test, flag vector with neighbour comparisons and the positions listed in
`rowptr` forced true) accepts exactly the triples that the specification `validB` calls unambiguous: row pointers
partition `0..nnz`, every column index is in `[0,ncols)`, column indices strictly increase inside each row slice. -/
theorem accept_iff_valid (m : CSR) : codeAccept m = validB m := accept_iff_valid' m

/-- the rejection classes: whatever `validate` answers, it answers `ok` iff the triple is valid -/
theorem validate_ok_iff (m : CSR) : validate m = .ok () ↔ validB m = true := by
  rw [← accept_iff_valid]
  unfold codeAccept
  cases h : validate m <;> simp [Except.isOk, Except.toBool]

/-! ## 2. faithful: nothing is dropped for accepted input -/

theorem filter_le_one {α β : Type} [DecidableEq β] (f : α → β) (p : α → Bool) (c : β) (l : List α)
    (hn : (l.map f).Nodup) (hp : ∀ x, p x = true → f x = c) : (l.filter p).length ≤ 1 := by
  induction l with
  | nil => simp
  | cons a t ih =>
    rw [List.map_cons, List.nodup_cons] at hn
    rw [List.filter_cons]
    split
    · rename_i ha
      have : t.filter p = [] := by
        rw [List.filter_eq_nil_iff]
        intro x hx hpx
        apply hn.1
        rw [hp a ha, ← hp x hpx]
        exact List.mem_map_of_mem hx
      simp [this]
    · exact ih hn.2

/-- If no (row, column) position is listed twice, the numpy backend's last-write-wins scatter
(`array[rowidx, colidx] = data`) coincides with the additive meaning of the sparse data: no value is dropped. -/
theorem assign_eq_sum (m : CSR) (h : ((entries m).map fun e => (e.1, e.2.1)).Nodup) :
    denseAssign m = denseSum m := by
  unfold denseAssign denseSum
  apply List.map_congr_left; intro i _
  apply List.map_congr_left; intro j _
  have hl := filter_le_one (fun e : Nat × Int × Int => (e.1, e.2.1)) (fun e => e.1 == i && e.2.1 == (j:Int)) (i, (j:Int)) (entries m) h
    (by intro x hx; simp at hx; ext <;> simp [hx.1, hx.2])
  generalize (entries m).filter (fun e => e.1 == i && e.2.1 == (j:Int)) = L at hl
  match L, hl with
  | [], _ => simp
  | [e], _ => simp
  | _ :: _ :: _, h => simp at h

/-- A valid triple lists every (row, column) position at most once. -/
theorem valid_positions_nodup (m : CSR) (h : validB m = true) :
    ((entries m).map fun e => (e.1, e.2.1)).Nodup := by
  obtain ⟨L, hm, hL⟩ := valid_rows m h
  rw [hm, entries_ofRows]
  exact positions_nodup_from L 0 (fun r hr => (hL r hr).1)

/-- **Clause "represents exactly that data" for the numpy backend.**  For valid input the scatter equals the
additive dense meaning. -/
theorem valid_assign_eq_sum (m : CSR) (h : validB m = true) : denseAssign m = denseSum m :=
  assign_eq_sum m (valid_positions_nodup m h)

/-- `assemble_csr` as a whole: valid input is assembled to exactly its dense meaning … -/
theorem assemble_valid (m : CSR) (h : validB m = true) : assemble m = .ok (denseSum m) := by
  unfold assemble
  rw [(validate_ok_iff m).2 h]
  simp [bind, Except.bind, pure, Except.pure, valid_assign_eq_sum m h]

/-- … and everything else is rejected. -/
theorem assemble_invalid (m : CSR) (h : validB m = false) : ∃ e, assemble m = .error e := by
  unfold assemble
  cases hv : validate m with
  | error e => exact ⟨e, by simp [bind, Except.bind]⟩
  | ok u =>
    cases u
    rw [(validate_ok_iff m).1 hv] at h
    exact absurd h (by simp)

/-! ## 3. why ambiguous input must be rejected -/

/-- A repeated column index inside a row (the triple that the unrepaired code accepted): the scatter keeps only the
last value, so the assembled matrix differs from the data.  Such input is invalid, hence rejected (Theorem 1). -/
theorem invalid_ambiguous_witness :
    let m : CSR := { values := [1, 2, 3], rowptr := [0, 2, 3], colidx := [1, 1, 0], ncols := 2 }
    validB m = false ∧ codeAccept m = false ∧ denseAssign m ≠ denseSum m := by decide

/-- A negative column index would wrap to the last column in NumPy; it is invalid, hence rejected. -/
theorem invalid_negative_witness :
    codeAccept { values := [1, 2], rowptr := [0, 2], colidx := [-1, 0], ncols := 2 } = false := by decide

/-! ## 4. compress_indices / assemble_coo -/

/-- **`numeric.compress_indices`.**  For every index vector and length: the function succeeds iff the indices are
sorted and inside `[0, length)`, and then returns `indices.searchsorted(arange(length+1))`; out-of-bounds end points
give the `bounds` error, all other failures the `not monotonic` error. -/
theorem compress_indices_spec (idx : List Int) (n : Nat) : compressIndices idx n = compressSpec idx n :=
  compress_eq_spec idx n

theorem compress_ok_iff (idx : List Int) (n : Nat) (c : List Int) :
    compressIndices idx n = .ok c ↔ (monotone idx = true ∧ inRange idx n = true) ∧ c = searchsortedAll idx n := by
  rw [compress_indices_spec]
  unfold compressSpec
  by_cases h : (monotone idx && inRange idx n) = true
  · rw [if_pos h]
    simp only [Bool.and_eq_true] at h
    simp only [Except.ok.injEq, h, true_and]
    exact eq_comm
  · rw [if_neg h]
    simp only [Bool.and_eq_true] at h
    constructor
    · intro hc
      split at hc
      · split at hc <;> cases hc
      · cases hc
    · rintro ⟨h', _⟩; exact absurd h' h

/-- the compressed vector has one entry per row plus one -/
theorem compress_length (idx : List Int) (n : Nat) (c : List Int) (h : compressIndices idx n = .ok c) :
    c.length = n + 1 := by
  rw [((compress_ok_iff idx n c).1 h).2]; simp [searchsortedAll]

/-- **`assemble_coo`.**  Unambiguous COO data (rows sorted and in range, induced CSR triple valid) is assembled to
its dense meaning; all other COO data is refused (ValueError from `compress_indices` or MatrixError). -/
theorem coo_valid (vs ri : List Int) (nr : Nat) (ci : List Int) (nc : Nat) (h : cooValidB vs ri nr ci nc = true) :
    assembleCOO vs ri nr ci nc =
      .ok (denseSum { values := vs, rowptr := searchsortedAll ri nr, colidx := ci, ncols := nc }) := by
  unfold cooValidB at h
  simp only [Bool.and_eq_true] at h
  unfold assembleCOO
  rw [(compress_ok_iff ri nr _).2 ⟨⟨h.1.1, h.1.2⟩, rfl⟩]
  simp only [assemble_valid _ h.2]

theorem coo_invalid (vs ri : List Int) (nr : Nat) (ci : List Int) (nc : Nat) (h : cooValidB vs ri nr ci nc = false) :
    ∀ d, assembleCOO vs ri nr ci nc ≠ .ok d := by
  intro d hd
  unfold assembleCOO at hd
  cases hc : compressIndices ri nr with
  | error e => rw [hc] at hd; cases hd
  | ok rp =>
    rw [hc] at hd
    obtain ⟨⟨h1, h2⟩, rfl⟩ := (compress_ok_iff ri nr rp).1 hc
    have hv : validB { values := vs, rowptr := searchsortedAll ri nr, colidx := ci, ncols := nc } = false := by
      unfold cooValidB at h
      simpa [h1, h2] using h
    obtain ⟨e, he⟩ := assemble_invalid _ hv
    simp only [he] at hd
    cases hd

/-! ## 5. export and pickling -/

/-- **Clause "export to CSR … and pickling agree with the dense matrix".**  For every rectangular dense array the
CSR export (`core.nonzero()` row-major, `rows.searchsorted(arange(nrows+1))`) is a valid triple whose dense meaning
is the array itself. -/
theorem export_roundtrip (d : Dense) (nc : Nat) (hrect : ∀ row ∈ d, row.length = nc) :
    validB (exportCSR d nc) = true ∧ denseSum (exportCSR d nc) = d := by
  rw [exportCSR_eq]
  constructor
  · rw [validB_ofRows]
    intro r hr
    obtain ⟨row, hrow, rfl⟩ := List.mem_map.1 hr
    have := rowOK_nzRow row
    rwa [hrect row hrow] at this
  · rw [denseSum_ofRows, List.map_map]
    have : ∀ row ∈ d, ((fun r => rowDense r nc) ∘ nzRow) row = id row := by
      intro row hrow
      simp only [Function.comp, id]
      have := rowDense_nzRow row
      rwa [hrect row hrow] at this
    rw [List.map_congr_left this, List.map_id]

/-- `Matrix.__reduce__` = `assemble_csr ∘ export('csr')`: unpickling reproduces the dense matrix exactly. -/
theorem pickle_roundtrip (d : Dense) (nc : Nat) (hrect : ∀ row ∈ d, row.length = nc) :
    assemble (exportCSR d nc) = .ok d := by
  obtain ⟨hv, hd⟩ := export_roundtrip d nc hrect
  rw [assemble_valid _ hv, hd]

/-- the export never lists an explicit zero and lists each row's columns in strictly increasing order -/
theorem export_contract (d : Dense) (nc : Nat) :
    (∀ v ∈ (exportCSR d nc).values, v ≠ 0) ∧ (rowSlices (exportCSR d nc).rowptr (exportCSR d nc).colidx).all strictInc = true := by
  rw [exportCSR_eq]
  constructor
  · intro v hv
    simp only [ofRows, List.mem_flatten, List.mem_map] at hv
    obtain ⟨_, ⟨_, ⟨row, _, rfl⟩, rfl⟩, hv⟩ := hv
    simp only [nzRow, List.map_map, List.mem_map, List.mem_filter, Function.comp] at hv
    obtain ⟨p, ⟨_, hp⟩, rfl⟩ := hv
    simpa using hp
  · have h3 : rowSlices (ofRows (d.map nzRow) nc).rowptr (ofRows (d.map nzRow) nc).colidx = (d.map nzRow).map (·.map (·.1)) := by
      simp only [rowSlices, ofRows]; exact slices_ofRows_map _ _
    rw [h3, List.all_map, List.all_map, List.all_eq_true]
    intro row _
    exact (rowOK_nzRow row).1

/-- the COO export lists the same entries as the CSR export, and `assemble_coo` takes it back -/
theorem export_coo_roundtrip (d : Dense) (nc : Nat) (hrect : ∀ row ∈ d, row.length = nc) :
    assembleCOO ((exportCOO d).map (·.2.2)) ((exportCOO d).map fun e => (e.1 : Int)) d.length
      ((exportCOO d).map (·.2.1)) nc = .ok d := by
  have hrows := coo_rows_ok (d.map nzRow)
  rw [← exportCOO_eq, List.length_map] at hrows
  unfold assembleCOO
  rw [(compress_ok_iff _ _ _).2 ⟨hrows, rfl⟩]
  have := pickle_roundtrip d nc hrect
  unfold exportCSR at this
  simp only [this]

/-! ## 6. block matrices -/

/-- **Clause "assembled from … block data".**  For every well-formed block structure (every block a valid triple,
equal row counts inside a block row, equal total widths; any number of block rows / columns; empty blocks, empty
rows and zero-width blocks included) the merged triple is valid and its dense meaning is the block matrix of the
blocks' dense meanings. -/
theorem block_dense (blocks : List (List Block)) (h : blocksOK blocks = true) :
    validB (blockMerge blocks) = true ∧ denseSum (blockMerge blocks) = blockDense blocks :=
  block_dense' blocks h

/-- hence `assemble_csr` of the merged triple is the block matrix -/
theorem block_assemble (blocks : List (List Block)) (h : blocksOK blocks = true) :
    assemble (blockMerge blocks) = .ok (blockDense blocks) := by
  obtain ⟨hv, hd⟩ := block_dense blocks h
  rw [assemble_valid _ hv, hd]

/-- **single-block fast path of `assemble_block_csr`.**  For every block that passed the per-block validation (row
pointers start at 0, are monotone and end at `len(values) = len(colidx)`) and has at least one entry, and every state
of the accumulated output lists, the fast path (`values.append(v); rowptr.extend(rp[1:] + ptr); colidx.append(ci)`)
produces exactly the state of the generic row-by-row path. -/
theorem block_fastpath_eq (vs rp cs : List Int) (a : Acc)
    (hrp : rowptrOK rp vs.length = true) (hlen : cs.length = vs.length) (hne : vs ≠ []) :
    fastRows (vs, rp, cs) a = genericRows [(vs, rp, cs)] (rp.length - 1) a :=
  (fast_eq_generic' vs rp cs a hrp hlen hne).symm

/-- **skipping empty blocks.**  A validated block without entries contributes nothing to any row of the generic
path (so `if len(block_values)` may drop it, while its width still advances `col_offset`). -/
theorem block_skip_empty (rp cs : List Int) (rest : List BData) (irow : Nat)
    (hrp : rowptrOK rp 0 = true) (hlen : cs.length = 0) (hi : irow + 1 < rp.length) :
    genRow (([], rp, cs) :: rest) irow = genRow rest irow :=
  genRow_skip_empty rp cs rest irow hrp hlen hi

/-- **the code path of `assemble_block_csr`.**  For every well-formed block structure with a common dtype, the code
model (first loop: assertions, per-block validation, column offsets, skipping of empty blocks; then per block row the
single-block fast path or the generic row-by-row path; fold over the block rows) hands exactly the triple
`blockMerge blocks` to `assemble_csr`; when nothing was appended (`if not values`) that triple has no entries. -/
theorem block_code (blocks : List (List Block)) (h : blocksOK blocks = true) (dt : Nat)
    (hdt : ∀ brow ∈ blocks, ∀ b ∈ brow, b.dt = dt) :
    ∃ any, blockMergeCode blocks = .ok (blockMerge blocks, any) ∧ (any = false → (blockMerge blocks).values = []) :=
  blockMergeCode_ok blocks h dt hdt

/-- **`assemble_block_csr` as a whole** (including the `empty(...)` shortcut): well-formed block data is assembled
to the block matrix of the blocks' dense meanings. -/
theorem assemble_block_ok (blocks : List (List Block)) (h : blocksOK blocks = true) (dt : Nat)
    (hdt : ∀ brow ∈ blocks, ∀ b ∈ brow, b.dt = dt) :
    assembleBlock blocks = .ok (.ok (blockDense blocks)) := by
  obtain ⟨any, hc, he⟩ := block_code blocks h dt hdt
  obtain ⟨hv, hd⟩ := block_dense blocks h
  unfold assembleBlock
  rw [hc]
  simp only [bind, Except.bind, pure, Except.pure]
  cases any with
  | true => simp [assemble_valid _ hv, hd]
  | false =>
    have := valid_empty _ hv (he rfl)
    simp only [Bool.false_eq_true, if_false]
    rw [← this, assemble_valid _ hv, hd]

/-! ## 7. diagonal and row support computed from the sparse exports -/

/-- **`Matrix.diagonal`.**  For every valid triple, the CSR-level algorithm (per row: `searchsorted` of the row
number in the row's column slice, take the value if the column matches, else 0) returns the diagonal of the dense
meaning (also for non-square shapes, where the code raises before reaching the algorithm). -/
theorem diagonal_spec (m : CSR) (h : validB m = true) : csrDiagonal m = dDiag (denseSum m) := by
  obtain ⟨L, hm, hL⟩ := valid_rows m h
  rw [hm, csrDiagonal_ofRows, denseSum_ofRows, dDiag_rows L _ hL]

/-- the numpy backend's path: dense array → `export('csr')` → `Matrix.diagonal` = dense diagonal -/
theorem diagonal_export (d : Dense) (nc : Nat) (hrect : ∀ row ∈ d, row.length = nc) :
    csrDiagonal (exportCSR d nc) = dDiag d := by
  obtain ⟨hv, hd⟩ := export_roundtrip d nc hrect
  rw [diagonal_spec _ hv, hd]

/-- **`Matrix.rowsupp`.**  For every valid triple and tolerance `tol ≥ 0`, marking the rows of the stored entries with
`|value| > tol` gives exactly the rows of the dense meaning that contain an entry with `|a_ij| > tol`. -/
theorem rowsupp_spec (m : CSR) (tol : Nat) (h : validB m = true) :
    cooRowsupp (entries m) (nrows m) tol = dRowsupp (denseSum m) tol := by
  obtain ⟨L, hm, hL⟩ := valid_rows m h
  rw [hm, entries_ofRows, nrows_ofRows, cooRowsupp_rows, denseSum_ofRows, dRowsupp_rows L _ tol hL]

/-- the base class path: dense array → `export('coo')` → `rowsupp` = rows with a non-small entry -/
theorem rowsupp_export (d : Dense) (nc tol : Nat) (hrect : ∀ row ∈ d, row.length = nc) :
    cooRowsupp (exportCOO d) d.length tol = dRowsupp d tol := by
  obtain ⟨hv, hd⟩ := export_roundtrip d nc hrect
  have := rowsupp_spec (exportCSR d nc) tol hv
  rw [hd, ← exportCOO_entries] at this
  rw [← this, exportCSR_eq, nrows_ofRows, List.length_map]

/-! ## non-vacuity -/

-- a 2x3 matrix with an empty row satisfies the hypotheses
example : validB { values := [5, 7], rowptr := [0, 2, 2], colidx := [0, 2], ncols := 3 } = true := by decide
example : (((entries { values := [5, 7], rowptr := [0, 2, 2], colidx := [0, 2], ncols := 3 }).map fun e => (e.1, e.2.1)).Nodup) := by decide
-- 0xN and Nx0 shapes are valid
example : validB { values := [], rowptr := [0], colidx := [], ncols := 3 } = true := by decide
example : validB { values := [], rowptr := [0, 0, 0], colidx := [], ncols := 0 } = true := by decide
-- COO data with an empty row in the middle
example : cooValidB [1, 2, 3] [0, 0, 2] 3 [0, 1, 1] 2 = true := by decide
-- a 2x2 block structure with an empty block, a zero-width block column and a single-block row is well-formed
example : blocksOK [[{ values := [1], rowptr := [0, 1], colidx := [0], ncols := 1 }, { values := [], rowptr := [0, 0], colidx := [], ncols := 2 }],
                    [{ values := [], rowptr := [0, 0, 0], colidx := [], ncols := 0 }, { values := [2, 3], rowptr := [0, 1, 2], colidx := [2, 0], ncols := 3 }]] = true := by decide
-- a validated non-empty block for the fast path, and an empty one
example : rowptrOK [0, 1, 1, 3] [4, 5, 6].length = true ∧ [0, 0, 2].length = [4, 5, 6].length ∧ ([4, 5, 6] : List Int) ≠ [] := by decide
example : rowptrOK [0, 0, 0] 0 = true := by decide
-- a rectangular dense array with a zero row
example : ∀ row ∈ ([[0, 2, 0], [0, 0, 0]] : Dense), row.length = 3 := by decide

end NutilsVerif.C15
