import NutilsVerif.Model.C15
/-!
# C15 — property theorems (statements only about the executable model in `Model/C15.lean`)
-/
namespace NutilsVerif.C15

theorem filter_le_one {α β : Type} [DecidableEq β] (f : α → β) (p : α → Bool) (c : β) (l : List α)
    (hn : (l.map f).Nodup) (hp : ∀ x, p x = true → f x = c) : (l.filter p).length ≤ 1 := by
  induction l with
  | nil => simp
  | cons a t ih =>
    rw [List.map_cons, List.nodup_cons] at hn
    rw [List.filter_cons]
    split
    · rename_i ha
      have : t.filter p = [] := by
        rw [List.filter_eq_nil_iff]
        intro x hx hpx
        apply hn.1
        rw [hp a ha, ← hp x hpx]
        exact List.mem_map_of_mem hx
      simp [this]
    · exact ih hn.2

/-- If no (row, column) position is listed twice, the numpy backend's last-write-wins scatter
(`array[rowidx, colidx] = data`) coincides with the additive meaning of the sparse data: no value is dropped. -/
theorem assign_eq_sum (m : CSR) (h : ((entries m).map fun e => (e.1, e.2.1)).Nodup) :
    denseAssign m = denseSum m := by
  unfold denseAssign denseSum
  apply List.map_congr_left; intro i _
  apply List.map_congr_left; intro j _
  have hl := filter_le_one (fun e : Nat × Int × Int => (e.1, e.2.1)) (fun e => e.1 == i && e.2.1 == (j:Int)) (i, (j:Int)) (entries m) h
    (by intro x hx; simp at hx; ext <;> simp [hx.1, hx.2])
  generalize (entries m).filter (fun e => e.1 == i && e.2.1 == (j:Int)) = L at hl
  match L, hl with
  | [], _ => simp
  | [e], _ => simp
  | _ :: _ :: _, h => simp at h

-- non-vacuity: a 2x3 matrix with an empty row satisfies the hypothesis
example : (((entries { values := [5, 7], rowptr := [0, 2, 2], colidx := [0, 2], ncols := 3 }).map fun e => (e.1, e.2.1)).Nodup) := by decide

end NutilsVerif.C15
