import NutilsVerif.Model.C03
namespace NutilsVerif.C03

/-- placeholder while the proofs are being developed -/
theorem iterate_zero {D : Type} (f : Nat → St D → St D) (st : St D) : iterate f 0 st = st := rfl

end NutilsVerif.C03
