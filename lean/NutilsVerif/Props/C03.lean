import NutilsVerif.Proofs.C03Uncached
/-!
# C03 — compiled functions are pure functions of their arguments across calls (theorems)

Model: `Model/C03.lean` (the generated function as a state machine over module globals, a heap of buffers named by
allocation site, array objects with numpy's per-object `writeable` flag, sticky exceptions).
`checkH p O` is the decidable check the driver runs on the abstract program extracted from every REAL generated script
(`O` = the origin table, computed by `tableOf`).  It decides syntactic sufficient forms of

* **H1** what is cached does not depend on the arguments (and is final before a rerun statement reads it),
* **H2** no statement executed on a rerun writes into a cached buffer or into an argument buffer,
* **H3** no writable array object handed to the caller shares a cached buffer (read-only ones may: `setflags(write=False)`).

`check_sound` shows that the semantic statements H1–H3 follow from `checkH`; the purity theorems hold for EVERY
interpretation of the numpy operations, EVERY finite history of calls with arbitrary arguments (values, layouts, flags,
conversions, missing entries) and arbitrary user writes into writable arrays returned earlier.
The constant part of the script is assumed to evaluate without exception (`(cacheSt …).err = none`).
-/
namespace NutilsVerif.C03

/-! ## the hypotheses, semantically -/

/-- H1: the constant part of the script never looks at the arguments -/
def H1 (p : Prog) : Prop :=
  ∀ {D : Type} (I : Interp D) (a1 a2 : Args D) (st : St D), exec I a1 .cache p.body st = exec I a2 .cache p.body st

/-- H2: no run writes an argument buffer; a rerun writes no cached buffer -/
def H2 (p : Prog) (O : Var → List Loc) : Prop :=
  ∀ {D : Type} (I : Interp D) (args : Args D) (st : St D), OriginInv O st →
    (∀ (m : Mode) (a : Nat), (exec I args m p.body st).heap (.arg a) = st.heap (.arg a)) ∧
    (∀ l, cachedLoc p l = true → (exec I args .rerun p.body st).heap l = st.heap l)

/-- H3: every array object handed out — by the first call or by any later call — is read-only or lives outside the
cached buffers -/
def H3 (p : Prog) (O : Var → List Loc) : Prop :=
  ∀ {D : Type} (I : Interp D) (cd : Var → D × Bool) (dflt : D), (cacheSt I p cd dflt).err = none →
    (∀ args, (exec I args .first p.body (enter p dflt (initSt p cd dflt) args)).err = none →
      ∀ r ∈ (call I p dflt (initSt p cd dflt) args).2.refs, SafeRef (mkCtx p O) r) ∧
    (∀ st args, CachedS (mkCtx p O) (cacheSt I p cd dflt) st →
      ∀ r ∈ (call I p dflt st args).2.refs, SafeRef (mkCtx p O) r)

/-- `checkH` is sound for H1–H3 -/
theorem check_sound (p : Prog) (O : Var → List Loc) (h : checkH p O = true) : H1 p ∧ H2 p O ∧ H3 p O := by
  have hH := checkH_unpack p O h
  have k := classes_of _ hH.cls
  refine ⟨?_, ?_, ?_⟩
  · intro D I a1 a2 st
    exact exec_cache_args I a1 a2 p.body st (chk_noArgCache _ _ _ _ _ hH.body)
  · intro D I args st ho
    refine ⟨fun m a => exec_argframe I args m (mkCtx p O) p.body st a (chk_wfO _ _ _ _ _ hH.body) ho, ?_⟩
    intro l hl
    exact exec_rerun_cframe I args (mkCtx p O) k p.body st l (chk_wfR _ _ _ _ _ hH.body) ho (by rwa [mkCtx_cloc])
  · intro D I cd dflt hKe
    exact ⟨fun args hok => (call_first I p O cd dflt hH hKe args hok).2,
      fun st args hC => (call_rerun_safe I p O cd dflt hH hKe st hC args).2.2⟩

/-! ## purity -/

/-- **rerun_correct** (one call): on the cached state, a call with ANY arguments returns exactly what a freshly generated
function returns for these arguments — value or exception — and leaves the cached state as it was -/
theorem rerun_correct_call {D : Type} (I : Interp D) (p : Prog) (O : Var → List Loc) (cd : Var → D × Bool) (dflt : D)
    (h : checkH p O = true) (hK : (cacheSt I p cd dflt).err = none) (st : St D)
    (hC : CachedS (mkCtx p O) (cacheSt I p cd dflt) st) (args : Args D) :
    (call I p dflt st args).2.res = fresh I p cd dflt args ∧
    CachedS (mkCtx p O) (cacheSt I p cd dflt) (call I p dflt st args).1 :=
  let r := call_rerun_safe I p O cd dflt (checkH_unpack p O h) hK st hC args
  ⟨r.1, r.2.1⟩

/-- **rerun_correct** (histories): from a cached state, for every finite sequence of calls with arbitrary arguments,
interleaved with arbitrary user writes into writable arrays returned earlier, every call returned what a fresh function
returns (induction over the history; `HInv` is the invariant on globals, held arrays and the log) -/
theorem rerun_correct {D : Type} (I : Interp D) (p : Prog) (O : Var → List Loc) (cd : Var → D × Bool) (dflt : D)
    (h : checkH p O = true) (hK : (cacheSt I p cd dflt).err = none) (h0 : HSt D) (hI : HInv I p O cd dflt h0)
    (es : List (Event D)) :
    HInv I p O cd dflt (runHist I p dflt h0 es) ∧
    ∀ e ∈ (runHist I p dflt h0 es).log, e.2 = fresh I p cd dflt e.1 :=
  let r := runHist_inv I p O cd dflt (checkH_unpack p O h) hK es h0 hI
  ⟨r, r.log⟩

/-- the first call establishes the invariant: if it raises nothing, the globals are afterwards the canonical cached state
(`cacheSt`, the constant part alone — independent of the arguments of that first call) -/
theorem first_call_caches {D : Type} (I : Interp D) (p : Prog) (O : Var → List Loc) (cd : Var → D × Bool) (dflt : D)
    (h : checkH p O = true) (hK : (cacheSt I p cd dflt).err = none) (args : Args D)
    (hok : (exec I args .first p.body (enter p dflt (initSt p cd dflt) args)).err = none) :
    HInv I p O cd dflt (step I p dflt (startH p cd dflt) (.call args)) := by
  obtain ⟨h1, h2⟩ := call_first I p O cd dflt (checkH_unpack p O h) hK args hok
  refine ⟨h1, ?_, ?_⟩
  · intro r hr
    simp only [step, startH, List.append_nil] at hr
    exact h2 r hr
  · intro e he
    simp only [step, startH, List.mem_cons, List.not_mem_nil, or_false] at he
    rw [he]; rfl

/-- **purity** (the property, on the model): from the initial globals, for EVERY finite history of calls with arbitrary
arguments — returning or raising, including first runs that raise and leave partially assigned globals behind — interleaved
with arbitrary user writes into writable arrays returned earlier, every call returned exactly what a freshly generated
function returns for that call's arguments (`GInv` = invariant on globals: cached or still-uncached, on the held arrays and
on the log; induction over the history) -/
theorem purity {D : Type} (I : Interp D) (p : Prog) (O : Var → List Loc) (cd : Var → D × Bool) (dflt : D)
    (h : checkH p O = true) (hK : (cacheSt I p cd dflt).err = none) (es : List (Event D)) :
    ∀ e ∈ (runHist I p dflt (startH p cd dflt) es).log, e.2 = fresh I p cd dflt e.1 :=
  (grunHist_inv I p O cd dflt (checkH_unpack p O h) hK es _ (start_ginv I p O cd dflt (checkH_unpack p O h))).log

/-- the same from any state reached so far (cached or not), with the invariant carried along -/
theorem purity_step {D : Type} (I : Interp D) (p : Prog) (O : Var → List Loc) (cd : Var → D × Bool) (dflt : D)
    (h : checkH p O = true) (hK : (cacheSt I p cd dflt).err = none) (h0 : HSt D) (hI : GInv I p O cd dflt h0) (e : Event D) :
    GInv I p O cd dflt (step I p dflt h0 e) :=
  gstep_inv I p O cd dflt (checkH_unpack p O h) hK h0 hI e

/-- a call while `first_run` is still True (initial globals, or after first runs that raised) returns what a fresh function
returns: what an aborted first run left in the globals is never read before it is re-assigned -/
theorem first_run_correct {D : Type} (I : Interp D) (p : Prog) (O : Var → List Loc) (cd : Var → D × Bool) (dflt : D)
    (h : checkH p O = true) (hK : (cacheSt I p cd dflt).err = none) (st : St D) (hU : Uncached p O cd dflt st) (args : Args D) :
    (call I p dflt st args).2.res = fresh I p cd dflt args :=
  (call_uncached I p O cd dflt (checkH_unpack p O h) hK st hU args).1

/-- a first call that raises leaves `first_run` True: nothing is considered cached -/
theorem failed_first_call_keeps_first_run {D : Type} (I : Interp D) (p : Prog) (O : Var → List Loc) (cd : Var → D × Bool)
    (dflt : D) (h : checkH p O = true) (args : Args D) (e : Err)
    (herr : (exec I args .first p.body (enter p dflt (initSt p cd dflt) args)).err = some e) :
    (call I p dflt (initSt p cd dflt) args).1.first = true := by
  have hH := checkH_unpack p O h
  have hm : modeOf (initSt p cd dflt) = .first := by simp [modeOf, initSt]
  simp only [call, hm, leave]
  rw [first_run_flag I args p.body _ hH.shape (by simp [initSt]), herr]; rfl

/-- **returned_no_alias**: a user write into a buffer of a writable array returned earlier preserves the invariant
(read-only results may alias cached data — that is what `setflags(write=False)` is for: they are not `permitted`) -/
theorem returned_no_alias {D : Type} (I : Interp D) (p : Prog) (O : Var → List Loc) (cd : Var → D × Bool) (dflt : D)
    (h : checkH p O = true) (hK : (cacheSt I p cd dflt).err = none) (h0 : HSt D) (hI : HInv I p O cd dflt h0)
    (l : Loc) (d : D) : HInv I p O cd dflt (step I p dflt h0 (.uwrite l d)) :=
  step_inv I p O cd dflt (checkH_unpack p O h) hK h0 hI (.uwrite l d)

/-- every array object handed out is read-only or disjoint from the cached buffers -/
theorem results_safe {D : Type} (I : Interp D) (p : Prog) (O : Var → List Loc) (cd : Var → D × Bool) (dflt : D)
    (h : checkH p O = true) (hK : (cacheSt I p cd dflt).err = none) (st : St D)
    (hC : CachedS (mkCtx p O) (cacheSt I p cd dflt) st) (args : Args D) :
    ∀ r ∈ (call I p dflt st args).2.refs, r.w = true → cachedLoc p r.loc = false := by
  intro r hr hw
  rcases (call_rerun_safe I p O cd dflt (checkH_unpack p O h) hK st hC args).2.2 r hr with h1 | h1
  · rw [hw] at h1; cases h1
  · rwa [mkCtx_cloc] at h1

/-- **args_untouched**: after a call — first run or rerun, returning or raising — every argument buffer holds exactly what
the caller passed in -/
theorem args_untouched {D : Type} (I : Interp D) (p : Prog) (O : Var → List Loc) (dflt : D) (h : checkH p O = true)
    (st : St D) (ho : OriginInv O st) (args : Args D) (a : Nat) (g : Arg D) (ha : args a = some g) :
    (call I p dflt st args).1.heap (.arg a) = g.data := by
  rw [call_arg_frame I p O dflt (checkH_unpack p O h) st ho args a]
  simp [enter, ha]

/-- … in every state of every history from the initial globals -/
theorem args_untouched_hist {D : Type} (I : Interp D) (p : Prog) (O : Var → List Loc) (cd : Var → D × Bool) (dflt : D)
    (h : checkH p O = true) (hK : (cacheSt I p cd dflt).err = none) (es : List (Event D)) (args : Args D) (a : Nat) (g : Arg D)
    (ha : args a = some g) :
    (call I p dflt (runHist I p dflt (startH p cd dflt) es).st args).1.heap (.arg a) = g.data :=
  args_untouched I p O dflt h _
    (grunHist_inv I p O cd dflt (checkH_unpack p O h) hK es _ (start_ginv I p O cd dflt (checkH_unpack p O h))).origin args a g ha

/-- the origin invariant needed by `args_untouched` holds initially and in every cached state -/
theorem origin_init {D : Type} (p : Prog) (O : Var → List Loc) (cd : Var → D × Bool) (dflt : D) (h : checkH p O = true) :
    OriginInv O (initSt p cd dflt) :=
  init_origin p O (classes_of _ (checkH_unpack p O h).cls) cd dflt

/-! ## the hypotheses are satisfiable, and necessary (converse witnesses on the toy interpretation) -/

/-- a script of the shape the generator emits: `v1 = f(c100)` cached, argument ingested, `v2 = g(v1, v3)` returned -/
def pGood : Prog :=
  { consts := [100], roconsts := [100], globals := [1],
    body := .seq (.seq (.op .skip (.fresh 1 0 [100])) (.seq (.op .rerun (.getarg 3 0 0)) (.seq (.op .rerun (.fresh 2 0 [1, 3]))
      (.op .skip (.setro 1))))) (.op .skip .clear),
    ret := [2] }

example : checkH pGood (tableOf pGood) = true := by decide

def argsOf (l : List (Nat × Nat)) : Args Nat := fun a => (l.find? (·.1 == a)).map fun e => ⟨e.2, [], true, false⟩

example : impure pGood (fun v => (v, true)) [.call (argsOf [(0, 5)]), .uwrite (.var 2) 777, .call (argsOf [(0, 6)]), .call (argsOf [(0, 5)])] = false := by
  decide

/-- H1 violated: the cached variable is computed from the argument (what `Guard.isconstant → True` would produce) -/
def pBadH1 : Prog :=
  { consts := [], roconsts := [], globals := [1],
    body := .seq (.seq (.op .skip (.getarg 3 0 0)) (.seq (.op .skip (.fresh 1 0 [3])) (.seq (.op .rerun (.fresh 2 0 [1]))
      (.op .skip (.setro 1))))) (.op .skip .clear),
    ret := [2] }

theorem witness_H1 : checkH pBadH1 (tableOf pBadH1) = false ∧
    impure pBadH1 (fun v => (v, true)) [.call (argsOf [(0, 5)]), .call (argsOf [(0, 6)])] = true := by
  constructor <;> decide

/-- H2 violated: a rerun statement accumulates in place into the cached buffer -/
def pBadH2 : Prog :=
  { consts := [100], roconsts := [100], globals := [1],
    body := .seq (.seq (.op .skip (.fresh 1 0 [100])) (.seq (.op .rerun (.getarg 3 0 0)) (.seq (.op .rerun (.write 1 0 [3]))
      (.op .rerun (.fresh 2 0 [1]))))) (.op .skip .clear),
    ret := [2] }

theorem witness_H2 : checkH pBadH2 (tableOf pBadH2) = false ∧
    impure pBadH2 (fun v => (v, true)) [.call (argsOf [(0, 5)]), .call (argsOf [(0, 5)])] = true := by
  constructor <;> decide

/-- H3 violated: the first call hands out a writable view of the cached variable created before its `setflags`
(the shape of the open finding of the pinned tree) -/
def pBadH3 : Prog :=
  { consts := [100], roconsts := [100], globals := [1],
    body := .seq (.seq (.op .skip (.fresh 1 0 [100])) (.seq (.op .rerun (.getarg 3 0 0)) (.seq (.op .rerun (.view 2 0 false 1))
      (.op .skip (.setro 1))))) (.op .skip .clear),
    ret := [2] }

theorem witness_H3 : checkH pBadH3 (tableOf pBadH3) = false ∧
    impure pBadH3 (fun v => (v, true)) [.call (argsOf [(0, 5)]), .uwrite (.var 1) 777, .call (argsOf [(0, 5)])] = true ∧
    impure pBadH3 (fun v => (v, true)) [.call (argsOf [(0, 5)]), .call (argsOf [(0, 5)])] = false := by
  refine ⟨?_, ?_, ?_⟩ <;> decide

/-- dropping `setflags(write=False)`: reruns hand out the writable cached array itself -/
def pNoSetflags : Prog :=
  { consts := [100], roconsts := [100], globals := [1],
    body := .seq (.seq (.op .skip (.fresh 1 0 [100])) (.op .rerun (.getarg 3 0 0))) (.op .skip .clear),
    ret := [1] }

theorem witness_setflags : checkH pNoSetflags (tableOf pNoSetflags) = false ∧
    impure pNoSetflags (fun v => (v, true)) [.call (argsOf [(0, 5)]), .call (argsOf [(0, 5)]), .uwrite (.var 1) 777, .call (argsOf [(0, 5)])] = true := by
  constructor <;> decide

end NutilsVerif.C03
