import NutilsVerif.Proofs.C01DriverComplete
/-!
# C01 — the fixed-point driver (`deep_replace_property.__get__`, used as `Evaluable.simplified`)

"Rewriting an array expression into its simplified form always terminates, and the simplified expression
evaluates to the same values": this file carries the *driver* half of the property, for **every** expression DAG
(`Term`, hash-consed = structural equality), **every** one-step function `f : Term → Term` (`f t = t` = "no
rewrite") and every initial memo that is valid.  `Model/C01Driver.lean` mirrors the Python stack machine branch by
branch (`step`); its specification is the naive recursion `simp` (children first, rebuild, apply `f`, recurse).

* `driver_refines_spec`, `driver_complete`: the machine returns `r` iff the recursion has result `r`.
* `driver_sound`, `driver_memo_sound`, `driver_never_stuck`: value preservation incl. every memo entry ever
  written; the stacks never run out of sync.
* `driver_fixpoint`: the result is hereditarily normal.
* `driver_loop_real`: "caught in a loop" is only raised on a genuine dependency cycle; the recursion diverges.
* `driver_terminates_of_measure`: termination under a decreasing measure.
-/
namespace NutilsVerif.C01Driver

variable (f : Term → Term)

/-! ## machine = recursive specification -/

/-- If the machine returns `r` (from any valid memo, with any fuel) then `r` is the result of the recursive
depth-first rewriting, and the memo left behind is valid again (so arbitrarily many successive `.simplified`
accesses on objects sharing subterms stay correct). -/
theorem driver_refines_spec_memo {memo : Memo} (hm : MemoValid f memo) (fuel : Nat) (t r : Term)
    (h : (runFrom f fuel (init memo t)).1 = .done r) : Res f t r ∧ MemoValid f (runFrom f fuel (init memo t)).2.memo := by
  obtain ⟨hinv, hh⟩ := runFrom_inv f t fuel (init_inv f t hm)
  refine ⟨?_, hinv.1⟩
  rw [h] at hh
  rcases hh with hh | hh
  · cases hh
  · exact hh.1

theorem driver_refines_spec (fuel : Nat) (t r : Term) (h : run f fuel t = .done r) : Res f t r :=
  (driver_refines_spec_memo f (memoValid_nil f) fuel t r h).1

/-- Conversely, whenever the recursive rewriting of `t` has a result the machine finds it: it neither reports a
loop nor needs unbounded fuel. -/
theorem driver_complete (t r : Term) (h : Res f t r) : ∃ fuel, run f fuel t = .done r :=
  run_complete f (memoValid_nil f) h

/-- The memo of *every* state the machine passes through — also of the state in which it stops with an exception
or runs out of fuel — only holds results of the recursive rewriting. -/
theorem driver_memo_valid {memo : Memo} (hm : MemoValid f memo) (fuel : Nat) (t : Term) :
    MemoValid f (runFrom f fuel (init memo t)).2.memo :=
  (runFrom_inv f t fuel (init_inv f t hm)).1.1

/-- Stack discipline: `fstack`, `rstack` and `ostack` never get out of sync — no `IndexError` from an empty
stack, and both final assertions of `__get__` hold. -/
theorem driver_never_stuck {memo : Memo} (hm : MemoValid f memo) (fuel : Nat) (t : Term) :
    (runFrom f fuel (init memo t)).1 ≠ .stuck := by
  obtain ⟨_, hh⟩ := runFrom_inv f t fuel (init_inv f t hm)
  intro e
  rw [e] at hh
  rcases hh with hh | hh
  · cases hh
  · exact hh

/-- The result does not depend on the fuel. -/
theorem driver_result_unique {n m : Nat} {t r r' : Term} (h : run f n t = .done r) (h' : run f m t = .done r') : r = r' :=
  res_unique (driver_refines_spec f n t r h) (driver_refines_spec f m t r' h')

/-! ## soundness -/

section sound
variable {Val : Type} (sem : Term → Val)

/-- **Value preservation.**  If every one-step rewrite preserves the meaning (`sem (f t) = sem t`) and the meaning
is compositional, then whatever the machine returns means the same as its input — for every DAG, every fuel. -/
theorem driver_sound (hf : ∀ t, sem (f t) = sem t)
    (hcomp : ∀ l as bs, as.map sem = bs.map sem → sem (.node l as) = sem (.node l bs))
    (fuel : Nat) (t r : Term) (h : run f fuel t = .done r) : sem r = sem t :=
  res_sem sem hf hcomp (driver_refines_spec f fuel t r h)

/-- Memoisation is safe: every memo entry `m[t] = r` present in any state the machine passes through (also when
it later raises or runs out of fuel; `none` is the `identity` marker and stands for `t` itself) satisfies
`sem r = sem t`. -/
theorem driver_memo_sound (hf : ∀ t, sem (f t) = sem t)
    (hcomp : ∀ l as bs, as.map sem = bs.map sem → sem (.node l as) = sem (.node l bs))
    (fuel : Nat) (t0 : Term) (t : Term) (v : Option Term)
    (h : (t, v) ∈ (runFrom f fuel (init [] t0)).2.memo) : sem (v.getD t) = sem t :=
  res_sem sem hf hcomp (driver_memo_valid f (memoValid_nil f) fuel t0 t v h)

/-- The same starting from a memo left behind by earlier accesses (chained calls on shared subterms). -/
theorem driver_sound_memo (hf : ∀ t, sem (f t) = sem t)
    (hcomp : ∀ l as bs, as.map sem = bs.map sem → sem (.node l as) = sem (.node l bs))
    {memo : Memo} (hm : MemoValid f memo) (fuel : Nat) (t r : Term)
    (h : (runFrom f fuel (init memo t)).1 = .done r) : sem r = sem t :=
  res_sem sem hf hcomp (driver_refines_spec_memo f hm fuel t r h).1

end sound

/-! ## the result is a normal form -/

/-- `s` occurs in `t` -/
inductive Subterm : Term → Term → Prop where
  | refl (t) : Subterm t t
  | step {s c l args} : c ∈ args → Subterm s c → Subterm s (.node l args)

theorem hnormal_subterm {s t : Term} (h : HNormal f t) (hs : Subterm s t) : f s = s := by
  induction hs with
  | refl => exact h.root
  | step hc _ ih => exact ih (h.child hc)

/-- **Fixed point.**  The returned term is hereditarily normal: `f` is the identity on it and on every subterm
(children are simplified before the parent is rebuilt, and a rewritten parent is simplified again). -/
theorem driver_fixpoint (fuel : Nat) (t r : Term) (h : run f fuel t = .done r) : HNormal f r := by
  obtain ⟨n, hn⟩ := driver_refines_spec f fuel t r h
  exact simp_hnormal f n t r hn

theorem driver_fixpoint_subterm (fuel : Nat) (t r s : Term) (h : run f fuel t = .done r) (hs : Subterm s r) : f s = s :=
  hnormal_subterm f (driver_fixpoint f fuel t r h) hs

/-- `e.simplified.simplified is e.simplified`: simplifying a result returns it unchanged (with the memo the first
access left behind, or any other valid memo). -/
theorem driver_idempotent (fuel : Nat) (t r : Term) (h : run f fuel t = .done r)
    {memo : Memo} (hm : MemoValid f memo) :
    (∃ fuel', (runFrom f fuel' (init memo r)).1 = .done r) ∧
    ∀ fuel' r', (runFrom f fuel' (init memo r)).1 = .done r' → r' = r := by
  have hr : Res f r r := res_self_of_hnormal (driver_fixpoint f fuel t r h)
  exact ⟨run_complete f hm hr, fun fuel' r' h' => res_unique (driver_refines_spec_memo f hm fuel' r r' h').1 hr⟩

/-! ## loop reports are real -/

/-- **"caught in a loop" is genuine.**  If the machine raises the loop exception for `x`, then
* `x` is on `ostack` (is being processed), has no memo entry, and is the object on top of `fstack`;
* there is a real dependency cycle: `x` is reachable from itself through a nonempty chain of steps "to a child"
  or "to `f` of the node rebuilt from its simplified children" (`Path f x x`), and `x` is reachable from the root;
* hence the recursive rewriting diverges on `x` and on the root: no amount of fuel produces a result. -/
theorem driver_loop_real {memo : Memo} (hm : MemoValid f memo) (fuel : Nat) (t x : Term)
    (h : (runFrom f fuel (init memo t)).1 = .loop x) :
    x ∈ (runFrom f fuel (init memo t)).2.ostack ∧ lookup x (runFrom f fuel (init memo t)).2.memo = none ∧
    Path f x x ∧ (t = x ∨ Path f t x) ∧ Diverges f x ∧ Diverges f t := by
  obtain ⟨_, hh⟩ := runFrom_inv f t fuel (init_inv f t hm)
  rw [h] at hh
  rcases hh with hh | hh
  · cases hh
  · obtain ⟨hin, hpath, hroot, hl, _⟩ := hh
    have hxx := hpath x hin
    have hdx := diverges_of_needs_self (path_needs hxx)
    refine ⟨hin, hl, hxx, hroot, hdx, ?_⟩
    rcases hroot with rfl | hp
    · exact hdx
    · exact diverges_of_needs (path_needs hp) hdx

/-- a loop report and a normal return exclude each other, whatever the fuel -/
theorem driver_loop_excludes_done {n m : Nat} {t x r : Term} (h : run f n t = .loop x) : run f m t ≠ .done r := by
  intro h'
  have hd := (driver_loop_real f (memoValid_nil f) n t x h).2.2.2.2.2
  exact not_res_of_diverges hd (driver_refines_spec f m t r h')

/-! ## termination -/

/-- **Termination under a measure.**  Conditions: `μ` strictly decreases under every effective one-step rewrite
(`hdec`), a child is not larger than its parent (`hsub`), and replacing children by not-larger ones does not
enlarge the node (`hmono`).  Then for every DAG there is a fuel with which the machine returns a result (so it
neither raises the loop exception — for no fuel at all — nor runs forever), and the result is not larger. -/
theorem driver_terminates_of_measure (μ : Term → Nat)
    (hdec : ∀ t, f t ≠ t → μ (f t) < μ t)
    (hsub : ∀ l args c, c ∈ args → μ c ≤ μ (.node l args))
    (hmono : ∀ l as bs, Forall₂ (fun a b => μ b ≤ μ a) as bs → μ (.node l bs) ≤ μ (.node l as))
    (t : Term) :
    (∃ fuel r, run f fuel t = .done r ∧ μ r ≤ μ t) ∧ (∃ fuel, run f fuel t ≠ .outOfFuel) ∧
    ∀ fuel x, run f fuel t ≠ .loop x := by
  obtain ⟨r, hr, hμ⟩ := res_of_measure f μ hdec hsub hmono t
  obtain ⟨fuel, hfuel⟩ := driver_complete f t r hr
  refine ⟨⟨fuel, r, hfuel, hμ⟩, ⟨fuel, by rw [hfuel]; intro e; cases e⟩, ?_⟩
  intro fuel' x hx
  exact driver_loop_excludes_done f hx hfuel

theorem sizeOf_mono : ∀ {as bs : List Term}, Forall₂ (fun a b => sizeOf b ≤ sizeOf a) as bs → sizeOf bs ≤ sizeOf as
  | _, _, .nil => Nat.le_refl _
  | _, _, .cons h1 h2 => by
    have := sizeOf_mono h2
    simp only [List.cons.sizeOf_spec]
    omega

/-- Instance: every effective rewrite makes the term smaller (e.g. rewrites to subterms, constant folding). -/
theorem driver_terminates_of_size_decreasing (hdec : ∀ t, f t ≠ t → sizeOf (f t) < sizeOf t) (t : Term) :
    (∃ fuel r, run f fuel t = .done r) ∧ ∀ fuel x, run f fuel t ≠ .loop x := by
  have := driver_terminates_of_measure f sizeOf hdec
    (fun l args c hc => by
      have := List.sizeOf_lt_of_mem hc
      simp only [Term.node.sizeOf_spec]; omega)
    (fun l as bs h => by
      have := sizeOf_mono h
      simp only [Term.node.sizeOf_spec]; omega) t
  obtain ⟨⟨fuel, r, h, _⟩, _, h3⟩ := this
  exact ⟨⟨fuel, r, h⟩, h3⟩

/-! ## non-vacuity: concrete runs -/

section examples

private def x0 : Term := .node 0 []
private def y0 : Term := .node 7 []
/-- shared subterm `node 1 [x0]` occurs three times -/
private def sh : Term := .node 1 [x0]
private def dag : Term := .node 2 [sh, .node 3 [sh, y0], .node 1 [sh]]

/-- `node 1 [x] → x` -/
private def fUnwrap : Term → Term := applyRules [] [(1, .arg 0)]

example : run fUnwrap 100 dag = .done (.node 2 [x0, .node 3 [x0, y0], x0]) := by decide +kernel
/-- the shared subterm is visited once (memo hit on the 2nd and 3rd occurrence): 6 calls of `f`, not 9 -/
example : (runFrom fUnwrap 100 (init [] dag)).2.calls = 6 := by decide +kernel
example : run fUnwrap 5 dag = .outOfFuel := by decide +kernel

/-- a two-cycle `node 1 a → node 2 a → node 1 a` below a healthy node -/
private def fCycle : Term → Term := applyRules [] [(1, .relabel 2), (2, .relabel 1)]
example : run fCycle 100 (.node 5 [y0, sh]) = .loop sh := by decide +kernel

/-- an exact-table rewrite to a *bigger* term that then normalises -/
private def fGrow : Term → Term := applyRules [(y0, .node 3 [sh, sh])] [(1, .arg 0)]
example : run fGrow 100 (.node 2 [y0, y0]) = .done (.node 2 [.node 3 [x0, x0], .node 3 [x0, x0]]) := by decide +kernel

/-- the hypotheses of `driver_sound` are satisfiable with a non-trivial meaning: `sem` = the leftmost leaf label,
which `node 1 [x] → x` preserves -/
private def leftLeaf : Term → Nat
  | .node l [] => l
  | .node _ (a :: _) => leftLeaf a

example : leftLeaf (.node 2 [x0, .node 3 [x0, y0], x0]) = leftLeaf dag := by decide +kernel

/-- the hypothesis of `driver_terminates_of_size_decreasing` holds for `fUnwrap` -/
example : ∀ t, fUnwrap t ≠ t → sizeOf (fUnwrap t) < sizeOf t := by
  intro t ht
  cases t with
  | node l args =>
    by_cases hl : l = 1
    · subst hl
      cases args with
      | nil => exact absurd rfl ht
      | cons a as =>
        show sizeOf a < _
        simp only [Term.node.sizeOf_spec, List.cons.sizeOf_spec]; omega
    · have : fUnwrap (.node l args) = .node l args := by
        have hl' : ¬ 1 = l := fun h => hl h.symm
        simp [fUnwrap, applyRules, lookupExact, lookupRule, Term.label, hl']
      exact absurd this ht

end examples

end NutilsVerif.C01Driver
