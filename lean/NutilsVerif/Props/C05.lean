import NutilsVerif.Proofs.C05Check
import NutilsVerif.Proofs.C05Compress
import NutilsVerif.Proofs.C05Merge
import NutilsVerif.Proofs.C05Csr
import NutilsVerif.Proofs.C05Chunks
import NutilsVerif.Proofs.C05Strides
import NutilsVerif.Core.Poly
/-!
# C05 — sparse extraction denotes exactly the dense array: property theorems

*Statement.*  The sparse COO and CSR data extracted from any array expression denote exactly the dense array the
expression evaluates to: every index lies inside the announced shape, index tuples are unique and
lexicographically ordered, CSR row pointers are monotone and column indices strictly increase within a row, and
scattering the listed values into zeros reproduces the dense result.

*How the theorems carry it.*
1. `checkCOO_sound` / `checkCSR_sound` (+ `…_complete`): the executable checkers the driver applies to the
   evaluated *real* sparse trees accept **exactly** the data that satisfy the property (`CooDenotes`, `CsrDenotes`,
   defined in `Proofs/C05Check.lean`), for every value carrier; `checkCOO_sound_eval` (in `Props/C05Eval.lean`, the only
   part that needs Mathlib) transports an acceptance on symbolic polynomial values to every real-valued interpretation
   of the arguments.
2. `merge_preserves_sum`, `unique_spec`, `assparse_wf`, `assparse_accepted`: the merge that `Array.assparse`
   performs on the chunks of `_assparse` (Horner flat index, stable argsort, unique mask, inverse scatter-add,
   divmod unravel) produces, for all shapes and all in-range chunks, data that the checker accepts and that denote
   the sum of the chunks.
3. `compress_indices_spec`, `csr_of_coo`: `numeric.compress_indices` raises exactly outside its precondition and
   otherwise returns the searchsorted row pointers; the CSR triple `evaluable.as_csr` builds from accepted COO data
   is accepted by the CSR checker.
4. `ravel_chunk`, `unravel_chunk`, `diagonalize_chunk`: the re-indexing that `Ravel._assparse`, `Unravel._assparse` and
   `Diagonalize._assparse` apply to every chunk of their operand turns the accumulated meaning of the operand's chunk
   into the tensor operation applied to it (these are cases of the structural induction `chunks_denote`).
5. `ravel_unravel_index`, `flat_unflat`, `hornerFlat_eq_flatIdx`, `unravelLoop_eq_unflatIdx`,
   `unflat_strictMono`: the index arithmetic (divmod round trips, row-major order = lexicographic order);
   `inflate_block_position`: the strides `Inflate._assparse` uses to look a block index up in the flattened
   dofmap are the row-major strides, for dofmaps of any number of axes.
-/
namespace NutilsVerif.C05
open NutilsVerif

/-! ## 1. the certified checkers -/

/-- Clause "index tuples are unique": strictly lexicographically increasing tuples are pairwise distinct. -/
theorem strictLex_nodup (indices : List (List Nat)) (h : strictLexSorted indices = true) : indices.Nodup :=
  strictLex_nodup' h

/-- **Soundness of the COO checker** (all clauses of the property for COO data).  If `checkCOO` accepts
`(values, indices, shape)` against `dense`, then: one tuple per value, the dense array has the announced shape,
every index tuple lies inside the shape, tuples are pairwise strictly lexicographically increasing and distinct,
and every entry of the box equals the additive meaning of the data at that position (the sum of all listed
values there; `numeric.accumulate`).  `add`/`zero` arbitrary with `zero + a = a`. -/
theorem checkCOO_sound {α : Type} [Inhabited α] [BEq α] [LawfulBEq α] (add : α → α → α) (zero : α)
    (hz : ∀ a, add zero a = a) (shape : List Nat) (indices : List (List Nat)) (values : List α) (dense : Tensor α)
    (h : checkCOO zero shape indices values dense = true) :
    indices.length = values.length ∧ dense.shape = shape ∧ (∀ t ∈ indices, inBox shape t = true) ∧
    indices.Pairwise (fun a b => lexLt a b = true) ∧ indices.Nodup ∧
    ∀ idx, inBox shape idx = true → dense.get idx = scatterSum add zero indices values idx :=
  let d := checkCOO_sound' add zero hz shape indices values dense h
  ⟨d.length, d.shape_eq, d.inRange, d.sorted, d.nodup, d.denotes⟩

/-- **Completeness of the COO checker**: it accepts all data that satisfy the property, so a reported failed clause
is a genuine violation of that clause on the evaluated data. -/
theorem checkCOO_complete {α : Type} [Inhabited α] [BEq α] [LawfulBEq α] (add : α → α → α) (zero : α)
    (hz : ∀ a, add zero a = a) (shape : List Nat) (indices : List (List Nat)) (values : List α) (dense : Tensor α)
    (h : CooDenotes add zero shape indices values dense) : checkCOO zero shape indices values dense = true :=
  checkCOO_complete' add zero hz shape indices values dense h

/-- the driver's verdict `ok` is exactly acceptance by the checker (COO and CSR) -/
theorem verdict_ok_iff (clauses : List (String × Bool)) : firstFailed clauses = none ↔ clauses.all (·.2) = true :=
  firstFailed_none_iff clauses

/-- **Soundness of the CSR checker**: `rowptr` has `nrows+1` entries, starts at 0, is monotone, ends at `nnz`; one
column index `< ncols` per value; column indices strictly increase within each row; every dense entry is the sum
of the values listed in its row at its column. -/
theorem checkCSR_sound {α : Type} [Inhabited α] [BEq α] [LawfulBEq α] (add : α → α → α) (zero : α)
    (hz : ∀ a, add zero a = a) (nrows ncols : Nat) (rowptr colidx : List Nat) (values : List α) (dense : Tensor α)
    (h : checkCSR zero nrows ncols rowptr colidx values dense = true) :
    rowptr.length = nrows + 1 ∧ rowptr.head? = some 0 ∧ rowptr.Pairwise (· ≤ ·) ∧ rowptr.getLast? = some values.length ∧
    colidx.length = values.length ∧ (∀ c ∈ colidx, c < ncols) ∧
    (∀ i, i < nrows → (rowSlice colidx rowptr i).Pairwise (· < ·)) ∧ dense.shape = [nrows, ncols] ∧
    ∀ i j, i < nrows → j < ncols →
      dense.get [i, j] = scatterSum add zero (rowSlice colidx rowptr i) (rowSlice values rowptr i) j :=
  let d := checkCSR_sound' add zero hz nrows ncols rowptr colidx values dense h
  ⟨d.rowptr_length, d.rowptr_first, d.rowptr_mono, d.rowptr_last, d.colidx_length, d.colidx_range, d.row_sorted, d.shape_eq, d.denotes⟩

theorem checkCSR_complete {α : Type} [Inhabited α] [BEq α] [LawfulBEq α] (add : α → α → α) (zero : α)
    (hz : ∀ a, add zero a = a) (nrows ncols : Nat) (rowptr colidx : List Nat) (values : List α) (dense : Tensor α)
    (h : CsrDenotes add zero nrows ncols rowptr colidx values dense) :
    checkCSR zero nrows ncols rowptr colidx values dense = true :=
  checkCSR_complete' add zero hz nrows ncols rowptr colidx values dense h

/-! ### the driver's carrier: polynomials in the real-valued arguments -/

instance : LawfulBEq Poly where
  eq_of_beq {a b} h := by
    have h' : a.terms = b.terms := by
      have : (a.terms == b.terms) = true := h
      exact eq_of_beq this
    cases a; cases b; simp only at h'; rw [h']
  rfl {a} := by show (a.terms == a.terms) = true; exact BEq.rfl

theorem poly_zero_eq : (0 : Poly) = Poly.zero := by
  show Poly.ofRat _ = _
  simp [Poly.ofRat, Poly.zero]

/-- `0 + p = p` holds on the nose for the normal-form addition (no well-formedness needed) -/
theorem poly_zero_add (p : Poly) : (0 : Poly) + p = p := by
  rw [poly_zero_eq]
  show Poly.add Poly.zero p = p
  simp [Poly.add, Poly.zero, Poly.addTerms]


/-! ## 2. the merge step of `Array.assparse` -/

/-- `unique(array, return_inverse=True)` (ArgSort · UniqueMask · Find · UniqueInverse): the result is strictly
increasing, has exactly the entries of `array`, and `unique[inverse[k]] = array[k]` for every position. -/
theorem unique_spec (f : List Nat) :
    (uniqueInv f).1.Pairwise (· < ·) ∧ (∀ y, y ∈ (uniqueInv f).1 ↔ y ∈ f) ∧ (uniqueInv f).2.length = f.length ∧
    ∀ k (hk : k < f.length), (uniqueInv f).1[(uniqueInv f).2.getD k 0]? = some f[k] :=
  unique_spec' f

/-- **Sorting + unique + inverse scatter-add preserves the additive meaning**: for all flat index vectors and
values, the merged positions strictly increase, are exactly the positions that occur, and at every position the
merged data denote the same sum as the concatenated chunks. -/
theorem merge_preserves_sum {α : Type} (add : α → α → α) (zero : α) (hz : ∀ a, add zero a = a)
    (flat : List Nat) (values : List α) :
    (mergeFlat add zero flat values).1.Pairwise (· < ·) ∧
    (∀ y, y ∈ (mergeFlat add zero flat values).1 ↔ y ∈ flat) ∧
    (mergeFlat add zero flat values).1.length = (mergeFlat add zero flat values).2.length ∧
    ∀ p, scatterSum add zero (mergeFlat add zero flat values).1 (mergeFlat add zero flat values).2 p
        = scatterSum add zero flat values p :=
  merge_preserves_sum' add zero hz flat values

/-- Concatenating chunks adds their meanings (commutative monoid): justifies `Array.assparse` concatenating the
chunks of `_assparse`, `Add._assparse` chaining the chunks of its terms, and the per-chunk `Inflate`s being summed. -/
theorem chunks_concat_sum {α ι : Type} [BEq ι] {add : α → α → α} {zero : α} (h : IsCommMonoid add zero)
    (i₁ i₂ : List ι) (v₁ v₂ : List α) (idx : ι) (hlen : i₁.length = v₁.length) :
    scatterSum add zero (i₁ ++ i₂) (v₁ ++ v₂) idx = add (scatterSum add zero i₁ v₁ idx) (scatterSum add zero i₂ v₂ idx) :=
  scatterSum_append h i₁ i₂ v₁ v₂ idx hlen

/-- **`Array.assparse` is well formed and meaning preserving** (ndim > 0): for every shape and every list of chunk
entries inside the shape, the merged `(indices, values)` are in range, strictly lexicographically increasing and
denote at every position of the box the same sum as the chunks. -/
theorem assparse_wf {α : Type} (add : α → α → α) (zero : α) (hz : ∀ a, add zero a = a) (shape : List Nat) (hs : shape ≠ [])
    (tuples : List (List Nat)) (values : List α) (hbox : ∀ t ∈ tuples, inBox shape t = true) :
    (∀ t ∈ (assparse add zero shape tuples values).1, inBox shape t = true) ∧
    (assparse add zero shape tuples values).1.Pairwise (fun a b => lexLt a b = true) ∧
    (assparse add zero shape tuples values).1.length = (assparse add zero shape tuples values).2.length ∧
    ∀ idx, inBox shape idx = true →
      scatterSum add zero (assparse add zero shape tuples values).1 (assparse add zero shape tuples values).2 idx
        = scatterSum add zero tuples values idx :=
  assparse_wf' add zero hz shape hs tuples values hbox

/-- Composition of 1 and 2: the output of the `assparse` model is accepted by the certified checker against the
dense array that accumulates the chunks (`numeric.accumulate`). -/
theorem assparse_accepted {α : Type} [Inhabited α] [BEq α] [LawfulBEq α] (add : α → α → α) (zero : α)
    (hz : ∀ a, add zero a = a) (shape : List Nat) (hs : shape ≠ []) (tuples : List (List Nat)) (values : List α)
    (hbox : ∀ t ∈ tuples, inBox shape t = true) :
    checkCOO zero shape (assparse add zero shape tuples values).1 (assparse add zero shape tuples values).2
      (accumulate add zero shape tuples values) = true := by
  obtain ⟨h1, h2, h3, h4⟩ := assparse_wf' add zero hz shape hs tuples values hbox
  apply checkCOO_complete' add zero hz
  refine ⟨h3, rfl, h1, h2, h2.imp fun hab => lexLt_ne hab, fun idx hidx => ?_⟩
  rw [accumulate, Tensor.get_ofFn shape _ idx hidx, h4 idx hidx]

/-! ## 3. `numeric.compress_indices` and `evaluable.as_csr` -/

/-- **`compress_indices`**: for all index vectors and lengths, the call succeeds iff the vector is monotone with
entries in `[0, n)` (otherwise it raises), and then returns `indices.searchsorted(arange(n+1))`. -/
theorem compress_indices_spec (idx : List Int) (n : Nat) :
    match compressIndices idx n with
    | .ok c => (monotoneInt idx = true ∧ inRangeInt idx n = true) ∧ c = searchsortedAll idx n
    | .error _ => ¬ (monotoneInt idx = true ∧ inRangeInt idx n = true) :=
  compress_indices_spec' idx n

/-- the searchsorted row pointers: `n+1` entries, the first is 0 and the last is `len(indices)` for in-range
vectors, monotone, and entry `i` counts the indices below `i` (so `indices[c[i]:c[i+1]]` are the entries equal to
`i`, see `rows_slice_eq`) -/
theorem searchsorted_rowptr (idx : List Int) (n : Nat) (hr : inRangeInt idx n = true) :
    (searchsortedAll idx n).length = n + 1 ∧ (searchsortedAll idx n).head? = some 0 ∧
    (searchsortedAll idx n).getLast? = some (idx.length : Int) ∧ (searchsortedAll idx n).Pairwise (· ≤ ·) := by
  simp only [inRangeInt, List.all_eq_true, Bool.and_eq_true, decide_eq_true_eq] at hr
  refine ⟨by simp [searchsortedAll], ?_, ?_, ?_⟩
  · have : idx.filter (· < (0 : Int)) = [] := by
      rw [List.filter_eq_nil_iff]; intro x hx; have := hr x hx; simp; omega
    simp [searchsortedAll, List.head?_range, this]
  · have : idx.filter (· < (n : Int)) = idx := by
      rw [List.filter_eq_self]; intro x hx; have := hr x hx; simp; omega
    simp [searchsortedAll, List.getLast?_range, this]
  · rw [searchsortedAll, List.pairwise_map]
    refine List.pairwise_lt_range.imp fun {a b} hab => ?_
    rw [← List.countP_eq_length_filter, ← List.countP_eq_length_filter]
    exact Int.ofNat_le.2 (List.countP_mono_left fun x _ hx => by simp at hx ⊢; omega)

/-- in a vector sorted by row, the slice `[rowptr[i], rowptr[i+1])` holds exactly the entries of row `i` -/
theorem rows_slice_eq {β : Type} (rows : List Nat) (l : List β) (nrows i : Nat) (hi : i < nrows)
    (hlen : rows.length = l.length) (hsorted : rows.Pairwise (· ≤ ·)) :
    rowSlice l (rowptrOf rows nrows) i = ((rows.zip l).filter (·.1 == i)).map (·.2) :=
  rowSlice_rowptrOf rows l nrows i hi hlen hsorted

/-- **COO → CSR** (`evaluable.as_csr`): for every 2-d COO triple accepted by the COO checker,
`CompressIndices(rowidx, nrows)` does not raise and `(values, rowptr, colidx, ncols)` is accepted by the CSR checker. -/
theorem csr_of_coo {α : Type} [Inhabited α] [BEq α] [LawfulBEq α] (add : α → α → α) (zero : α)
    (hz : ∀ a, add zero a = a) (nrows ncols : Nat) (indices : List (List Nat)) (values : List α) (dense : Tensor α)
    (h : checkCOO zero [nrows, ncols] indices values dense = true) :
    ∃ rowptr colidx, asCsr indices nrows = .ok (rowptr, colidx) ∧
      checkCSR zero nrows ncols rowptr colidx values dense = true :=
  csr_of_coo' add zero hz nrows ncols indices values dense h

/-! ## 4. chunk transformers of `_assparse` overrides -/

/-- **`Ravel._assparse`** `(…, i, j) ↦ (…, i*b + j)`: for every leading shape `s`, every `a`, `b` and every chunk inside
the box of `s ++ [a, b]`, the re-indexed chunk accumulates to `Ravel` of what the chunk accumulates to. -/
theorem ravel_chunk {α : Type} [Inhabited α] (add : α → α → α) (zero : α) (s : List Nat) (a b : Nat)
    (tuples : List (List Nat)) (values : List α) (hbox : ∀ t ∈ tuples, inBox (s ++ [a, b]) t = true) :
    accumulate add zero (s ++ [a * b]) (tuples.map (ravelTuple b)) values ≃ₜ
      Tensor.ravel (accumulate add zero (s ++ [a, b]) tuples values) :=
  ravel_chunk_denotes add zero s a b tuples values hbox

/-- **`Unravel._assparse`** `(…, k) ↦ (…, k / b, k % b)`. -/
theorem unravel_chunk {α : Type} [Inhabited α] (add : α → α → α) (zero : α) (s : List Nat) (a b : Nat)
    (tuples : List (List Nat)) (values : List α) (hbox : ∀ t ∈ tuples, inBox (s ++ [a * b]) t = true) :
    accumulate add zero (s ++ [a, b]) (tuples.map (unravelTuple b)) values ≃ₜ
      Tensor.unravel (accumulate add zero (s ++ [a * b]) tuples values) a b :=
  unravel_chunk_denotes add zero s a b tuples values hbox

/-- **`Diagonalize._assparse`** `(…, i) ↦ (…, i, i)`: off-diagonal entries are not listed and denote `zero`. -/
theorem diagonalize_chunk {α : Type} [Inhabited α] (add : α → α → α) (zero : α) (s : List Nat) (n : Nat)
    (tuples : List (List Nat)) (values : List α) (hbox : ∀ t ∈ tuples, inBox (s ++ [n]) t = true) :
    accumulate add zero (s ++ [n, n]) (tuples.map diagTuple) values ≃ₜ
      Tensor.diagonalize zero (accumulate add zero (s ++ [n]) tuples values) :=
  diagonalize_chunk_denotes add zero s n tuples values hbox

example : ∀ t ∈ [[0, 1, 2], [1, 0, 0]], inBox ([2] ++ [2, 3]) t = true := by decide

/-! ## 5. index arithmetic -/

/-- **divmod round trip** (`Ravel._assparse`: `i*b + j`; `Unravel._assparse` and the unravel loop: `divmod`):
for `k < a*b`: `(k / b) * b + k % b = k`, `k / b < a`, `k % b < b`; and for `j < b`: `(i*b + j) / b = i`,
`(i*b + j) % b = j`. -/
theorem ravel_unravel_index (a b : Nat) :
    (∀ k, k < a * b → (k / b) * b + k % b = k ∧ k / b < a ∧ k % b < b) ∧
    (∀ i j, j < b → (i * b + j) / b = i ∧ (i * b + j) % b = j) :=
  ⟨fun _ h => ravel_unravel_index' h, fun _ _ h => unravel_ravel_index' h⟩

/-- lifted to multi-indices, direction flat → tuple → flat (the converse `unflat_flat` is in `Proofs/Tensor.lean`) -/
theorem flat_unflat_index (shape : List Nat) (k : Nat) (hk : k < shapeSize shape) :
    inBox shape (unflatIdx shape k) = true ∧ flatIdx shape (unflatIdx shape k) = k :=
  ⟨inBox_unflat shape k hk, flat_unflat shape k hk⟩

theorem unflat_flat_index (shape idx : List Nat) (h : inBox shape idx = true) :
    flatIdx shape idx < shapeSize shape ∧ unflatIdx shape (flatIdx shape idx) = idx :=
  ⟨flatIdx_lt shape idx h, unflat_flat shape idx h⟩

/-- the Horner flat index of `Array.assparse` is the row-major position -/
theorem hornerFlat_eq (shape idx : List Nat) (h : inBox shape idx = true) (hs : shape ≠ []) :
    hornerFlat shape idx = flatIdx shape idx :=
  hornerFlat_eq_flatIdx (inBox_length h) hs

/-- the divmod loop of `Array.assparse` inverts it -/
theorem unravelLoop_horner (shape idx : List Nat) (h : inBox shape idx = true) (hs : shape ≠ []) :
    unravelLoop shape (hornerFlat shape idx) = idx := by
  rw [hornerFlat_eq shape idx h hs, unravelLoop_eq_unflat hs (flatIdx_lt shape idx h), unflat_flat shape idx h]

/-- row-major order is lexicographic order: strictly increasing flat positions unravel to strictly
lexicographically increasing tuples (this is why sorting the flat index sorts the tuples) -/
theorem unflat_strictMono (shape : List Nat) (hs : shape ≠ []) (a b : Nat) (hab : a < b) (hb : b < shapeSize shape) :
    lexLt (unflatIdx shape a) (unflatIdx shape b) = true :=
  lexLt_unflat shape hs hab hb

/-- **block position of `Inflate._assparse`**: with `strides = (1, *accumulate(dofmap.shape[:0:-1], mul))[::-1]` the position
`Σ indices[j] * strides[j]` at which the chunk indices of the trailing `dofmap.ndim` axes are looked up in the flattened
dofmap is the row-major position of the multi-index in the dofmap block — for every number of dofmap axes and all axis
lengths — and there is exactly one stride per dofmap axis.  (So `flat_dofmap[pos] = dofmap[i_0, …, i_{k-1}]`: every value
is sent to the dof that the dense `Inflate` adds it to.) -/
theorem inflate_block_position (shape idx : List Nat) (h : inBox shape idx = true) (hs : shape ≠ []) :
    (blockStrides shape).length = shape.length ∧
    stridedPos idx (blockStrides shape) = flatIdx shape idx ∧
    stridedPos idx (blockStrides shape) < shapeSize shape :=
  ⟨blockStrides_length shape hs, stridedPos_blockStrides (inBox_length h) hs,
    by rw [stridedPos_blockStrides (inBox_length h) hs]; exact flatIdx_lt shape idx h⟩

example : blockStrides [2, 3, 4] = [12, 4, 1] ∧ stridedPos [1, 2, 3] (blockStrides [2, 3, 4]) = 23 := by decide

/-! ## non-vacuity -/

-- the checker accepts the 2×3 array [[0,5,0],[0,0,7]] with entries (0,1) ↦ 5, (1,2) ↦ 7 and rejects a swapped order
example : checkCOO (0 : Int) [2, 3] [[0, 1], [1, 2]] [5, 7] ⟨[2, 3], #[0, 5, 0, 0, 0, 7]⟩ = true := by decide
example : checkCOO (0 : Int) [2, 3] [[1, 2], [0, 1]] [7, 5] ⟨[2, 3], #[0, 5, 0, 0, 0, 7]⟩ = false := by decide
example : checkCOO (0 : Int) [2, 3] [[0, 1], [1, 2]] [5, 7] ⟨[2, 3], #[0, 5, 0, 0, 1, 7]⟩ = false := by decide
example : checkCSR (0 : Int) 2 3 [0, 1, 2] [1, 2] [5, 7] ⟨[2, 3], #[0, 5, 0, 0, 0, 7]⟩ = true := by decide
example : checkCSR (0 : Int) 2 3 [0, 2, 2] [1, 1] [5, 7] ⟨[2, 3], #[0, 12, 0, 0, 0, 0]⟩ = false := by decide
-- 0-d: one value, one empty tuple
example : checkCOO (0 : Int) [] [[]] [4] ⟨[], #[4]⟩ = true := by decide
-- the hypothesis of `assparse_wf` / `assparse_accepted` is satisfiable (chunks with a duplicate position)
example : ∀ t ∈ [[1, 2], [0, 1], [1, 2]], inBox [2, 3] t = true := by decide
example : (compressIndices [0, 0, 2] 4).toOption = some [0, 2, 2, 3, 3] := by decide
example : (match compressIndices [1, 0] 2 with | .error .notMonotone => true | _ => false) = true := by decide
example : (∀ a : Int, 0 + a = a) := Int.zero_add

end NutilsVerif.C05
