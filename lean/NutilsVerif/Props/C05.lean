import NutilsVerif.Model.C05
namespace NutilsVerif.C05
theorem placeholder : True := trivial
end NutilsVerif.C05
