import NutilsVerif.Proofs.Tensor
import NutilsVerif.Proofs.TensorLaws
import NutilsVerif.Model.Expr
/-!
# C01 — simplification preserves values: laws of the specification semantics

The rewrite rules of the simplifier are instances of algebraic laws of the tensor operations.  Each theorem
below is such a law, stated for tensors of every shape over every carrier (so also for symbolic polynomial
entries = all real argument values), on the index-formula semantics of `Core/Tensor.lean` that the executable
evaluator `Model/Expr.lean` uses.
-/
namespace NutilsVerif.C01
open NutilsVerif Tensor

/-- Two tabulated index formulas that agree on the box denote the same tensor: the proof principle behind every
rewrite law (a rule is sound iff its two index formulas agree on every multi-index of the result shape). -/
theorem ofFn_congr {α : Type} [Inhabited α] (shape : List Nat) (f g : List Nat → α)
    (h : ∀ idx, inBox shape idx = true → f idx = g idx) : ofFn shape f ≃ₜ ofFn shape g := by
  refine ⟨rfl, fun idx hi => ?_⟩
  have hi' : inBox shape idx = true := hi
  rw [get_ofFn shape f idx hi', get_ofFn shape g idx hi', h idx hi']

/-- Pointwise operations commute with tabulation: `zipWith op (ofFn s f) (ofFn s g) = ofFn s (op ∘ (f,g))`. -/
theorem zipWith_ofFn {α : Type} [Inhabited α] (op : α → α → α) (shape : List Nat) (f g : List Nat → α) :
    zipWith op (ofFn shape f) (ofFn shape g) ≃ₜ ofFn shape (fun idx => op (f idx) (g idx)) := by
  refine ⟨rfl, fun idx hi => ?_⟩
  have hi' : inBox shape idx = true := hi
  simp only [zipWith, shape_ofFn]
  rw [get_ofFn _ _ idx hi', get_ofFn _ _ idx hi', get_ofFn _ _ idx hi', get_ofFn _ _ idx hi']

example : inBox [2, 3] [1, 2] = true := by decide

/-!
## Laws

Conventions.  A hypothesis `t.shape = s ++ [n]` (or `s ++ [a, b]`, `s ++ dm.shape`) only names the trailing axes
the operation acts on; `s` is an arbitrary list of leading axis lengths, so each law covers tensors of every
rank and every axis length (zero lengths included).  Arithmetic is abstract: `op`, `add`, `mul` are arbitrary
binary operations on an arbitrary carrier `α` and the algebraic facts a law needs are explicit hypotheses
(`IsCommMonoid add zero`, neutrality, distributivity); they hold for `(+, 0, *, 1)` of ℤ, ℚ and of the polynomial
carrier of the evaluator.  `a ≃ₜ b` is: equal shapes and equal entries at every multi-index of the box.
-/

section laws
variable {α : Type} [Inhabited α]

/-! ### 1. TakeDiag of Diagonalize / InsertAxis -/

/-- `Diagonalize._takediag` (axis1 = ndim-2): `TakeDiag(Diagonalize(f)) = f`.  Any fill value `z`. -/
theorem takeDiag_diagonalize (z : α) (t : Tensor α) {s : List Nat} {n : Nat} (hs : t.shape = s ++ [n]) :
    takeDiag (diagonalize z t) ≃ₜ t := by
  have hd := shape_diagonalize z hs
  refine equiv_snoc (shape_takeDiag hd) hs fun pre k hp hk => ?_
  rw [get_takeDiag hd hp hk, get_diagonalize z hs hp hk hk, if_pos rfl]

/-- the same with the evaluator's guard (`Diagonalize` needs `ndim > 0`) as hypothesis -/
theorem takeDiag_diagonalize_of_ne_nil (z : α) (t : Tensor α) (h : t.shape ≠ []) : takeDiag (diagonalize z t) ≃ₜ t :=
  takeDiag_diagonalize z t (shape_snoc_of_ne_nil h)

/-- `InsertAxis._takediag` (axis2 = inserted axis, axis1 = ndim-2): `TakeDiag(InsertAxis(f, n)) = f` when the last
axis of `f` has length `n` (`Transpose.to_end(f, ndim-2)` is `f`). -/
theorem takeDiag_insertAxis (t : Tensor α) {s : List Nat} {n : Nat} (hs : t.shape = s ++ [n]) :
    takeDiag (insertAxis t n) ≃ₜ t := by
  have hi : (insertAxis t n).shape = s ++ [n, n] := by show t.shape ++ [n] = _; rw [hs]; simp
  refine equiv_snoc (shape_takeDiag hi) hs fun pre k hp hk => ?_
  rw [get_takeDiag hi hp hk, show pre ++ [k, k] = (pre ++ [k]) ++ [k] by simp,
    get_insertAxis t n (hs ▸ inBox_snoc hp hk) hk]

/-- `TakeDiag(InsertAxis(InsertAxis(f, n), n)) = InsertAxis(f, n)` -/
theorem takeDiag_insertAxis_insertAxis (t : Tensor α) (n : Nat) :
    takeDiag (insertAxis (insertAxis t n) n) ≃ₜ insertAxis t n :=
  takeDiag_insertAxis (insertAxis t n) (s := t.shape) rfl

/-! ### 2. Sum / Product of InsertAxis -/

/-- `InsertAxis._sum` (last axis) and `InsertAxis._product`, generic form: reducing the inserted axis with `op`
from `u` gives the `n`-fold repetition `nfold op u x n = (…((u ∘ x) ∘ x)…) ∘ x` of every entry. -/
theorem reduceLast_insertAxis (op : α → α → α) (u : α) (t : Tensor α) (n : Nat) :
    reduceLast op u (insertAxis t n) ≃ₜ ofFn t.shape fun idx => nfold op u (t.get idx) n := by
  have hi : (insertAxis t n).shape = t.shape ++ [n] := rfl
  refine equiv_of_get (shape_reduceLast op u hi) rfl fun idx h => ?_
  rw [get_reduceLast op u hi h, get_ofFn _ _ _ h]
  exact foldl_congr_mem _ _ fun acc k hk => by rw [get_insertAxis t n h (List.mem_range.1 hk)]

/-- `InsertAxis._sum`: `Sum(InsertAxis(f, n)) = f * n`, for every carrier with a scalar embedding `c : ℕ → α`
satisfying `x * c 0 = 0` and `x * c (k+1) = x * c k + x` (true in every semiring with `c = Nat.cast`). -/
theorem sum_insertAxis (add mul : α → α → α) (zero : α) (c : Nat → α) (h0 : ∀ x, mul x (c 0) = zero)
    (hsucc : ∀ x k, mul x (c (k+1)) = add (mul x (c k)) x) (t : Tensor α) (n : Nat) :
    reduceLast add zero (insertAxis t n) ≃ₜ zipWith mul t (full t.shape (c n)) := by
  refine (reduceLast_insertAxis add zero t n).trans (equiv_of_get (s := t.shape) rfl rfl fun idx h => ?_)
  rw [get_ofFn _ _ _ h, get_zipWith mul t _ h, get_full _ _ h]
  induction n with
  | zero => rw [nfold_zero, h0]
  | succ n ih => rw [nfold_succ, ih, hsucc]

/-- `InsertAxis._product`: `Product(InsertAxis(f, n)) = f ** n`, for every power function with `x^0 = 1`,
`x^(k+1) = x^k * x`. -/
theorem product_insertAxis (mul : α → α → α) (one : α) (pw : α → Nat → α) (h0 : ∀ x, pw x 0 = one)
    (hsucc : ∀ x k, pw x (k+1) = mul (pw x k) x) (t : Tensor α) (n : Nat) :
    reduceLast mul one (insertAxis t n) ≃ₜ ofFn t.shape fun idx => pw (t.get idx) n := by
  refine (reduceLast_insertAxis mul one t n).trans (ofFn_congr _ _ _ fun idx _ => ?_)
  induction n with
  | zero => rw [nfold_zero, h0]
  | succ n ih => rw [nfold_succ, ih, hsucc]

/-! ### 3. Sum of Diagonalize -/

/-- `Diagonalize._sum` (axis = ndim-1): `Sum(Diagonalize(f)) = f`, whenever the fill value `z` is right-neutral
for `op` and the start value `u` is left-neutral (both are `0` for `Sum`). -/
theorem reduceLast_diagonalize (op : α → α → α) (u z : α) (hz : ∀ a, op a z = a) (hu : ∀ a, op u a = a)
    (t : Tensor α) {s : List Nat} {n : Nat} (hs : t.shape = s ++ [n]) :
    reduceLast op u (diagonalize z t) ≃ₜ t := by
  have hd : (diagonalize z t).shape = (s ++ [n]) ++ [n] := by rw [shape_diagonalize z hs]; simp
  refine equiv_snoc (shape_reduceLast op u hd) hs fun pre i hp hi => ?_
  rw [get_reduceLast op u hd (inBox_snoc hp hi)]
  rw [foldl_congr_mem (g := fun acc k => op acc (if i = k then t.get (pre ++ [i]) else z)) _ _
    (fun acc k hk => by
      rw [show pre ++ [i] ++ [k] = pre ++ [i, k] by simp, get_diagonalize z hs hp hi (List.mem_range.1 hk)])]
  exact foldl_single op u z _ hz (hu _) n i hi

/-! ### 5. Take -/

/-- `InsertAxis._take` (axis = inserted axis): `Take(InsertAxis(f, n), index) = appendaxes(f, index.shape)`;
the indices must be valid (`< n`), as `Take` requires. -/
theorem take_insertAxis (t : Tensor α) (n : Nat) (ind : Tensor Nat)
    (hind : ∀ j, inBox ind.shape j = true → ind.get j < n) :
    take (insertAxis t n) ind ≃ₜ appendAxes t ind.shape := by
  have hi : (insertAxis t n).shape = t.shape ++ [n] := rfl
  refine equiv_append (shape_take hi ind) rfl fun pre suf hp hj => ?_
  rw [get_take hi ind hp hj, get_insertAxis t n hp (hind suf hj), get_appendAxes t _ hp hj]

/-- `Add._take`, `Multiply._take`, `Power._take`, `Pointwise._take`: `Take` commutes with pointwise operations. -/
theorem take_zipWith (f : α → α → α) (a b : Tensor α) {s : List Nat} {n : Nat} (ha : a.shape = s ++ [n])
    (hb : b.shape = s ++ [n]) (ind : Tensor Nat) (hind : ∀ j, inBox ind.shape j = true → ind.get j < n) :
    take (zipWith f a b) ind ≃ₜ zipWith f (take a ind) (take b ind) := by
  have hz : (zipWith f a b).shape = s ++ [n] := ha
  refine equiv_append (shape_take hz ind) (shape_take ha ind) fun pre suf hp hj => ?_
  rw [get_take hz ind hp hj, get_zipWith f a b (ha ▸ inBox_snoc hp (hind suf hj)),
    get_zipWith f _ _ (shape_take ha ind ▸ inBox_app hp hj), get_take ha ind hp hj, get_take hb ind hp hj]

/-- `Take._take` (axis ≥ func.ndim-1, here the last axis of the index array):
`Take(Take(f, i), j) = Take(f, Take(i, j))`. -/
theorem take_take (t : Tensor α) {s : List Nat} {n : Nat} (hs : t.shape = s ++ [n]) (i j : Tensor Nat)
    {si : List Nat} {m : Nat} (hi : i.shape = si ++ [m]) (hj : ∀ q, inBox j.shape q = true → j.get q < m) :
    take (take t i) j ≃ₜ take t (take i j) := by
  have h1 : (take t i).shape = (s ++ si) ++ [m] := by rw [shape_take hs, hi]; simp
  have h2 : (take i j).shape = si ++ j.shape := shape_take hi j
  refine equiv_append (s := s ++ si) (s' := j.shape) (shape_take h1 j) (by rw [shape_take hs, h2]; simp)
    fun pre q hp hq => ?_
  obtain ⟨p1, p2, rfl, hp1, hp2⟩ := inBox_split hp
  rw [get_take h1 j hp hq, List.append_assoc, List.append_assoc,
    get_take hs i hp1 (hi ▸ inBox_snoc hp2 (hj q hq)),
    get_take hs (take i j) hp1 (h2 ▸ inBox_app hp2 hq), get_take hi j hp2 hq]

/-! ### 6. Ravel / Unravel -/

/-- `Ravel._unravel` (axis = ndim-1, shape equal to the ravelled axes): `Unravel(Ravel(f), a, b) = f`.
No positivity hypothesis is needed: with `a = 0` or `b = 0` both sides are empty. -/
theorem unravel_ravel (t : Tensor α) {s : List Nat} {a b : Nat} (hs : t.shape = s ++ [a, b]) :
    unravel (ravel t) a b ≃ₜ t := by
  have hr := shape_ravel hs
  refine equiv_snoc2 (shape_unravel hr a b) hs fun pre i j hp hi hj => ?_
  have hk : i * b + j < a * b := by
    calc i * b + j < i * b + b := by omega
      _ = (i + 1) * b := by rw [Nat.add_mul, Nat.one_mul]
      _ ≤ a * b := Nat.mul_le_mul_right _ hi
  have hb : 0 < b := by omega
  rw [get_unravel hr a b hp hi hj, get_ravel hs hp hk]
  have h1 : (i * b + j) / b = i := by rw [Nat.mul_comm, Nat.mul_add_div hb, Nat.div_eq_of_lt hj]; simp
  have h2 : (i * b + j) % b = j := by rw [Nat.mul_comm, Nat.mul_add_mod, Nat.mod_eq_of_lt hj]
  rw [h1, h2]

/-- `Ravel(Unravel(f, a, b)) = f` (the inverse direction; used by `Ravel._add`, `Ravel._multiply`, `unravel` of a
`Ravel` with matching shape).  Holds for all `a`, `b` with `a * b` the last axis length. -/
theorem ravel_unravel (t : Tensor α) {s : List Nat} {a b : Nat} (hs : t.shape = s ++ [a * b]) :
    ravel (unravel t a b) ≃ₜ t := by
  have hu := shape_unravel hs a b
  refine equiv_snoc (shape_ravel hu) hs fun pre k hp hk => ?_
  have hb : 0 < b := by
    cases b with
    | zero => simp at hk
    | succ b => omega
  have hdiv : k / b < a := (Nat.div_lt_iff_lt_mul hb).2 hk
  rw [get_ravel hu hp hk, get_unravel hs a b hp hdiv (Nat.mod_lt _ hb), Nat.div_add_mod' k b]

/-- `InsertAxis._unravel` (axis = inserted axis): `Unravel(InsertAxis(f, a*b), a, b) = InsertAxis(InsertAxis(f, a), b)` -/
theorem unravel_insertAxis (t : Tensor α) (a b : Nat) :
    unravel (insertAxis t (a * b)) a b ≃ₜ insertAxis (insertAxis t a) b := by
  have hi : (insertAxis t (a * b)).shape = t.shape ++ [a * b] := rfl
  refine equiv_snoc2 (shape_unravel hi a b) (by show t.shape ++ [a] ++ [b] = _; simp) fun pre i j hp hi' hj => ?_
  have hk : i * b + j < a * b := by
    calc i * b + j < i * b + b := by omega
      _ = (i + 1) * b := by rw [Nat.add_mul, Nat.one_mul]
      _ ≤ a * b := Nat.mul_le_mul_right _ hi'
  rw [get_unravel hi a b hp hi' hj, get_insertAxis t _ hp hk, show pre ++ [i, j] = (pre ++ [i]) ++ [j] by simp,
    get_insertAxis (insertAxis t a) b (inBox_snoc hp hi') hj, get_insertAxis t a hp hi']

/-- `Add._unravel`, `Multiply._unravel`, `Power._unravel`, `Pointwise._unravel`: `Unravel` commutes with pointwise
operations. -/
theorem unravel_zipWith (f : α → α → α) (x y : Tensor α) {s : List Nat} {m : Nat} (hx : x.shape = s ++ [m])
    (hy : y.shape = s ++ [m]) (a b : Nat) (hm : m = a * b) :
    unravel (zipWith f x y) a b ≃ₜ zipWith f (unravel x a b) (unravel y a b) := by
  have hz : (zipWith f x y).shape = s ++ [m] := hx
  refine equiv_snoc2 (shape_unravel hz a b) (shape_unravel hx a b) fun pre i j hp hi hj => ?_
  have hk : i * b + j < m := by
    rw [hm]
    calc i * b + j < i * b + b := by omega
      _ = (i + 1) * b := by rw [Nat.add_mul, Nat.one_mul]
      _ ≤ a * b := Nat.mul_le_mul_right _ hi
  rw [get_unravel hz a b hp hi hj, get_zipWith f x y (hx ▸ inBox_snoc hp hk),
    get_zipWith f _ _ (shape_unravel hx a b ▸ inBox_snoc2 hp hi hj), get_unravel hx a b hp hi hj,
    get_unravel hy a b hp hi hj]

/-- `Ravel._multiply` (both factors `Ravel`), `Ravel._power`, `Ravel._sign`-style: `Ravel` commutes with pointwise
operations. -/
theorem ravel_zipWith (f : α → α → α) (x y : Tensor α) {s : List Nat} {a b : Nat} (hx : x.shape = s ++ [a, b])
    (hy : y.shape = s ++ [a, b]) : zipWith f (ravel x) (ravel y) ≃ₜ ravel (zipWith f x y) := by
  have hz : (zipWith f x y).shape = s ++ [a, b] := hx
  refine equiv_snoc (shape_ravel hx) (shape_ravel hz) fun pre k hp hk => ?_
  have hb : 0 < b := by
    cases b with
    | zero => simp at hk
    | succ b => omega
  have hdiv : k / b < a := (Nat.div_lt_iff_lt_mul hb).2 hk
  rw [get_zipWith f _ _ (shape_ravel hx ▸ inBox_snoc hp hk), get_ravel hx hp hk, get_ravel hy hp hk,
    get_ravel hz hp hk, get_zipWith f x y (hx ▸ inBox_snoc2 hp hdiv (Nat.mod_lt _ hb))]

/-- `Ravel._add`, `Ravel._multiply` (general case): `Ravel(f) ∘ g = Ravel(f ∘ Unravel(g, a, b))`. -/
theorem zipWith_ravel_left (f : α → α → α) (x y : Tensor α) {s : List Nat} {a b : Nat}
    (hx : x.shape = s ++ [a, b]) (hy : y.shape = s ++ [a * b]) :
    zipWith f (ravel x) y ≃ₜ ravel (zipWith f x (unravel y a b)) := by
  have h1 : zipWith f (ravel x) y ≃ₜ zipWith f (ravel x) (ravel (unravel y a b)) := by
    refine equiv_of_get (shape_ravel hx) (shape_ravel hx) fun idx h => ?_
    rw [get_zipWith f _ _ (shape_ravel hx ▸ h), get_zipWith f _ _ (shape_ravel hx ▸ h)]
    rw [(ravel_unravel y hy).2 idx (by rw [shape_ravel (shape_unravel hy a b)]; exact h)]
  exact h1.trans (ravel_zipWith f x (unravel y a b) hx (shape_unravel hy a b))

/-! ### 4. Transpose -/

/-- `Transpose._transpose` (general case; also `Transpose._optimized_for_numpy`):
`Transpose(Transpose(f, p), q) = Transpose(f, [p[i] for i in q])`, for permutations `p`, `q` of the axes. -/
theorem transpose_transpose (t : Tensor α) (p q : List Nat) (hp : IsPerm p t.shape.length)
    (hq : IsPerm q t.shape.length) :
    transpose (transpose t p) q ≃ₜ transpose t (q.map fun i => p.getD i 0) := by
  have hn : (transpose t p).shape.length = t.shape.length := by rw [shape_transpose]; simp [hp.length]
  have hshape : (transpose (transpose t p) q).shape = (transpose t (q.map fun i => p.getD i 0)).shape := by
    rw [shape_transpose, shape_transpose, shape_transpose, List.map_map]
    apply List.map_congr_left
    intro a ha
    exact getD_map_of_lt _ (by rw [hp.length]; exact hq.mem_iff.1 ha)
  refine ⟨hshape, fun idx h => ?_⟩
  have h1 : inBox (q.map fun a => (transpose t p).shape.getD a 0) idx = true := h
  have h2 : inBox ((q.map fun i => p.getD i 0).map fun a => t.shape.getD a 0) idx = true := by
    rw [← shape_transpose, ← hshape]; exact h
  have hq' : IsPerm q (transpose t p).shape.length := by rw [hn]; exact hq
  have h3 : inBox (p.map fun a => t.shape.getD a 0) (transposeSrc q (transpose t p).shape.length idx) = true :=
    inBox_transposeSrc hq' h1
  rw [get_transpose _ q h1, get_transpose _ _ h2, get_transpose t p h3, hn]
  congr 1
  show (List.range t.shape.length).map _ = (List.range t.shape.length).map _
  apply List.map_congr_left
  intro b hb
  have hb := List.mem_range.1 hb
  rw [getD_transposeSrc q idx (hp.idxOf_lt hb), idxOf_map_perm hp hb q fun x hx => hq.mem_iff.1 hx]

/-- `Transpose` with the identity permutation is the identity (why `transpose()` drops trivial axes, and the
end point of `Transpose._transpose` with `axes == _invaxes`). -/
theorem transpose_id (t : Tensor α) : transpose t (List.range t.shape.length) ≃ₜ t := by
  refine ⟨map_getD_range t.shape, fun idx h => ?_⟩
  have h' : inBox t.shape idx = true := by rw [← map_getD_range t.shape]; exact h
  rw [get_transpose t _ (by rw [map_getD_range]; exact h'), transposeSrc_range (inBox_length h')]

/-- `Transpose._transpose` with `axes == self._invaxes`: `Transpose(Transpose(f, p), p⁻¹) = f`. -/
theorem transpose_transpose_inv (t : Tensor α) (p q : List Nat) (hp : IsPerm p t.shape.length)
    (hq : IsPerm q t.shape.length) (hinv : (q.map fun i => p.getD i 0) = List.range t.shape.length) :
    transpose (transpose t p) q ≃ₜ t :=
  (transpose_transpose t p q hp hq).trans (hinv ▸ transpose_id t)

/-- `Transpose._add`, `Transpose._multiply`, `Transpose._power`, `Transpose._sign`: pointwise operations commute
with `Transpose`. -/
theorem transpose_zipWith (f : α → α → α) (a b : Tensor α) (hab : a.shape = b.shape) (p : List Nat)
    (hp : IsPerm p a.shape.length) :
    zipWith f (transpose a p) (transpose b p) ≃ₜ transpose (zipWith f a b) p := by
  refine ⟨rfl, fun idx h => ?_⟩
  have h1 : inBox (p.map fun x => a.shape.getD x 0) idx = true := h
  have hsrc := inBox_transposeSrc hp h1
  rw [get_zipWith f (transpose a p) (transpose b p) h1, get_transpose a p h1, get_transpose b p (hab ▸ h1), get_transpose (zipWith f a b) p h1,
    ← hab]
  exact (get_zipWith f a b hsrc).symm

/-! ### 7. Inflate -/

/-- `Inflate._add` (equal dofmaps), read right to left also the `_inflations` splitting of a sum:
`Inflate(f, d, n) + Inflate(g, d, n) = Inflate(f + g, d, n)`. -/
theorem inflate_zipWith {add : α → α → α} {z : α} (h : IsCommMonoid add z) (a b : Tensor α) (dm : Tensor Nat)
    (len : Nat) {s : List Nat} (ha : a.shape = s ++ dm.shape) (hb : b.shape = s ++ dm.shape) :
    zipWith add (inflate add z a dm len) (inflate add z b dm len) ≃ₜ inflate add z (zipWith add a b) dm len := by
  have hz : (zipWith add a b).shape = s ++ dm.shape := ha
  have hia := shape_inflate add z dm len ha
  refine equiv_snoc hia (shape_inflate add z dm len hz) fun pre k hp hk => ?_
  rw [get_zipWith add _ _ (hia ▸ inBox_snoc hp hk), get_inflate add z dm len ha hp hk,
    get_inflate add z dm len hb hp hk, get_inflate add z dm len hz hp hk,
    foldl_cond_eq_fsum h (fun d => dm.get d == k) (fun d => a.get (pre ++ d)),
    foldl_cond_eq_fsum h (fun d => dm.get d == k) (fun d => b.get (pre ++ d)),
    foldl_cond_eq_fsum h (fun d => dm.get d == k) (fun d => (zipWith add a b).get (pre ++ d)),
    ← fsum_add_distrib h]
  refine fsum_congr _ fun d hd => ?_
  rw [get_zipWith add a b (ha ▸ inBox_app hp (mem_indices hd))]
  by_cases c : (dm.get d == k) = true <;> simp [c, h.zero_add]

/-- `Zeros._inflate`: `Inflate(Zeros, d, n) = Zeros` (needs only `0 + 0 = 0`). -/
theorem inflate_full_zero (add : α → α → α) (z : α) (hz : add z z = z) (s : List Nat) (dm : Tensor Nat)
    (len : Nat) : inflate add z (full (s ++ dm.shape) z) dm len ≃ₜ full (s ++ [len]) z := by
  have hs : (full (s ++ dm.shape) z).shape = s ++ dm.shape := rfl
  refine equiv_snoc (shape_inflate add z dm len hs) rfl fun pre k hp hk => ?_
  rw [get_inflate add z dm len hs hp hk, get_full _ _ (inBox_snoc hp hk)]
  exact foldl_cond_zero add z hz _ _ _ fun d hd => get_full _ _ (inBox_app hp (mem_indices hd))

/-- `Inflate._sum` (axis = inflated axis), summation form: summing the inflated axis gives the sum of *all* entries
along the dofmap axes, provided every dof is in range (`Inflate` requires `dofmap < length`). -/
theorem sum_inflate_fsum {add : α → α → α} {z : α} (h : IsCommMonoid add z) (t : Tensor α) (dm : Tensor Nat)
    (len : Nat) {s : List Nat} (hs : t.shape = s ++ dm.shape)
    (hdm : ∀ d, inBox dm.shape d = true → dm.get d < len) :
    reduceLast add z (inflate add z t dm len) ≃ₜ
      ofFn s fun pre => fsum add z (indices dm.shape) fun d => t.get (pre ++ d) := by
  have hi := shape_inflate add z dm len hs
  refine equiv_of_get (s := s) (shape_reduceLast add z hi) rfl fun pre hp => ?_
  rw [get_reduceLast add z hi hp, get_ofFn _ _ _ hp]
  show fsum add z (List.range len) (fun k => (inflate add z t dm len).get (pre ++ [k])) = _
  rw [fsum_congr (g := fun k => fsum add z (indices dm.shape) fun d => if dm.get d = k then t.get (pre ++ d) else z)
    _ (fun k hk => by
      rw [get_inflate add z dm len hs hp (List.mem_range.1 hk),
        foldl_cond_eq_fsum h (fun d => dm.get d == k) (fun d => t.get (pre ++ d))]
      simp only [beq_iff_eq])]
  rw [fsum_swap h]
  exact fsum_congr _ fun d hd => fsum_single h _ (hdm d (mem_indices hd))

/-- `Inflate._sum` (axis = inflated axis) as the rule writes it: `Sum(Inflate(f, d, n)) = Sum(…Sum(f)…)` with one
`Sum` per dofmap axis. -/
theorem sum_inflate {add : α → α → α} {z : α} (h : IsCommMonoid add z) (t : Tensor α) (dm : Tensor Nat)
    (len : Nat) {s : List Nat} (hs : t.shape = s ++ dm.shape)
    (hdm : ∀ d, inBox dm.shape d = true → dm.get d < len) :
    reduceLast add z (inflate add z t dm len) ≃ₜ reduceLastN add z dm.shape.length t :=
  (sum_inflate_fsum h t dm len hs hdm).trans (reduceLastN_eq_fsum h s _ dm.shape t rfl hs).symm

/-- `Inflate._multiply`: `Inflate(f, d, n) * g = Inflate(f * Take(g, d), d, n)`; needs right distributivity,
`0 * w = 0` (out-of-range dofs contribute to neither side). -/
theorem inflate_mul (add mul : α → α → α) (z : α) (hd : ∀ x y w, mul (add x y) w = add (mul x w) (mul y w))
    (h0 : ∀ w, mul z w = z) (a g : Tensor α) (dm : Tensor Nat) (len : Nat) {s : List Nat}
    (ha : a.shape = s ++ dm.shape) (hg : g.shape = s ++ [len]) :
    zipWith mul (inflate add z a dm len) g ≃ₜ inflate add z (zipWith mul a (take g dm)) dm len := by
  have hz : (zipWith mul a (take g dm)).shape = s ++ dm.shape := ha
  have hia := shape_inflate add z dm len ha
  refine equiv_snoc hia (shape_inflate add z dm len hz) fun pre k hp hk => ?_
  rw [get_zipWith mul _ g (hia ▸ inBox_snoc hp hk), get_inflate add z dm len ha hp hk,
    get_inflate add z dm len hz hp hk,
    ← foldl_cond_mul_right add mul hd (fun d => dm.get d == k) (fun d => a.get (pre ++ d)) (g.get (pre ++ [k])), h0]
  refine foldl_congr_mem _ _ fun acc d hdm' => ?_
  have hdb := mem_indices hdm'
  by_cases c : (dm.get d == k) = true
  · have e : dm.get d = k := by simpa using c
    simp only [c, if_true]
    rw [get_zipWith mul a _ (ha ▸ inBox_app hp hdb), get_take hg dm hp hdb, e]
  · simp [c]

/-! ### 8. pointwise operations and InsertAxis; Sum of a product with an inserted factor -/

/-- `InsertAxis._add`, `InsertAxis._multiply`, `InsertAxis._power` (both operands constant along the last axis;
the rule finds this through `unalign`): `InsertAxis(f, n) ∘ InsertAxis(g, n) = InsertAxis(f ∘ g, n)`. -/
theorem zipWith_insertAxis (f : α → α → α) (a b : Tensor α) (n : Nat) (hab : a.shape = b.shape) :
    zipWith f (insertAxis a n) (insertAxis b n) ≃ₜ insertAxis (zipWith f a b) n := by
  refine equiv_snoc (s := a.shape) (n := n) rfl rfl fun pre k hp hk => ?_
  have hin : inBox (insertAxis a n).shape (pre ++ [k]) = true := inBox_snoc hp hk
  rw [get_zipWith f _ _ hin, get_insertAxis a n hp hk, get_insertAxis b n (hab ▸ hp) hk,
    get_insertAxis (zipWith f a b) n hp hk, get_zipWith f a b hp]

/-- `Multiply._sum`: a factor that does not vary along the summed axis moves out of the sum,
`Sum(f * InsertAxis(c, n)) = Sum(f) * c`; needs right distributivity and `0 * w = 0`. -/
theorem sum_mul_insertAxis (add mul : α → α → α) (z : α)
    (hd : ∀ x y w, mul (add x y) w = add (mul x w) (mul y w)) (h0 : ∀ w, mul z w = z)
    (a c : Tensor α) {n : Nat} (ha : a.shape = c.shape ++ [n]) :
    reduceLast add z (zipWith mul a (insertAxis c n)) ≃ₜ zipWith mul (reduceLast add z a) c := by
  have hz : (zipWith mul a (insertAxis c n)).shape = c.shape ++ [n] := ha
  have hr := shape_reduceLast add z ha
  refine equiv_of_get (s := c.shape) (shape_reduceLast add z hz) hr fun pre hp => ?_
  rw [get_reduceLast add z hz hp, get_zipWith mul _ _ (hr ▸ hp), get_reduceLast add z ha hp,
    ← foldl_mul_right add mul hd (fun k => a.get (pre ++ [k])) (c.get pre), h0]
  exact foldl_congr_mem _ _ fun acc k hk => by
    have hk := List.mem_range.1 hk
    rw [get_zipWith mul a _ (ha ▸ inBox_snoc hp hk), get_insertAxis c n hp hk]

/-! ### 9. TakeDiag / Sum of pointwise operations -/

/-- `Add._takediag`, `Multiply._takediag`, `Power._takediag`, `Pointwise._takediag`: `TakeDiag` commutes with
pointwise operations. -/
theorem takeDiag_zipWith (f : α → α → α) (a b : Tensor α) {s : List Nat} {n : Nat} (ha : a.shape = s ++ [n, n])
    (hb : b.shape = s ++ [n, n]) : takeDiag (zipWith f a b) ≃ₜ zipWith f (takeDiag a) (takeDiag b) := by
  have hz : (zipWith f a b).shape = s ++ [n, n] := ha
  refine equiv_snoc (shape_takeDiag hz) (shape_takeDiag ha) fun pre k hp hk => ?_
  rw [get_takeDiag hz hp hk, get_zipWith f a b (ha ▸ inBox_snoc2 hp hk hk),
    get_zipWith f _ _ (shape_takeDiag ha ▸ inBox_snoc hp hk), get_takeDiag ha hp hk, get_takeDiag hb hp hk]

/-- `Add._sum`: `Sum(f + g) = Sum(f) + Sum(g)` (commutative monoid); with `(*, 1)` it is `Multiply._product`:
`Product(f * g) = Product(f) * Product(g)`. -/
theorem reduceLast_zipWith_add {add : α → α → α} {z : α} (h : IsCommMonoid add z) (a b : Tensor α)
    {s : List Nat} {n : Nat} (ha : a.shape = s ++ [n]) (hb : b.shape = s ++ [n]) :
    reduceLast add z (zipWith add a b) ≃ₜ zipWith add (reduceLast add z a) (reduceLast add z b) := by
  have hz : (zipWith add a b).shape = s ++ [n] := ha
  have hr := shape_reduceLast add z ha
  refine equiv_of_get (s := s) (shape_reduceLast add z hz) hr fun pre hp => ?_
  rw [get_reduceLast add z hz hp, get_zipWith add _ _ (hr ▸ hp), get_reduceLast add z ha hp,
    get_reduceLast add z hb hp]
  show fsum add z (List.range n) (fun k => (zipWith add a b).get (pre ++ [k])) = _
  rw [fsum_congr (g := fun k => add (a.get (pre ++ [k])) (b.get (pre ++ [k]))) _ (fun k hk =>
    get_zipWith add a b (ha ▸ inBox_snoc hp (List.mem_range.1 hk)))]
  exact fsum_add_distrib h _ _ _

/-- `Ravel._sum` (axis = ravelled axis) and `Ravel._product`: `Sum(Ravel(f)) = Sum(Sum(f))` (commutative monoid;
with `(*, 1)` it is `Product(Ravel(f)) = Product(Product(f))`). -/
theorem reduceLast_ravel {add : α → α → α} {z : α} (h : IsCommMonoid add z) (t : Tensor α) {s : List Nat}
    {a b : Nat} (hs : t.shape = s ++ [a, b]) :
    reduceLast add z (ravel t) ≃ₜ reduceLast add z (reduceLast add z t) := by
  have hr := shape_ravel hs
  have hs' : t.shape = (s ++ [a]) ++ [b] := by rw [hs]; simp
  have h1 := shape_reduceLast add z hs'
  refine equiv_of_get (s := s) (shape_reduceLast add z hr) (shape_reduceLast add z h1) fun pre hp => ?_
  rw [get_reduceLast add z hr hp, get_reduceLast add z h1 hp]
  show fsum add z (List.range (a * b)) (fun k => (ravel t).get (pre ++ [k])) =
    fsum add z (List.range a) (fun i => (reduceLast add z t).get (pre ++ [i]))
  rw [fsum_congr (g := fun k => t.get (pre ++ [k / b, k % b])) _ (fun k hk =>
      get_ravel hs hp (List.mem_range.1 hk)),
    fsum_range_mul h (fun i j => t.get (pre ++ [i, j])) b a]
  refine fsum_congr _ fun i hi => ?_
  rw [get_reduceLast add z hs' (inBox_snoc hp (List.mem_range.1 hi))]
  simp only [List.append_assoc]
  rfl

/-! ### 10. concatenation and slices -/

/-- `_TakeSlice` of a `LoopConcatenate` at a part's offset gives back that part: with `parts = ps ++ p :: qs` and
offset = total last-axis length of `ps`. -/
theorem sliceLast_concatLast (ps : List (Tensor α)) (p : Tensor α) (qs : List (Tensor α)) {pre : List Nat}
    {n : Nat} (hp : p.shape = pre ++ [n]) :
    sliceLast (concatLast (ps ++ p :: qs) pre) ((ps.map fun q => q.shape.getLastD 0).sum) n ≃ₜ p := by
  have hc := shape_concatLast (ps ++ p :: qs) pre
  refine equiv_snoc (shape_sliceLast hc _ n) hp fun i k hi hk => ?_
  rw [get_sliceLast hc _ n hi hk, Nat.add_comm,
    get_concatLast ps p qs pre hi (by rw [hp, List.getLastD_concat]; exact hk)]

/-- concatenating the two slices `[0, a)` and `[a, a+b)` of the last axis restores the tensor (the loop
concatenation of `_TakeSlice`s that tile the axis). -/
theorem concatLast_sliceLast (t : Tensor α) {pre : List Nat} {a b : Nat} (hs : t.shape = pre ++ [a + b]) :
    concatLast [sliceLast t 0 a, sliceLast t a b] pre ≃ₜ t := by
  have h1 := shape_sliceLast hs 0 a
  have h2 := shape_sliceLast hs a b
  have hl1 : (sliceLast t 0 a).shape.getLastD 0 = a := by rw [h1, List.getLastD_concat]
  have hl2 : (sliceLast t a b).shape.getLastD 0 = b := by rw [h2, List.getLastD_concat]
  have hc : (concatLast [sliceLast t 0 a, sliceLast t a b] pre).shape = pre ++ [a + b] := by
    rw [shape_concatLast]; simp only [List.map_cons, List.map_nil, List.sum_cons, List.sum_nil, hl1, hl2]; rfl
  refine equiv_snoc hc hs fun i k hi hk => ?_
  by_cases hka : k < a
  · have := get_concatLast [] (sliceLast t 0 a) [sliceLast t a b] pre hi (k := k) (by rw [hl1]; exact hka)
    simp only [List.map_nil, List.sum_nil, Nat.zero_add, List.nil_append] at this
    rw [this, get_sliceLast hs 0 a hi hka, Nat.add_zero]
  · have := get_concatLast [sliceLast t 0 a] (sliceLast t a b) [] pre hi (k := k - a) (by rw [hl2]; omega)
    simp only [List.map_cons, List.map_nil, List.sum_cons, List.sum_nil, hl1, Nat.add_zero, List.cons_append,
      List.nil_append] at this
    rw [show a + (k - a) = k by omega] at this
    rw [this, get_sliceLast hs a b hi (by omega), show k - a + a = k by omega]

/-! ### Zeros -/

/-- `Zeros._add`: `0 + g = g`. -/
theorem zipWith_full_zero_add (add : α → α → α) (z : α) (hz : ∀ a, add z a = a) (b : Tensor α) :
    zipWith add (full b.shape z) b ≃ₜ b :=
  equiv_of_get (s := b.shape) rfl rfl fun idx h => by
    rw [get_zipWith add (full b.shape z) b h, get_full _ _ h, hz]

/-- `Zeros._multiply`: `0 * g = 0`. -/
theorem zipWith_full_zero_mul (mul : α → α → α) (z : α) (hz : ∀ a, mul z a = z) (b : Tensor α) :
    zipWith mul (full b.shape z) b ≃ₜ full b.shape z :=
  equiv_of_get (s := b.shape) rfl rfl fun idx h => by
    rw [get_zipWith mul (full b.shape z) b h, get_full _ _ h, hz]

/-- `Zeros._sum`: `Sum(Zeros) = Zeros` (needs only `0 + 0 = 0`). -/
theorem reduceLast_full_zero (add : α → α → α) (z : α) (hz : add z z = z) (s : List Nat) (n : Nat) :
    reduceLast add z (full (s ++ [n]) z) ≃ₜ full s z := by
  have hs : (full (s ++ [n]) z).shape = s ++ [n] := rfl
  refine equiv_of_get (s := s) (shape_reduceLast add z hs) rfl fun pre hp => ?_
  rw [get_reduceLast add z hs hp, get_full _ _ hp,
    foldl_congr_mem (g := fun acc _ => add acc z) _ _ (fun acc k hk => by
      rw [get_full _ _ (inBox_snoc hp (List.mem_range.1 hk))])]
  exact foldl_const_unit add z z hz _

/-- `Zeros._insertaxis` (last position), also the `iszero(length)` branch target shape of `InsertAxis._simplified`:
inserting an axis into a constant tensor gives the constant tensor. -/
theorem insertAxis_full (s : List Nat) (a : α) (n : Nat) : insertAxis (full s a) n ≃ₜ full (s ++ [n]) a :=
  equiv_snoc (s := s) (n := n) rfl rfl fun pre k hp hk => by
    rw [get_insertAxis (full s a) n hp hk, get_full _ _ hp, get_full _ _ (inBox_snoc hp hk)]

/-- `Zeros._takediag` -/
theorem takeDiag_full (s : List Nat) (a : α) (n : Nat) : takeDiag (full (s ++ [n, n]) a) ≃ₜ full (s ++ [n]) a := by
  have hs : (full (s ++ [n, n]) a).shape = s ++ [n, n] := rfl
  exact equiv_snoc (shape_takeDiag hs) rfl fun pre k hp hk => by
    rw [get_takeDiag hs hp hk, get_full _ _ (inBox_snoc2 hp hk hk), get_full _ _ (inBox_snoc hp hk)]

/-- `Zeros._take` -/
theorem take_full (s : List Nat) (a : α) (n : Nat) (ind : Tensor Nat)
    (hind : ∀ j, inBox ind.shape j = true → ind.get j < n) :
    take (full (s ++ [n]) a) ind ≃ₜ full (s ++ ind.shape) a := by
  have hs : (full (s ++ [n]) a).shape = s ++ [n] := rfl
  exact equiv_append (shape_take hs ind) rfl fun pre suf hp hj => by
    rw [get_take hs ind hp hj, get_full _ _ (inBox_snoc hp (hind suf hj)), get_full _ _ (inBox_app hp hj)]

/-- `Zeros._diagonalize` (the off-diagonal fill is the same zero) -/
theorem diagonalize_full (s : List Nat) (z : α) (n : Nat) :
    diagonalize z (full (s ++ [n]) z) ≃ₜ full (s ++ [n, n]) z := by
  have hs : (full (s ++ [n]) z).shape = s ++ [n] := rfl
  exact equiv_snoc2 (shape_diagonalize z hs) rfl fun pre i j hp hi hj => by
    rw [get_diagonalize z hs hp hi hj, get_full _ _ (inBox_snoc hp hi), get_full _ _ (inBox_snoc2 hp hi hj)]
    simp

/-- `Zeros._ravel` -/
theorem ravel_full (s : List Nat) (x : α) (a b : Nat) : ravel (full (s ++ [a, b]) x) ≃ₜ full (s ++ [a * b]) x := by
  have hs : (full (s ++ [a, b]) x).shape = s ++ [a, b] := rfl
  refine equiv_snoc (shape_ravel hs) rfl fun pre k hp hk => ?_
  have hb : 0 < b := by
    cases b with
    | zero => simp at hk
    | succ b => omega
  rw [get_ravel hs hp hk, get_full _ _ (inBox_snoc2 hp ((Nat.div_lt_iff_lt_mul hb).2 hk) (Nat.mod_lt _ hb)),
    get_full _ _ (inBox_snoc hp hk)]

/-- `Zeros._unravel` -/
theorem unravel_full (s : List Nat) (x : α) (a b : Nat) :
    unravel (full (s ++ [a * b]) x) a b ≃ₜ full (s ++ [a, b]) x := by
  have hs : (full (s ++ [a * b]) x).shape = s ++ [a * b] := rfl
  refine equiv_snoc2 (shape_unravel hs a b) rfl fun pre i j hp hi hj => ?_
  have hk : i * b + j < a * b := by
    calc i * b + j < i * b + b := by omega
      _ = (i + 1) * b := by rw [Nat.add_mul, Nat.one_mul]
      _ ≤ a * b := Nat.mul_le_mul_right _ hi
  rw [get_unravel hs a b hp hi hj, get_full _ _ (inBox_snoc hp hk), get_full _ _ (inBox_snoc2 hp hi hj)]

/-- `Zeros._transpose` -/
theorem transpose_full (s : List Nat) (x : α) (p : List Nat) (hp : IsPerm p s.length) :
    transpose (full s x) p ≃ₜ full (p.map fun a => s.getD a 0) x :=
  equiv_of_get (s := p.map fun a => s.getD a 0) rfl rfl fun idx h => by
    rw [get_transpose (full s x) p h, get_full _ _ h]
    exact get_full _ _ (inBox_transposeSrc (sh := s) hp h)

/-! ### unit / zero lengths and Range indices (`_simplified` branches) -/

/-- every branch that returns `zeros_like(self)` because some axis has length zero (`InsertAxis._simplified`
with `iszero(length)`, `Take._simplified` with an empty index array, …): two tensors of the same shape with a
zero-length axis are equal, there is no entry to compare. -/
theorem equiv_of_zero_length {A B : Tensor α} {s : List Nat} (hA : A.shape = s) (hB : B.shape = s)
    (h0 : 0 ∈ s) : A ≃ₜ B := by
  refine equiv_of_get hA hB fun idx h => ?_
  exfalso
  have hall := (inBox_iff_getD.1 h).2
  obtain ⟨k, hk, e⟩ := List.getElem_of_mem h0
  have := hall k hk
  rw [getD_eq_getElem hk, e] at this
  omega

/-- `InsertAxis._simplified`, `iszero(length)`: `InsertAxis(f, 0) = zeros_like` -/
theorem insertAxis_zero (t : Tensor α) (z : α) : insertAxis t 0 ≃ₜ full (t.shape ++ [0]) z :=
  equiv_of_zero_length (s := t.shape ++ [0]) rfl rfl (by simp)

/-- `Diagonalize._simplified`, last axis of length one: `Diagonalize(f) = InsertAxis(f, 1)` -/
theorem diagonalize_unit (z : α) (t : Tensor α) {s : List Nat} (hs : t.shape = s ++ [1]) :
    diagonalize z t ≃ₜ insertAxis t 1 := by
  refine equiv_snoc2 (shape_diagonalize z hs) (by show t.shape ++ [1] = _; rw [hs]; simp) fun pre i j hp hi hj => ?_
  have hi0 : i = 0 := by omega
  have hj0 : j = 0 := by omega
  subst hi0 hj0
  rw [get_diagonalize z hs hp hi hj, if_pos rfl, show pre ++ [0, 0] = (pre ++ [0]) ++ [0] by simp,
    get_insertAxis t 1 (hs ▸ inBox_snoc hp hi) hj]

/-- `Unravel._simplified`, `sh2 = 1`: `Unravel(f, a, 1) = InsertAxis(f, 1)` -/
theorem unravel_unit (t : Tensor α) {s : List Nat} {a : Nat} (hs : t.shape = s ++ [a]) :
    unravel t a 1 ≃ₜ insertAxis t 1 := by
  refine equiv_snoc2 (shape_unravel hs a 1) (by show t.shape ++ [1] = _; rw [hs]; simp) fun pre i j hp hi hj => ?_
  have hj0 : j = 0 := by omega
  subst hj0
  rw [get_unravel hs a 1 hp hi hj, show pre ++ [i, 0] = (pre ++ [i]) ++ [0] by simp,
    get_insertAxis t 1 (hs ▸ inBox_snoc hp hi) hj]
  simp

/-- `Inflate._simplified`, scalar dofmap `0` into length one: `Inflate(f, 0, 1) = InsertAxis(f, 1)` -/
theorem inflate_scalar_unit (add : α → α → α) (z : α) (hz : ∀ a, add z a = a) (t : Tensor α) (dm : Tensor Nat)
    (hd : dm.shape = []) (h0 : dm.get [] = 0) : inflate add z t dm 1 ≃ₜ insertAxis t 1 := by
  have hs : t.shape = t.shape ++ dm.shape := by rw [hd]; simp
  refine equiv_snoc (shape_inflate add z dm 1 hs) rfl fun pre k hp hk => ?_
  have hk0 : k = 0 := by omega
  subst hk0
  rw [get_inflate add z dm 1 hs hp hk, get_insertAxis t 1 hp hk, hd, indices_nil]
  simp [h0, hz]

/-- `Range._rtake`: `Take(f, Range(n)) = f` when `n` is the length of the last axis -/
theorem take_range (t : Tensor α) {s : List Nat} {n : Nat} (hs : t.shape = s ++ [n]) (ind : Tensor Nat)
    (hi : ind.shape = [n]) (hr : ∀ k, k < n → ind.get [k] = k) : take t ind ≃ₜ t := by
  refine equiv_snoc (by rw [shape_take hs, hi]) hs fun pre k hp hk => ?_
  rw [get_take hs ind hp (hi ▸ inBox_single.2 ⟨k, rfl, hk⟩), hr k hk]

/-- `Take._optimized_for_numpy`: `Take(f, Range(l) + offset) = _TakeSlice(f, l, offset)` (offset `0` for a bare
`Range`). -/
theorem take_range_offset (t : Tensor α) {s : List Nat} {n : Nat} (hs : t.shape = s ++ [n]) (ind : Tensor Nat)
    (l off : Nat) (hi : ind.shape = [l]) (hr : ∀ k, k < l → ind.get [k] = k + off) :
    take t ind ≃ₜ sliceLast t off l := by
  refine equiv_snoc (by rw [shape_take hs, hi]) (shape_sliceLast hs off l) fun pre k hp hk => ?_
  rw [get_take hs ind hp (hi ▸ inBox_single.2 ⟨k, rfl, hk⟩), hr k hk, get_sliceLast hs off l hp hk]

/-- `Range._rinflate`: `Inflate(f, Range(n), n) = f` -/
theorem inflate_range {add : α → α → α} {z : α} (h : IsCommMonoid add z) (t : Tensor α) {s : List Nat}
    {n : Nat} (hs : t.shape = s ++ [n]) (dm : Tensor Nat) (hd : dm.shape = [n])
    (hr : ∀ k, k < n → dm.get [k] = k) : inflate add z t dm n ≃ₜ t := by
  have hs' : t.shape = s ++ dm.shape := by rw [hd]; exact hs
  refine equiv_snoc (shape_inflate add z dm n hs') hs fun pre k hp hk => ?_
  rw [get_inflate add z dm n hs' hp hk,
    foldl_cond_eq_fsum h (fun d => dm.get d == k) (fun d => t.get (pre ++ d)), hd, indices_single, fsum_map,
    fsum_congr (g := fun d => if k = d then t.get (pre ++ [k]) else z) _ (fun d hd' => by
      rw [hr d (List.mem_range.1 hd')]
      by_cases e : d = k
      · subst e; simp
      · have e' : ¬ k = d := fun h => e h.symm
        simp [e, e'])]
  exact fsum_single h _ hk

end laws

/-! ## The laws on concrete tensors (hypotheses are satisfiable; the two sides are computed and compared) -/

section examples

def A : Tensor Int := ⟨[2, 3], #[1, 2, 3, 4, 5, 6]⟩
def B : Tensor Int := ⟨[2, 3], #[10, 20, 30, 40, 50, 60]⟩
def C : Tensor Int := ⟨[2, 3, 3], #[1, 2, 3, 4, 5, 6, 7, 8, 9, 10, 11, 12, 13, 14, 15, 16, 17, 18]⟩
def I2 : Tensor Nat := ⟨[2], #[2, 0]⟩
def J22 : Tensor Nat := ⟨[2, 2], #[1, 0, 0, 1]⟩
def D3 : Tensor Nat := ⟨[3], #[1, 3, 1]⟩
def R3 : Tensor Nat := ⟨[3], #[0, 1, 2]⟩

theorem intAdd : IsCommMonoid (fun a b : Int => a + b) 0 := ⟨Int.add_assoc, Int.add_comm, Int.zero_add⟩
theorem intMul : IsCommMonoid (fun a b : Int => a * b) 1 := ⟨Int.mul_assoc, Int.mul_comm, Int.one_mul⟩

theorem I2_lt : ∀ j, inBox I2.shape j = true → I2.get j < 3 := fun j hj => by
  obtain ⟨k, rfl, hk⟩ := inBox_single.1 hj
  match k, hk with
  | 0, _ => decide
  | 1, _ => decide

theorem J22_lt : ∀ j, inBox J22.shape j = true → J22.get j < 2 := fun j hj => by
  obtain ⟨a, b, rfl, ha, hb⟩ := inBox_pair.1 hj
  match a, b, ha, hb with
  | 0, 0, _, _ => decide
  | 0, 1, _, _ => decide
  | 1, 0, _, _ => decide
  | 1, 1, _, _ => decide

theorem D3_lt : ∀ j, inBox D3.shape j = true → D3.get j < 4 := fun j hj => by
  obtain ⟨k, rfl, hk⟩ := inBox_single.1 hj
  match k, hk with
  | 0, _ => decide
  | 1, _ => decide
  | 2, _ => decide

theorem R3_get : ∀ k, k < 3 → R3.get [k] = k := fun k hk => by
  match k, hk with
  | 0, _ => decide
  | 1, _ => decide
  | 2, _ => decide

-- 1
example : takeDiag (diagonalize 0 A) ≃ₜ A := takeDiag_diagonalize 0 A (s := [2]) rfl
example : (takeDiag (diagonalize 0 A)).toList = A.toList := by decide
example : (diagonalize 0 A).toList = [1, 0, 0, 0, 2, 0, 0, 0, 3, 4, 0, 0, 0, 5, 0, 0, 0, 6] := by decide
example : takeDiag (insertAxis A 3) ≃ₜ A := takeDiag_insertAxis A (s := [2]) rfl
example : (takeDiag (insertAxis (insertAxis A 2) 2)).toList = (insertAxis A 2).toList := by decide
-- 2
example : reduceLast (· + ·) 0 (insertAxis A 4) ≃ₜ zipWith (· * ·) A (full A.shape ((4 : Nat) : Int)) :=
  sum_insertAxis (· + ·) (· * ·) 0 (fun n : Nat => (n : Int)) (by simp) (by intro x k; simp [Int.mul_add]) A 4
example : (reduceLast (· + ·) 0 (insertAxis A 4)).toList = [4, 8, 12, 16, 20, 24] := by decide
example : reduceLast (· * ·) 1 (insertAxis A 3) ≃ₜ ofFn A.shape fun idx => (A.get idx) ^ 3 :=
  product_insertAxis (· * ·) 1 (fun x n => x ^ n) (by simp) (by intro x k; exact Int.pow_succ x k) A 3
example : (reduceLast (· * ·) 1 (insertAxis A 3)).toList = [1, 8, 27, 64, 125, 216] := by decide
-- 3
example : reduceLast (· + ·) 0 (diagonalize 0 A) ≃ₜ A :=
  reduceLast_diagonalize (· + ·) 0 0 Int.add_zero Int.zero_add A (s := [2]) rfl
example : (reduceLast (· + ·) 0 (diagonalize 0 A)).toList = A.toList := by decide
-- 4
example : transpose (transpose C [2, 0, 1]) [1, 0, 2] ≃ₜ transpose C [0, 2, 1] :=
  transpose_transpose C [2, 0, 1] [1, 0, 2] (by decide) (by decide)
example : (transpose (transpose C [2, 0, 1]) [1, 0, 2]).toList = (transpose C [0, 2, 1]).toList := by decide
example : (transpose A [1, 0]).toList = [1, 4, 2, 5, 3, 6] := by decide
example : transpose (transpose C [2, 0, 1]) [1, 2, 0] ≃ₜ C :=
  transpose_transpose_inv C [2, 0, 1] [1, 2, 0] (by decide) (by decide) (by decide)
example : transpose A [0, 1] ≃ₜ A := transpose_id A
example : zipWith (· + ·) (transpose A [1, 0]) (transpose B [1, 0]) ≃ₜ transpose (zipWith (· + ·) A B) [1, 0] :=
  transpose_zipWith (· + ·) A B rfl [1, 0] (by decide)
example : IsPerm [2, 0, 1] 3 := isPerm_of_check rfl (by decide)
-- 5
example : take (insertAxis A 3) I2 ≃ₜ appendAxes A [2] := take_insertAxis A 3 I2 I2_lt
example : (take A I2).toList = [3, 1, 6, 4] := by decide
example : take (zipWith (· * ·) A B) I2 ≃ₜ zipWith (· * ·) (take A I2) (take B I2) :=
  take_zipWith (· * ·) A B (s := [2]) rfl rfl I2 I2_lt
example : take (take A I2) J22 ≃ₜ take A (take I2 J22) := take_take A (s := [2]) rfl I2 J22 (si := []) rfl J22_lt
example : (take (take A I2) J22).toList = (take A (take I2 J22)).toList := by decide
example : take A R3 ≃ₜ A := take_range A (s := [2]) rfl R3 rfl R3_get
-- 6
example : unravel (ravel C) 3 3 ≃ₜ C := unravel_ravel C (s := [2]) rfl
example : ravel (unravel A 3 1) ≃ₜ A := ravel_unravel A (s := [2]) (a := 3) (b := 1) rfl
example : ravel (unravel A 0 7) ≃ₜ ravel (unravel A 0 7) := Equiv.refl _
example : (ravel C).shape = [2, 9] ∧ (ravel C).toList = C.toList := by decide
example : (unravel (ravel C) 3 3).toList = C.toList := by decide
example : reduceLast (· + ·) 0 (ravel C) ≃ₜ reduceLast (· + ·) 0 (reduceLast (· + ·) 0 C) :=
  reduceLast_ravel intAdd C (s := [2]) rfl
example : (reduceLast (· + ·) 0 (ravel C)).toList = [45, 126] := by decide
-- 7
example : zipWith (· + ·) (inflate (· + ·) 0 A D3 4) (inflate (· + ·) 0 B D3 4) ≃ₜ
    inflate (· + ·) 0 (zipWith (· + ·) A B) D3 4 := inflate_zipWith intAdd A B D3 4 (s := [2]) rfl rfl
example : (inflate (· + ·) 0 A D3 4).toList = [0, 4, 0, 2, 0, 10, 0, 5] := by decide
example : zipWith (· * ·) (inflate (· + ·) 0 A D3 4) (inflate (· + ·) 0 B D3 4) ≃ₜ
    inflate (· + ·) 0 (zipWith (· * ·) A (take (inflate (· + ·) 0 B D3 4) D3)) D3 4 :=
  inflate_mul (· + ·) (· * ·) 0 Int.add_mul Int.zero_mul A _ D3 4 (s := [2]) rfl rfl
example : reduceLast (· * ·) 1 (zipWith (· * ·) A B) ≃ₜ
    zipWith (· * ·) (reduceLast (· * ·) 1 A) (reduceLast (· * ·) 1 B) :=
  reduceLast_zipWith_add intMul A B (s := [2]) rfl rfl
example : reduceLast (· + ·) 0 (inflate (· + ·) 0 A D3 4) ≃ₜ reduceLastN (· + ·) 0 1 A :=
  sum_inflate intAdd A D3 4 (s := [2]) rfl D3_lt
example : (reduceLast (· + ·) 0 (inflate (· + ·) 0 A D3 4)).toList = [6, 15] := by decide
example : (reduceLast (· + ·) 0 (inflate (· + ·) 0 C (⟨[3, 3], #[0, 1, 2, 0, 1, 2, 3, 3, 3]⟩ : Tensor Nat) 4)).toList
    = [45, 126] := by decide
example : inflate (· + ·) 0 A R3 3 ≃ₜ A := inflate_range intAdd A (s := [2]) rfl R3 rfl R3_get
-- 8
example : zipWith (· * ·) (insertAxis A 2) (insertAxis B 2) ≃ₜ insertAxis (zipWith (· * ·) A B) 2 :=
  zipWith_insertAxis (· * ·) A B 2 rfl
example : reduceLast (· + ·) 0 (zipWith (· * ·) C (insertAxis A 3)) ≃ₜ zipWith (· * ·) (reduceLast (· + ·) 0 C) A :=
  sum_mul_insertAxis (· + ·) (· * ·) 0 Int.add_mul Int.zero_mul C A rfl
example : (reduceLast (· + ·) 0 (zipWith (· * ·) C (insertAxis A 3))).toList = [6, 30, 72, 132, 210, 306] := by decide
-- 9
example : takeDiag (zipWith (· + ·) C C) ≃ₜ zipWith (· + ·) (takeDiag C) (takeDiag C) :=
  takeDiag_zipWith (· + ·) C C (s := [2]) rfl rfl
example : (takeDiag C).toList = [1, 5, 9, 10, 14, 18] := by decide
example : reduceLast (· + ·) 0 (zipWith (· + ·) A B) ≃ₜ
    zipWith (· + ·) (reduceLast (· + ·) 0 A) (reduceLast (· + ·) 0 B) :=
  reduceLast_zipWith_add intAdd A B (s := [2]) rfl rfl
-- 10
example : sliceLast (concatLast [A, B, A] [2]) 3 3 ≃ₜ B := sliceLast_concatLast [A] B [A] (pre := [2]) rfl
example : (concatLast [A, B] [2]).toList = [1, 2, 3, 10, 20, 30, 4, 5, 6, 40, 50, 60] := by decide
example : concatLast [sliceLast A 0 1, sliceLast A 1 2] [2] ≃ₜ A := concatLast_sliceLast A (pre := [2]) (a := 1) (b := 2) rfl
example : (concatLast [sliceLast A 0 1, sliceLast A 1 2] [2]).toList = A.toList := by decide
-- zeros / unit lengths
example : reduceLast (· + ·) 0 (full [2, 3] (0 : Int)) ≃ₜ full [2] 0 := reduceLast_full_zero (· + ·) 0 rfl [2] 3
example : insertAxis A 0 ≃ₜ full [2, 3, 0] 0 := insertAxis_zero A 0
example : diagonalize 0 (insertAxis (reduceLast (· + ·) 0 A) 1) ≃ₜ insertAxis (insertAxis (reduceLast (· + ·) 0 A) 1) 1 :=
  diagonalize_unit 0 _ (s := [2]) rfl

end examples

end NutilsVerif.C01
