import NutilsVerif.Proofs.Tensor
import NutilsVerif.Model.Expr
/-!
# C01 — simplification preserves values: laws of the specification semantics

The rewrite rules of the simplifier are instances of algebraic laws of the tensor operations.  Each theorem
below is such a law, stated for tensors of every shape over every carrier (so also for symbolic polynomial
entries = all real argument values), on the index-formula semantics of `Core/Tensor.lean` that the executable
evaluator `Model/Expr.lean` uses.
-/
namespace NutilsVerif.C01
open NutilsVerif Tensor

/-- Two tabulated index formulas that agree on the box denote the same tensor: the proof principle behind every
rewrite law (a rule is sound iff its two index formulas agree on every multi-index of the result shape). -/
theorem ofFn_congr {α : Type} [Inhabited α] (shape : List Nat) (f g : List Nat → α)
    (h : ∀ idx, inBox shape idx = true → f idx = g idx) : ofFn shape f ≃ₜ ofFn shape g := by
  refine ⟨rfl, fun idx hi => ?_⟩
  have hi' : inBox shape idx = true := hi
  rw [get_ofFn shape f idx hi', get_ofFn shape g idx hi', h idx hi']

/-- Pointwise operations commute with tabulation: `zipWith op (ofFn s f) (ofFn s g) = ofFn s (op ∘ (f,g))`. -/
theorem zipWith_ofFn {α : Type} [Inhabited α] (op : α → α → α) (shape : List Nat) (f g : List Nat → α) :
    zipWith op (ofFn shape f) (ofFn shape g) ≃ₜ ofFn shape (fun idx => op (f idx) (g idx)) := by
  refine ⟨rfl, fun idx hi => ?_⟩
  have hi' : inBox shape idx = true := hi
  simp only [zipWith, shape_ofFn]
  rw [get_ofFn _ _ idx hi', get_ofFn _ _ idx hi', get_ofFn _ _ idx hi', get_ofFn _ _ idx hi']

example : inBox [2, 3] [1, 2] = true := by decide

end NutilsVerif.C01
