import NutilsVerif.Proofs.C16Sum
import NutilsVerif.Proofs.C16Slots
import NutilsVerif.Proofs.C16Static
import NutilsVerif.Proofs.C16Alias
import NutilsVerif.Proofs.C16Fork
import NutilsVerif.Proofs.C16Live
import NutilsVerif.Proofs.C16Locate
import Mathlib.Algebra.Group.Defs
/-!
# C16 — parallel evaluation equals serial evaluation: property theorems

All statements are about the executable model in `Model/C16.lean`: `run N n code σ (init sh sl)` is the state
after the schedule `σ` (any list of `step w` / `kill w` / `raise w` events) of `N` processes sharing one
`parallel.range(n)`, where iteration `i` executes the instruction list `code i`.
-/
namespace NutilsVerif.C16

/-- Clause "each loop iteration is executed exactly once", safety half — for ANY number of workers, ANY `n`,
ANY loop bodies and ALL schedules, including schedules in which workers are killed or raise at arbitrary
points: the iterations handed out so far are exactly `0, 1, …, idx-1`, each once and in this order, and
`idx ≤ n`; so no iteration is claimed twice and none `≥ n` is ever claimed. -/
theorem range_at_most_once {α : Type} [Add α] (N n : Nat) (code : Nat → List (Instr α)) (sh : Nat → α) (sl : Nat → Option α)
    (σ : List Ev) :
    let s := run N n code σ (init sh sl)
    s.claimed.map (·.2) = List.range s.idx ∧ s.idx ≤ n ∧ (s.claimed.map (·.2)).Nodup ∧ ∀ i ∈ s.claimed.map (·.2), i < n := by
  intro s
  have h : RInv n s := (RInv.init n sh sl).run σ
  refine ⟨h.claimed_eq, h.idx_le, ?_, ?_⟩
  · rw [h.claimed_eq]; exact List.nodup_range
  · rw [h.claimed_eq]; intro i hi; have := List.mem_range.1 hi; have := h.idx_le; omega

/-- Clause "each loop iteration is executed exactly once": in every complete run (every process left its loop
through `StopIteration`), under every schedule, the claimed iterations are exactly `0 … n-1`, each once. -/
theorem range_exactly_once {α : Type} [Add α] (N n : Nat) (hN : 0 < N) (code : Nat → List (Instr α)) (sh : Nat → α)
    (sl : Nat → Option α) (σ : List Ev) (hdone : AllDone N (run N n code σ (init sh sl))) :
    (run N n code σ (init sh sl)).claimed.map (·.2) = List.range n ∧
    ((run N n code σ (init sh sl)).claimed.map (·.2)).Perm (List.range n) := by
  have h : RInv n (run N n code σ (init sh sl)) := (RInv.init n sh sl).run σ
  have hidx := h.done_idx 0 (hdone 0 hN).1
  have := h.claimed_eq
  rw [hidx] at this
  exact ⟨this, by rw [this]⟩

/-- Mutual exclusion on the counter: in every reachable state at most one worker is between entering and
leaving `with self._lock`, and a worker that has read the counter inside the lock still sees the current value. -/
theorem range_mutex {α : Type} [Add α] (N n : Nat) (code : Nat → List (Instr α)) (sh : Nat → α) (sl : Nat → Option α)
    (σ : List Ev) (w w' : Nat) :
    let s := run N n code σ (init sh sl)
    ((s.pc w).crit = true → (s.pc w').crit = true → w = w') ∧ (∀ i, s.pc w = .read i → i = s.idx) := by
  intro s
  have h : RInv n s := (RInv.init n sh sl).run σ
  refine ⟨fun hw hw' => ?_, h.read_idx w⟩
  have h1 := (h.rlock_iff w).2 hw
  have h2 := (h.rlock_iff w').2 hw'
  rw [h1] at h2
  exact Option.some.inj h2

/-- Clause "all contributions to shared results are applied under mutual exclusion … same result as the
single-process run, up to summation order": if in every iteration every in-place accumulation into a shared
array happens while holding that array's lock (`Disciplined`), then for ANY number of workers and under ALL
schedules every complete run leaves in every shared array exactly the value of the serial loop
(values in an arbitrary commutative monoid: equality up to commutativity/associativity of `+` only). -/
theorem locked_accumulate_cam {α : Type} [CAM α] (N n : Nat) (hN : 0 < N) (code : Nat → List (Instr α)) (hc : Disciplined code)
    (sh : Nat → α) (sl : Nat → Option α) (σ : List Ev) (hdone : AllDone N (run N n code σ (init sh sl))) (a : Nat) :
    (run N n code σ (init sh sl)).shared a = (serial n code sh sl).1 a := by
  have key : ∀ (σ : List Ev) (s : State α), RInv n s → LInv s → PInv N n code (fun a => (serial n code sh sl).1 a) s →
      RInv n (run N n code σ s) ∧ PInv N n code (fun a => (serial n code sh sl).1 a) (run N n code σ s) := by
    intro σ
    induction σ with
    | nil => intro s hr _ hp; exact ⟨hr, hp⟩
    | cons e σ ih => intro s hr hl hp; exact ih _ (hr.applyEv e) (hl.applyEv hc e) (hp.applyEv hr hl e)
  obtain ⟨hr, hp⟩ := key σ (init sh sl) (RInv.init n sh sl) (LInv.init sh sl) ⟨.inr fun a => Phi_init N n code sh sl a⟩
  rcases hp.phi with ⟨w, hw, hf⟩ | hphi
  · rw [(hdone w hw).1] at hf; cases hf
  · rw [← hphi a, Phi_allDone hN hr hdone]

instance (α : Type) [AddCommMonoid α] : CAM α :=
  { add_assoc := add_assoc, add_comm := add_comm, add_zero := add_zero }

/-- `locked_accumulate_cam` for Mathlib's `AddCommMonoid` (ℤ: bit-identical; formal sums of float terms: equal up
to summation order). -/
theorem locked_accumulate {α : Type} [AddCommMonoid α] (N n : Nat) (hN : 0 < N) (code : Nat → List (Instr α))
    (hc : Disciplined code) (sh : Nat → α) (sl : Nat → Option α) (σ : List Ev)
    (hdone : AllDone N (run N n code σ (init sh sl))) (a : Nat) :
    (run N n code σ (init sh sl)).shared a = (serial n code sh sl).1 a :=
  locked_accumulate_cam N n hN code hc sh sl σ hdone a

/-- Why the lock is needed (and why `Disciplined` is not vacuous): the same in-place add without its lock loses an
update under a concrete schedule of two workers — both finish normally, the shared value is 1, the serial value 2. -/
theorem unlocked_lost_update :
    disc [] (cexCode 0) = false ∧ AllDone 2 (run 2 2 cexCode cexSched (init (fun _ => 0) (fun _ => none))) ∧
    (run 2 2 cexCode cexSched (init (fun _ => 0) (fun _ => none))).shared 0 = 1 ∧
    (serial 2 cexCode (fun _ => 0) (fun _ => none)).1 0 = 2 := by
  decide

/-- The static check decided on generated scripts is sufficient: if `lockOK` accepts a loop body, every execution
path through it (any number of repetitions of inner loops, any branch) is `disc`iplined. -/
theorem lockOK_sufficient {α : Type} (b : List BStmt) (h : lockOK b = true) (c : List (Instr α)) (hp : Path b c) :
    disc [] c = true := by
  have := path_disc hp [] [] h
  simpa [disc] using this

/-- End-to-end: a loop body accepted by `lockOK`, executed by any number of processes under any schedule along any
paths, leaves every shared array with the serial value. -/
theorem lockOK_parallel_eq_serial {α : Type} [AddCommMonoid α] (b : List BStmt) (h : lockOK b = true)
    (N n : Nat) (hN : 0 < N) (code : Nat → List (Instr α)) (hpath : ∀ i, Path b (code i))
    (sh : Nat → α) (sl : Nat → Option α) (σ : List Ev) (hdone : AllDone N (run N n code σ (init sh sl))) (a : Nat) :
    (run N n code σ (init sh sl)).shared a = (serial n code sh sl).1 a :=
  locked_accumulate N n hN code (fun i => lockOK_sufficient b h (code i) (hpath i)) sh sl σ hdone a

/-- Alias rule of the static check (clause "all contributions to a shared result are applied under mutual exclusion", for
updates that reach the shared array through a *view*): an in-place accumulation through ANY variable `x` whose only
allocation site is the shared array `v` allocated in front of the parallel loop — `x` may be `v` itself, a diagonal view
`numpy.einsum('...ii->...i', v)`, a transpose, a slice, a reshape, or a view of a view, bound anywhere — is classified as
`accum (arrayId v)`: `lockOK` rejects it bare and accepts it inside `with lock<id v>:`.  Together with `lockOK_sufficient`
and `locked_accumulate`, an accepted script applies every such update under the lock of the array it really modifies. -/
theorem alias_update_needs_lock (muts scratch : List String) (e : Env) (x v : String) (ix iv : VarInfo)
    (hx : e.get x = some ix) (hxl : ix.isLock = false) (hxr : ix.roots = [v])
    (hv : e.get v = some iv) (hvo : iv.outer = true) (hvs : iv.shared = true) (hs : scratch.contains v = false) :
    (clsS muts scratch e (.mutate true [x] [] [])).2 = [.accum (arrayId v)] ∧
    lockOK (clsS muts scratch e (.mutate true [x] [] [])).2 = false ∧
    lockOK [.withLock (arrayId v) (clsS muts scratch e (.mutate true [x] [] [])).2] = true := by
  rw [alias_accum muts scratch e x v ix iv hx hxl hxr hv hvo hvs hs]
  simp [lockOK, okL, okS]

/-- How a variable gets the allocation sites of a shared array: binding `x = <anything that is not certainly a new object>(v)`
(`RhsKind.view`; in front of the loop or inside it) makes `x` a name for the allocation site `v`, so by
`alias_update_needs_lock` the update `numpy.add(x, …, out=x)` needs `lock<id v>` — the situation of a diagonal view that is
created once and reused inside the loop. -/
theorem hoisted_view_is_shared (muts scratch : List String) (o : Bool) (e : Env) (x v : String) (iv : VarInfo)
    (hv : e.get v = some iv) (hvl : iv.isLock = false) (hvr : iv.roots = [v]) (hvo : iv.outer = true) (hvs : iv.shared = true)
    (hne : x ≠ v) (hs : scratch.contains v = false) :
    (clsS muts scratch (bindVar o e x .view [v]) (.mutate true [x] [] [])).2 = [.accum (arrayId v)] := by
  have hd : List.eraseDups [v] = [v] := rfl
  have h1 := view_inherits_roots o e x v iv hv hvl (by rw [hvr, hd]; simp)
  rw [hvr, hd] at h1
  have h2 : (bindVar o e x .view [v]).get v = some iv := by rw [bindVar_get_ne o e x v .view [v] hne]; exact hv
  exact alias_accum muts scratch _ x v _ iv h1 rfl rfl h2 hvo hvs hs

/-- the hypotheses of `hoisted_view_is_shared` are satisfiable: `v0 = parallel.shempty(..)` in front of the loop, `v1 = view(v0)` -/
example : (clsS [] [] (bindVar true (bindVar true [] "v0" .shalloc []) "v1" .view ["v0"]) (.mutate true ["v1"] [] [])).2 = [.accum (arrayId "v0")] :=
  hoisted_view_is_shared [] [] true _ "v1" "v0" _ (get_cons_self _ []) rfl rfl rfl rfl (by decide) rfl

/-- Plain stores need no lock when every slot belongs to one iteration (`ielems[ipoint] = …`, `points[ipoint] = …` in
`Topology._locate`; the private slice of `LoopConcatenate`): for ANY program (locks or not), any number of workers
and all schedules, a complete run leaves in every slot what the serial loop leaves there. -/
theorem disjoint_puts_serial {α : Type} [Add α] (N n : Nat) (hN : 0 < N) (code : Nat → List (Instr α)) (hu : UniquePuts code)
    (sh : Nat → α) (sl : Nat → Option α) (σ : List Ev) (hdone : AllDone N (run N n code σ (init sh sl))) (k : Nat) :
    (run N n code σ (init sh sl)).slots k = (serial n code sh sl).2 k := by
  obtain ⟨hr, hs⟩ := RSInv_run (N := N) hu σ (RInv.init n sh sl) (SInv.init N n code sh sl)
  obtain ⟨h1, h2⟩ := hs.final hN hr hdone
  by_cases hex : ∃ i v, i < n ∧ Instr.put k v ∈ code i
  · obtain ⟨i, v, hi, hp⟩ := hex
    rw [h1 i k v hi hp, serial_slots_some n code hu sh sl i k v hi hp]
  · have hno : ∀ i v, i < n → Instr.put k v ∉ code i := fun i v hi hp => hex ⟨i, v, hi, hp⟩
    rw [h2 k hno, serial_slots_none n code sh sl k hno]

/-- `_wait` reports success only for a normal exit with status 0 (raw `waitpid` status: low 7 bits and exit byte zero). -/
theorem wait_ok_iff (st : Nat) : statusOK st = true ↔ st % 128 = 0 ∧ (st / 256) % 256 = 0 := by
  unfold statusOK decodeStatus
  simp only
  split
  · rename_i h
    have h' : st % 128 = 0 := by simpa using h
    simp only [h', true_and]
    cases hk : (st / 256) % 256 <;> simp [waitOK]
  · rename_i h
    have h' : ¬ st % 128 = 0 := by simpa using h
    simp only [h', false_and, iff_false]
    split <;> (try split) <;> simp [waitOK]

/-- Clause "if a worker raises or is killed the call raises": in `_fork`, when the parent body finished and all
children terminated, any child that did not exit with status 0 (non-zero exit code, killed by a signal, …) makes
the `with` statement raise `fork failed in k out of nprocs`; the `with` returns normally iff the parent body
finished and every child exited with 0; and when the parent body raises all children are killed and it re-raises. -/
theorem fork_failure_propagates (cs : List ChildStatus) :
    (∀ p, forkResult p cs = .returns ↔ p = .ok ∧ ∀ c, c ∈ cs → c = .exited 0) ∧
    ((∀ c, c ∈ cs → c ≠ .running) → (∃ c, c ∈ cs ∧ c ≠ .exited 0) →
      ∃ k, 0 < k ∧ forkResult .ok cs = .forkFailed k (cs.length + 1)) ∧
    forkResult .raised cs = .reraises ((List.range cs.length).map (· + 1)) := by
  refine ⟨fun p => forkResult_returns_iff p cs, ?_, rfl⟩
  intro hterm ⟨c, hc, hne⟩
  have hnr : forkResult .ok cs ≠ .returns := fun h => hne (((forkResult_returns_iff _ cs).1 h).2 c hc)
  simp only [forkResult] at hnr ⊢
  split
  · rename_i h
    obtain ⟨c', hc', hn⟩ := List.any_eq_true.1 h
    exact absurd ((waitOK_none_iff c').1 hn) (hterm c' hc')
  · rename_i h
    rw [if_neg h] at hnr
    split
    · rename_i h0; rw [if_pos h0] at hnr; exact absurd rfl hnr
    · rename_i h0
      exact ⟨_, Nat.pos_of_ne_zero (by simpa using h0), rfl⟩

/-- Clause "… the call raises instead of returning a partial result", for the whole machine: under ALL schedules with
arbitrary kills and exceptions, whenever `with fork` returns normally, every process left its loop normally, all `n`
iterations were claimed exactly once, and (for a disciplined body) every shared array holds the serial value. -/
theorem never_returns_partial {α : Type} [AddCommMonoid α] (N n : Nat) (hN : 0 < N) (code : Nat → List (Instr α))
    (hc : Disciplined code) (sh : Nat → α) (sl : Nat → Option α) (σ : List Ev)
    (hret : outcome N (run N n code σ (init sh sl)) = .returns) :
    (run N n code σ (init sh sl)).claimed.map (·.2) = List.range n ∧
    ∀ a, (run N n code σ (init sh sl)).shared a = (serial n code sh sl).1 a := by
  have hd := (outcome_returns_iff hN _).1 hret
  exact ⟨(range_exactly_once N n hN code sh sl σ hd).1, fun a => locked_accumulate N n hN code hc sh sl σ hd a⟩

/-- A fault is never masked: once a worker has been killed or has raised before leaving its loop, no continuation of
the schedule makes `with fork` return normally. -/
theorem fault_never_returns {α : Type} [Add α] (N n : Nat) (hN : 0 < N) (code : Nat → List (Instr α)) (s : State α) (w : Nat)
    (hw : w < N) (hfault : s.dead w = true ∨ s.pc w = .failed) (σ : List Ev) :
    outcome N (run N n code σ s) ≠ .returns := by
  intro h
  have hd := (outcome_returns_iff hN _).1 h w hw
  rcases hfault with hk | hf
  · have := dead_run (N := N) (n := n) (code := code) σ hk
    rw [hd.2] at this; cases this
  · have := failed_run (N := N) (n := n) (code := code) σ hf
    rw [hd.1] at this; cases this

/-- a `kill` or `raise` event that hits a live worker produces such a fault -/
theorem fault_event_effective {α : Type} [Add α] (N n : Nat) (code : Nat → List (Instr α)) (s : State α) (w : Nat)
    (hw : w < N) (hlive : (s.pc w).finished = false) (hnd : s.dead w = false) :
    (applyEv N n code s (.kill w)).dead w = true ∧ (applyEv N n code s (.raise w)).pc w = .failed := by
  simp [applyEv, hw, hlive, hnd]

/-- nested forks are disabled: inside a `with fork` body `maxprocs.current` is 1, so every `fork(k)` degenerates to
`_DontFork`; and `ctxrange(name, nitems)` never starts more processes than there are items or than `maxprocs`. -/
theorem forkWidth_facts (k maxp : Nat) :
    forkWidth (some k) 1 = 1 ∧ forkWidth none 1 = 1 ∧ forkWidth (some k) maxp ≤ max 1 (min k maxp) ∧
    (1 < k → 1 < maxp → forkWidth (some k) maxp = min k maxp) := by
  simp only [forkWidth]
  refine ⟨?_, ?_, ?_, ?_⟩ <;> grind

/-- The hypotheses "complete run" of the theorems above are never vacuous: for every number of workers `N ≥ 1`, every `n` and every
disciplined program there is a schedule after which all processes have left their loops normally. -/
theorem complete_schedule_exists {α : Type} [Add α] (N n : Nat) (hN : 0 < N) (code : Nat → List (Instr α)) (hc : Disciplined code)
    (sh : Nat → α) (sl : Nat → Option α) : ∃ σ, AllDone N (run N n code σ (init sh sl)) :=
  complete_schedule_exists_aux hN hc sh sl

/-- Clause "locating gives the same result" for the failure path of `Topology._locate` (`skip_missing=False`): whichever workers
find missing points and start fast-forwarding, under ALL schedules every point up to and including the first missing one has been
processed when the loop is over — so `coords[ielems==-1][0]` names the same point as in the serial run (and with no missing point
every point is located). -/
theorem locate_first_missing (n : Nat) (miss : Nat → Bool) (σ : List LEv)
    (hidx : (lrun n miss σ linit).idx = n) (hcur : ∀ w, (lrun n miss σ linit).cur w = none)
    (i : Nat) (hi : i < n) (hbefore : ∀ j, j < i → miss j = false) :
    (lrun n miss σ linit).mark i = some (!miss i) := by
  have h : LocInv miss (lrun n miss σ linit) :=
    LocInv.run σ ⟨by simp [linit], by simp [linit], by simp [linit]⟩
  rcases h.done_or_running i (by omega) hbefore with hm | ⟨w, hw⟩
  · exact hm
  · rw [hcur w] at hw; cases hw


/-! ### the hypotheses are satisfiable -/

-- a disciplined body (`with lock0: numpy.add(v0, …, out=v0)`), two workers, three iterations, a complete schedule
example : Disciplined okCode ∧ AllDone 2 (run 2 3 okCode okSched (init (fun _ => 0) (fun _ => none))) ∧
    (run 2 3 okCode okSched (init (fun _ => 0) (fun _ => none))).shared 0 = 6 := by
  refine ⟨fun i => by simp [okCode, disc], ?_⟩
  decide +kernel

-- `lockOK` accepts the shape the generator emits and rejects the same body without the `with`
example : lockOK [.plain, .withLock 0 [.accum 0], .block [.plain, .withLock 0 [.accum 0]]] = true ∧
    lockOK [.plain, .accum 0] = false ∧ lockOK [.withLock 0 [.withLock 0 [.accum 0]]] = false := by decide

end NutilsVerif.C16
