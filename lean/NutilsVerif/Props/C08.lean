import NutilsVerif.Generated.C08
import NutilsVerif.Proofs.C08Algebra
import NutilsVerif.Proofs.C08Model
import NutilsVerif.Proofs.C08Spec
/-!
# C08 — differential-geometric operators obey their defining identities: property theorems

Three groups.

* (X) **table theorems** about `Generated/C08.lean`, the orientation / measure data of every reference element kind
  extracted from the real classes on every run (`decide +kernel` on exact rationals);
* **model theorems** about the mirrored constructors for *all* rational inputs (`Proofs/C08Model.lean`);
* **algebra theorems** (Mathlib `Matrix`, `MvPolynomial`) carrying the clauses of the property for all dimensions, all
  polynomial geometries and fields (`Proofs/C08Algebra.lean`), and the bridge from the executable specification
  (`MPoly`, `pderiv`, `evalP`) used by the driver to Mathlib's formal derivative (`Proofs/C08Spec.lean`).
-/
namespace NutilsVerif.C08
open Gen Matrix MvPolynomial

/-! ## (X) tables -/

/-- The mirrored constructors (`simplexEdge`, `tensorEdge1/2`, `simplexChild`, `tensorChild`, `numericExt`, volumes,
centroids) reproduce exactly what the real reference elements report: matrices, offsets, `ext`, `isflipped`,
edge / child references. -/
theorem model_eq_generated : ∀ p ∈ refTable, modelRec p.2.name p.1 = p.2 := by decide +kernel

/-- every extracted `ext` is `numeric.ext(linear)` negated iff `isflipped` -/
theorem ext_matches : ∀ p ∈ refTable, ∀ e ∈ p.2.edges, e.extMatchesB = true := by decide +kernel

/-- `linearᵀ · ext = 0` for every edge of every reference element: normals are orthogonal to the surface. -/
theorem ext_orthogonal : ∀ p ∈ refTable, ∀ e ∈ p.2.edges, e.orthB p.2 = true := by decide +kernel

/-- `(edge centroid − element centroid) · ext > 0` for every edge, with the sign bookkeeping of `isflipped` as the code
does it: normals point out of the element. -/
theorem ext_outward : ∀ p ∈ refTable, ∀ e ∈ p.2.edges, e.outwardB p.2 = true := by decide +kernel

/-- `det [ext | linear] = ± ext·ext` (minus iff `isflipped`) and `ext·ext = det(linearᵀ linear) > 0`: `|ext|` is the measure
scaling of the edge map (what `_Jacobian` computes on the boundary for the identity geometry), `isflipped` is the
orientation of `[outward | linear]`. -/
theorem ext_measure : ∀ p ∈ refTable, ∀ e ∈ p.2.edges, e.measureB p.2 = true := by decide +kernel

/-- `Σ_edges ext |edge| = 0` and `Σ_edges (x_c ⊗ ext) |edge| = volume · 1` for each reference element (in particular
`Σ (x_c · ext)|edge| = ndims · volume`): the reference boundary is closed — the divergence theorem for affine fields
on the reference element (see `divergence_theorem_affine_field`). -/
theorem boundary_closed_ref : ∀ p ∈ refTable, p.2.closedB = true := by decide +kernel

/-- `Σ_children |det linear| · |child ref| = |ref|`, all child vertices lie inside the parent and no child centroid lies
in another child: refinement tiles the element. -/
theorem children_tile : ∀ p ∈ refTable, p.2.childrenTileB p.1 = true := by decide +kernel

/-- every composite `child ∘ edge-of-child` (`ScaledUpdim`, `Matrix.__mul__`) is what the model computes, its `ext` is
orthogonal to it, points out of the child and has the orientation recorded in `isflipped = child.isflipped ^ edge.isflipped`. -/
theorem composite_sound : ∀ c ∈ compTable, c.okB = true := by decide +kernel

/-- every `swapup`/`swapdown` pair denotes the same affine map in both orders and the same side (root extension vector
of `child ∘ edge₂` has a positive component along `ext(edge)`): canonical and uppermost chains give the same normal. -/
theorem swap_consistent : ∀ s ∈ swapTable, s.okB = true := by decide +kernel

-- the tables are not empty: 8 reference kinds, 29 edges
example : refTable.length = 8 ∧ (refTable.map (·.2.edges.length)).sum = 29 ∧ compTable.length > 100 ∧ swapTable.length > 50 := by
  decide +kernel

/-! ## the model for all rational inputs -/

/-- `numeric.ext` is orthogonal to the columns, for every 2×1 / 3×2 rational matrix -/
theorem ext_orthogonal_all_2 (a b : Rat) : (numericExt [[a],[b]]).map (tMulVec [[a],[b]] 1) = some [0] :=
  numericExt_orth2 a b

theorem ext_orthogonal_all_3 (a b c d e f : Rat) :
    (numericExt [[a,b],[c,d],[e,f]]).map (tMulVec [[a,b],[c,d],[e,f]] 2) = some [0, 0] :=
  numericExt_orth3 a b c d e f

/-- `det [ext | A] = ext·ext = det(AᵀA)`: orientation and length of `numeric.ext`, every 2×1 / 3×2 rational matrix -/
theorem ext_measure_all_2 (a b : Rat) :
    ∃ x, numericExt [[a],[b]] = some x ∧ det 2 (prependCol x [[a],[b]]) = dot x x ∧ dot x x = det 1 (gram [[a],[b]] 1) :=
  numericExt_det2 a b

theorem ext_measure_all_3 (a b c d e f : Rat) :
    ∃ x, numericExt [[a,b],[c,d],[e,f]] = some x ∧ det 3 (prependCol x [[a,b],[c,d],[e,f]]) = dot x x
      ∧ dot x x = det 2 (gram [[a,b],[c,d],[e,f]] 2) :=
  numericExt_det3 a b c d e f

/-- `Updim.flipped` negates the extension vector (interfaces: opposite sides have opposite normals) -/
theorem flipped_negates_ext (u : Updim) : u.flipped.ext = u.ext.map vneg := ext_flipped u

/-- `TensorEdge1`: the sign rule `isflipped = trans1.isflipped` makes the product edge inherit the factor's `ext`, zero padded -/
theorem tensorEdge1_inherits_ext (a b : Rat) (o : Vec) (f : Bool) :
    (tensorEdge1 ⟨[[]], o, f⟩ 1).ext = (Updim.ext ⟨[[]], o, f⟩).map (· ++ [0]) ∧
    (tensorEdge1 ⟨[[]], o, f⟩ 2).ext = (Updim.ext ⟨[[]], o, f⟩).map (· ++ [0, 0]) ∧
    (tensorEdge1 ⟨[[a],[b]], o, f⟩ 1).ext = (Updim.ext ⟨[[a],[b]], o, f⟩).map (· ++ [0]) :=
  ⟨tensorEdge1_ext_0_1 o f, tensorEdge1_ext_0_2 o f, tensorEdge1_ext_1_1 a b o f⟩

/-- `TensorEdge2`: the sign rule `isflipped = trans2.isflipped ^ odd(ndims1)` makes the product edge inherit the
factor's `ext`, zero padded -/
theorem tensorEdge2_inherits_ext (a b : Rat) (o : Vec) (f : Bool) :
    (tensorEdge2 1 ⟨[[]], o, f⟩).ext = (Updim.ext ⟨[[]], o, f⟩).map ([0] ++ ·) ∧
    (tensorEdge2 2 ⟨[[]], o, f⟩).ext = (Updim.ext ⟨[[]], o, f⟩).map ([0, 0] ++ ·) ∧
    (tensorEdge2 1 ⟨[[a],[b]], o, f⟩).ext = (Updim.ext ⟨[[a],[b]], o, f⟩).map ([0] ++ ·) :=
  ⟨tensorEdge2_ext_1_0 o f, tensorEdge2_ext_2_0 o f, tensorEdge2_ext_1_1 a b o f⟩

/-- `ScaledUpdim` / `Matrix.__mul__` with `isflipped = child.isflipped ^ edge.isflipped`: for every child map `C` (any
orientation) and edge `E`, `(C v) · ext(C∘E) = |det C| (v · ext E)` — the composite's extension vector is on the image
of the side on which the edge's extension vector is. -/
theorem scaledUpdim_keeps_side_2 (p q r s a b : Rat) (oc oe : Vec) (f : Bool) (v0 v1 : Rat) :
    ∃ x y, (scaledUpdim ⟨[[p,q],[r,s]], oc⟩ ⟨[[a],[b]], oe, f⟩).ext = some x ∧ Updim.ext ⟨[[a],[b]], oe, f⟩ = some y ∧
      dot (matVec [[p,q],[r,s]] [v0, v1]) x = absRat (det 2 [[p,q],[r,s]]) * dot [v0, v1] y :=
  scaledUpdim_side_2 p q r s a b oc oe f v0 v1

theorem scaledUpdim_keeps_side_3 (c00 c01 c02 c10 c11 c12 c20 c21 c22 a b c d e g : Rat) (oc oe : Vec) (f : Bool) (v0 v1 v2 : Rat) :
    ∃ x y, (scaledUpdim ⟨[[c00,c01,c02],[c10,c11,c12],[c20,c21,c22]], oc⟩ ⟨[[a,b],[c,d],[e,g]], oe, f⟩).ext = some x ∧
      Updim.ext ⟨[[a,b],[c,d],[e,g]], oe, f⟩ = some y ∧
      dot (matVec [[c00,c01,c02],[c10,c11,c12],[c20,c21,c22]] [v0, v1, v2]) x
        = absRat (det 3 [[c00,c01,c02],[c10,c11,c12],[c20,c21,c22]]) * dot [v0, v1, v2] y :=
  scaledUpdim_side_3 c00 c01 c02 c10 c11 c12 c20 c21 c22 a b c d e g oc oe f v0 v1 v2

/-- the model of `Orthonormal` (before normalisation) in codimension 1, as `_Normal` uses it -/
theorem orthonormal_model_2 (a b n0 n1 : Rat) (h : a*a + b*b ≠ 0) :
    (projectOut [[a],[b]] 1 [n0, n1]).map (tMulVec [[a],[b]] 1) = some [0] := projectOut_orth_2_1 a b n0 n1 h

theorem orthonormal_model_3 (a b c d e f n0 n1 n2 : Rat)
    (h : (a*a + c*c + e*e) * (b*b + d*d + f*f) - (a*b + c*d + e*f) * (a*b + c*d + e*f) ≠ 0) :
    (projectOut [[a,b],[c,d],[e,f]] 2 [n0, n1, n2]).map (tMulVec [[a,b],[c,d],[e,f]] 2) = some [0, 0] :=
  projectOut_orth_3_2 a b c d e f n0 n1 n2 h

/-- the model of `_Gradient` solves `g · J = df` (2 × 2) -/
theorem gradient_model_2 (j00 j01 j10 j11 d0 d1 : Rat) (h : j00*j11 - j01*j10 ≠ 0) :
    (gradientRow [d0, d1] [[j00,j01],[j10,j11]] 2).map (tMulVec [[j00,j01],[j10,j11]] 2) = some [d0, d1] :=
  gradientRow_2 j00 j01 j10 j11 d0 d1 h

/-! ## algebra: all dimensions, all polynomial maps and fields -/

section
variable {K : Type*} [Field K] {n k : Type*} [Fintype n] [Fintype k] [DecidableEq n] [DecidableEq k]

omit [DecidableEq n] in
/-- `orthonormal_spec`: for `G` with invertible `GᵀG`, `w = v − G (GᵀG)⁻¹ Gᵀ v` satisfies `Gᵀ w = 0` (the normal is
orthogonal to every surface tangent), `v · w = w · w` (it stays on the side of `v`, i.e. of the mapped `ext`), tangential
vectors are annihilated, and dividing by a square root of `w · w` gives a unit vector. -/
theorem orthonormal_spec (G : Matrix n k K) (v : n → K) (h : IsUnit (Gᵀ * G).det) :
    Gᵀ *ᵥ Alg.projOut G v = 0 ∧ v ⬝ᵥ Alg.projOut G v = Alg.projOut G v ⬝ᵥ Alg.projOut G v ∧
    (∀ c, Alg.projOut G (G *ᵥ c) = 0) ∧
    (∀ s : K, s * s = Alg.projOut G v ⬝ᵥ Alg.projOut G v → s ≠ 0 →
      (s⁻¹ • Alg.projOut G v) ⬝ᵥ (s⁻¹ • Alg.projOut G v) = 1) :=
  ⟨Alg.projOut_orthogonal G v h, Alg.projOut_same_side G v h, fun c => Alg.projOut_tangent G c h,
   fun s hs h0 => Alg.normalize_unit _ s hs h0⟩

omit [DecidableEq n] in
/-- outwardness of `_Normal` for every (affine or pointwise linearised) geometry: with `G` the mapped edge tangents and
`ν = dx · ext` the mapped extension vector, the un-normalised normal `w` satisfies `w · (G c + t ν) = t (w · w)`: it has a positive
component along the image of every vector that has a positive `ext`-component, i.e. that leaves the element through the edge
(`ext_outward` says that `ext` itself is such a vector in the reference element). -/
theorem normal_points_to_ext_side (G : Matrix n k K) (ν : n → K) (c : k → K) (t : K) (h : IsUnit (Gᵀ * G).det) :
    Alg.projOut G ν ⬝ᵥ (G *ᵥ c + t • ν) = t * (Alg.projOut G ν ⬝ᵥ Alg.projOut G ν) := Alg.projOut_side G ν c t h

/-- refinement / parametrisation independence of `_Gradient`: whatever invertible chain map `L` the root derivatives
are expressed in, `(df L⁻¹)(dx L⁻¹)⁻¹ = df dx⁻¹` -/
theorem gradient_indep_of_chain (df : n → K) (dx L : Matrix n n K) (hL : IsUnit L.det) :
    (df ᵥ* L⁻¹) ᵥ* (dx * L⁻¹)⁻¹ = df ᵥ* dx⁻¹ := Alg.gradient_indep_of_chain df dx L hL

/-- function and geometry living on different (e.g. differently refined) elements: only `L₁⁻¹ L₂ = du₁/du₂` enters -/
theorem gradient_two_charts (df : n → K) (dx L₁ L₂ : Matrix n n K) (h₂ : IsUnit L₂.det) :
    (df ᵥ* L₁⁻¹) ᵥ* (dx * L₂⁻¹)⁻¹ = (df ᵥ* (L₁⁻¹ * L₂)) ᵥ* dx⁻¹ := Alg.gradient_two_charts df dx L₁ L₂ h₂

omit [DecidableEq n] in
/-- `_SurfaceGradient` is the tangential projection of the full gradient, and it is tangential -/
theorem surfgrad_spec (G : Matrix n k K) (gradF : n → K) :
    (gradF ᵥ* G) ᵥ* ((Gᵀ * G)⁻¹ * Gᵀ) = gradF - Alg.projOut G gradF ∧
    ∀ (df : k → K) (ν : n → K), Gᵀ *ᵥ ν = 0 → (df ᵥ* ((Gᵀ * G)⁻¹ * Gᵀ)) ⬝ᵥ ν = 0 :=
  ⟨Alg.surfgrad_eq_tangential_projection G gradF, fun df ν hν => Alg.surfgrad_tangential G df ν hν⟩

/-- both branches of `sqrt_abs_det_gram` agree on square Jacobians: `det(JᵀJ) = det(J)²` -/
theorem det_gram_square (J : Matrix n n K) : (Jᵀ * J).det = J.det * J.det := Alg.det_gram_square J

omit [Fintype k] [DecidableEq k] in
/-- the tangents `_Normal` feeds to `Orthonormal` are the tip derivative of the geometry (`_Jacobian`'s matrix) -/
theorem normal_tangents_eq_tip_derivative (dx Lt : Matrix n n K) (Lrel : Matrix n k K) (h : IsUnit Lt.det) :
    (dx * Lt⁻¹) * (Lt * Lrel) = dx * Lrel := Alg.normal_tangents_eq_tip_derivative dx Lt Lrel h

end

section
variable {K : Type*} [Field K] {σ : Type*} [Fintype σ] [DecidableEq σ]

/-- `grad_chain`: formal chain rule for a polynomial `p` and a polynomial geometry `x` (any degree, any dimension):
`∂ⱼ(p ∘ x) = Σᵢ (∂ᵢp) ∘ x · ∂ⱼxᵢ` -/
theorem grad_chain {τ : Type*} (x : σ → MvPolynomial τ K) (p : MvPolynomial σ K) (j : τ) :
    MvPolynomial.pderiv j (bind₁ x p) = ∑ i, bind₁ x (MvPolynomial.pderiv i p) * MvPolynomial.pderiv j (x i) :=
  Alg.pderiv_bind₁ x p j

/-- `grad_chain_affine` and beyond: at every point where the Jacobian of the polynomial geometry is invertible, what
`_Gradient.lower` computes — `dfunc_dref ᵥ* (dgeom_dref)⁻¹` — equals `(∇p)(x(ξ))`: the gradient of `p(x)` with respect
to `x` is `p'(x)`. -/
theorem gradient_of_polynomial (x : σ → MvPolynomial σ K) (p : MvPolynomial σ K) (ξ : σ → K)
    (h : IsUnit (Alg.jacAt x ξ).det) :
    Alg.dcompAt x p ξ ᵥ* (Alg.jacAt x ξ)⁻¹ = Alg.gradAt x p ξ := Alg.gradient_eq x p ξ h

end

/-- `jacobian_change_of_variables_affine`: `Σ w f(x(ξ)) |det A|` is invariant under affine reparametrisation of the
reference domain (ordered field). Curved maps are not covered by a theorem (harness: numeric). -/
theorem jacobian_change_of_variables_affine {K : Type*} [Field K] [LinearOrder K] [IsStrictOrderedRing K]
    {n : Type*} [Fintype n] [DecidableEq n] {ι : Type*}
    (s : Finset ι) (w : ι → K) (f : (n → K) → K) (A B : Matrix n n K)
    (a c : n → K) (ξ η : ι → n → K) (hB : B.det ≠ 0) (hpts : ∀ q, ξ q = B *ᵥ η q + c) :
    ∑ q ∈ s, (w q / |B.det|) * f (A *ᵥ (B *ᵥ η q + c) + a) * |(A * B).det| = ∑ q ∈ s, w q * f (A *ᵥ ξ q + a) * |A.det| :=
  Alg.jacobian_change_of_variables_affine s w f A B a c ξ η hB hpts

/-- divergence theorem for affine fields on any closed polytope whose facets satisfy the identities that
`boundary_closed_ref` proves for every reference element -/
theorem divergence_theorem_affine_field {K : Type*} [CommRing K] {n : Type*} [Fintype n] [DecidableEq n] {ι : Type*}
    (s : Finset ι) (xc ν : ι → n → K) (V : K) (M : Matrix n n K) (c : n → K)
    (h0 : ∀ i, ∑ e ∈ s, ν e i = 0) (h1 : ∀ i j, ∑ e ∈ s, xc e j * ν e i = if i = j then V else 0) :
    ∑ e ∈ s, (M *ᵥ xc e + c) ⬝ᵥ ν e = M.trace * V :=
  Alg.divergence_theorem_affine_field s xc ν V M c h0 h1

/-! ## the executable specification is Mathlib's formal derivative -/

/-- the driver's `pderiv` on term lists is `MvPolynomial.pderiv` -/
theorem spec_pderiv (i : Nat) (p : MPoly) : Spec.toMv (pderiv i p) = MvPolynomial.pderiv i (Spec.toMv p) :=
  Spec.toMv_pderiv i p

/-- the driver's `evalP` over the rationals is `MvPolynomial.eval` (variables beyond the point's length do not occur) -/
theorem spec_eval (x : List Rat) (p : MPoly) (h : ∀ t ∈ p, t.2.length ≤ x.length) :
    evalP ratOps x p = MvPolynomial.eval (fun i => x.getD i 0) (Spec.toMv p) := Spec.evalP_eq x p h

-- hypotheses are satisfiable / statements are not vacuous
example : IsUnit ((!![2, 1; (1:ℚ)/2, -1])ᵀ * !![2, 1; (1:ℚ)/2, -1]).det := by
  rw [Alg.det_gram_square]; simp [Matrix.det_fin_two]; norm_num
example : pderiv 0 [(3, [2, 1])] = [(6, [1, 1])] := by decide +kernel
example : evalP ratOps [2, 5] [(3, [2, 1])] = 60 := by decide +kernel

end NutilsVerif.C08
