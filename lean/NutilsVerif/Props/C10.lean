import NutilsVerif.Proofs.C10b
import NutilsVerif.Proofs.C10c
import NutilsVerif.Proofs.C10d
/-!
# C10 — topology operations conserve the domain: property theorems

All statements are about the executable model in `Model/C10.lean`, which the harness (`harness/nvh/c10.py`)
ties to `nutils.topology` / `nutils.element` on every run.
-/
namespace NutilsVerif.C10

/-! ## (a) hierarchical refinement: for every history, nothing is lost, duplicated or overlapping -/

/-- **hier_partition (general base).**  Start from any duplicate-free set of level-0 cells (a structured
topology, or any slice / selection of one) and apply ANY history of `refined` / `refined_by(any index list)`
(negative indices count from the end; an index outside the element range aborts the history with an IndexError,
there is then no result).  Whenever the history has a result: no active cell is another active cell or an
ancestor of one (elements do not overlap, none is duplicated), and the total measure is conserved: in units of a
level-`L` cell, `Σ 2^(d(L-level)) = #base · 2^(dL)` for every `L` at least as fine as the finest active level. -/
theorem hier_partition_bases (d : Nat) (bases : List (List Nat)) (hb : bases.Nodup) (ops : List Op) (cells : List Cell)
    (hr : runFrom d bases ops = .ok cells) :
    cells.Pairwise Apart ∧
    ∀ L, (∀ c ∈ cells, c.level ≤ L) → measure d L cells = bases.length * 2 ^ (d * L) :=
  isPartition_runFrom d bases hb ops cells hr

/-- **hier_partition.**  The same for a full `shape` grid (`mesh.rectilinear(shape)`): the active cells of every
history cover the base exactly, `Σ 2^(d(L-level)) = (Π shape) · 2^(dL)`, and are pairwise non-overlapping. -/
theorem hier_partition (shape : List Nat) (ops : List Op) (cells : List Cell) (hr : run shape ops = .ok cells) :
    cells.Pairwise Apart ∧
    ∀ L, (∀ c ∈ cells, c.level ≤ L) →
      measure shape.length L cells = shape.foldr (· * ·) 1 * 2 ^ (shape.length * L) := by
  have h := isPartition_runFrom shape.length (multiIndices shape) (nodup_multiIndices shape) ops cells hr
  rw [length_multiIndices] at h
  exact h

/-- no element occurs twice after any history (a special case of non-overlap) -/
theorem hier_nodup (shape : List Nat) (ops : List Op) (cells : List Cell) (hr : run shape ops = .ok cells) : cells.Nodup := by
  have h := (hier_partition shape ops cells hr).1
  unfold List.Nodup
  refine h.imp (fun {a b} hab heq => ?_)
  subst heq
  exact hab.1 ⟨rfl, List.prefix_refl _⟩

/-- a history only fails on an index error: histories whose `refined_by` indices are all in range
(`-len ≤ i < len` at the time of the call) always have a result, so the theorems above are not vacuous -/
theorem hier_step_ok (d : Nat) (cells : List Cell) (sel : List Int)
    (h : ∀ i ∈ sel, -(cells.length : Int) ≤ i ∧ i < cells.length) : ∃ cells', step d cells (.refinedBy sel) = .ok cells' := by
  have : ∃ s, sel.mapM (normIndex cells.length) = some s := by
    induction sel with
    | nil => exact ⟨[], rfl⟩
    | cons a t ih =>
      obtain ⟨s, hs⟩ := ih (fun i hi => h i (List.mem_cons_of_mem _ hi))
      have ha := h a List.mem_cons_self
      have : ∃ j, normIndex cells.length a = some j := by
        unfold normIndex
        by_cases h0 : a < 0
        · have hc : 0 ≤ a + ↑cells.length ∧ a + ↑cells.length < ↑cells.length := by omega
          exact ⟨(a + ↑cells.length).toNat, by simp only [h0, if_true, hc, and_self]⟩
        · have hc : 0 ≤ a ∧ a < ↑cells.length := by omega
          exact ⟨a.toNat, by simp only [h0, if_false, hc, and_self, if_true]⟩
      obtain ⟨j, hj⟩ := this
      exact ⟨j :: s, by simp [List.mapM_cons, hj, hs]⟩
  obtain ⟨s, hs⟩ := this
  exact ⟨canon d (refineSel d cells s), by simp only [step, hs]⟩

/-- one refinement step conserves the measure of every single element: the `2^d` children of a cell weigh
exactly as much as the cell -/
theorem refine_measure (d L : Nat) (c : Cell) (h : c.level + 1 ≤ L) :
    measure d L (children d c) = weight d L c :=
  measure_children d L c h

/-- **`&` of two hierarchical topologies over the same base** (`HierarchicalTopology.__and__`, keeping on either
side the elements that lie inside an element of the other side): if neither operand has overlapping elements,
the result has none either — in particular no element is listed twice.  (That the result also covers the common
domain is checked on the real code by exact recomputation, not proved.) -/
theorem hand_partial (d : Nat) (A B : List Cell) (hA : A.Pairwise Apart) (hB : B.Pairwise Apart) :
    (hand d A B).Pairwise Apart :=
  hand_pairwise d A B hA hB

-- the hypotheses are satisfiable / the statement is not vacuous: a 2x3 grid, two refined_by steps and a uniform one
example : (run [2, 3] [.refinedBy [0, 4], .refinedBy [1, -7, 9], .refined]).toOption.map List.length = some 84 := by decide
example : (run [2, 3] [.refinedBy [0, 4], .refinedBy [1, -7, 9], .refined]).toOption.map (fun cs => cs.all (·.level ≤ 3)) = some true := by decide
example : (run [2, 3] [.refinedBy [0, 4], .refinedBy [1, -7, 9], .refined]).toOption.map (measure 2 3) = some (6 * 2 ^ (2 * 3)) := by decide
example : (run [2, 3] [.refinedBy [6]]).toOption = none := by decide

/-! ## (b) faces of an arbitrary cell subset of a structured, optionally periodic grid -/

/-- the connectivity table is symmetric and closed: if `j` is the neighbour of `i` across side `s` of axis `k`
then `j` is a cell of the grid and `i` is its neighbour across the opposite side (also across a periodic seam) -/
theorem grid_connectivity_symm (g : Grid) {k : Nat} (hk : k < g.dim) {i j : List Nat} (hi : i ∈ g.cells) {s : Bool}
    (h : g.nbr k s i = some j) : j ∈ g.cells ∧ g.nbr k (!s) j = some i :=
  nbr_symm hk hi h

/-- **grid_faces, boundary part.**  For every subset `S`: the boundary lists exactly the faces of selected cells
that have no selected neighbour across them (outside the grid, or deselected), each once. -/
theorem grid_boundary_iff (g : Grid) (S : List Nat → Bool) :
    (g.boundary S).Nodup ∧ ∀ i k s, (i, k, s) ∈ g.boundary S ↔
      (i ∈ g.cells ∧ S i = true ∧ k < g.dim ∧ ∀ j, g.nbr k s i = some j → S j = false) := by
  refine ⟨nodup_boundary g S, fun i k s => ?_⟩
  rw [mem_boundary, isBnd_eq]
  constructor
  · rintro ⟨h1, h2, h3, h4⟩
    refine ⟨h1, h2, h3, fun j hj => ?_⟩
    rw [hj] at h4
    simpa using h4
  · rintro ⟨h1, h2, h3, h4⟩
    refine ⟨h1, h2, h3, ?_⟩
    cases hn : g.nbr k s i with
    | none => rfl
    | some j => simp [h4 j hn]

/-- **grid_faces, interfaces are sound.**  Every listed interface is a face of a selected cell `i` whose listed
opposite `j` is a selected cell, is the neighbour of `i` across that face, and sees `i` across the opposite side. -/
theorem grid_interfaces_sound (g : Grid) (S : List Nat → Bool) {i j : List Nat} {k : Nat} {s : Bool}
    (h : (i, k, s, j) ∈ g.interfaces S) :
    i ∈ g.cells ∧ j ∈ g.cells ∧ S i = true ∧ S j = true ∧ k < g.dim ∧ g.nbr k s i = some j ∧ g.nbr k (!s) j = some i := by
  obtain ⟨h1, h2, h3, h4, h5, _⟩ := mem_interfaces.1 h
  obtain ⟨h6, h7⟩ := nbr_symm h3 h1 h4
  exact ⟨h1, h6, h2, h5, h3, h4, h7⟩

/-- **grid_faces, every interior face exactly once.**  For every subset `S` and every interior face of `S`
(the `+` face of axis `k` of a selected cell `i` whose neighbour `j ≠ i` is selected): the face occurs in the
interfaces exactly once — either from `i`'s side with opposite `j`, or from `j`'s side with opposite `i`, never
both and never twice. -/
theorem grid_interfaces_once (g : Grid) (S : List Nat → Bool) {i j : List Nat} {k : Nat}
    (hi : i ∈ g.cells) (hk : k < g.dim) (hS : S i = true) (hn : g.up k i = some j) (hSj : S j = true) (hne : i ≠ j) :
    (g.interfaces S).count (i, k, true, j) + (g.interfaces S).count (j, k, false, i) = 1 := by
  have hn' : g.nbr k true i = some j := by simpa [Grid.nbr] using hn
  obtain ⟨hj, hback⟩ := nbr_symm hk hi hn'
  have hback' : g.nbr k false j = some i := by simpa using hback
  have hii := List.idxOf_lt_length_of_mem hi
  have hjj := List.idxOf_lt_length_of_mem hj
  have hidx : g.cells.idxOf i ≠ g.cells.idxOf j := by
    intro h
    have e1 := List.getElem_idxOf hii
    have e2 := List.getElem_idxOf hjj
    apply hne
    rw [← e1, ← e2]
    simp only [h]
  have m1 : (i, k, true, j) ∈ g.interfaces S ↔ g.cells.idxOf j < g.cells.idxOf i := by
    rw [mem_interfaces]
    exact ⟨fun h => h.2.2.2.2.2, fun h => ⟨hi, hS, hk, hn', hSj, h⟩⟩
  have m2 : (j, k, false, i) ∈ g.interfaces S ↔ g.cells.idxOf i < g.cells.idxOf j := by
    rw [mem_interfaces]
    exact ⟨fun h => h.2.2.2.2.2, fun h => ⟨hj, hSj, hk, hback', hS, h⟩⟩
  have c1 := (nodup_interfaces g S).count (a := (i, k, true, j))
  have c2 := (nodup_interfaces g S).count (a := (j, k, false, i))
  by_cases hlt : g.cells.idxOf j < g.cells.idxOf i
  · have hn2 : ¬ g.cells.idxOf i < g.cells.idxOf j := by omega
    rw [if_pos (m1.2 hlt)] at c1
    rw [if_neg (fun h => hn2 (m2.1 h))] at c2
    omega
  · have hlt2 : g.cells.idxOf i < g.cells.idxOf j := by omega
    rw [if_neg (fun h => hlt (m1.1 h))] at c1
    rw [if_pos (m2.2 hlt2)] at c2
    omega

/-- **grid_faces, closedness.**  For every subset `S` and every axis: the boundary has as many faces with outward
normal `+e_k` as with `-e_k` (all faces of one level have the same measure), i.e. `Σ_boundary n = 0` componentwise. -/
theorem grid_boundary_closed (g : Grid) (S : List Nat → Bool) {k : Nat} (hk : k < g.dim) :
    g.bndCount S k true = g.bndCount S k false := by
  rw [bndCount_eq g S hk, bndCount_eq g S hk]
  have hup := length_filter_and_add g.cells S (fun i => (g.nbr k true i).any S)
  have hdn := length_filter_and_add g.cells S (fun i => (g.nbr k false i).any S)
  have hbij := length_filter_up_eq_down g.cells (nodup_multiIndices _) S (g.nbr k true) (g.nbr k false)
    (fun a ha b hb => by simpa using nbr_symm hk ha hb)
    (fun b hb a ha => by simpa using nbr_symm hk hb ha)
  omega

-- non-vacuity: a 3x4 grid periodic in the first axis, an L-shaped selection
example : ([0, 1] : List Nat) ∈ (⟨[3, 4], [true, false]⟩ : Grid).cells := by decide
example : (⟨[3, 4], [true, false]⟩ : Grid).up 0 [2, 1] = some [0, 1] := by decide
example : ((⟨[3, 4], [true, false]⟩ : Grid).interfaces (fun i => i.getD 1 0 < 2 || i.getD 0 0 == 0)).length = 11 := by decide
example : (⟨[3, 4], [true, false]⟩ : Grid).bndCount (fun i => i.getD 1 0 < 2 || i.getD 0 0 == 0) 1 true = 3 := by decide

/-! ## (c) 1-D trimming -/

/-- **trim1d_partition.**  For every sample of `2^maxrefine + 1` level-set values, every `maxrefine` and every
`ndivisions`: the trimmed reference and its complement `baseref - ref` (what `topo - topo.trim(…)` uses) have
volumes adding up to the volume of the element, and they expose the same cut points with opposite orientation. -/
theorem trim1d_partition (ndiv m : Nat) (lv : List Int) (hl : lv.length = 2 ^ m + 1) :
    vol ndiv m (trim1 ndiv m lv) + vol ndiv m (compl (trim1 ndiv m lv)) = 2 ^ m * 2 ^ ndiv ∧
    ∀ o, cuts ndiv m o (compl (trim1 ndiv m lv)) = (cuts ndiv m o (trim1 ndiv m lv)).map fun p => (p.1, !p.2) :=
  ⟨vol_compl ndiv _ m (wf_trim1 ndiv m lv hl), fun o => cuts_compl ndiv _ m o⟩

/-- **trim1d_partition, negated level set.**  If no two neighbouring samples vanish together, trimming with the
negated level set gives exactly the complement reference; hence positive and negative part partition the element
and share the cut with opposite orientation.  (With two neighbouring zero samples both signs keep the element:
`trim1d_zero_block` below — the hypothesis is necessary.) -/
theorem trim1d_partition_neg (ndiv m : Nat) (lv : List Int) (hl : lv.length = 2 ^ m + 1) (hz : noZeroPair lv) :
    trim1 ndiv m (lv.map (- ·)) = compl (trim1 ndiv m lv) ∧
    vol ndiv m (trim1 ndiv m lv) + vol ndiv m (trim1 ndiv m (lv.map (- ·))) = 2 ^ m * 2 ^ ndiv ∧
    ∀ o, cuts ndiv m o (trim1 ndiv m (lv.map (- ·))) = (cuts ndiv m o (trim1 ndiv m lv)).map fun p => (p.1, !p.2) := by
  have h := trim1_neg ndiv m lv hl hz
  rw [h]
  exact ⟨rfl, (trim1d_partition ndiv m lv hl).1, (trim1d_partition ndiv m lv hl).2⟩

/-- the hypothesis of `trim1d_partition_neg` cannot be dropped: a level set that vanishes at two neighbouring
samples is kept by both signs (the element is counted twice) -/
theorem trim1d_zero_block :
    vol 3 1 (trim1 3 1 [1, 0, 0]) + vol 3 1 (trim1 3 1 ([1, 0, 0].map (- ·))) = 2 ^ 1 * 2 ^ 3 ∧
    vol 3 2 (trim1 3 2 [1, -1, 0, 0, 0]) + vol 3 2 (trim1 3 2 ([1, -1, 0, 0, 0].map (- ·))) ≠ 2 ^ 2 * 2 ^ 3 := by
  decide

/-- the trimmed reference is always well formed: cuts lie strictly inside a leaf, and children are never
collapsible — in particular `0 ≤ vol ≤ |elem|` -/
theorem trim1d_wf (ndiv m : Nat) (lv : List Int) (hl : lv.length = 2 ^ m + 1) : WF ndiv m (trim1 ndiv m lv) :=
  wf_trim1 ndiv m lv hl

-- non-vacuity
example : trim1 3 2 [-3, -1, 1, 3, 5] = .kids (.kids .empty (.cut true 4)) .full := by decide
example : noZeroPair [-3, -1, 1, 3, 5] := by simp [noZeroPair]

/-! ## (d) axis arithmetic of structured topologies: refinement, slices and boundary layers of (periodic) directions -/

/-- **axis_refined_children.**  Uniform refinement of a direction of a structured topology (`DimAxis.refined`), for EVERY
start, length and modulus (periodic or sliced-periodic directions included): the axis has twice as many cells, and elements
`2e`, `2e+1` of the refined axis are the two children (cell indices `2·index`, `2·index + 1`) of element `e`. -/
theorem axis_refined_children (a : Axis) (hd : a.isdim = true) (e c : Int) (hc0 : 0 ≤ c) (hc1 : c ≤ 1) :
    a.refined.len = 2 * a.len ∧ a.refined.map (2 * e + c) = 2 * a.map e + c :=
  ⟨Axis.len_refined_dim a hd, Axis.map_refined_dim a hd e c hc0 hc1⟩

/-- **axis_refined_boundary_child.**  Refinement of a boundary layer (`IntAxis.refined` of an axis with one cell): the refined
layer still has one cell, and it is the child ON THE SIDE OF THE LAYER of the cell that owned the coarse layer — for every
modulus, i.e. also at the ends of a slice of a periodic direction.  (Needs the doubled modulus: `axis_stale_modulus`.) -/
theorem axis_refined_boundary_child (a : Axis) (hd : a.isdim = false) (hl : a.len = 1) :
    a.refined.len = 1 ∧ a.refined.map 0 = 2 * a.map 0 + a.sideInt := by
  refine ⟨by rw [Axis.len_refined_int a hd, hl]; rfl, ?_⟩
  simpa using Axis.map_refined_int a hd 0

/-- **axis_refined_layer.**  The same for interface layers of any length: every second cell of the refined layer is the child
on the side of the layer of the corresponding coarse cell. -/
theorem axis_refined_layer (a : Axis) (hd : a.isdim = false) (e : Int) :
    a.refined.len = 2 * a.len - 1 ∧ a.refined.map (2 * e) = 2 * a.map e + a.sideInt :=
  ⟨Axis.len_refined_int a hd, Axis.map_refined_int a hd e⟩

/-- **axis_slice.**  A slice `[start, stop)` of a direction enumerates exactly the cells `start … stop-1` of that direction
(modulus kept), and its two boundary layers sit on its first cell (low side) and its last cell (high side). -/
theorem axis_slice (a : Axis) (s t e : Int) :
    (a.getitem s t).len = t - s ∧ (a.getitem s t).map e = a.map (s + e) ∧
    (a.getitem s t).boundaries.map (fun b => (b.map 0, b.flag, b.len)) =
      [((a.getitem s t).map 0, false, 1), ((a.getitem s t).map ((a.getitem s t).len - 1), true, 1)] := by
  have h1 : a.i + s + e = a.i + (s + e) := by omega
  have h2 : a.i + s + (a.i + t - (a.i + s) - 1) = a.i + t - 1 := by omega
  refine ⟨by simp only [Axis.getitem, Axis.len]; omega, ?_, ?_⟩
  · simp only [Axis.getitem, Axis.map, h1]
  · simp only [Axis.boundaries, Axis.getitem, Axis.map, Axis.len, Bool.false_eq_true, if_false, List.map_cons, List.map_nil, h2,
      Int.add_zero]
    split <;> simp <;> omega

/-- the doubled modulus in `IntAxis.refined` is necessary: with the unrefined modulus the refined right end layer of the
slice `[2, 3)` of a periodic direction of 4 cells lands on fine cell 1 instead of fine cell 5 -/
theorem axis_stale_modulus :
    let a : Axis := { i := 2, j := 3, mod := 4, isdim := false, flag := true }
    a.refined.map 0 = 5 ∧ ({ a.refined with mod := a.mod } : Axis).map 0 = 1 := by
  decide

-- non-vacuity: a slice of a periodic direction, its right end layer, refined
example : ((({ i := 0, j := 4, mod := 4, isdim := true, flag := true } : Axis).getitem 1 3).boundaries.map fun b => b.refined.cells) = [[2], [5]] := by decide

end NutilsVerif.C10
