import NutilsVerif.Proofs.C13Subst
import NutilsVerif.Proofs.C13Spec
import NutilsVerif.Proofs.C13Lin
import NutilsVerif.Proofs.C13Factor
import NutilsVerif.Proofs.C13Degree
import NutilsVerif.Proofs.C13Ravel
/-!
# C13 — argument manipulation commutes with evaluation: the theorems

Quantifier of the property: *for all function arrays, all replacement maps (including chains and swaps), all
argument values, all spellings of the specification*.  On the model (`Model/C13.lean`):

* clause "replace(f, x:g) at A equals f at A with x bound to the value of g":
  `subst_eval`, `subst_swap`, `subst_chain`, `shallow_replace_computes_subst`, `subst_arguments`,
  `deep_replace_differs_on_swap` (why re-visiting replaced subtrees would be wrong);
* clause "all documented spellings are equivalent, wrong shape or dtype rejected":
  `argspec_equiv`, `argspec_sound`, `argspec_skips_absent`, `argspec_wrong_sig_rejected`,
  `join_arguments_spec`, `replace_announces_arguments`;
* clause "linearize equals the directional derivative": `linearize_spec`, `linearize_hasDerivAt`,
  `linearize_first_order`, `linearize_tensor_direction`;
* clause "factor(f) equals f for every argument value": `factor_sound`, `factor_sound_expr`,
  `argument_degree_upper`; and its derivative lands on the right entries of an argument with any number of axes:
  `monomial_ravel_spec`, `monomial_ravel_forward_lengths_counterexample`.
-/
namespace NutilsVerif.C13

/-! ## replace -/

/-- **replace commutes with evaluation.**  For every expression, every replacement map `σ` (any shape: chains
`u→v, v→w`, swaps `u↔v`, replacements mentioning replaced arguments), every interpretation of the
non-polynomial functions and every argument value `ρ`, in any carrier: the substituted expression evaluates
to the original evaluated with each replaced argument bound to the value of its replacement *at ρ*. -/
theorem subst_eval {V α : Type} [Add α] [Mul α] [Neg α] [IntCast α]
    (I : String → List α → α) (ρ : V → α) (σ : V → Option (Expr V)) (e : Expr V) :
    Expr.eval I ρ (Expr.subst σ e) =
      Expr.eval I (fun x => match σ x with | some g => Expr.eval I ρ g | none => ρ x) e :=
  Expr.subst_eval' I ρ σ e

/-- swap `{u: v, v: u}`: simultaneity — the result is the original at the swapped values -/
theorem subst_swap {V α : Type} [DecidableEq V] [Add α] [Mul α] [Neg α] [IntCast α]
    (I : String → List α → α) (ρ : V → α) (u v : V) (e : Expr V) :
    Expr.eval I ρ (Expr.subst (fun x => if x = u then some (.var v) else if x = v then some (.var u) else none) e) =
      Expr.eval I (fun x => if x = u then ρ v else if x = v then ρ u else ρ x) e := by
  rw [subst_eval]
  congr 1
  funext x
  by_cases h1 : x = u
  · simp [h1, Expr.eval]
  · by_cases h2 : x = v
    · subst h2; simp [h1, Expr.eval]
    · simp [h1, h2]

/-- chain `{u: v, v: w}`: `u` gets the *old* value of `v`, not that of `w` -/
theorem subst_chain {V α : Type} [DecidableEq V] [Add α] [Mul α] [Neg α] [IntCast α]
    (I : String → List α → α) (ρ : V → α) (u v w : V) (e : Expr V) :
    Expr.eval I ρ (Expr.subst (fun x => if x = u then some (.var v) else if x = v then some (.var w) else none) e) =
      Expr.eval I (fun x => if x = u then ρ v else if x = v then ρ w else ρ x) e := by
  rw [subst_eval]
  congr 1
  funext x
  by_cases h1 : x = u
  · simp [h1, Expr.eval]
  · by_cases h2 : x = v
    · subst h2; simp [h1, Expr.eval]
    · simp [h1, h2]

/-- nested replacement `replace(replace(f, σ₁), σ₂)`: bind `σ₁` at the environment bound by `σ₂` -/
theorem subst_nested {V α : Type} [Add α] [Mul α] [Neg α] [IntCast α]
    (I : String → List α → α) (ρ : V → α) (σ₁ σ₂ : V → Option (Expr V)) (e : Expr V) :
    Expr.eval I ρ (Expr.subst σ₂ (Expr.subst σ₁ e)) =
      Expr.eval I (Expr.bindEnv I (Expr.bindEnv I ρ σ₂) σ₁) e := by
  rw [Expr.subst_eval', Expr.subst_eval']

/-- a replacement that kept substituting inside replaced subtrees (what `shallow_replace` must *not* do)
is observably different: on the swap `{u: v, v: u}` it returns the original `u` -/
theorem deep_replace_differs_on_swap :
    let σ : Nat → Option (Expr Nat) := fun x => if x = 0 then some (.var 1) else if x = 1 then some (.var 0) else none
    let ρ : Nat → Int := fun x => if x = 0 then 1 else 2
    let I : String → List Int → Int := fun _ _ => 0
    Expr.eval I ρ (Expr.substDeep σ 2 (.var 0)) ≠ Expr.eval I (Expr.bindEnv I ρ σ) (.var 0) := by
  simp [Expr.substDeep, Expr.subst, Expr.eval, Expr.bindEnv]

/-- **the loop of `util.shallow_replace` (explicit stacks, identity-keyed memo) computes `subst`**: on every
well-formed node table, for every row, the loop terminates with exactly one result, the simultaneous
substitution of the tree the row denotes — shared rows are processed once and their cached result is the same -/
theorem shallow_replace_computes_subst {V : Type} (d : Dag V) (hwf : d.WF) (σ : V → Option (Expr V))
    (id : Nat) (h : id < d.length) :
    ∃ fuel, Machine.shallowReplace d σ id fuel = some (Expr.subst σ (d.denote id)) :=
  Machine.shallowReplace_correct d hwf σ id h

/-- arguments of the result: exactly the unreplaced arguments of `f` and the arguments of those replacements
whose key occurs in `f` (what `_Replace.arguments` has to announce) -/
theorem subst_arguments {V : Type} (σ : V → Option (Expr V)) (e : Expr V) (y : V) :
    y ∈ Expr.freeVars (Expr.subst σ e) ↔
      ∃ x ∈ Expr.freeVars e, (σ x = none ∧ y = x) ∨ (∃ g, σ x = some g ∧ y ∈ Expr.freeVars g) :=
  Expr.freeVars_subst σ e y

/-! ## argument specifications -/

/-- **all documented spellings of an association are equivalent**: for every function signature `ctx` and
every non-empty list of `(key, value)` names (keys free of `:` and `,`, values free of `,`), the string
`'u:v,p:q'`, the sequence of strings `('u:v', 'p:q')`, the sequence of pairs, the dict, the dict with `Argument`
values and the sequence of `Argument` pairs are parsed to the same list — including the same error, if any. -/
theorem argspec_equiv (ctx : Ctx) (assoc : List (Name × Name)) (hne : assoc ≠ [])
    (hk : ∀ p ∈ assoc, ':' ∉ p.1 ∧ ',' ∉ p.1 ∧ ',' ∉ p.2) :
    parse (spellString assoc) ctx = parse (spellDict assoc) ctx ∧
    parse (spellStrings assoc) ctx = parse (spellDict assoc) ctx ∧
    parse (spellPairs assoc) ctx = parse (spellDict assoc) ctx ∧
    parse (spellDictArgValues ctx assoc) ctx = parse (spellDict assoc) ctx ∧
    parse (spellArgPairs ctx assoc) ctx = parse (spellDict assoc) ctx := by
  have h1 := spell_string_strings ctx assoc hne fun p hp => ⟨(hk p hp).2.1, (hk p hp).2.2⟩
  have h2 := spell_strings_pairs ctx assoc fun p hp => (hk p hp).1
  have h3 := spell_pairs_dict ctx assoc
  have h4 := spell_dict_argvalues ctx assoc
  have h5 := spell_dict_argpairs ctx assoc
  exact ⟨by rw [h1, h2, h3], by rw [h2, h3], h3, h4.symm, by rw [← h5, ← h4]⟩

/-- every yielded pair `(arg, new)` has `arg` among the function's arguments and `new` of equal shape and dtype -/
theorem argspec_sound (spec : Spec) (ctx : Ctx) (res : List (Name × Replacement)) (h : parse spec ctx = .ok res) :
    ∀ p ∈ res, ctx.lookup p.1 = some p.2.sig :=
  parseItems_sound ctx spec.items res h

/-- keys that are not arguments of the function are skipped, whatever their value -/
theorem argspec_skips_absent (ctx : Ctx) (k : Name) (v : Val) (rest : List Item) (h : ctx.lookup k = none) :
    parse (.seq (.pair (.name k) v :: rest)) ctx = parse (.seq rest) ctx :=
  parseItems_skip ctx _ rest (parseItem_absent ctx k v h)

/-- a replacement array whose shape or dtype differs from the argument's is rejected, wherever it occurs -/
theorem argspec_wrong_sig_rejected (ctx : Ctx) (items : List Item) (k : Name) (sig sv : Sig) (id : Nat)
    (args : Ctx) (b : Bool) (hmem : Item.pair (.name k) (.array id sv args b) ∈ items)
    (hk : ctx.lookup k = some sig) (hne : sv ≠ sig) : ∃ e, parse (.seq items) ctx = .error e := by
  refine parseItems_error_of_mem ctx items _ hmem ?_
  rcases parseItem_wrong_sig ctx k sig sv id args b hk hne with h | h
  · exact ⟨_, h⟩
  · exact ⟨_, h⟩

/-- `_join_arguments` announces every argument of every operand, with its shape and dtype, and nothing else -/
theorem join_arguments_spec (l : List Ctx) (r : Ctx) (h : joinArguments l = .ok r) :
    (∀ c ∈ l, ∀ p ∈ c, r.lookup p.1 = some p.2) ∧ (∀ n s, r.lookup n = some s → ∃ c ∈ l, (n, s) ∈ c) :=
  joinArguments_spec l r h

/-- `_Replace.__init__` announces every unreplaced argument and every argument of every replacement -/
theorem replace_announces_arguments (spec : Spec) (ctx : Ctx) (d : List (Name × Replacement)) (joined : Ctx)
    (h : replaceInit spec ctx = .ok (d, joined)) :
    (∀ p ∈ ctx, (∀ q ∈ d, q.1 ≠ p.1) → joined.lookup p.1 = some p.2) ∧
    (∀ q ∈ d, ∀ p ∈ q.2.arguments, joined.lookup p.1 = some p.2) :=
  replaceInit_announces spec ctx d joined h

/-! ## linearize -/

/-- **linearize = contraction of the partial derivatives with the direction** in any commutative ring:
`Σ_(x,v) ∂f/∂x · v` evaluates to the directional derivative (by the rules of calculus) of `f` at `ρ` in the
direction in which every `x` moves along the value of its partner `v` -/
theorem linearize_spec {V R : Type} [DecidableEq V] [CommRing R] (I : String → List R → R) (ρ : V → R)
    (pairs : List (V × V)) (e : Expr V) :
    Expr.eval I ρ (Expr.linearize pairs e) = Expr.dirDeriv I ρ (Expr.direction ρ pairs) e := by
  rw [Expr.eval_linearize, Expr.sum_deriv_eq_dirDeriv]

/-- the directional derivative is the first-order coefficient along the line, in any commutative ring -/
theorem linearize_first_order {V R : Type} [DecidableEq V] [CommRing R] (I : String → List R → R) (ρ : V → R)
    (pairs : List (V × V)) (e : Expr V) (hp : Expr.isPoly e = true) (t : R) :
    ∃ r : R, Expr.eval I (fun y => ρ y + t * Expr.direction ρ pairs y) e =
      Expr.eval I ρ e + t * Expr.eval I ρ (Expr.linearize pairs e) + t * t * r := by
  rw [linearize_spec]
  exact Expr.eval_line_expansion I ρ _ e hp t

/-- **over the reals: linearize is the derivative** of `t ↦ f(ρ + t·d)` at `t = 0` in the analytic sense -/
theorem linearize_hasDerivAt {V : Type} [DecidableEq V] (I : String → List ℝ → ℝ) (ρ : V → ℝ)
    (pairs : List (V × V)) (e : Expr V) (hp : Expr.isPoly e = true) :
    HasDerivAt (fun t : ℝ => Expr.eval I (fun y => ρ y + t * Expr.direction ρ pairs y) e)
      (Expr.eval I ρ (Expr.linearize pairs e)) 0 := by
  have h := Expr.hasDerivAt_line I ρ (Expr.direction ρ pairs) e hp 0
  rw [linearize_spec]
  simpa using h

/-- tensor arguments: `linearize(f, 'u:v')` for an argument with `n` entries contracts over *all* of them — the
direction moves every entry `u[i]`, `i < n`, along `v[i]` and leaves everything else fixed -/
theorem linearize_tensor_direction {R : Type} [CommRing R] (I : String → List R → R) (ρ : String × Nat → R)
    (u v : String) (n : Nat) (e : Expr (String × Nat)) :
    Expr.eval I ρ (Expr.linearize (expandPair u v n) e) =
      Expr.dirDeriv I ρ (fun y => if y.1 = u ∧ y.2 < n then ρ (v, y.2) else 0) e := by
  rw [linearize_spec]
  congr 1
  funext y
  exact Expr.direction_expandPair ρ u v n y

/-! ## factor -/

/-- **factor(f) = f for every argument value**: the monomials emitted by the queue of `evaluable.factor`
(ordered argument lists, `derivative(func, arg) / n`, constant terms via `zero_all_arguments`) sum to the
analysed polynomial, whenever the depth bound covers the degree -/
theorem factor_sound (vars : List Nat) (hnd : vars.Nodup) (N : Nat) (p : MPoly)
    (hp : ∀ t ∈ p, t.2.length ≤ N ∧ ∀ v ∈ t.2, v ∈ vars) (x : Nat → Rat) :
    MPoly.eval x (MPoly.factor vars N p) = MPoly.eval x p :=
  MPoly.factor_eval vars hnd N p hp x

/-- the same for polynomial expressions, with the degree of the expansion as depth bound -/
theorem factor_sound_expr (I : String → List Rat → Rat) (vars : List Nat) (hnd : vars.Nodup) (e : Expr Nat)
    (hp : Expr.isPoly e = true) (hv : ∀ v ∈ Expr.freeVars e, v ∈ vars) (x : Nat → Rat) :
    MPoly.eval x (MPoly.factor vars (MPoly.degree (Expr.toMPoly e)) (Expr.toMPoly e)) = Expr.eval I x e := by
  rw [factor_sound vars hnd _ _ _ x, Expr.toMPoly_eval I x e hp]
  intro t ht
  exact ⟨MPoly.length_le_degree _ t ht, fun v hv' => hv v (Expr.toMPoly_vars e t ht v hv')⟩

/-- **`argument_degree` is an upper bound** of the degree in which the argument occurs in any monomial -/
theorem argument_degree_upper (x : Nat) (e : Expr Nat) (d : Nat) (h : Expr.argDegree x e = some d) :
    ∀ t ∈ Expr.toMPoly e, t.2.count x ≤ d :=
  Expr.argDegree_upper x e d h

/-- **the derivative of a factored polynomial addresses the right entry of the argument.**  For an argument with any number
(≥ 1) of axes of any lengths, the `while indices:` loop of `Monomial._derivative` turns the per-axis indices of a monomial
factor into the row-major flat index of that entry in the raveled argument, and the stride product into the argument's size —
what `Inflate(…, ravel_index, ravel_length)` followed by `unravel(…, arg.shape)` needs to be the scatter to entry `indices`. -/
theorem monomial_ravel_spec (indices lengths : List Nat) (h : indices.length = lengths.length) (hne : lengths ≠ []) :
    monomialRavel indices lengths = some (flatIdx lengths indices, shapeSize lengths) :=
  monomialRavel_spec indices lengths h hne

/-- walking the lengths from the first axis (while the indices are walked from the last) is a different function as soon as the
argument has three axes whose first two lengths differ: entry (1,0,0) of a (2,3,2) argument is addressed as 4 instead of 6.
(For ≤ 2 axes, or equal leading lengths, the two coincide: arguments with ≥ 3 axes of different lengths must be explored.) -/
theorem monomial_ravel_forward_lengths_counterexample :
    monomialRavelForwardLengths [1, 0, 0] [2, 3, 2] = some (4, 12) ∧ monomialRavel [1, 0, 0] [2, 3, 2] = some (6, 12) := by
  decide

/-! ## the hypotheses are satisfiable / the statements are not vacuous -/

-- a swap inside a shared DAG: row 2 = u*v is used twice by row 3
example : Machine.shallowReplace (V := Nat) [.var 0, .var 1, .mul 0 1, .add 2 2]
    (fun x => if x = 0 then some (.var 1) else if x = 1 then some (.var 0) else none) 3 20
    = some (.add (.mul (.var 1) (.var 0)) (.mul (.var 1) (.var 0))) := by rfl

example : Dag.WF (V := String) [.var "u", .var "v", .mul 0 1, .add 2 2] := by
  intro k n h c hc
  match k, h with
  | 0, h => simp at h; subst h; simp [DNode.children] at hc
  | 1, h => simp at h; subst h; simp [DNode.children] at hc
  | 2, h => simp at h; subst h; simp [DNode.children] at hc; omega
  | 3, h => simp at h; subst h; simp [DNode.children] at hc; omega
  | k + 4, h => simp at h

-- the spellings of {'u': 'v', 'p': 'q'} for a function of u (float vector) and p (scalar), `x` absent
example :
    let ctx : Ctx := [("u".toList, ⟨[3], .float⟩), ("p".toList, ⟨[], .float⟩)]
    parse (.str "u:v,x:y,p:q".toList) ctx =
      .ok [("u".toList, .arg "v".toList ⟨[3], .float⟩), ("p".toList, .arg "q".toList ⟨[], .float⟩)] := by decide

example : parse (.str "".toList) [] = .error .unpack := by decide

-- x²y + 3 factored in (x, y) = (0, 1): constant 3 and one cubic monomial with coefficient 1
example : (MPoly.factor [0, 1] 3 [(1, [0, 0, 1]), (3, [])]).filter (·.1 != 0) = [(3, []), (1, [0, 0, 1])] := by
  decide +kernel

example : Expr.argDegree 0 (.mul (.add (.var 0) (.var 1)) (.var 0)) = some 2 := by decide

end NutilsVerif.C13
