import NutilsVerif.Props.C05
import NutilsVerif.Proofs.Poly
/-!
# C05 — one symbolic acceptance is the property for all real argument values

Separate from `Props/C05.lean` only because `Poly.eval` (Proofs/Poly.lean) lives over an arbitrary field and needs
Mathlib; audited in the thorough tier, built in every run.
-/
namespace NutilsVerif.C05
open NutilsVerif

section eval
variable {R : Type} [Field R] [CharZero R]

theorem eval_foldl_add (ρ : String → R) (l : List (List Nat × Poly)) (acc : Poly) :
    Poly.eval ρ (l.foldl (fun acc p => acc + p.2) acc) = l.foldl (fun acc p => acc + Poly.eval ρ p.2) (Poly.eval ρ acc) := by
  induction l generalizing acc with
  | nil => rfl
  | cons p t ih => simp only [List.foldl_cons]; rw [ih, Poly.eval_hadd]

omit [CharZero R] in
theorem foldl_eval_zip_map (ρ : String → R) (idx : List Nat) : ∀ (indices : List (List Nat)) (values : List Poly) (acc : R),
    ((indices.zip values).filter (·.1 == idx)).foldl (fun acc p => acc + Poly.eval ρ p.2) acc =
    ((indices.zip (values.map (Poly.eval ρ))).filter (·.1 == idx)).foldl (fun acc p => acc + p.2) acc
  | [], _, _ => by simp
  | _ :: _, [], _ => by simp
  | t :: ts, v :: vs, acc => by
    simp only [List.map_cons, List.zip_cons_cons, List.filter_cons]
    split
    · simp only [List.foldl_cons]; exact foldl_eval_zip_map ρ idx ts vs _
    · exact foldl_eval_zip_map ρ idx ts vs _

/-- **One symbolic acceptance = the property for all real argument values.**  If the checker accepts sparse data whose
values are polynomials in the atoms `x[i,j]` (entries of real-valued arguments, and uninterpreted applications),
then under *every* interpretation `ρ` of the atoms in a field of characteristic zero, every entry of the dense
array evaluates to the sum of the evaluated values listed at its position. -/
theorem checkCOO_sound_eval (ρ : String → R) (shape : List Nat) (indices : List (List Nat)) (values : List Poly)
    (dense : Tensor Poly) (h : checkCOO (0 : Poly) shape indices values dense = true) :
    ∀ idx, inBox shape idx = true →
      Poly.eval ρ (dense.get idx) = scatterSum (· + ·) (0 : R) indices (values.map (Poly.eval ρ)) idx := by
  intro idx hidx
  have hs := (checkCOO_sound (· + ·) (0 : Poly) poly_zero_add shape indices values dense h).2.2.2.2.2 idx hidx
  rw [hs]
  unfold scatterSum
  rw [eval_foldl_add]
  have h0 : Poly.eval ρ (0 : Poly) = 0 := by rw [poly_zero_eq]; exact Poly.eval_zero ρ
  rw [h0]
  exact foldl_eval_zip_map ρ idx indices values 0

end eval

end NutilsVerif.C05
