import NutilsVerif.Model.C02
import NutilsVerif.Proofs.C02Core
import NutilsVerif.Proofs.C02Check
import NutilsVerif.Proofs.C02Block
/-!
# C02 — optimised code generation is a faithful translation: property theorems

Statements about the executable models in `Model/C02Core.lean` (the in-place compilation protocol) and
`Model/C02.lean` (static well-formedness of generated scripts, block ids).  The tie to the current source is made
by `harness/nvh/c02.py` on every run.
-/
namespace NutilsVerif.C02

/-- **In-place protocol.**  For every expression of the sub-language {leaf, Add, Inflate/Assemble, Transpose, LoopSum},
every interpretation of the leaves / index maps, every nesting in outer loops (`env`), every initial store (in
particular: nothing initialised) and *every* gate policy (which nodes `compile_with_out` computes separately:
`ndependents > 1`, earlier block, …), running the emitted statements never reads an uninitialised cell and leaves
the value the expression denotes in the result variable.  Clauses: "in-place accumulation … returns results with
the values that the expressions denote".  Not covered by this theorem (cut of the model, see `Model/C02Core.lean`):
placement of statements in loop blocks, merged loops, Diagonalize, LoopConcatenate. -/
theorem compileCore_correct {α : Type} [CAM α] (Γ : Ctx α) (gate : Gate) (e : E) (hwf : WF Γ e)
    (env : List Nat) (st : Store α) :
    ∃ st', execL Γ env (compileCore gate e).1 st = some st' ∧
      ∀ j, j < e.size → st' (compileCore gate e).2 j = some (eval Γ env e j) := by
  obtain ⟨_, _, h⟩ := (build_spec Γ gate e hwf).1 0
  obtain ⟨st', h1, h2, _⟩ := h env st
  exact ⟨st', h1, h2⟩

/-- The contract of `_compile_with_out` itself: handed an array `out` (older than every temporary), a view made of
transposes and a mode, the emitted statements add (`iadd`) the denoted value into the cells addressed through the
view — cells must be initialised — or (`assign`) overwrite exactly those cells, touch no other older variable and
no other cell. -/
theorem compile_with_out_contract {α : Type} [CAM α] (Γ : Ctx α) (gate : Gate) (e : E) (hwf : WF Γ e)
    (out : Nat) (v : View) (mode : Mode) (n : Nat) (hout : out < n) (hv : ViewOK Γ v e.size)
    (env : List Nat) (st : Store α) (hinit : mode = .iadd → ∀ j, j < e.size → (st out (appV Γ v j)).isSome = true) :
    ∃ st', execL Γ env (cwoOf gate e (build gate e) out v mode n).1 st = some st' ∧
      (∀ c, st' out c = postCell mode (st out c) (hits e.size (appV Γ v) c) (gatherSum e.size (appV Γ v) (eval Γ env e) c)) ∧
      (∀ y, y < n → y ≠ out → st' y = st y) :=
  ((build_spec Γ gate e hwf).2 out v mode n hout hv).2 env st hinit

/-- The gate of `compile_with_out` (`ndependents > 1 ⇒ compute separately, then add`) is irrelevant for the value:
two gate policies give scripts that compute the same result.  (The conjecture that the value would be wrong without
the gate is false; the gate only avoids computing a shared term twice.  The harness confirms this on the real code:
the mutation `> 1 → > 2` changes no value.) -/
theorem compileCore_gate_irrelevant {α : Type} [CAM α] (Γ : Ctx α) (g1 g2 : Gate) (e : E) (hwf : WF Γ e)
    (env : List Nat) (st : Store α) (j : Nat) (hj : j < e.size) :
    (execL Γ env (compileCore g1 e).1 st).bind (fun s => s (compileCore g1 e).2 j)
      = (execL Γ env (compileCore g2 e).1 st).bind (fun s => s (compileCore g2 e).2 j) := by
  obtain ⟨s1, h1, v1⟩ := compileCore_correct Γ g1 e hwf env st
  obtain ⟨s2, h2, v2⟩ := compileCore_correct Γ g2 e hwf env st
  rw [h1, h2]
  simp [v1 j hj, v2 j hj]

/-- **Accumulation order.**  A block of accumulating statements (`numpy.add.at` / `numpy.add(…, out=)`) whose sources
are not accumulation targets of the block gives the same store — or fails in the same way — in every order of the
statements.  This is why the order in which `Add._compile_with_out` visits its (multiset of) operands and the order in
which statements of different evaluables land in one block do not matter. -/
theorem accumulate_order_independent {α : Type} [CAM α] (Γ : Ctx α) (env : List Nat) (l l' : List S)
    (hperm : l.Perm l') (hacc : ∀ s, s ∈ l → isAcc s = true)
    (hsrc : ∀ s s', s ∈ l → s' ∈ l → accSrc s ≠ accTarget s') (st : Store α) :
    execL Γ env l st = execL Γ env l' st :=
  execL_perm Γ env hperm ⟨hacc, hsrc⟩ st

/-- `Transpose` denotes the renumbering of cells: reading cell `c` of the transposed array is reading cell `Q t c`
of its operand (`Q t` the inverse of the renumbering). -/
theorem transpose_is_gather {α : Type} [CAM α] (Γ : Ctx α) (t : Nat) (e : E) (ht : TagOK Γ t e.size) (env : List Nat)
    (c : Nat) (hc : c < e.size) : eval Γ env (.transp t e) c = eval Γ env e (Γ.Q t c) :=
  eval_transp ht env hc

/-! ### why the zero-fill and its placement matter (concrete witnesses over ℤ) -/

def Γw : Ctx Int := { ρ := fun k env c => (k : Int) * 10 + c + 1 + (env.headD 0 : Nat), M := fun _ _ _ => 0, P := fun _ j => j, Q := fun _ j => j }
def stw : Store Int := fun _ _ => none

/-- the script of `Inflate(leaf)`: allocate, zero, compute the leaf, `add.at` -/
example : (compileCore noGate (.scatter 0 2 (.leaf 0 2))).1
    = [S.alloc 0 2, S.zero 0 [] 2, S.leafv 1 0 2, S.addAt 0 [] (some 0) 1 2] := rfl

/-- mutation `mode='assign'` → `'iadd'` (the zero-fill is dropped): the accumulation reads uninitialised cells -/
theorem zero_fill_needed :
    (execL Γw [] [S.alloc 0 2, S.leafv 1 0 2, S.addAt 0 [] (some 0) 1 2] stw).isNone = true := by decide

/-- the script of `LoopSum_{i<2} leaf(i)`: the zero-fill is *outside* the loop -/
example : (compileCore noGate (.loopsum 2 (.leaf 0 1))).1
    = [S.alloc 0 1, S.zero 0 [] 1, S.loop 2 [S.leafv 1 0 1, S.addAt 0 [] none 1 1]] := rfl

/-- … and computes `leaf(0) + leaf(1) = 1 + 2` -/
example : (execL Γw [] (compileCore noGate (.loopsum 2 (.leaf 0 1))).1 stw).bind (fun s => s 0 0) = some 3 := by decide

/-- mutation "zero-fill placed in the loop block": only the last contribution survives (2 instead of 3) -/
theorem zero_fill_in_loop_wrong :
    (execL Γw [] [S.alloc 0 1, S.loop 2 [S.zero 0 [] 1, S.leafv 1 0 1, S.addAt 0 [] none 1 1]] stw).bind (fun s => s 0 0)
      = some 2 ∧ eval Γw [] (.loopsum 2 (.leaf 0 1)) 0 = 3 := by decide

-- non-vacuity of `WF`: a transposed scatter inside a loop, added to a leaf
example : WF Γw (.loopsum 3 (.add (.transp 0 (.scatter 0 2 (.leaf 0 3))) (.leaf 1 2))) := by
  refine ⟨rfl, ⟨?_, ?_, trivial⟩, trivial⟩
  · intro j hj; exact ⟨hj, hj, rfl, rfl⟩
  · intro env j _; show 0 < 2; omega

/-! ### static well-formedness of generated scripts -/

/-- **Initialised before use.**  If the checker accepts a script (parsed by the harness from the text that
`evaluable.compile` generated), then *no* execution of the script — whatever the trip count of every loop (zero
included), whichever branch of the `first_run` conditional is taken — reads an unbound variable, reads or
accumulates into an array that has not been completely initialised, accumulates into an array that somebody has
already read, discards unread contributions by a zero-fill, or writes a cached array: every execution ends in a
state.  Variables assigned inside a loop body (the loop index included) are unbound after the loop in this semantics,
so the theorem also carries "a statement that uses a loop index is inside the `for` of that index" and "operands
are assigned before they are used".  Regions are tracked up to the tiling assumption stated in `Model/C02.lean`. -/
theorem initialised_before_use_sound (globals : List Var) (prog : List Stmt)
    (h : checkScript globals prog = .ok ()) (r : Except Err AState)
    (hexec : Exec (.block prog) (initial globals) r) : ∃ c', r = .ok c' := by
  unfold checkScript at h
  obtain ⟨σ', h1, _⟩ := bind_ok h
  obtain ⟨c', e, _⟩ := exec_sound hexec (initial globals) σ' (le_refl _) h1
  exact ⟨c', e⟩

/-- the general form: executions from any state that is at least as defined as the state the checker started from
end in states that are at least as defined as the one the checker computed -/
theorem checker_sound (prog : List Stmt) (σ σ' c : AState) (h : chkL prog σ = .ok σ') (hle : le c σ)
    (r : Except Err AState) (hexec : Exec (.block prog) c r) : ∃ c', r = .ok c' ∧ le c' σ' :=
  exec_sound hexec σ σ' hle h

/-- verdict of the checker as a string (`Except` has no decidable equality) -/
def verdict : Except Err Unit → String
  | .ok _ => "ok"
  | .error e => e.kind ++ ":" ++ e.var

/-- non-vacuity and sharpness on the three shapes of accumulator code: the `LoopSum` script is accepted … -/
example : verdict (checkScript ["numpy", "a", "n"]
    [.alloc "v0" ["numpy"], .fill "v0" [], .assign "r" ["n"],
     .loop "i" ["r"] [.assign "v1" ["a", "i"], .accum "v0" [] ["v1"]], .use ["v0"]]) = "ok" := by decide

/-- … with the zero-fill moved into the loop block it is rejected (`zero_fill_in_loop_wrong` is the value-level
counterpart) … -/
example : verdict (checkScript ["numpy", "a", "n"]
    [.alloc "v0" ["numpy"], .assign "r" ["n"],
     .loop "i" ["r"] [.fill "v0" [], .assign "v1" ["a", "i"], .accum "v0" [] ["v1"]], .use ["v0"]])
    = "discard-unread-contributions:v0" := by decide

/-- … without the zero-fill (`mode='assign'` → `'iadd'`) it is rejected … -/
example : verdict (checkScript ["numpy", "a", "n"]
    [.alloc "v0" ["numpy"], .assign "r" ["n"],
     .loop "i" ["r"] [.assign "v1" ["a", "i"], .accum "v0" [] ["v1"]], .use ["v0"]])
    = "accumulate-into-uninitialised:v0" := by decide

/-- … a value computed in a loop body is out of scope after the loop … -/
example : verdict (checkScript ["a", "n"]
    [.assign "r" ["n"], .loop "i" ["r"] [.assign "v1" ["a", "i"]], .use ["v1"]]) = "read-unbound:v1" := by decide

/-- … a rerun branch that skips a block whose result is not cached is rejected … -/
example : verdict (checkScript ["a", "c1"]
    [.rerun ["c1"] [.assign "v1" ["a"], .assign "v2" ["v1", "c1"]] [.assign "v2" ["v1", "c1"]], .use ["v2"]])
    = "read-unbound:v1" := by decide

/-- … and the slices of a `LoopConcatenate` complete the array at loop exit, not before. -/
example : verdict (checkScript ["numpy", "a", "n"]
    [.alloc "v0" ["numpy"], .assign "r" ["n"],
     .loop "i" ["r"] [.assign "s" ["i"], .assign "t" ["i"], .assign "v1" ["a", "i"], .write "v0" ["slice(s, t)"] ["s", "t", "v1"]],
     .use ["v0"]]) = "ok" := by decide
example : verdict (checkScript ["numpy", "a", "n"]
    [.alloc "v0" ["numpy"], .assign "r" ["n"],
     .loop "i" ["r"] [.assign "s" ["i"], .assign "t" ["i"], .assign "v1" ["a", "i"], .write "v0" ["slice(s, t)"] ["s", "t", "v1"], .use ["v0"]]])
    = "read-uninitialised:v0" := by decide

/-! ### statement placement: block ids -/

/-- **Block ids (`get_block_id`).**  The block in which an evaluable's statement is placed — the maximum, in Python's
tuple order, of the blocks of its dependencies — is not before the block of any dependency, and it is the block of one
of the dependencies (so it exists).  Together with `block_execution_order` (blocks run in increasing tuple order) and
the scope assertion of `get_block_id` (`scopeOK`, re-checked by the harness on every block id the real code
computes): a statement runs after the statements that produce its operands, inside the loops they live in. -/
theorem blockid_order (deps : List BlockId) :
    (∀ d, d ∈ deps → lexLt (blockOf deps) d = false) ∧ (deps ≠ [] → blockOf deps ∈ deps) := by
  cases deps with
  | nil => exact And.intro (fun _ h => nomatch h) (fun h => absurd rfl h)
  | cons d ds =>
    simp only [blockOf]
    obtain ⟨h1, h2⟩ := foldl_bmax_ge ds d
    refine ⟨?_, fun _ => ?_⟩
    · intro x hx
      cases hx with
      | head => exact h1
      | tail _ h => exact h2 x h
    · rcases foldl_bmax_mem ds d with h | h
      · rw [h]; exact List.mem_cons_self ..
      · exact List.mem_cons_of_mem _ h

/-- **Assembly of the blocks (`compile()`, "generate loops and merge loop blocks").**  For every tree of loops, the
block ids listed in the order in which the assembled script executes them (`(p,0)`, the body of loop `(p,0)`, `(p,1)`,
the body of loop `(p,1)`, …) are strictly increasing in Python's tuple order, and every block below prefix `p` has an id
that extends `p`: the block `(l₁,…,lₘ,k)` sits inside exactly the loops `(l₁)`, `(l₁,l₂)`, …, `(l₁,…,lₘ)`. -/
theorem block_execution_order (t : LoopTree) (p : List Nat) :
    (flatIds t p).Pairwise (fun a b => lexLt a b = true) ∧ ∀ id, id ∈ flatIds t p → ∃ k r, id = p ++ k :: r :=
  ⟨flatIds_sorted t p, fun id h => by obtain ⟨k, r, e, _⟩ := flatIds_under t p id h; exact ⟨k, r, e⟩⟩

/-- the documented example of `compile()`: two nested loops -/
example : flatIds (.node [.node [.node []]]) [] = [[0], [0, 0], [0, 0, 0], [0, 1], [1]] := by decide

end NutilsVerif.C02
