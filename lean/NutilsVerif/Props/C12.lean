import NutilsVerif.Model.C12
import NutilsVerif.Proofs.C12Merge
/-!
# C12 — property theorems (statements about the executable model in `Model/C12.lean`)
-/
namespace NutilsVerif.C12

/-! ## `util.merge_index_map` -/

/-- **merge_index_map, full specification** (property clause: "dof merging across irregular connectivity").
For *all* `n` and *all* lists of merge sets with indices in range, if the mirrored algorithm returns
`(out, nout)` then

1. `out` has length `n`;
2. two indices get the same output **iff** they are connected through merge sets (so merged indices are
   equal, and indices that are not connected stay different);
3. `nout` is the number of equivalence classes: there is a duplicate-free list of `nout` representatives
   containing exactly one member of every class;
4. with `condense=True`: the image is exactly `[0, nout)` and first occurrences are ascending without gaps
   (every value smaller than `out[i]` already occurs strictly before position `i`), i.e. selecting first
   occurrences gives `range(nout)` as the docstring promises;
5. with `condense=False`: every index is mapped to a member of its own class that maps onto itself. -/
theorem merge_index_map_spec (n : Nat) (sets : List (List Nat)) (condense : Bool)
    (hr : ∀ s ∈ sets, ∀ i ∈ s, i < n) {out : List Nat} {nout : Nat}
    (h : mergeIndexMapNat n sets condense = .ok (out, nout)) :
    out.length = n ∧
    (∀ i j, i < n → j < n → (get out i = get out j ↔ Conn sets i j)) ∧
    (∃ reps : List Nat, reps.Nodup ∧ reps.length = nout ∧ (∀ r ∈ reps, r < n) ∧
        ∀ i, i < n → ∃ r ∈ reps, Conn sets i r ∧ ∀ r' ∈ reps, Conn sets i r' → r' = r) ∧
    (condense = true →
        (∀ i, i < n → get out i < nout) ∧
        (∀ k, k < nout → ∃ i, i < n ∧ get out i = k) ∧
        (∀ i, i < n → ∀ k, k < get out i → ∃ j, j < i ∧ get out j = k)) ∧
    (condense = false →
        ∀ i, i < n → get out i < n ∧ get out (get out i) = get out i ∧ Conn sets i (get out i)) := by
  unfold mergeIndexMapNat at h
  cases hfold : sets.foldlM mergeStepNat (List.range n) with
  | error e => rw [hfold] at h; cases h
  | ok m =>
    rw [hfold] at h
    have hpair : finalPass condense m = (out, nout) := by
      have : (Except.ok (finalPass condense m) : Except MergeErr _) = .ok (out, nout) := h
      injection this
    have rep : Rep m n sets := by simpa using rep_fold sets hr (rep_init n) hfold
    obtain ⟨hlen, hval, hcnt⟩ := finalPass_spec (condense := condense) rep.inv
    rw [hpair] at hlen hval hcnt
    simp only at hlen hval hcnt
    rw [rep.len] at hlen hval hcnt
    have isroot : ∀ k, get m (findRoot m k) = findRoot m k := fun k => by
      have h1 := findRoot_not_lt m k
      have h2 := rep.inv (findRoot m k)
      omega
    have rootlt : ∀ k, k < n → findRoot m k < n := fun k hk => by
      have := findRoot_lt_length (m := m) (i := k) (by rw [rep.len]; exact hk); rwa [rep.len] at this
    have rank_inj : ∀ a b, get m a = a → get m b = b → rank m a = rank m b → a = b := by
      intro a b ha hb e
      rcases Nat.lt_trichotomy a b with hlt | heq | hgt
      · have := rank_lt_of_root m ha hlt; omega
      · exact heq
      · have := rank_lt_of_root m hb hgt; omega
    have veq : ∀ i j, i < n → j < n → (get out i = get out j ↔ findRoot m i = findRoot m j) := by
      intro i j hi hj
      rw [hval i hi, hval j hj]
      unfold finalVal
      cases condense
      · simp
      · simp only [if_true]
        exact ⟨rank_inj _ _ (isroot i) (isroot j), fun e => by rw [e]⟩
    refine ⟨hlen, ?_, ?_, ?_, ?_⟩
    · intro i j hi hj
      rw [veq i j hi hj]; exact rep.iff i j
    · refine ⟨(List.range n).filter (fun k => get m k == k), ?_, ?_, ?_, ?_⟩
      · exact List.Nodup.sublist List.filter_sublist List.nodup_range
      · rw [hcnt, rank, List.countP_eq_length_filter]
      · intro r hr'
        exact List.mem_range.mp (List.mem_filter.mp hr').1
      · intro i hi
        refine ⟨findRoot m i, ?_, ?_, ?_⟩
        · rw [List.mem_filter]
          exact ⟨List.mem_range.mpr (rootlt i hi), by simp [isroot i]⟩
        · exact (rep.iff _ _).mp (findRoot_idem m i).symm
        · intro r' hr' c
          have h1 : get m r' = r' := by simpa using (List.mem_filter.mp hr').2
          have h2 := (rep.iff _ _).mpr c
          rw [findRoot_of_root (m := m) (r := r') (by omega)] at h2
          exact h2.symm
    · intro hc
      subst hc
      refine ⟨?_, ?_, ?_⟩
      · intro i hi
        rw [hval i hi, hcnt]
        simp only [finalVal, if_true]
        exact rank_lt_of_root m (isroot i) (rootlt i hi)
      · intro k hk
        rw [hcnt] at hk
        obtain ⟨r, hr1, hr2, hr3⟩ := rank_surj m n k hk
        refine ⟨r, hr1, ?_⟩
        rw [hval r hr1]
        simp only [finalVal, if_true]
        rw [findRoot_of_root (by omega)]; exact hr3
      · intro i hi k hk
        rw [hval i hi] at hk
        simp only [finalVal, if_true] at hk
        obtain ⟨r, hr1, hr2, hr3⟩ := rank_surj m _ k hk
        have hle := findRoot_le m i
        refine ⟨r, by omega, ?_⟩
        rw [hval r (by omega)]
        simp only [finalVal, if_true]
        rw [findRoot_of_root (by omega)]; exact hr3
    · intro hc
      subst hc
      intro i hi
      have e1 : get out i = findRoot m i := by rw [hval i hi]; simp [finalVal]
      rw [e1]
      refine ⟨rootlt i hi, ?_, ?_⟩
      · rw [hval _ (rootlt i hi)]; simp [finalVal, findRoot_idem]
      · exact (rep.iff _ _).mp (findRoot_idem m i).symm

/-- **totality**: on well-formed input (non-empty sets, indices in range) the algorithm does not raise. -/
theorem merge_index_map_total (n : Nat) (sets : List (List Nat)) (condense : Bool) (hne : ∀ s ∈ sets, s ≠ []) :
    ∃ r, mergeIndexMapNat n sets condense = .ok r := by
  obtain ⟨m, hm⟩ := fold_ok sets hne (List.range n)
  exact ⟨finalPass condense m, by unfold mergeIndexMapNat; rw [hm]; rfl⟩

/-- an empty merge set makes the algorithm raise (`min([])`), as the docstring's precondition says -/
theorem merge_index_map_empty_set (n : Nat) (sets rest : List (List Nat)) (condense : Bool)
    (hne : ∀ s ∈ sets, s ≠ []) : mergeIndexMapNat n (sets ++ [] :: rest) condense = .error .emptySet := by
  unfold mergeIndexMapNat
  obtain ⟨m, hm⟩ := fold_ok sets hne (List.range n)
  rw [List.foldlM_append, hm]
  rfl

-- non-vacuity: the hypotheses of `merge_index_map_spec` are satisfiable (indices in range, a result exists)
example : (∀ s ∈ [[3, 1], [4, 3], [0]], ∀ i ∈ s, i < 5) ∧ ∃ r, mergeIndexMapNat 5 [[3, 1], [4, 3], [0]] true = .ok r :=
  ⟨by decide, merge_index_map_total 5 _ true (by decide)⟩

end NutilsVerif.C12
