import NutilsVerif.Model.C12
import NutilsVerif.Proofs.C12Merge
import NutilsVerif.Proofs.C12Struct
import NutilsVerif.Proofs.C12Generic
import NutilsVerif.Proofs.C12BSpline
import NutilsVerif.Generated.C12
import NutilsVerif.Proofs.C12Knots
import NutilsVerif.Proofs.C12Vs
import NutilsVerif.Proofs.C12Slice
/-!
# C12 — property theorems (statements about the executable model in `Model/C12.lean`)
-/
namespace NutilsVerif.C12

/-! ## `util.merge_index_map` -/

/-- **merge_index_map, full specification** (property clause: "dof merging across irregular connectivity").
For *all* `n` and *all* lists of merge sets with indices in range, if the mirrored algorithm returns
`(out, nout)` then

1. `out` has length `n`;
2. two indices get the same output **iff** they are connected through merge sets (so merged indices are
   equal, and indices that are not connected stay different);
3. `nout` is the number of equivalence classes: there is a duplicate-free list of `nout` representatives
   containing exactly one member of every class;
4. with `condense=True`: the image is exactly `[0, nout)` and first occurrences are ascending without gaps
   (every value smaller than `out[i]` already occurs strictly before position `i`), i.e. selecting first
   occurrences gives `range(nout)` as the docstring promises;
5. with `condense=False`: every index is mapped to a member of its own class that maps onto itself. -/
theorem merge_index_map_spec (n : Nat) (sets : List (List Nat)) (condense : Bool)
    (hr : ∀ s ∈ sets, ∀ i ∈ s, i < n) {out : List Nat} {nout : Nat}
    (h : mergeIndexMapNat n sets condense = .ok (out, nout)) :
    out.length = n ∧
    (∀ i j, i < n → j < n → (get out i = get out j ↔ Conn sets i j)) ∧
    (∃ reps : List Nat, reps.Nodup ∧ reps.length = nout ∧ (∀ r ∈ reps, r < n) ∧
        ∀ i, i < n → ∃ r ∈ reps, Conn sets i r ∧ ∀ r' ∈ reps, Conn sets i r' → r' = r) ∧
    (condense = true →
        (∀ i, i < n → get out i < nout) ∧
        (∀ k, k < nout → ∃ i, i < n ∧ get out i = k) ∧
        (∀ i, i < n → ∀ k, k < get out i → ∃ j, j < i ∧ get out j = k)) ∧
    (condense = false →
        ∀ i, i < n → get out i < n ∧ get out (get out i) = get out i ∧ Conn sets i (get out i)) := by
  unfold mergeIndexMapNat at h
  cases hfold : sets.foldlM mergeStepNat (List.range n) with
  | error e => rw [hfold] at h; cases h
  | ok m =>
    rw [hfold] at h
    have hpair : finalPass condense m = (out, nout) := by
      have : (Except.ok (finalPass condense m) : Except MergeErr _) = .ok (out, nout) := h
      injection this
    have rep : Rep m n sets := by simpa using rep_fold sets hr (rep_init n) hfold
    obtain ⟨hlen, hval, hcnt⟩ := finalPass_spec (condense := condense) rep.inv
    rw [hpair] at hlen hval hcnt
    simp only at hlen hval hcnt
    rw [rep.len] at hlen hval hcnt
    have isroot : ∀ k, get m (findRoot m k) = findRoot m k := fun k => by
      have h1 := findRoot_not_lt m k
      have h2 := rep.inv (findRoot m k)
      omega
    have rootlt : ∀ k, k < n → findRoot m k < n := fun k hk => by
      have := findRoot_lt_length (m := m) (i := k) (by rw [rep.len]; exact hk); rwa [rep.len] at this
    have rank_inj : ∀ a b, get m a = a → get m b = b → rank m a = rank m b → a = b := by
      intro a b ha hb e
      rcases Nat.lt_trichotomy a b with hlt | heq | hgt
      · have := rank_lt_of_root m ha hlt; omega
      · exact heq
      · have := rank_lt_of_root m hb hgt; omega
    have veq : ∀ i j, i < n → j < n → (get out i = get out j ↔ findRoot m i = findRoot m j) := by
      intro i j hi hj
      rw [hval i hi, hval j hj]
      unfold finalVal
      cases condense
      · simp
      · simp only [if_true]
        exact ⟨rank_inj _ _ (isroot i) (isroot j), fun e => by rw [e]⟩
    refine ⟨hlen, ?_, ?_, ?_, ?_⟩
    · intro i j hi hj
      rw [veq i j hi hj]; exact rep.iff i j
    · refine ⟨(List.range n).filter (fun k => get m k == k), ?_, ?_, ?_, ?_⟩
      · exact List.Nodup.sublist List.filter_sublist List.nodup_range
      · rw [hcnt, rank, List.countP_eq_length_filter]
      · intro r hr'
        exact List.mem_range.mp (List.mem_filter.mp hr').1
      · intro i hi
        refine ⟨findRoot m i, ?_, ?_, ?_⟩
        · rw [List.mem_filter]
          exact ⟨List.mem_range.mpr (rootlt i hi), by simp [isroot i]⟩
        · exact (rep.iff _ _).mp (findRoot_idem m i).symm
        · intro r' hr' c
          have h1 : get m r' = r' := by simpa using (List.mem_filter.mp hr').2
          have h2 := (rep.iff _ _).mpr c
          rw [findRoot_of_root (m := m) (r := r') (by omega)] at h2
          exact h2.symm
    · intro hc
      subst hc
      refine ⟨?_, ?_, ?_⟩
      · intro i hi
        rw [hval i hi, hcnt]
        simp only [finalVal, if_true]
        exact rank_lt_of_root m (isroot i) (rootlt i hi)
      · intro k hk
        rw [hcnt] at hk
        obtain ⟨r, hr1, hr2, hr3⟩ := rank_surj m n k hk
        refine ⟨r, hr1, ?_⟩
        rw [hval r hr1]
        simp only [finalVal, if_true]
        rw [findRoot_of_root (by omega)]; exact hr3
      · intro i hi k hk
        rw [hval i hi] at hk
        simp only [finalVal, if_true] at hk
        obtain ⟨r, hr1, hr2, hr3⟩ := rank_surj m _ k hk
        have hle := findRoot_le m i
        refine ⟨r, by omega, ?_⟩
        rw [hval r (by omega)]
        simp only [finalVal, if_true]
        rw [findRoot_of_root (by omega)]; exact hr3
    · intro hc
      subst hc
      intro i hi
      have e1 : get out i = findRoot m i := by rw [hval i hi]; simp [finalVal]
      rw [e1]
      refine ⟨rootlt i hi, ?_, ?_⟩
      · rw [hval _ (rootlt i hi)]; simp [finalVal, findRoot_idem]
      · exact (rep.iff _ _).mp (findRoot_idem m i).symm

/-- **totality**: on well-formed input (non-empty sets, indices in range) the algorithm does not raise. -/
theorem merge_index_map_total (n : Nat) (sets : List (List Nat)) (condense : Bool) (hne : ∀ s ∈ sets, s ≠ []) :
    ∃ r, mergeIndexMapNat n sets condense = .ok r := by
  obtain ⟨m, hm⟩ := fold_ok sets hne (List.range n)
  exact ⟨finalPass condense m, by unfold mergeIndexMapNat; rw [hm]; rfl⟩

/-- an empty merge set makes the algorithm raise (`min([])`), as the docstring's precondition says -/
theorem merge_index_map_empty_set (n : Nat) (sets rest : List (List Nat)) (condense : Bool)
    (hne : ∀ s ∈ sets, s ≠ []) : mergeIndexMapNat n (sets ++ [] :: rest) condense = .error .emptySet := by
  unfold mergeIndexMapNat
  obtain ⟨m, hm⟩ := fold_ok sets hne (List.range n)
  rw [List.foldlM_append, hm]
  rfl

-- non-vacuity: the hypotheses of `merge_index_map_spec` are satisfiable (indices in range, a result exists)
example : (∀ s ∈ [[3, 1], [4, 3], [0]], ∀ i ∈ s, i < 5) ∧ ∃ r, mergeIndexMapNat 5 [[3, 1], [4, 3], [0]] true = .ok r :=
  ⟨by decide, merge_index_map_total 5 _ true (by decide)⟩


/-- the entry point with python `int` indices (negative ones wrap, as numpy does) computes the same as the
natural-number form the specification is stated on, applied to the normalised sets; all normalised
indices are in range, so `merge_index_map_spec` applies to every successful run of the mirrored code. -/
theorem merge_index_map_int (n : Nat) (sets : List (List Int)) (sets' : List (List Nat)) (condense : Bool)
    (h : sets.mapM (fun s => s.mapM (normIdx n)) = .ok sets') :
    mergeIndexMap n sets condense = mergeIndexMapNat n sets' condense ∧ ∀ s ∈ sets', ∀ i ∈ s, i < n := by
  refine ⟨mergeIndexMap_eq_nat' n sets sets' condense h, ?_⟩
  have mapM_mem : ∀ {α β : Type} (f : α → Except MergeErr β) (l : List α) (r : List β),
      l.mapM f = .ok r → ∀ y ∈ r, ∃ x ∈ l, f x = .ok y := by
    intro α β f l
    induction l with
    | nil => intro r hr y hy
             have : r = [] := by
               have : (Except.ok [] : Except MergeErr (List β)) = .ok r := hr
               injection this with this; exact this.symm
             subst this; cases hy
    | cons a t ih =>
      intro r hr y hy
      rw [List.mapM_cons] at hr
      cases ha : f a with
      | error e => rw [ha] at hr; cases hr
      | ok b =>
        rw [ha] at hr
        cases ht : t.mapM f with
        | error e => rw [ht] at hr; cases hr
        | ok r' =>
          rw [ht] at hr
          have : r = b :: r' := by
            have : (Except.ok (b :: r') : Except MergeErr (List β)) = .ok r := hr
            injection this with this; exact this.symm
          subst this
          rcases List.mem_cons.mp hy with e | e
          · subst e; exact ⟨a, List.mem_cons_self, ha⟩
          · obtain ⟨x, hx, hfx⟩ := ih r' ht y e
            exact ⟨x, List.mem_cons_of_mem _ hx, hfx⟩
  intro s hs i hi
  obtain ⟨s0, _, hs0⟩ := mapM_mem _ sets sets' h s hs
  obtain ⟨i0, _, hi0⟩ := mapM_mem _ s0 s hs0 i hi
  exact normIdx_lt hi0

/-! ## structured spline bases -/

theorem buildDim_wf {spec : DimSpec} {d : SDim} (h : buildDim spec = .ok d) :
    d.WF ∧ d.n = spec.2.1 ∧ d.stop = d.start.map (· + spec.1 + 1) := by
  obtain ⟨p, n, c, m, per⟩ := spec
  unfold buildDim at h
  simp only at h
  cases hm : resolveMults p n c m with
  | error e => rw [hm] at h; cases h
  | ok mm =>
    rw [hm] at h
    exact splineDim_wf (p := p) (n := n) (m := mm) (per := per) h (fun x hx => ((resolveMults_range hm).2 x hx).1)

theorem mapM_buildDim_wf : ∀ (specs : List DimSpec) (ds : List SDim), specs.mapM buildDim = .ok ds → ∀ d ∈ ds, d.WF := by
  intro specs
  induction specs with
  | nil => intro ds h d hd
           have : ds = [] := by
             have : (Except.ok [] : Except SplErr (List SDim)) = .ok ds := h
             injection this with this; exact this.symm
           subst this; cases hd
  | cons a t ih =>
    intro ds h d hd
    rw [List.mapM_cons] at h
    cases ha : buildDim a with
    | error e => rw [ha] at h; cases h
    | ok b =>
      rw [ha] at h
      cases ht : t.mapM buildDim with
      | error e => rw [ht] at h; cases h
      | ok r' =>
        rw [ht] at h
        have : ds = b :: r' := by
          have : (Except.ok (b :: r') : Except SplErr (List SDim)) = .ok ds := h
          injection this with this; exact this.symm
        subst this
        rcases List.mem_cons.mp hd with e | e
        · subst e; exact (buildDim_wf ha).1
        · exact ih r' ht d e

/-- **`get_support` and `get_dofs` of a structured spline basis are mutual inverses** (property clause
"the dof-to-elements and element-to-dofs maps are mutual inverses"), for every number of dimensions and per
dimension every degree, element count, continuity, knot-multiplicity vector and periodicity that
`basis_spline` accepts: element `e` is listed in the support of dof `x` iff `x` is listed among the dofs of `e`. -/
theorem support_dofs_inverse (specs : List DimSpec) (ds : List SDim) (h : specs.mapM buildDim = .ok ds)
    (x e : Nat) (hx : x < ndofsTot ds) (he : e < nelemsTot ds) :
    e ∈ supportND ds x ↔ x ∈ dofsND ds e :=
  supportND_iff ds (mapM_buildDim_wf specs ds h) x e hx he

/-- every element of a spline dimension carries exactly `p+1` consecutive dofs, modulo the periodic wrap:
the dofs of element `e` are `(start e + r) mod nd` for `r = 0..p`, and there are `n` elements -/
theorem spline_dofs_consecutive (spec : DimSpec) (d : SDim) (h : buildDim spec = .ok d) (e : Nat) (he : e < spec.2.1) :
    d.n = spec.2.1 ∧
    dofs1 d e = (List.range (spec.1 + 1)).map (fun r => (d.start.getD e 0 + r) % d.nd) := by
  obtain ⟨hwf, hn, hstop⟩ := buildDim_wf h
  refine ⟨hn, ?_⟩
  unfold dofs1
  have hlt : e < d.start.length := by rw [← hn] at he; exact he
  have : d.stop.getD e 0 = d.start.getD e 0 + spec.1 + 1 := by
    rw [hstop]; exact getD_map_of_lt _ hlt
  rw [this, show d.start.getD e 0 + spec.1 + 1 - d.start.getD e 0 = spec.1 + 1 by omega]

/-- **dof count / offset formula**: with resolved multiplicities `m` (length `n+1`), element `e` starts at dof
`m[1]+…+m[e]`; the dimension has `m[0]+…+m[n-1]` dofs if periodic (and not discontinuous at the seam) and
`p+1+m[1]+…+m[n-1]` otherwise. -/
theorem spline_ndofs_formula (p n : Nat) (c : Int) (mo : Option (List Nat)) (per : Bool) (m : List Nat) (d : SDim)
    (hm : resolveMults p n c mo = .ok m) (h : splineDim p n m per = .ok d) :
    m.length = n + 1 ∧ (∀ x ∈ m, 1 ≤ x ∧ x ≤ p + 1) ∧
    (∀ e, e < n → d.start.getD e 0 = ((m.take (e+1)).drop 1).sum) ∧
    d.nd = (if per && !(m.getD 0 0 == m.getD n 0 && m.getD n 0 == p+1) then (m.take n).sum
            else p + 1 + ((m.take n).drop 1).sum) :=
  ⟨(resolveMults_range hm).1, (resolveMults_range hm).2, (splineDim_formula h).1, (splineDim_formula h).2⟩

/-- **continuity → multiplicity conversion**: a request for continuity `c` (negative values count down from the
degree: `-1` is `C^(p-1)`) is accepted iff the resulting `C^c'` has `-1 ≤ c' < p`, and interior knots then get
multiplicity `p - c'` (the B-spline rule: multiplicity `μ` ⇔ `C^(p-μ)`), which lies in `[1, p+1]`. -/
theorem continuity_to_multiplicity (p : Nat) (c : Int) :
    let c' := if c < 0 then c + (p : Int) else c
    (resolveCont p c = .error .continuity ↔ ¬ (-1 ≤ c' ∧ c' < (p : Int))) ∧
    ∀ f, resolveCont p c = .ok f → (f : Int) = (p : Int) - c' ∧ 1 ≤ f ∧ f ≤ p + 1 := by
  intro c'
  unfold resolveCont
  by_cases h : -1 ≤ c' ∧ c' < (p : Int)
  · have e : (if -1 ≤ c' ∧ c' < (p : Int) then (Except.ok ((p : Int) - c').toNat : Except SplErr Nat) else .error .continuity)
        = .ok ((p : Int) - c').toNat := if_pos h
    refine ⟨?_, ?_⟩
    · show (if -1 ≤ c' ∧ c' < (p : Int) then (Except.ok ((p : Int) - c').toNat : Except SplErr Nat) else .error .continuity) = _ ↔ _
      rw [e]; constructor
      · intro h'; cases h'
      · intro h'; exact absurd h h'
    · intro f hf
      have hf' : (Except.ok ((p : Int) - c').toNat : Except SplErr Nat) = .ok f := by rw [← e]; exact hf
      injection hf' with hf'
      omega
  · have e : (if -1 ≤ c' ∧ c' < (p : Int) then (Except.ok ((p : Int) - c').toNat : Except SplErr Nat) else .error .continuity)
        = .error .continuity := if_neg h
    refine ⟨?_, ?_⟩
    · show (if -1 ≤ c' ∧ c' < (p : Int) then (Except.ok ((p : Int) - c').toNat : Except SplErr Nat) else .error .continuity) = _ ↔ _
      rw [e]; exact ⟨fun _ => h, fun _ => rfl⟩
    · intro f hf
      have hf' : (Except.error SplErr.continuity : Except SplErr Nat) = .ok f := by rw [← e]; exact hf
      cases hf'

/-- a non-periodic dimension never wraps: the last element's dof range ends exactly at `nd` -/
theorem spline_nonperiodic_nowrap (p n : Nat) (m : List Nat) (d : SDim) (h : splineDim p n m false = .ok d) :
    d.stop.getLast?.getD 0 = d.nd :=
  splineDim_nowrap h

/-- **`_basis_spline` (the dof lists behind `MultipatchTopology.basis_spline`)**: for every degree, element count and
multiplicity vector it accepts, the dimension has `Σ m - p - 1 > 0` dofs and element `e` carries the consecutive dofs
`[max(0, μ_e - p), min(μ_e + 1, nd))`, `μ_e = m[0]+…+m[e]-1`: exactly the B-splines of the knot vector with
multiplicities `m` whose support contains the element (end knots of multiplicity `< p+1` truncate the range). -/
theorem vs_slices_spec (p n : Nat) (m : List Nat) (sl : List (Nat × Nat)) (nd : Nat) (h : vsDim p n m = .ok (sl, nd)) :
    sl.length = n ∧ (nd : Int) = (m.sum : Int) - p - 1 ∧ 0 < nd ∧
    ∀ e, e < n → sl.getD e (0, 0) =
      ((max 0 (((m.take (e+1)).sum : Int) - 1 - p)).toNat, (min (((m.take (e+1)).sum : Int)) (nd : Int)).toNat) :=
  vsDim_spec h

-- non-vacuity: a 2-D request (degree 1 × periodic degree 2 with C^0 continuity) is accepted
example : ∃ ds, [((1 : Nat), (2 : Nat), (-1 : Int), (none : Option (List Nat)), false), (2, 2, 0, none, true)].mapM buildDim = .ok ds :=
  ⟨_, rfl⟩

/-! ## generic `Basis` bookkeeping -/

/-- `PlainBasis` (`Basis._computed_support`): the computed support of dof `d` lists exactly the elements whose
dof list contains `d` — for every table of per-element dof lists. -/
theorem support_dofs_inverse_plain (ndofs : Nat) (table : List (List Nat)) (d : Nat) (hd : d < ndofs) (e : Nat) :
    e ∈ (computedSupport ndofs table).getD d [] ↔ e < table.length ∧ d ∈ table.getD e [] :=
  computedSupport_iff ndofs table d hd e

/-- `DiscontBasis`: `get_support(d) = [searchsorted(offsets[:-1], d, 'right') - 1]` is the inverse of
`get_dofs(e) = offsets[e] + range(size_e)`, for all per-element sizes (zero sizes included). -/
theorem support_dofs_inverse_discont (sizes : List Nat) (d : Nat) (hd : d < sizes.sum) (e : Nat) :
    e ∈ discontSupport sizes d ↔ d ∈ discontDofs sizes e :=
  discont_inverse sizes d hd e

/-- `LegendreBasis`: `get_support(d) = [d // (p+1)]` is the inverse of `get_dofs(e) = e(p+1) + range(p+1)`. -/
theorem support_dofs_inverse_legendre (p d e : Nat) : e ∈ legendreSupport p d ↔ d ∈ legendreDofs p e :=
  legendre_inverse p d e

/-- `MaskedBasis` (`basis[mask]`): for every parent whose maps are mutual inverses and every strictly
increasing (duplicate free, in range) index vector, the masked basis' maps are mutual inverses. -/
theorem support_dofs_inverse_masked (pD pS : Nat → List Nat) (hpar : ∀ e d, e ∈ pS d ↔ d ∈ pD e)
    (indices : List Nat) (nparent : Nat) (hnd : indices.Nodup) (hr : ∀ i ∈ indices, i < nparent)
    (d : Nat) (hd : d < indices.length) (e : Nat) :
    e ∈ maskedSupport pS indices d ↔ d ∈ maskedDofs (pD e) indices nparent :=
  masked_inverse pD pS hpar indices nparent hnd hr d hd e

/-- `PrunedBasis` (bases on trimmed / subset topologies): for every parent whose maps are mutual inverses and
every duplicate-free element selection, the pruned basis' maps are mutual inverses. -/
theorem support_dofs_inverse_pruned (pD pS : Nat → List Nat) (hpar : ∀ e d, e ∈ pS d ↔ d ∈ pD e)
    (transmap : List Nat) (nparent : Nat) (hnd : transmap.Nodup) (hr : ∀ e x, x ∈ pD e → x < nparent)
    (d : Nat) (hd : d < (prunedDofmap pD transmap).length) (e : Nat) :
    e ∈ prunedSupport pD pS transmap d ↔ e < transmap.length ∧ d ∈ prunedDofs pD transmap nparent e :=
  pruned_inverse pD pS hpar transmap nparent hnd hr d hd e

/-! ## partition of unity -/

/-- **B-spline partition of unity** (Cox–de Boor over ℚ, for every degree and every non-decreasing knot
sequence, repeated knots included): on the knot span `[T (j0+p), T (j0+p+1))` the `p+1` consecutive B-splines
`N_{j0,p} … N_{j0+p,p}` sum to one. -/
theorem bspline_pou (T : Nat → Rat) (hT : ∀ i j, i ≤ j → T i ≤ T j) (p j0 : Nat) (x : Rat)
    (h1 : T (j0+p) ≤ x) (h2 : x < T (j0+p+1)) :
    ((List.range (p+1)).map fun i => bspline T p (j0+i) x).sum = 1 := by
  rw [list_sum_eq_finset]
  exact bspline_pou_finset T (fun i j h => hT i j h) p j0 x h1 h2

/-- **local support**: every other B-spline vanishes on that span, so the functions that are non-zero on an
element are among the `p+1` consecutive ones. -/
theorem bspline_local_support (T : Nat → Rat) (hT : ∀ i j, i ≤ j → T i ≤ T j) (p j0 j : Nat) (x : Rat)
    (h1 : T (j0+p) ≤ x) (h2 : x < T (j0+p+1)) (hj : j < j0 ∨ j0 + p < j) : bspline T p j x = 0 := by
  have hm : Monotone T := fun i j h => hT i j h
  rcases hj with hj | hj
  · exact bspline_zero_right T hm p j x (le_trans (hT _ _ (by omega)) h1)
  · exact bspline_zero_left T hm p j x (lt_of_lt_of_le h2 (hT _ _ (by omega)))

/-- **Bernstein partition of unity**: for every degree `n` and every rational `x`, `Σ_i C(n,i) x^i (1-x)^(n-i) = 1`. -/
theorem bernstein_pou (n : Nat) (x : Rat) : ((List.range (n+1)).map fun i => bernstein n i x).sum = 1 := by
  rw [list_sum_eq_finset]; exact bernstein_sum_finset n x


/-- **the dof slice of an element names exactly the B-splines that live there** (property clause "the per-element dof
list describes exactly the functions that are non-zero there" + partition of unity, for every non-periodic spline
dimension: any degree `p`, element count `n`, admissible multiplicity vector `m`, non-decreasing knot values `k`).
With `T` the open knot vector (`k[i]` repeated `m[i]` times, ends `p+1` times) and `x` in element `e = [k e, k (e+1))`:
the B-splines `N_{j,p}` over `T` with `j ∈ get_dofs(e)` sum to one, and every other `N_{j,p}` vanishes at `x`. -/
theorem spline_element_pou (p n : Nat) (m : List Nat) (d : SDim) (hd : splineDim p n m false = .ok d)
    (hm : ∀ x ∈ m, 1 ≤ x) (k : List Rat) (hk : k.length = n + 1) (hks : k.Pairwise (· ≤ ·))
    (e : Nat) (he : e < n) (x : Rat) (h1 : k.getD e 0 ≤ x) (h2 : x < k.getD (e+1) 0) :
    ((dofs1 d e).map fun j => bspline (knotSeq (knotVector (openMults p n m) k)) p j x).sum = 1 ∧
    ∀ j, j ∉ dofs1 d e → bspline (knotSeq (knotVector (openMults p n m) k)) p j x = 0 := by
  have hT : ∀ i j, i ≤ j → knotSeq (knotVector (openMults p n m) k) i ≤ knotSeq (knotVector (openMults p n m) k) j :=
    knotSeq_mono _ (knotVector_sorted _ _ hks)
  obtain ⟨hs1, hs2⟩ := span_of_element hd hm k hk e he
  obtain ⟨hwf, hn, hstop⟩ := splineDim_wf hd hm
  have hnowrap := splineDim_nowrap hd
  have hlt : e < d.start.length := by rw [← hn] at he; exact he
  have hstopE : d.stop.getD e 0 = d.start.getD e 0 + p + 1 := by rw [hstop]; exact getD_map_of_lt _ hlt
  have hle : d.stop.getD e 0 ≤ d.nd := by
    rw [← hnowrap]; exact getD_le_getLast hwf.sstop (by rw [hwf.len]; exact hlt)
  have hdofs : dofs1 d e = (List.range (p+1)).map (fun r => d.start.getD e 0 + r) := by
    unfold dofs1
    rw [hstopE, show d.start.getD e 0 + p + 1 - d.start.getD e 0 = p + 1 by omega]
    apply List.map_congr_left
    intro r hr
    have := List.mem_range.mp hr
    exact Nat.mod_eq_of_lt (by omega)
  constructor
  · rw [hdofs, List.map_map]
    exact bspline_pou _ hT p (d.start.getD e 0) x (by rw [hs1]; exact h1) (by rw [hs2]; exact h2)
  · intro j hj
    apply bspline_local_support _ hT p (d.start.getD e 0) j x (by rw [hs1]; exact h1) (by rw [hs2]; exact h2)
    rw [hdofs] at hj
    by_cases hlow : j < d.start.getD e 0
    · left; exact hlow
    · right
      by_cases hhigh : d.start.getD e 0 + p < j
      · exact hhigh
      · exfalso; apply hj
        rw [List.mem_map]
        exact ⟨j - d.start.getD e 0, List.mem_range.mpr (by omega), by omega⟩

-- non-vacuity of `spline_element_pou`: a quadratic C^1 spline on two elements, x = 1/2 in element 0
example : ∃ d, splineDim 2 2 [1, 1, 1] false = .ok d ∧ (∀ x ∈ [1, 1, 1], 1 ≤ x) ∧
    ([0, 1, 2] : List Rat).Pairwise (· ≤ ·) ∧ ([0, 1, 2] : List Rat).getD 0 0 ≤ 1/2 ∧ (1/2 : Rat) < ([0, 1, 2] : List Rat).getD 1 0 :=
  ⟨_, rfl, by decide, by decide +kernel, by decide +kernel, by decide +kernel⟩

/-- **(X) the real Bernstein coefficient tables** (`Reference.get_poly_coeffs('bernstein', degree)` of the current /repo,
regenerated on every run for the line, triangle, tetrahedron, square and cube): in every table the polynomials sum to
the constant one. -/
theorem bernstein_table_pou : ∀ t ∈ Generated.bernsteinTables, tablePou t.2.2 = true := by
  decide +kernel

/-! ## `Basis.__getitem__` with a slice -/

/-- **`Basis.__getitem__(slice)`, positive step** (property clause: "a masked basis contains exactly the selected functions").
For every length `n` and every slice with a positive step the result is the basis itself or a `MaskedBasis`, never anything else;
its content `idx` (parent dofs, in order; the basis itself = `range n`) is strictly increasing and in range — the precondition
of `MaskedBasis` — and contains exactly the indices Python slicing selects: `a ≤ i < b`, `i ≡ a (mod step)` with `(a, b, step) =
slice.indices(n)`.  In particular the "nothing to mask" shortcut is only taken when every function is selected. -/
theorem getitem_slice_content (n : Nat) (st sp se : Option Int) (a b s : Int)
    (h : sliceIndices n st sp se = some (a, b, s)) (hs : 0 < s) :
    ∃ idx, (basisGetSlice n st sp se).content n = some idx ∧ idx.Pairwise (· < ·) ∧ (∀ i ∈ idx, i < n) ∧
      ∀ i : Nat, i ∈ idx ↔ (a ≤ i ∧ (i : Int) < b ∧ ((i : Int) - a) % s = 0) := by
  obtain ⟨ha0, han, hb0, hbn⟩ := sliceIndices_pos_bounds h hs
  unfold basisGetSlice
  rw [h]
  simp only
  split
  · rename_i hself
    obtain ⟨rfl, rfl, rfl⟩ := hself
    refine ⟨List.range n, rfl, List.pairwise_lt_range, fun i hi => List.mem_range.mp hi, fun i => ?_⟩
    simp only [List.mem_range]
    constructor
    · intro hi; refine ⟨by omega, by omega, ?_⟩; simp
    · rintro ⟨_, h2, _⟩; omega
  · refine ⟨arangeUp a b s, rfl, arangeUp_pairwise ha0 hs, fun i hi => ?_, fun i => mem_arangeUp ha0 hs i⟩
    have := (mem_arangeUp ha0 hs i).mp hi
    omega

/-- a slice with step 0 is refused, a negative step is not a `Basis` any more (generic `Array` indexing) -/
theorem getitem_slice_other (n : Nat) (st sp se : Option Int) :
    (se = some 0 → basisGetSlice n st sp se = .valueError) ∧
    (∀ s, se = some s → s < 0 → basisGetSlice n st sp se = .generic) := by
  constructor
  · rintro rfl; simp [basisGetSlice, sliceIndices]
  · rintro s rfl hs
    have h0 : s ≠ 0 := by omega
    have h1 : ¬ (s = 1) := by omega
    have h2 : ¬ (s > 0) := by omega
    simp [basisGetSlice, sliceIndices, h0, h1, h2]

/-- the hypotheses of `getitem_slice_content` are satisfiable -/
example : sliceIndices 7 none none (some 2) = some (0, 7, 2) ∧ (0 : Int) < 2 := by decide
example : basisGetSlice 7 none none (some 2) = .masked [0, 2, 4, 6] := by decide
example : basisGetSlice 7 none none none = .self := by decide
example : basisGetSlice 7 (some 1) (some (-1)) none = .masked [1, 2, 3, 4, 5] := by decide
example : basisGetSlice 7 (some (-20)) (some 20) (some 3) = .masked [0, 3, 6] := by decide

end NutilsVerif.C12
