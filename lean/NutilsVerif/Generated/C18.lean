import NutilsVerif.Model.C18
/-! generated from src/nutils/cache.py by harness/nvh/c18.py on every run -- do not edit -/
namespace NutilsVerif.C18.Gen
open NutilsVerif.C18

/-- `except` classes around `pickle.load` in Fn: EOFError, UnpicklingError, IndexError -/
def caughtFn : List LoadErr := [.eof, .unpickling, .index]
/-- a catch-all (`Exception`/`BaseException`/bare except) is listed -/
def caughtFnAll : Bool := false

/-- `except` classes around `pickle.load` in Rec: UnpicklingError, IndexError, EOFError -/
def caughtRec : List LoadErr := [.unpickling, .index, .eof]
/-- a catch-all (`Exception`/`BaseException`/bare except) is listed -/
def caughtRecAll : Bool := false

end NutilsVerif.C18.Gen
