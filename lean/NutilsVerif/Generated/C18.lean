import NutilsVerif.Model.C18
/-! generated from src/nutils/cache.py by harness/nvh/c18.py on every run -- do not edit -/
namespace NutilsVerif.C18.Gen
open NutilsVerif.C18

/-- `except` classes around `pickle.load` in Fn: Exception -/
def caughtFn : List LoadErr := []
/-- a catch-all (`Exception`/`BaseException`/bare except) is listed -/
def caughtFnAll : Bool := true

/-- `except` classes around `pickle.load` in Rec: EOFError, Exception -/
def caughtRec : List LoadErr := [.eof]
/-- a catch-all (`Exception`/`BaseException`/bare except) is listed -/
def caughtRecAll : Bool := true

end NutilsVerif.C18.Gen
