import NutilsVerif.Model.C04
/-! GENERATED on every run by harness/nvh/c04.py from the running nutils source: every `Pointwise.deriv` entry applied to scalar
Arguments and the derivative trees of the derived scalar operations, serialised into `SE` — do not edit. -/
namespace NutilsVerif.C04.Generated
open NutilsVerif.C04

/-- (function name, arity, position, the function, the derivative tree the code produces) -/
def table : List Entry := [
  ⟨"arccos", 1, 0, (.app1 "arccos" (.var 0)), (.mul ((.pow ((.pow ((.add ((.mul ((.pow (.var 0) (.const (2) 1))) (.const (-1) 1))) (.const (1) 1))) (.const (1) 2))) (.const (-1) 1))) (.const (-1) 1))⟩,
  ⟨"arcsin", 1, 0, (.app1 "arcsin" (.var 0)), (.pow ((.pow ((.add ((.mul ((.pow (.var 0) (.const (2) 1))) (.const (-1) 1))) (.const (1) 1))) (.const (1) 2))) (.const (-1) 1))⟩,
  ⟨"arctan", 1, 0, (.app1 "arctan" (.var 0)), (.pow ((.add ((.pow (.var 0) (.const (2) 1))) (.const (1) 1))) (.const (-1) 1))⟩,
  ⟨"arctan2", 2, 0, (.app2 "arctan2" (.var 0) (.var 1)), (.mul ((.pow ((.add ((.pow (.var 0) (.const (2) 1))) ((.pow (.var 1) (.const (2) 1))))) (.const (-1) 1))) (.var 1))⟩,
  ⟨"arctan2", 2, 1, (.app2 "arctan2" (.var 0) (.var 1)), (.mul ((.mul (.const (-1) 1) (.var 0))) ((.pow ((.add ((.pow (.var 0) (.const (2) 1))) ((.pow (.var 1) (.const (2) 1))))) (.const (-1) 1))))⟩,
  ⟨"arctanh", 1, 0, (.app1 "arctanh" (.var 0)), (.pow ((.add ((.mul ((.pow (.var 0) (.const (2) 1))) (.const (-1) 1))) (.const (1) 1))) (.const (-1) 1))⟩,
  ⟨"cos", 1, 0, (.app1 "cos" (.var 0)), (.mul ((.app1 "sin" (.var 0))) (.const (-1) 1))⟩,
  ⟨"cosh", 1, 0, (.app1 "cosh" (.var 0)), (.app1 "sinh" (.var 0))⟩,
  ⟨"exp", 1, 0, (.app1 "exp" (.var 0)), (.app1 "exp" (.var 0))⟩,
  ⟨"log", 1, 0, (.app1 "log" (.var 0)), (.pow (.var 0) (.const (-1) 1))⟩,
  ⟨"max", 2, 0, (.app2 "max" (.var 0) (.var 1)), (.add ((.mul ((.app1 "sign" ((.add ((.mul (.const (-1) 1) (.var 1))) (.var 0))))) (.const (1) 2))) (.const (1) 2))⟩,
  ⟨"max", 2, 1, (.app2 "max" (.var 0) (.var 1)), (.add ((.mul ((.mul ((.app1 "sign" ((.add ((.mul (.const (-1) 1) (.var 1))) (.var 0))))) (.const (1) 2))) (.const (-1) 1))) (.const (1) 2))⟩,
  ⟨"min", 2, 0, (.app2 "min" (.var 0) (.var 1)), (.add ((.mul ((.mul ((.app1 "sign" ((.add ((.mul (.const (-1) 1) (.var 1))) (.var 0))))) (.const (1) 2))) (.const (-1) 1))) (.const (1) 2))⟩,
  ⟨"min", 2, 1, (.app2 "min" (.var 0) (.var 1)), (.add ((.mul ((.app1 "sign" ((.add ((.mul (.const (-1) 1) (.var 1))) (.var 0))))) (.const (1) 2))) (.const (1) 2))⟩,
  ⟨"sin", 1, 0, (.app1 "sin" (.var 0)), (.app1 "cos" (.var 0))⟩,
  ⟨"sinh", 1, 0, (.app1 "sinh" (.var 0)), (.app1 "cosh" (.var 0))⟩,
  ⟨"sinc0", 1, 0, (.app1 "sinc0" (.var 0)), (.app1 "sinc1" (.var 0))⟩,
  ⟨"tan", 1, 0, (.app1 "tan" (.var 0)), (.pow ((.app1 "cos" (.var 0))) (.const (-2) 1))⟩,
  ⟨"tanh", 1, 0, (.app1 "tanh" (.var 0)), (.add ((.mul ((.pow ((.app1 "tanh" (.var 0))) (.const (2) 1))) (.const (-1) 1))) (.const (1) 1))⟩,
  ⟨"reciprocal", 1, 0, (.pow (.var 0) (.const (-1) 1)), (.add ((.mul ((.mul ((.app1 "log" (.var 0))) ((.pow (.var 0) (.const (-1) 1))))) (.const (0) 1))) ((.mul ((.mul ((.pow (.var 0) ((.add ((.mul (.const (-1) 1) (.const (1) 1))) (.const (-1) 1))))) (.const (-1) 1))) (.const (1) 1))))⟩,
  ⟨"negative", 1, 0, (.mul (.const (-1) 1) (.var 0)), (.add ((.mul (.const (-1) 1) (.const (1) 1))) ((.mul (.const (0) 1) (.var 0))))⟩,
  ⟨"sqrt", 1, 0, (.pow (.var 0) (.const (1) 2)), (.mul ((.mul ((.pow (.var 0) (.const (-1) 2))) (.const (1) 2))) (.const (1) 1))⟩,
  ⟨"abs", 1, 0, (.mul ((.app1 "sign" (.var 0))) (.var 0)), (.add ((.mul ((.app1 "sign" (.var 0))) (.const (1) 1))) ((.mul (.const (0) 1) (.var 0))))⟩,
  ⟨"power:3", 1, 0, (.pow (.var 0) (.const (3) 1)), (.mul ((.mul ((.pow (.var 0) (.const (2) 1))) (.const (3) 1))) (.const (1) 1))⟩,
  ⟨"power:5/2", 1, 0, (.pow (.var 0) (.const (5) 2)), (.mul ((.mul ((.pow (.var 0) (.const (3) 2))) (.const (5) 2))) (.const (1) 1))⟩,
  ⟨"power:-2", 1, 0, (.pow (.var 0) (.const (-2) 1)), (.mul ((.mul ((.pow (.var 0) (.const (-3) 1))) (.const (-2) 1))) (.const (1) 1))⟩,
  ⟨"divide", 2, 0, (.mul ((.pow (.var 1) (.const (-1) 1))) (.var 0)), (.add ((.mul ((.pow (.var 1) (.const (-1) 1))) (.const (1) 1))) ((.mul (.const (0) 1) (.var 0))))⟩,
  ⟨"divide", 2, 1, (.mul ((.pow (.var 1) (.const (-1) 1))) (.var 0)), (.add ((.mul ((.add ((.mul ((.mul ((.app1 "log" (.var 1))) ((.pow (.var 1) (.const (-1) 1))))) (.const (0) 1))) ((.mul ((.mul ((.pow (.var 1) ((.add ((.mul (.const (-1) 1) (.const (1) 1))) (.const (-1) 1))))) (.const (-1) 1))) (.const (1) 1))))) (.var 0))) ((.mul ((.pow (.var 1) (.const (-1) 1))) (.const (0) 1))))⟩,
  ⟨"subtract", 2, 0, (.add ((.mul (.const (-1) 1) (.var 1))) (.var 0)), (.add (.const (0) 1) (.const (1) 1))⟩,
  ⟨"subtract", 2, 1, (.add ((.mul (.const (-1) 1) (.var 1))) (.var 0)), (.add ((.add ((.mul (.const (-1) 1) (.const (1) 1))) ((.mul (.const (0) 1) (.var 1))))) (.const (0) 1))⟩,
  ⟨"powvar", 2, 0, (.pow (.var 0) (.var 1)), (.add ((.mul ((.mul ((.app1 "log" (.var 0))) ((.pow (.var 0) (.var 1))))) (.const (0) 1))) ((.mul ((.mul ((.pow (.var 0) ((.add ((.mul (.const (-1) 1) (.const (1) 1))) (.var 1))))) (.var 1))) (.const (1) 1))))⟩,
  ⟨"powvar", 2, 1, (.pow (.var 0) (.var 1)), (.add ((.mul ((.mul ((.app1 "log" (.var 0))) ((.pow (.var 0) (.var 1))))) (.const (1) 1))) ((.mul ((.mul ((.pow (.var 0) ((.add ((.mul (.const (-1) 1) (.const (1) 1))) (.var 1))))) (.var 1))) (.const (0) 1))))⟩
]

/-- entries of the code that could not be expressed in `SE` (not claimed) -/
def outside : List (String × Nat) := []

end NutilsVerif.C04.Generated
